import PlzVerif.Lemmas.AspLex
import PlzVerif.Model.AspParse
/-!
Lemmas about the parser model: a small program logic (`Safe`) for the parser monad, a specification of
every grammar function (`Specs`), proved for all of them together by induction on the fuel, and the
resulting statement about `parseFile`.

The invariant is the lexer's (`LInv`: position before the second sentinel, before the first unless the
look-ahead token is EOF, indent stack well formed) plus "an EOF token has an empty value"; the progress
measure is the lexer's `M`.  Every function needs fuel `need k r = 8k + r + 1` when started with measure
at most `k`, where the rank `r` orders the calls made without consuming a token.
-/
namespace PlzVerif.AspParse
open PlzVerif.AspLex PlzVerif.Generated

/-! ### EOF tokens carry no value -/

theorem strTok_ty {tp : Nat} {r : Except LexErr (Nat × Bytes)} {p : Nat} {t : Token}
    (h : strTok tp r = .ok (p, t)) : t.ty = .string := by
  unfold strTok at h
  split at h
  · cases h
  · cases h; rfl

theorem consumeQuoted_ty {b : Bytes} {q : UInt8} {tp : Nat} {raw fstr : Bool} {pos p : Nat} {t : Token}
    (h : consumeQuoted b q tp raw fstr pos = .ok (p, t)) : t.ty = .string := by
  unfold consumeQuoted at h
  simp only [] at h
  repeat' split at h
  all_goals first | cases h | exact strTok_ty h

theorem lexSimple_eof_val {b : Bytes} {s s' : LexState} {p : Nat} {c : UInt8} {t : Token}
    (h : lexSimple b s p c = .ok (t, s')) (he : t.ty = .eof) : t.val = #[] := by
  unfold lexSimple at h
  simp only [] at h
  by_cases h0 : c = 0
  · rw [if_pos h0] at h; cases h; rfl
  rw [if_neg h0] at h
  exfalso
  by_cases h48 : c = 48
  · rw [if_pos h48] at h
    split at h
    · cases h
    · split at h
      · cases h
      · cases h; cases he
  rw [if_neg h48] at h
  by_cases hd : isDigit c = true
  · rw [if_pos hd] at h
    split at h
    · cases h
    · cases h; cases he
  rw [if_neg hd] at h
  by_cases hq : c = 34 ∨ c = 39
  · rw [if_pos hq] at h
    split at h
    · cases h
    · rename_i q t' hcq
      cases h; have := consumeQuoted_ty hcq; rw [this] at he; cases he
  rw [if_neg hq] at h
  by_cases hob : C19.openBraces.contains c.toNat = true
  · rw [if_pos hob] at h; cases h; simp [single] at he
  rw [if_neg hob] at h
  by_cases hcb : C19.closeBraces.contains c.toNat = true
  · rw [if_pos hcb] at h; cases h; simp [single] at he
  rw [if_neg hcb] at h
  by_cases heq : C19.eqOps.contains c.toNat = true
  · rw [if_pos heq] at h
    split at h
    · cases h
    · split at h
      · cases h; cases he
      · cases h; simp [single] at he
  rw [if_neg heq] at h
  by_cases hsg : C19.singles.contains c.toNat = true
  · rw [if_pos hsg] at h; cases h; simp [single] at he
  rw [if_neg hsg] at h
  by_cases h47 : c = 47
  · rw [if_pos h47] at h
    split at h
    · cases h
    · split at h
      · cases h; cases he
      · cases h; simp [single] at he
  rw [if_neg h47] at h
  by_cases h45 : c = 45
  · rw [if_pos h45] at h
    split at h
    · cases h
    · split at h
      · split at h
        · cases h
        · cases h; cases he
      · cases h; simp [single] at he
  rw [if_neg h45] at h
  split at h <;> cases h

theorem nextToken_eof_val {b : Bytes} {s s' : LexState} {t : Token}
    (h : nextToken b s = .ok (t, s')) (he : t.ty = .eof) : t.val = #[] := by
  fun_induction nextToken b s with
  | case1 x e hs => cases h
  | case2 x q hs hun => cases h; cases he
  | case3 x q hs hun hq next la e hla => cases h
  | case4 x q hs hun hq next la c2 hla quoteFollows raw fstr hrf e hcq => cases h
  | case5 x q hs hun hq next la c2 hla quoteFollows raw fstr hrf q1 t' hcq =>
    cases h; have := consumeQuoted_ty hcq; rw [this] at he; cases he
  | case6 x q hs hun hq next la c2 hla quoteFollows raw fstr hrf hid e hci => cases h
  | case7 x q hs hun hq next la c2 hla quoteFollows raw fstr hrf hid p v hci => cases h; cases he
  | case8 x q hs hun hq next la c2 hla quoteFollows raw fstr hrf hid h13 ih => exact ih h
  | case9 x q hs hun hq next la c2 hla quoteFollows raw fstr hrf hid h13 h10 e hnl => cases h
  | case10 x q hs hun hq next la c2 hla quoteFollows raw fstr hrf hid h13 h10 q1 hnl ih => exact ih h
  | case11 x q hs hun hq next la c2 hla quoteFollows raw fstr hrf hid h13 h10 tokPos s'' hnl hcond =>
    cases h; cases he
  | case12 x q hs hun hq next la c2 hla quoteFollows raw fstr hrf hid h13 h10 tokPos s'' hnl hcond ih => exact ih h
  | case13 x q hs hun hq next la c2 hla quoteFollows raw fstr hrf hid h13 h10 h35 e hsc => cases h
  | case14 x q hs hun hq next la c2 hla quoteFollows raw fstr hrf hid h13 h10 h35 q1 hsc ih => exact ih h
  | case15 x q hs hun hq next la c2 hla quoteFollows raw fstr hrf hid h13 h10 h35 => exact lexSimple_eof_val h he
  | case16 x q hs hun hge => cases h


/-! ### a small program logic for the parser monad -/

/-- How a parser function may fail: positioned (lexer or parser), or the concatStrings runtime error. -/
def GoodErr (n : Nat) : PErr → Prop
  | .lex e => IsFail n e
  | .fail p k => p ≤ n ∨ k = .fbrace     -- the f-string brace error is reported relative to the token
  | .runtime s => s = 0 ∧ (C19.concatGuardsBareFString = false ∨ C19.concatGuardsBothFString = false)   -- only an unguarded concatStrings
  | .outOfFuel => False

/-- `m` run from `l` fails well or ends in a state satisfying `Q`. -/
def Safe {α : Type} (n : Nat) (m : P α) (l : Lexer) (Q : α → Lexer → Prop) : Prop :=
  match m l with
  | .ok (a, l') => Q a l'
  | .error e => GoodErr n e

theorem Safe.pure {α : Type} {n : Nat} {a : α} {l : Lexer} {Q : α → Lexer → Prop} (h : Q a l) :
    Safe n (pure a : P α) l Q := h

theorem Safe.bind {α β : Type} {n : Nat} {m : P α} {f : α → P β} {l : Lexer} {Q : β → Lexer → Prop}
    (h : Safe n m l (fun a l' => Safe n (f a) l' Q)) : Safe n (m >>= f) l Q := by
  unfold Safe at h ⊢
  simp only [Bind.bind]
  cases hm : m l with
  | error e => rw [hm] at h; exact h
  | ok r =>
    obtain ⟨a, l'⟩ := r
    rw [hm] at h
    exact h

theorem Safe.mono {α : Type} {n : Nat} {m : P α} {l : Lexer} {Q Q' : α → Lexer → Prop}
    (h : Safe n m l Q) (hq : ∀ a l', Q a l' → Q' a l') : Safe n m l Q' := by
  unfold Safe at h ⊢
  split <;> simp_all

theorem Safe.failAt {α : Type} {n : Nat} {t : Token} {k : PKind} {l : Lexer} {Q : α → Lexer → Prop}
    (h : t.pos ≤ n) : Safe n (failAt t k : P α) l Q := Or.inl h

theorem Safe.peek {n : Nat} {l : Lexer} {Q : Token → Lexer → Prop} (h : Q l.next l) : Safe n peek l Q := h

/-- Parser-side invariant of the lexer object: the lexer's, plus "an EOF token has no value". -/
structure PInv (b : Bytes) (n : Nat) (l : Lexer) : Prop where
  inv : LInv b n l
  eofval : l.next.ty = .eof → l.next.val = #[]

/-- State assertion: invariant and progress measure at most `k`. -/
def St (b : Bytes) (n k : Nat) (l : Lexer) : Prop := PInv b n l ∧ M b l.st ≤ k

theorem adv_safe {b : Bytes} {n k : Nat} (S : Sentinel b n) {l : Lexer} (h : St b n k l) (hne : l.next.ty ≠ .eof) :
    Safe n (adv b) l (fun t l' => t = l.next ∧ St b n (k - 1) l' ∧ 1 ≤ k) := by
  unfold Safe adv
  rcases advance_specA S l h.1.inv (h.1.inv.noneof hne) with ⟨l', h1, h2, h3⟩ | ⟨e, h1, h2⟩
  · rw [h1]
    refine ⟨rfl, ⟨⟨h2, ?_⟩, ?_⟩, ?_⟩
    · -- eofval of the new look-ahead token
      intro he
      unfold Lexer.advance at h1
      split at h1
      · cases h1
      · rename_i t st hnt
        cases h1
        exact nextToken_eof_val hnt he
    · have := h.2; omega
    · have := h.2; omega
  · rw [h1]; exact h2

/-- `Next()` when the look-ahead is the first EOF: allowed once; nothing is known about the state after. -/
theorem adv_eof_safe {b : Bytes} {n k : Nat} (S : Sentinel b n) {l : Lexer} (h : St b n k l) :
    Safe n (adv b) l (fun t _ => t = l.next) := by
  unfold Safe adv
  rcases advance_specB S l h.1.inv with ⟨l', h1⟩ | ⟨e, h1, h2⟩
  · rw [h1]
  · rw [h1]; exact h2

theorem next_safe {b : Bytes} {n k : Nat} (S : Sentinel b n) {l : Lexer} (h : St b n k l) (ty : TokType)
    (hty : ty ≠ .eof) : Safe n (next b ty) l (fun t l' => t.ty = ty ∧ St b n (k - 1) l' ∧ 1 ≤ k) := by
  unfold next
  apply Safe.bind
  by_cases hne : l.next.ty = .eof
  · apply (adv_eof_safe S h).mono
    intro t l' ht
    subst ht
    rw [if_neg (by rw [hne]; exact fun h => hty h.symm)]
    exact Safe.failAt h.1.inv.tpos
  · apply (adv_safe S h hne).mono
    intro t l' ⟨ht, hst, hk⟩
    subst ht
    split
    · exact Safe.pure ⟨by assumption, hst, hk⟩
    · exact Safe.failAt h.1.inv.tpos


theorem PInv.ne_eof {b : Bytes} {n : Nat} {l : Lexer} (h : PInv b n l) {v : Bytes}
    (hv : l.next.val = v) (hne : v ≠ #[]) : l.next.ty ≠ .eof := by
  intro he
  exact hne (by rw [← hv]; exact h.eofval he)

theorem nextv_safe {b : Bytes} {n k : Nat} (S : Sentinel b n) {l : Lexer} (h : St b n k l) (v : Bytes)
    (hv : v ≠ #[]) : Safe n (nextv b v) l (fun t l' => t.val = v ∧ St b n (k - 1) l' ∧ 1 ≤ k) := by
  unfold nextv
  apply Safe.bind
  by_cases hne : l.next.ty = .eof
  · apply (adv_eof_safe S h).mono
    intro t l' ht
    subst ht
    rw [if_neg (by rw [h.1.eofval hne]; exact fun h => hv h.symm)]
    exact Safe.failAt h.1.inv.tpos
  · apply (adv_safe S h hne).mono
    intro t l' ⟨ht, hst, hk⟩
    subst ht
    split
    · exact Safe.pure ⟨by assumption, hst, hk⟩
    · exact Safe.failAt h.1.inv.tpos

/-- Result of `optional` / `optionalv`: either a token was consumed (progress) or nothing changed. -/
def OptPost (b : Bytes) (n k : Nat) (l : Lexer) (r : Bool) (l' : Lexer) : Prop :=
  (r = true ∧ St b n (k - 1) l' ∧ 1 ≤ k) ∨ (r = false ∧ l' = l)

theorem optional_safe {b : Bytes} {n k : Nat} (S : Sentinel b n) {l : Lexer} (h : St b n k l) (ty : TokType)
    (hty : ty ≠ .eof) : Safe n (optional b ty) l (fun r l' => OptPost b n k l r l' ∧ (r = false → l.next.ty ≠ ty)) := by
  unfold optional
  apply Safe.bind
  apply Safe.peek
  split
  · rename_i heq
    apply Safe.bind
    apply (adv_safe S h (by rw [heq]; exact hty)).mono
    intro t l' ⟨_, hst, hk⟩
    exact Safe.pure ⟨Or.inl ⟨rfl, hst, hk⟩, fun h => by cases h⟩
  · rename_i hne
    exact Safe.pure ⟨Or.inr ⟨rfl, rfl⟩, fun _ => hne⟩

theorem optionalv_safe {b : Bytes} {n k : Nat} (S : Sentinel b n) {l : Lexer} (h : St b n k l) (v : Bytes)
    (hv : v ≠ #[]) : Safe n (optionalv b v) l (fun r l' => OptPost b n k l r l' ∧ (r = false → l.next.val ≠ v)) := by
  unfold optionalv
  apply Safe.bind
  apply Safe.peek
  split
  · rename_i heq
    apply Safe.bind
    apply (adv_safe S h (h.1.ne_eof heq hv)).mono
    intro t l' ⟨_, hst, hk⟩
    exact Safe.pure ⟨Or.inl ⟨rfl, hst, hk⟩, fun h => by cases h⟩
  · rename_i hne
    exact Safe.pure ⟨Or.inr ⟨rfl, rfl⟩, fun _ => hne⟩

theorem oneof_safe {b : Bytes} {n k : Nat} (S : Sentinel b n) {l : Lexer} (h : St b n k l) (tys : List TokType)
    (hty : tys.contains .eof = false) :
    Safe n (oneof b tys) l (fun t l' => tys.contains t.ty = true ∧ St b n (k - 1) l' ∧ 1 ≤ k) := by
  unfold oneof
  apply Safe.bind
  by_cases hne : l.next.ty = .eof
  · apply (adv_eof_safe S h).mono
    intro t l' ht
    subst ht
    rw [hne, hty]
    exact Safe.failAt h.1.inv.tpos
  · apply (adv_safe S h hne).mono
    intro t l' ⟨ht, hst, hk⟩
    subst ht
    split
    · exact Safe.pure ⟨by assumption, hst, hk⟩
    · exact Safe.failAt h.1.inv.tpos

theorem oneofval_safe {b : Bytes} {n k : Nat} (S : Sentinel b n) {l : Lexer} (h : St b n k l) (vs : List String)
    (hvs : vs.any (fun v => kw v = #[]) = false) :
    Safe n (oneofval b vs) l (fun _ l' => St b n (k - 1) l' ∧ 1 ≤ k) := by
  unfold oneofval
  apply Safe.bind
  by_cases hne : l.next.ty = .eof
  · apply (adv_eof_safe S h).mono
    intro t l' ht
    subst ht
    rw [h.1.eofval hne, hvs]
    exact Safe.failAt h.1.inv.tpos
  · apply (adv_safe S h hne).mono
    intro t l' ⟨ht, hst, hk⟩
    subst ht
    split
    · exact Safe.pure ⟨hst, hk⟩
    · exact Safe.failAt h.1.inv.tpos

/-- `AssignFollows` only moves `l.pos` over spaces; it is called with an identifier as look-ahead. -/
theorem assignFollows_safe {b : Bytes} {n k : Nat} (S : Sentinel b n) {l : Lexer} (h : St b n k l)
    (hne : l.next.ty ≠ .eof) :
    Safe n (assignFollows b) l (fun _ l' => St b n k l' ∧ l'.next = l.next) := by
  have hsz := S.size
  have hp := h.1.inv.noneof hne
  unfold Safe assignFollows
  obtain ⟨p, h1, h2, h3⟩ := skipSpaces_spec S l.st.pos hp
  rw [h1]
  simp only []
  have hlt : p < b.size := by omega
  have hrd : rd b p = .ok b[p] := by simp [rd, hlt]
  rw [hrd]
  simp only []
  have hst : St b n k { l with st := { l.st with pos := p } } ∧
      ({ l with st := { l.st with pos := p } } : Lexer).next = l.next := by
    refine ⟨⟨⟨⟨h.1.inv.stack, by simp; omega, fun _ => by simpa using h3, h.1.inv.tpos⟩, h.1.eofval⟩, ?_⟩, rfl⟩
    have := h.2
    simp only [M] at this ⊢
    omega
  by_cases h61 : b[p] = 61
  · rw [if_pos h61]
    have hpn : p < n := S.lt_of_ne hlt (by rw [h61]; decide)
    have hrd2 : rd b (p + 1) = .ok b[p + 1] := by
      have : p + 1 < b.size := by omega
      simp [rd, this]
    rw [hrd2]
    exact hst
  · rw [if_neg h61]
    exact hst


/-! ### the specification of every grammar function -/

/-- Fuel that suffices for a function of rank `r` started with progress measure at most `k`. -/
def need (k r : Nat) : Nat := 8 * k + r + 1

/-- strict: at least one token consumed -/
def PostS {α : Type} (b : Bytes) (n k : Nat) : α → Lexer → Prop := fun _ l' => St b n (k - 1) l' ∧ 1 ≤ k
/-- non-strict -/
def PostN {α : Type} (b : Bytes) (n k : Nat) : α → Lexer → Prop := fun _ l' => St b n k l'

theorem St.mono {b : Bytes} {n j k : Nat} {l : Lexer} (h : St b n j l) (hjk : j ≤ k) : St b n k l :=
  ⟨h.1, Nat.le_trans h.2 hjk⟩

theorem PostS.toN {α : Type} {b : Bytes} {n k : Nat} {a : α} {l : Lexer} (h : PostS b n k a l) : PostN b n k a l :=
  h.1.mono (Nat.sub_le _ _)

theorem PostS.mono {α : Type} {b : Bytes} {n j k : Nat} {a : α} {l : Lexer} (h : PostS b n j a l) (hjk : j ≤ k) :
    PostS b n k a l := ⟨h.1.mono (by omega), by have := h.2; omega⟩

theorem St.toS {α : Type} {b : Bytes} {n j k : Nat} {a : α} {l : Lexer} (h : St b n j l) (hjk : j + 1 ≤ k) :
    PostS b n k a l := ⟨h.mono (by omega), by omega⟩

structure Specs (b : Bytes) (n fuel : Nat) : Prop where
  statement : ∀ k l inFor, St b n k l → need k 5 ≤ fuel → Safe n (parseStatement b fuel inFor) l (PostS b n k)
  statements : ∀ k l inFor, St b n k l → need k 6 ≤ fuel → Safe n (parseStatements b fuel inFor) l (PostS b n k)
  ret : ∀ k l, St b n k l → need k 4 ≤ fuel → Safe n (parseReturn b fuel) l (PostS b n k)
  funcDef : ∀ k l, St b n k l → need k 4 ≤ fuel → Safe n (parseFuncDef b fuel) l (PostS b n k)
  arguments : ∀ k l, St b n k l → need k 5 ≤ fuel → Safe n (parseArguments b fuel) l (PostN b n k)
  argument : ∀ k l, St b n k l → need k 4 ≤ fuel → Safe n (parseArgument b fuel) l (PostS b n k)
  argTypes : ∀ k l, St b n k l → need k 0 ≤ fuel → Safe n (argTypes b fuel) l (PostS b n k)
  argTail : ∀ k l t, St b n k l → need k 4 ≤ fuel → Safe n (argTail b fuel t) l (PostS b n k)
  argAliases : ∀ k l, St b n k l → need k 0 ≤ fuel → Safe n (argAliases b fuel) l (PostS b n k)
  pif : ∀ k l inFor, St b n k l → need k 4 ≤ fuel → Safe n (parseIf b fuel inFor) l (PostS b n k)
  elifs : ∀ k l inFor, St b n k l → need k 4 ≤ fuel → Safe n (parseElifs b fuel inFor) l (PostN b n k)
  pfor : ∀ k l, St b n k l → need k 4 ≤ fuel → Safe n (parseFor b fuel) l (PostS b n k)
  identList : ∀ k l, St b n k l → need k 0 ≤ fuel → Safe n (parseIdentList b fuel) l (PostS b n k)
  expression : ∀ k l, St b n k l → need k 3 ≤ fuel → Safe n (parseExpression b fuel) l (PostS b n k)
  unconditional : ∀ k l, St b n k l → need k 2 ≤ fuel → Safe n (parseUnconditional b fuel) l (PostS b n k)
  value : ∀ k l, St b n k l → need k 1 ≤ fuel →
    Safe n (parseValue b fuel) l (fun kind l' => PostS b n k kind l' ∧ (l.next.ty = .string → kind ≠ .other))
  valueTail : ∀ k l, St b n k l → need k 4 ≤ fuel → Safe n (valueTail b fuel) l (PostN b n k)
  identStatement : ∀ k l, St b n k l → need k 4 ≤ fuel → Safe n (parseIdentStatement b fuel) l (PostS b n k)
  identExpr : ∀ k l, St b n k l → need k 0 ≤ fuel → Safe n (parseIdentExpr b fuel) l (PostS b n k)
  identActions : ∀ k l, St b n k l → need k 4 ≤ fuel → Safe n (identActions b fuel) l (PostN b n k)
  call : ∀ k l names, St b n k l → need k 4 ≤ fuel → Safe n (parseCall b fuel names) l (PostS b n k)
  list : ∀ k l o c, St b n k l → o ≠ .eof → c ≠ .eof → need k 0 ≤ fuel → Safe n (parseList b fuel o c) l (PostS b n k)
  listItems : ∀ k l c i, St b n k l → need k 4 ≤ fuel → Safe n (listItems b fuel c i) l (PostN b n k)
  dict : ∀ k l, St b n k l → need k 0 ≤ fuel → Safe n (parseDict b fuel) l (PostS b n k)
  dictItems : ∀ k l i, St b n k l → need k 4 ≤ fuel → Safe n (dictItems b fuel i) l (PostN b n k)
  slice : ∀ k l, St b n k l → need k 0 ≤ fuel → Safe n (parseSlice b fuel) l (PostS b n k)
  comprehension : ∀ k l, St b n k l → need k 0 ≤ fuel → Safe n (parseComprehension b fuel) l (PostS b n k)
  lambda : ∀ k l, St b n k l → need k 0 ≤ fuel → Safe n (parseLambda b fuel) l (PostS b n k)
  lambdaArgs : ∀ k l, St b n k l → need k 4 ≤ fuel → Safe n (lambdaArgs b fuel) l (PostN b n k)

/-- chaining helper: run `m` (strict) and continue from the smaller bound -/
theorem Safe.thenS {α β : Type} {b : Bytes} {n k : Nat} {m : P α} {f : α → P β} {l : Lexer} {Q : β → Lexer → Prop}
    (hm : Safe n m l (PostS b n k))
    (hf : ∀ a l', St b n (k - 1) l' → 1 ≤ k → Safe n (f a) l' Q) : Safe n (m >>= f) l Q :=
  Safe.bind (hm.mono fun a l' h => hf a l' h.1 h.2)

theorem Safe.thenN {α β : Type} {b : Bytes} {n k : Nat} {m : P α} {f : α → P β} {l : Lexer} {Q : β → Lexer → Prop}
    (hm : Safe n m l (PostN b n k))
    (hf : ∀ a l', St b n k l' → Safe n (f a) l' Q) : Safe n (m >>= f) l Q :=
  Safe.bind (hm.mono fun a l' h => hf a l' h)

theorem fstringVars_ok (fuel : Nat) : ∀ (s : List UInt8) (pos cnt : Nat), s.length < fuel →
    (∃ v, fstringVars fuel s pos cnt = .ok v) ∨ (∃ p, fstringVars fuel s pos cnt = .error (.fail p .fbrace)) := by
  induction fuel with
  | zero => intro s pos cnt h; omega
  | succ fuel ih =>
    intro s pos cnt h
    rw [fstringVars]
    cases hfb : findBrace s 32 0 with
    | none => exact Or.inl ⟨cnt, rfl⟩
    | some idx =>
      simp only []
      have hne : s ≠ [] := by
        intro h0; subst h0; simp [findBrace] at hfb
      have hlen : (s.drop (idx + 1)).length < s.length := by
        have : 0 < s.length := List.length_pos_iff.mpr hne
        simp [List.length_drop]; omega
      cases hib : indexOfByte 125 (s.drop (idx + 1)) 0 with
      | none => exact Or.inr ⟨_, rfl⟩
      | some j =>
        simp only []
        apply ih
        simp [List.length_drop] at hlen ⊢
        omega

theorem concat_good {k1 k2 : VKind} (h1 : k1 ≠ .other) (h2 : k2 ≠ .other) :
    match concatKinds k1 k2 with
    | .ok r => r ≠ .other
    | .error e => e = .runtime 0 ∧ (C19.concatGuardsBareFString = false ∨ C19.concatGuardsBothFString = false) := by
  unfold concatKinds
  generalize C19.concatGuardsBareFString = g
  generalize C19.concatGuardsBothFString = g2
  cases k1 with
  | other => exact absurd rfl h1
  | plain =>
    cases k2 with
    | other => exact absurd rfl h2
    | plain => simp [concatKindsWith]
    | fstr v =>
      simp only [concatKindsWith]
      by_cases hv : v = 0 ∧ g = false
      · rw [if_pos hv]; exact ⟨rfl, Or.inl hv.2⟩
      · rw [if_neg hv]; simp
  | fstr m =>
    cases k2 with
    | other => exact absurd rfl h2
    | plain => simp [concatKindsWith]
    | fstr v =>
      simp only [concatKindsWith]
      by_cases hv : v = 0
      · rw [if_pos hv]
        cases g2 with
        | true => simp
        | false => exact ⟨rfl, Or.inr rfl⟩
      · rw [if_neg hv]; simp

theorem isOperator_ne {v : Bytes} (h : isOperator v = true) : v ≠ #[] := by
  intro hv; subst hv; revert h; decide

section helpers
variable {b : Bytes} {n : Nat} (S : Sentinel b n)
include S

theorem parseFString_safe {k : Nat} {l : Lexer} (hst : St b n k l) :
    Safe n (parseFString b) l (fun _ l' => St b n (k - 1) l' ∧ 1 ≤ k) := by
  unfold parseFString
  apply Safe.bind
  apply (next_safe S hst .string (by decide)).mono
  intro t l1 ⟨_, h1, hk⟩
  rcases fstringVars_ok (((t.val.toList.drop 2).dropLast).length + 1) ((t.val.toList.drop 2).dropLast) (t.pos + 1) 0
    (by omega) with ⟨v, hv⟩ | ⟨p, hp⟩
  · simp only []; rw [hv]; exact Safe.pure ⟨h1, hk⟩
  · simp only []; rw [hp]; exact Or.inr rfl

macro "fuel_ok" : tactic => `(tactic| (simp only [need] at *; omega))

/-- `optional` in the shape the step lemmas use it. -/
theorem opt_cases {α : Type} {k : Nat} {l : Lexer} (ty : TokType) (hty : ty ≠ .eof) (hst : St b n k l) {f : Bool → P α}
    {Q : α → Lexer → Prop}
    (ht : ∀ l', St b n (k - 1) l' → 1 ≤ k → Safe n (f true) l' Q)
    (hf : l.next.ty ≠ ty → Safe n (f false) l Q) : Safe n (optional b ty >>= f) l Q := by
  apply Safe.bind
  apply (optional_safe S hst ty hty).mono
  intro r l' ⟨h, hne⟩
  rcases h with ⟨rfl, h1, hk⟩ | ⟨rfl, rfl⟩
  · exact ht l' h1 hk
  · exact hf (hne rfl)

theorem optv_cases {α : Type} {k : Nat} {l : Lexer} (v : Bytes) (hv : v ≠ #[]) (hst : St b n k l) {f : Bool → P α}
    {Q : α → Lexer → Prop}
    (ht : ∀ l', St b n (k - 1) l' → 1 ≤ k → Safe n (f true) l' Q)
    (hf : l.next.val ≠ v → Safe n (f false) l Q) : Safe n (optionalv b v >>= f) l Q := by
  apply Safe.bind
  apply (optionalv_safe S hst v hv).mono
  intro r l' ⟨h, hne⟩
  rcases h with ⟨rfl, h1, hk⟩ | ⟨rfl, rfl⟩
  · exact ht l' h1 hk
  · exact hf (hne rfl)

/-- `next` in the shape the step lemmas use it. -/
theorem next_then {α : Type} {k : Nat} {l : Lexer} (ty : TokType) (hty : ty ≠ .eof) (hst : St b n k l) {f : Token → P α}
    {Q : α → Lexer → Prop}
    (hf : ∀ t l', t.ty = ty → St b n (k - 1) l' → 1 ≤ k → Safe n (f t) l' Q) : Safe n (next b ty >>= f) l Q := by
  apply Safe.bind
  apply (next_safe S hst ty hty).mono
  intro t l' ⟨h1, h2, h3⟩
  exact hf t l' h1 h2 h3

theorem nextv_then {α : Type} {k : Nat} {l : Lexer} (v : Bytes) (hv : v ≠ #[]) (hst : St b n k l) {f : Token → P α}
    {Q : α → Lexer → Prop}
    (hf : ∀ t l', St b n (k - 1) l' → 1 ≤ k → Safe n (f t) l' Q) : Safe n (nextv b v >>= f) l Q := by
  apply Safe.bind
  apply (nextv_safe S hst v hv).mono
  intro t l' ⟨_, h2, h3⟩
  exact hf t l' h2 h3

theorem adv_then {α : Type} {k : Nat} {l : Lexer} (hst : St b n k l) (hne : l.next.ty ≠ .eof) {f : Token → P α}
    {Q : α → Lexer → Prop}
    (hf : ∀ l', St b n (k - 1) l' → 1 ≤ k → Safe n (f l.next) l' Q) : Safe n (adv b >>= f) l Q := by
  apply Safe.bind
  apply (adv_safe S hst hne).mono
  intro t l' ⟨h1, h2, h3⟩
  subst h1
  exact hf l' h2 h3

end helpers

section step
variable {b : Bytes} {n : Nat} (S : Sentinel b n) {fuel : Nat} (ih : Specs b n fuel)
include S ih

theorem identList_step : ∀ k l, St b n k l → need k 0 ≤ fuel + 1 → Safe n (parseIdentList b (fuel + 1)) l (PostS b n k) := by
  intro k l hst hf
  rw [parseIdentList]
  apply Safe.bind
  apply (next_safe S hst .ident (by decide)).mono
  intro t l1 ⟨_, h1, hk⟩
  apply Safe.bind
  apply Safe.peek
  split
  · rename_i hc
    apply Safe.bind
    apply (adv_safe S h1 (by rw [hc]; decide)).mono
    intro _ l2 ⟨_, h2, hk2⟩
    apply (ih.identList (k - 1 - 1) l2 h2 (by simp only [need] at hf ⊢; omega)).mono
    intro _ l3 h3
    exact ⟨h3.1.mono (by omega), hk⟩
  · exact Safe.pure ⟨h1, hk⟩

theorem argAliases_step : ∀ k l, St b n k l → need k 0 ≤ fuel + 1 → Safe n (argAliases b (fuel + 1)) l (PostS b n k) := by
  intro k l hst hf
  rw [argAliases]
  refine next_then S .ident (by decide) hst ?_
  intro _ l1 _ h1 hk
  refine opt_cases S (lit '&') (by decide) h1 ?_ ?_
  · intro l2 h2 hk2
    simp only [↓reduceIte]
    apply (ih.argAliases (k - 1 - 1) l2 h2 (by fuel_ok)).mono
    intro _ l3 h3
    exact ⟨h3.1.mono (by omega), hk⟩
  · intro _
    simp only [Bool.false_eq_true, ↓reduceIte]
    exact Safe.pure ⟨h1, hk⟩

theorem argTypes_step : ∀ k l, St b n k l → need k 0 ≤ fuel + 1 → Safe n (argTypes b (fuel + 1)) l (PostS b n k) := by
  intro k l hst hf
  rw [argTypes]
  apply Safe.bind
  apply (oneofval_safe S hst C19.argTypeNames (by decide)).mono
  intro _ l1 ⟨h1, hk⟩
  refine opt_cases S (lit '|') (by decide) h1 ?_ ?_
  · intro l2 h2 hk2
    simp only [↓reduceIte]
    apply (ih.argTypes (k - 1 - 1) l2 h2 (by fuel_ok)).mono
    intro _ l3 h3
    exact ⟨h3.1.mono (by omega), hk⟩
  · intro _
    simp only [Bool.false_eq_true, ↓reduceIte]
    exact Safe.pure ⟨h1, hk⟩

theorem slice_step : ∀ k l, St b n k l → need k 0 ≤ fuel + 1 → Safe n (parseSlice b (fuel + 1)) l (PostS b n k) := by
  intro k l hst hf
  rw [parseSlice]
  refine next_then S (lit '[') (by decide) hst ?_
  intro _ l1 _ h1 hk
  -- the second half is the same whichever way the first half went
  have tail : ∀ l2, St b n (k - 1) l2 →
      Safe n (do
        if (← peek).ty = lit ']' then do let _ ← adv b; pure ()
        else do
          parseExpression b fuel
          let _ ← next b (lit ']')
          pure ()) l2 (PostS b n k) := by
    intro l2 h2
    apply Safe.bind
    apply Safe.peek
    split
    · rename_i hc
      refine adv_then S h2 (by rw [hc]; decide) ?_
      intro l3 h3 _
      exact Safe.pure ⟨h3.mono (by omega), hk⟩
    · refine Safe.thenS (ih.expression (k - 1) l2 h2 (by fuel_ok)) ?_
      intro _ l3 h3 _
      refine next_then S (lit ']') (by decide) h3 ?_
      intro _ l4 _ h4 _
      exact Safe.pure ⟨h4.mono (by omega), hk⟩
  refine opt_cases S (lit ':') (by decide) h1 ?_ ?_
  · intro l2 h2 _
    simp only [↓reduceIte]
    exact tail l2 (h2.mono (by omega))
  · intro _
    simp only [Bool.false_eq_true, ↓reduceIte]
    refine Safe.thenS (ih.expression (k - 1) l1 h1 (by fuel_ok)) ?_
    intro _ l2 h2 _
    refine opt_cases S (lit ':') (by decide) h2 ?_ ?_
    · intro l3 h3 _
      exact tail l3 (h3.mono (by omega))
    · intro _
      exact tail l2 (h2.mono (by omega))

theorem comprehension_step : ∀ k l, St b n k l → need k 0 ≤ fuel + 1 →
    Safe n (parseComprehension b (fuel + 1)) l (PostS b n k) := by
  intro k l hst hf
  rw [parseComprehension]
  refine nextv_then S (kw "for") (by decide) hst ?_
  intro _ l1 h1 hk
  refine Safe.thenS (ih.identList _ l1 h1 (by fuel_ok)) ?_
  intro _ l2 h2 _
  refine nextv_then S (kw "in") (by decide) h2 ?_
  intro _ l3 h3 _
  refine Safe.thenS (ih.unconditional _ l3 h3 (by fuel_ok)) ?_
  intro _ l4 h4 _
  have tail : ∀ j l', St b n j l' → j + 1 ≤ k →
      Safe n (do if (← optionalv b (kw "if")) then parseUnconditional b fuel) l' (PostS b n k) := by
    intro j l' hj hjk
    refine optv_cases S (kw "if") (by decide) hj ?_ ?_
    · intro l5 h5 _
      simp only [↓reduceIte]
      apply (ih.unconditional _ l5 h5 (by fuel_ok)).mono
      intro _ l6 h6
      exact h6.1.toS (by omega)
    · intro _
      simp only [Bool.false_eq_true, ↓reduceIte]
      exact Safe.pure (hj.toS hjk)
  refine optv_cases S (kw "for") (by decide) h4 ?_ ?_
  · intro l5 h5 _
    simp only [↓reduceIte]
    refine Safe.thenS (ih.identList _ l5 h5 (by fuel_ok)) ?_
    intro _ l6 h6 _
    refine nextv_then S (kw "in") (by decide) h6 ?_
    intro _ l7 h7 _
    refine Safe.thenS (ih.unconditional _ l7 h7 (by fuel_ok)) ?_
    intro _ l8 h8 _
    exact tail _ l8 h8 (by omega)
  · intro _
    simp only [Bool.false_eq_true, ↓reduceIte]
    exact tail _ l4 h4 (by omega)

theorem lambdaArgs_step : ∀ k l, St b n k l → need k 4 ≤ fuel + 1 →
    Safe n (lambdaArgs b (fuel + 1)) l (PostN b n k) := by
  intro k l hst hf
  rw [lambdaArgs]
  apply Safe.bind
  apply Safe.peek
  split
  · rename_i hc
    refine adv_then S hst (by rw [hc]; decide) ?_
    intro l1 h1 hk
    have tail : ∀ j l', St b n j l' → j + 1 ≤ k →
        Safe n (do if (← optional b (lit ',')) then lambdaArgs b fuel) l' (PostN b n k) := by
      intro j l' hj hjk
      refine opt_cases S (lit ',') (by decide) hj ?_ ?_
      · intro l5 h5 _
        simp only [↓reduceIte]
        apply (ih.lambdaArgs _ l5 h5 (by fuel_ok)).mono
        intro _ l6 h6
        exact h6.mono (by omega)
      · intro _
        simp only [Bool.false_eq_true, ↓reduceIte]
        exact Safe.pure (hj.mono (by omega))
    refine opt_cases S (lit '=') (by decide) h1 ?_ ?_
    · intro l2 h2 _
      simp only [↓reduceIte]
      refine Safe.thenS (ih.expression _ l2 h2 (by fuel_ok)) ?_
      intro _ l3 h3 _
      exact tail _ l3 h3 (by omega)
    · intro _
      simp only [Bool.false_eq_true, ↓reduceIte]
      exact tail _ l1 h1 (by omega)
  · exact Safe.pure hst

theorem lambda_step : ∀ k l, St b n k l → need k 0 ≤ fuel + 1 → Safe n (parseLambda b (fuel + 1)) l (PostS b n k) := by
  intro k l hst hf
  rw [parseLambda]
  refine nextv_then S (kw "lambda") (by decide) hst ?_
  intro _ l1 h1 hk
  refine Safe.thenN (ih.lambdaArgs _ l1 h1 (by fuel_ok)) ?_
  intro _ l2 h2
  refine next_then S (lit ':') (by decide) h2 ?_
  intro _ l3 _ h3 _
  apply (ih.expression _ l3 h3 (by fuel_ok)).mono
  intro _ l4 h4
  exact h4.1.toS (by omega)

theorem dictItems_step : ∀ k l i, St b n k l → need k 4 ≤ fuel + 1 →
    Safe n (dictItems b (fuel + 1) i) l (PostN b n k) := by
  intro k l i hst hf
  rw [dictItems]
  apply Safe.bind
  apply Safe.peek
  split
  · refine Safe.thenS (ih.expression _ l hst (by fuel_ok)) ?_
    intro _ l1 h1 hk
    refine next_then S (lit ':') (by decide) h1 ?_
    intro _ l2 _ h2 _
    refine Safe.thenS (ih.expression _ l2 h2 (by fuel_ok)) ?_
    intro _ l3 h3 _
    refine opt_cases S (lit ',') (by decide) h3 ?_ ?_
    · intro l4 h4 _
      simp only [↓reduceIte]
      apply (ih.dictItems _ l4 _ h4 (by fuel_ok)).mono
      intro _ l5 h5
      exact h5.mono (by omega)
    · intro _
      simp only [Bool.false_eq_true, ↓reduceIte]
      exact Safe.pure (h3.mono (by omega))
  · exact Safe.pure hst

theorem listItems_step : ∀ k l c i, St b n k l → need k 4 ≤ fuel + 1 →
    Safe n (listItems b (fuel + 1) c i) l (PostN b n k) := by
  intro k l c i hst hf
  rw [listItems]
  apply Safe.bind
  apply Safe.peek
  split
  · refine Safe.thenS (ih.expression _ l hst (by fuel_ok)) ?_
    intro _ l1 h1 hk
    refine opt_cases S (lit ',') (by decide) h1 ?_ ?_
    · intro l4 h4 _
      simp only [↓reduceIte]
      apply (ih.listItems _ l4 _ _ h4 (by fuel_ok)).mono
      intro _ l5 h5
      exact h5.mono (by omega)
    · intro _
      simp only [Bool.false_eq_true, ↓reduceIte]
      exact Safe.pure (h1.mono (by omega))
  · exact Safe.pure hst

theorem dict_step : ∀ k l, St b n k l → need k 0 ≤ fuel + 1 → Safe n (parseDict b (fuel + 1)) l (PostS b n k) := by
  intro k l hst hf
  rw [parseDict]
  refine next_then S (lit '{') (by decide) hst ?_
  intro _ l1 _ h1 hk
  refine Safe.thenN (ih.dictItems _ l1 _ h1 (by fuel_ok)) ?_
  intro cnt l2 h2
  apply Safe.bind
  apply Safe.peek
  have tail : ∀ j l', St b n j l' → j + 1 ≤ k →
      Safe n (do let _ ← next b (lit '}'); pure ()) l' (PostS b n k) := by
    intro j l' hj hjk
    refine next_then S (lit '}') (by decide) hj ?_
    intro _ l3 _ h3 _
    exact Safe.pure (h3.toS (by omega))
  split
  · split
    · exact Safe.bind (Safe.failAt h2.1.inv.tpos)
    · refine Safe.thenS (ih.comprehension _ l2 h2 (by fuel_ok)) ?_
      intro _ l3 h3 _
      exact tail _ l3 h3 (by omega)
  · exact tail _ l2 h2 (by omega)

theorem list_step : ∀ k l o c, St b n k l → o ≠ .eof → c ≠ .eof → need k 0 ≤ fuel + 1 →
    Safe n (parseList b (fuel + 1) o c) l (PostS b n k) := by
  intro k l o c hst ho hc hf
  rw [parseList]
  refine next_then S o ho hst ?_
  intro _ l1 _ h1 hk
  refine Safe.thenN (ih.listItems _ l1 _ _ h1 (by fuel_ok)) ?_
  intro cnt l2 h2
  apply Safe.bind
  apply Safe.peek
  have tail : ∀ j l', St b n j l' → j + 1 ≤ k →
      Safe n (do let _ ← next b c; pure ()) l' (PostS b n k) := by
    intro j l' hj hjk
    refine next_then S c hc hj ?_
    intro _ l3 _ h3 _
    exact Safe.pure (h3.toS (by omega))
  split
  · split
    · exact Safe.bind (Safe.failAt h2.1.inv.tpos)
    · refine Safe.thenS (ih.comprehension _ l2 h2 (by fuel_ok)) ?_
      intro _ l3 h3 _
      exact tail _ l3 h3 (by omega)
  · exact tail _ l2 h2 (by omega)

theorem identActions_step : ∀ k l, St b n k l → need k 4 ≤ fuel + 1 →
    Safe n (identActions b (fuel + 1)) l (PostN b n k) := by
  intro k l hst hf
  rw [identActions]
  apply Safe.bind
  apply Safe.peek
  split
  · rename_i hc
    refine adv_then S hst (by rw [hc]; decide) ?_
    intro l1 h1 hk
    refine Safe.thenS (ih.identExpr _ l1 h1 (by fuel_ok)) ?_
    intro _ l2 h2 _
    apply (ih.identActions _ l2 h2 (by fuel_ok)).mono
    intro _ l3 h3
    exact h3.mono (by omega)
  · split
    · rename_i hc
      refine adv_then S hst (by rw [hc]; decide) ?_
      intro l1 h1 hk
      refine Safe.thenS (ih.call _ l1 _ h1 (by fuel_ok)) ?_
      intro _ l2 h2 _
      apply (ih.identActions _ l2 h2 (by fuel_ok)).mono
      intro _ l3 h3
      exact h3.mono (by omega)
    · exact Safe.pure hst

theorem identExpr_step : ∀ k l, St b n k l → need k 0 ≤ fuel + 1 →
    Safe n (parseIdentExpr b (fuel + 1)) l (PostS b n k) := by
  intro k l hst hf
  rw [parseIdentExpr]
  refine next_then S .ident (by decide) hst ?_
  intro _ l1 _ h1 hk
  apply (ih.identActions _ l1 h1 (by fuel_ok)).mono
  intro _ l2 h2
  exact h2.toS (by omega)

theorem value_step : ∀ k l, St b n k l → need k 1 ≤ fuel + 1 →
    Safe n (parseValue b (fuel + 1)) l
      (fun kind l' => PostS b n k kind l' ∧ (l.next.ty = .string → kind ≠ .other)) := by
  intro k l hst hf
  rw [parseValue]
  apply Safe.bind
  apply Safe.peek
  by_cases hstr : l.next.ty = .string
  · rw [if_pos hstr]
    -- the first literal: plain or f-string, one token consumed
    have first : Safe n (if l.next.val[0]? = some 102 then do
          let n ← parseFString b
          pure (VKind.fstr n)
        else do let _ ← adv b; pure VKind.plain : P VKind) l
        (fun kind l' => (St b n (k - 1) l' ∧ 1 ≤ k) ∧ kind ≠ .other) := by
      split
      · apply Safe.bind
        apply (parseFString_safe S hst).mono
        intro v l1 h1
        exact Safe.pure ⟨h1, by simp⟩
      · refine adv_then S hst (by rw [hstr]; decide) ?_
        intro l1 h1 hk
        exact Safe.pure ⟨⟨h1, hk⟩, by simp⟩
    apply Safe.bind
    apply first.mono
    intro kind l1 ⟨⟨h1, hk⟩, hkind⟩
    apply Safe.bind
    apply Safe.peek
    split
    · rename_i hs2
      apply Safe.bind
      apply (ih.value _ l1 h1 (by fuel_ok)).mono
      intro rhs l2 ⟨h2, hrhs⟩
      have hg := concat_good hkind (hrhs hs2)
      split
      · rename_i k' hk'
        rw [hk'] at hg
        exact Safe.pure ⟨h2.1.toS (by omega), fun _ => hg⟩
      · rename_i e he
        rw [he] at hg
        show GoodErr n e
        rw [hg.1]; exact ⟨rfl, hg.2⟩
    · refine Safe.thenN (ih.valueTail _ l1 h1 (by fuel_ok)) ?_
      intro _ l2 h2
      exact Safe.pure ⟨h2.toS (by omega), fun _ => hkind⟩
  · rw [if_neg hstr]
    simp only []
    have jp : ∀ (u : Unit) j l', St b n j l' → j + 1 ≤ k →
        Safe n (do valueTail b fuel; pure VKind.other) l'
          (fun kind l' => PostS b n k kind l' ∧ (l.next.ty = .string → kind ≠ .other)) := by
      intro _ j l' hj hjk
      refine Safe.thenN (ih.valueTail _ l' hj (by fuel_ok)) ?_
      intro _ l2 h2
      exact Safe.pure ⟨h2.toS (by omega), fun h => absurd h hstr⟩
    have viaS : ∀ (m : P Unit), Safe n m l (PostS b n k) →
        Safe n (do let r ← m; (fun _ => do valueTail b fuel; pure VKind.other) r) l
          (fun kind l' => PostS b n k kind l' ∧ (l.next.ty = .string → kind ≠ .other)) := by
      intro m hm
      refine Safe.thenS hm ?_
      intro u l1 h1 hk
      exact jp u _ l1 h1 (by omega)
    split
    · rename_i hint
      split
      · exact Safe.bind (Safe.failAt hst.1.inv.tpos)
      · split
        · exact Safe.bind (Safe.failAt hst.1.inv.tpos)
        · refine adv_then S hst (by rw [hint]; decide) ?_
          intro l1 h1 hk
          exact jp () _ l1 h1 (by omega)
    · split
      · rename_i hv
        have hne : l.next.ty ≠ .eof := by
          rcases hv with h | h | h
          · exact hst.1.ne_eof h (by decide)
          · exact hst.1.ne_eof h (by decide)
          · exact hst.1.ne_eof h (by decide)
        refine adv_then S hst hne ?_
        intro l1 h1 hk
        exact jp () _ l1 h1 (by omega)
      · split
        · exact viaS _ (ih.list _ l _ _ hst (by decide) (by decide) (by fuel_ok))
        · split
          · exact viaS _ (ih.list _ l _ _ hst (by decide) (by decide) (by fuel_ok))
          · split
            · exact viaS _ (ih.dict _ l hst (by fuel_ok))
            · split
              · exact viaS _ (ih.lambda _ l hst (by fuel_ok))
              · split
                · exact viaS _ (ih.identExpr _ l hst (by fuel_ok))
                · exact Safe.bind (Safe.failAt hst.1.inv.tpos)

theorem valueTail_step : ∀ k l, St b n k l → need k 4 ≤ fuel + 1 →
    Safe n (valueTail b (fuel + 1)) l (PostN b n k) := by
  intro k l hst hf
  rw [valueTail]
  apply Safe.bind
  apply Safe.peek
  split
  · refine Safe.thenS (ih.slice _ l hst (by fuel_ok)) ?_
    intro _ l1 h1 hk
    apply (ih.valueTail _ l1 h1 (by fuel_ok)).mono
    intro _ l2 h2
    exact h2.mono (by omega)
  · refine opt_cases S (lit '.') (by decide) hst ?_ ?_
    · intro l1 h1 hk
      simp only [↓reduceIte]
      apply (ih.identExpr _ l1 h1 (by fuel_ok)).mono
      intro _ l2 h2
      exact h2.1.mono (by omega)
    · intro _
      simp only [Bool.false_eq_true, ↓reduceIte]
      refine opt_cases S (lit '(') (by decide) hst ?_ ?_
      · intro l1 h1 hk
        simp only [↓reduceIte]
        apply (ih.call _ l1 _ h1 (by fuel_ok)).mono
        intro _ l2 h2
        exact h2.1.mono (by omega)
      · intro _
        simp only [Bool.false_eq_true, ↓reduceIte]
        exact Safe.pure hst

theorem call_step : ∀ k l names, St b n k l → need k 4 ≤ fuel + 1 →
    Safe n (parseCall b (fuel + 1) names) l (PostS b n k) := by
  intro k l names hst hf
  rw [parseCall]
  apply Safe.bind
  apply Safe.peek
  have close : ∀ j l', St b n j l' → j ≤ k →
      Safe n (do let _ ← next b (lit ')'); pure ()) l' (PostS b n k) := by
    intro j l' hj hjk
    refine next_then S (lit ')') (by decide) hj ?_
    intro _ l3 _ h3 hk3
    exact Safe.pure (h3.toS (by omega))
  split
  · -- an argument: [name =] expression, then `,` and the rest, or `)`
    have rest : ∀ (names' : List Bytes) j l', St b n j l' → j ≤ k →
        Safe n (do
          parseExpression b fuel
          if (← optional b (lit ',')) then parseCall b fuel names'
          else do let _ ← next b (lit ')'); pure ()) l' (PostS b n k) := by
      intro names' j l' hj hjk
      refine Safe.thenS (ih.expression _ l' hj (by fuel_ok)) ?_
      intro _ l1 h1 hk1
      refine opt_cases S (lit ',') (by decide) h1 ?_ ?_
      · intro l2 h2 _
        simp only [↓reduceIte]
        apply (ih.call _ l2 _ h2 (by fuel_ok)).mono
        intro _ l3 h3
        exact h3.1.toS (by omega)
      · intro _
        simp only [Bool.false_eq_true, ↓reduceIte]
        exact close _ l1 h1 (by omega)
    apply Safe.bind
    have named : Safe n (if l.next.ty = .ident then assignFollows b else pure false : P Bool) l
        (fun _ l' => St b n k l' ∧ l'.next = l.next) := by
      split
      · rename_i hid
        exact assignFollows_safe S hst (by rw [hid]; decide)
      · exact Safe.pure ⟨hst, rfl⟩
    apply named.mono
    intro isNamed l1 ⟨h1, hnx⟩
    apply Safe.bind
    cases isNamed with
    | false =>
      simp only [Bool.false_eq_true, ↓reduceIte]
      apply Safe.pure
      exact rest _ _ l1 h1 (Nat.le_refl _)
    | true =>
      simp only [↓reduceIte]
      refine next_then S .ident (by decide) h1 ?_
      intro _ l2 _ h2 _
      refine next_then S (lit '=') (by decide) h2 ?_
      intro _ l3 _ h3 _
      split
      · exact Safe.failAt hst.1.inv.tpos
      · apply Safe.pure
        exact rest _ _ l3 h3 (by omega)
  · exact close _ l hst (Nat.le_refl _)

theorem unconditional_step : ∀ k l, St b n k l → need k 2 ≤ fuel + 1 →
    Safe n (parseUnconditional b (fuel + 1)) l (PostS b n k) := by
  intro k l hst hf
  rw [parseUnconditional]
  apply Safe.bind
  apply Safe.peek
  extract_lets jrec jbody
  have hrec : ∀ j l', St b n j l' → j + 1 ≤ k → Safe n (jrec ()) l' (PostS b n k) := by
    intro j l' hj hjk
    simp only [jrec]
    apply (ih.unconditional _ l' hj (by fuel_ok)).mono
    intro _ l2 h2
    exact h2.1.toS (by omega)
  have hbody : ∀ j l', St b n j l' → j ≤ k → Safe n (jbody ()) l' (PostS b n k) := by
    intro j l' hj hjk
    simp only [jbody]
    apply Safe.bind
    apply (ih.value _ l' hj (by fuel_ok)).mono
    intro _ l1 ⟨⟨h1, hk1⟩, _⟩
    apply Safe.bind
    apply Safe.peek
    apply Safe.bind
    -- the operator value, and: if it is an operator, the look-ahead token is not EOF
    have hop : Safe n (if l1.next.val = kw "not" then do
          let _ ← adv b
          let t2 ← peek
          if t2.val = kw "in" then pure (kw "not in") else failAt t2 PKind.notIn
        else pure l1.next.val : P Bytes) l1
        (fun opv l3 => St b n (j - 1) l3 ∧ (isOperator opv = true → l3.next.ty ≠ .eof)) := by
      split
      · rename_i hnot
        refine adv_then S h1 (h1.1.ne_eof hnot (by decide)) ?_
        intro l2 h2 _
        apply Safe.bind
        apply Safe.peek
        split
        · rename_i hin
          exact Safe.pure ⟨h2.mono (by omega), fun _ => h2.1.ne_eof hin (by decide)⟩
        · exact Safe.failAt h2.1.inv.tpos
      · exact Safe.pure ⟨h1, fun hop => h1.1.ne_eof rfl (isOperator_ne hop)⟩
    apply hop.mono
    intro opv l3 ⟨h3, hne3⟩
    split
    · rename_i hisop
      refine adv_then S h3 (hne3 hisop) ?_
      intro l4 h4 _
      split
      · apply Safe.bind
        apply Safe.peek
        split
        · rename_i hnot
          refine adv_then S h4 (h4.1.ne_eof hnot (by decide)) ?_
          intro l5 h5 _
          exact hrec _ l5 h5 (by omega)
        · exact hrec _ l4 h4 (by omega)
      · exact hrec _ l4 h4 (by omega)
    · exact Safe.pure (h3.toS (by omega))
  split
  · rename_i hc
    refine adv_then S hst (by rw [hc]; decide) ?_
    intro l1 h1 _
    exact hbody _ l1 h1 (by omega)
  · split
    · rename_i hnot
      refine adv_then S hst (hst.1.ne_eof hnot (by decide)) ?_
      intro l1 h1 _
      exact hbody _ l1 h1 (by omega)
    · exact hbody _ l hst (Nat.le_refl _)

theorem expression_step : ∀ k l, St b n k l → need k 3 ≤ fuel + 1 →
    Safe n (parseExpression b (fuel + 1)) l (PostS b n k) := by
  intro k l hst hf
  rw [parseExpression]
  refine Safe.thenS (ih.unconditional _ l hst (by fuel_ok)) ?_
  intro _ l1 h1 hk
  refine optv_cases S (kw "if") (by decide) h1 ?_ ?_
  · intro l2 h2 _
    simp only [↓reduceIte]
    refine Safe.thenS (ih.expression _ l2 h2 (by fuel_ok)) ?_
    intro _ l3 h3 _
    refine nextv_then S (kw "else") (by decide) h3 ?_
    intro _ l4 h4 _
    apply (ih.expression _ l4 h4 (by fuel_ok)).mono
    intro _ l5 h5
    exact h5.1.toS (by omega)
  · intro _
    simp only [Bool.false_eq_true, ↓reduceIte]
    exact Safe.pure ⟨h1, hk⟩

theorem argTail_step : ∀ k l t, St b n k l → need k 4 ≤ fuel + 1 →
    Safe n (argTail b (fuel + 1) t) l (PostS b n k) := by
  intro k l t hst hf
  rw [argTail]
  split
  · refine Safe.thenS (ih.argAliases _ l hst (by fuel_ok)) ?_
    intro _ l1 h1 hk
    apply Safe.bind
    apply Safe.peek
    split
    · exact Safe.pure ⟨h1, hk⟩
    · refine next_then S (lit '=') (by decide) h1 ?_
      intro _ l2 _ h2 _
      apply (ih.expression _ l2 h2 (by fuel_ok)).mono
      intro _ l3 h3
      exact h3.1.toS (by omega)
  · exact ih.expression _ l hst (by fuel_ok)

theorem argument_step : ∀ k l, St b n k l → need k 4 ≤ fuel + 1 →
    Safe n (parseArgument b (fuel + 1)) l (PostS b n k) := by
  intro k l hst hf
  rw [parseArgument]
  refine next_then S .ident (by decide) hst ?_
  intro _ l1 _ h1 hk
  apply Safe.bind
  apply Safe.peek
  split
  · exact Safe.pure ⟨h1, hk⟩
  · apply Safe.bind
    apply (oneof_safe S h1 [lit ':', lit '&', lit '='] (by decide)).mono
    intro tok l2 ⟨_, h2, _⟩
    split
    · refine Safe.thenS (ih.argTypes _ l2 h2 (by fuel_ok)) ?_
      intro _ l3 h3 _
      apply Safe.bind
      apply Safe.peek
      split
      · exact Safe.pure (h3.toS (by omega))
      · apply Safe.bind
        apply (oneof_safe S h3 [lit '&', lit '='] (by decide)).mono
        intro tok2 l4 ⟨_, h4, _⟩
        apply (ih.argTail _ l4 tok2 h4 (by fuel_ok)).mono
        intro _ l5 h5
        exact h5.1.toS (by omega)
    · apply (ih.argTail _ l2 tok h2 (by fuel_ok)).mono
      intro _ l5 h5
      exact h5.1.toS (by omega)

theorem arguments_step : ∀ k l, St b n k l → need k 5 ≤ fuel + 1 →
    Safe n (parseArguments b (fuel + 1)) l (PostN b n k) := by
  intro k l hst hf
  rw [parseArguments]
  apply Safe.bind
  apply Safe.peek
  split
  · refine Safe.thenS (ih.argument _ l hst (by fuel_ok)) ?_
    intro _ l1 h1 hk
    refine opt_cases S (lit ',') (by decide) h1 ?_ ?_
    · intro l2 h2 _
      simp only [↓reduceIte]
      apply (ih.arguments _ l2 h2 (by fuel_ok)).mono
      intro _ l3 h3
      exact h3.mono (by omega)
    · intro _
      simp only [Bool.false_eq_true, ↓reduceIte]
      exact Safe.pure (h1.mono (by omega))
  · exact Safe.pure hst

theorem ret_step : ∀ k l, St b n k l → need k 4 ≤ fuel + 1 →
    Safe n (parseReturn b (fuel + 1)) l (PostS b n k) := by
  intro k l hst hf
  rw [parseReturn]
  apply Safe.bind
  apply Safe.peek
  have close : ∀ j l', St b n j l' → j ≤ k →
      Safe n (do let _ ← next b .eol; pure ()) l' (PostS b n k) := by
    intro j l' hj hjk
    refine next_then S .eol (by decide) hj ?_
    intro _ l3 _ h3 hk3
    exact Safe.pure (h3.toS (by omega))
  split
  · refine Safe.thenS (ih.expression _ l hst (by fuel_ok)) ?_
    intro _ l1 h1 hk
    refine opt_cases S (lit ',') (by decide) h1 ?_ ?_
    · intro l2 h2 _
      simp only [↓reduceIte]
      apply (ih.ret _ l2 h2 (by fuel_ok)).mono
      intro _ l3 h3
      exact h3.1.toS (by omega)
    · intro _
      simp only [Bool.false_eq_true, ↓reduceIte]
      exact close _ l1 h1 (by omega)
  · exact close _ l hst (Nat.le_refl _)

theorem pfor_step : ∀ k l, St b n k l → need k 4 ≤ fuel + 1 → Safe n (parseFor b (fuel + 1)) l (PostS b n k) := by
  intro k l hst hf
  rw [parseFor]
  refine nextv_then S (kw "for") (by decide) hst ?_
  intro _ l1 h1 hk
  refine Safe.thenS (ih.identList _ l1 h1 (by fuel_ok)) ?_
  intro _ l2 h2 _
  refine nextv_then S (kw "in") (by decide) h2 ?_
  intro _ l3 h3 _
  refine Safe.thenS (ih.expression _ l3 h3 (by fuel_ok)) ?_
  intro _ l4 h4 _
  refine next_then S (lit ':') (by decide) h4 ?_
  intro _ l5 _ h5 _
  refine next_then S .eol (by decide) h5 ?_
  intro _ l6 _ h6 _
  apply (ih.statements _ l6 true h6 (by fuel_ok)).mono
  intro _ l7 h7
  exact h7.1.toS (by omega)

theorem elifs_step : ∀ k l inFor, St b n k l → need k 4 ≤ fuel + 1 →
    Safe n (parseElifs b (fuel + 1) inFor) l (PostN b n k) := by
  intro k l inFor hst hf
  rw [parseElifs]
  refine optv_cases S (kw "elif") (by decide) hst ?_ ?_
  · intro l1 h1 hk
    simp only [↓reduceIte]
    refine Safe.thenS (ih.expression _ l1 h1 (by fuel_ok)) ?_
    intro _ l2 h2 _
    refine next_then S (lit ':') (by decide) h2 ?_
    intro _ l3 _ h3 _
    refine next_then S .eol (by decide) h3 ?_
    intro _ l4 _ h4 _
    refine Safe.thenS (ih.statements _ l4 inFor h4 (by fuel_ok)) ?_
    intro _ l5 h5 _
    apply (ih.elifs _ l5 inFor h5 (by fuel_ok)).mono
    intro _ l6 h6
    exact h6.mono (by omega)
  · intro _
    simp only [Bool.false_eq_true, ↓reduceIte]
    refine optv_cases S (kw "else") (by decide) hst ?_ ?_
    · intro l1 h1 hk
      simp only [↓reduceIte]
      refine next_then S (lit ':') (by decide) h1 ?_
      intro _ l3 _ h3 _
      refine next_then S .eol (by decide) h3 ?_
      intro _ l4 _ h4 _
      apply (ih.statements _ l4 inFor h4 (by fuel_ok)).mono
      intro _ l5 h5
      exact h5.1.mono (by omega)
    · intro _
      simp only [Bool.false_eq_true, ↓reduceIte]
      exact Safe.pure hst

theorem pif_step : ∀ k l inFor, St b n k l → need k 4 ≤ fuel + 1 →
    Safe n (parseIf b (fuel + 1) inFor) l (PostS b n k) := by
  intro k l inFor hst hf
  rw [parseIf]
  refine nextv_then S (kw "if") (by decide) hst ?_
  intro _ l1 h1 hk
  refine Safe.thenS (ih.expression _ l1 h1 (by fuel_ok)) ?_
  intro _ l2 h2 _
  refine next_then S (lit ':') (by decide) h2 ?_
  intro _ l3 _ h3 _
  refine next_then S .eol (by decide) h3 ?_
  intro _ l4 _ h4 _
  refine Safe.thenS (ih.statements _ l4 inFor h4 (by fuel_ok)) ?_
  intro _ l5 h5 _
  apply (ih.elifs _ l5 inFor h5 (by fuel_ok)).mono
  intro _ l6 h6
  exact h6.toS (by omega)

theorem funcDef_step : ∀ k l, St b n k l → need k 4 ≤ fuel + 1 →
    Safe n (parseFuncDef b (fuel + 1)) l (PostS b n k) := by
  intro k l hst hf
  rw [parseFuncDef]
  refine nextv_then S (kw "def") (by decide) hst ?_
  intro _ l1 h1 hk
  refine next_then S .ident (by decide) h1 ?_
  intro _ l2 _ h2 _
  refine next_then S (lit '(') (by decide) h2 ?_
  intro _ l3 _ h3 _
  refine Safe.thenN (ih.arguments _ l3 h3 (by fuel_ok)) ?_
  intro _ l4 h4
  refine next_then S (lit ')') (by decide) h4 ?_
  intro _ l5 _ h5 _
  apply Safe.bind
  apply Safe.peek
  extract_lets jstm jbody
  have stmts : ∀ j2 l2', St b n j2 l2' → j2 + 1 ≤ k → Safe n (jstm ()) l2' (PostS b n k) := by
    intro j2 l2' hj2 hjk2
    simp only [jstm]
    apply (ih.statements _ l2' false hj2 (by fuel_ok)).mono
    intro _ l9 h9
    exact h9.1.toS (by omega)
  have body : ∀ j l', St b n j l' → j + 1 ≤ k → Safe n (jbody ()) l' (PostS b n k) := by
    intro j l' hj hjk
    simp only [jbody]
    refine next_then S (lit ':') (by decide) hj ?_
    intro _ l6 _ h6 _
    refine next_then S .eol (by decide) h6 ?_
    intro _ l7 _ h7 _
    apply Safe.bind
    apply Safe.peek
    split
    · rename_i hstr
      refine adv_then S h7 (by rw [hstr]; decide) ?_
      intro l8 h8 _
      refine next_then S .eol (by decide) h8 ?_
      intro _ l9 _ h9 _
      exact stmts _ l9 h9 (by omega)
    · exact stmts _ l7 h7 (by omega)
  split
  · refine next_then S (lit '-') (by decide) h5 ?_
    intro _ l6 _ h6 _
    refine next_then S (lit '>') (by decide) h6 ?_
    intro _ l7 _ h7 _
    apply Safe.bind
    apply (oneofval_safe S h7 C19.knownTypeNames (by decide)).mono
    intro _ l8 ⟨h8, _⟩
    exact body _ l8 h8 (by omega)
  · exact body _ l5 h5 (by omega)

theorem identStatement_step : ∀ k l, St b n k l → need k 4 ≤ fuel + 1 →
    Safe n (parseIdentStatement b (fuel + 1)) l (PostS b n k) := by
  intro k l hst hf
  rw [parseIdentStatement]
  apply Safe.bind
  apply Safe.peek
  refine next_then S .ident (by decide) hst ?_
  intro name l1 _ h1 hk
  split
  · exact Safe.failAt hst.1.inv.tpos
  · apply Safe.bind
    apply Safe.peek
    split
    · exact Safe.pure ⟨h1, hk⟩
    · -- `tok = p.l.Next()`: may be the EOF token, then every alternative fails at once
      apply Safe.bind
      by_cases heof : l1.next.ty = .eof
      · apply (adv_eof_safe S h1).mono
        intro t l2 ht
        subst ht
        have hval := h1.1.eofval heof
        rw [if_neg (by rw [heof]; decide), if_neg (by rw [heof]; decide), if_neg (by rw [heof]; decide),
          if_neg (by rw [heof]; decide), if_neg (by rw [heof]; decide), if_neg (by rw [hval]; decide)]
        exact Safe.failAt h1.1.inv.tpos
      · apply (adv_safe S h1 heof).mono
        intro t l2 ⟨ht, h2, _⟩
        subst ht
        split
        · refine Safe.thenS (ih.identList _ l2 h2 (by fuel_ok)) ?_
          intro _ l3 h3 _
          refine next_then S (lit '=') (by decide) h3 ?_
          intro _ l4 _ h4 _
          apply (ih.expression _ l4 h4 (by fuel_ok)).mono
          intro _ l5 h5
          exact h5.1.toS (by omega)
        · split
          · refine Safe.thenS (ih.expression _ l2 h2 (by fuel_ok)) ?_
            intro _ l3 h3 _
            refine next_then S (lit ']') (by decide) h3 ?_
            intro _ l4 _ h4 _
            apply Safe.bind
            apply (oneofval_safe S h4 ["=", "+="] (by decide)).mono
            intro _ l5 ⟨h5, _⟩
            apply (ih.expression _ l5 h5 (by fuel_ok)).mono
            intro _ l6 h6
            exact h6.1.toS (by omega)
          · split
            · apply (ih.identExpr _ l2 h2 (by fuel_ok)).mono
              intro _ l5 h5
              exact h5.1.toS (by omega)
            · split
              · apply (ih.call _ l2 _ h2 (by fuel_ok)).mono
                intro _ l5 h5
                exact h5.1.toS (by omega)
              · split
                · apply (ih.expression _ l2 h2 (by fuel_ok)).mono
                  intro _ l5 h5
                  exact h5.1.toS (by omega)
                · split
                  · apply (ih.expression _ l2 h2 (by fuel_ok)).mono
                    intro _ l5 h5
                    exact h5.1.toS (by omega)
                  · exact Safe.failAt h1.1.inv.tpos

theorem statements_step : ∀ k l inFor, St b n k l → need k 6 ≤ fuel + 1 →
    Safe n (parseStatements b (fuel + 1) inFor) l (PostS b n k) := by
  intro k l inFor hst hf
  rw [parseStatements]
  apply Safe.bind
  apply Safe.peek
  split
  · refine Safe.thenS (ih.statement _ l inFor hst (by fuel_ok)) ?_
    intro _ l1 h1 hk
    apply (ih.statements _ l1 inFor h1 (by fuel_ok)).mono
    intro _ l2 h2
    exact h2.1.toS (by omega)
  · refine next_then S .unindent (by decide) hst ?_
    intro _ l1 _ h1 hk
    exact Safe.pure ⟨h1, hk⟩

theorem statement_step : ∀ k l inFor, St b n k l → need k 5 ≤ fuel + 1 →
    Safe n (parseStatement b (fuel + 1) inFor) l (PostS b n k) := by
  intro k l inFor hst hf
  rw [parseStatement]
  apply Safe.bind
  apply Safe.peek
  have eol : ∀ j l', St b n j l' → j + 1 ≤ k →
      Safe n (do let _ ← next b .eol; pure ()) l' (PostS b n k) := by
    intro j l' hj hjk
    refine next_then S .eol (by decide) hj ?_
    intro _ l3 _ h3 _
    exact Safe.pure (h3.toS (by omega))
  have advEol : l.next.ty ≠ .eof →
      Safe n (do let _ ← adv b; let _ ← next b .eol; pure ()) l (PostS b n k) := by
    intro hne
    refine adv_then S hst hne ?_
    intro l1 h1 _
    exact eol _ l1 h1 (by omega)
  split
  · rename_i hv
    exact advEol (hst.1.ne_eof hv (by decide))
  · split
    · rename_i hv
      split
      · exact Safe.failAt hst.1.inv.tpos
      · exact advEol (hst.1.ne_eof hv (by decide))
    · split
      · rename_i hv
        split
        · exact Safe.failAt hst.1.inv.tpos
        · exact advEol (hst.1.ne_eof hv (by decide))
      · split
        · exact ih.funcDef _ l hst (by fuel_ok)
        · split
          · exact ih.pfor _ l hst (by fuel_ok)
          · split
            · exact ih.pif _ l inFor hst (by fuel_ok)
            · split
              · rename_i hv
                refine adv_then S hst (hst.1.ne_eof hv (by decide)) ?_
                intro l1 h1 _
                apply (ih.ret _ l1 h1 (by fuel_ok)).mono
                intro _ l2 h2
                exact h2.1.toS (by omega)
              · split
                · rename_i hv
                  refine adv_then S hst (hst.1.ne_eof hv (by decide)) ?_
                  intro l1 h1 _
                  refine Safe.thenS (ih.expression _ l1 h1 (by fuel_ok)) ?_
                  intro _ l2 h2 _
                  exact eol _ l2 h2 (by omega)
                · split
                  · rename_i hv
                    refine adv_then S hst (hst.1.ne_eof hv (by decide)) ?_
                    intro l1 h1 _
                    refine Safe.thenS (ih.expression _ l1 h1 (by fuel_ok)) ?_
                    intro _ l2 h2 _
                    refine opt_cases S (lit ',') (by decide) h2 ?_ ?_
                    · intro l3 h3 _
                      simp only [↓reduceIte]
                      refine Safe.thenS (ih.expression _ l3 h3 (by fuel_ok)) ?_
                      intro _ l4 h4 _
                      exact eol _ l4 h4 (by omega)
                    · intro _
                      simp only [Bool.false_eq_true, ↓reduceIte]
                      exact eol _ l2 h2 (by omega)
                  · simp only []
                    split
                    · refine Safe.thenS (ih.identStatement _ l hst (by fuel_ok)) ?_
                      intro _ l1 h1 _
                      exact eol _ l1 h1 (by omega)
                    · refine Safe.thenS (ih.expression _ l hst (by fuel_ok)) ?_
                      intro _ l1 h1 _
                      exact eol _ l1 h1 (by omega)

/-- All step lemmas together: the specifications at `fuel` give those at `fuel + 1`. -/
theorem specs_succ : Specs b n (fuel + 1) :=
  { statement := statement_step S ih
    statements := statements_step S ih
    ret := ret_step S ih
    funcDef := funcDef_step S ih
    arguments := arguments_step S ih
    argument := argument_step S ih
    argTypes := argTypes_step S ih
    argTail := argTail_step S ih
    argAliases := argAliases_step S ih
    pif := pif_step S ih
    elifs := elifs_step S ih
    pfor := pfor_step S ih
    identList := identList_step S ih
    expression := expression_step S ih
    unconditional := unconditional_step S ih
    value := value_step S ih
    valueTail := valueTail_step S ih
    identStatement := identStatement_step S ih
    identExpr := identExpr_step S ih
    identActions := identActions_step S ih
    call := call_step S ih
    list := list_step S ih
    listItems := listItems_step S ih
    dict := dict_step S ih
    dictItems := dictItems_step S ih
    slice := slice_step S ih
    comprehension := comprehension_step S ih
    lambda := lambda_step S ih
    lambdaArgs := lambdaArgs_step S ih }

end step

/-- With no fuel nothing is required: `need` is never 0. -/
theorem specs_zero (b : Bytes) (n : Nat) : Specs b n 0 := by
  constructor <;> intros <;> (simp only [need] at *; omega)

theorem specs_all {b : Bytes} {n : Nat} (S : Sentinel b n) : ∀ fuel, Specs b n fuel
  | 0 => specs_zero b n
  | fuel + 1 => specs_succ S (specs_all S fuel)

/-- The statement loop of parseFileInput. -/
theorem parseTop_safe {b : Bytes} {n : Nat} (S : Sentinel b n) : ∀ fuel k l cnt, St b n k l → need k 7 ≤ fuel →
    Safe n (parseTop b fuel cnt) l (fun _ _ => True) := by
  intro fuel
  induction fuel with
  | zero => intro k l cnt _ hf; simp only [need] at hf; omega
  | succ fuel ih =>
    intro k l cnt hst hf
    rw [parseTop]
    apply Safe.bind
    apply Safe.peek
    split
    · refine Safe.thenS ((specs_all S fuel).statement _ l false hst (by fuel_ok)) ?_
      intro _ l1 h1 _
      exact ih _ l1 _ h1 (by fuel_ok)
    · exact Safe.pure trivial


/-! ### the whole file -/

theorem advance_eofval {b : Bytes} {l l' : Lexer} {t : Token} (h : l.advance b = .ok (t, l'))
    (he : l'.next.ty = .eof) : l'.next.val = #[] := by
  unfold Lexer.advance at h
  split at h
  · cases h
  · rename_i t' st hnt
    cases h
    exact nextToken_eof_val hnt he

theorem skipLeadingEOL_eofval {b : Bytes} : ∀ (fuel : Nat) (l l' : Lexer),
    (l.next.ty = .eof → l.next.val = #[]) → skipLeadingEOL b fuel l = .ok l' →
    (l'.next.ty = .eof → l'.next.val = #[])
  | 0, l, l', _, h => by simp [skipLeadingEOL] at h
  | fuel + 1, l, l', hl, h => by
    rw [skipLeadingEOL] at h
    split at h
    · split at h
      · cases h
      · rename_i t l1 hadv
        exact skipLeadingEOL_eofval fuel l1 l' (advance_eofval hadv) h
    · cases h; exact hl

theorem newLexer_eofval {b : Bytes} {l : Lexer} (h : newLexer b = .ok l) :
    l.next.ty = .eof → l.next.val = #[] := by
  unfold newLexer at h
  split at h
  · cases h
  · rename_i t l1 hadv
    exact skipLeadingEOL_eofval _ l1 l (advance_eofval hadv) h

/-- The parser on any input: it ends with a program, a positioned error (the lexer's or its own) or the
    concatStrings runtime error — never out of fuel, never out of the buffer. -/
theorem parseFile_spec (data : Bytes) (hk : 2 ≤ C19.sentinels) :
    match parseFile data with
    | .ok _ => True
    | .error e => GoodErr ((mkBuffer data).size - C19.sentinels) e := by
  have S := mkBuffer_sentinel data hk
  unfold parseFile
  simp only []
  rcases newLexer_spec S with ⟨l, h1, h2, h3⟩ | ⟨e, h1, h2⟩
  · rw [h1]
    simp only []
    have hst : St (mkBuffer data) ((mkBuffer data).size - C19.sentinels) (M (mkBuffer data) l.st) l :=
      ⟨⟨h2, newLexer_eofval h1⟩, Nat.le_refl _⟩
    have hfuel : need (M (mkBuffer data) l.st) 7 ≤ parseFuel (mkBuffer data) := by
      simp only [need, parseFuel, fuelFor] at h3 ⊢
      omega
    have := parseTop_safe S (parseFuel (mkBuffer data)) _ l 0 hst hfuel
    unfold Safe at this
    split at this
    · rename_i a l' hp; rw [hp]; trivial
    · rename_i e hp; rw [hp]; exact this
  · rw [h1]; exact h2

end PlzVerif.AspParse
