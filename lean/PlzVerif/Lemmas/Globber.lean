import PlzVerif.Model.Globber
set_option linter.unusedSimpArgs false
/-! C21: the Globber's walk cache is transparent when the cache key determines the cached value. -/
namespace PlzVerif.Glob
open PlzVerif.Walk

/-- The cached listing does not depend on anything outside the key: either hidden entries are not dropped at walk
    time, or the flag is part of the key. -/
def KeyDetermines (C : CacheFacts) : Prop := C.hiddenAtWalk = false ∨ C.keyHasHidden = true

theorem walkDirH_key (C : CacheFacts) (h : KeyDetermines C) (F : Facts) (cfg : Cfg) (t : Tree) (c1 c2 : Call)
    (hk : keyOf C c1 = keyOf C c2) :
    walkDirH C F cfg c1.root t c1.hidden = walkDirH C F cfg c2.root t c2.hidden := by
  simp only [keyOf, Prod.mk.injEq] at hk
  obtain ⟨hr, hh⟩ := hk
  rcases h with h | h
  · simp only [walkDirH, h, Bool.false_and, Bool.false_eq_true, if_false, hr]
  · simp only [h, if_true, Option.some.injEq] at hh
    rw [hr, hh]

/-- Every cached listing is the one a walk for its key produces. -/
def Inv (C : CacheFacts) (F : Facts) (cfg : Cfg) (whole : Tree) (st : Cache) : Prop :=
  ∀ k w, st.get k = some w → ∀ (c : Call) (t : Tree), keyOf C c = k → subdir whole c.root = some t →
    w = walkDirH C F cfg c.root t c.hidden

theorem inv_nil (C : CacheFacts) (F : Facts) (cfg : Cfg) (whole : Tree) : Inv C F cfg whole [] := by
  intro k w h; simp [Cache.get] at h

theorem step_transparent (C : CacheFacts) (hC : KeyDetermines C) (F : Facts) (cfg : Cfg) (whole : Tree) (st : Cache)
    (c : Call) (hi : Inv C F cfg whole st) :
    (step C F cfg whole st c).2 = freshCall C F cfg whole c ∧ Inv C F cfg whole (step C F cfg whole st c).1 := by
  unfold freshCall step
  cases hs : subdir whole c.root with
  | none => exact ⟨by first | rfl | trivial, hi⟩
  | some t =>
    simp only [Cache.get]
    cases hg : st.get (keyOf C c) with
    | some w =>
      have hw := hi _ w hg c t rfl hs
      simp only [Option.isNone_some, Bool.false_and, Bool.false_eq_true, if_false, hw]
      exact ⟨by first | rfl | trivial, hi⟩
    | none =>
      simp only [Option.isNone_none, Bool.true_and]
      refine ⟨by first | rfl | trivial, ?_⟩
      split
      · intro k w hgk c' t' hk' hs'
        simp only [Cache.get] at hgk
        split at hgk
        · rename_i hkk
          simp only [Option.some.injEq] at hgk
          have hr : c.root = c'.root := by
            have := hk'.trans hkk.symm
            simp only [keyOf, Prod.mk.injEq] at this
            exact this.1.symm
          have ht : t = t' := by rw [hr] at hs; rw [hs] at hs'; exact Option.some.inj hs'
          rw [← hgk, ht]
          exact walkDirH_key C hC F cfg t' c c' (hkk.trans hk'.symm)
        · exact hi k w hgk c' t' hk' hs'
      · exact hi

/-- **The walk cache is transparent.**  Whatever sequence of `Glob` calls one Globber serves -- any roots, patterns,
    excludes, `hidden` and symlink flags, in any order, with panicking calls in between -- every call returns what the
    same call returns on a Globber of its own. -/
theorem runSeq_transparent (C : CacheFacts) (hC : KeyDetermines C) (F : Facts) (cfg : Cfg) (whole : Tree) :
    ∀ (calls : List Call) (st : Cache), Inv C F cfg whole st →
      runSeq C F cfg whole st calls = calls.map (freshCall C F cfg whole)
  | [], _, _ => rfl
  | c :: rest, st, hi => by
    obtain ⟨h1, h2⟩ := step_transparent C hC F cfg whole st c hi
    simp only [runSeq, List.map_cons, h1, runSeq_transparent C hC F cfg whole rest _ h2]

/-- With today's structure a call on a fresh Globber is `globAll` of the package directory. -/
theorem freshCall_eq_globAll (C : CacheFacts) (h1 : C.hiddenAtWalk = false) (h2 : C.hiddenPerMatch = true)
    (F : Facts) (cfg : Cfg) (whole : Tree) (c : Call) (t : Tree) (hs : subdir whole c.root = some t) :
    freshCall C F cfg whole c = globAll F cfg c.root t c.includes c.excludes c.hidden c.symlinks := by
  simp only [freshCall, step, hs, Cache.get, walkDirH, h1, h2, Bool.false_and, Bool.false_eq_true, if_false,
    Bool.not_true, Bool.or_false]
  rfl

end PlzVerif.Glob
