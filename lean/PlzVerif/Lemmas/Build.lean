import PlzVerif.Model.Build
/-! Lemmas for C01/C02/C03: the history invariant and "incremental = clean". Core only. -/
namespace PlzVerif.Build
set_option linter.unusedSectionVars false
set_option linter.unusedSimpArgs false

variable {K A F N C S H : Type} [DecidableEq K] [DecidableEq S] [DecidableEq N] [DecidableEq H]
variable (fx : Facts) (mv : C → C → C) (exec : A → List (N × C) → C) (ruleSer : A → S) (pathSer : C → H)

theorem map_inj {α β} {f : α → β} (hf : Function.Injective f) : ∀ {l1 l2 : List α}, l1.map f = l2.map f → l1 = l2
  | [], [], _ => rfl
  | [], _ :: _, h => by simp at h
  | _ :: _, [], h => by simp at h
  | a :: l1, b :: l2, h => by
    simp only [List.map_cons, List.cons.injEq] at h
    rw [hf h.1, map_inj hf h.2]

theorem pairSer_inj (hP : Function.Injective pathSer) :
    Function.Injective (fun p : N × C => (p.1, pathSer p.2)) := by
  intro a b h
  simp only [Prod.mk.injEq] at h
  exact Prod.ext h.1 (hP h.2)

/-- When both the rule and the source component are compared, `stampEq` is equality of stamps. -/
theorem stampEq_iff (hf : fx.cmpRule = true ∧ fx.cmpSource = true) (a b : Stamp S N H) :
    stampEq fx a b = true ↔ a = b := by
  obtain ⟨ra, ia⟩ := a
  obtain ⟨rb, ib⟩ := b
  simp [stampEq, hf.1, hf.2]

/-- History invariant: every stamped output is `exec` of what its stamp describes. -/
def Inv (out : Out K C S N H) : Prop :=
  ∀ k c st, out k = some (c, st) → ∃ a ins, st = stampOf ruleSer pathSer a ins ∧ c = exec a ins

theorem inv_empty : Inv exec ruleSer pathSer (fun (_ : K) => (none : Option (C × Stamp S N H))) := by
  intro k c st h; simp at h

/-- Removing outputs (rm -rf plz-out, deleting one output) keeps the invariant. -/
theorem inv_restrict (out : Out K C S N H) (keep : K → Bool) (h : Inv exec ruleSer pathSer out) :
    Inv exec ruleSer pathSer (fun k => if keep k then out k else none) := by
  intro k c st hk
  by_cases hkk : keep k = true
  · simp [hkk] at hk; exact h k c st hk
  · simp [hkk] at hk

theorem buildOne_other (r : Repo K A F N C) (out : Out K C S N H) (t : Target K A F) (j : K) (h : j ≠ t.key) :
    (buildOne fx mv exec ruleSer pathSer r out t).1 j = out j := by
  unfold buildOne
  cases inputs r out t with
  | none => rfl
  | some ins =>
    simp only
    cases out t.key with
    | none => simp [h]
    | some p => obtain ⟨c0, st0⟩ := p; simp only; split <;> simp [h]

/-- One build step keeps the history invariant (needs `pathSer` injective: moveOutput keeps the old file). -/
theorem buildOne_inv (hmv : MvOK pathSer mv) (hP : Function.Injective pathSer) (r : Repo K A F N C) (out : Out K C S N H)
    (t : Target K A F) (hinv : Inv exec ruleSer pathSer out) :
    Inv exec ruleSer pathSer (buildOne fx mv exec ruleSer pathSer r out t).1 := by
  unfold buildOne
  cases hin : inputs r out t with
  | none => simpa using hinv
  | some ins =>
    simp only
    cases ho : out t.key with
    | none =>
      simp only
      intro j c st hj
      by_cases hji : j = t.key
      · subst hji; simp at hj; obtain ⟨rfl, rfl⟩ := hj; exact ⟨t.attrs, ins, rfl, rfl⟩
      · simp [hji] at hj; exact hinv j c st hj
    | some p =>
      obtain ⟨c0, st0⟩ := p
      simp only
      split
      · exact hinv
      · intro j c st hj
        by_cases hji : j = t.key
        · subst hji
          simp at hj
          obtain ⟨hc, rfl⟩ := hj
          refine ⟨t.attrs, ins, rfl, ?_⟩
          rcases hmv c0 (exec t.attrs ins) with h | ⟨heq, h⟩
          · rw [← hc, h]
          · rw [← hc, h]; exact hP heq
        · simp [hji] at hj; exact hinv j c st hj

/-- `seen` = keys of the selected targets processed so far; plz-out and the clean accumulator agree on them. -/
def Agree (out : Out K C S N H) (acc : List (K × C)) (seen : List K) : Prop :=
  ∀ k ∈ seen, ∃ c st, out k = some (c, st) ∧ acc.lookup k = some c

/-- Well-formed target list relative to what has been processed: dependencies of a selected target are
    selected targets that come earlier; keys are not repeated. -/
def WFList (sel : K → Bool) : List K → List (Target K A F) → Prop
  | _, [] => True
  | seen, t :: ts =>
    if sel t.key then (∀ d ∈ t.deps, d ∈ seen) ∧ t.key ∉ seen ∧ WFList sel (seen ++ [t.key]) ts
    else WFList sel seen ts

def selKeys (sel : K → Bool) (ts : List (Target K A F)) : List K := (ts.filter (fun t => sel t.key)).map (·.key)

theorem depIns_agree {r : Repo K A F N C} {out : Out K C S N H} {acc : List (K × C)} {seen : List K}
    (hag : Agree out acc seen) : ∀ (deps : List K), (∀ d ∈ deps, d ∈ seen) →
      depIns r out deps = some (deps.filterMap (fun d => (acc.lookup d).map (fun c => (r.outName d, c)))) := by
  intro deps
  induction deps with
  | nil => intro _; simp [depIns]
  | cons d ds ih =>
    intro h
    obtain ⟨c, st, ho, ha⟩ := hag d (h d (List.mem_cons_self ..))
    have ih' := ih (fun d' hd' => h d' (List.mem_cons_of_mem _ hd'))
    simp only [depIns] at ih' ⊢
    simp [List.mapM_cons, ho, ha, ih']

theorem lookup_append_of_mem {k : K} {acc : List (K × C)} {x : K × C} {c : C}
    (h : acc.lookup k = some c) : (acc ++ [x]).lookup k = some c := by
  induction acc with
  | nil => simp at h
  | cons p ps ih =>
    obtain ⟨k', c'⟩ := p
    simp only [List.cons_append, List.lookup_cons] at h ⊢
    by_cases hk : k == k'
    · simpa [hk] using h
    · simp only [hk] at h ⊢; exact ih h

theorem lookup_append_new {k : K} {acc : List (K × C)} {c : C} (h : k ∉ acc.map (·.1)) :
    (acc ++ [(k, c)]).lookup k = some c := by
  induction acc with
  | nil => simp [List.lookup]
  | cons p ps ih =>
    obtain ⟨k', c'⟩ := p
    simp only [List.map_cons, List.mem_cons, not_or] at h
    have hne : (k == k') = false := by simpa using h.1
    simp only [List.cons_append, List.lookup_cons, hne]
    exact ih h.2

/-- After processing a selected target whose dependencies agree with the clean accumulator, its output is
    the clean output (skip is sound: equal stamp ⇒ equal definition and inputs ⇒ equal output). -/
theorem buildOne_self (hmv : MvOK pathSer mv) (hf : fx.cmpRule = true ∧ fx.cmpSource = true)
    (hR : Function.Injective ruleSer) (hP : Function.Injective pathSer)
    (r : Repo K A F N C) (out : Out K C S N H) (acc : List (K × C)) (seen : List K) (t : Target K A F)
    (hinv : Inv exec ruleSer pathSer out) (hag : Agree out acc seen) (hd : ∀ d ∈ t.deps, d ∈ seen) :
    ∃ st, (buildOne fx mv exec ruleSer pathSer r out t).1 t.key =
      some (exec t.attrs (t.srcs.map (fun f => (r.fname f, r.files f)) ++
        t.deps.filterMap (fun d => (acc.lookup d).map (fun c => (r.outName d, c)))), st) := by
  have hin : inputs r out t = some (t.srcs.map (fun f => (r.fname f, r.files f)) ++
      t.deps.filterMap (fun d => (acc.lookup d).map (fun c => (r.outName d, c)))) := by
    simp [inputs, depIns_agree hag t.deps hd]
  unfold buildOne
  rw [hin]
  simp only
  cases ho : out t.key with
  | none => simp
  | some p =>
    obtain ⟨c0, st0⟩ := p
    simp only
    split
    · rename_i hst
      rw [stampEq_iff fx hf] at hst
      obtain ⟨a, ins, hs, hc⟩ := hinv t.key c0 st0 ho
      rw [hs] at hst
      simp only [stampOf, Stamp.mk.injEq] at hst
      have ha : a = t.attrs := hR hst.1
      have hi := map_inj (pairSer_inj pathSer hP) hst.2
      subst ha; rw [hi] at hc
      exact ⟨st0, by show out t.key = _; rw [ho, hc]⟩
    · simp only [ite_true]
      rcases hmv c0 (exec t.attrs (t.srcs.map (fun f => (r.fname f, r.files f)) ++
          t.deps.filterMap (fun d => (acc.lookup d).map (fun c => (r.outName d, c))))) with h | ⟨heq, h⟩
      · exact ⟨_, by rw [h]⟩
      · exact ⟨_, by rw [h, hP heq]⟩

theorem buildList_spec (hmv : MvOK pathSer mv) (hf : fx.cmpRule = true ∧ fx.cmpSource = true)
    (hR : Function.Injective ruleSer) (hP : Function.Injective pathSer)
    (r : Repo K A F N C) (sel : K → Bool) :
    ∀ (ts : List (Target K A F)) (seen : List K) (out : Out K C S N H) (acc : List (K × C)),
      acc.map (·.1) = seen → Inv exec ruleSer pathSer out → Agree out acc seen → WFList sel seen ts →
      Inv exec ruleSer pathSer (buildList fx mv exec ruleSer pathSer r sel ts out).1 ∧
      (cleanList exec r sel ts acc).map (·.1) = seen ++ selKeys sel ts ∧
      Agree (buildList fx mv exec ruleSer pathSer r sel ts out).1 (cleanList exec r sel ts acc) (seen ++ selKeys sel ts) := by
  intro ts
  induction ts with
  | nil => intro seen out acc hk hinv hag _; simpa [buildList, cleanList, selKeys] using ⟨hinv, hk, hag⟩
  | cons t ts ih =>
    intro seen out acc hk hinv hag hwf
    by_cases hs : sel t.key = true
    · simp only [WFList, hs, if_true] at hwf
      obtain ⟨hd, hnew, hwf'⟩ := hwf
      have hinv' := buildOne_inv fx mv exec ruleSer pathSer hmv hP r out t hinv
      obtain ⟨st, hself⟩ := buildOne_self fx mv exec ruleSer pathSer hmv hf hR hP r out acc seen t hinv hag hd
      have hag' : Agree (buildOne fx mv exec ruleSer pathSer r out t).1
          (acc ++ [(t.key, exec t.attrs (t.srcs.map (fun f => (r.fname f, r.files f)) ++
            t.deps.filterMap (fun d => (acc.lookup d).map (fun c => (r.outName d, c)))))]) (seen ++ [t.key]) := by
        intro k hkm
        rcases List.mem_append.mp hkm with hks | hkt
        · have hne : k ≠ t.key := fun e => hnew (e ▸ hks)
          obtain ⟨c, st', ho, ha⟩ := hag k hks
          exact ⟨c, st', by rw [buildOne_other fx mv exec ruleSer pathSer r out t k hne]; exact ho,
            lookup_append_of_mem ha⟩
        · have hkt' : k = t.key := by simpa using hkt
          subst hkt'
          exact ⟨_, st, hself, lookup_append_new (by rw [hk]; exact hnew)⟩
      have := ih (seen ++ [t.key]) _ _ (by simp [hk]) hinv' hag' hwf'
      simp only [buildList, cleanList, hs, if_true, selKeys, List.filter_cons, List.map_cons]
      simpa [selKeys, List.append_assoc] using this
    · simp only [Bool.not_eq_true] at hs
      simp only [WFList, hs] at hwf
      have := ih seen out acc hk hinv hag (by simpa using hwf)
      simpa [buildList, cleanList, hs, selKeys, List.filter_cons] using this

end PlzVerif.Build

namespace PlzVerif.Build
set_option linter.unusedSectionVars false
variable {K A F N C S H : Type} [DecidableEq K] [DecidableEq S] [DecidableEq N] [DecidableEq H]
variable (fx : Facts) (mv : C → C → C) (exec : A → List (N × C) → C) (ruleSer : A → S) (pathSer : C → H)

/-- Any build (well-formed or not) preserves the history invariant. -/
theorem buildList_inv (hmv : MvOK pathSer mv) (hP : Function.Injective pathSer) (r : Repo K A F N C) (sel : K → Bool) :
    ∀ (ts : List (Target K A F)) (out : Out K C S N H), Inv exec ruleSer pathSer out →
      Inv exec ruleSer pathSer (buildList fx mv exec ruleSer pathSer r sel ts out).1 := by
  intro ts
  induction ts with
  | nil => intro out h; exact h
  | cons t ts ih =>
    intro out h
    by_cases hs : sel t.key = true
    · simp only [buildList, hs, if_true]
      exact ih _ (buildOne_inv fx mv exec ruleSer pathSer hmv hP r out t h)
    · simp only [Bool.not_eq_true] at hs
      simp only [buildList, hs]
      exact ih out h

/-- One step of a user history: a build of some repository state (sources and BUILD files as they are at that
    moment) for some requested set, or the removal of arbitrary outputs from plz-out. Edits to the source tree
    are reflected in the `Repo` the next build sees; they never touch plz-out. -/
inductive HOp (K A F N C : Type) where
  | build (r : Repo K A F N C) (sel : K → Bool)
  | remove (keep : K → Bool)

def runHist : List (HOp K A F N C) → Out K C S N H → Out K C S N H
  | [], out => out
  | .build r sel :: ops, out => runHist ops (build fx mv exec ruleSer pathSer r sel out).1
  | .remove keep :: ops, out => runHist ops (fun k => if keep k then out k else none)

theorem runHist_inv (hmv : MvOK pathSer mv) (hP : Function.Injective pathSer) :
    ∀ (ops : List (HOp K A F N C)) (out : Out K C S N H), Inv exec ruleSer pathSer out →
      Inv exec ruleSer pathSer (runHist fx mv exec ruleSer pathSer ops out) := by
  intro ops
  induction ops with
  | nil => intro out h; exact h
  | cons op ops ih =>
    intro out h
    cases op with
    | build r sel => exact ih _ (buildList_inv fx mv exec ruleSer pathSer hmv hP r sel r.targets out h)
    | remove keep => exact ih _ (inv_restrict exec ruleSer pathSer out keep h)

end PlzVerif.Build
