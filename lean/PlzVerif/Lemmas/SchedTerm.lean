import PlzVerif.Lemmas.Sched
/-! C05: a measure that strictly decreases along every state-changing step of the scheduler model. -/
namespace PlzVerif.Sched

variable (c : Cfg)

def sumTo (f : Nat → Nat) : Nat → Nat
  | 0 => 0
  | n + 1 => sumTo f n + f n

theorem sumTo_congr {f g : Nat → Nat} {n : Nat} (h : ∀ i, i < n → f i = g i) : sumTo f n = sumTo g n := by
  induction n with
  | zero => rfl
  | succ k ih =>
    simp only [sumTo]
    rw [ih (fun i hi => h i (Nat.lt_succ_of_lt hi)), h k (Nat.lt_succ_self k)]

/-- changing one summand inside the range -/
theorem sumTo_upd {α : Type} (g : Nat → α) (m : α → Nat) (n i : Nat) (hi : i < n) (v : α) :
    sumTo (fun j => m (upd g i v j)) n + m (g i) = sumTo (fun j => m (g j)) n + m v := by
  induction n with
  | zero => omega
  | succ k ih =>
    simp only [sumTo]
    by_cases e : i = k
    · subst e
      have : sumTo (fun j => m (upd g i v j)) i = sumTo (fun j => m (g j)) i :=
        sumTo_congr (fun j hj => by simp [upd, Nat.ne_of_lt hj])
      rw [this]; simp [upd]; omega
    · have hik : i < k := by omega
      have := ih hik
      have e2 : upd g i v k = g k := by simp [upd]; intro h; exact absurd h.symm e
      rw [e2]; omega

/-- changing a summand outside the range -/
theorem sumTo_upd_out {α : Type} (g : Nat → α) (m : α → Nat) (n i : Nat) (hi : n ≤ i) (v : α) :
    sumTo (fun j => m (upd g i v j)) n = sumTo (fun j => m (g j)) n :=
  sumTo_congr (fun j hj => by have : j ≠ i := by omega
                              simp [upd, this])

/-- work left in a queuer -/
def qm : Option Queuer → Nat
  | none => 0
  | some q =>
    match q.ph with
    | .queueDeps r => r.length + (c.deps q.t).length + 4
    | .waitDeps r => r.length + 2
    | .done => 1

def cm : Option T → Nat
  | none => 0
  | some _ => 4

def wm : Option Worker → Nat
  | none => 0
  | some ⟨_, .taken⟩ => 3
  | some ⟨_, .building⟩ => 2
  | some ⟨_, .finished⟩ => 1

/-- what one step up the state order of target `t` pays for -/
def tw (t : T) : Nat := 2 * (c.deps t).length + 12

def muA (st : T → TS) : Nat := sumTo (fun t => tw c t * (13 - (st t).rank)) c.n
def muQ (qs : Nat → Option Queuer) (n : Nat) : Nat := sumTo (fun i => qm c (qs i)) n
def muC (ch : Nat → Option T) (n : Nat) : Nat := sumTo (fun i => cm (ch i)) n
def muW (ws : Nat → Option Worker) (n : Nat) : Nat := sumTo (fun i => wm (ws i)) n

/-- the termination measure -/
def mu (s : St) : Nat :=
  muA c s.st + muQ c s.qs s.nextQ + muC s.chan s.nextM + muW s.ws s.nextW +
    (if s.initDone then 0 else 1) + (if s.stopped then 0 else 1)

/-- the extra well-formedness the measure needs: everything lives inside `0 … n-1` -/
structure Inv2 (s : St) : Prop where
  qT : ∀ i q, s.qs i = some q → q.t < c.n
  qQueue : ∀ i q r, s.qs i = some q → q.ph = .queueDeps r → ∀ d ∈ r, d < c.n
  qWaitR : ∀ i q r, s.qs i = some q → q.ph = .waitDeps r → ∀ d ∈ r, d < c.n

def WF : Prop := ∀ t d, d ∈ c.deps t → d < c.n

theorem rank_le (x : TS) : x.rank ≤ 13 := by cases x <;> decide

/-- raising the state of one target inside the range lowers `muA` by at least `tw` -/
theorem muA_upd (st : T → TS) (t : T) (ht : t < c.n) (ns : TS) (h : (st t).rank < ns.rank) :
    muA c (upd st t ns) + tw c t ≤ muA c st := by
  unfold muA
  have e : ∀ (n : Nat), t < n →
      sumTo (fun u => tw c u * (13 - (upd st t ns u).rank)) n + tw c t ≤ sumTo (fun u => tw c u * (13 - (st u).rank)) n := by
    intro n
    induction n with
    | zero => intro h; exact absurd h (Nat.not_lt_zero _)
    | succ k ih =>
      intro hk
      simp only [sumTo]
      by_cases e : t = k
      · subst e
        have h1 : sumTo (fun u => tw c u * (13 - (upd st t ns u).rank)) t = sumTo (fun u => tw c u * (13 - (st u).rank)) t :=
          sumTo_congr (fun j hj => by simp [upd, Nat.ne_of_lt hj])
        rw [h1]; simp only [upd_same]
        have h13 := rank_le ns
        have : tw c t * (13 - ns.rank) + tw c t ≤ tw c t * (13 - (st t).rank) := by
          have : 13 - ns.rank + 1 ≤ 13 - (st t).rank := by omega
          calc tw c t * (13 - ns.rank) + tw c t = tw c t * (13 - ns.rank + 1) := by rw [Nat.mul_add, Nat.mul_one]
            _ ≤ tw c t * (13 - (st t).rank) := Nat.mul_le_mul_left _ this
        omega
      · have hlt : t < k := Nat.lt_of_le_of_ne (Nat.le_of_lt_succ hk) e
        have := ih hlt
        have e2 : upd st t ns k = st k := by simp [upd]; intro h; exact absurd h.symm e
        rw [e2]; omega
  exact e c.n ht

theorem muA_upd_le (st : T → TS) (t : T) (ns : TS) (h : (st t).rank ≤ ns.rank) : muA c (upd st t ns) ≤ muA c st := by
  unfold muA
  have e : ∀ (n : Nat),
      sumTo (fun u => tw c u * (13 - (upd st t ns u).rank)) n ≤ sumTo (fun u => tw c u * (13 - (st u).rank)) n := by
    intro n
    induction n with
    | zero => exact Nat.le_refl _
    | succ k ih =>
      simp only [sumTo]
      by_cases e : k = t
      · subst e; simp only [upd_same]
        have : tw c k * (13 - ns.rank) ≤ tw c k * (13 - (st k).rank) := Nat.mul_le_mul_left _ (by omega)
        omega
      · rw [upd_other _ _ _ _ e]; omega
  exact e c.n

/-- a fresh entry at the end of an indexed family -/
theorem sumTo_push {α : Type} (g : Nat → α) (m : α → Nat) (n : Nat) (v : α) :
    sumTo (fun j => m (upd g n v j)) (n + 1) = sumTo (fun j => m (g j)) n + m v := by
  simp only [sumTo, upd_same]
  rw [sumTo_upd_out g m n n (Nat.le_refl n) v]

end PlzVerif.Sched
