import PlzVerif.Lemmas.Sched
/-! C05: a measure that strictly decreases along every state-changing step of the scheduler model. -/
namespace PlzVerif.Sched

variable (c : Cfg)

def sumTo (f : Nat → Nat) : Nat → Nat
  | 0 => 0
  | n + 1 => sumTo f n + f n

theorem sumTo_congr {f g : Nat → Nat} {n : Nat} (h : ∀ i, i < n → f i = g i) : sumTo f n = sumTo g n := by
  induction n with
  | zero => rfl
  | succ k ih =>
    simp only [sumTo]
    rw [ih (fun i hi => h i (Nat.lt_succ_of_lt hi)), h k (Nat.lt_succ_self k)]

/-- changing one summand inside the range -/
theorem sumTo_upd {α : Type} (g : Nat → α) (m : α → Nat) (n i : Nat) (hi : i < n) (v : α) :
    sumTo (fun j => m (upd g i v j)) n + m (g i) = sumTo (fun j => m (g j)) n + m v := by
  induction n with
  | zero => omega
  | succ k ih =>
    simp only [sumTo]
    by_cases e : i = k
    · subst e
      have : sumTo (fun j => m (upd g i v j)) i = sumTo (fun j => m (g j)) i :=
        sumTo_congr (fun j hj => by simp [upd, Nat.ne_of_lt hj])
      rw [this]; simp [upd]; omega
    · have hik : i < k := by omega
      have := ih hik
      have e2 : upd g i v k = g k := by simp [upd]; intro h; exact absurd h.symm e
      rw [e2]; omega

/-- changing a summand outside the range -/
theorem sumTo_upd_out {α : Type} (g : Nat → α) (m : α → Nat) (n i : Nat) (hi : n ≤ i) (v : α) :
    sumTo (fun j => m (upd g i v j)) n = sumTo (fun j => m (g j)) n :=
  sumTo_congr (fun j hj => by have : j ≠ i := by omega
                              simp [upd, this])

/-- work left in a queuer -/
def qm : Option Queuer → Nat
  | none => 0
  | some q =>
    match q.ph with
    | .queueDeps r => r.length + (c.deps q.t).length + 4
    | .waitDeps r => r.length + 2
    | .done => 1
    | .waitTarget _ => 2

def cm : Option T → Nat
  | none => 0
  | some _ => 4

def wm : Option Worker → Nat
  | none => 0
  | some ⟨_, .taken⟩ => 3
  | some ⟨_, .building⟩ => 2
  | some ⟨_, .finished⟩ => 1

/-- what one step up the state order of target `t` pays for -/
def tw (t : T) : Nat := 2 * (c.deps t).length + 12

def muA (st : T → TS) : Nat := sumTo (fun t => tw c t * (13 - (st t).rank)) c.n
def muQ (qs : Nat → Option Queuer) (n : Nat) : Nat := sumTo (fun i => qm c (qs i)) n
def muC (ch : Nat → Option T) (n : Nat) : Nat := sumTo (fun i => cm (ch i)) n
def muW (ws : Nat → Option Worker) (n : Nat) : Nat := sumTo (fun i => wm (ws i)) n

/-- what the first `WaitForBuiltTarget(t)` may still cost -/
def muS (sw : T → Bool) : Nat := sumTo (fun t => if sw t then 0 else 8) c.n

def b01 (b : Bool) : Nat := if b then 0 else 1
theorem b01_or_le (a b : Bool) : b01 (a || b) ≤ b01 a := by cases a <;> cases b <;> decide

/-- the termination measure -/
def mu (s : St) : Nat :=
  muA c s.st + muQ c s.qs s.nextQ + muC s.chan s.nextM + muW s.ws s.nextW + b01 s.initDone + b01 s.stopped + b01 s.ext +
    muS c s.sw

/-- the extra well-formedness the measure needs: everything lives inside `0 … n-1` -/
structure Inv2 (s : St) : Prop where
  qT : ∀ i q, s.qs i = some q → q.t < c.n
  qQueue : ∀ i q r, s.qs i = some q → q.ph = .queueDeps r → ∀ d ∈ r, d < c.n
  qWaitR : ∀ i q r, s.qs i = some q → q.ph = .waitDeps r → ∀ d ∈ r, d < c.n

def WF : Prop := ∀ t d, d ∈ c.deps t → d < c.n

theorem rank_le (x : TS) : x.rank ≤ 13 := by cases x <;> decide

/-- raising the state of one target inside the range lowers `muA` by at least `tw` -/
theorem muA_upd (st : T → TS) (t : T) (ht : t < c.n) (ns : TS) (h : (st t).rank < ns.rank) :
    muA c (upd st t ns) + tw c t ≤ muA c st := by
  unfold muA
  have e : ∀ (n : Nat), t < n →
      sumTo (fun u => tw c u * (13 - (upd st t ns u).rank)) n + tw c t ≤ sumTo (fun u => tw c u * (13 - (st u).rank)) n := by
    intro n
    induction n with
    | zero => intro h; exact absurd h (Nat.not_lt_zero _)
    | succ k ih =>
      intro hk
      simp only [sumTo]
      by_cases e : t = k
      · subst e
        have h1 : sumTo (fun u => tw c u * (13 - (upd st t ns u).rank)) t = sumTo (fun u => tw c u * (13 - (st u).rank)) t :=
          sumTo_congr (fun j hj => by simp [upd, Nat.ne_of_lt hj])
        rw [h1]; simp only [upd_same]
        have h13 := rank_le ns
        have : tw c t * (13 - ns.rank) + tw c t ≤ tw c t * (13 - (st t).rank) := by
          have : 13 - ns.rank + 1 ≤ 13 - (st t).rank := by omega
          calc tw c t * (13 - ns.rank) + tw c t = tw c t * (13 - ns.rank + 1) := by rw [Nat.mul_add, Nat.mul_one]
            _ ≤ tw c t * (13 - (st t).rank) := Nat.mul_le_mul_left _ this
        omega
      · have hlt : t < k := Nat.lt_of_le_of_ne (Nat.le_of_lt_succ hk) e
        have := ih hlt
        have e2 : upd st t ns k = st k := by simp [upd]; intro h; exact absurd h.symm e
        rw [e2]; omega
  exact e c.n ht

theorem muA_upd_le (st : T → TS) (t : T) (ns : TS) (h : (st t).rank ≤ ns.rank) : muA c (upd st t ns) ≤ muA c st := by
  unfold muA
  have e : ∀ (n : Nat),
      sumTo (fun u => tw c u * (13 - (upd st t ns u).rank)) n ≤ sumTo (fun u => tw c u * (13 - (st u).rank)) n := by
    intro n
    induction n with
    | zero => exact Nat.le_refl _
    | succ k ih =>
      simp only [sumTo]
      by_cases e : k = t
      · subst e; simp only [upd_same]
        have : tw c k * (13 - ns.rank) ≤ tw c k * (13 - (st k).rank) := Nat.mul_le_mul_left _ (by omega)
        omega
      · rw [upd_other _ _ _ _ e]; omega
  exact e c.n

/-- a fresh entry at the end of an indexed family -/
theorem sumTo_push {α : Type} (g : Nat → α) (m : α → Nat) (n : Nat) (v : α) :
    sumTo (fun j => m (upd g n v j)) (n + 1) = sumTo (fun j => m (g j)) n + m v := by
  simp only [sumTo, upd_same]
  rw [sumTo_upd_out g m n n (Nat.le_refl n) v]

theorem muQ_upd (qs : Nat → Option Queuer) (n i : Nat) (hi : i < n) (v : Option Queuer) :
    muQ c (upd qs i v) n + qm c (qs i) = muQ c qs n + qm c v := sumTo_upd qs (qm c) n i hi v
theorem muQ_push (qs : Nat → Option Queuer) (n : Nat) (v : Option Queuer) :
    muQ c (upd qs n v) (n + 1) = muQ c qs n + qm c v := sumTo_push qs (qm c) n v
theorem muC_upd (ch : Nat → Option T) (n i : Nat) (hi : i < n) (v : Option T) :
    muC (upd ch i v) n + cm (ch i) = muC ch n + cm v := sumTo_upd ch cm n i hi v
theorem muC_push (ch : Nat → Option T) (n : Nat) (v : Option T) :
    muC (upd ch n v) (n + 1) = muC ch n + cm v := sumTo_push ch cm n v
theorem muW_upd (ws : Nat → Option Worker) (n i : Nat) (hi : i < n) (v : Option Worker) :
    muW (upd ws i v) n + wm (ws i) = muW ws n + wm v := sumTo_upd ws wm n i hi v
theorem muW_push (ws : Nat → Option Worker) (n : Nat) (v : Option Worker) :
    muW (upd ws n v) (n + 1) = muW ws n + wm v := sumTo_push ws wm n v

theorem muS_upd (sw : T → Bool) (t : T) (ht : t < c.n) (h : sw t = false) : muS c (upd sw t true) + 8 = muS c sw := by
  have e := sumTo_upd sw (fun b => if b then 0 else 8) c.n t ht true
  simp only [h] at e
  unfold muS
  simpa using e

/-- the closing tactic for `Inv2` -/
macro "inv2_close" hi:ident : tactic =>
  `(tactic| (constructor <;> first
      | exact ($hi).qT | exact ($hi).qQueue | exact ($hi).qWaitR
      | (intros; have := ($hi).qT; have := ($hi).qQueue; have := ($hi).qWaitR
         simp only [upd] at * <;> grind)))

theorem inv2_init : Inv2 c St.init := by
  constructor <;> simp [St.init]

theorem spawn_inv2 {s : St} (hi : Inv2 c s) (hwf : WF c) (t : T) (ht : t < c.n) (b f : Bool) (ns : TS) :
    Inv2 c (spawn c s t b f ns) := by
  unfold spawn
  have := hwf t
  inv2_close hi

theorem qrt_inv2 {s : St} (hi : Inv2 c s) (hwf : WF c) (t : T) (ht : t < c.n) (f : Bool) : Inv2 c (qrt c s t f) := by
  unfold qrt
  repeat' split
  all_goals first | exact hi | exact spawn_inv2 c hi hwf t ht _ _ _

theorem taskDone_inv2 {s : St} (hi : Inv2 c s) : Inv2 c (taskDone s) := by
  unfold taskDone; inv2_close hi

theorem step_inv2 (hwf : WF c) {s s' : St} (hi : Inv2 c s) (h : Step c s s') : Inv2 c s' := by
  obtain ⟨a, h⟩ := h
  cases a with
  | activate t force =>
    simp only [fire] at h
    split at h
    · rename_i ht; cases h; exact qrt_inv2 c hi hwf t ht force
    · cases h
  | queuer i =>
    simp only [fire] at h
    split at h
    · rename_i q hq
      unfold queuerStep at h
      split at h
      · rename_i d r hph
        cases h
        have hd : d < c.n := hi.qQueue i q (d :: r) hq hph d (List.mem_cons_self)
        have h1 := qrt_inv2 c hi hwf d hd q.force
        have hqt := hi.qT i q hq
        have hr : ∀ x ∈ r, x < c.n := fun x hx => hi.qQueue i q (d :: r) hq hph x (List.mem_cons_of_mem _ hx)
        generalize qrt c s d q.force = s1 at h1
        inv2_close h1
      · rename_i hph; cases h
        have hqt := hi.qT i q hq
        have := hwf q.t
        inv2_close hi
      · rename_i d r hph
        have hr : ∀ x ∈ r, x < c.n := fun x hx => hi.qWaitR i q (d :: r) hq hph x (List.mem_cons_of_mem _ hx)
        have hqt := hi.qT i q hq
        split at h
        · split at h <;> (cases h; inv2_close hi)
        · cases h
      · rename_i hph
        have hqt := hi.qT i q hq
        split at h <;> (cases h; inv2_close hi)
      · cases h; apply taskDone_inv2; inv2_close hi
      · have hqt := hi.qT i q hq
        split at h <;> first | (cases h; inv2_close hi) | cases h
    · cases h
  | queuerAbort i =>
    simp only [fire] at h
    split at h
    · split at h
      · cases h; inv2_close hi
      · cases h
    · cases h
  | take m => simp only [fire] at h; split at h <;> first | (cases h; inv2_close hi) | cases h
  | drop m =>
    simp only [fire] at h
    split at h
    · split at h <;> first | (cases h; inv2_close hi) | cases h
    · cases h
  | workerStart w => simp only [fire] at h; split at h <;> first | (cases h; inv2_close hi) | cases h
  | workerOk w ts cached =>
    simp only [fire] at h
    split at h
    · split at h <;> first | (cases h; inv2_close hi) | cases h
    · cases h
  | workerFail w => simp only [fire] at h; split at h <;> first | (cases h; inv2_close hi) | cases h
  | workerDone w =>
    simp only [fire] at h
    split at h
    · cases h; apply taskDone_inv2; inv2_close hi
    · cases h
  | initDone =>
    simp only [fire] at h
    split at h
    · cases h
    · cases h; apply taskDone_inv2; inv2_close hi
  | stop => simp only [fire] at h; cases h; inv2_close hi
  | subWait t =>
    simp only [fire] at h
    split at h
    · rename_i hg
      split at h
      · cases h; inv2_close hi
      · cases h
        have h1 := qrt_inv2 c hi hwf t hg.1 true
        have ht := hg.1
        generalize qrt c s t true = s1 at h1
        inv2_close h1
    · cases h
  | cycleCheck =>
    simp only [fire] at h
    split at h <;> first | (cases h; inv2_close hi) | cases h

theorem reach_inv2 (hwf : WF c) {s : St} (h : Reach c s) : Inv2 c s := by
  induction h with
  | init => exact inv2_init c
  | step _ hs ih => exact step_inv2 c hwf ih hs

/-! ### every state-changing step lowers the measure -/

theorem spawn_mu {s : St} (hi : Inv c s) (t : T) (ht : t < c.n) (b f : Bool) (ns : TS)
    (hr : (s.st t).rank < ns.rank) : mu c (spawn c s t b f ns) + 8 ≤ mu c s := by
  have h1 := muA_upd c s.st t ht ns hr
  have h2 := muQ_push c s.qs s.nextQ (some ⟨t, b, f, .queueDeps (c.deps t)⟩)
  simp only [mu, spawn]
  rw [h2]
  have : qm c (some ⟨t, b, f, .queueDeps (c.deps t)⟩) = (c.deps t).length + (c.deps t).length + 4 := rfl
  rw [this]
  have : tw c t = 2 * (c.deps t).length + 12 := rfl
  omega

theorem qrt_mu {s : St} (hi : Inv c s) (t : T) (ht : t < c.n) (f : Bool) :
    qrt c s t f = s ∨ mu c (qrt c s t f) + 8 ≤ mu c s := by
  unfold qrt
  split
  · exact .inl rfl
  · split
    · split
      · rename_i h
        right; apply spawn_mu c hi t ht
        rcases h with h | h <;> rw [h] <;> decide
      · exact .inl rfl
    · split
      · rename_i h
        right; apply spawn_mu c hi t ht
        rw [h]; decide
      · exact .inl rfl

theorem qrt_mu_le {s : St} (hi : Inv c s) (t : T) (ht : t < c.n) (f : Bool) : mu c (qrt c s t f) ≤ mu c s := by
  rcases qrt_mu c hi t ht f with h | h
  · rw [h]; exact Nat.le_refl _
  · omega

theorem taskDone_mu (s : St) : mu c (taskDone s) ≤ mu c s := by
  simp only [mu, taskDone]
  have := b01_or_le s.stopped (decide (s.numPending - 1 ≤ 0))
  omega

theorem qrt_qs_old {s : St} (hi : Inv c s) (t : T) (f : Bool) (i : Nat) (q : Queuer) (hq : s.qs i = some q) :
    (qrt c s t f).qs i = some q ∧ i < (qrt c s t f).nextQ := by
  have hlt := hi.qFresh i q hq
  have hne : i ≠ s.nextQ := Nat.ne_of_lt hlt
  unfold qrt spawn
  repeat' split
  all_goals simp [upd, hne, hq]
  all_goals omega

/-- steps of the program itself (not an activation arriving from outside, not an external `Stop`) -/
def Internal : Action → Prop
  | .activate _ _ => False
  | .stop => False
  | .subWait _ => False      -- arrives from the parse phase
  | .cycleCheck => False     -- closes the queues from outside the task counting, like `stop` (see `CanStepC`)
  | _ => True

theorem step_mu {s s' : St} (hi : Inv c s) (h2 : Inv2 c s) (a : Action) (h : fire c s a = some s') :
    (s' = s ∧ ¬ Internal a) ∨ mu c s' < mu c s := by
  cases a with
  | activate t force =>
    simp only [fire] at h
    split at h
    · rename_i ht; cases h
      rcases qrt_mu c hi t ht force with e | e
      · exact .inl ⟨e, fun h => h⟩
      · right; omega
    · cases h
  | queuer i =>
    simp only [fire] at h
    split at h
    · rename_i q hq
      have hlt := hi.qFresh i q hq
      right
      unfold queuerStep at h
      split at h
      · rename_i d r hph
        cases h
        have hd : d < c.n := h2.qQueue i q (d :: r) hq hph d (List.mem_cons_self)
        have hle := qrt_mu_le c hi d hd q.force
        obtain ⟨hq1, hlt1⟩ := qrt_qs_old c hi d q.force i q hq
        generalize qrt c s d q.force = s1 at hle hq1 hlt1
        have e := muQ_upd c s1.qs s1.nextQ i hlt1 (some { q with ph := .queueDeps r })
        rw [hq1] at e
        have e1 : qm c (some q) = (d :: r).length + (c.deps q.t).length + 4 := by simp [qm, hph]
        have e2 : qm c (some { q with ph := QPh.queueDeps r }) = r.length + (c.deps q.t).length + 4 := rfl
        simp only [mu] at hle ⊢
        simp only [List.length_cons] at e1
        omega
      · rename_i hph
        cases h
        have e := muQ_upd c s.qs s.nextQ i hlt (some { q with ph := if q.building then .waitDeps (c.deps q.t) else .done })
        rw [hq] at e
        have e1 : qm c (some q) = 0 + (c.deps q.t).length + 4 := by simp [qm, hph]
        have e2 : qm c (some { q with ph := if q.building then QPh.waitDeps (c.deps q.t) else QPh.done }) ≤ (c.deps q.t).length + 2 := by
          cases q.building <;> simp [qm]
        simp only [mu]
        omega
      · rename_i d r hph
        have e1 : qm c (some q) = r.length + 1 + 2 := by simp [qm, hph]
        split at h
        · split at h
          · cases h
            have e := muQ_upd c s.qs s.nextQ i hlt (some { q with ph := .done })
            rw [hq] at e
            have e2 : qm c (some { q with ph := QPh.done }) = 1 := rfl
            have hb := hi.waitBuilding i q (d :: r) hq hph
            have hact := hi.bqActive i q hq ⟨hb, by rw [hph]; simp⟩
            have hA := muA_upd_le c s.st q.t .depFailed (by rw [hact]; decide)
            simp only [mu]
            omega
          · cases h
            have e := muQ_upd c s.qs s.nextQ i hlt (some { q with ph := .waitDeps r })
            rw [hq] at e
            have e2 : qm c (some { q with ph := QPh.waitDeps r }) = r.length + 2 := rfl
            simp only [mu]
            omega
        · cases h
      · rename_i hph
        have e1 : qm c (some q) = 2 := by simp [qm, hph]
        have e := muQ_upd c s.qs s.nextQ i hlt (some { q with ph := .done })
        rw [hq] at e
        have e2 : qm c (some { q with ph := QPh.done }) = 1 := rfl
        split at h
        · rename_i hact
          cases h
          have hA := muA_upd c s.st q.t (h2.qT i q hq) .pending (by rw [hact]; decide)
          have hC := muC_push s.chan s.nextM (some q.t)
          have : cm (some q.t) = 4 := rfl
          have : tw c q.t = 2 * (c.deps q.t).length + 12 := rfl
          simp only [mu]
          rw [hC]
          omega
        · cases h
          simp only [mu]
          omega
      · rename_i hph
        cases h
        have e1 : qm c (some q) = 1 := by simp [qm, hph]
        have e := muQ_upd c s.qs s.nextQ i hlt none
        rw [hq] at e
        have e2 : qm c none = 0 := rfl
        have ht := taskDone_mu c { s with qs := upd s.qs i none }
        simp only [mu] at ht ⊢
        simp only [taskDone] at ht ⊢
        omega
      · rename_i d hph
        split at h
        · cases h
          have e1 : qm c (some q) = 2 := by simp [qm, hph]
          have e := muQ_upd c s.qs s.nextQ i hlt (some { q with ph := .done })
          rw [hq] at e
          have e2 : qm c (some { q with ph := QPh.done }) = 1 := rfl
          simp only [mu]
          omega
        · cases h
    · cases h
  | queuerAbort i =>
    simp only [fire] at h
    split at h
    · rename_i q hq
      split at h
      · rename_i d r hph
        cases h
        right
        have hlt := hi.qFresh i q hq
        have e := muQ_upd c s.qs s.nextQ i hlt (some { q with ph := .done })
        rw [hq] at e
        have e1 : qm c (some q) = (d :: r).length + (c.deps q.t).length + 4 := by simp [qm, hph]
        have e2 : qm c (some { q with ph := QPh.done }) = 1 := rfl
        have e3 : b01 true ≤ b01 s.stopped := by cases s.stopped <;> decide
        have e4 : b01 true ≤ b01 s.ext := by cases s.ext <;> decide
        simp only [List.length_cons] at e1
        simp only [mu]
        omega
      · cases h
    · cases h
  | take m =>
    simp only [fire] at h
    split at h
    · rename_i t hm
      cases h
      right
      have e := muC_upd s.chan s.nextM m (hi.mFresh m t hm) none
      rw [hm] at e
      have hW := muW_push s.ws s.nextW (some ⟨t, .taken⟩)
      have : cm (some t) = 4 := rfl
      have : cm none = 0 := rfl
      have : wm (some ⟨t, .taken⟩) = 3 := rfl
      simp only [mu]
      rw [hW]
      omega
    · cases h
  | drop m =>
    simp only [fire] at h
    split at h
    · rename_i t hm
      split at h
      · cases h
        right
        have e := muC_upd s.chan s.nextM m (hi.mFresh m t hm) none
        rw [hm] at e
        have : cm (some t) = 4 := rfl
        have : cm none = 0 := rfl
        have e4 : b01 true ≤ b01 s.ext := by cases s.ext <;> decide
        simp only [mu]
        omega
      · cases h
    · cases h
  | workerStart w =>
    simp only [fire] at h
    split at h
    · rename_i t hw
      cases h
      right
      have e := muW_upd s.ws s.nextW w (hi.wFresh w _ hw) (some ⟨t, .building⟩)
      rw [hw] at e
      have hp := hi.takenPending w t hw
      have hA := muA_upd_le c s.st t .building (by rw [hp]; decide)
      have : wm (some ⟨t, .taken⟩) = 3 := rfl
      have : wm (some ⟨t, .building⟩) = 2 := rfl
      simp only [mu]
      omega
    · cases h
  | workerOk w ts cached =>
    simp only [fire] at h
    split at h
    · rename_i t hw
      split at h
      · rename_i hb
        cases h
        right
        have e := muW_upd s.ws s.nextW w (hi.wFresh w _ hw) (some ⟨t, .finished⟩)
        rw [hw] at e
        have hp := hi.wBuilding w t hw
        have hA := muA_upd_le c s.st t ts (by
          rw [hp]; simp only [TS.isBuilt, Bool.and_eq_true, decide_eq_true_eq] at hb
          have : TS.built.rank = 6 := rfl
          have : TS.building.rank = 4 := rfl
          omega)
        have : wm (some ⟨t, .building⟩) = 2 := rfl
        have : wm (some ⟨t, .finished⟩) = 1 := rfl
        simp only [mu]
        omega
      · cases h
    · cases h
  | workerFail w =>
    simp only [fire] at h
    split at h
    · rename_i t hw
      cases h
      right
      have e := muW_upd s.ws s.nextW w (hi.wFresh w _ hw) (some ⟨t, .finished⟩)
      rw [hw] at e
      have hp := hi.wBuilding w t hw
      have hA := muA_upd_le c s.st t .failed (by rw [hp]; decide)
      have : wm (some ⟨t, .building⟩) = 2 := rfl
      have : wm (some ⟨t, .finished⟩) = 1 := rfl
      simp only [mu]
      omega
    · cases h
  | workerDone w =>
    simp only [fire] at h
    split at h
    · rename_i t hw
      cases h
      right
      have e := muW_upd s.ws s.nextW w (hi.wFresh w _ hw) none
      rw [hw] at e
      have : wm (some ⟨t, .finished⟩) = 1 := rfl
      have : wm none = 0 := rfl
      have ht := taskDone_mu c { s with ws := upd s.ws w none }
      simp only [mu] at ht ⊢
      simp only [taskDone] at ht ⊢
      omega
    · cases h
  | initDone =>
    simp only [fire] at h
    split at h
    · cases h
    · rename_i hn
      cases h
      right
      have ht := taskDone_mu c { s with initDone := true }
      simp only [mu] at ht ⊢
      simp only [taskDone] at ht ⊢
      have e0 : b01 s.initDone = 1 := by simp [b01, hn]
      have e1 : b01 true = 0 := rfl
      omega
  | stop =>
    simp only [fire] at h
    cases h
    by_cases hs : s.stopped = true
    · by_cases he : s.ext = true
      · left; exact ⟨by cases s; simp_all, fun h => h⟩
      · right
        have e0 : b01 s.ext = 1 := by simp [b01, he]
        have e1 : b01 true = 0 := rfl
        have e2 : b01 true ≤ b01 s.stopped := by cases s.stopped <;> decide
        simp only [mu]
        omega
    · right
      have e0 : b01 s.stopped = 1 := by simp [b01, hs]
      have e1 : b01 true = 0 := rfl
      have e4 : b01 true ≤ b01 s.ext := by cases s.ext <;> decide
      simp only [mu]
      omega
  | subWait t =>
    simp only [fire] at h
    split at h
    · rename_i hg
      have hS := muS_upd c s.sw t hg.1 hg.2.1
      right
      split at h
      · cases h
        simp only [mu]
        omega
      · cases h
        have hle := qrt_mu_le c hi t hg.1 true
        have hsw : (qrt c s t true).sw = s.sw := by
          unfold qrt spawn; repeat' split
          all_goals rfl
        generalize qrt c s t true = s1 at hle hsw ⊢
        have hQ := muQ_push c s1.qs s1.nextQ (some ⟨t, false, true, .waitTarget t⟩)
        have e2 : qm c (some ⟨t, false, true, .waitTarget t⟩) = 2 := rfl
        simp only [mu] at hle ⊢
        rw [hQ, hsw]
        rw [hsw] at hle
        omega
    · cases h
  | cycleCheck =>
    simp only [fire] at h
    split at h
    · rename_i hg
      cases h
      right
      have hs : s.stopped = false := by
        cases hst : s.stopped <;> simp [hst] at hg ⊢
      have e0 : b01 s.stopped = 1 := by simp [b01, hs]
      have e1 : b01 true = 0 := rfl
      have e4 : b01 true ≤ b01 s.ext := by cases s.ext <;> decide
      simp only [mu]
      omega
    · cases h

end PlzVerif.Sched
