import PlzVerif.Lemmas.SchedTerm
/-! C05: the invariants behind "no deadlock on acyclic graphs": every non-terminal target has a goroutine
responsible for it (found through the ghost indices `bq`, `tm`, `wk`), and `numPending` counts exactly the
live goroutines and queued tasks until `Stop`. -/
namespace PlzVerif.Sched

variable (c : Cfg)

/-- `x` is a live building queuer of `t` -/
def liveFor (t : T) : Option Queuer → Prop
  | some q => q.t = t ∧ q.building = true ∧ q.ph ≠ .done
  | none => False

@[simp] theorem liveFor_none (t : T) : liveFor t none = False := rfl
@[simp] theorem liveFor_some (t : T) (q : Queuer) : liveFor t (some q) = (q.t = t ∧ q.building = true ∧ q.ph ≠ .done) := rfl

structure Inv3 (s : St) : Prop where
  activeHasQueuer : s.ext = false → ∀ t, s.st t = .active → liveFor t (s.qs (s.bq t))
  pendingHasToken : s.ext = false → ∀ t, s.st t = .pending →
      s.chan (s.tm t) = some t ∨ s.ws (s.wk t) = some ⟨t, .taken⟩
  buildingHasWorker : ∀ t, s.st t = .building → s.ws (s.wk t) = some ⟨t, .building⟩
  chanIdx : ∀ m t, s.chan m = some t → s.tm t = m
  takenIdx : ∀ w t, s.ws w = some ⟨t, .taken⟩ → s.wk t = w
  buildingNeeds : ∀ i q, s.qs i = some q → q.building = true → (c.needBuild || q.force) = true
  queuedDeps : ∀ i q r, s.qs i = some q → q.building = true → q.ph = .queueDeps r →
      ∀ d ∈ c.deps q.t, d ∈ r ∨ TS.active.rank ≤ (s.st d).rank
  waitedDeps : ∀ i q r, s.qs i = some q → q.building = true → q.ph = .waitDeps r →
      ∀ d ∈ c.deps q.t, TS.active.rank ≤ (s.st d).rank
  waitSub : ∀ i q r, s.qs i = some q → q.ph = .waitDeps r → ∀ d ∈ r, d ∈ c.deps q.t

macro "inv3_close" hi:ident : tactic =>
  `(tactic| (constructor <;> first
      | exact ($hi).activeHasQueuer | exact ($hi).pendingHasToken | exact ($hi).buildingHasWorker
      | exact ($hi).chanIdx | exact ($hi).takenIdx | exact ($hi).buildingNeeds | exact ($hi).queuedDeps | exact ($hi).waitedDeps | exact ($hi).waitSub
      | (intros; have := ($hi).activeHasQueuer; have := ($hi).pendingHasToken; have := ($hi).buildingHasWorker
         have := ($hi).chanIdx; have := ($hi).takenIdx; have := ($hi).buildingNeeds; have := ($hi).queuedDeps; have := ($hi).waitedDeps; have := ($hi).waitSub
         simp only [upd, Queuer.live] at * <;> grind [TS.rank, liveFor])))

/-- like `inv3_close`, with the clauses of `Inv` at hand too -/
macro "inv3_close2" hi:ident h1:ident : tactic =>
  `(tactic| (constructor <;> first
      | exact ($hi).activeHasQueuer | exact ($hi).pendingHasToken | exact ($hi).buildingHasWorker
      | exact ($hi).chanIdx | exact ($hi).takenIdx | exact ($hi).buildingNeeds | exact ($hi).queuedDeps | exact ($hi).waitedDeps | exact ($hi).waitSub
      | (intros; have := ($hi).activeHasQueuer; have := ($hi).pendingHasToken; have := ($hi).buildingHasWorker
         have := ($hi).chanIdx; have := ($hi).takenIdx; have := ($hi).buildingNeeds; have := ($hi).queuedDeps; have := ($hi).waitedDeps; have := ($hi).waitSub
         have := ($h1).qFresh; have := ($h1).mFresh; have := ($h1).wFresh; have := ($h1).waitBuilding; have := ($h1).bqActive; have := ($h1).bqUnique; have := ($h1).bqWait; have := ($h1).chanPending; have := ($h1).chanUnique; have := ($h1).takenPending; have := ($h1).takenUnique; have := ($h1).chanTaken; have := ($h1).wBuilding; have := ($h1).wBuildingUnique; have := ($h1).notStopped; have := ($h1).finTerm; have := ($h1).wtNotBuilding
         simp only [upd, Queuer.live] at * <;> grind [TS.rank, TS.terminal, TS.isBuilt, TS.isBad, liveFor])))

theorem inv3_init : Inv3 c St.init := by
  constructor <;> simp [St.init]

theorem spawn_inv3 {s : St} (h1 : Inv c s) (hi : Inv3 c s) (t : T) (b f : Bool) (ns : TS)
    (h : (b = true ∧ ns = .active ∧ (s.st t = .inactive ∨ s.st t = .semiactive) ∧ (c.needBuild || f) = true) ∨
         (b = false ∧ ns = .semiactive ∧ s.st t = .inactive)) : Inv3 c (spawn c s t b f ns) := by
  have hq := fresh_q c h1
  have := h1.qFresh
  unfold spawn
  inv3_close hi

theorem qrt_inv3 {s : St} (h1 : Inv c s) (hi : Inv3 c s) (t : T) (f : Bool) : Inv3 c (qrt c s t f) := by
  unfold qrt
  split
  · exact hi
  · split
    · rename_i hn
      split
      · rename_i h; exact spawn_inv3 c h1 hi t true f .active (.inl ⟨rfl, rfl, h, hn⟩)
      · exact hi
    · split
      · rename_i h; exact spawn_inv3 c h1 hi t false f .semiactive (.inr ⟨rfl, rfl, h⟩)
      · exact hi

theorem taskDone_inv3 {s : St} (hi : Inv3 c s) : Inv3 c (taskDone s) := by
  unfold taskDone; inv3_close hi

/-- after `queueResolvedTarget(d, force)` with `NeedBuild || force`, `d` is at least Active -/
theorem qrt_active (s : St) (d : T) (f : Bool) (h : (c.needBuild || f) = true) :
    TS.active.rank ≤ ((qrt c s d f).st d).rank := by
  unfold qrt spawn
  cases hs : s.st d <;> cases f <;> simp_all [TS.rank, upd]

theorem qrt_st_mono (s : St) (d x : T) (f : Bool) : (s.st x).rank ≤ ((qrt c s d f).st x).rank := by
  by_cases e : x = d
  · subst e
    cases hs : s.st x <;> cases f <;> cases hn : c.needBuild <;> simp [qrt, spawn, upd, hs, hn, TS.rank]
  · unfold qrt spawn
    repeat' split
    all_goals simp [upd, e]

/-- a queuer moves on to its next declared dependency -/
theorem inv3_advance_queue {s1 : St} (h3 : Inv3 c s1) (i : Nat) (q : Queuer) (d : T) (r : List T)
    (hq1 : s1.qs i = some q) (hph : q.ph = .queueDeps (d :: r))
    (hact : q.building = true → TS.active.rank ≤ (s1.st d).rank) :
    Inv3 c { s1 with qs := upd s1.qs i (some { q with ph := .queueDeps r }) } := by
  constructor
  · intro hst t ht
    have h := h3.activeHasQueuer hst t ht
    show liveFor t (upd s1.qs i _ (s1.bq t))
    by_cases e : s1.bq t = i
    · rw [e, upd_same]; rw [e, hq1] at h
      simp only [liveFor_some] at h ⊢
      exact ⟨h.1, h.2.1, by simp⟩
    · rw [upd_other _ _ _ _ e]; exact h
  · exact h3.pendingHasToken
  · exact h3.buildingHasWorker
  · exact h3.chanIdx
  · exact h3.takenIdx
  · intro i' q' hq' hb
    have hq'' : upd s1.qs i (some { q with ph := QPh.queueDeps r }) i' = some q' := hq'
    by_cases e : i' = i
    · subst e; rw [upd_same] at hq''; cases hq''; exact h3.buildingNeeds i' q hq1 hb
    · rw [upd_other _ _ _ _ e] at hq''; exact h3.buildingNeeds i' q' hq'' hb
  · intro i' q' r' hq' hb hp d' hd'
    have hq'' : upd s1.qs i (some { q with ph := QPh.queueDeps r }) i' = some q' := hq'
    by_cases e : i' = i
    · subst e; rw [upd_same] at hq''; cases hq''
      simp only [QPh.queueDeps.injEq] at hp; subst hp
      rcases h3.queuedDeps i' q (d :: r) hq1 hb hph d' hd' with h | h
      · rcases List.mem_cons.mp h with h | h
        · right; rw [h]; exact hact hb
        · exact .inl h
      · exact .inr h
    · rw [upd_other _ _ _ _ e] at hq''; exact h3.queuedDeps i' q' r' hq'' hb hp d' hd'
  · intro i' q' r' hq' hb hp d' hd'
    have hq'' : upd s1.qs i (some { q with ph := QPh.queueDeps r }) i' = some q' := hq'
    by_cases e : i' = i
    · subst e; rw [upd_same] at hq''; cases hq''; cases hp
    · rw [upd_other _ _ _ _ e] at hq''; exact h3.waitedDeps i' q' r' hq'' hb hp d' hd'
  · intro i' q' r' hq' hp
    have hq'' : upd s1.qs i (some { q with ph := QPh.queueDeps r }) i' = some q' := hq'
    by_cases e : i' = i
    · subst e; rw [upd_same] at hq''; cases hq''; cases hp
    · rw [upd_other _ _ _ _ e] at hq''; exact h3.waitSub i' q' r' hq'' hp

theorem inv3_queuer {s s' : St} (h1 : Inv c s) (hi : Inv3 c s) (i : Nat) (q : Queuer) (hq : s.qs i = some q)
    (h : queuerStep c s i q = some s') : Inv3 c s' := by
  unfold queuerStep at h
  split at h
  · rename_i d r hph
    cases h
    have h3 := qrt_inv3 c h1 hi d q.force
    obtain ⟨hq1, _⟩ := qrt_qs_old c h1 d q.force i q hq
    have hact : q.building = true → TS.active.rank ≤ ((qrt c s d q.force).st d).rank :=
      fun hb => qrt_active c s d q.force (hi.buildingNeeds i q hq hb)
    exact inv3_advance_queue c h3 i q d r hq1 hph hact
  · rename_i hph; cases h; inv3_close2 hi h1
  · rename_i d r hph
    have hb := h1.waitBuilding i q (d :: r) hq hph
    have hact := h1.bqActive i q hq ⟨hb, by rw [hph]; simp⟩
    have hsub := hi.waitSub i q (d :: r) hq hph
    have hwd := hi.waitedDeps i q (d :: r) hq hb hph
    split at h
    · split at h <;> (cases h; inv3_close hi)
    · cases h
  · rename_i hph
    have hm := fresh_m c h1
    split at h <;> (cases h; inv3_close2 hi h1)
  · cases h; apply taskDone_inv3; inv3_close2 hi h1
  · split at h
    · cases h; inv3_close2 hi h1
    · cases h

theorem inv3_take {s s' : St} (h1 : Inv c s) (hi : Inv3 c s) (m : Nat) (h : fire c s (.take m) = some s') : Inv3 c s' := by
  simp only [fire] at h
  split at h
  · cases h; have hw := fresh_w c h1; inv3_close2 hi h1
  · cases h

theorem inv3_drop {s s' : St} (h1 : Inv c s) (hi : Inv3 c s) (m : Nat) (h : fire c s (.drop m) = some s') : Inv3 c s' := by
  simp only [fire] at h
  split at h
  · split at h
    · cases h; inv3_close2 hi h1
    · cases h
  · cases h

theorem inv3_workerStart {s s' : St} (h1 : Inv c s) (hi : Inv3 c s) (w : Nat) (h : fire c s (.workerStart w) = some s') :
    Inv3 c s' := by
  simp only [fire] at h
  split at h
  · cases h; inv3_close2 hi h1
  · cases h

theorem inv3_workerOk {s s' : St} (h1 : Inv c s) (hi : Inv3 c s) (w : Nat) (ts : TS) (cd : Bool)
    (h : fire c s (.workerOk w ts cd) = some s') : Inv3 c s' := by
  simp only [fire] at h
  split at h
  · split at h
    · cases h; inv3_close2 hi h1
    · cases h
  · cases h

theorem inv3_workerFail {s s' : St} (h1 : Inv c s) (hi : Inv3 c s) (w : Nat) (h : fire c s (.workerFail w) = some s') :
    Inv3 c s' := by
  simp only [fire] at h
  split at h
  · cases h; inv3_close2 hi h1
  · cases h

theorem inv3_workerDone {s s' : St} (h1 : Inv c s) (hi : Inv3 c s) (w : Nat) (h : fire c s (.workerDone w) = some s') :
    Inv3 c s' := by
  simp only [fire] at h
  split at h
  · cases h; apply taskDone_inv3; inv3_close2 hi h1
  · cases h

theorem step_inv3 {s s' : St} (h1 : Inv c s) (hi : Inv3 c s) (h : Step c s s') : Inv3 c s' := by
  obtain ⟨a, h⟩ := h
  cases a with
  | activate t force =>
    simp only [fire] at h
    split at h
    · cases h; exact qrt_inv3 c h1 hi t force
    · cases h
  | queuer i =>
    simp only [fire] at h
    split at h
    · rename_i q hq; exact inv3_queuer c h1 hi i q hq h
    · cases h
  | queuerAbort i =>
    simp only [fire] at h
    split at h
    · split at h
      · cases h; inv3_close2 hi h1
      · cases h
    · cases h
  | take m => exact inv3_take c h1 hi m h
  | drop m => exact inv3_drop c h1 hi m h
  | workerStart w => exact inv3_workerStart c h1 hi w h
  | workerOk w ts cached => exact inv3_workerOk c h1 hi w ts cached h
  | workerFail w => exact inv3_workerFail c h1 hi w h
  | workerDone w => exact inv3_workerDone c h1 hi w h
  | initDone =>
    simp only [fire] at h
    split at h
    · cases h
    · cases h; apply taskDone_inv3; inv3_close hi
  | stop => simp only [fire] at h; cases h; inv3_close hi
  | subWait t =>
    simp only [fire] at h
    split at h
    · split at h
      · cases h; inv3_close hi
      · cases h
        have h1' := qrt_inv c h1 t true
        have h3' := qrt_inv3 c h1 hi t true
        have hq1 := fresh_q c h1'
        generalize qrt c s t true = s1 at h1' h3' hq1
        inv3_close2 h3' h1'
    · cases h
  | cycleCheck =>
    simp only [fire] at h
    split at h
    · cases h; inv3_close hi
    · cases h

theorem reach_inv3 {s : St} (h : Reach c s) : Inv3 c s := by
  induction h with
  | init => exact inv3_init c
  | step hr hs ih => exact step_inv3 c (reach_inv c hr) ih hs

/-! ### `numPending` counts the live tasks -/

def ind {α : Type} : Option α → Nat
  | none => 0
  | some _ => 1

/-- the tasks `numPending` counts: the initial scan, queuers, queued builds, workers -/
def units (s : St) : Nat :=
  b01 s.initDone + sumTo (fun i => ind (s.qs i)) s.nextQ + sumTo (fun i => ind (s.chan i)) s.nextM +
    sumTo (fun i => ind (s.ws i)) s.nextW

/-- until `Stop`, `numPending` is exactly the number of live tasks -/
def Acct (s : St) : Prop := s.ext = false → s.numPending = (units s : Int)

theorem acct_init : Acct St.init := by
  intro _; simp [St.init, units, b01, sumTo]

theorem taskDone_acct {s : St} (h : s.ext = false → s.numPending - 1 = (units s : Int)) : Acct (taskDone s) := by
  intro hs
  simp only [taskDone, units] at *
  exact h hs

theorem spawn_acct {s : St} (h1 : Inv c s) (h : Acct s) (t : T) (b f : Bool) (ns : TS) : Acct (spawn c s t b f ns) := by
  intro hs
  have e := sumTo_push s.qs ind s.nextQ (some ⟨t, b, f, .queueDeps (c.deps t)⟩)
  have := h hs
  have e1 : ind (some (Queuer.mk t b f (.queueDeps (c.deps t)))) = 1 := rfl
  simp only [spawn, units] at *
  rw [e, e1]; omega

theorem qrt_acct {s : St} (h1 : Inv c s) (h : Acct s) (t : T) (f : Bool) : Acct (qrt c s t f) := by
  unfold qrt
  repeat' split
  all_goals first | exact h | exact spawn_acct c h1 h t _ f _

theorem step_acct {s s' : St} (h1 : Inv c s) (ha : Acct s) (h : Step c s s') : Acct s' := by
  obtain ⟨a, h⟩ := h
  cases a with
  | activate t force =>
    simp only [fire] at h
    split at h
    · cases h; exact qrt_acct c h1 ha t force
    · cases h
  | queuer i =>
    simp only [fire] at h
    split at h
    · rename_i q hq
      have hlt := h1.qFresh i q hq
      unfold queuerStep at h
      split at h
      · rename_i d r hph
        cases h
        have a1 := qrt_acct c h1 ha d q.force
        obtain ⟨hq1, hlt1⟩ := qrt_qs_old c h1 d q.force i q hq
        generalize qrt c s d q.force = s1 at a1 hq1 hlt1
        intro hs
        have e := sumTo_upd s1.qs ind s1.nextQ i hlt1 (some { q with ph := .queueDeps r })
        rw [hq1] at e
        have := a1 hs
        simp only [units, ind] at *
        omega
      · cases h
        intro hs
        have e := sumTo_upd s.qs ind s.nextQ i hlt (some { q with ph := if q.building then .waitDeps (c.deps q.t) else .done })
        rw [hq] at e
        have := ha hs
        simp only [units, ind] at *
        omega
      · split at h
        · split at h
          · cases h
            intro hs
            have e := sumTo_upd s.qs ind s.nextQ i hlt (some { q with ph := .done })
            rw [hq] at e
            have := ha hs
            simp only [units, ind] at *
            omega
          · rename_i d r _ _ _
            cases h
            intro hs
            have e := sumTo_upd s.qs ind s.nextQ i hlt (some { q with ph := .waitDeps r })
            rw [hq] at e
            have := ha hs
            simp only [units, ind] at *
            omega
        · cases h
      · split at h
        · cases h
          intro hs
          have e := sumTo_upd s.qs ind s.nextQ i hlt (some { q with ph := .done })
          rw [hq] at e
          have e2 := sumTo_push s.chan ind s.nextM (some q.t)
          have := ha hs
          simp only [units, ind] at *
          rw [e2]; omega
        · cases h
          intro hs
          have e := sumTo_upd s.qs ind s.nextQ i hlt (some { q with ph := .done })
          rw [hq] at e
          have := ha hs
          simp only [units, ind] at *
          omega
      · cases h
        apply taskDone_acct
        intro hs
        have e := sumTo_upd s.qs ind s.nextQ i hlt none
        rw [hq] at e
        have := ha hs
        simp only [units, ind] at *
        omega
      · split at h
        · cases h
          intro hs
          have e := sumTo_upd s.qs ind s.nextQ i hlt (some { q with ph := .done })
          rw [hq] at e
          have := ha hs
          simp only [units, ind] at *
          omega
        · cases h
    · cases h
  | queuerAbort i =>
    simp only [fire] at h
    split at h
    · split at h
      · cases h; intro hs; cases hs
      · cases h
    · cases h
  | take m =>
    simp only [fire] at h
    split at h
    · rename_i t hm
      cases h
      intro hs
      have e := sumTo_upd s.chan ind s.nextM m (h1.mFresh m t hm) none
      rw [hm] at e
      have e2 := sumTo_push s.ws ind s.nextW (some ⟨t, .taken⟩)
      have := ha hs
      simp only [units, ind] at *
      rw [e2]; omega
    · cases h
  | drop m =>
    simp only [fire] at h
    split at h
    · split at h
      · rename_i hst; cases h; intro hs; simp_all
      · cases h
    · cases h
  | workerStart w =>
    simp only [fire] at h
    split at h
    · rename_i t hw
      cases h
      intro hs
      have e := sumTo_upd s.ws ind s.nextW w (h1.wFresh w _ hw) (some ⟨t, .building⟩)
      rw [hw] at e
      have := ha hs
      simp only [units, ind] at *
      omega
    · cases h
  | workerOk w ts cached =>
    simp only [fire] at h
    split at h
    · rename_i t hw
      split at h
      · cases h
        intro hs
        have e := sumTo_upd s.ws ind s.nextW w (h1.wFresh w _ hw) (some ⟨t, .finished⟩)
        rw [hw] at e
        have := ha hs
        simp only [units, ind] at *
        omega
      · cases h
    · cases h
  | workerFail w =>
    simp only [fire] at h
    split at h
    · rename_i t hw
      cases h
      intro hs
      have e := sumTo_upd s.ws ind s.nextW w (h1.wFresh w _ hw) (some ⟨t, .finished⟩)
      rw [hw] at e
      have := ha hs
      simp only [units, ind] at *
      omega
    · cases h
  | workerDone w =>
    simp only [fire] at h
    split at h
    · rename_i t hw
      cases h
      apply taskDone_acct
      intro hs
      have e := sumTo_upd s.ws ind s.nextW w (h1.wFresh w _ hw) none
      rw [hw] at e
      have := ha hs
      simp only [units, ind] at *
      omega
    · cases h
  | initDone =>
    simp only [fire] at h
    split at h
    · cases h
    · rename_i hn
      cases h
      apply taskDone_acct
      intro hs
      have := ha hs
      have e0 : b01 s.initDone = 1 := by simp [b01, hn]
      have e1 : b01 true = 0 := rfl
      simp only [units] at *
      omega
  | stop => simp only [fire] at h; cases h; intro hs; cases hs
  | subWait t =>
    simp only [fire] at h
    split at h
    · split at h
      · cases h; exact ha
      · cases h
        have a1 := qrt_acct c h1 ha t true
        generalize qrt c s t true = s1 at a1
        intro hs
        have e := sumTo_push s1.qs ind s1.nextQ (some ⟨t, false, true, .waitTarget t⟩)
        have := a1 hs
        have e1 : ind (some (Queuer.mk t false true (.waitTarget t))) = 1 := rfl
        simp only [units] at *
        rw [e, e1]; omega
    · cases h
  | cycleCheck =>
    simp only [fire] at h
    split at h
    · cases h; intro hs; cases hs
    · cases h

theorem reach_acct {s : St} (h : Reach c s) : Acct s := by
  induction h with
  | init => exact acct_init
  | step hr hs ih => exact step_acct c (reach_inv c hr) ih hs

end PlzVerif.Sched
