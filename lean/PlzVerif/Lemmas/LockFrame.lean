import PlzVerif.Lemmas.Lock
/-!
C31 frame property, core only: a key for which no worker has ever started (every program counter still `idle`)
has exactly its initial output, stamp, metadata flag and tmp dir, and its action has never run.  With `Inv.active`
(a worker only starts for a target its process was asked for) this gives: what nobody asked for is untouched.
-/
namespace PlzVerif.Lock
open PlzVerif.Build
set_option linter.unusedSectionVars false
set_option linter.unusedSimpArgs false
set_option linter.unusedVariables false

variable {P K A F N C S H : Type} [DecidableEq P] [DecidableEq K] [DecidableEq S] [DecidableEq N] [DecidableEq H]

def Untouched (s0 s : State P K C S N H) : Prop :=
  ∀ k, (∀ p, s.pc p k = .idle) →
    s.gen k = s0.gen k ∧ s.stamp k = s0.stamp k ∧ s.mdat k = s0.mdat k ∧ s.tmp k = s0.tmp k ∧ s.runs k = s0.runs k

theorem untouched_worker {s0 s s' : State P K C S N H} (hu : Untouched s0 s) (p : P) (k0 : K) (c : PC S N H)
    (hc : c ≠ .idle) (hpc : s'.pc = upd2 s.pc p k0 c)
    (hgen : ∀ k, k ≠ k0 → s'.gen k = s.gen k) (hst : ∀ k, k ≠ k0 → s'.stamp k = s.stamp k)
    (hmd : ∀ k, k ≠ k0 → s'.mdat k = s.mdat k) (htmp : ∀ k, k ≠ k0 → s'.tmp k = s.tmp k)
    (hruns : ∀ k, k ≠ k0 → s'.runs k = s.runs k) : Untouched s0 s' := by
  intro k hidle
  by_cases e : k = k0
  · subst e
    have := hidle p
    rw [hpc, upd2_same] at this
    exact absurd this hc
  · have hold : ∀ q, s.pc q k = .idle := by
      intro q
      have := hidle q
      rwa [hpc, upd2_key_ne _ _ e] at this
    rw [hgen k e, hst k e, hmd k e, htmp k e, hruns k e]
    exact hu k hold

section
variable {fx : Facts} {lf : LFacts} {exec : A → List (N × C) → C} {ruleSer : A → S} {pathSer : C → H}
variable {r : Repo K A F N C} {ps : List P} {req : P → K → Bool} {force : P → K → Bool}

theorem step_untouched {s0 s s' : State P K C S N H} (hu : Untouched s0 s)
    (hs : Step fx lf exec ruleSer pathSer r ps req force s s') : Untouched s0 s' := by
  cases hs with
  | enter => exact hu
  | leave => exact hu
  | acquire p t => apply untouched_worker hu p t.key .locked (by simp) <;> first | (intro k e; first | rfl | exact upd_ne _ _ e) | rfl
  | checkSkip p t => apply untouched_worker hu p t.key .skip (by simp) <;> first | (intro k e; first | rfl | exact upd_ne _ _ e) | rfl
  | checkBuild p t ins => apply untouched_worker hu p t.key (.prep (stampOf ruleSer pathSer t.attrs ins)) (by simp) <;> first | (intro k e; first | rfl | exact upd_ne _ _ e) | rfl
  | releaseSkip p t => apply untouched_worker hu p t.key .finished (by simp) <;> first | (intro k e; first | rfl | exact upd_ne _ _ e) | rfl
  | prepare p t st => apply untouched_worker hu p t.key (.ready st) (by simp) <;> first | (intro k e; first | rfl | exact upd_ne _ _ e) | rfl
  | exec p t st => apply untouched_worker hu p t.key (.built st) (by simp) <;> first | (intro k e; first | rfl | exact upd_ne _ _ e) | rfl
  | store p t st => apply untouched_worker hu p t.key (.stored st) (by simp) <;> first | (intro k e; first | rfl | exact upd_ne _ _ e) | rfl
  | moveKeep p t st => apply untouched_worker hu p t.key (.moved st) (by simp) <;> first | (intro k e; first | rfl | exact upd_ne _ _ e) | rfl
  | moveRemove p t st => apply untouched_worker hu p t.key (.removed st) (by simp) <;> first | (intro k e; first | rfl | exact upd_ne _ _ e) | rfl
  | moveNew p t st => apply untouched_worker hu p t.key (.moved st) (by simp) <;> first | (intro k e; first | rfl | exact upd_ne _ _ e) | rfl
  | rename p t st => apply untouched_worker hu p t.key (.moved st) (by simp) <;> first | (intro k e; first | rfl | exact upd_ne _ _ e) | rfl
  | stamp p t st => apply untouched_worker hu p t.key .stamped (by simp) <;> first | (intro k e; first | rfl | exact upd_ne _ _ e) | rfl
  | release p t => apply untouched_worker hu p t.key .finished (by simp) <;> first | (intro k e; first | rfl | exact upd_ne _ _ e) | rfl
  | fail p t => apply untouched_worker hu p t.key .failed (by simp) <;> first | (intro k e; first | rfl | exact upd_ne _ _ e) | rfl

theorem reach_untouched {s0 s : State P K C S N H}
    (hr : Reach fx lf exec ruleSer pathSer r ps req force s0 s) : Untouched s0 s := by
  induction hr with
  | init => intro k _; exact ⟨rfl, rfl, rfl, rfl, rfl⟩
  | step _ hs ih => exact step_untouched ih hs

end
end PlzVerif.Lock
