import PlzVerif.Model.Label
/-!
Lemmas about the label model (`Model/Label.lean`), core Lean only.

* package names as component lists: `comps_prefix_iff`, `under_iff`
* what `includes` / `matchesF` compute: `includes_dots`, `includes_all`, `includes_exact`, `matches_dots_raw`, …
* string primitives of the parser: `splitFirst_*`, `splitDbl_*`, `hasDbl_*`, `trimRightSlash_append_slash`
* validators: `validPkg_iff` and closure lemmas
-/
namespace PlzVerif.Label

/-! ### components -/

theorem comps_ne_nil (s : Str) : comps s ≠ [] := by
  cases s with
  | nil => simp [comps]
  | cons c r =>
    unfold comps; split
    · simp
    · split <;> simp

theorem comps_nil : comps [] = [[]] := rfl
theorem comps_slash (r : Str) : comps ('/' :: r) = [] :: comps r := by simp [comps]

theorem comps_ne {c : Char} (h : c ≠ '/') (r : Str) :
    ∃ hd tl, comps r = hd :: tl ∧ comps (c :: r) = (c :: hd) :: tl := by
  cases hr : comps r with
  | nil => exact absurd hr (comps_ne_nil r)
  | cons hd tl => exact ⟨hd, tl, rfl, by simp [comps, h, hr]⟩

theorem comps_prefix_iff (p q : Str) :
    comps p <+: comps q ↔ q = p ∨ ∃ r, q = p ++ '/' :: r := by
  induction p generalizing q with
  | nil =>
    cases q with
    | nil => simp [comps_nil]
    | cons d r =>
      by_cases hd : d = '/'
      · subst hd; simp [comps_slash, comps_nil, List.cons_prefix_cons]
      · obtain ⟨h, t, _, e⟩ := comps_ne hd r
        rw [e, comps_nil]
        simp [List.cons_prefix_cons, hd]
  | cons c p' ih =>
    by_cases hc : c = '/'
    · subst hc
      cases q with
      | nil => simp [comps_slash, comps_nil, List.cons_prefix_cons, comps_ne_nil]
      | cons d r =>
        by_cases hd : d = '/'
        · subst hd; simp [comps_slash, List.cons_prefix_cons, ih]
        · obtain ⟨h, t, _, e⟩ := comps_ne hd r
          rw [e, comps_slash]
          simp [List.cons_prefix_cons, hd]
    · obtain ⟨h, t, e0, e⟩ := comps_ne hc p'
      cases q with
      | nil => rw [e, comps_nil]; simp [List.cons_prefix_cons]
      | cons d r =>
        by_cases hd : d = '/'
        · subst hd; rw [e, comps_slash]; simp [List.cons_prefix_cons]
          exact ⟨fun h => absurd h.symm hc, fun h => absurd h.symm hc⟩
        · obtain ⟨h', t', e0', e'⟩ := comps_ne hd r
          have := ih r
          rw [e0, e0', List.cons_prefix_cons] at this
          rw [e, e']
          simp only [List.cons_prefix_cons, List.cons.injEq, List.cons_append]
          constructor
          · rintro ⟨⟨rfl, rfl⟩, h3⟩
            rcases this.mp ⟨rfl, h3⟩ with rfl | ⟨x, rfl⟩
            · exact Or.inl ⟨rfl, rfl⟩
            · exact Or.inr ⟨x, rfl, rfl⟩
          · rintro (⟨rfl, rfl⟩ | ⟨x, rfl, rfl⟩)
            · have := this.mpr (Or.inl rfl); exact ⟨⟨rfl, this.1⟩, this.2⟩
            · have := this.mpr (Or.inr ⟨x, rfl⟩); exact ⟨⟨rfl, this.1⟩, this.2⟩

/-! ### Includes / Matches -/


theorem startsWith_iff (s pre : Str) : startsWith s pre = true ↔ pre <+: s := by
  simp [startsWith]

theorem prefix_slash_iff (p q : Str) : (p ++ ['/']) <+: q ↔ ∃ r, q = p ++ '/' :: r := by
  constructor
  · rintro ⟨t, rfl⟩; exact ⟨t, by simp⟩
  · rintro ⟨r, rfl⟩; exact ⟨r, by simp⟩

/-- `Under` in string terms: the root, the package itself, or a path continuing after a "/". -/
theorem under_iff (p q : Str) : Under p q ↔ p = [] ∨ q = p ∨ (p ++ ['/']) <+: q := by
  unfold Under; rw [comps_prefix_iff, prefix_slash_iff]

theorem under_refl (p : Str) : Under p p := by rw [under_iff]; exact Or.inr (Or.inl rfl)

/-- Being under `p` implies having `p` as a raw string prefix (the converse is what fails). -/
theorem under_imp_prefix {p q : Str} (h : Under p q) : p <+: q := by
  rw [under_iff] at h
  rcases h with rfl | rfl | h
  · exact List.nil_prefix
  · exact List.prefix_refl _
  · exact List.IsPrefix.trans (List.prefix_append p ['/']) h

theorem includes_dots (f : Facts) (hf : f.includesSlash = true) (p q n s s' : Str) :
    includes f ⟨p, dots, s⟩ ⟨q, n, s'⟩ = true ↔ Under p q := by
  rw [under_iff]
  simp [includes, inclPrefix, hf, startsWith]

theorem includes_all (f : Facts) (p q n s s' : Str) :
    includes f ⟨p, allName, s⟩ ⟨q, n, s'⟩ = true ↔ p = q := by
  have : (allName == dots) = false := by decide
  simp only [includes, this, inclPrefix]
  by_cases h : p = q
  · subst h; simp
  · simp [h]

theorem includes_exact (f : Facts) (p q n m s s' : Str) (h1 : n ≠ dots) (h2 : n ≠ allName) :
    includes f ⟨p, n, s⟩ ⟨q, m, s'⟩ = true ↔ p = q ∧ n = m := by
  simp only [includes, inclPrefix]
  by_cases h : p = q
  · subst h; simp [h1, h2]
  · simp [h, h1]

theorem matches_dots_raw (f : Facts) (hf : f.matchesSlash = false) (p q n s s' : Str) :
    matchesF f ⟨p, dots, s⟩ ⟨q, n, s'⟩ = true ↔ (f.matchesDot = true ∧ p = ['.']) ∨ p <+: q := by
  simp [matchesF, hf, startsWith]

theorem matches_dots_slash (f : Facts) (hf : f.matchesSlash = true) (p q n s s' : Str) :
    matchesF f ⟨p, dots, s⟩ ⟨q, n, s'⟩ = true ↔ (f.matchesDot = true ∧ p = ['.']) ∨ Under p q := by
  rw [under_iff]
  simp [matchesF, hf, startsWith, or_assoc]

theorem matches_all (f : Facts) (p q n s s' : Str) :
    matchesF f ⟨p, allName, s⟩ ⟨q, n, s'⟩ = true ↔ p = q := by
  have : (allName == dots) = false := by decide
  simp [matchesF, this]

/-! ### string primitives -/

/-! splitFirst -/
theorem splitFirst_some {c : Char} {s pre post : Str} (h : splitFirst c s = some (pre, post)) :
    s = pre ++ c :: post ∧ c ∉ pre := by
  induction s generalizing pre with
  | nil => simp [splitFirst] at h
  | cons x r ih =>
    unfold splitFirst at h
    split at h
    · rename_i hx; subst hx; simp at h; obtain ⟨rfl, rfl⟩ := h; simp
    · rename_i hx
      cases hr : splitFirst c r with
      | none => simp [hr] at h
      | some ab =>
        obtain ⟨a, b⟩ := ab
        simp [hr] at h
        obtain ⟨rfl, rfl⟩ := h
        obtain ⟨e, hn⟩ := ih hr
        refine ⟨by simp [e], ?_⟩
        simp [hn]; exact fun h => hx h.symm

theorem splitFirst_none {c : Char} {s : Str} (h : splitFirst c s = none) : c ∉ s := by
  induction s with
  | nil => simp
  | cons x r ih =>
    unfold splitFirst at h
    split at h
    · simp at h
    · rename_i hx
      cases hr : splitFirst c r with
      | none => simp [ih hr]; exact fun h => hx h.symm
      | some ab => obtain ⟨a, b⟩ := ab; simp [hr] at h

theorem splitFirst_append {c : Char} {pre : Str} (post : Str) (h : c ∉ pre) :
    splitFirst c (pre ++ c :: post) = some (pre, post) := by
  induction pre with
  | nil => simp [splitFirst]
  | cons x r ih =>
    simp at h
    have hx : ¬ x = c := fun e => h.1 e.symm
    simp [splitFirst, hx, ih h.2]

theorem splitFirst_eq_none {c : Char} {s : Str} (h : c ∉ s) : splitFirst c s = none := by
  cases hs : splitFirst c s with
  | none => rfl
  | some ab =>
    obtain ⟨a, b⟩ := ab
    have := (splitFirst_some hs).1
    rw [this] at h; simp at h

/-! hasDbl / splitDbl -/
theorem hasDbl_cons_cons (a b : Char) (r : Str) :
    hasDbl (a :: b :: r) = ((a == '/' && b == '/') || hasDbl (b :: r)) := by simp [hasDbl]

theorem hasDbl_append_left {a b : Str} (h : hasDbl (a ++ b) = false) : hasDbl a = false := by
  induction a with
  | nil => simp [hasDbl]
  | cons x r ih =>
    cases r with
    | nil => simp [hasDbl]
    | cons y t =>
      simp only [List.cons_append, hasDbl_cons_cons, Bool.or_eq_false_iff] at h ⊢
      exact ⟨h.1, ih (by simpa using h.2)⟩

theorem splitDbl_none {s : Str} (h : splitDbl s = none) : hasDbl s = false := by
  induction s with
  | nil => simp [hasDbl]
  | cons a r ih =>
    cases r with
    | nil => simp [hasDbl]
    | cons b t =>
      unfold splitDbl at h
      split at h
      · simp at h
      · rename_i hab
        cases hr : splitDbl (b :: t) with
        | none =>
          rw [hasDbl_cons_cons, ih hr]
          simp; intro h1 h2; exact hab ⟨h1, h2⟩
        | some pq => obtain ⟨p, q⟩ := pq; simp [hr] at h

theorem splitDbl_some {s pre rest : Str} (h : splitDbl s = some (pre, rest)) :
    s = pre ++ rest ∧ hasDbl pre = false ∧ pre.getLast? ≠ some '/' ∧ ∃ r, rest = '/' :: '/' :: r := by
  induction s generalizing pre with
  | nil => simp [splitDbl] at h
  | cons a r ih =>
    cases r with
    | nil => simp [splitDbl] at h
    | cons b t =>
      unfold splitDbl at h
      split at h
      · rename_i hab
        simp at h; obtain ⟨rfl, rfl⟩ := h
        obtain ⟨rfl, rfl⟩ := hab
        exact ⟨rfl, by simp [hasDbl], by simp, t, rfl⟩
      · rename_i hab
        cases hr : splitDbl (b :: t) with
        | none => simp [hr] at h
        | some pq =>
          obtain ⟨p, q⟩ := pq
          simp [hr] at h; obtain ⟨rfl, rfl⟩ := h
          obtain ⟨e, hd, hl, r', hr'⟩ := ih hr
          refine ⟨by simp [e], ?_, ?_, r', hr'⟩
          · cases p with
            | nil => simp [hasDbl]
            | cons y u =>
              simp at e
              obtain ⟨rfl, _⟩ := e
              rw [hasDbl_cons_cons, hd]; simp
              intro h1 h2; exact hab ⟨h1, h2⟩
          · cases p with
            | nil =>
              simp at e; subst hr'
              simp at e; simp
              intro ha; exact hab ⟨ha, e.1⟩
            | cons y u => simpa [List.getLast?_cons_cons] using hl

theorem splitDbl_append {pre : Str} (r : Str) (hd : hasDbl pre = false) (hl : pre.getLast? ≠ some '/') :
    splitDbl (pre ++ '/' :: '/' :: r) = some (pre, '/' :: '/' :: r) := by
  induction pre with
  | nil => simp [splitDbl]
  | cons a t ih =>
    cases t with
    | nil =>
      have ha : a ≠ '/' := by simpa using hl
      simp [splitDbl, ha]
    | cons b u =>
      rw [hasDbl_cons_cons] at hd
      simp only [Bool.or_eq_false_iff] at hd
      have hl' : (b :: u).getLast? ≠ some '/' := by simpa [List.getLast?_cons_cons] using hl
      have := ih hd.2 hl'
      have hab : ¬ (a = '/' ∧ b = '/') := by
        intro ⟨h1, h2⟩; simp [h1, h2] at hd
      simp only [List.cons_append] at this ⊢
      unfold splitDbl
      simp [hab, this]

/-! ### validators -/

structure FactsWF (f : Facts) : Prop where
  pkgColon : ':' ∈ f.pkgBad
  pkgNoSlash : '/' ∉ f.pkgBad
  pkgNoDot : '.' ∉ f.pkgBad


theorem hasDbl_append_dbl (z r : Str) : hasDbl (z ++ '/' :: '/' :: r) = true := by
  induction z with
  | nil => simp [hasDbl]
  | cons a t ih =>
    cases t with
    | nil => simp [hasDbl]
    | cons b u =>
      simp only [List.cons_append] at ih ⊢
      rw [hasDbl_cons_cons, ih]; simp

/-- what `validPkg` says, as propositions -/
theorem validPkg_iff (f : Facts) (s : Str) : validPkg f s = true ↔
    s = [] ∨ (s.head? ≠ some '/' ∧ s.getLast? ≠ some '/' ∧ (∀ c ∈ s, c ∉ f.pkgBad) ∧ hasDbl s = false) := by
  simp [validPkg, List.isEmpty_iff, and_assoc]

theorem validPkg_nil (f : Facts) : validPkg f [] = true := by simp [validPkg]

theorem validPkg_no_colon {f : Facts} (w : FactsWF f) {s : Str} (h : validPkg f s = true) : ':' ∉ s := by
  rw [validPkg_iff] at h
  rcases h with rfl | ⟨_, _, h, _⟩
  · simp
  · intro hc; exact h _ hc w.pkgColon

theorem validPkg_head {f : Facts} {s : Str} (h : validPkg f s = true) : s.head? ≠ some '/' := by
  rw [validPkg_iff] at h
  rcases h with rfl | ⟨h, _⟩
  · simp
  · exact h

theorem validPkg_last {f : Facts} {s : Str} (h : validPkg f s = true) : s.getLast? ≠ some '/' := by
  rw [validPkg_iff] at h
  rcases h with rfl | ⟨_, h, _⟩
  · simp
  · exact h

theorem hasDbl_append_of {a b : Str} (ha : hasDbl a = false) (hb : hasDbl b = false)
    (hl : a.getLast? ≠ some '/') : hasDbl (a ++ b) = false := by
  induction a with
  | nil => simpa using hb
  | cons x t ih =>
    cases t with
    | nil =>
      have hx : x ≠ '/' := by simpa using hl
      cases b with
      | nil => simp [hasDbl]
      | cons y u => simp only [List.cons_append, List.nil_append]; rw [hasDbl_cons_cons, hb]; simp [hx]
    | cons y u =>
      rw [hasDbl_cons_cons] at ha
      simp only [Bool.or_eq_false_iff] at ha
      have hl' : (y :: u).getLast? ≠ some '/' := by simpa [List.getLast?_cons_cons] using hl
      simp only [List.cons_append] at ih ⊢
      rw [hasDbl_cons_cons, ih ha.2 hl', ha.1]; rfl

theorem validPkg_append_slashDots {f : Facts} (w : FactsWF f) {p : Str} (h : validPkg f p = true) (hne : p ≠ []) :
    validPkg f (p ++ slashDots) = true := by
  rw [validPkg_iff] at h ⊢
  rcases h with rfl | ⟨h1, h2, h3, h4⟩
  · exact absurd rfl hne
  · right
    refine ⟨?_, ?_, ?_, ?_⟩
    · cases p with
      | nil => exact absurd rfl hne
      | cons a t => simpa using h1
    · simp [slashDots, dots, List.getLast?_append]
    · intro c hc
      simp [slashDots, dots] at hc
      rcases hc with hc | rfl | rfl
      · exact h3 c hc
      · exact w.pkgNoSlash
      · exact w.pkgNoDot
    · exact hasDbl_append_of h4 (by decide) h2

theorem validPkg_dots {f : Facts} (w : FactsWF f) : validPkg f dots = true := by
  rw [validPkg_iff]; right
  refine ⟨by decide, by decide, ?_, by decide⟩
  intro c hc; simp [dots] at hc; subst hc; exact w.pkgNoDot

theorem trimRightSlash_append_slash {p : Str} (h : p.getLast? ≠ some '/') : trimRightSlash (p ++ ['/']) = p := by
  unfold trimRightSlash
  simp only [List.reverse_append, List.reverse_cons, List.reverse_nil, List.nil_append, List.singleton_append]
  rw [List.dropWhile_cons]
  simp only [beq_self_eq_true, ↓reduceIte]
  have : p.reverse.head? ≠ some '/' := by simpa [List.head?_reverse] using h
  cases hr : p.reverse with
  | nil => simp at hr; simp [hr]
  | cons a t =>
    rw [hr] at this
    have ha : a ≠ '/' := by simpa using this
    rw [List.dropWhile_cons]; simp [ha]
    have := congrArg List.reverse hr; simpa using this.symm

/-! ### printing then parsing -/

/-- The part of the printed form after the leading "//". -/
def body (l : Label) : Str :=
  l.pkg ++ (if l.name = dots then (if l.pkg = [] then dots else slashDots) else ':' :: l.name)

/-- Subrepo names the printed form can carry: no ':' , no "//", no trailing '/'. -/
def SubOK (s : Str) : Prop := ':' ∉ s ∧ hasDbl s = false ∧ s.getLast? ≠ some '/'

theorem subOK_nil : SubOK [] := by simp [SubOK, hasDbl]

/-- Labels whose printed form re-parses to themselves. -/
structure Canon (f : Facts) (l : Label) : Prop where
  notOriginal : l ≠ original
  pkg : validPkg f l.pkg = true
  name : l.name = dots ∨ validTgt f l.name = true
  sub : SubOK l.sub

theorem validTgt_ne_nil {f : Facts} {s : Str} (h : validTgt f s = true) : s ≠ [] := by
  intro e; subst e; simp [validTgt] at h

theorem toStr_eq {l : Label} (h0 : l.name ≠ []) (h1 : l ≠ original) :
    toStr l = (if l.sub ≠ [] then ['/', '/', '/'] ++ l.sub else []) ++ '/' :: '/' :: body l := by
  have hz : l ≠ zero := by intro e; subst e; exact h0 rfl
  unfold toStr body
  simp only [hz, h1, if_false]
  by_cases hs : l.sub = [] <;> by_cases hn : l.name = dots <;> by_cases hp : l.pkg = [] <;>
    simp [hs, hn, hp, slashDots]

theorem body_head {f : Facts} {l : Label} (hp : validPkg f l.pkg = true) : (body l).head? ≠ some '/' := by
  unfold body
  cases h : l.pkg with
  | nil =>
    by_cases hn : l.name = dots <;> simp [hn] <;> decide
  | cons a t =>
    have := validPkg_head hp
    rw [h] at this
    simpa using this

theorem parsePartsF_succ (f : Facts) (n : Nat) (target cp sr : Str) :
    parsePartsF f (n + 1) target cp sr =
      if target.length < 2 then failParts
      else if target.head? = some ':' then
        (if !validTgt f target.tail then failParts else (cp, target.tail, []))
      else if target.head? = some '@' then
        subrepoWith (fun t => parsePartsF f n t cp []) target.tail
      else if startsWith target ['/', '/', '/'] then
        subrepoWith (fun t => parsePartsF f n t cp []) (target.drop 3)
      else if !startsWith target ['/', '/'] then failParts
      else parseAbs f (target.drop 2) sr := rfl

theorem parsePartsF_abs (f : Facts) (n : Nat) (x cp sr : Str) (hx : x.head? ≠ some '/') :
    parsePartsF f (n + 1) ('/' :: '/' :: x) cp sr = parseAbs f x sr := by
  rw [parsePartsF_succ]
  have h3 : startsWith ('/' :: '/' :: x) ['/', '/', '/'] = false := by
    cases x with
    | nil => simp [startsWith, List.isPrefixOf]
    | cons a t =>
      have : a ≠ '/' := by simpa using hx
      simp [startsWith, List.isPrefixOf]; exact fun e => this e.symm
  have h2 : startsWith ('/' :: '/' :: x) ['/', '/'] = true := by simp [startsWith, List.isPrefixOf]
  have hl : ¬ (('/' :: '/' :: x).length < 2) := by simp
  rw [if_neg hl, h3, h2]
  simp

theorem parsePartsF_sub (f : Facts) (n : Nat) (rest cp sr : Str) :
    parsePartsF f (n + 1) ('/' :: '/' :: '/' :: rest) cp sr =
      subrepoWith (fun t => parsePartsF f n t cp []) rest := by
  rw [parsePartsF_succ]
  have hl : ¬ (('/' :: '/' :: '/' :: rest).length < 2) := by simp
  have h3 : startsWith ('/' :: '/' :: '/' :: rest) ['/', '/', '/'] = true := by simp [startsWith, List.isPrefixOf]
  rw [if_neg hl, h3]
  simp

theorem endsWith_slashDots (p : Str) : endsWith ('/' :: '/' :: (p ++ slashDots)) slashDots = true := by
  simp only [endsWith, List.isSuffixOf_iff_suffix]
  exact ⟨'/' :: '/' :: p, by simp⟩

theorem take_len_succ (p : Str) (c : Char) (r : Str) : (p ++ c :: r).take (p.length + 1) = p ++ [c] := by
  induction p with
  | nil => simp
  | cons a t ih => simpa using ih

theorem parseAbs_body {f : Facts} (w : FactsWF f) {l : Label} (hp : validPkg f l.pkg = true)
    (hn : l.name = dots ∨ validTgt f l.name = true) (sr : Str) :
    parseAbs f (body l) sr = (l.pkg, l.name, if l.name = dots then [] else sr) := by
  have hc := validPkg_no_colon w hp
  unfold body
  by_cases hd : l.name = dots
  · simp only [hd, if_true]
    by_cases he : l.pkg = []
    · simp only [he, if_true, List.nil_append]
      have h1 : splitFirst ':' dots = none := by decide
      have h2 : endsWith ('/' :: '/' :: dots) slashDots = true := by decide
      have h3 : trimRightSlash (dots.take (dots.length - 3)) = [] := by decide
      unfold parseAbs
      simp only [h1, validPkg_dots w, h2, h3]
      simp
    · simp only [he, if_false]
      have hs : splitFirst ':' (l.pkg ++ slashDots) = none := by
        apply splitFirst_eq_none; simp [slashDots, dots]; exact hc
      have hl : (l.pkg ++ slashDots).length - 3 = l.pkg.length + 1 := by simp [slashDots, dots]
      unfold parseAbs
      simp only [hs, validPkg_append_slashDots w hp he, endsWith_slashDots, hl]
      rw [show slashDots = '/' :: dots from rfl, take_len_succ, trimRightSlash_append_slash (validPkg_last hp)]
      simp
  · simp only [hd, if_false]
    have hv : validTgt f l.name = true := by rcases hn with h | h; exact absurd h hd; exact h
    unfold parseAbs
    rw [splitFirst_append _ hc]
    simp [hp, hv, hd]

theorem print_parse {f : Facts} (w : FactsWF f) {l : Label} (c : Canon f l) (cp : Str) :
    tryParse f (toStr l) cp [] = some l := by
  have hne : l.name ≠ [] := by
    rcases c.name with h | h
    · rw [h]; decide
    · exact validTgt_ne_nil h
  have hb := body_head c.pkg
  have hab : ∀ n, parsePartsF f (n + 1) ('/' :: '/' :: body l) cp [] = (l.pkg, l.name, []) := by
    intro n
    rw [parsePartsF_abs f n _ cp [] hb, parseAbs_body w c.pkg c.name]
    simp
  unfold tryParse parseParts
  rw [toStr_eq hne c.notOriginal]
  by_cases hs : l.sub = []
  · simp only [hs, ne_eq, not_true_eq_false, if_false, List.nil_append]
    rw [hab]
    simp [hne]
    cases l; simp_all
  · simp only [hs, ne_eq, not_false_eq_true, if_true]
    obtain ⟨s1, s2, s3⟩ := c.sub
    simp only [List.cons_append, List.nil_append, List.length_cons]
    rw [parsePartsF_sub]
    unfold subrepoWith
    rw [splitDbl_append _ s2 s3]
    have hcont : l.sub.contains ':' = false := by simpa using s1
    simp only [hcont]
    rw [List.length_append, List.length_cons, List.length_cons]
    rw [show l.sub.length + ((body l).length + 1 + 1) + 3 = (l.sub.length + (body l).length + 4) + 1 by omega]
    rw [hab]
    simp [hne]

/-! ### what a successful parse guarantees -/

theorem suffix_slashDots {x : Str} (h : endsWith ('/' :: '/' :: x) slashDots = true) :
    x = dots ∨ ∃ y, x = y ++ slashDots := by
  simp only [endsWith, List.isSuffixOf_iff_suffix] at h
  rw [List.suffix_cons_iff] at h
  rcases h with h | h
  · simp [slashDots, dots] at h
  · rw [List.suffix_cons_iff] at h
    rcases h with h | h
    · left; simp [slashDots] at h; exact h.symm
    · right; obtain ⟨y, hy⟩ := h; exact ⟨y, hy.symm⟩

theorem validPkg_of_append {f : Facts} {y z : Str} (h : validPkg f (y ++ '/' :: z) = true) : validPkg f y = true := by
  rw [validPkg_iff] at h ⊢
  rcases h with h | ⟨h1, h2, h3, h4⟩
  · simp at h
  · by_cases hy : y = []
    · exact Or.inl hy
    · right
      refine ⟨?_, ?_, fun c hc => h3 c (by simp [hc]), hasDbl_append_left h4⟩
      · cases y with
        | nil => exact absurd rfl hy
        | cons a t => simpa using h1
      · intro hl
        obtain ⟨u, rfl⟩ : ∃ u, y = u ++ ['/'] := by
          rcases List.eq_nil_or_concat y with e | ⟨u, c, e⟩
          · exact absurd e hy
          · subst e; simp at hl; subst hl; exact ⟨u, by simp⟩
        rw [List.append_assoc] at h4
        have := hasDbl_append_dbl u z
        simp at h4 this; rw [this] at h4; exact Bool.noConfusion h4

theorem validPkg_trim {f : Facts} {x : Str} (hv : validPkg f x = true)
    (h : endsWith ('/' :: '/' :: x) slashDots = true) :
    validPkg f (trimRightSlash (x.take (x.length - 3))) = true := by
  rcases suffix_slashDots h with rfl | ⟨y, rfl⟩
  · have : trimRightSlash (dots.take (dots.length - 3)) = [] := by decide
    rw [this]; exact validPkg_nil f
  · have hl : (y ++ slashDots).length - 3 = y.length + 1 := by simp [slashDots, dots]
    have hy : validPkg f y = true := validPkg_of_append (z := dots) hv
    rw [hl, show slashDots = '/' :: dots from rfl, take_len_succ, trimRightSlash_append_slash (validPkg_last hy)]
    exact hy

/-- What a successful `parseAbs` guarantees. -/
theorem parseAbs_ok {f : Facts} {x sr p nm s : Str} (h : parseAbs f x sr = (p, nm, s)) (hn : nm ≠ []) :
    validPkg f p = true ∧ (s = sr ∨ s = []) ∧ (':' ∈ x → validTgt f nm = true) := by
  unfold parseAbs at h
  split at h
  · rename_i pkg name hs
    split at h
    · simp [failParts] at h; exact absurd h.2.1 hn
    · rename_i hc
      simp at h; obtain ⟨rfl, rfl, rfl⟩ := h
      simp at hc
      exact ⟨hc.1.1, Or.inl rfl, fun _ => hc.1.2⟩
  · rename_i hs
    have hnc := splitFirst_none hs
    split at h
    · simp [failParts] at h; exact absurd h.2.1 hn
    · rename_i hv
      simp at hv
      split at h
      · rename_i he
        simp at h; obtain ⟨rfl, rfl, rfl⟩ := h
        exact ⟨validPkg_trim hv he, Or.inr rfl, fun hc => absurd hc hnc⟩
      · simp at h; obtain ⟨rfl, rfl, rfl⟩ := h
        exact ⟨hv, Or.inl rfl, fun hc => absurd hc hnc⟩

/-- What a successful `subrepoWith` guarantees, given what the recursive call guarantees. -/
theorem subrepoWith_ok {f : Facts} {rec : Str → Parts} {target p nm s : Str}
    (hrec : ∀ t p nm s, rec t = (p, nm, s) → nm ≠ [] → validPkg f p = true ∧ (':' ∈ t → validTgt f nm = true))
    (h : subrepoWith rec target = (p, nm, s)) (hn : nm ≠ []) :
    validPkg f p = true ∧ ':' ∉ s ∧ hasDbl s = false ∧ (':' ∈ target → validTgt f nm = true ∧ (hasDbl target = true → s.getLast? ≠ some '/')) ∧
      (':' ∉ target → hasDbl target = false → p = [] ∧ s = target ∧ s.getLast? ≠ some '/') := by
  unfold subrepoWith at h
  split at h
  · rename_i pre rest hs
    obtain ⟨e, hd, hl, r, hr⟩ := splitDbl_some hs
    split at h
    · simp [failParts] at h; exact absurd h.2.1 hn
    · rename_i hc
      simp at hc
      simp at h; obtain ⟨rfl, rfl, rfl⟩ := h
      have := hrec rest _ _ _ rfl hn
      refine ⟨this.1, hc, hd, ?_, ?_⟩
      · intro hcol
        have : ':' ∈ rest := by rw [e] at hcol; simp at hcol; rcases hcol with h | h; exact absurd h hc; exact h
        exact ⟨(hrec rest _ _ _ rfl hn).2 this, fun _ => hl⟩
      · intro _ hnd
        rw [e, hr] at hnd
        have := hasDbl_append_dbl pre r
        rw [this] at hnd; exact Bool.noConfusion hnd
  · rename_i hs
    have hnd := splitDbl_none hs
    split at h
    · rename_i hs2
      simp at h; obtain ⟨rfl, rfl, rfl⟩ := h
      have hnc := splitFirst_none hs2
      refine ⟨validPkg_nil f, hnc, hnd, fun hc => absurd hc hnc, fun _ _ => ⟨rfl, rfl, ?_⟩⟩
      intro hl
      apply hn
      unfold lastSeg
      obtain ⟨u, rfl⟩ : ∃ u, target = u ++ ['/'] := by
        rcases List.eq_nil_or_concat target with e | ⟨u, c, e⟩
        · subst e; simp at hl
        · subst e; simp at hl; subst hl; exact ⟨u, by simp⟩
      simp
    · rename_i pre post hs2
      obtain ⟨e, hnc⟩ := splitFirst_some hs2
      simp at h; obtain ⟨rfl, rfl, rfl⟩ := h
      have := hrec (':' :: post) _ _ _ rfl hn
      refine ⟨this.1, hnc, ?_, ?_, ?_⟩
      · rw [e] at hnd; exact hasDbl_append_left hnd
      · intro _; exact ⟨this.2 (by simp), fun hd => by rw [hnd] at hd; exact Bool.noConfusion hd⟩
      · intro hc; rw [e] at hc; simp at hc

theorem mem_tail_of_head_ne {c d : Char} {t : Str} (hh : t.head? = some d) (hd : d ≠ c) (h : c ∈ t) : c ∈ t.tail := by
  cases t with
  | nil => simp at h
  | cons a r =>
    simp at hh; subst hh
    simp at h; rcases h with h | h
    · exact absurd h.symm hd
    · simpa using h

theorem mem_drop_of_prefix {c : Char} {pre t : Str} (hp : startsWith t pre = true) (hc : c ∉ pre) (h : c ∈ t) :
    c ∈ t.drop pre.length := by
  rw [startsWith_iff] at hp
  obtain ⟨r, rfl⟩ := hp
  simp at h ⊢
  rcases h with h | h
  · exact absurd h hc
  · exact h

theorem parsePartsF_ok {f : Facts} (n : Nat) : ∀ {t cp sr p nm s : Str},
    parsePartsF f n t cp sr = (p, nm, s) → nm ≠ [] → validPkg f cp = true →
    validPkg f p = true ∧ (':' ∈ t → validTgt f nm = true) := by
  induction n with
  | zero =>
    intro t cp sr p nm s h hn _
    simp [parsePartsF, failParts] at h; exact absurd h.2.1 hn
  | succ n ih =>
    intro t cp sr p nm s h hn hcp
    have hrec : ∀ t' p' nm' s', (fun t => parsePartsF f n t cp []) t' = (p', nm', s') → nm' ≠ [] →
        validPkg f p' = true ∧ (':' ∈ t' → validTgt f nm' = true) :=
      fun t' p' nm' s' h' hn' => ih h' hn' hcp
    rw [parsePartsF_succ] at h
    split at h
    · simp [failParts] at h; exact absurd h.2.1 hn
    · split at h
      · split at h
        · simp [failParts] at h; exact absurd h.2.1 hn
        · rename_i hv
          simp at hv
          simp at h; obtain ⟨rfl, rfl, rfl⟩ := h
          exact ⟨hcp, fun _ => hv⟩
      · split at h
        · rename_i hh
          have := subrepoWith_ok hrec h hn
          exact ⟨this.1, fun hc => (this.2.2.2.1 (mem_tail_of_head_ne hh (by decide) hc)).1⟩
        · split at h
          · rename_i hp
            have := subrepoWith_ok hrec h hn
            refine ⟨this.1, fun hc => (this.2.2.2.1 ?_).1⟩
            exact mem_drop_of_prefix (pre := ['/', '/', '/']) hp (by decide) hc
          · split at h
            · simp [failParts] at h; exact absurd h.2.1 hn
            · rename_i hp
              simp at hp
              have := parseAbs_ok h hn
              refine ⟨this.1, fun hc => this.2.2 ?_⟩
              exact mem_drop_of_prefix (pre := ['/', '/']) hp (by decide) hc

theorem parsePartsF_sub_ok {f : Facts} {n : Nat} {t cp sr p nm s : Str}
    (h : parsePartsF f n t cp sr = (p, nm, s)) (hn : nm ≠ []) (hcp : validPkg f cp = true)
    (hsr : ':' ∉ sr ∧ hasDbl sr = false) : ':' ∉ s ∧ hasDbl s = false := by
  cases n with
  | zero => simp [parsePartsF, failParts] at h; exact absurd h.2.1 hn
  | succ n =>
    have hrec : ∀ t' p' nm' s', (fun t => parsePartsF f n t cp []) t' = (p', nm', s') → nm' ≠ [] →
        validPkg f p' = true ∧ (':' ∈ t' → validTgt f nm' = true) :=
      fun t' p' nm' s' h' hn' => parsePartsF_ok n h' hn' hcp
    rw [parsePartsF_succ] at h
    split at h
    · simp [failParts] at h; exact absurd h.2.1 hn
    · split at h
      · split at h
        · simp [failParts] at h; exact absurd h.2.1 hn
        · simp at h; obtain ⟨rfl, rfl, rfl⟩ := h
          simp [hasDbl]
      · split at h
        · have := subrepoWith_ok hrec h hn
          exact ⟨this.2.1, this.2.2.1⟩
        · split at h
          · have := subrepoWith_ok hrec h hn
            exact ⟨this.2.1, this.2.2.1⟩
          · split at h
            · simp [failParts] at h; exact absurd h.2.1 hn
            · rcases (parseAbs_ok h hn).2.1 with rfl | rfl
              · exact hsr
              · simp [hasDbl]

theorem tryParse_some {f : Facts} {t cp sr : Str} {l : Label} (h : tryParse f t cp sr = some l) :
    parsePartsF f (t.length + 1) t cp sr = (l.pkg, l.name, l.sub) ∧ l.name ≠ [] := by
  unfold tryParse parseParts at h
  simp only at h
  split at h
  · simp at h
  · rename_i hne
    simp at h; subst h
    exact ⟨rfl, hne⟩

/-- Parsing any string in a valid context yields a label that is canonical except possibly for the three
    things the parser does not check. -/
theorem canon_of_parse {f : Facts} {t cp sr : Str} {l : Label} (h : tryParse f t cp sr = some l)
    (hcp : validPkg f cp = true) (hsr : ':' ∉ sr ∧ hasDbl sr = false)
    (h1 : l ≠ original) (h2 : l.name = dots ∨ validTgt f l.name = true) (h3 : l.sub.getLast? ≠ some '/') :
    Canon f l := by
  obtain ⟨hp, hne⟩ := tryParse_some h
  have a := parsePartsF_ok _ hp hne hcp
  have b := parsePartsF_sub_ok hp hne hcp hsr
  exact ⟨h1, a.1, h2, b.1, b.2, h3⟩

theorem name_validated_of_colon {f : Facts} {t cp sr : Str} {l : Label} (h : tryParse f t cp sr = some l)
    (hcp : validPkg f cp = true) (hc : ':' ∈ t) : validTgt f l.name = true := by
  obtain ⟨hp, hne⟩ := tryParse_some h
  exact (parsePartsF_ok _ hp hne hcp).2 hc

/-! ### the three ways a printed label fails to parse back -/

/-- The printed form of the sentinel is prose; it never parses. -/
theorem tryParse_original (f : Facts) (cp : Str) : tryParse f (toStr original) cp [] = none := by
  have : toStr original = "command-line targets".toList := by decide
  rw [this]
  unfold tryParse parseParts
  rw [parsePartsF_succ]
  simp [startsWith, List.isPrefixOf, failParts]

/-- An explicit printed name that the validator rejects makes the whole re-parse fail. -/
theorem reparse_bad_name {f : Facts} (w : FactsWF f) {l : Label} (h1 : l ≠ original) (hp : validPkg f l.pkg = true)
    (hn0 : l.name ≠ []) (hd : l.name ≠ dots) (hv : validTgt f l.name = false) (hs : SubOK l.sub) (cp : Str) :
    tryParse f (toStr l) cp [] = none := by
  have hc := validPkg_no_colon w hp
  have hb : body l = l.pkg ++ ':' :: l.name := by simp [body, hd]
  have hh : (body l).head? ≠ some '/' := body_head hp
  have hab : ∀ n sr, parsePartsF f (n + 1) ('/' :: '/' :: body l) cp sr = failParts := by
    intro n sr
    rw [parsePartsF_abs f n _ cp sr hh, hb]
    unfold parseAbs
    rw [splitFirst_append _ hc]
    simp [hv]
  unfold tryParse parseParts
  rw [toStr_eq hn0 h1]
  by_cases hsub : l.sub = []
  · simp only [hsub, ne_eq, not_true_eq_false, if_false, List.nil_append]
    rw [hab]; simp [failParts]
  · simp only [hsub, ne_eq, not_false_eq_true, if_true]
    obtain ⟨s1, s2, s3⟩ := hs
    simp only [List.cons_append, List.nil_append, List.length_cons]
    rw [parsePartsF_sub]
    unfold subrepoWith
    rw [splitDbl_append _ s2 s3]
    have hcont : l.sub.contains ':' = false := by simpa using s1
    simp only [hcont]
    rw [List.length_append, List.length_cons, List.length_cons]
    rw [show l.sub.length + ((body l).length + 1 + 1) + 3 = (l.sub.length + (body l).length + 4) + 1 by omega]
    rw [hab]; simp [failParts]

/-- A subrepo with a trailing '/' is cut one byte early when the printed form is parsed again. -/
theorem reparse_sub_slash {f : Facts} {l : Label} (h1 : l ≠ original) (hn0 : l.name ≠ [])
    (hc : ':' ∉ l.sub) (hd : hasDbl l.sub = false) (hl : l.sub.getLast? = some '/') (cp : Str) :
    tryParse f (toStr l) cp [] ≠ some l := by
  obtain ⟨u, hu⟩ : ∃ u, l.sub = u ++ ['/'] := by
    rcases List.eq_nil_or_concat l.sub with e | ⟨u, c, e⟩
    · rw [e] at hl; simp at hl
    · rw [e] at hl; simp at hl; subst hl; exact ⟨u, by simpa using e⟩
  have hsub : l.sub ≠ [] := by rw [hu]; simp
  have hud : hasDbl u = false := by rw [hu] at hd; exact hasDbl_append_left hd
  have hul : u.getLast? ≠ some '/' := by
    intro h
    obtain ⟨z, hz⟩ : ∃ z, u = z ++ ['/'] := by
      rcases List.eq_nil_or_concat u with e | ⟨z, c, e⟩
      · rw [e] at h; simp at h
      · rw [e] at h; simp at h; subst h; exact ⟨z, by simpa using e⟩
    rw [hu, hz] at hd
    have := hasDbl_append_dbl z []
    simp at hd this; rw [this] at hd; exact Bool.noConfusion hd
  have huc : u.contains ':' = false := by
    have : ':' ∉ u := by intro h; apply hc; rw [hu]; simp [h]
    simpa using this
  intro h
  unfold tryParse parseParts at h
  rw [toStr_eq hn0 h1] at h
  simp only [hsub, ne_eq, not_false_eq_true, if_true, List.cons_append, List.nil_append, List.length_cons] at h
  rw [parsePartsF_sub] at h
  unfold subrepoWith at h
  rw [hu] at h
  have e : u ++ ['/'] ++ '/' :: '/' :: body l = u ++ '/' :: '/' :: ('/' :: body l) := by simp
  rw [e, splitDbl_append _ hud hul] at h
  simp only [huc] at h
  simp at h
  have := congrArg Label.sub h.2
  simp at this
  have := congrArg List.length this
  rw [hu] at this; simp at this

/-! ### sandbox opt-out and experimental directories -/

theorem sbxDirTest_slash {f : Facts} (h : f.sandboxExpSlash = true) (pkg d : Str) :
    sbxDirTest f pkg d = true ↔ Under d pkg := by
  rw [under_iff]; simp [sbxDirTest, h, startsWith, or_assoc]

theorem sbxDirTest_raw {f : Facts} (h : f.sandboxExpSlash = false) (pkg d : Str) :
    sbxDirTest f pkg d = true ↔ d <+: pkg := by
  simp [sbxDirTest, h, startsWith]

/-- The unconditional exemptions of `validateSandbox`. -/
def sbxExempt (wl : List Label) (t : SbxTarget) : Bool :=
  t.isFilegroup || wl.isEmpty || (!t.isRemoteFile && (t.sandbox && (t.test == none || t.test == some true))) ||
  t.label.pkg == "_please".toList

theorem validateSandbox_iff (f : Facts) (wl : List Label) (dirs : List Str) (t : SbxTarget) :
    validateSandbox f wl dirs t = true ↔
      sbxExempt wl t = true ∨ (∃ w ∈ wl, matchesF f w t.label = true) ∨ (∃ d ∈ dirs, sbxDirTest f t.label.pkg d = true) := by
  have e1 : (∃ w ∈ wl, matchesF f w t.label = true) ↔ (wl.any fun w => matchesF f w t.label) = true := by simp
  have e2 : (∃ d ∈ dirs, sbxDirTest f t.label.pkg d = true) ↔ (dirs.any fun d => sbxDirTest f t.label.pkg d) = true := by simp
  rw [e1, e2]
  unfold validateSandbox sbxExempt
  generalize (t.isFilegroup || wl.isEmpty) = a
  generalize (!t.isRemoteFile && (t.sandbox && (t.test == none || t.test == some true))) = b
  generalize (t.label.pkg == "_please".toList) = c
  generalize (wl.any fun w => matchesF f w t.label) = d
  generalize (dirs.any fun d => sbxDirTest f t.label.pkg d) = e
  cases a <;> cases b <;> cases c <;> cases d <;> cases e <;> simp

theorem isExperimental_iff (f : Facts) (hf : f.includesSlash = true) (dirs : List Str) (l : Label) :
    isExperimental f dirs l = true ↔ l.sub = [] ∧ ∃ d ∈ dirs, Under d l.pkg := by
  unfold isExperimental
  by_cases hs : l.sub = []
  · have : ∀ d, includes f ⟨d, dots, []⟩ l = true ↔ Under d l.pkg := by
      intro d; cases l; exact includes_dots f hf _ _ _ _ _
    simp [hs, this]
  · simp [hs]

/-! ### what a pattern selects (used by visibility and by exclude patterns) -/

/-- What a label used as a pattern (`//p/...`, `//p:all`, `//p:x`) selects. -/
def PatternSelects (e l : Label) : Prop :=
  if e.name = dots then Under e.pkg l.pkg
  else if e.name = allName then e.pkg = l.pkg
  else e.pkg = l.pkg ∧ e.name = l.name

instance (e l : Label) : Decidable (PatternSelects e l) := by unfold PatternSelects; exact inferInstance

theorem includes_iff_patternSelects (lf : Facts) (h : lf.includesSlash = true) (e l : Label) :
    includes lf e l = true ↔ PatternSelects e l := by
  unfold PatternSelects
  obtain ⟨ep, en, es⟩ := e
  obtain ⟨lp, ln, ls⟩ := l
  by_cases h1 : en = dots
  · subst h1; simp only [if_true]; exact includes_dots lf h _ _ _ _ _
  · by_cases h2 : en = allName
    · subst h2; simp only [h1, if_false, if_true]; exact includes_all lf _ _ _ _ _
    · simp only [h1, h2, if_false]; exact includes_exact lf _ _ _ _ _ _ h1 h2

end PlzVerif.Label
