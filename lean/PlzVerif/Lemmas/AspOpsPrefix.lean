import PlzVerif.Lemmas.AspOps
/-!
Chains with prefix operators (C16): on every chain as written — `-x` and `not x` hoisted into the flat list the way
`parseUnconditionalExpressionInPlace` does it, `not` standing where the Python grammar allows it — asp's tree is the
tree of precedence climbing whenever no operator swallows.  Unbounded, by induction on the chain.
-/
namespace PlzVerif.Asp

variable {V X : Type}

/-- the flat entries of one chain element -/
def unEntry : Option UnOp → List (OpE X)
  | some u => [OpE.un u]
  | none => []

def flatOne (e : BinOp × Option UnOp × X) : List (OpE X) := OpE.bin e.1 e.2.2 :: unEntry e.2.1

def flatRest : Chain X → List (OpE X)
  | [] => []
  | e :: r => flatOne e ++ flatRest r

theorem flatten_none (rest : Chain X) : flatten none rest = flatRest rest := by
  induction rest with
  | nil => rfl
  | cons e r ih =>
    obtain ⟨b, u, x⟩ := e
    simp only [flatten, List.nil_append, List.flatMap_cons, flatRest, flatOne] at ih ⊢
    rw [ih]
    cases u <;> rfl

theorem flatten_eq (hu : Option UnOp) (rest : Chain X) : flatten hu rest = unEntry hu ++ flatRest rest := by
  rw [← flatten_none]
  cases hu <;> rfl

/-- `not` only where Python allows it: after `and` / `or` -/
def validNot : Chain X → Bool
  | [] => true
  | (b, u, _) :: r => (u != some .not_ || b == .and_ || b == .or_) && validNot r

theorem swallows_tail (p : Op → Int) (o : OpE X) (l : List (OpE X)) (h : swallows p (o :: l) = false) :
    swallows p l = false := by
  cases l with
  | nil => rfl
  | cons o1 r =>
    simp only [swallows, Bool.or_eq_false_iff] at h
    exact h.2

/-- when an operator is followed by a tighter one and nothing swallows, everything later binds tighter than it -/
theorem later_tighter (p : Op → Int) (o0 o1 : OpE X) (r : List (OpE X)) (h : swallows p (o0 :: o1 :: r) = false)
    (hlt : p o0.op < p o1.op) : ∀ o ∈ r, p o0.op < p o.op := by
  simp only [swallows, Bool.or_eq_false_iff, Bool.and_eq_false_iff, decide_eq_false_iff_not] at h
  rcases h.1 with h1 | h1
  · exact absurd hlt h1
  · intro o ho
    have := List.any_eq_false.1 h1 o ho
    have h2 : ¬ p o.op ≤ p o0.op := by intro hle; apply this; exact decide_eq_true hle
    omega

theorem mem_flatRest_bin {r : Chain X} {e : BinOp × Option UnOp × X} (h : e ∈ r) : OpE.bin e.1 e.2.2 ∈ flatRest r := by
  induction r with
  | nil => simp at h
  | cons c r ih =>
    rcases List.mem_cons.1 h with rfl | h'
    · simp [flatRest, flatOne]
    · simp only [flatRest, List.mem_append]; right; exact ih h'

theorem aspGroupL_un_neg (t : Tree V X) (l : List (OpE X)) (h : ∀ o ∈ l.head?, ∃ b x, o = OpE.bin b x) :
    aspGroup pyPrec t (OpE.un .neg) l = aspGroupL pyPrec (.un .neg t) l := by
  cases l with
  | nil => simp [aspGroup, aspGroupL, Tree.node]
  | cons o1 r =>
    obtain ⟨b, x, rfl⟩ := h o1 (by simp)
    have : pyPrec (OpE.un (X := X) .neg).op ≥ pyPrec (OpE.bin b x).op := by
      simp only [OpE.op, pyPrec]; cases b <;> decide
    simp [aspGroup, aspGroupL, this, Tree.node]


theorem climb_nil (f : Nat) (m : Int) (t : Tree V X) : climb f m t ([] : Chain X) = (t, []) := by
  cases f <;> simp [climb]

theorem climb_stop (f : Nat) (m : Int) (t : Tree V X) (b : BinOp) (u : Option UnOp) (x : X) (r : Chain X)
    (h : pyPrecBin b < m) : climb f m t ((b, u, x) :: r) = (t, (b, u, x) :: r) := by
  cases f <;> simp [climb, h]

theorem head_flatRest_bin (r : Chain X) : ∀ o ∈ (flatRest r).head?, ∃ b x, o = OpE.bin b x := by
  cases r with
  | nil => simp [flatRest]
  | cons e r' => intro o ho; simp [flatRest, flatOne] at ho; exact ⟨_, _, ho.symm⟩

theorem all_ge_of_tighter (r : Chain X) (b0 : BinOp)
    (h : ∀ o ∈ flatRest r, pyPrec (Op.bin b0) < pyPrec o.op) : ∀ e ∈ r, pyPrecBin b0 + 1 ≤ pyPrecBin e.1 := by
  intro e he
  have := h _ (mem_flatRest_bin he)
  simp only [OpE.op, pyPrec] at this
  omega

theorem climb_eq_aspGroup_prefix (rest : Chain X) :
    ∀ (fuel : Nat) (minPrec : Int) (t : Tree V X),
      2 * rest.length < fuel →
      validNot rest = true →
      (∀ e ∈ rest, minPrec ≤ pyPrecBin e.1) →
      swallows pyPrec (flatRest rest) = false →
      climb fuel minPrec t rest = (aspGroupL pyPrec t (flatRest rest), []) := by
  induction rest with
  | nil =>
    intro fuel minPrec t _ _ _ _
    simp [climb_nil, flatRest, aspGroupL]
  | cons e r ih =>
    obtain ⟨b0, u0, x0⟩ := e
    intro fuel minPrec t hf hv hmin hsw
    cases fuel with
    | zero => simp at hf
    | succ f =>
      have hlen : 2 * r.length + 1 < f := by simp at hf; omega
      have hf1 : 2 * r.length < f := by omega
      have hb0 : ¬ pyPrecBin b0 < minPrec := by have := hmin (b0, u0, x0) (by simp); simp at this; omega
      have hvr : validNot r = true := by simp [validNot] at hv; exact hv.2
      have hminr : ∀ e ∈ r, minPrec ≤ pyPrecBin e.1 := fun e he => hmin e (List.mem_cons_of_mem _ he)
      simp only [climb, hb0, if_false]
      cases u0 with
      | none =>
        simp only [operandTree]
        have hswr : swallows pyPrec (flatRest r) = false := by
          simp only [flatRest, flatOne, unEntry, List.cons_append, List.nil_append] at hsw
          exact swallows_tail _ _ _ hsw
        cases r with
        | nil => simp [climb_nil, flatRest, flatOne, unEntry, aspGroupL, aspGroup, Tree.node]
        | cons e1 r' =>
          obtain ⟨b1, u1, x1⟩ := e1
          by_cases hge : pyPrecBin b0 ≥ pyPrecBin b1
          · rw [climb_stop f _ _ b1 u1 x1 r' (by omega)]
            rw [ih f minPrec _ hf1 hvr hminr hswr]
            simp [flatRest, flatOne, unEntry, aspGroupL, aspGroup, OpE.op, pyPrec, hge, Tree.node]
          · have hlt : pyPrec (OpE.bin (X := X) b0 x0).op < pyPrec (OpE.bin (X := X) b1 x1).op := by
              simp only [OpE.op, pyPrec]; omega
            have hsw' : swallows pyPrec (OpE.bin b0 x0 :: OpE.bin b1 x1 :: (unEntry u1 ++ flatRest r')) = false := by
              simpa [flatRest, flatOne, unEntry] using hsw
            have hlater := later_tighter pyPrec _ _ _ hsw' hlt
            have hall : ∀ e ∈ (b1, u1, x1) :: r', pyPrecBin b0 + 1 ≤ pyPrecBin e.1 := by
              intro e he
              rcases List.mem_cons.1 he with rfl | he'
              · simp only [OpE.op, pyPrec] at hlt; simp; omega
              · have hm : OpE.bin e.1 e.2.2 ∈ unEntry u1 ++ flatRest r' :=
                  List.mem_append_right _ (mem_flatRest_bin he')
                have := hlater _ hm
                simp only [OpE.op, pyPrec] at this
                omega
            rw [ih f (pyPrecBin b0 + 1) _ hf1 hvr hall hswr]
            simp [climb_nil, flatRest, flatOne, unEntry, aspGroupL, aspGroup, OpE.op, pyPrec, hge]
      | some u =>
        cases u with
        | neg =>
          simp only [operandTree]
          have hsw' : swallows pyPrec (OpE.bin b0 x0 :: OpE.un .neg :: flatRest r) = false := by
            simpa [flatRest, flatOne, unEntry] using hsw
          have hswr : swallows pyPrec (flatRest r) = false := swallows_tail _ _ _ (swallows_tail _ _ _ hsw')
          have hlt : pyPrec (OpE.bin (X := X) b0 x0).op < pyPrec (OpE.un (X := X) .neg).op := by
            simp only [OpE.op, pyPrec]; cases b0 <;> decide
          have hall := all_ge_of_tighter r b0 (later_tighter pyPrec _ _ _ hsw' hlt)
          rw [ih f (pyPrecBin b0 + 1) _ hf1 hvr hall hswr]
          have hnge : ¬ pyPrec (OpE.bin (X := X) b0 x0).op ≥ pyPrec (OpE.un (X := X) .neg).op := by omega
          have key : aspGroup pyPrec t (OpE.bin b0 x0) (OpE.un .neg :: flatRest r)
              = .bin b0 t (aspGroupL pyPrec (.un .neg (.operand x0)) (flatRest r)) := by
            rw [aspGroup]
            simp only [hnge, if_false]
            rw [aspGroupL_un_neg _ _ (head_flatRest_bin r)]
          simp only [climb_nil, flatRest, flatOne, unEntry, List.cons_append, List.nil_append, aspGroupL, key]
        | not_ =>
          have hsw' : swallows pyPrec (OpE.bin b0 x0 :: OpE.un .not_ :: flatRest r) = false := by
            simpa [flatRest, flatOne, unEntry] using hsw
          have hsw1 : swallows pyPrec (OpE.un (X := X) .not_ :: flatRest r) = false := swallows_tail _ _ _ hsw'
          have hswr : swallows pyPrec (flatRest r) = false := swallows_tail _ _ _ hsw1
          have hb : b0 = .and_ ∨ b0 = .or_ := by
            simp [validNot] at hv
            rcases hv.1 with h | h
            · exact Or.inl h
            · exact Or.inr h
          have hlt : pyPrec (OpE.bin (X := X) b0 x0).op < pyPrec (OpE.un (X := X) .not_).op := by
            rcases hb with rfl | rfl <;> simp [OpE.op, pyPrec, pyPrecBin]
          have hall := all_ge_of_tighter r b0 (later_tighter pyPrec _ _ _ hsw' hlt)
          have hnge : ¬ pyPrec (OpE.bin (X := X) b0 x0).op ≥ pyPrec (OpE.un (X := X) .not_).op := by omega
          -- what asp builds for the operand with its `not`
          have outer : aspGroup pyPrec t (OpE.bin b0 x0) (OpE.un .not_ :: flatRest r)
              = .bin b0 t (aspGroup pyPrec (.operand x0) (OpE.un .not_) (flatRest r)) := by
            rw [aspGroup]; simp only [hnge, if_false]
          obtain ⟨f', rfl⟩ : ∃ f', f = f' + 1 := ⟨f - 1, by omega⟩
          have hf' : 2 * r.length < f' := by omega
          cases r with
          | nil =>
            rcases hb with rfl | rfl <;>
              simp [operandTree, climb_nil, flatRest, flatOne, unEntry, aspGroupL, aspGroup, Tree.node, OpE.op, pyPrec,
                pyPrecBin]
          | cons e1 r' =>
            obtain ⟨b1, u1, x1⟩ := e1
            have hfr : flatRest ((b1, u1, x1) :: r') = OpE.bin b1 x1 :: (unEntry u1 ++ flatRest r') := by
              simp [flatRest, flatOne]
            have hnotp : pyPrec (Op.un .not_) + 1 = 0 := by decide
            by_cases h0 : pyPrecBin b1 < 0
            · -- `… and not x and …`: the not applies to x alone
              have hge1 : pyPrec (OpE.un (X := X) .not_).op ≥ pyPrec (OpE.bin (X := X) b1 x1).op := by
                simp only [OpE.op, pyPrec]; omega
              have inner : aspGroup pyPrec (Tree.operand (V := V) x0) (OpE.un .not_) (OpE.bin b1 x1 :: (unEntry u1 ++ flatRest r'))
                  = aspGroup pyPrec (.un .not_ (.operand x0)) (OpE.bin b1 x1) (unEntry u1 ++ flatRest r') := by
                rw [aspGroup]; simp only [hge1, if_true, Tree.node]
              have hstop : climb (V := V) f' (pyPrec (.un .not_) + 1) (Tree.operand x0) ((b1, u1, x1) :: r')
                  = (Tree.operand x0, (b1, u1, x1) :: r') := climb_stop _ _ _ _ _ _ _ (by rw [hnotp]; exact h0)
              simp only [operandTree, hstop]
              rw [ih (f' + 1) (pyPrecBin b0 + 1) _ hf1 hvr hall hswr]
              simp only [climb_nil]
              have : flatRest ((b0, some UnOp.not_, x0) :: (b1, u1, x1) :: r')
                  = OpE.bin b0 x0 :: OpE.un .not_ :: flatRest ((b1, u1, x1) :: r') := by simp [flatRest, flatOne, unEntry]
              rw [this]
              simp only [aspGroupL]
              rw [outer, hfr, inner]
            · -- `… and not x < …`: the not applies to the whole comparison that follows
              have hlt2 : pyPrec (OpE.un (X := X) .not_).op < pyPrec (OpE.bin (X := X) b1 x1).op := by
                simp only [OpE.op, pyPrec]; omega
              have hnge1 : ¬ pyPrec (OpE.un (X := X) .not_).op ≥ pyPrec (OpE.bin (X := X) b1 x1).op := by omega
              have inner2 : aspGroup pyPrec (Tree.operand (V := V) x0) (OpE.un .not_) (OpE.bin b1 x1 :: (unEntry u1 ++ flatRest r'))
                  = .un .not_ (aspGroup pyPrec (.operand x0) (OpE.bin b1 x1) (unEntry u1 ++ flatRest r')) := by
                rw [aspGroup]; simp only [hnge1, if_false]
              have hsw1' : swallows pyPrec (OpE.un (X := X) .not_ :: OpE.bin b1 x1 :: (unEntry u1 ++ flatRest r')) = false := by
                rw [← hfr]; exact hsw1
              have hlater := later_tighter pyPrec _ _ _ hsw1' hlt2
              have hall0 : ∀ e ∈ (b1, u1, x1) :: r', (0 : Int) ≤ pyPrecBin e.1 := by
                intro e he
                rcases List.mem_cons.1 he with rfl | he'
                · simp; omega
                · have := hlater _ (List.mem_append_right _ (mem_flatRest_bin he'))
                  simp only [OpE.op, pyPrec] at this
                  omega
              have hc := ih f' 0 (Tree.operand x0) hf' hvr hall0 hswr
              simp only [operandTree, hnotp, hc, climb_nil]
              have : flatRest ((b0, some UnOp.not_, x0) :: (b1, u1, x1) :: r')
                  = OpE.bin b0 x0 :: OpE.un .not_ :: flatRest ((b1, u1, x1) :: r') := by simp [flatRest, flatOne, unEntry]
              rw [this]
              simp only [aspGroupL]
              rw [outer, hfr, inner2]

theorem minPrec_all (rest : Chain X) : ∀ e ∈ rest, (-100 : Int) ≤ pyPrecBin e.1 := by
  intro e _; cases e.1 <;> decide

/-- **asp's tree is the Python tree on every chain as written** (prefix `-` and `not` included, `not` where the
    Python grammar allows it) in which no operator swallows. -/
theorem pyGroup_eq_aspGroup (hu : Option UnOp) (head : X) (rest : Chain X)
    (hv : validNot rest = true) (hsw : swallows pyPrec (flatten hu rest) = false) :
    aspGroupL pyPrec (Tree.operand (V := V) head) (flatten hu rest) = pyGroup hu head rest := by
  rw [flatten_eq] at hsw ⊢
  have hfuel : 2 * rest.length < 2 * rest.length + 2 := by omega
  unfold pyGroup
  cases hu with
  | none =>
    simp only [unEntry, List.nil_append] at hsw ⊢
    simp only [operandTree]
    rw [climb_eq_aspGroup_prefix rest _ (-100) _ hfuel hv (minPrec_all rest) hsw]
  | some u =>
    cases u with
    | neg =>
      simp only [unEntry, List.cons_append, List.nil_append] at hsw ⊢
      have hswr := swallows_tail _ _ _ hsw
      simp only [operandTree, aspGroupL]
      rw [climb_eq_aspGroup_prefix rest _ (-100) _ hfuel hv (minPrec_all rest) hswr]
      exact aspGroupL_un_neg _ _ (head_flatRest_bin rest)
    | not_ =>
      simp only [unEntry, List.cons_append, List.nil_append] at hsw ⊢
      have hswr := swallows_tail _ _ _ hsw
      have hnotp : pyPrec (Op.un .not_) + 1 = 0 := by decide
      cases rest with
      | nil => simp [operandTree, climb_nil, flatRest, aspGroupL, aspGroup, Tree.node]
      | cons e1 r' =>
        obtain ⟨b1, u1, x1⟩ := e1
        have hfr : flatRest ((b1, u1, x1) :: r') = OpE.bin b1 x1 :: (unEntry u1 ++ flatRest r') := by
          simp [flatRest, flatOne]
        have hn : 2 * ((b1, u1, x1) :: r').length + 2 = (2 * ((b1, u1, x1) :: r').length + 1) + 1 := by omega
        by_cases h0 : pyPrecBin b1 < 0
        · have hge1 : pyPrec (OpE.un (X := X) .not_).op ≥ pyPrec (OpE.bin (X := X) b1 x1).op := by
            simp only [OpE.op, pyPrec]; omega
          have hstop : climb (V := V) (2 * ((b1, u1, x1) :: r').length + 1) (pyPrec (.un .not_) + 1) (Tree.operand head)
              ((b1, u1, x1) :: r') = (Tree.operand head, (b1, u1, x1) :: r') :=
            climb_stop _ _ _ _ _ _ _ (by rw [hnotp]; exact h0)
          rw [hn]
          simp only [operandTree, hstop]
          rw [← hn, climb_eq_aspGroup_prefix _ _ (-100) _ hfuel hv (minPrec_all _) hswr]
          simp only [aspGroupL, hfr]
          rw [aspGroup]; simp only [hge1, if_true, Tree.node]
        · have hlt2 : pyPrec (OpE.un (X := X) .not_).op < pyPrec (OpE.bin (X := X) b1 x1).op := by
            simp only [OpE.op, pyPrec]; omega
          have hnge1 : ¬ pyPrec (OpE.un (X := X) .not_).op ≥ pyPrec (OpE.bin (X := X) b1 x1).op := by omega
          have hsw' : swallows pyPrec (OpE.un (X := X) .not_ :: OpE.bin b1 x1 :: (unEntry u1 ++ flatRest r')) = false := by
            rw [← hfr]; exact hsw
          have hlater := later_tighter pyPrec _ _ _ hsw' hlt2
          have hall0 : ∀ e ∈ (b1, u1, x1) :: r', (0 : Int) ≤ pyPrecBin e.1 := by
            intro e he
            rcases List.mem_cons.1 he with rfl | he'
            · simp; omega
            · have := hlater _ (List.mem_append_right _ (mem_flatRest_bin he'))
              simp only [OpE.op, pyPrec] at this
              omega
          have hc := climb_eq_aspGroup_prefix (V := V) ((b1, u1, x1) :: r') (2 * ((b1, u1, x1) :: r').length + 1) 0
            (Tree.operand head) (by omega) hv hall0 hswr
          rw [hn]
          simp only [operandTree, hnotp, hc, climb_nil]
          simp only [aspGroupL, hfr]
          rw [aspGroup]; simp only [hnge1, if_false]

end PlzVerif.Asp
