import PlzVerif.Model.Sched
/-! The inductive invariant of the scheduler model (C04) -/
namespace PlzVerif.Sched

variable (c : Cfg)

/-- terminal states: the ones a target is in once `finishedBuilding` is closed -/
def TS.terminal (s : TS) : Bool := s.isBuilt || s == .depFailed || s == .failed

/-- live building queuer: the one goroutine that may move its target from Active to Pending -/
def Queuer.live (q : Queuer) : Prop := q.building = true ∧ q.ph ≠ .done

structure Inv (s : St) : Prop where
  qFresh : ∀ i q, s.qs i = some q → i < s.nextQ
  mFresh : ∀ m t, s.chan m = some t → m < s.nextM
  wFresh : ∀ w x, s.ws w = some x → w < s.nextW
  waitBuilding : ∀ i q r, s.qs i = some q → q.ph = .waitDeps r → q.building = true
  bqActive : ∀ i q, s.qs i = some q → q.live → s.st q.t = .active
  bqUnique : ∀ i j q q', s.qs i = some q → s.qs j = some q' → q.live → q'.live → q.t = q'.t → i = j
  bqWait : ∀ i q r, s.qs i = some q → q.building = true → q.ph = .waitDeps r →
      ∀ d ∈ c.deps q.t, d ∈ r ∨ (s.fin d = true ∧ (s.st d).isBuilt = true)
  chanPending : ∀ m t, s.chan m = some t → s.st t = .pending
  chanUnique : ∀ m m' t, s.chan m = some t → s.chan m' = some t → m = m'
  takenPending : ∀ w t, s.ws w = some ⟨t, .taken⟩ → s.st t = .pending
  takenUnique : ∀ w w' t, s.ws w = some ⟨t, .taken⟩ → s.ws w' = some ⟨t, .taken⟩ → w = w'
  chanTaken : ∀ m w t, s.chan m = some t → s.ws w ≠ some ⟨t, .taken⟩
  wBuilding : ∀ w t, s.ws w = some ⟨t, .building⟩ → s.st t = .building
  wBuildingUnique : ∀ w w' t, s.ws w = some ⟨t, .building⟩ → s.ws w' = some ⟨t, .building⟩ → w = w'
  notStopped : ∀ t, s.st t ≠ .stopped
  starts0 : ∀ t, (s.st t).rank < TS.building.rank ∨ s.st t = .depFailed → s.starts t = 0
  starts1 : ∀ t, TS.building.rank ≤ (s.st t).rank → s.st t ≠ .depFailed → s.starts t = 1
  depsDone : ∀ t, TS.pending.rank ≤ (s.st t).rank → s.st t ≠ .depFailed →
      ∀ d ∈ c.deps t, s.fin d = true ∧ (s.st d).isBuilt = true
  finTerm : ∀ t, s.fin t = (s.st t).terminal
  nresFin : ∀ t, s.nres t = if s.fin t then 1 else 0
  resSome : ∀ t, (s.res t).isSome = s.fin t
  resKind : ∀ t r, s.res t = some r →
      (r = .failed ↔ s.st t = .failed) ∧ (r = .depFailed ↔ s.st t = .depFailed)
  failedFlag : ∀ t, s.st t = .failed → s.failed = true
  extStopped : s.ext = true → s.stopped = true
  wtNotBuilding : ∀ i q d, s.qs i = some q → q.ph = .waitTarget d → q.building = false

theorem inv_init : Inv c St.init := by
  constructor <;> simp [St.init, TS.rank, TS.terminal, TS.isBuilt]

theorem fresh_q {s : St} (hi : Inv c s) : s.qs s.nextQ = none := by
  cases h : s.qs s.nextQ with
  | none => rfl
  | some x => exact absurd (hi.qFresh _ _ h) (Nat.lt_irrefl _)

theorem fresh_m {s : St} (hi : Inv c s) : s.chan s.nextM = none := by
  cases h : s.chan s.nextM with
  | none => rfl
  | some x => exact absurd (hi.mFresh _ _ h) (Nat.lt_irrefl _)

theorem fresh_w {s : St} (hi : Inv c s) : s.ws s.nextW = none := by
  cases h : s.ws s.nextW with
  | none => rfl
  | some x => exact absurd (hi.wFresh _ _ h) (Nat.lt_irrefl _)

/-- the closing tactic: old clause verbatim, or case analysis on the updated indices with all old clauses at hand -/
macro "inv_close" hi:ident : tactic =>
  `(tactic| (constructor <;> first
      | exact ($hi).qFresh | exact ($hi).mFresh | exact ($hi).wFresh | exact ($hi).waitBuilding | exact ($hi).bqActive | exact ($hi).bqUnique | exact ($hi).bqWait | exact ($hi).chanPending | exact ($hi).chanUnique | exact ($hi).takenPending | exact ($hi).takenUnique | exact ($hi).chanTaken | exact ($hi).wBuilding | exact ($hi).wBuildingUnique | exact ($hi).notStopped | exact ($hi).starts0 | exact ($hi).starts1 | exact ($hi).depsDone | exact ($hi).finTerm | exact ($hi).nresFin | exact ($hi).resSome | exact ($hi).resKind | exact ($hi).failedFlag | exact ($hi).extStopped | exact ($hi).wtNotBuilding
      | (intros; have := ($hi).qFresh; have := ($hi).mFresh; have := ($hi).wFresh; have := ($hi).waitBuilding; have := ($hi).bqActive; have := ($hi).bqUnique; have := ($hi).bqWait; have := ($hi).chanPending; have := ($hi).chanUnique; have := ($hi).takenPending; have := ($hi).takenUnique; have := ($hi).chanTaken; have := ($hi).wBuilding; have := ($hi).wBuildingUnique; have := ($hi).notStopped; have := ($hi).starts0; have := ($hi).starts1; have := ($hi).depsDone; have := ($hi).finTerm; have := ($hi).nresFin; have := ($hi).resSome; have := ($hi).resKind; have := ($hi).failedFlag; have := ($hi).extStopped; have := ($hi).wtNotBuilding
         simp only [upd, Queuer.live] at * <;> grind [TS.rank, TS.terminal, TS.isBuilt, TS.isBad])))

theorem spawn_inv {s : St} (hi : Inv c s) (t : T) (b f : Bool) (ns : TS)
    (h : (b = true ∧ ns = .active ∧ (s.st t = .inactive ∨ s.st t = .semiactive)) ∨
         (b = false ∧ ns = .semiactive ∧ s.st t = .inactive)) : Inv c (spawn c s t b f ns) := by
  have hq := fresh_q c hi
  unfold spawn
  inv_close hi

theorem qrt_inv {s : St} (hi : Inv c s) (t : T) (f : Bool) : Inv c (qrt c s t f) := by
  unfold qrt
  split
  · exact hi
  · split
    · split
      · rename_i h; exact spawn_inv c hi t true f .active (.inl ⟨rfl, rfl, h⟩)
      · exact hi
    · split
      · rename_i h; exact spawn_inv c hi t false f .semiactive (.inr ⟨rfl, rfl, h⟩)
      · exact hi

theorem take_inv {s s' : St} (hi : Inv c s) (m : Nat) (h : fire c s (.take m) = some s') : Inv c s' := by
  simp only [fire] at h
  split at h
  · rename_i t hm
    cases h
    have hnw := fresh_w c hi
    inv_close hi
  · cases h

theorem taskDone_inv {s : St} (hi : Inv c s) : Inv c (taskDone s) := by
  unfold taskDone
  inv_close hi

set_option maxHeartbeats 1600000 in
theorem queuer_inv {s s' : St} (hi : Inv c s) (i : Nat) (q : Queuer) (hq : s.qs i = some q)
    (h : queuerStep c s i q = some s') : Inv c s' := by
  unfold queuerStep at h
  split at h
  · -- queueDeps (d :: r): queueResolvedTarget on the dependency, then advance
    rename_i d r hph
    cases h
    have h1 := qrt_inv c hi d q.force
    have hq1 : (qrt c s d q.force).qs i = some q := by
      unfold qrt spawn
      have := hi.qFresh i q hq
      have hne : i ≠ s.nextQ := by omega
      repeat' split
      all_goals simp [upd, hne, hq]
    generalize qrt c s d q.force = s1 at h1 hq1
    inv_close h1
  · rename_i hph
    cases h
    inv_close hi
  · rename_i d r hph
    split at h
    · split at h
      · cases h
        inv_close hi
      · cases h
        inv_close hi
    · cases h
  · rename_i hph
    have hm := fresh_m c hi
    split at h
    · cases h
      inv_close hi
    · cases h
      inv_close hi
  · rename_i hph
    cases h
    apply taskDone_inv
    inv_close hi
  · rename_i d hph
    split at h
    · cases h; inv_close hi
    · cases h

/-- after `queueResolvedTarget(t, forceBuild = true)` the target is at least Active -/
theorem qrt_active' (s : St) (t : T) : TS.active.rank ≤ ((qrt c s t true).st t).rank := by
  unfold qrt spawn
  cases hs : s.st t <;> simp_all [TS.rank, upd]

/-- … and it is not in a terminal state unless it was before -/
theorem qrt_nonterminal (s : St) (t : T) (h : ¬ ((s.st t).isBuilt || (c.lateOK && (s.st t).isBad)) = true) :
    c.lateOK = true → ((qrt c s t true).st t).terminal = false := by
  intro hl
  unfold qrt spawn
  cases hs : s.st t <;> simp_all [TS.rank, upd, TS.terminal, TS.isBuilt, TS.isBad]

set_option maxHeartbeats 1600000 in
theorem step_inv {s s' : St} (hi : Inv c s) (h : Step c s s') : Inv c s' := by
  obtain ⟨a, h⟩ := h
  cases a with
  | activate t force =>
    simp only [fire] at h
    split at h
    · cases h; exact qrt_inv c hi t force
    · cases h
  | queuer i =>
    simp only [fire] at h
    split at h
    · rename_i q hq; exact queuer_inv c hi i q hq h
    · cases h
  | queuerAbort i =>
    simp only [fire] at h
    split at h
    · split at h
      · cases h; inv_close hi
      · cases h
    · cases h
  | take m => exact take_inv c hi m h
  | drop m =>
    simp only [fire] at h
    split at h
    · split at h
      · cases h; inv_close hi
      · cases h
    · cases h
  | workerStart w =>
    simp only [fire] at h
    split at h
    · cases h; inv_close hi
    · cases h
  | workerOk w ts cached =>
    simp only [fire] at h
    split at h
    · split at h
      · cases h; inv_close hi
      · cases h
    · cases h
  | workerFail w =>
    simp only [fire] at h
    split at h
    · cases h; inv_close hi
    · cases h
  | workerDone w =>
    simp only [fire] at h
    split at h
    · cases h; apply taskDone_inv; inv_close hi
    · cases h
  | initDone =>
    simp only [fire] at h
    split at h
    · cases h
    · cases h; apply taskDone_inv; inv_close hi
  | stop => simp only [fire] at h; cases h; inv_close hi
  | subWait t =>
    simp only [fire] at h
    split at h
    · rename_i hg
      split at h
      · cases h; inv_close hi
      · rename_i hnb
        cases h
        have h1 := qrt_inv c hi t true
        have hq1 := fresh_q c h1
        generalize qrt c s t true = s1 at h1 hq1
        inv_close h1
    · cases h
  | cycleCheck =>
    simp only [fire] at h
    split at h
    · cases h; inv_close hi
    · cases h

theorem reach_inv {s : St} (h : Reach c s) : Inv c s := by
  induction h with
  | init => exact inv_init c
  | step _ hs ih => exact step_inv c ih hs

end PlzVerif.Sched
