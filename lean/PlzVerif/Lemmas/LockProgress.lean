import PlzVerif.Lemmas.Lock
/-!
C31: liveness side of the multi-process build model, core only.

* `step_nofail`     — no worker ever takes an error path (with `Lemmas/Lock.lean`'s `no_fail`);
* `cs_can_step`     — a worker inside a critical section can ALWAYS take a step: it never waits for anything
                      (target locks are taken one at a time and never nested — src/build/build_step.go:213 takes
                      the lock and `buildTarget` does not build anything else before the deferred release);
* `progress`        — in every reachable state in which some process has not exited, some step is enabled;
* `step_measure`    — every step strictly decreases a natural-number measure, so every execution has at most
                      `|ps| * (2 + 11 * |targets|)` steps (`reachN_bound`) and, with `progress`, ends with every
                      process having exited successfully.
-/
namespace PlzVerif.Lock
open PlzVerif.Build
set_option linter.unusedSectionVars false
set_option linter.unusedSimpArgs false
set_option linter.unusedVariables false

variable {P K A F N C S H : Type} [DecidableEq P] [DecidableEq K] [DecidableEq S] [DecidableEq N] [DecidableEq H]

def PC.rank : PC S N H → Nat
  | .idle => 11 | .locked => 10 | .prep _ => 9 | .ready _ => 8 | .built _ => 7 | .stored _ => 6
  | .removed _ => 5 | .moved _ => 4 | .stamped => 3 | .skip => 1 | .finished => 0 | .failed => 0

def Phase.rank : Phase → Nat
  | .waiting => 2 | .inside => 1 | .left => 0

theorem sum_map_le {α : Type} {f g : α → Nat} : ∀ {l : List α}, (∀ x ∈ l, g x ≤ f x) → (l.map g).sum ≤ (l.map f).sum
  | [], _ => Nat.le_refl _
  | a :: l, h => by
    have h1 := h a (List.mem_cons_self ..)
    have h2 := sum_map_le (l := l) (fun x hx => h x (List.mem_cons_of_mem _ hx))
    simp only [List.map_cons, List.sum_cons]; omega

theorem sum_map_lt {α : Type} {f g : α → Nat} : ∀ {l : List α}, (∀ x ∈ l, g x ≤ f x) → ∀ {a}, a ∈ l → g a < f a →
    (l.map g).sum < (l.map f).sum
  | [], _, _, ha, _ => by simp at ha
  | b :: l, h, a, ha, hlt => by
    have h1 := h b (List.mem_cons_self ..)
    have hle := sum_map_le (l := l) (fun x hx => h x (List.mem_cons_of_mem _ hx))
    simp only [List.map_cons, List.sum_cons]
    rcases List.mem_cons.mp ha with rfl | ha'
    · omega
    · have := sum_map_lt (l := l) (fun x hx => h x (List.mem_cons_of_mem _ hx)) ha' hlt
      omega

section
variable (fx : Facts) (lf : LFacts) (exec : A → List (N × C) → C) (ruleSer : A → S) (pathSer : C → H)
variable (r : Repo K A F N C) (ps : List P) (req : P → K → Bool) (force : P → K → Bool)

/-- Work still to be done by process `p`. -/
def procMeasure (s : State P K C S N H) (p : P) : Nat :=
  (s.phase p).rank + (r.targets.map fun t => (s.pc p t.key).rank).sum

def measure (s : State P K C S N H) : Nat := (ps.map (procMeasure r s)).sum

def NoFail (s : State P K C S N H) : Prop := ∀ p k, s.pc p k ≠ .failed

variable {fx lf exec ruleSer pathSer r ps req force}

theorem step_nofail (hy : Hyp fx lf ruleSer pathSer r req) {s s' : State P K C S N H}
    (hi : Inv lf exec ruleSer pathSer r ps req s) (hn : NoFail s)
    (hs : Step fx lf exec ruleSer pathSer r ps req force s s') : NoFail s' := by
  have key : ∀ (p : P) (k : K) (c : PC S N H), c ≠ .failed → ∀ p' k', upd2 s.pc p k c p' k' ≠ .failed := by
    intro p k c hc p' k'
    by_cases e : p' = p ∧ k' = k
    · obtain ⟨e1, e2⟩ := e; subst e1; subst e2; simpa using hc
    · rw [upd2_ne _ _ e]; exact hn p' k'
  cases hs with
  | enter => exact hn
  | leave => exact hn
  | fail p t ht hf => exact absurd hf (no_fail hy hi ht)
  | acquire p t => exact key p t.key _ (by simp)
  | checkSkip p t => exact key p t.key _ (by simp)
  | checkBuild p t => exact key p t.key _ (by simp)
  | releaseSkip p t => exact key p t.key _ (by simp)
  | prepare p t => exact key p t.key _ (by simp)
  | exec p t => exact key p t.key _ (by simp)
  | store p t => exact key p t.key _ (by simp)
  | moveKeep p t => exact key p t.key _ (by simp)
  | moveRemove p t => exact key p t.key _ (by simp)
  | moveNew p t => exact key p t.key _ (by simp)
  | rename p t => exact key p t.key _ (by simp)
  | stamp p t => exact key p t.key _ (by simp)
  | release p t => exact key p t.key _ (by simp)

theorem reach_nofail (hy : Hyp fx lf ruleSer pathSer r req) {s0 s : State P K C S N H} (h0 : Init s0)
    (hh : Hist exec ruleSer pathSer s0.gen s0.stamp)
    (hr : Reach fx lf exec ruleSer pathSer r ps req force s0 s) : NoFail s := by
  induction hr with
  | init => intro p k; rw [h0.pc p k]; simp
  | step hr' hs ih => exact step_nofail hy (reach_inv hy h0 hh hr') ih hs

/-- Locks are never nested: a worker inside a critical section always has an enabled step of its own. -/
theorem cs_can_step {s : State P K C S N H} {p : P} {t : Target K A F} (ht : t ∈ r.targets)
    (hcs : (s.pc p t.key).inCS = true) : ∃ s', Step fx lf exec ruleSer pathSer r ps req force s s' := by
  cases hpc : s.pc p t.key with
  | idle => rw [hpc] at hcs; simp [PC.inCS] at hcs
  | finished => rw [hpc] at hcs; simp [PC.inCS] at hcs
  | failed => rw [hpc] at hcs; simp [PC.inCS] at hcs
  | locked =>
    cases hin : readIns r s.gen t with
    | none => exact ⟨_, .fail s p t ht (Or.inl ⟨hpc, hin⟩)⟩
    | some ins =>
      by_cases hu : upToDate fx s t.key (stampOf ruleSer pathSer t.attrs ins) = true ∧ force p t.key = false
      · exact ⟨_, .checkSkip s p t ins ht hpc hin hu.1 hu.2⟩
      · refine ⟨_, .checkBuild s p t ins ht hpc hin ?_⟩
        cases h1 : upToDate fx s t.key (stampOf ruleSer pathSer t.attrs ins) with
        | false => exact Or.inl rfl
        | true =>
          cases h2 : force p t.key with
          | true => exact Or.inr rfl
          | false => exact absurd ⟨h1, h2⟩ hu
  | skip => exact ⟨_, .releaseSkip s p t ht hpc⟩
  | prep st => exact ⟨_, .prepare s p t st ht hpc⟩
  | ready st =>
    cases hin : readIns r s.gen t with
    | none => exact ⟨_, .fail s p t ht (Or.inr (Or.inl ⟨st, hpc, hin⟩))⟩
    | some ins => exact ⟨_, .exec s p t st ins ht hpc hin⟩
  | built st => exact ⟨_, .store s p t st ht hpc⟩
  | stored st =>
    cases htmp : s.tmp t.key with
    | none => exact ⟨_, .fail s p t ht (Or.inr (Or.inr (Or.inl ⟨st, hpc, htmp⟩)))⟩
    | some c' =>
      cases hgen : s.gen t.key with
      | none => exact ⟨_, .moveNew s p t st c' ht hpc htmp hgen⟩
      | some c =>
        by_cases hk : fx.keepOld = true ∧ pathSer c = pathSer c'
        · exact ⟨_, .moveKeep s p t st c c' ht hpc htmp hgen hk.1 hk.2⟩
        · refine ⟨_, .moveRemove s p t st c c' ht hpc htmp hgen ?_⟩
          cases h1 : fx.keepOld with
          | false => exact Or.inl rfl
          | true => exact Or.inr (fun h2 => hk ⟨h1, h2⟩)
  | removed st =>
    cases htmp : s.tmp t.key with
    | none => exact ⟨_, .fail s p t ht (Or.inr (Or.inr (Or.inr (Or.inl ⟨st, hpc, htmp⟩))))⟩
    | some c' => exact ⟨_, .rename s p t st c' ht hpc htmp⟩
  | moved st =>
    cases hgen : s.gen t.key with
    | none => exact ⟨_, .fail s p t ht (Or.inr (Or.inr (Or.inr (Or.inr ⟨st, hpc, hgen⟩))))⟩
    | some c => exact ⟨_, .stamp s p t st c ht hpc hgen⟩
  | stamped => exact ⟨_, .release s p t ht hpc⟩

/-- In dependency order, the first target a process still has to finish has all its dependencies finished. -/
theorem first_unfinished (hy : Hyp fx lf ruleSer pathSer r req) (s : State P K C S N H) (p : P) :
    ∀ (ts : List (Target K A F)) (seen : List K), (∀ t ∈ ts, t ∈ r.targets) → WFList (allSel (K := K)) seen ts →
      (∀ k ∈ seen, req p k = true → s.pc p k = .finished) →
      (∃ t ∈ ts, req p t.key = true ∧ s.pc p t.key ≠ .finished) →
      ∃ t ∈ ts, req p t.key = true ∧ s.pc p t.key ≠ .finished ∧ ∀ d ∈ t.deps, s.pc p d = .finished := by
  intro ts
  induction ts with
  | nil => intro seen _ _ _ h; obtain ⟨t, ht, _⟩ := h; simp at ht
  | cons t0 ts ih =>
    intro seen hsub hwf hseen hex
    simp only [WFList, allSel, if_true] at hwf
    obtain ⟨hd, hnew, hwf'⟩ := hwf
    by_cases h0 : req p t0.key = true ∧ s.pc p t0.key ≠ .finished
    · refine ⟨t0, List.mem_cons_self .., h0.1, h0.2, ?_⟩
      intro d hdm
      exact hseen d (hd d hdm) (hy.closed p t0 (hsub t0 (List.mem_cons_self ..)) h0.1 d hdm)
    · have hseen' : ∀ k ∈ seen ++ [t0.key], req p k = true → s.pc p k = .finished := by
        intro k hk hr
        rcases List.mem_append.mp hk with hk | hk
        · exact hseen k hk hr
        · have : k = t0.key := by simpa using hk
          subst this
          cases hf : s.pc p t0.key with
          | finished => rfl
          | _ => exact absurd ⟨hr, by rw [hf]; simp⟩ h0
      have hex' : ∃ t ∈ ts, req p t.key = true ∧ s.pc p t.key ≠ .finished := by
        obtain ⟨t, ht, h1, h2⟩ := hex
        rcases List.mem_cons.mp ht with rfl | ht'
        · exact absurd ⟨h1, h2⟩ h0
        · exact ⟨t, ht', h1, h2⟩
      obtain ⟨t, ht, h1, h2, h3⟩ := ih (seen ++ [t0.key]) (fun t ht => hsub t (List.mem_cons_of_mem _ ht)) hwf' hseen' hex'
      exact ⟨t, List.mem_cons_of_mem _ ht, h1, h2, h3⟩

/-- A process that holds the repo lock never blocks the system: some step (its own, or that of the holder of a
    target lock it is waiting for) is enabled. -/
theorem inside_can_step (hy : Hyp fx lf ruleSer pathSer r req) {s : State P K C S N H}
    (hi : Inv lf exec ruleSer pathSer r ps req s) (hn : NoFail s) {p : P} (hp : p ∈ ps) (hin : s.phase p = .inside) :
    ∃ s', Step fx lf exec ruleSer pathSer r ps req force s s' := by
  by_cases hall : ∀ t ∈ r.targets, req p t.key = true → s.pc p t.key = .finished
  · exact ⟨_, .leave s p hin hall⟩
  · have hex : ∃ t ∈ r.targets, req p t.key = true ∧ s.pc p t.key ≠ .finished := by
      apply Classical.byContradiction
      intro hne
      apply hall
      intro t ht hr
      apply Classical.byContradiction
      intro hnf
      exact hne ⟨t, ht, hr, hnf⟩
    obtain ⟨t, ht, hr, hnf, hdeps⟩ := first_unfinished hy s p r.targets [] (fun _ h => h) hy.wf (by intro k hk; simp at hk) hex
    cases hcs : (s.pc p t.key).inCS with
    | true => exact cs_can_step ht hcs
    | false =>
      rcases inCS_false_cases hcs with h | h | h
      · -- idle: take the lock, or the holder moves
        cases hl : s.lock t.key with
        | none => exact ⟨_, .acquire s p t hp ht hin hr h hdeps (fun _ => hl)⟩
        | some q => exact cs_can_step ht ((hi.key t ht).csLock q hl)
      · exact absurd h hnf
      · exact absurd h (hn p t.key)

/-- No deadlock: while some process has not exited, some step is enabled. -/
theorem progress (hy : Hyp fx lf ruleSer pathSer r req) {s : State P K C S N H}
    (hi : Inv lf exec ruleSer pathSer r ps req s) (hn : NoFail s) (hnt : ¬ Terminal ps s) :
    ∃ s', Step fx lf exec ruleSer pathSer r ps req force s s' := by
  have hex : ∃ p ∈ ps, s.phase p ≠ .left := by
    apply Classical.byContradiction
    intro hne
    apply hnt
    intro p hp
    apply Classical.byContradiction
    intro h
    exact hne ⟨p, hp, h⟩
  obtain ⟨p, hp, hph⟩ := hex
  cases hphase : s.phase p with
  | left => exact absurd hphase hph
  | inside => exact inside_can_step hy hi hn hp hphase
  | waiting =>
    by_cases hblock : lf.repoExclusive = true ∧ ∃ q ∈ ps, s.phase q = .inside
    · obtain ⟨_, q, hq, hqi⟩ := hblock
      exact inside_can_step hy hi hn hq hqi
    · refine ⟨_, .enter s p hp hphase ?_⟩
      intro hex q hq hqi
      exact hblock ⟨hex, q, hq, hqi⟩

/-- Shape of a step, as far as the measure is concerned. -/
theorem step_shape {s s' : State P K C S N H} (hi : Inv lf exec ruleSer pathSer r ps req s)
    (hs : Step fx lf exec ruleSer pathSer r ps req force s s') :
    (∃ p ph, p ∈ ps ∧ s'.pc = s.pc ∧ s'.phase = upd s.phase p ph ∧ ph.rank < (s.phase p).rank) ∨
    (∃ p t c, p ∈ ps ∧ t ∈ r.targets ∧ s'.phase = s.phase ∧ s'.pc = upd2 s.pc p t.key c ∧ c.rank < (s.pc p t.key).rank) := by
  have act : ∀ p t, t ∈ r.targets → (s.pc p t.key).inCS = true → p ∈ ps := by
    intro p t ht h
    exact (hi.active p t ht (fun e => by rw [e] at h; simp [PC.inCS] at h)).2.1
  cases hs with
  | enter p hp hw _ => exact Or.inl ⟨p, .inside, hp, rfl, rfl, by rw [hw]; decide⟩
  | leave p hin _ => exact Or.inl ⟨p, .left, hi.phase p (by rw [hin]; simp), rfl, rfl, by rw [hin]; decide⟩
  | acquire p t hp ht _ _ hidle => exact Or.inr ⟨p, t, _, hp, ht, rfl, rfl, by rw [hidle]; simp [PC.rank]⟩
  | checkSkip p t ins ht hpc => exact Or.inr ⟨p, t, _, act p t ht (by rw [hpc]; rfl), ht, rfl, rfl, by rw [hpc]; simp [PC.rank]⟩
  | checkBuild p t ins ht hpc => exact Or.inr ⟨p, t, _, act p t ht (by rw [hpc]; rfl), ht, rfl, rfl, by rw [hpc]; simp [PC.rank]⟩
  | releaseSkip p t ht hpc => exact Or.inr ⟨p, t, _, act p t ht (by rw [hpc]; rfl), ht, rfl, rfl, by rw [hpc]; simp [PC.rank]⟩
  | prepare p t st ht hpc => exact Or.inr ⟨p, t, _, act p t ht (by rw [hpc]; rfl), ht, rfl, rfl, by rw [hpc]; simp [PC.rank]⟩
  | exec p t st ins ht hpc => exact Or.inr ⟨p, t, _, act p t ht (by rw [hpc]; rfl), ht, rfl, rfl, by rw [hpc]; simp [PC.rank]⟩
  | store p t st ht hpc => exact Or.inr ⟨p, t, _, act p t ht (by rw [hpc]; rfl), ht, rfl, rfl, by rw [hpc]; simp [PC.rank]⟩
  | moveKeep p t st c c' ht hpc => exact Or.inr ⟨p, t, _, act p t ht (by rw [hpc]; rfl), ht, rfl, rfl, by rw [hpc]; simp [PC.rank]⟩
  | moveRemove p t st c c' ht hpc => exact Or.inr ⟨p, t, _, act p t ht (by rw [hpc]; rfl), ht, rfl, rfl, by rw [hpc]; simp [PC.rank]⟩
  | moveNew p t st c' ht hpc => exact Or.inr ⟨p, t, _, act p t ht (by rw [hpc]; rfl), ht, rfl, rfl, by rw [hpc]; simp [PC.rank]⟩
  | rename p t st c' ht hpc => exact Or.inr ⟨p, t, _, act p t ht (by rw [hpc]; rfl), ht, rfl, rfl, by rw [hpc]; simp [PC.rank]⟩
  | stamp p t st c ht hpc => exact Or.inr ⟨p, t, _, act p t ht (by rw [hpc]; rfl), ht, rfl, rfl, by rw [hpc]; simp [PC.rank]⟩
  | release p t ht hpc => exact Or.inr ⟨p, t, _, act p t ht (by rw [hpc]; rfl), ht, rfl, rfl, by rw [hpc]; simp [PC.rank]⟩
  | fail p t ht hf =>
    have hcs : (s.pc p t.key).inCS = true := by
      rcases hf with h | ⟨_, h, _⟩ | ⟨_, h, _⟩ | ⟨_, h, _⟩ | ⟨_, h, _⟩
      · rw [h.1]; rfl
      all_goals rw [h]; rfl
    refine Or.inr ⟨p, t, _, act p t ht hcs, ht, rfl, rfl, ?_⟩
    cases hpc : s.pc p t.key <;> rw [hpc] at hcs <;> simp [PC.inCS, PC.rank] at hcs ⊢

/-- Every step strictly decreases the measure. -/
theorem step_measure {s s' : State P K C S N H} (hi : Inv lf exec ruleSer pathSer r ps req s)
    (hs : Step fx lf exec ruleSer pathSer r ps req force s s') : measure r ps s' < measure r ps s := by
  rcases step_shape hi hs with ⟨p, ph, hp, hpc, hph, hlt⟩ | ⟨p, t, c, hp, ht, hph, hpc, hlt⟩
  · apply sum_map_lt (a := p) _ hp
    · simp only [procMeasure, hpc, hph, upd_same]; omega
    · intro q _
      simp only [procMeasure, hpc, hph]
      by_cases e : q = p
      · subst e; simp only [upd_same]; omega
      · rw [upd_ne _ _ e]; exact Nat.le_refl _
  · have hle : ∀ q, ∀ t' ∈ r.targets, (upd2 s.pc p t.key c q t'.key).rank ≤ (s.pc q t'.key).rank := by
      intro q t' _
      by_cases e : q = p ∧ t'.key = t.key
      · obtain ⟨e1, e2⟩ := e; subst e1; rw [e2]; simp only [upd2_same]; omega
      · rw [upd2_ne _ _ e]; exact Nat.le_refl _
    apply sum_map_lt (a := p) _ hp
    · simp only [procMeasure, hpc, hph]
      have : (r.targets.map fun t' => (upd2 s.pc p t.key c p t'.key).rank).sum <
          (r.targets.map fun t' => (s.pc p t'.key).rank).sum :=
        sum_map_lt (fun t' ht' => hle p t' ht') ht (by simp only [upd2_same]; exact hlt)
      omega
    · intro q _
      simp only [procMeasure, hpc, hph]
      have := sum_map_le (l := r.targets) (f := fun t' => (s.pc q t'.key).rank)
        (g := fun t' => (upd2 s.pc p t.key c q t'.key).rank) (fun t' ht' => hle q t' ht')
      omega

end

section
variable (fx : Facts) (lf : LFacts) (exec : A → List (N × C) → C) (ruleSer : A → S) (pathSer : C → H)
variable (r : Repo K A F N C) (ps : List P) (req : P → K → Bool) (force : P → K → Bool)

/-- Reachable in exactly `n` steps. -/
inductive ReachN (s0 : State P K C S N H) : Nat → State P K C S N H → Prop where
  | init : ReachN s0 0 s0
  | step {n s s'} : ReachN s0 n s → Step fx lf exec ruleSer pathSer r ps req force s s' → ReachN s0 (n + 1) s'

variable {fx lf exec ruleSer pathSer r ps req force}

theorem ReachN.reach {s0 s : State P K C S N H} {n : Nat}
    (h : ReachN fx lf exec ruleSer pathSer r ps req force s0 n s) : Reach fx lf exec ruleSer pathSer r ps req force s0 s := by
  induction h with
  | init => exact .init
  | step _ hs ih => exact .step ih hs

theorem measure_init {s0 : State P K C S N H} (h0 : Init s0) :
    measure r ps s0 = ps.length * (2 + 11 * r.targets.length) := by
  have hp : ∀ p, procMeasure r s0 p = 2 + 11 * r.targets.length := by
    intro p
    simp only [procMeasure, h0.phase p, h0.pc, Phase.rank, PC.rank]
    congr 1
    generalize r.targets = ts
    induction ts with
    | nil => rfl
    | cons t ts ih => simp only [List.map_cons, List.sum_cons, List.length_cons, ih]; omega
  unfold measure
  generalize ps = l
  induction l with
  | nil => simp
  | cons a l ih => simp only [List.map_cons, List.sum_cons, List.length_cons, hp a, ih, Nat.succ_mul]; omega

/-- Every execution is finite, with an explicit bound on its length. -/
theorem reachN_bound (hy : Hyp fx lf ruleSer pathSer r req) {s0 s : State P K C S N H} {n : Nat} (h0 : Init s0)
    (hh : Hist exec ruleSer pathSer s0.gen s0.stamp)
    (h : ReachN fx lf exec ruleSer pathSer r ps req force s0 n s) :
    n + measure r ps s ≤ ps.length * (2 + 11 * r.targets.length) := by
  induction h with
  | init => rw [measure_init h0]; omega
  | step hr hs ih =>
    have := step_measure (reach_inv hy h0 hh hr.reach) hs
    omega

end
section
variable {fx : Facts} {lf : LFacts} {exec : A → List (N × C) → C} {ruleSer : A → S} {pathSer : C → H}
variable {r : Repo K A F N C} {ps : List P} {req : P → K → Bool} {force : P → K → Bool}

/-- `finished` is absorbing: no step ever takes a worker out of it. -/
theorem step_fin_mono {s s' : State P K C S N H} (hs : Step fx lf exec ruleSer pathSer r ps req force s s')
    {p : P} {k : K} (hf : s.pc p k = .finished) : s'.pc p k = .finished := by
  have key : ∀ (q : P) (k' : K) (c : PC S N H), s.pc q k' ≠ .finished → upd2 s.pc q k' c p k = .finished := by
    intro q k' c hne
    by_cases e : p = q ∧ k = k'
    · obtain ⟨e1, e2⟩ := e; subst e1; subst e2; exact absurd hf hne
    · rw [upd2_ne _ _ e]; exact hf
  cases hs with
  | enter => exact hf
  | leave => exact hf
  | acquire q t _ _ _ _ hidle => exact key q t.key _ (by rw [hidle]; simp)
  | checkSkip q t ins _ hpc => exact key q t.key _ (by rw [hpc]; simp)
  | checkBuild q t ins _ hpc => exact key q t.key _ (by rw [hpc]; simp)
  | releaseSkip q t _ hpc => exact key q t.key _ (by rw [hpc]; simp)
  | prepare q t st _ hpc => exact key q t.key _ (by rw [hpc]; simp)
  | exec q t st ins _ hpc => exact key q t.key _ (by rw [hpc]; simp)
  | store q t st _ hpc => exact key q t.key _ (by rw [hpc]; simp)
  | moveKeep q t st c c' _ hpc => exact key q t.key _ (by rw [hpc]; simp)
  | moveRemove q t st c c' _ hpc => exact key q t.key _ (by rw [hpc]; simp)
  | moveNew q t st c' _ hpc => exact key q t.key _ (by rw [hpc]; simp)
  | rename q t st c' _ hpc => exact key q t.key _ (by rw [hpc]; simp)
  | stamp q t st c _ hpc => exact key q t.key _ (by rw [hpc]; simp)
  | release q t _ hpc => exact key q t.key _ (by rw [hpc]; simp)
  | fail q t _ hfc =>
    apply key q t.key
    rcases hfc with h | ⟨_, h, _⟩ | ⟨_, h, _⟩ | ⟨_, h, _⟩ | ⟨_, h, _⟩
    · rw [h.1]; simp
    all_goals rw [h]; simp

/-- A process that has exited has finished everything it was asked for. -/
def LeftInv (r : Repo K A F N C) (req : P → K → Bool) (s : State P K C S N H) : Prop :=
  ∀ p, s.phase p = .left → ∀ t ∈ r.targets, req p t.key = true → s.pc p t.key = .finished

theorem step_left {s s' : State P K C S N H} (hl : LeftInv r req s)
    (hs : Step fx lf exec ruleSer pathSer r ps req force s s') : LeftInv r req s' := by
  intro p hp t ht hr
  have hphase : s.phase p = .left ∨ (s.phase p = .inside ∧ ∀ t ∈ r.targets, req p t.key = true → s.pc p t.key = .finished) := by
    cases hs with
    | enter q _ hw =>
      have hp' : upd s.phase q .inside p = .left := hp
      by_cases e : p = q
      · subst e; simp at hp'
      · rw [upd_ne _ _ e] at hp'; exact Or.inl hp'
    | leave q hin hall =>
      have hp' : upd s.phase q .left p = .left := hp
      by_cases e : p = q
      · subst e; exact Or.inr ⟨hin, hall⟩
      · rw [upd_ne _ _ e] at hp'; exact Or.inl hp'
    | _ => exact Or.inl hp
  rcases hphase with h | ⟨_, h⟩
  · exact step_fin_mono hs (hl p h t ht hr)
  · exact step_fin_mono hs (h t ht hr)

theorem reach_left {s0 s : State P K C S N H} (h0 : Init s0)
    (hr : Reach fx lf exec ruleSer pathSer r ps req force s0 s) : LeftInv r req s := by
  induction hr with
  | init => intro p hp; rw [h0.phase p] at hp; exact absurd hp (by simp)
  | step _ hs ih => exact step_left ih hs

end
end PlzVerif.Lock
