import PlzVerif.Model.RuleHash
/-!
Sorting a Go map's keys makes the iteration order irrelevant (C07, C10; also usable by C28/C39/C14).

`isort lt` over a strict order `lt` that is trichotomous on the members of the list returns the same list
for every permutation of its input (`isort_eq_of_perm`).  Instances: `bytesLt` (Go's string `<`),
key order on association lists with distinct keys (`keysOrder_perm`), `Label.lt` (`BuildLabel.Less`).
-/
namespace PlzVerif.RuleHash

structure StrictOrd {α : Type} (lt : α → α → Bool) : Prop where
  asymm : ∀ a b, lt a b = true → lt b a = false
  trans : ∀ a b c, lt a b = true → lt b c = true → lt a c = true

theorem insertBy_perm {α : Type} (lt : α → α → Bool) (x : α) : ∀ l, (insertBy lt x l).Perm (x :: l)
  | [] => by simp [insertBy]
  | y :: r => by
    simp only [insertBy]
    split
    · exact List.Perm.refl _
    · exact ((insertBy_perm lt x r).cons y).trans (List.Perm.swap x y r)

theorem isort_perm {α : Type} (lt : α → α → Bool) : ∀ l, (isort lt l).Perm l
  | [] => by simp [isort]
  | x :: r => by
    have ih := isort_perm lt r
    simp only [isort, List.foldr_cons] at ih ⊢
    exact (insertBy_perm lt x _).trans (ih.cons x)

theorem insertBy_sorted {α : Type} {lt : α → α → Bool} (h : StrictOrd lt) (x : α) :
    ∀ l, List.Pairwise (fun a b => lt b a = false) l → List.Pairwise (fun a b => lt b a = false) (insertBy lt x l)
  | [], _ => by simp [insertBy]
  | y :: r, hs => by
    simp only [insertBy]
    rw [List.pairwise_cons] at hs
    split
    · rename_i hxy
      refine List.Pairwise.cons ?_ (List.Pairwise.cons hs.1 hs.2)
      intro z hz
      rcases List.mem_cons.1 hz with rfl | hz
      · exact h.asymm _ _ hxy
      · -- x < y, y ≤ z ⇒ ¬ z < x
        cases hzx : lt z x
        · rfl
        · have := h.trans _ _ _ hzx hxy
          rw [hs.1 z hz] at this; cases this
    · rename_i hxy
      refine List.Pairwise.cons ?_ (insertBy_sorted h x r hs.2)
      intro z hz
      rcases List.mem_cons.1 ((insertBy_perm lt x r).subset hz) with rfl | hz
      · simpa using hxy
      · exact hs.1 z hz

theorem isort_sorted {α : Type} {lt : α → α → Bool} (h : StrictOrd lt) :
    ∀ l, List.Pairwise (fun a b => lt b a = false) (isort lt l)
  | [] => by simp [isort]
  | x :: r => by
    have ih := isort_sorted h r
    simp only [isort, List.foldr_cons] at ih ⊢
    exact insertBy_sorted h x _ ih

/-- Sorting forgets the input order: permutations of a list whose members are pairwise comparable sort alike. -/
theorem isort_eq_of_perm {α : Type} {lt : α → α → Bool} (h : StrictOrd lt) {l l' : List α}
    (tri : ∀ a ∈ l, ∀ b ∈ l, a ≠ b → lt a b = true ∨ lt b a = true) (p : l.Perm l') :
    isort lt l = isort lt l' := by
  refine List.Perm.eq_of_pairwise ?_ (isort_sorted h l) (isort_sorted h l')
    ((isort_perm lt l).trans (p.trans (isort_perm lt l').symm))
  intro a b ha hb hab hba
  have ha' : a ∈ l := (isort_perm lt l).subset ha
  have hb' : b ∈ l := p.symm.subset ((isort_perm lt l').subset hb)
  by_cases e : a = b
  · exact e
  · rcases tri a ha' b hb' e with h1 | h1
    · rw [h1] at hba; cases hba
    · rw [h1] at hab; cases hab

/-! ### `bytesLt` is a strict total order -/

theorem u8_lt_asymm (a b : UInt8) : a < b → ¬ b < a := by
  intro h1 h2; exact absurd (UInt8.lt_trans h1 h2) (UInt8.lt_irrefl a)

theorem bytesLt_irrefl : ∀ a, bytesLt a a = false
  | [] => rfl
  | x :: r => by simp [bytesLt, bytesLt_irrefl r, UInt8.lt_irrefl]

theorem bytesLt_asymm : ∀ a b, bytesLt a b = true → bytesLt b a = false
  | [], [], h => by simp [bytesLt] at h
  | [], _ :: _, _ => by simp [bytesLt]
  | _ :: _, [], h => by simp [bytesLt] at h
  | x :: r, y :: s, h => by
    simp only [bytesLt, Bool.or_eq_true, decide_eq_true_eq, Bool.and_eq_true, beq_iff_eq] at h
    simp only [bytesLt, Bool.or_eq_false_iff, decide_eq_false_iff_not, Bool.and_eq_false_imp, beq_iff_eq]
    rcases h with h | ⟨rfl, h⟩
    · refine ⟨u8_lt_asymm _ _ h, ?_⟩
      intro e; subst e; exact absurd h (UInt8.lt_irrefl _)
    · exact ⟨UInt8.lt_irrefl _, fun _ => bytesLt_asymm r s h⟩

theorem bytesLt_trans : ∀ a b c, bytesLt a b = true → bytesLt b c = true → bytesLt a c = true
  | [], _, [], _, h2 => by cases ‹List UInt8› <;> simp [bytesLt] at h2
  | [], _, _ :: _, _, _ => by simp [bytesLt]
  | _ :: _, [], _, h1, _ => by simp [bytesLt] at h1
  | _ :: _, _ :: _, [], _, h2 => by simp [bytesLt] at h2
  | x :: r, y :: s, z :: t, h1, h2 => by
    simp only [bytesLt, Bool.or_eq_true, decide_eq_true_eq, Bool.and_eq_true, beq_iff_eq] at h1 h2 ⊢
    rcases h1 with h1 | ⟨rfl, h1⟩
    · rcases h2 with h2 | ⟨rfl, _⟩
      · exact Or.inl (UInt8.lt_trans h1 h2)
      · exact Or.inl h1
    · rcases h2 with h2 | ⟨rfl, h2⟩
      · exact Or.inl h2
      · exact Or.inr ⟨rfl, bytesLt_trans r s t h1 h2⟩

theorem bytesLt_tri : ∀ a b, a ≠ b → bytesLt a b = true ∨ bytesLt b a = true
  | [], [], h => absurd rfl h
  | [], _ :: _, _ => by simp [bytesLt]
  | _ :: _, [], _ => by simp [bytesLt]
  | x :: r, y :: s, h => by
    simp only [bytesLt, Bool.or_eq_true, decide_eq_true_eq, Bool.and_eq_true, beq_iff_eq]
    by_cases e : x = y
    · subst e
      have : r ≠ s := fun e => h (by rw [e])
      rcases bytesLt_tri r s this with h1 | h1
      · exact Or.inl (Or.inr ⟨rfl, h1⟩)
      · exact Or.inr (Or.inr ⟨rfl, h1⟩)
    · rcases Nat.lt_trichotomy x.toNat y.toNat with h1 | h1 | h1
      · exact Or.inl (Or.inl (UInt8.lt_iff_toNat_lt.2 h1))
      · exact absurd (UInt8.toNat_inj.1 h1) e
      · exact Or.inr (Or.inl (UInt8.lt_iff_toNat_lt.2 h1))

theorem bytesLt_strict : StrictOrd bytesLt := ⟨bytesLt_asymm, bytesLt_trans⟩

/-- Key order on association-list entries. -/
theorem keyLt_strict {β : Type} : StrictOrd (fun (a b : Bytes × β) => bytesLt a.1 b.1) :=
  ⟨fun a b => bytesLt_asymm a.1 b.1, fun a b c => bytesLt_trans a.1 b.1 c.1⟩

/-- Distinct keys: the Go map invariant. -/
def KeysNodup {β : Type} (m : List (Bytes × β)) : Prop := (m.map (·.1)).Nodup

instance {β : Type} (m : List (Bytes × β)) : Decidable (KeysNodup m) := by unfold KeysNodup; infer_instance

theorem keys_tri {β : Type} {m : List (Bytes × β)} (hn : KeysNodup m) :
    ∀ a ∈ m, ∀ b ∈ m, a ≠ b → bytesLt a.1 b.1 = true ∨ bytesLt b.1 a.1 = true := by
  intro a ha b hb hab
  apply bytesLt_tri
  intro e
  apply hab
  -- equal keys in a list with distinct keys: same entry
  induction m with
  | nil => cases ha
  | cons x r ih =>
    simp only [KeysNodup, List.map_cons, List.nodup_cons] at hn
    rcases List.mem_cons.1 ha with rfl | ha' <;> rcases List.mem_cons.1 hb with rfl | hb'
    · rfl
    · exact absurd (e ▸ List.mem_map_of_mem (f := (·.1)) hb') hn.1
    · exact absurd (e ▸ List.mem_map_of_mem (f := (·.1)) ha') hn.1
    · exact ih hn.2 ha' hb'

/-- A sorted key iteration does not depend on the map's internal order. -/
theorem keysOrder_perm {β : Type} {m m' : List (Bytes × β)} (hn : KeysNodup m) (p : m.Perm m') :
    keysOrder true m = keysOrder true m' := by
  simp only [keysOrder, if_true]
  exact isort_eq_of_perm keyLt_strict (keys_tri hn) p

theorem KeysNodup.perm {β : Type} {m m' : List (Bytes × β)} (hn : KeysNodup m) (p : m.Perm m') : KeysNodup m' :=
  (List.Perm.nodup_iff (p.map (fun x : Bytes × β => x.1))).1 hn

theorem lookup_perm {β : Type} (k : Bytes) {m m' : List (Bytes × β)} (hn : KeysNodup m) (p : m.Perm m') :
    lookup k m = lookup k m' := by
  induction p with
  | nil => rfl
  | cons x _ ih =>
    obtain ⟨k', v⟩ := x
    simp only [KeysNodup, List.map_cons, List.nodup_cons] at hn
    simp only [lookup]; split
    · rfl
    · exact ih hn.2
  | swap x y l =>
    obtain ⟨kx, vx⟩ := x; obtain ⟨ky, vy⟩ := y
    simp only [KeysNodup, List.map_cons, List.nodup_cons, List.mem_cons, not_or] at hn
    simp only [lookup]
    by_cases h1 : k = ky <;> by_cases h2 : k = kx <;> simp [h1, h2]
    · exact absurd (h1.symm.trans h2) hn.1.1
    · intro e; exact absurd e hn.1.1
    · intro e; exact absurd e.symm hn.1.1
  | trans p1 _ ih1 ih2 => exact (ih1 hn).trans (ih2 (hn.perm p1))

/-! ### `Label.lt` (`BuildLabel.Less`) is a strict total order -/

theorem labelLt_asymm (a b : Label) (h : a.lt b = true) : b.lt a = false := by
  unfold Label.lt at h ⊢
  by_cases h1 : a.subrepo = b.subrepo
  · by_cases h2 : a.pkg = b.pkg
    · simp only [h1, h2, ne_eq, not_true_eq_false, if_false] at h ⊢
      exact bytesLt_asymm _ _ h
    · have h2' : ¬ b.pkg = a.pkg := fun e => h2 e.symm
      simp only [h1, h2, h2', ne_eq, not_true_eq_false, not_false_eq_true, if_false, if_true] at h ⊢
      exact bytesLt_asymm _ _ h
  · have h1' : ¬ b.subrepo = a.subrepo := fun e => h1 e.symm
    simp only [h1, h1', ne_eq, not_false_eq_true, if_true] at h ⊢
    exact bytesLt_asymm _ _ h

theorem labelLt_tri (a b : Label) (hne : a ≠ b) : a.lt b = true ∨ b.lt a = true := by
  unfold Label.lt
  by_cases h1 : a.subrepo = b.subrepo
  · by_cases h2 : a.pkg = b.pkg
    · have h3 : a.name ≠ b.name := by
        intro e; apply hne; cases a; cases b; simp_all
      simp only [h1, h2, ne_eq, not_true_eq_false, if_false]
      exact bytesLt_tri _ _ h3
    · have h2' : ¬ b.pkg = a.pkg := fun e => h2 e.symm
      simp only [h1, h2, h2', ne_eq, not_true_eq_false, not_false_eq_true, if_false, if_true]
      exact bytesLt_tri _ _ h2
  · have h1' : ¬ b.subrepo = a.subrepo := fun e => h1 e.symm
    simp only [h1, h1', ne_eq, not_false_eq_true, if_true]
    exact bytesLt_tri _ _ h1

theorem labelLt_trans (a b c : Label) (h1 : a.lt b = true) (h2 : b.lt c = true) : a.lt c = true := by
  unfold Label.lt at h1 h2 ⊢
  by_cases e1 : a.subrepo = b.subrepo <;> by_cases e2 : b.subrepo = c.subrepo
  · have e3 : a.subrepo = c.subrepo := e1.trans e2
    by_cases f1 : a.pkg = b.pkg <;> by_cases f2 : b.pkg = c.pkg
    · have f3 : a.pkg = c.pkg := f1.trans f2
      simp only [e1, e2, f1, f2, ne_eq, not_true_eq_false, if_false] at h1 h2 ⊢
      rw [← e2, ← f2] at *
      first | exact bytesLt_trans _ _ _ h1 h2 | (simp_all; exact bytesLt_trans _ _ _ h1 h2)
    · have f3 : ¬ a.pkg = c.pkg := fun e => f2 (f1 ▸ e)
      simp_all
    · have f3 : ¬ a.pkg = c.pkg := fun e => f1 (e.trans f2.symm)
      simp_all
    · simp only [e1, e2, f1, f2, ne_eq, not_true_eq_false, not_false_eq_true, if_false, if_true] at h1 h2 ⊢
      have h3 := bytesLt_trans _ _ _ h1 h2
      have f3 : ¬ a.pkg = c.pkg := by
        intro e; rw [e, bytesLt_irrefl] at h3; cases h3
      simp [f3, h3]
  · have e3 : ¬ a.subrepo = c.subrepo := fun e => e2 (e1 ▸ e)
    simp_all
  · have e3 : ¬ a.subrepo = c.subrepo := fun e => e1 (e.trans e2.symm)
    simp_all
  · simp only [e1, e2, ne_eq, not_false_eq_true, if_true] at h1 h2 ⊢
    have h3 := bytesLt_trans _ _ _ h1 h2
    have e3 : ¬ a.subrepo = c.subrepo := by
      intro e; rw [e, bytesLt_irrefl] at h3; cases h3
    simp [e3, h3]

theorem labelLt_strict : StrictOrd Label.lt := ⟨labelLt_asymm, labelLt_trans⟩

/-- `DeclaredDependencies` returns the same list whatever order the dependencies were added in. -/
theorem isort_labels_perm {l l' : List Label} (p : l.Perm l') : isort Label.lt l = isort Label.lt l' :=
  isort_eq_of_perm labelLt_strict (fun a _ b _ h => labelLt_tri a b h) p

end PlzVerif.RuleHash
