import PlzVerif.Lemmas.Query
import PlzVerif.Lemmas.Cycle
/-!
Lemmas for C23 (part 2): `findRevdeps` — everything reported is within the limit.
Core Lean only.
-/
namespace PlzVerif.Query

/-- label well-formedness: a label that is not hidden (no leading `_`) has no parent -/
def LabelsWF (G : Graph) : Prop := ∀ t, G.hid t = false → G.pl t = t

theorem mem_rev {G : Graph} {p t : Nat} (h : t ∈ rev G p) : Edge G t p ∧ t ∈ G.nodes := by
  unfold rev at h
  simp only [List.mem_flatMap, List.mem_filterMap] at h
  obtain ⟨t', ht', d, hd, hite⟩ := h
  split at hite
  · rename_i hdp
    simp only [Option.some.injEq] at hite
    subst hite
    simp only [beq_iff_eq] at hdp
    subst hdp
    exact ⟨hd, ht'⟩
  · simp at hite

theorem parentT_eq {G : Graph} {t x : Nat} (h : parentT G t = some x) : x = G.pl t := by
  unfold parentT at h
  split at h
  · simp at h; exact h.symm
  · simp at h

theorem isSameTarget_sameRule {G : Graph} {a b : Nat} (h : isSameTarget G a b = true) : sameRule G a b = true := by
  unfold isSameTarget at h
  unfold sameRule
  simp only [Bool.or_eq_true, beq_iff_eq] at h ⊢
  rcases h with rfl | h
  · rfl
  · exact h

theorem costS_symm (G : Graph) (hidden : Bool) (a b : Nat) : costS G hidden a b = costS G hidden b a := by
  unfold costS sameRule
  rw [BEq.comm (a := G.pl a)]

/-- the depth `findRevdeps` assigns is at least the specification's cost of the edge -/
theorem nextDepth_ge {G : Graph} (hidden : Bool) (next d t : Nat) :
    d + costS G hidden t next ≤ nextDepth G hidden next d t ∧ nextDepth G hidden next d t ≤ d + 1 := by
  unfold nextDepth
  split
  · refine ⟨?_, Nat.le_refl _⟩
    unfold costS; split <;> omega
  · rename_i h
    refine ⟨?_, Nat.le_succ _⟩
    have hh : hidden = false := by cases hidden <;> simp_all
    have hs : isSameTarget G next t = true := by cases hst : isSameTarget G next t <;> simp_all
    have := isSameTarget_sameRule hs
    rw [costS_symm]
    unfold costS
    simp [hh, this]

/-- a queried target or one of the hidden sub-targets pushed with it -/
def IsSource (G : Graph) (hidden : Bool) (roots : List Nat) (x : Nat) : Prop :=
  x ∈ roots ∨ (hidden = false ∧ ∃ r ∈ roots, G.hid r = false ∧ parentT G x = some r)

/-- `u` is a source, or depends on a source within `d` steps -/
def DepNear (G : Graph) (hidden : Bool) (roots : List Nat) (u d : Nat) : Prop :=
  IsSource G hidden roots u ∨ ∃ src, IsSource G hidden roots src ∧ ∃ k, k ≤ d ∧ WPath G (costS G hidden) u src k

/-- a reported target is justified: it is reported for a target `t` (itself, or a hidden sub-target of it) that
depends on a source within the limit -/
def GoodRet (G : Graph) (lim : Limit) (hidden : Bool) (roots : List Nat) (x : Nat) : Prop :=
  ∃ t, report G hidden t = some x ∧ ∃ src, IsSource G hidden roots src ∧
    ∃ k, (∀ N, lim = some N → k ≤ N) ∧ WPath G (costS G hidden) t src k

def RInv (G : Graph) (lim : Limit) (hidden : Bool) (roots : List Nat) (s : RSt) : Prop :=
  (∀ e ∈ s.queue, DepNear G hidden roots e.1 e.2) ∧ (∀ x ∈ s.ret, GoodRet G lim hidden roots x)

theorem push_inv {G : Graph} {lim : Limit} {hidden : Bool} {roots : List Nat} {s : RSt} {t d : Nat}
    (hs : RInv G lim hidden roots s) (ht : DepNear G hidden roots t d) : RInv G lim hidden roots (push s t d) := by
  unfold push
  split
  · exact hs
  · refine ⟨?_, hs.2⟩
    intro e he
    simp only [List.mem_append, List.mem_singleton] at he
    rcases he with he | he
    · exact hs.1 e he
    · subst he; exact ht

theorem revStep_inv {G : Graph} {lim : Limit} {hidden : Bool} {roots : List Nat} {next d : Nat}
    (hn : DepNear G hidden roots next d) :
    ∀ (ts : List Nat) (s : RSt), (∀ t ∈ ts, Edge G t next) → RInv G lim hidden roots s →
      RInv G lim hidden roots (revStep Cfg.std G lim hidden next d ts s) := by
  intro ts
  induction ts with
  | nil => intro s _ hs; simpa [revStep] using hs
  | cons t ts ih =>
    intro s hts hs
    simp only [revStep]
    apply ih _ (fun t' h => hts t' (List.mem_cons_of_mem _ h))
    split
    · rename_i hwi
      obtain ⟨hge, hle⟩ := nextDepth_ge hidden next d t
      have he : Edge G t next := hts t (List.mem_cons_self ..)
      -- the path from t to a source, of cost at most the assigned depth
      have hp : ∃ src, IsSource G hidden roots src ∧ ∃ k, k ≤ nextDepth G hidden next d t ∧
          WPath G (costS G hidden) t src k := by
        rcases hn with hsrc | ⟨src, hsrc, k, hk, p⟩
        · exact ⟨next, hsrc, _, Nat.le_trans (Nat.le_add_left _ _) hge, .single he⟩
        · exact ⟨src, hsrc, _, by omega, .cons he p⟩
      have hlim : ∀ N, lim = some N → nextDepth G hidden next d t ≤ N := by
        intro N hN
        subst hN
        simp only [within, Cfg.std, ite_true, decide_eq_true_eq] at hwi
        omega
      apply push_inv
      · split
        · split
          · rename_i x hrep
            refine ⟨hs.1, ?_⟩
            intro y hy
            simp only [List.mem_cons] at hy
            rcases hy with rfl | hy
            · obtain ⟨src, hsrc, k, hk, p⟩ := hp
              exact ⟨t, hrep, src, hsrc, k, fun N hN => Nat.le_trans hk (hlim N hN), p⟩
            · exact hs.2 y hy
          · exact hs
        · exact hs
      · exact Or.inr hp
    · exact hs

theorem revLoop_inv {G : Graph} {lim : Limit} {hidden : Bool} {roots : List Nat} :
    ∀ (fuel : Nat) (s : RSt), RInv G lim hidden roots s →
      ∀ x ∈ (revLoop Cfg.std G lim hidden fuel s).ret, GoodRet G lim hidden roots x := by
  intro fuel
  induction fuel with
  | zero =>
    intro s hs
    simp only [revLoop]
    split <;> exact hs.2
  | succ fuel ih =>
    intro s hs
    simp only [revLoop]
    split
    · exact hs.2
    · rename_i next d q hq
      apply ih
      apply revStep_inv (hs.1 (next, d) (by rw [hq]; exact List.mem_cons_self ..)) _ _
        (fun t ht => (mem_rev ht).1)
      exact ⟨fun e he => hs.1 e (by rw [hq]; exact List.mem_cons_of_mem _ he), hs.2⟩

theorem mem_children {G : Graph} {r c : Nat} (h : c ∈ children G r) : parentT G c = some r := by
  unfold children at h
  simp only [List.mem_filter, beq_iff_eq] at h
  exact h.2

theorem revInit_inv (G : Graph) (lim : Limit) (hidden : Bool) (roots : List Nat) :
    RInv G lim hidden roots (revInit G hidden roots) := by
  unfold revInit
  suffices h : ∀ (rs : List Nat) (s : RSt), (∀ r ∈ rs, r ∈ roots) → RInv G lim hidden roots s →
      RInv G lim hidden roots (rs.foldl (fun s r =>
        let s := push s r 0
        if !hidden && !G.hid r then (children G r).foldl (fun s c => push s c 0) s else s) s) from
    h roots _ (fun _ h => h) ⟨by simp, by simp⟩
  intro rs
  induction rs with
  | nil => intro s _ hs; exact hs
  | cons r rs ih =>
    intro s hrs hs
    simp only [List.foldl_cons]
    apply ih _ (fun r' h => hrs r' (List.mem_cons_of_mem _ h))
    have hr : r ∈ roots := hrs r (List.mem_cons_self ..)
    have h1 : RInv G lim hidden roots (push s r 0) := push_inv hs (Or.inl (Or.inl hr))
    split
    · rename_i hc
      simp only [Bool.and_eq_true, Bool.not_eq_true'] at hc
      suffices h2 : ∀ (cs : List Nat) (s : RSt), (∀ c ∈ cs, parentT G c = some r) → RInv G lim hidden roots s →
          RInv G lim hidden roots (cs.foldl (fun s c => push s c 0) s) from
        h2 _ _ (fun c hc' => mem_children hc') h1
      intro cs
      induction cs with
      | nil => intro s _ hs; exact hs
      | cons c cs ihc =>
        intro s hcs hs
        simp only [List.foldl_cons]
        apply ihc _ (fun c' h => hcs c' (List.mem_cons_of_mem _ h))
        exact push_inv hs (Or.inl (Or.inr ⟨hc.1, r, hr, hc.2, hcs c (List.mem_cons_self ..)⟩))
    · exact h1

/-- `FindRevdeps` reports only targets that stand for a target depending on a source within the limit -/
theorem findRevdeps_sound {G : Graph} (lim : Limit) (hidden : Bool) (roots : List Nat) :
    ∀ x ∈ (findRevdeps Cfg.std G lim hidden roots).ret, GoodRet G lim hidden roots x :=
  revLoop_inv _ _ (revInit_inv G lim hidden roots)

/-! ### fuel: the loop bound `nodes.length + 1` is never reached -/

/-- every target is queued at most once: `|queue| + n + 1 ≤ fuel + |done|` -/
def RFuel (G : Graph) (fuel : Nat) (s : RSt) : Prop :=
  s.queue.length + G.nodes.length + 1 ≤ fuel + s.done.length ∧ s.done.Nodup ∧ (∀ x ∈ s.done, x ∈ G.nodes) ∧ s.oof = false

theorem push_fuel {G : Graph} {fuel : Nat} {s : RSt} {t d : Nat} (hs : RFuel G fuel s) (ht : t ∈ G.nodes) :
    RFuel G fuel (push s t d) := by
  unfold push
  split
  · exact hs
  · rename_i hnin
    obtain ⟨h1, h2, h3, h4⟩ := hs
    refine ⟨by simp only [List.length_append, List.length_cons, List.length_nil]; omega,
      List.nodup_cons.mpr ⟨hnin, h2⟩, ?_, h4⟩
    intro x hx
    simp only [List.mem_cons] at hx
    rcases hx with rfl | hx
    · exact ht
    · exact h3 x hx

theorem revStep_fuel {G : Graph} (cfg : Cfg) (lim : Limit) (hidden : Bool) (next d fuel : Nat) :
    ∀ (ts : List Nat) (s : RSt), (∀ t ∈ ts, t ∈ G.nodes) → RFuel G fuel s →
      RFuel G fuel (revStep cfg G lim hidden next d ts s) := by
  intro ts
  induction ts with
  | nil => intro s _ hs; simpa [revStep] using hs
  | cons t ts ih =>
    intro s hts hs
    simp only [revStep]
    apply ih _ (fun t' h => hts t' (List.mem_cons_of_mem _ h))
    split
    · apply push_fuel _ (hts t (List.mem_cons_self ..))
      split
      · split
        · exact hs
        · exact hs
      · exact hs
    · exact hs

theorem revLoop_fuel {G : Graph} (cfg : Cfg) (lim : Limit) (hidden : Bool) : ∀ (fuel : Nat) (s : RSt),
    RFuel G fuel s → (revLoop cfg G lim hidden fuel s).oof = false := by
  intro fuel
  induction fuel with
  | zero =>
    intro s ⟨h1, h2, h3, _⟩
    have := PlzVerif.Cycle.nodup_subset_length _ _ h2 h3
    omega
  | succ fuel ih =>
    intro s hs
    simp only [revLoop]
    split
    · exact hs.2.2.2
    · rename_i next d q hq
      apply ih
      apply revStep_fuel cfg lim hidden next d fuel _ _ (fun t ht => (mem_rev ht).2)
      obtain ⟨h1, h2, h3, h4⟩ := hs
      rw [hq] at h1
      simp only [List.length_cons] at h1
      exact ⟨by simp only; omega, h2, h3, h4⟩

theorem mem_children_nodes {G : Graph} {r c : Nat} (h : c ∈ children G r) : c ∈ G.nodes := by
  unfold children at h
  exact (List.mem_filter.mp h).1

/-- on a graph whose queried targets exist the loop bound of the `findRevdeps` model is never reached -/
theorem findRevdeps_fuel (cfg : Cfg) (G : Graph) (lim : Limit) (hidden : Bool) (roots : List Nat)
    (hr : ∀ r ∈ roots, r ∈ G.nodes) : (findRevdeps cfg G lim hidden roots).oof = false := by
  unfold findRevdeps
  apply revLoop_fuel
  -- the initial state: every queued target is done, so |queue| ≤ |done|
  suffices h : ∀ (rs : List Nat) (s : RSt), (∀ r ∈ rs, r ∈ G.nodes) → RFuel G (G.nodes.length + 1) s →
      RFuel G (G.nodes.length + 1) (rs.foldl (fun s r =>
        let s := push s r 0
        if !hidden && !G.hid r then (children G r).foldl (fun s c => push s c 0) s else s) s) by
    exact h roots _ hr ⟨by simp, List.nodup_nil, by simp, rfl⟩
  intro rs
  induction rs with
  | nil => intro s _ hs; exact hs
  | cons r rs ih =>
    intro s hrs hs
    simp only [List.foldl_cons]
    apply ih _ (fun r' h => hrs r' (List.mem_cons_of_mem _ h))
    have h1 := push_fuel (d := 0) hs (hrs r (List.mem_cons_self ..))
    split
    · suffices h2 : ∀ (cs : List Nat) (s : RSt), (∀ c ∈ cs, c ∈ G.nodes) → RFuel G (G.nodes.length + 1) s →
          RFuel G (G.nodes.length + 1) (cs.foldl (fun s c => push s c 0) s) from
        h2 _ _ (fun c hc => mem_children_nodes hc) h1
      intro cs
      induction cs with
      | nil => intro s _ hs; exact hs
      | cons c cs ihc =>
        intro s hcs hs
        simp only [List.foldl_cons]
        exact ihc _ (fun c' h => hcs c' (List.mem_cons_of_mem _ h)) (push_fuel hs (hcs c (List.mem_cons_self ..)))
    · exact h1

end PlzVerif.Query
