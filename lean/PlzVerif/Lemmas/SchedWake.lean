import PlzVerif.Lemmas.SchedLive
/-! C05: the invariants of the liveness mechanisms outside the task counting — the goroutines waiting for a target
(`WaitForBuiltTarget`, woken through `pendingTargets`) and `forwardResults`' set of active targets. -/
namespace PlzVerif.Sched

variable (c : Cfg)

structure InvW (s : St) : Prop where
  /-- a goroutine waits only for a target whose channel is registered and which has been queued -/
  wtReg : ∀ i q d, s.qs i = some q → q.ph = .waitTarget d → s.sw d = true ∧ TS.active.rank ≤ (s.st d).rank
  /-- no lost wake-up: once the target is in a terminal state (built, dependency-failed, failed) the channel the
      goroutine waits on is closed — provided failures are signalled and failed targets are not waited for -/
  wtWoken : c.failWakes = true → c.lateOK = true → ∀ i q d, s.qs i = some q → q.ph = .waitTarget d →
      (s.st d).terminal = true → s.woken d = true
  /-- the active set holds only targets that are being built — provided failure results clear it -/
  activeBuilding : c.failClears = true → ∀ t, s.active t = true → s.st t = .building

macro "invw_close" hi:ident h1:ident : tactic =>
  `(tactic| (constructor <;> first
      | exact ($hi).wtReg | exact ($hi).wtWoken | exact ($hi).activeBuilding
      | (intros; have := ($hi).wtReg; have := ($hi).wtWoken; have := ($hi).activeBuilding
         have := ($h1).qFresh; have := ($h1).waitBuilding; have := ($h1).bqActive; have := ($h1).takenPending; have := ($h1).wBuilding; have := ($h1).wtNotBuilding
         simp only [upd, Queuer.live] at * <;> grind [TS.rank, TS.terminal, TS.isBuilt, TS.isBad])))

theorem invW_init : InvW c St.init := by
  constructor <;> simp [St.init]

theorem spawn_invW {s : St} (h1 : Inv c s) (hi : InvW c s) (t : T) (b f : Bool) (ns : TS)
    (h : (ns = .active ∧ (s.st t = .inactive ∨ s.st t = .semiactive)) ∨ (ns = .semiactive ∧ s.st t = .inactive)) :
    InvW c (spawn c s t b f ns) := by
  have hq := fresh_q c h1
  unfold spawn
  invw_close hi h1

theorem qrt_invW {s : St} (h1 : Inv c s) (hi : InvW c s) (t : T) (f : Bool) : InvW c (qrt c s t f) := by
  unfold qrt
  split
  · exact hi
  · split
    · split
      · rename_i h; exact spawn_invW c h1 hi t true f .active (.inl ⟨rfl, h⟩)
      · exact hi
    · split
      · rename_i h; exact spawn_invW c h1 hi t false f .semiactive (.inr ⟨rfl, h⟩)
      · exact hi

theorem taskDone_invW {s : St} (hi : InvW c s) : InvW c (taskDone s) := by
  unfold taskDone
  constructor
  · exact hi.wtReg
  · exact hi.wtWoken
  · exact hi.activeBuilding

theorem invW_queuer {s s' : St} (h1 : Inv c s) (hi : InvW c s) (i : Nat) (q : Queuer) (hq : s.qs i = some q)
    (h : queuerStep c s i q = some s') : InvW c s' := by
  unfold queuerStep at h
  split at h
  · rename_i d r hph
    cases h
    have h1' := qrt_inv c h1 d q.force
    have hw' := qrt_invW c h1 hi d q.force
    obtain ⟨hq1, _⟩ := qrt_qs_old c h1 d q.force i q hq
    generalize qrt c s d q.force = s1 at h1' hw' hq1
    invw_close hw' h1'
  · rename_i hph; cases h; invw_close hi h1
  · rename_i d r hph
    have hb := h1.waitBuilding i q (d :: r) hq hph
    have hact := h1.bqActive i q hq ⟨hb, by rw [hph]; simp⟩
    split at h
    · split at h <;> (cases h; invw_close hi h1)
    · cases h
  · rename_i hph
    have hb : q.building = true → s.st q.t = .active := fun hb => h1.bqActive i q hq ⟨hb, by rw [hph]; simp⟩
    split at h <;> (cases h; invw_close hi h1)
  · cases h; apply taskDone_invW; invw_close hi h1
  · split at h
    · cases h; invw_close hi h1
    · cases h

theorem step_invW {s s' : St} (h1 : Inv c s) (hi : InvW c s) (h : Step c s s') : InvW c s' := by
  obtain ⟨a, h⟩ := h
  cases a with
  | activate t force =>
    simp only [fire] at h
    split at h
    · cases h; exact qrt_invW c h1 hi t force
    · cases h
  | queuer i =>
    simp only [fire] at h
    split at h
    · rename_i q hq; exact invW_queuer c h1 hi i q hq h
    · cases h
  | queuerAbort i =>
    simp only [fire] at h
    split at h
    · split at h
      · cases h; invw_close hi h1
      · cases h
    · cases h
  | take m =>
    simp only [fire] at h
    split at h
    · cases h; invw_close hi h1
    · cases h
  | drop m =>
    simp only [fire] at h
    split at h
    · split at h
      · cases h; invw_close hi h1
      · cases h
    · cases h
  | workerStart w =>
    simp only [fire] at h
    split at h
    · cases h; invw_close hi h1
    · cases h
  | workerOk w ts cached =>
    simp only [fire] at h
    split at h
    · split at h
      · cases h; invw_close hi h1
      · cases h
    · cases h
  | workerFail w =>
    simp only [fire] at h
    split at h
    · cases h; invw_close hi h1
    · cases h
  | workerDone w =>
    simp only [fire] at h
    split at h
    · cases h; apply taskDone_invW; invw_close hi h1
    · cases h
  | initDone =>
    simp only [fire] at h
    split at h
    · cases h
    · cases h; apply taskDone_invW; invw_close hi h1
  | stop => simp only [fire] at h; cases h; invw_close hi h1
  | subWait t =>
    simp only [fire] at h
    split at h
    · split at h
      · cases h; invw_close hi h1
      · rename_i hnb
        cases h
        have h1' := qrt_inv c h1 t true
        have hw' := qrt_invW c h1 hi t true
        have hq1 := fresh_q c h1'
        have hact := qrt_active' c s t
        have hterm := qrt_nonterminal c s t hnb
        generalize qrt c s t true = s1 at h1' hw' hq1 hact hterm
        invw_close hw' h1'
    · cases h
  | cycleCheck =>
    simp only [fire] at h
    split at h
    · cases h; invw_close hi h1
    · cases h

theorem reach_invW {s : St} (h : Reach c s) : InvW c s := by
  induction h with
  | init => exact invW_init c
  | step hr hs ih => exact step_invW c (reach_inv c hr) ih hs

end PlzVerif.Sched
