import PlzVerif.Model.FmtSimplify
namespace PlzVerif.FmtSimplify

theorem simplify_cons (x : Stmt) (rest : List Stmt) :
    simplify (x :: rest) =
      match x, simplify rest with
      | .sub a, .sub b :: r => .sub (a ++ b) :: r
      | x, r => x :: r := by
  rfl

theorem simplify_ne_nil {s : List Stmt} (h : s ≠ []) : simplify s ≠ [] := by
  cases s with
  | nil => exact absurd rfl h
  | cons x rest =>
    rw [simplify_cons]
    split <;> simp

/-- `mergeAt 0` on `x :: simplify t` is `simplify (x :: t)`. -/
theorem mergeAt_zero_simplify (x : Stmt) (t : List Stmt) (ht : t ≠ []) :
    mergeAt 0 (x :: simplify t) = simplify (x :: t) := by
  rw [simplify_cons]
  have hne := simplify_ne_nil ht
  cases x with
  | other k =>
    cases hs : simplify t with
    | nil => exact absurd hs hne
    | cons y r => simp [mergeAt]
  | sub a =>
    cases hs : simplify t with
    | nil => exact absurd hs hne
    | cons y r =>
      cases y with
      | sub b => simp [mergeAt]
      | other k => simp [mergeAt]

theorem mergeAt_append (pre : List Stmt) (s : List Stmt) :
    mergeAt pre.length (pre ++ s) = pre ++ mergeAt 0 s := by
  induction pre with
  | nil => simp
  | cons x pre ih => simp [mergeAt, ih]

/-- Loop invariant: after the iterations for the indices `≥ pre.length` the list is the untouched prefix
    followed by the simplified suffix. -/
theorem loop_spec (n : Nat) : ∀ (pre t : List Stmt), pre.length = n → t ≠ [] →
    loop n (pre ++ simplify t) = simplify (pre ++ t) := by
  induction n with
  | zero =>
    intro pre t hl _
    have : pre = [] := List.eq_nil_of_length_eq_zero hl
    subst this
    simp [loop]
  | succ n ih =>
    intro pre t hl ht
    have hpre : pre ≠ [] := by intro h; subst h; simp at hl
    have hsplit := List.dropLast_concat_getLast hpre
    have hdl : pre.dropLast.length = n := by simp [List.length_dropLast, hl]
    rw [loop]
    have h1 : mergeAt n (pre ++ simplify t) = pre.dropLast ++ simplify (pre.getLast hpre :: t) := by
      have : pre ++ simplify t = pre.dropLast ++ (pre.getLast hpre :: simplify t) := by
        conv => lhs; rw [← hsplit]
        simp
      rw [this, ← hdl, mergeAt_append, mergeAt_zero_simplify _ _ ht]
    rw [h1]
    have h2 := ih pre.dropLast (pre.getLast hpre :: t) hdl (by simp)
    rw [h2]
    congr 1
    conv => rhs; rw [← hsplit]
    simp

/-- The index loop of fmt.go computes the structural `simplify`. -/
theorem simplifyLoop_eq (s : List Stmt) : simplifyLoop s = simplify s := by
  unfold simplifyLoop
  cases hs : s with
  | nil => simp [loop, simplify]
  | cons x rest =>
    have hne : s ≠ [] := by rw [hs]; simp
    have hsplit := List.dropLast_concat_getLast hne
    have h := loop_spec (s.length - 1) s.dropLast [s.getLast hne] (by simp [List.length_dropLast]) (by simp)
    have h1 : simplify [s.getLast hne] = [s.getLast hne] := by
      rw [simplify_cons]; simp [simplify]
    rw [h1, hsplit] at h
    rw [← hs]
    exact h

theorem exec_simplify {σ : Type} (incl : σ → String → σ) (run : Nat → σ → σ) (s : List Stmt) (st : σ) :
    exec incl run (simplify s) st = exec incl run s st := by
  induction s generalizing st with
  | nil => rfl
  | cons x rest ih =>
    rw [simplify_cons]
    cases x with
    | other k =>
      simp only [exec]
      exact ih _
    | sub a =>
      cases hs : simplify rest with
      | nil =>
        simp only [exec]
        have := ih (a.foldl incl st)
        rw [hs] at this
        exact this
      | cons y r =>
        cases y with
        | other k =>
          simp only [exec]
          have := ih (a.foldl incl st)
          rw [hs] at this
          simpa [exec] using this
        | sub b =>
          simp only [exec, List.foldl_append]
          have := ih (a.foldl incl st)
          rw [hs] at this
          simpa [exec] using this

theorem flatten_simplify (s : List Stmt) : flatten (simplify s) = flatten s := by
  induction s with
  | nil => rfl
  | cons x rest ih =>
    rw [simplify_cons]
    cases x with
    | other k => simp [flatten, ih]
    | sub a =>
      cases hs : simplify rest with
      | nil => rw [hs] at ih; simp [flatten, ← ih]
      | cons y r =>
        rw [hs] at ih
        cases y with
        | other k => simp [flatten, ← ih]
        | sub b => simp [flatten, ← ih, List.map_append, List.append_assoc]

theorem noAdjacent_simplify (s : List Stmt) : NoAdjacent (simplify s) := by
  induction s with
  | nil => simp [simplify, NoAdjacent]
  | cons x rest ih =>
    rw [simplify_cons]
    cases x with
    | other k => simp [NoAdjacent, ih]
    | sub a =>
      cases hs : simplify rest with
      | nil => simp [NoAdjacent]
      | cons y r =>
        rw [hs] at ih
        cases y with
        | other k => simp [NoAdjacent]; exact ih
        | sub b =>
          simp only []
          -- the merged call is followed by whatever followed `sub b`, which is not a sub
          cases r with
          | nil => simp [NoAdjacent]
          | cons z r' =>
            cases z with
            | sub c => simp [NoAdjacent] at ih
            | other k => simp [NoAdjacent] at ih ⊢; exact ih

/-- A list without adjacent mergeable subincludes is a fixed point. -/
theorem simplify_of_noAdjacent (s : List Stmt) (h : NoAdjacent s) : simplify s = s := by
  induction s with
  | nil => rfl
  | cons x rest ih =>
    rw [simplify_cons]
    cases x with
    | other k =>
      have : NoAdjacent rest := by simpa [NoAdjacent] using h
      simp [ih this]
    | sub a =>
      cases rest with
      | nil => simp [simplify]
      | cons y r =>
        cases y with
        | sub b => simp [NoAdjacent] at h
        | other k =>
          have : NoAdjacent (Stmt.other k :: r) := by simpa [NoAdjacent] using h
          rw [ih this]

theorem simplify_idem (s : List Stmt) : simplify (simplify s) = simplify s :=
  simplify_of_noAdjacent _ (noAdjacent_simplify s)

end PlzVerif.FmtSimplify
