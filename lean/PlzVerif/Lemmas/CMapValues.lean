import PlzVerif.Lemmas.CMapWake
/-! C15: what a `Values()` call guarantees independently of how it walks the shards: everything it returns was
stored in the map under some key (nothing invented, no placeholder's zero value). -/
namespace PlzVerif.CMap
set_option linter.unusedSectionVars false

variable {V : Type} [Inhabited V] (c : Cfg V)

theorem AMap.mem_put {m : AMap V} {k : Key} {e : Entry V} {x : Key × Entry V} (h : x ∈ m.put k e) :
    x = (k, e) ∨ x ∈ m := by
  induction m with
  | nil => simp [AMap.put] at h; exact .inl h
  | cons p r ih =>
    obtain ⟨k0, e0⟩ := p
    simp only [AMap.put] at h
    split at h
    · rcases List.mem_cons.mp h with h | h
      · exact .inl h
      · exact .inr (List.mem_cons_of_mem _ h)
    · rcases List.mem_cons.mp h with h | h
      · exact .inr (h ▸ List.mem_cons_self)
      · rcases ih h with h | h
        · exact .inl h
        · exact .inr (List.mem_cons_of_mem _ h)

theorem AMap.mem_vals {m : AMap V} {v : V} (h : v ∈ m.vals) : ∃ k, (k, Entry.val v) ∈ m := by
  unfold AMap.vals at h
  obtain ⟨p, hp, hv⟩ := List.mem_filterMap.mp h
  obtain ⟨k, e⟩ := p
  cases e with
  | val v' => simp at hv; subst hv; exact ⟨k, hp⟩
  | waiting ch => simp at hv

/-- every completed entry of every shard holds a value that was stored under its key -/
def SInv (σ : Shared V) : Prop := ∀ i k v, (k, Entry.val v) ∈ σ.shards i → v ∈ σ.stored k

theorem sinv_init : SInv (Shared.init : Shared V) := by intro i k v h; simp [Shared.init] at h

theorem sinv_store_waiting {σ : Shared V} (h : SInv σ) (k : Key) (ch : Chan) : SInv (σ.store c k (.waiting ch)) := by
  intro i k' v hm
  have hm' : (k', Entry.val v) ∈ upd σ.shards (c.idx k) ((σ.shards (c.idx k)).put k (.waiting ch)) i := hm
  by_cases e : i = c.idx k
  · subst e; rw [upd_same] at hm'
    rcases AMap.mem_put hm' with h1 | h1
    · cases h1
    · exact h _ k' v h1
  · rw [upd_other _ _ _ _ e] at hm'; exact h i k' v hm'

theorem sinv_storeVal {σ : Shared V} (h : SInv σ) (k : Key) (v0 : V) (l : List Chan) :
    SInv { σ.storeVal c k v0 with closed := l } := by
  intro i k' v hm
  have hm' : (k', Entry.val v) ∈ upd σ.shards (c.idx k) ((σ.shards (c.idx k)).put k (.val v0)) i := hm
  show v ∈ upd σ.stored k (v0 :: σ.stored k) k'
  have old : ∀ j, (k', Entry.val v) ∈ σ.shards j → v ∈ upd σ.stored k (v0 :: σ.stored k) k' := by
    intro j hj
    have := h j k' v hj
    by_cases e : k' = k
    · subst e; simp [this]
    · simp [upd_other _ _ _ _ e, this]
  by_cases e : i = c.idx k
  · subst e; rw [upd_same] at hm'
    rcases AMap.mem_put hm' with h1 | h1
    · cases h1; simp
    · exact old _ h1
  · rw [upd_other _ _ _ _ e] at hm'; exact old i hm'

theorem sinv_csSet {σ : Shared V} (h : SInv σ) (k v ow) : SInv (csSet c σ k v ow).1 := by
  unfold csSet
  split
  · split
    · exact sinv_storeVal c h k v σ.closed
    · exact h
  · exact sinv_storeVal c h k v _
  · exact sinv_storeVal c h k v σ.closed

theorem sinv_csLazySet {σ : Shared V} (h : SInv σ) (k v) : SInv (csLazySet c σ k v).1 := by
  unfold csLazySet
  split
  · exact h
  · exact sinv_storeVal c h k v _
  · exact sinv_storeVal c h k v σ.closed

theorem sinv_csGetSlow {σ : Shared V} (h : SInv σ) (k) : SInv (csGetSlow c σ k).1 := by
  unfold csGetSlow
  split
  · exact h
  · intro i k' v hm; exact sinv_store_waiting c h k σ.nextCh i k' v hm

/-- what `Values` has collected so far / is about to return consists of stored values only -/
def VInv (s : Sys V) : Prop :=
  (∀ t i acc, s.pc t = .values i acc → ∀ v ∈ acc, ∃ k, v ∈ s.sh.stored k) ∧
  (∀ t l, s.pc t = .done (.vals l) → ∀ v ∈ l, ∃ k, v ∈ s.sh.stored k)

theorem vinv_frame {s : Sys V} (hv : VInv s) {σ' : Shared V} (hst : ∀ k v, v ∈ s.sh.stored k → v ∈ σ'.stored k)
    (t : Tid) (p : PC V) (cl' fr')
    (h1 : ∀ i acc, p = .values i acc → ∀ v ∈ acc, ∃ k, v ∈ σ'.stored k)
    (h2 : ∀ l, p = .done (.vals l) → ∀ v ∈ l, ∃ k, v ∈ σ'.stored k) :
    VInv (Sys.mk σ' (upd s.pc t p) cl' fr') := by
  constructor
  · intro t' i acc hp v hm
    by_cases e : t' = t
    · subst e; simp only [upd_same] at hp; exact h1 i acc hp v hm
    · simp only [upd_other _ _ _ _ e] at hp
      obtain ⟨k, hk⟩ := hv.1 t' i acc hp v hm; exact ⟨k, hst k v hk⟩
  · intro t' l hp v hm
    by_cases e : t' = t
    · subst e; simp only [upd_same] at hp; exact h2 l hp v hm
    · simp only [upd_other _ _ _ _ e] at hp
      obtain ⟨k, hk⟩ := hv.2 t' l hp v hm; exact ⟨k, hst k v hk⟩

theorem startPC_values {op : Op V} {i acc} (h : startPC op = PC.values i acc) : acc = [] := by
  cases op <;> simp [startPC] at h; exact h.2

theorem startPC_not_vals {op : Op V} {l} (h : startPC op = PC.done (.vals l)) : False := by
  cases op <;> simp [startPC] at h

theorem getRet_not_vals {full : Bool} {v : V} {w f l} (h : PC.done (getRet full v w f) = PC.done (.vals l)) : False := by
  cases full <;> simp [getRet] at h

theorem step_vinv {s s' : Sys V} {l} (hs : Step c s l s') (hS : SInv s.sh) (hv : VInv s) : SInv s'.sh ∧ VInv s' := by
  have keep : ∀ k v, v ∈ s.sh.stored k → v ∈ s.sh.stored k := fun _ _ h => h
  cases hs with
  | invoke t op hpc hcl =>
    refine ⟨hS, vinv_frame hv keep t _ _ _ ?_ ?_⟩
    · intro i acc hp v hm; rw [startPC_values hp] at hm; cases hm
    · intro l hp; exact absurd hp (fun h => startPC_not_vals h)
  | setCS t k v ow hpc =>
    refine ⟨sinv_csSet c hS k v ow, vinv_frame hv (ext_csSet c s.sh k v ow).stored t _ _ _ ?_ ?_⟩
    · intro i acc hp; cases hp
    · intro l hp; cases ow <;> simp at hp
  | lazyCS t k v hpc =>
    refine ⟨sinv_csLazySet c hS k v, vinv_frame hv (ext_csLazySet c s.sh k v).stored t _ _ _ ?_ ?_⟩
    · intro i acc hp; cases hp
    · intro l hp; cases hp
  | getFastHit t k full v w hpc hf =>
    refine ⟨hS, vinv_frame hv keep t _ _ _ ?_ ?_⟩
    · intro i acc hp; cases hp
    · intro l hp; exact absurd hp (fun h => getRet_not_vals h)
  | getFastMiss t k full hpc hf =>
    refine ⟨hS, vinv_frame hv keep t _ _ _ ?_ ?_⟩
    · intro i acc hp; cases hp
    · intro l hp; cases hp
  | getSlowCS t k full hpc =>
    have hst : ∀ k' v, v ∈ s.sh.stored k' → v ∈ (csGetSlow c s.sh k).1.stored k' := by
      intro k' v h; unfold csGetSlow; split <;> exact h
    refine ⟨sinv_csGetSlow c hS k, vinv_frame hv hst t _ _ _ ?_ ?_⟩
    · intro i acc hp; cases hp
    · intro l hp; exact absurd hp (fun h => getRet_not_vals h)
  | containsCS t k hpc =>
    refine ⟨hS, vinv_frame hv keep t _ _ _ ?_ ?_⟩
    · intro i acc hp; cases hp
    · intro l hp; cases hp
  | valuesCS t i acc hpc hi =>
    refine ⟨hS, vinv_frame hv keep t _ _ _ ?_ ?_⟩
    · intro i' acc' hp v hm
      simp only [PC.values.injEq] at hp
      obtain ⟨_, rfl⟩ := hp
      rcases List.mem_append.mp hm with h | h
      · exact hv.1 t i acc hpc v h
      · obtain ⟨k, hk⟩ := AMap.mem_vals h
        exact ⟨k, hS i k v hk⟩
    · intro l hp; cases hp
  | valuesEnd t i acc hpc hi =>
    refine ⟨hS, vinv_frame hv keep t _ _ _ ?_ ?_⟩
    · intro i' acc' hp; cases hp
    · intro l hp v hm
      simp only [PC.done.injEq, Ret.vals.injEq] at hp
      subst hp; exact hv.1 t i acc hpc v hm
  | ret t r hpc hcl =>
    refine ⟨hS, vinv_frame hv keep t _ _ _ ?_ ?_⟩
    · intro i acc hp; cases hp
    · intro l hp; cases hp
  | awaitStart t ch hpc hcl => exact ⟨hS, hv⟩
  | awaitWake t ch hcl hch => exact ⟨hS, hv⟩
  | gosStart t k fv hpc hcl =>
    refine ⟨hS, vinv_frame hv keep t _ _ _ ?_ ?_⟩
    · intro i acc hp; cases hp
    · intro l hp; cases hp
  | gosRet1 t k fv v w first hpc hcl =>
    refine ⟨hS, vinv_frame hv keep t _ _ _ ?_ ?_⟩
    · intro i acc hp; cases hp
    · intro l hp; cases hp
  | gosRunF t k fv hpc hcl =>
    refine ⟨hS, vinv_frame hv keep t _ _ _ ?_ ?_⟩
    · intro i acc hp; cases hp
    · intro l hp; cases hp
  | gosRet2 t k fv r hpc hcl =>
    refine ⟨hS, vinv_frame hv keep t _ _ _ ?_ ?_⟩
    · intro i acc hp; cases hp
    · intro l hp; cases hp
  | gosWake t k ch hpc hcl hch =>
    refine ⟨hS, vinv_frame hv keep t _ _ _ ?_ ?_⟩
    · intro i acc hp; cases hp
    · intro l hp; cases hp
  | gosRet3 t k v hpc hcl =>
    refine ⟨hS, vinv_frame hv keep t _ _ _ ?_ ?_⟩
    · intro i acc hp; cases hp
    · intro l hp; cases hp
  | gosDone t k v hpc hcl => exact ⟨hS, hv⟩

theorem exec_vinv {s0 s : Sys V} {tr} (h : Exec c s0 tr s) (hS : SInv s0.sh) (hv : VInv s0) : SInv s.sh ∧ VInv s := by
  induction h with
  | nil => exact ⟨hS, hv⟩
  | tau _ hs ih => exact step_vinv c hs ih.1 ih.2
  | ev _ hs ih => exact step_vinv c hs ih.1 ih.2

theorem reach_vinv {s : Sys V} (h : Reach c s) : SInv s.sh ∧ VInv s := by
  obtain ⟨tr, h⟩ := h
  exact exec_vinv c h sinv_init ⟨by intro t i acc hp; simp [Sys.init] at hp, by intro t l hp; simp [Sys.init] at hp⟩

end PlzVerif.CMap
