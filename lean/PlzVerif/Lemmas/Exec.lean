import PlzVerif.Model.Exec
/-! Invariants of the supervisor/process-group transition system of `Model/Exec.lean` (C30). -/
namespace PlzVerif.Exec

/-- Nobody in the group is alive. -/
def GroupDead (s : St) : Prop := ∀ p ∈ s.procs, p.inGroup = true → p.alive = false

/-- Nobody alive holds a pipe end and the leader is gone (what `cmd.Wait()` returning means), as a `Prop`. -/
def Quiet (s : St) : Prop := s.leader.alive = false ∧ ∀ p ∈ s.others, p.alive = true → p.holdsPipe = false

/-- The invariant: the clock never runs past what the current phase allows, and the phases after SIGKILL
    have a dead group; after a normal return the pipes are closed and the leader has exited. -/
def Inv (tm : Timing) (s : St) : Prop :=
  match s.phase with
  | .running => s.now ≤ s.deadline
  | .termSent t => t ≤ s.deadline ∧ t ≤ s.now ∧ s.now ≤ t + tm.termWait
  | .killSent t => t ≤ s.deadline + tm.termWait ∧ t ≤ s.now ∧ s.now ≤ t + tm.killWait ∧ GroupDead s
  | .returned true t => t ≤ s.deadline + tm.termWait + tm.killWait ∧ GroupDead s
  | .returned false _ => Quiet s

theorem sigKill_dead (p : Proc) (h : (sigKill p).inGroup = true) : (sigKill p).alive = false := by
  unfold sigKill at *
  split at h <;> simp_all

theorem groupDead_signal_kill (s : St) : GroupDead (s.signal sigKill) := by
  intro p hp hg
  simp only [St.procs, St.signal, List.mem_cons, List.mem_map] at hp
  rcases hp with rfl | ⟨q, _, rfl⟩ <;> exact sigKill_dead _ hg

theorem waitDone_quiet {s : St} (h : s.waitDone = true) : Quiet s := by
  simp only [St.waitDone, Bool.and_eq_true, Bool.not_eq_true', List.all_eq_true] at h
  refine ⟨h.1, fun p hp ha => ?_⟩
  have := h.2 p hp
  simp [ha] at this
  exact this

/-- A process step never revives anybody, never adds a pipe end, never (re)joins the group. -/
theorem procStep_mono {p p' : Proc} (h : ProcStep p p') :
    p.alive = true ∧ (p'.alive = true → p.alive = true) ∧ (p'.holdsPipe = true → p.holdsPipe = true) ∧
    (p'.inGroup = true → p.inGroup = true) := by
  cases h <;> simp_all

theorem inv_sup {tm : Timing} {s s' : St} (hi : Inv tm s) (h : sup tm s = some s') : Inv tm s' := by
  unfold sup at h
  unfold Inv at hi
  cases hph : s.phase with
  | running =>
    simp only [hph] at h hi
    split at h
    · rename_i hc
      cases h
      simp only [Inv]
      simp only [St.chReady, Bool.and_eq_true] at hc
      exact waitDone_quiet hc.1
    · split at h
      · cases h
        simp only [Inv, St.signal]
        omega
      · cases h
  | termSent t =>
    simp only [hph] at h hi
    split at h
    · cases h
      simp only [Inv]
      refine ⟨by simp [St.signal]; omega, by simp [St.signal], by simp [St.signal], ?_⟩
      exact groupDead_signal_kill s
    · split at h
      · cases h
        simp only [Inv]
        refine ⟨by simp [St.signal]; omega, by simp [St.signal], by simp [St.signal], ?_⟩
        exact groupDead_signal_kill s
      · cases h
  | killSent t =>
    simp only [hph] at h hi
    split at h
    · cases h
      simp only [Inv]
      exact ⟨by omega, hi.2.2.2⟩
    · split at h
      · cases h
        simp only [Inv]
        exact ⟨by omega, hi.2.2.2⟩
      · cases h
  | returned b t => simp [hph] at h

theorem sup_none_time {tm : Timing} {s : St} (hi : Inv tm s) (h : sup tm s = none) :
    Inv tm { s with now := s.now + 1 } := by
  unfold sup at h
  unfold Inv at hi ⊢
  cases hph : s.phase with
  | running =>
    simp only [hph] at h hi ⊢
    split at h
    · cases h
    · split at h
      · cases h
      · omega
  | termSent t =>
    simp only [hph] at h hi ⊢
    split at h
    · cases h
    · split at h
      · cases h
      · omega
  | killSent t =>
    simp only [hph] at h hi ⊢
    split at h
    · cases h
    · split at h
      · cases h
      · exact ⟨hi.1, by omega, by omega, hi.2.2.2⟩
  | returned b t =>
    simp only [hph] at hi ⊢
    cases b <;> exact hi

/-- `GroupDead` and `Quiet` survive anything the processes can do. -/
theorem groupDead_leader {s : St} {p' : Proc} (h : GroupDead s) (hs : ProcStep s.leader p') :
    GroupDead { s with leader := p' } := by
  obtain ⟨ha, _, _, hg⟩ := procStep_mono hs
  intro p hp hin
  simp only [St.procs, List.mem_cons] at hp
  rcases hp with rfl | hp
  · have := h s.leader (by simp [St.procs]) (hg hin); simp_all
  · exact h p (by simp [St.procs, hp]) hin

theorem groupDead_other {s : St} {pre post : List Proc} {p p' : Proc} (h : GroupDead s)
    (he : s.others = pre ++ p :: post) (hs : ProcStep p p') : GroupDead { s with others := pre ++ p' :: post } := by
  obtain ⟨ha, _, _, hg⟩ := procStep_mono hs
  intro q hq hin
  simp only [St.procs, List.mem_cons, List.mem_append] at hq
  rcases hq with rfl | hq | rfl | hq
  · exact h _ (by simp [St.procs]) hin
  · exact h q (by simp [St.procs, he, hq]) hin
  · have := h p (by simp [St.procs, he]) (hg hin); simp_all
  · exact h q (by simp [St.procs, he, hq]) hin

theorem groupDead_fork {s : St} {p : Proc} (h : GroupDead s) (hp : p ∈ s.procs) (ha : p.alive = true) :
    GroupDead { s with others := s.others ++ [p] } := by
  intro q hq hin
  simp only [St.procs, List.mem_cons, List.mem_append, List.mem_nil_iff, or_false] at hq
  rcases hq with rfl | hq | rfl
  · exact h _ (by simp [St.procs]) hin
  · exact h q (by simp [St.procs, hq]) hin
  · exact h q hp hin

theorem quiet_leader {s : St} {p' : Proc} (h : Quiet s) (hs : ProcStep s.leader p') : Quiet { s with leader := p' } := by
  obtain ⟨ha, _, _, _⟩ := procStep_mono hs
  exact absurd ha (by simp [h.1])

theorem quiet_other {s : St} {pre post : List Proc} {p p' : Proc} (h : Quiet s)
    (he : s.others = pre ++ p :: post) (hs : ProcStep p p') : Quiet { s with others := pre ++ p' :: post } := by
  obtain ⟨_, hal, hpipe, _⟩ := procStep_mono hs
  refine ⟨h.1, fun q hq hqa => ?_⟩
  simp only [List.mem_append, List.mem_cons] at hq
  rcases hq with hq | rfl | hq
  · exact h.2 q (by simp [he, hq]) hqa
  · have := h.2 p (by simp [he]) (hal hqa)
    cases hh : q.holdsPipe with
    | false => rfl
    | true => have := hpipe hh; simp_all
  · exact h.2 q (by simp [he, hq]) hqa

theorem quiet_fork {s : St} {p : Proc} (h : Quiet s) (hp : p ∈ s.procs) (ha : p.alive = true) :
    Quiet { s with others := s.others ++ [p] } := by
  refine ⟨h.1, fun q hq hqa => ?_⟩
  simp only [List.mem_append, List.mem_cons, List.mem_nil_iff, or_false] at hq
  rcases hq with hq | rfl
  · exact h.2 q hq hqa
  · simp only [St.procs, List.mem_cons] at hp
    rcases hp with rfl | hp
    · simp [h.1] at ha
    · exact h.2 q hp hqa

/-- Process steps do not touch clock or phase, so the timing part of the invariant is unaffected. -/
theorem inv_env {tm : Timing} {s s' : St} (hi : Inv tm s) (hnow : s'.now = s.now) (hd : s'.deadline = s.deadline)
    (hph : s'.phase = s.phase) (hg : GroupDead s → GroupDead s') (hq : Quiet s → Quiet s') : Inv tm s' := by
  unfold Inv at hi ⊢
  rw [hph, hnow, hd]
  cases h : s.phase with
  | running => simpa [h] using hi
  | termSent t => simpa [h] using hi
  | killSent t => simp only [h] at hi ⊢; exact ⟨hi.1, hi.2.1, hi.2.2.1, hg hi.2.2.2⟩
  | returned b t =>
    cases b with
    | true => simp only [h] at hi ⊢; exact ⟨hi.1, hg hi.2⟩
    | false => simp only [h] at hi ⊢; exact hq hi

theorem inv_step {tm : Timing} {s s' : St} (hi : Inv tm s) (h : Step tm s s') : Inv tm s' := by
  cases h with
  | sup h => exact inv_sup hi h
  | tick h => exact sup_none_time hi h
  | leader hs => exact inv_env hi rfl rfl rfl (fun g => groupDead_leader g hs) (fun q => quiet_leader q hs)
  | other pre post p p' he hs =>
    exact inv_env hi rfl rfl rfl (fun g => groupDead_other g he hs) (fun q => quiet_other q he hs)
  | fork p hp ha => exact inv_env hi rfl rfl rfl (fun g => groupDead_fork g hp ha) (fun q => quiet_fork q hp ha)

theorem deadline_step {tm : Timing} {s s' : St} (h : Step tm s s') : s'.deadline = s.deadline := by
  cases h with
  | sup h =>
    unfold sup at h
    split at h
    · split at h
      · cases h; rfl
      · split at h
        · cases h; rfl
        · cases h
    · split at h
      · cases h; rfl
      · split at h
        · cases h; rfl
        · cases h
    · split at h
      · cases h; rfl
      · split at h
        · cases h; rfl
        · cases h
    · cases h
  | tick _ => rfl
  | leader _ => rfl
  | other _ _ _ _ _ _ => rfl
  | fork _ _ _ => rfl

theorem inv_reach {tm : Timing} {s t : St} (hi : Inv tm s) (h : Reach tm s t) : Inv tm t ∧ t.deadline = s.deadline := by
  induction h with
  | refl => exact ⟨hi, rfl⟩
  | step _ hs ih => exact ⟨inv_step ih.1 hs, by rw [deadline_step hs, ih.2]⟩

theorem inv_init (tm : Timing) (d : Nat) (ign : Bool) : Inv tm (init d ign) := by
  simp [Inv, init]

end PlzVerif.Exec
