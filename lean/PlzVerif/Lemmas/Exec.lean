import PlzVerif.Model.Exec
/-! Invariants of the supervisor/process-group transition system of `Model/Exec.lean` (C30). -/
namespace PlzVerif.Exec

/-- Nobody in the group is alive. -/
def GroupDead (s : St) : Prop := ∀ p ∈ s.procs, p.inGroup = true → p.alive = false

/-- Nobody alive holds a pipe end and the leader is gone (what `cmd.Wait()` returning means), as a `Prop`. -/
def Quiet (s : St) : Prop := s.leader.alive = false ∧ ∀ p ∈ s.others, p.alive = true → p.holdsPipe = false

/-- The facts under which the group is dead after SIGKILL: both rounds always run, to the whole group. -/
def Good (tm : Timing) : Prop := tm.killAlways = true ∧ tm.killsGroup = true

/-- The invariant: the clock never runs past what the current phase allows, and the phases after SIGKILL
    have a dead group; a normal return happens by the deadline, with the pipes closed and the leader gone. -/
def Inv (tm : Timing) (s : St) : Prop :=
  match s.phase with
  | .running => s.now ≤ s.deadline
  | .termSent t => t ≤ s.deadline ∧ t ≤ s.now ∧ s.now ≤ t + tm.termWait
  | .killSent t => t ≤ s.deadline + tm.termWait ∧ t ≤ s.now ∧ s.now ≤ t + tm.killWait ∧ GroupDead s
  | .returned true t => t ≤ s.deadline + tm.termWait + tm.killWait ∧ GroupDead s
  | .returned false t => t ≤ s.deadline ∧ Quiet s

theorem sigKill_dead (p : Proc) (h : (sigKill p).inGroup = true) : (sigKill p).alive = false := by
  unfold sigKill at *
  split at h <;> simp_all

theorem groupDead_signal_kill {tm : Timing} (hg : tm.killsGroup = true) (s : St) : GroupDead (s.signal tm sigKill) := by
  intro p hp hin
  simp only [St.procs, St.signal, hg, ↓reduceIte, List.mem_cons, List.mem_map] at hp
  rcases hp with rfl | ⟨q, _, rfl⟩ <;> exact sigKill_dead _ hin

theorem waitDone_quiet {s : St} (h : s.waitDone = true) : Quiet s := by
  simp only [St.waitDone, Bool.and_eq_true, Bool.not_eq_true', List.all_eq_true] at h
  refine ⟨h.1, fun p hp ha => ?_⟩
  have := h.2 p hp
  simp [ha] at this
  exact this

/-- A process step never revives anybody, never adds a pipe end, never (re)joins the group. -/
theorem procStep_mono {p p' : Proc} (h : ProcStep p p') :
    p.alive = true ∧ (p'.alive = true → p.alive = true) ∧ (p'.holdsPipe = true → p.holdsPipe = true) ∧
    (p'.inGroup = true → p.inGroup = true) := by
  cases h <;> simp_all

theorem inv_sup {tm : Timing} (hgood : Good tm) {s s' : St} (hi : Inv tm s) (h : sup tm s = some s') : Inv tm s' := by
  obtain ⟨hka, hkg⟩ := hgood
  unfold sup at h
  unfold Inv at hi
  cases hph : s.phase with
  | running =>
    simp only [hph] at h hi
    split at h
    · rename_i hc
      cases h
      simp only [Inv]
      simp only [St.chReady, Bool.and_eq_true] at hc
      exact ⟨hi, waitDone_quiet hc.1⟩
    · split at h
      · cases h
        simp only [Inv, St.signal]
        omega
      · cases h
  | termSent t =>
    simp only [hph, hka, ↓reduceIte] at h hi
    split at h
    · cases h
      simp only [Inv]
      refine ⟨by simp [St.signal]; omega, by simp [St.signal], by simp [St.signal], ?_⟩
      exact groupDead_signal_kill hkg s
    · split at h
      · cases h
        simp only [Inv]
        refine ⟨by simp [St.signal]; omega, by simp [St.signal], by simp [St.signal], ?_⟩
        exact groupDead_signal_kill hkg s
      · cases h
  | killSent t =>
    simp only [hph] at h hi
    split at h
    · cases h
      simp only [Inv]
      exact ⟨by omega, hi.2.2.2⟩
    · split at h
      · cases h
        simp only [Inv]
        exact ⟨by omega, hi.2.2.2⟩
      · cases h
  | returned b t => simp [hph] at h

theorem sup_none_time {tm : Timing} {s : St} (hi : Inv tm s) (h : sup tm s = none) :
    Inv tm { s with now := s.now + 1 } := by
  unfold sup at h
  unfold Inv at hi ⊢
  cases hph : s.phase with
  | running =>
    simp only [hph] at h hi ⊢
    split at h
    · cases h
    · split at h
      · cases h
      · omega
  | termSent t =>
    simp only [hph] at h hi ⊢
    split at h
    · split at h <;> cases h
    · split at h
      · cases h
      · omega
  | killSent t =>
    simp only [hph] at h hi ⊢
    split at h
    · cases h
    · split at h
      · cases h
      · exact ⟨hi.1, by omega, by omega, hi.2.2.2⟩
  | returned b t =>
    simp only [hph] at hi ⊢
    cases b <;> exact hi

/-- `GroupDead` and `Quiet` survive anything the processes can do. -/
theorem groupDead_leader {s : St} {p' : Proc} (h : GroupDead s) (hs : ProcStep s.leader p') :
    GroupDead { s with leader := p' } := by
  obtain ⟨ha, _, _, hg⟩ := procStep_mono hs
  intro p hp hin
  simp only [St.procs, List.mem_cons] at hp
  rcases hp with rfl | hp
  · have := h s.leader (by simp [St.procs]) (hg hin); simp_all
  · exact h p (by simp [St.procs, hp]) hin

theorem groupDead_other {s : St} {pre post : List Proc} {p p' : Proc} (h : GroupDead s)
    (he : s.others = pre ++ p :: post) (hs : ProcStep p p') : GroupDead { s with others := pre ++ p' :: post } := by
  obtain ⟨ha, _, _, hg⟩ := procStep_mono hs
  intro q hq hin
  simp only [St.procs, List.mem_cons, List.mem_append] at hq
  rcases hq with rfl | hq | rfl | hq
  · exact h _ (by simp [St.procs]) hin
  · exact h q (by simp [St.procs, he, hq]) hin
  · have := h p (by simp [St.procs, he]) (hg hin); simp_all
  · exact h q (by simp [St.procs, he, hq]) hin

theorem groupDead_fork {s : St} {p : Proc} (h : GroupDead s) (hp : p ∈ s.procs) (ha : p.alive = true) :
    GroupDead { s with others := s.others ++ [p] } := by
  intro q hq hin
  simp only [St.procs, List.mem_cons, List.mem_append, List.mem_nil_iff, or_false] at hq
  rcases hq with rfl | hq | rfl
  · exact h _ (by simp [St.procs]) hin
  · exact h q (by simp [St.procs, hq]) hin
  · exact h q hp hin

theorem quiet_leader {s : St} {p' : Proc} (h : Quiet s) (hs : ProcStep s.leader p') : Quiet { s with leader := p' } := by
  obtain ⟨ha, _, _, _⟩ := procStep_mono hs
  exact absurd ha (by simp [h.1])

theorem quiet_other {s : St} {pre post : List Proc} {p p' : Proc} (h : Quiet s)
    (he : s.others = pre ++ p :: post) (hs : ProcStep p p') : Quiet { s with others := pre ++ p' :: post } := by
  obtain ⟨_, hal, hpipe, _⟩ := procStep_mono hs
  refine ⟨h.1, fun q hq hqa => ?_⟩
  simp only [List.mem_append, List.mem_cons] at hq
  rcases hq with hq | rfl | hq
  · exact h.2 q (by simp [he, hq]) hqa
  · have := h.2 p (by simp [he]) (hal hqa)
    cases hh : q.holdsPipe with
    | false => rfl
    | true => have := hpipe hh; simp_all
  · exact h.2 q (by simp [he, hq]) hqa

theorem quiet_fork {s : St} {p : Proc} (h : Quiet s) (hp : p ∈ s.procs) (ha : p.alive = true) :
    Quiet { s with others := s.others ++ [p] } := by
  refine ⟨h.1, fun q hq hqa => ?_⟩
  simp only [List.mem_append, List.mem_cons, List.mem_nil_iff, or_false] at hq
  rcases hq with hq | rfl
  · exact h.2 q hq hqa
  · simp only [St.procs, List.mem_cons] at hp
    rcases hp with rfl | hp
    · simp [h.1] at ha
    · exact h.2 q hp hqa

/-- Process steps do not touch clock or phase, so the timing part of the invariant is unaffected. -/
theorem inv_env {tm : Timing} {s s' : St} (hi : Inv tm s) (hnow : s'.now = s.now) (hd : s'.deadline = s.deadline)
    (hph : s'.phase = s.phase) (hg : GroupDead s → GroupDead s') (hq : Quiet s → Quiet s') : Inv tm s' := by
  unfold Inv at hi ⊢
  rw [hph, hnow, hd]
  cases h : s.phase with
  | running => simpa [h] using hi
  | termSent t => simpa [h] using hi
  | killSent t => simp only [h] at hi ⊢; exact ⟨hi.1, hi.2.1, hi.2.2.1, hg hi.2.2.2⟩
  | returned b t =>
    cases b with
    | true => simp only [h] at hi ⊢; exact ⟨hi.1, hg hi.2⟩
    | false => simp only [h] at hi ⊢; exact ⟨hi.1, hq hi.2⟩

theorem inv_step {tm : Timing} (hgood : Good tm) {s s' : St} (hi : Inv tm s) (h : Step tm s s') : Inv tm s' := by
  cases h with
  | sup h => exact inv_sup hgood hi h
  | tick h => exact sup_none_time hi h
  | leader hs => exact inv_env hi rfl rfl rfl (fun g => groupDead_leader g hs) (fun q => quiet_leader q hs)
  | other pre post p p' he hs =>
    exact inv_env hi rfl rfl rfl (fun g => groupDead_other g he hs) (fun q => quiet_other q he hs)
  | fork p hp ha => exact inv_env hi rfl rfl rfl (fun g => groupDead_fork g hp ha) (fun q => quiet_fork q hp ha)

theorem deadline_step {tm : Timing} {s s' : St} (h : Step tm s s') : s'.deadline = s.deadline := by
  cases h with
  | sup h =>
    unfold sup at h
    cases hph : s.phase with
    | running =>
      simp only [hph] at h
      split at h
      · cases h; rfl
      · split at h
        · cases h; rfl
        · cases h
    | termSent t =>
      simp only [hph] at h
      split at h
      · split at h <;> (cases h; rfl)
      · split at h
        · cases h; rfl
        · cases h
    | killSent t =>
      simp only [hph] at h
      split at h
      · cases h; rfl
      · split at h
        · cases h; rfl
        · cases h
    | returned b t => simp [hph] at h
  | tick _ => rfl
  | leader _ => rfl
  | other _ _ _ _ _ _ => rfl
  | fork _ _ _ => rfl

theorem inv_reach {tm : Timing} (hgood : Good tm) {s t : St} (hi : Inv tm s) (h : Reach tm s t) :
    Inv tm t ∧ t.deadline = s.deadline := by
  induction h with
  | refl => exact ⟨hi, rfl⟩
  | step _ hs ih => exact ⟨inv_step hgood ih.1 hs, by rw [deadline_step hs, ih.2]⟩

theorem inv_init (tm : Timing) (d : Nat) (ign : Bool) : Inv tm (init d ign) := by
  simp [Inv, init]

end PlzVerif.Exec

namespace PlzVerif.Exec

/-! ### `runScript` is an execution of the transition system

The run used by the correspondence harness only ever performs `Step`s: scripted exits are `ProcStep.exit`s,
supervisor moves are `Step.sup`, and a jump of the clock to the next scheduled instant is a sequence of
`tick`s during which the supervisor has nothing due. -/

theorem Reach.trans {tm : Timing} {a b c : St} (h1 : Reach tm a b) (h2 : Reach tm b c) : Reach tm a c := by
  induction h2 with
  | refl => exact h1
  | step _ hs ih => exact Reach.step ih hs

theorem Reach.one {tm : Timing} {a b : St} (h : Step tm a b) : Reach tm a b := Reach.step (Reach.refl a) h

/-- When the supervisor's timer fires, if nothing arrives on the channel first. -/
def due (tm : Timing) (s : St) : Option Nat :=
  match s.phase with
  | .running => some s.deadline
  | .termSent t => some (t + tm.termWait)
  | .killSent t => some (t + tm.killWait)
  | .returned _ _ => none

theorem sup_none_iff {tm : Timing} {s : St} (hp : ∀ b t, s.phase ≠ .returned b t) :
    sup tm s = none ↔ (s.chReady = false ∧ ∀ d, due tm s = some d → s.now < d) := by
  unfold sup due
  cases hph : s.phase with
  | running => by_cases hc : s.chReady = true <;> simp [hc] <;> omega
  | termSent t =>
    by_cases hc : s.chReady = true
    · cases hka : tm.killAlways <;> simp [hc, hka]
    · simp [hc]
  | killSent t => by_cases hc : s.chReady = true <;> simp [hc] <;> omega
  | returned b t => exact absurd hph (hp b t)

/-- Moving only the clock, below the timer, keeps the supervisor blocked. -/
theorem sup_none_at {tm : Timing} {s : St} (h : sup tm s = none) (hp : ∀ b t, s.phase ≠ .returned b t)
    (n : Nat) (hn : ∀ d, due tm s = some d → n < d) : sup tm { s with now := n } = none := by
  have h' := (sup_none_iff hp).mp h
  apply (sup_none_iff (s := { s with now := n }) hp).mpr
  exact ⟨h'.1, hn⟩

/-- The clock can be advanced tick by tick up to any instant not beyond the timer. -/
theorem reach_ticks {tm : Timing} {s : St} (h : sup tm s = none) (hp : ∀ b t, s.phase ≠ .returned b t) :
    ∀ (k : Nat), (∀ d, due tm s = some d → s.now + k ≤ d) → Reach tm s { s with now := s.now + k } := by
  intro k
  induction k with
  | zero => intro _; exact Reach.refl s
  | succ k ih =>
    intro hd
    have r1 := ih (fun d hdd => by have := hd d hdd; omega)
    have hn : sup tm { s with now := s.now + k } = none :=
      sup_none_at h hp _ (fun d hdd => by have := hd d hdd; omega)
    have := Step.tick hn
    exact Reach.step r1 this

theorem foldl_min_le (c : Nat) : ∀ (cs : List Nat) (x : Nat), x = c ∨ x ∈ cs → cs.foldl min c ≤ x := by
  intro cs
  induction cs generalizing c with
  | nil => intro x hx; rcases hx with rfl | h; exact Nat.le_refl _; cases h
  | cons a as ih =>
    intro x hx
    simp only [List.foldl_cons]
    rcases hx with rfl | h
    · exact Nat.le_trans (ih (min x a) (min x a) (Or.inl rfl)) (Nat.min_le_left _ _)
    · rcases List.mem_cons.mp h with rfl | h
      · exact Nat.le_trans (ih (min c x) (min c x) (Or.inl rfl)) (Nat.min_le_right _ _)
      · exact ih (min c a) x (Or.inr h)

theorem foldl_min_mem (c : Nat) : ∀ (cs : List Nat), cs.foldl min c = c ∨ cs.foldl min c ∈ cs := by
  intro cs
  induction cs generalizing c with
  | nil => left; rfl
  | cons a as ih =>
    simp only [List.foldl_cons]
    rcases ih (min c a) with h | h
    · rw [h]
      by_cases hca : c ≤ a
      · left; exact Nat.min_eq_left hca
      · right; rw [Nat.min_eq_right (by omega)]; simp
    · right; exact List.mem_cons_of_mem _ h

theorem minAbove_bounds (cands : List Nat) (now : Nat) :
    now < minAbove cands now ∧ ∀ d ∈ cands, now < d → minAbove cands now ≤ d := by
  unfold minAbove
  cases hf : cands.filter (· > now) with
  | nil =>
    refine ⟨by simp, fun d hd hlt => ?_⟩
    have : d ∈ cands.filter (· > now) := by simp [List.mem_filter, hd, hlt]
    rw [hf] at this; cases this
  | cons c cs =>
    simp only
    have hall : ∀ x ∈ c :: cs, now < x := by
      intro x hx
      have hx' : x ∈ cands.filter (· > now) := by rw [hf]; exact hx
      have := (List.mem_filter.mp hx').2
      simpa using this
    constructor
    · rcases foldl_min_mem c cs with h | h
      · rw [h]; exact hall c (by simp)
      · exact hall _ (List.mem_cons_of_mem _ h)
    · intro d hd hlt
      have : d ∈ c :: cs := by rw [← hf]; simp [List.mem_filter, hd, hlt]
      exact foldl_min_le c cs d (by simpa [List.mem_cons] using this)

theorem due_mem_candidates {tm : Timing} {sc : Script} {s : St} {d : Nat} (hd : due tm s = some d) :
    d ∈ candidates tm sc s := by
  unfold due at hd
  unfold candidates
  cases hph : s.phase with
  | running => simp [hph] at hd; simp [hd]
  | termSent t => simp [hph] at hd; simp [hd]
  | killSent t => simp [hph] at hd; simp [hd]
  | returned b t => simp [hph] at hd

/-- The next scheduled instant is later than now and not beyond the supervisor's timer. -/
theorem nextTime_bounds {tm : Timing} {sc : Script} {s : St} :
    s.now < nextTime tm sc s ∧ ∀ d, due tm s = some d → s.now < d → nextTime tm sc s ≤ d := by
  unfold nextTime
  have := minAbove_bounds (candidates tm sc s) s.now
  exact ⟨this.1, fun d hd hlt => this.2 d (due_mem_candidates hd) hlt⟩

/-- Zero or one supervisor step. -/
theorem reach_sup_opt (tm : Timing) (s : St) : Reach tm s (supOpt tm s) := by
  unfold supOpt
  cases h : sup tm s with
  | none => exact Reach.refl s
  | some s' => exact Reach.one (Step.sup h)

/-- Marking a set of the `others` dead (only those still alive change) is a sequence of exits. -/
theorem reach_exits {tm : Timing} (s : St) (f : Proc → Bool) :
    Reach tm s { s with others := s.others.map fun p => if f p then { p with alive := false } else p } := by
  suffices h : ∀ (pre post : List Proc), Reach tm { s with others := pre ++ post }
      { s with others := pre ++ post.map fun p => if f p then { p with alive := false } else p } by
    simpa using h [] s.others
  intro pre post
  induction post generalizing pre with
  | nil => simpa using Reach.refl _
  | cons p ps ih =>
    simp only [List.map_cons]
    by_cases hfp : f p = true
    · by_cases hal : p.alive = true
      · have st : Step tm { s with others := pre ++ p :: ps } { s with others := pre ++ { p with alive := false } :: ps } :=
          Step.other pre ps p _ rfl (ProcStep.exit p hal)
        have r := ih (pre ++ [{ p with alive := false }])
        simp only [List.append_assoc, List.singleton_append] at r
        simp only [hfp, ↓reduceIte]
        exact Reach.trans (Reach.one st) r
      · have e : ({ p with alive := false } : Proc) = p := by
          cases p; simp_all
        have r := ih (pre ++ [p])
        simp only [List.append_assoc, List.singleton_append] at r
        simp only [hfp, ↓reduceIte, e]
        exact r
    · have r := ih (pre ++ [p])
      simp only [List.append_assoc, List.singleton_append] at r
      simp only [hfp, Bool.false_eq_true, ↓reduceIte]
      exact r


/-- The scripted exits of the background children, as a sequence of `exit` steps. -/
theorem reach_zip_exits {tm : Timing} (s : St) (now : Nat) :
    ∀ (post : List Proc) (cs : List Child) (pre : List Proc), post.length = cs.length →
      Reach tm { s with others := pre ++ post }
        { s with others := pre ++ (post.zip cs).map fun (p, c) => if now ≥ c.exitAt then { p with alive := false } else p } := by
  intro post
  induction post with
  | nil => intro cs pre _; simpa using Reach.refl _
  | cons p ps ih =>
    intro cs pre hl
    cases cs with
    | nil => simp at hl
    | cons c cs =>
      simp only [List.zip_cons_cons, List.map_cons]
      have hl' : ps.length = cs.length := by simpa using hl
      by_cases hx : now ≥ c.exitAt
      · simp only [hx, ↓reduceIte]
        by_cases hal : p.alive = true
        · have st : Step tm { s with others := pre ++ p :: ps } { s with others := pre ++ { p with alive := false } :: ps } :=
            Step.other pre ps p _ rfl (ProcStep.exit p hal)
          have r := ih cs (pre ++ [{ p with alive := false }]) hl'
          simp only [List.append_assoc, List.singleton_append] at r
          exact Reach.trans (Reach.one st) r
        · have e : ({ p with alive := false } : Proc) = p := by cases p; simp_all
          have r := ih cs (pre ++ [p]) hl'
          simp only [List.append_assoc, List.singleton_append] at r
          rw [e]; exact r
      · simp only [hx, ↓reduceIte]
        have r := ih cs (pre ++ [p]) hl'
        simp only [List.append_assoc, List.singleton_append] at r
        exact r

theorem reach_applyExits {tm : Timing} (sc : Script) (s : St) (hl : s.others.length = sc.children.length) :
    Reach tm s (applyExits sc s) ∧ (applyExits sc s).others.length = sc.children.length := by
  unfold applyExits
  constructor
  · -- the leader first, then the children
    have r1 : Reach tm s { s with leader := if s.now ≥ sc.leaderExitAt then { s.leader with alive := false } else s.leader } := by
      by_cases hx : s.now ≥ sc.leaderExitAt
      · simp only [hx, ↓reduceIte]
        by_cases hal : s.leader.alive = true
        · exact Reach.one (Step.leader (ProcStep.exit s.leader hal))
        · have e : ({ s.leader with alive := false } : Proc) = s.leader := by cases h : s.leader; simp_all
          rw [e]; exact Reach.refl s
      · simp only [hx, ↓reduceIte]; exact Reach.refl s
    have r2 := reach_zip_exits (tm := tm)
      { s with leader := if s.now ≥ sc.leaderExitAt then { s.leader with alive := false } else s.leader } s.now
      s.others sc.children [] hl
    simp only [List.nil_append] at r2
    exact Reach.trans r1 r2
  · simp [hl]

/-- Phases only move forward. -/
def rank : Phase → Nat
  | .running => 0 | .termSent _ => 1 | .killSent _ => 2 | .returned _ _ => 3

theorem signal_len (tm : Timing) (s : St) (f : Proc → Proc) : (s.signal tm f).others.length = s.others.length := by
  unfold St.signal
  cases tm.killsGroup <;> simp

theorem sup_rank {tm : Timing} {s s' : St} (h : sup tm s = some s') :
    rank s.phase < rank s'.phase ∧ s'.others.length = s.others.length := by
  unfold sup at h
  cases hph : s.phase with
  | running =>
    simp only [hph] at h
    split at h
    · cases h; simp [rank]
    · split at h
      · cases h; exact ⟨by simp [rank], signal_len tm s sigTerm⟩
      · cases h
  | termSent t =>
    simp only [hph] at h
    split at h
    · split at h
      · cases h; exact ⟨by simp [rank], signal_len tm s sigKill⟩
      · cases h; simp [rank]
    · split at h
      · cases h; exact ⟨by simp [rank], signal_len tm s sigKill⟩
      · cases h
  | killSent t =>
    simp only [hph] at h
    split at h
    · cases h; simp [rank]
    · split at h
      · cases h; simp [rank]
      · cases h
  | returned b t => simp [hph] at h

theorem supOpt_cases (tm : Timing) (s : St) :
    (sup tm s = none ∧ supOpt tm s = s) ∨ (∃ s', sup tm s = some s' ∧ supOpt tm s = s') := by
  unfold supOpt
  cases h : sup tm s with
  | none => left; exact ⟨rfl, rfl⟩
  | some s' => right; exact ⟨s', rfl, rfl⟩

theorem rank_le_three (p : Phase) : rank p ≤ 3 := by cases p <;> simp [rank]

theorem rank_three {p : Phase} (h : 3 ≤ rank p) : ∃ b t, p = .returned b t := by
  cases p with
  | returned b t => exact ⟨b, t, rfl⟩
  | running => simp [rank] at h
  | termSent t => simp [rank] at h
  | killSent t => simp [rank] at h

/-- Up to three supervisor steps: a reachable state in which the supervisor has returned or is blocked. -/
theorem reach_sup3 (tm : Timing) (s : St) :
    Reach tm s (sup3 tm s) ∧ (sup3 tm s).others.length = s.others.length ∧
      ((∃ b t, (sup3 tm s).phase = .returned b t) ∨ sup tm (sup3 tm s) = none) := by
  unfold sup3
  have r1 := reach_sup_opt tm s
  have r2 := reach_sup_opt tm (supOpt tm s)
  have r3 := reach_sup_opt tm (supOpt tm (supOpt tm s))
  refine ⟨Reach.trans (Reach.trans r1 r2) r3, ?_, ?_⟩
  · rcases supOpt_cases tm s with ⟨_, e1⟩ | ⟨a, h1, e1⟩ <;> rw [e1]
    · rcases supOpt_cases tm s with ⟨_, e1⟩ | ⟨a, h1, e1⟩ <;> rw [e1]
      · rcases supOpt_cases tm s with ⟨_, e1⟩ | ⟨a, h1, e1⟩ <;> rw [e1]
        exact (sup_rank h1).2
      · rcases supOpt_cases tm a with ⟨_, e2⟩ | ⟨b, h2, e2⟩ <;> rw [e2]
        · exact (sup_rank h1).2
        · rw [(sup_rank h2).2]; exact (sup_rank h1).2
    · rcases supOpt_cases tm a with ⟨_, e2⟩ | ⟨b, h2, e2⟩ <;> rw [e2]
      · rcases supOpt_cases tm a with ⟨_, e3⟩ | ⟨c, h3, e3⟩ <;> rw [e3]
        · exact (sup_rank h1).2
        · rw [(sup_rank h3).2]; exact (sup_rank h1).2
      · rcases supOpt_cases tm b with ⟨_, e3⟩ | ⟨c, h3, e3⟩ <;> rw [e3]
        · rw [(sup_rank h2).2]; exact (sup_rank h1).2
        · rw [(sup_rank h3).2, (sup_rank h2).2]; exact (sup_rank h1).2
  · rcases supOpt_cases tm s with ⟨n1, e1⟩ | ⟨a, h1, e1⟩ <;> rw [e1]
    · rw [e1, e1]; right; exact n1
    · rcases supOpt_cases tm a with ⟨n2, e2⟩ | ⟨b, h2, e2⟩ <;> rw [e2]
      · rw [e2]; right; exact n2
      · rcases supOpt_cases tm b with ⟨n3, e3⟩ | ⟨c, h3, e3⟩ <;> rw [e3]
        · right; exact n3
        · left
          have k1 := (sup_rank h1).1
          have k2 := (sup_rank h2).1
          have k3 := (sup_rank h3).1
          exact rank_three (by omega)

/-- **The scripted run is an execution**: every state `runScript` passes through is reachable by `Step`s, so
    the theorems about reachable states apply to what the correspondence harness compares with the code. -/
theorem runScript_reach (tm : Timing) (sc : Script) : ∀ (fuel : Nat) (s : St), s.others.length = sc.children.length →
    Reach tm s (runScript tm sc fuel s) := by
  intro fuel
  induction fuel with
  | zero => intro s _; exact Reach.refl s
  | succ fuel ih =>
    intro s hl
    obtain ⟨ra, hla⟩ := reach_applyExits (tm := tm) sc s hl
    obtain ⟨r3, hl3, hdone⟩ := reach_sup3 tm (applyExits sc s)
    simp only [runScript]
    generalize hs3 : sup3 tm (applyExits sc s) = s3 at r3 hl3 hdone ⊢
    have r03 : Reach tm s s3 := Reach.trans ra r3
    by_cases hret : s3.phase.isReturned = true
    · simpa [hret] using r03
    · have hnr : ∀ b t, s3.phase ≠ .returned b t := by
        intro b t h; apply hret; rw [h]; rfl
      simp only [hret, Bool.false_eq_true, ↓reduceIte]
      have hsup : sup tm s3 = none := by
        rcases hdone with ⟨b, t, h⟩ | h
        · exact absurd h (hnr b t)
        · exact h
      have hb := nextTime_bounds (tm := tm) (sc := sc) (s := s3)
      have hd := (sup_none_iff hnr).mp hsup
      have rt := reach_ticks hsup hnr (nextTime tm sc s3 - s3.now) (fun d hdd => by
        have := hb.2 d hdd (hd.2 d hdd); omega)
      have e : s3.now + (nextTime tm sc s3 - s3.now) = nextTime tm sc s3 := by have := hb.1; omega
      rw [e] at rt
      exact Reach.trans (Reach.trans r03 rt) (ih _ (by simpa using hl3.trans hla))


/-- The start state of a script is itself reachable from the state right after `cmd.Start()`: the leader forks
    the children one by one, each gives up the pipes / starts ignoring SIGTERM as scripted, and finally the
    leader sets its own disposition. -/
theorem initScript_reach (tm : Timing) (d : Nat) (sc : Script) : Reach tm (init d false) (initScript d sc) := by
  have mk : ∀ (cs : List Child) (pre : List Proc),
      Reach tm { init d false with others := pre }
        { init d false with others := pre ++ cs.map fun c => ⟨true, true, c.holdsPipe, c.ignoresTerm⟩ } := by
    intro cs
    induction cs with
    | nil => intro pre; simpa using Reach.refl _
    | cons c cs ih =>
      intro pre
      let s0 : St := { init d false with others := pre }
      let child : Proc := ⟨true, true, true, false⟩
      have f1 : Step tm s0 { s0 with others := s0.others ++ [child] } :=
        Step.fork child (by simp [s0, init, St.procs, child]) rfl
      -- adjust the pipe
      have f2 : Reach tm { s0 with others := pre ++ [child] } { s0 with others := pre ++ [⟨true, true, c.holdsPipe, false⟩] } := by
        cases hh : c.holdsPipe with
        | true => exact Reach.refl _
        | false =>
          exact Reach.one (Step.other pre [] child { child with holdsPipe := false } rfl (ProcStep.closePipe child rfl))
      have f3 : Reach tm { s0 with others := pre ++ [⟨true, true, c.holdsPipe, false⟩] }
          { s0 with others := pre ++ [⟨true, true, c.holdsPipe, c.ignoresTerm⟩] } := by
        cases hh : c.ignoresTerm with
        | false => exact Reach.refl _
        | true =>
          exact Reach.one (Step.other pre [] ⟨true, true, c.holdsPipe, false⟩
            { (⟨true, true, c.holdsPipe, false⟩ : Proc) with ignoresTerm := true } rfl (ProcStep.ignoreTerm _ rfl))
      have r := ih (pre ++ [⟨true, true, c.holdsPipe, c.ignoresTerm⟩])
      simp only [List.map_cons, List.append_assoc, List.singleton_append] at r ⊢
      exact Reach.trans (Reach.trans (Reach.trans (Reach.one f1) f2) f3) r
  have r1 := mk sc.children []
  simp only [List.nil_append] at r1
  have e0 : ({ init d false with others := [] } : St) = init d false := rfl
  rw [e0] at r1
  unfold initScript
  cases hi : sc.leaderIgnoresTerm with
  | false => exact r1
  | true =>
    refine Reach.trans r1 (Reach.one ?_)
    exact Step.leader (ProcStep.ignoreTerm _ rfl)

end PlzVerif.Exec
