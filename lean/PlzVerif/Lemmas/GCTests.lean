import PlzVerif.Lemmas.GC
/-!
Lemmas for C25 (part 2, for the repaired test handling): the repeat-until-nothing-new loop around the test pass
ends in a keep set that is closed under "a test of a kept, not test-only target is kept", so everything `Needed`
is kept.  Core Lean only.
-/
namespace PlzVerif.GC

/-! ### the keep list never repeats a target -/

theorem addDepsF_nodup (G : Graph) (fuel : Nat) (ih : ∀ s t, s.keep.Nodup → (addTarget G fuel s t).keep.Nodup) :
    ∀ (ds : List Nat) (s : KSt), s.keep.Nodup → (addDepsF G fuel ds s).keep.Nodup := by
  intro ds
  induction ds with
  | nil => intro s h; exact h
  | cons d ds ihl => intro s h; rw [addDepsF_cons]; exact ihl _ (ih s d h)

theorem addTarget_nodup (G : Graph) : ∀ (fuel : Nat) (s : KSt) (t : Nat), s.keep.Nodup → (addTarget G fuel s t).keep.Nodup := by
  intro fuel
  induction fuel with
  | zero => intro s t h; rw [addTarget_zero]; exact h
  | succ fuel ih =>
    intro s t h
    rw [addTarget_succ]
    split
    · exact h
    · rename_i hnin
      have h3 := addDepsF_nodup G fuel ih (G.res t) _
        (addDepsF_nodup G fuel ih (G.decl t) { s with keep := t :: s.keep } (List.nodup_cons.mpr ⟨hnin, h⟩))
      simp only
      split
      · exact ih _ _ h3
      · exact h3

theorem testDeps_nodup (G : Graph) (fuel t : Nat) : ∀ (ds : List Nat) (s : KSt), s.keep.Nodup → (testDeps G fuel t ds s).keep.Nodup := by
  intro ds
  induction ds with
  | nil => intro s h; exact h
  | cons d ds ih =>
    intro s h
    simp only [testDeps]
    apply ih
    split
    · exact addTarget_nodup G fuel s t h
    · split
      · exact addTarget_nodup G fuel s d h
      · exact h

theorem testPass_nodup (G : Graph) (fuel : Nat) : ∀ (ts : List Nat) (s : KSt), s.keep.Nodup → (testPass G fuel ts s).keep.Nodup := by
  intro ts
  induction ts with
  | nil => intro s h; exact h
  | cons t ts ih =>
    intro s h
    simp only [testPass]
    split
    · split
      · exact h
      · exact ih _ (testDeps_nodup G fuel t _ s h)
    · exact ih s h

theorem foldl_add_nodup (G : Graph) (fuel : Nat) : ∀ (ts : List Nat) (s : KSt), s.keep.Nodup →
    (ts.foldl (fun s t => addTarget G fuel s t) s).keep.Nodup := by
  intro ts
  induction ts with
  | nil => intro s h; exact h
  | cons t ts ih => intro s h; simp only [List.foldl_cons]; exact ih _ (addTarget_nodup G fuel s t h)

/-! ### what one test pass guarantees -/

theorem not_oof_of {G : Graph} {f : KSt → KSt} (hf : Grows G f) {s : KSt} (h : (f s).oof = false) : s.oof = false := by
  cases hc : s.oof
  · rfl
  · rw [hf.1 s hc] at h; cases h

/-- inside the loop over one test's public dependencies: a kept, not test-only dependency gets the test kept -/
theorem testDeps_keeps (G : Graph) (fuel t : Nat) : ∀ (ds : List Nat) (s : KSt), (testDeps G fuel t ds s).oof = false →
    ∀ d ∈ ds, d ∈ s.keep → G.testOnly d = false → t ∈ (testDeps G fuel t ds s).keep := by
  intro ds
  induction ds with
  | nil => intro s _ d hd; simp at hd
  | cons d' ds ih =>
    intro s h d hd hk hto
    simp only [testDeps] at h ⊢
    -- the state after handling d'
    generalize hs1 : (if (s.keep.contains d' && !G.testOnly d') = true then addTarget G fuel s t
      else if G.testOnly d' = true then addTarget G fuel s d' else s) = s1 at h ⊢
    have ho1 : s1.oof = false := not_oof_of (grows_testDeps G fuel t ds) h
    have hmono : ∀ x ∈ s.keep, x ∈ s1.keep := by
      subst hs1
      split
      · rename_i hc; rw [if_pos hc] at ho1; exact (addTarget_closure G fuel s t ho1).1.1
      · rename_i hc
        rw [if_neg hc] at ho1
        split
        · rename_i hc2; rw [if_pos hc2] at ho1; exact (addTarget_closure G fuel s d' ho1).1.1
        · exact fun _ h => h
    simp only [List.mem_cons] at hd
    rcases hd with rfl | hd
    · -- this very step keeps t
      have hc : (s.keep.contains d && !G.testOnly d) = true := by simp [hk, hto]
      have ht1 : t ∈ s1.keep := by
        subst hs1
        rw [if_pos hc] at ho1 ⊢
        exact (addTarget_closure G fuel s t ho1).2
      exact ((grows_testDeps G fuel t ds).2 s1 h).1 t ht1
    · exact ih s1 h d hd (hmono d hk) hto

/-- one pass: every test one of whose public dependencies was already kept (and is not test-only) is kept afterwards -/
theorem testPass_keeps (G : Graph) (fuel : Nat) : ∀ (ts : List Nat) (s : KSt), (testPass G fuel ts s).oof = false →
    ∀ t ∈ ts, G.isTest t = true → ∃ ds, pubDeps G fuel t = some ds ∧
      ∀ d ∈ ds, d ∈ s.keep → G.testOnly d = false → t ∈ (testPass G fuel ts s).keep := by
  intro ts
  induction ts with
  | nil => intro s _ t ht; simp at ht
  | cons t' ts ih =>
    intro s h t ht hit
    simp only [testPass] at h ⊢
    by_cases hc : G.isTest t' = true
    · rw [if_pos hc] at h ⊢
      cases hp : pubDeps G fuel t' with
      | none => rw [hp] at h; simp at h
      | some ds' =>
        rw [hp] at h
        simp only at h ⊢
        have ho1 : (testDeps G fuel t' ds' s).oof = false := not_oof_of (grows_testPass G fuel ts) h
        have hmono := ((grows_testDeps G fuel t' ds').2 s ho1).1
        simp only [List.mem_cons] at ht
        rcases ht with rfl | ht
        · refine ⟨ds', hp, fun d hd hk hto => ?_⟩
          exact ((grows_testPass G fuel ts).2 _ h).1 t (testDeps_keeps G fuel t ds' s ho1 d hd hk hto)
        · obtain ⟨ds, hds, hall⟩ := ih _ h t ht hit
          exact ⟨ds, hds, fun d hd hk hto => hall d hd (hmono d hk) hto⟩
    · rw [if_neg hc] at h ⊢
      simp only [List.mem_cons] at ht
      rcases ht with rfl | ht
      · exact absurd hit hc
      · exact ih s h t ht hit

/-! ### the fixpoint -/

theorem subset_of_length_eq : ∀ {l l' : List Nat}, l.Nodup → l'.Nodup → (∀ x ∈ l, x ∈ l') → l'.length = l.length →
    ∀ x ∈ l', x ∈ l := by
  intro l l' hn hn' hsub hlen x hx
  apply Classical.byContradiction
  intro hnx
  have hsub' : ∀ y ∈ l, y ∈ l'.erase x := by
    intro y hy
    have hyx : y ≠ x := by intro h; subst h; exact hnx hy
    exact (List.mem_erase_of_ne hyx).mpr (hsub y hy)
  have := PlzVerif.Cycle.nodup_subset_length l (l'.erase x) hn hsub'
  rw [List.length_erase_of_mem hx] at this
  have : 0 < l'.length := List.length_pos_of_mem hx
  omega

/-- the keep set is closed under the test rule -/
def TestClosed (G : Graph) (fuel : Nat) (s : KSt) : Prop :=
  ∀ t ∈ G.nodes, G.isTest t = true → ∃ ds, pubDeps G fuel t = some ds ∧
    ∀ d ∈ ds, d ∈ s.keep → G.testOnly d = false → t ∈ s.keep

theorem testFix_closed (G : Graph) (fuel : Nat) : ∀ (k : Nat) (s : KSt), s.keep.Nodup → (testFix G fuel k s).oof = false →
    TestClosed G fuel (testFix G fuel k s) := by
  intro k
  induction k with
  | zero => intro s _ h; simp [testFix] at h
  | succ k ih =>
    intro s hn h
    simp only [testFix] at h ⊢
    split
    · rename_i hc
      rw [if_pos hc] at h
      exact ih _ (testPass_nodup G fuel G.nodes s hn) h
    · rename_i hc
      rw [if_neg hc] at h
      have hlen : (testPass G fuel G.nodes s).keep.length = s.keep.length := by simpa using hc
      have hmono := ((grows_testPass G fuel G.nodes).2 s h).1
      have hback := subset_of_length_eq hn (testPass_nodup G fuel G.nodes s hn) hmono hlen
      intro t ht hit
      obtain ⟨ds, hds, hall⟩ := testPass_keeps G fuel G.nodes s h t ht hit
      exact ⟨ds, hds, fun d hd hk hto => hall d hd (hback d hk) hto⟩

/-! ### public dependencies -/

/-- `d` is a public dependency of `t`: reached through `t`'s own rule (targets with the same `Parent()` label),
first target outside it -/
inductive PubDep (G : Graph) : Nat → Nat → Prop
  | direct {t d : Nat} : d ∈ G.decl t → G.pl d ≠ G.pl t → PubDep G t d
  | via {t m d : Nat} : m ∈ G.decl t → G.pl m = G.pl t → PubDep G m d → PubDep G t d

/-- the accumulating loop of `publicDependencies` over the declared dependencies `ds` of `t` -/
def pubFold (G : Graph) (fuel t : Nat) (ds : List Nat) (acc : Option (List Nat)) : Option (List Nat) :=
  ds.foldl (fun acc d =>
    match acc with
    | none => none
    | some l => if G.pl d == G.pl t then (pubDeps G fuel d).map (l ++ ·) else some (l ++ [d])) acc

theorem pubDeps_succ (G : Graph) (fuel t : Nat) : pubDeps G (fuel+1) t = pubFold G fuel t (G.decl t) (some []) := rfl

theorem pubFold_none (G : Graph) (fuel t : Nat) : ∀ (ds : List Nat), pubFold G fuel t ds none = none := by
  intro ds
  induction ds with
  | nil => rfl
  | cons d ds ih => simpa [pubFold] using ih

theorem pubFold_spec (G : Graph) (fuel t : Nat)
    (ih : ∀ m ds', pubDeps G fuel m = some ds' → ∀ d, PubDep G m d → d ∈ ds') :
    ∀ (ds : List Nat) (acc out : List Nat), pubFold G fuel t ds (some acc) = some out →
      (∀ x ∈ acc, x ∈ out) ∧
      (∀ d ∈ ds, G.pl d ≠ G.pl t → d ∈ out) ∧
      (∀ m ∈ ds, G.pl m = G.pl t → ∀ d, PubDep G m d → d ∈ out) := by
  intro ds
  induction ds with
  | nil =>
    intro acc out h
    simp only [pubFold, List.foldl_nil, Option.some.injEq] at h
    subst h
    exact ⟨fun _ h => h, by simp, by simp⟩
  | cons d ds ihl =>
    intro acc out h
    simp only [pubFold, List.foldl_cons] at h
    by_cases hc : G.pl d = G.pl t
    · have hb : (G.pl d == G.pl t) = true := by simp [hc]
      simp only [hb, ite_true] at h
      cases hp : pubDeps G fuel d with
      | none =>
        rw [hp] at h
        simp only [Option.map_none] at h
        have := pubFold_none G fuel t ds
        simp only [pubFold] at this
        rw [this] at h; cases h
      | some dl =>
        rw [hp] at h
        simp only [Option.map_some] at h
        obtain ⟨h1, h2, h3⟩ := ihl (acc ++ dl) out h
        refine ⟨fun x hx => h1 x (List.mem_append_left _ hx), ?_, ?_⟩
        · intro d' hd' hne
          simp only [List.mem_cons] at hd'
          rcases hd' with rfl | hd'
          · exact absurd hc hne
          · exact h2 d' hd' hne
        · intro m hm hpm x hx
          simp only [List.mem_cons] at hm
          rcases hm with rfl | hm
          · exact h1 x (List.mem_append_right _ (ih _ dl hp x hx))
          · exact h3 m hm hpm x hx
    · have hb : (G.pl d == G.pl t) = false := by simp [hc]
      simp only [hb, Bool.false_eq_true, ite_false] at h
      obtain ⟨h1, h2, h3⟩ := ihl (acc ++ [d]) out h
      refine ⟨fun x hx => h1 x (List.mem_append_left _ hx), ?_, ?_⟩
      · intro d' hd' hne
        simp only [List.mem_cons] at hd'
        rcases hd' with rfl | hd'
        · exact h1 _ (List.mem_append_right _ (List.mem_singleton.mpr rfl))
        · exact h2 d' hd' hne
      · intro m hm hpm x hx
        simp only [List.mem_cons] at hm
        rcases hm with rfl | hm
        · exact absurd hpm hc
        · exact h3 m hm hpm x hx

/-- `publicDependencies` returns every public dependency -/
theorem pubDeps_complete (G : Graph) : ∀ (fuel t : Nat) (ds : List Nat), pubDeps G fuel t = some ds →
    ∀ d, PubDep G t d → d ∈ ds := by
  intro fuel
  induction fuel with
  | zero => intro t ds h; simp [pubDeps] at h
  | succ fuel ih =>
    intro t ds h d hp
    rw [pubDeps_succ] at h
    obtain ⟨_, h2, h3⟩ := pubFold_spec G fuel t ih (G.decl t) [] ds h
    cases hp with
    | direct hm hne => exact h2 d hm hne
    | via hm hpm hrest => exact h3 _ hm hpm d hrest

/-! ### everything needed is kept -/

inductive Needed (G : Graph) (Q : Query) : Nat → Prop
  | root {t : Nat} : Root0 G Q t → Needed G Q t
  | dep {a b : Nat} : Needed G Q a → Dep G a b → Needed G Q b
  | test {t d : Nat} : Q.includeTests = false → t ∈ G.nodes → G.isTest t = true → PubDep G t d → Needed G Q d →
      G.testOnly d = false → Needed G Q t

theorem keepSet_nodup_and_closed (G : Graph) (Q : Query) (h : (keepSet G Q).oof = false) (hc : Q.includeTests = false) :
    TestClosed G (G.nodes.length + 1) (keepSet G Q) := by
  unfold keepSet at h ⊢
  simp only [hc, Bool.false_eq_true, ite_false] at h ⊢
  apply testFix_closed G _ _ _ _ h
  exact foldl_add_nodup G _ _ _ (foldl_add_nodup G _ _ _ (foldl_add_nodup G _ _ _ List.nodup_nil))

/-- Everything needed is kept. -/
theorem needed_kept (G : Graph) (Q : Query) (h : (keepSet G Q).oof = false) (t : Nat) (hn : Needed G Q t) :
    t ∈ (keepSet G Q).keep := by
  obtain ⟨hcl, hroots⟩ := keepSet_spec G Q h
  induction hn with
  | root hr => exact hroots _ hr
  | dep _ e ih => exact hcl _ ih _ (Or.inl e)
  | test hf ht hit hp _ hto ih =>
    obtain ⟨ds, hds, hall⟩ := keepSet_nodup_and_closed G Q h hf _ ht hit
    exact hall _ (pubDeps_complete G _ _ ds hds _ hp) ih hto

/-! ### fuel: with a terminating `publicDependencies` no bound of the model is ever reached -/

theorem pubFold_nodes (G : Graph) (hwf : GWF G) (fuel t : Nat) (ht : t ∈ G.nodes)
    (ih : ∀ m ds', m ∈ G.nodes → pubDeps G fuel m = some ds' → ∀ d ∈ ds', d ∈ G.nodes) :
    ∀ (ds : List Nat) (acc out : List Nat), (∀ d ∈ ds, d ∈ G.nodes) → (∀ x ∈ acc, x ∈ G.nodes) →
      pubFold G fuel t ds (some acc) = some out → ∀ x ∈ out, x ∈ G.nodes := by
  intro ds
  induction ds with
  | nil =>
    intro acc out _ hacc h
    simp only [pubFold, List.foldl_nil, Option.some.injEq] at h
    subst h; exact hacc
  | cons d ds ihl =>
    intro acc out hds hacc h
    simp only [pubFold, List.foldl_cons] at h
    have hd : d ∈ G.nodes := hds d (List.mem_cons_self ..)
    have hds' : ∀ d' ∈ ds, d' ∈ G.nodes := fun d' h' => hds d' (List.mem_cons_of_mem _ h')
    by_cases hc : G.pl d = G.pl t
    · have hb : (G.pl d == G.pl t) = true := by simp [hc]
      simp only [hb, ite_true] at h
      cases hp : pubDeps G fuel d with
      | none =>
        rw [hp] at h
        simp only [Option.map_none] at h
        have := pubFold_none G fuel t ds
        simp only [pubFold] at this
        rw [this] at h; cases h
      | some dl =>
        rw [hp] at h
        simp only [Option.map_some] at h
        apply ihl (acc ++ dl) out hds' _ h
        intro x hx
        rcases List.mem_append.mp hx with hx | hx
        · exact hacc x hx
        · exact ih d dl hd hp x hx
    · have hb : (G.pl d == G.pl t) = false := by simp [hc]
      simp only [hb, Bool.false_eq_true, ite_false] at h
      apply ihl (acc ++ [d]) out hds' _ h
      intro x hx
      rcases List.mem_append.mp hx with hx | hx
      · exact hacc x hx
      · simp only [List.mem_singleton] at hx; subst hx; exact hd

/-- public dependencies of a target are targets -/
theorem pubDeps_nodes (G : Graph) (hwf : GWF G) : ∀ (fuel t : Nat) (ds : List Nat), t ∈ G.nodes →
    pubDeps G fuel t = some ds → ∀ d ∈ ds, d ∈ G.nodes := by
  intro fuel
  induction fuel with
  | zero => intro t ds _ h; simp [pubDeps] at h
  | succ fuel ih =>
    intro t ds ht h
    rw [pubDeps_succ] at h
    exact pubFold_nodes G hwf fuel t ht (fun m ds' hm hp => ih m ds' hm hp) (G.decl t) [] ds (hwf t ht).1 (by simp) h

/-- between passes: no repeats, only targets, no bound reached -/
def KInv (G : Graph) (s : KSt) : Prop := s.keep.Nodup ∧ (∀ x ∈ s.keep, x ∈ G.nodes) ∧ s.oof = false

theorem kinv_add (G : Graph) (hwf : GWF G) {s : KSt} {t : Nat} (hs : KInv G s) (ht : t ∈ G.nodes) :
    KInv G (addTarget G (G.nodes.length + 1) s t) := by
  obtain ⟨⟨h1, h2, h3, _⟩, _⟩ := addTarget_fuel G hwf (G.nodes.length + 1) s t ⟨hs.1, hs.2.1, hs.2.2, by omega⟩ ht
  exact ⟨h1, h2, h3⟩

theorem kinv_testDeps (G : Graph) (hwf : GWF G) (t : Nat) (ht : t ∈ G.nodes) : ∀ (ds : List Nat) (s : KSt),
    (∀ d ∈ ds, d ∈ G.nodes) → KInv G s → KInv G (testDeps G (G.nodes.length + 1) t ds s) := by
  intro ds
  induction ds with
  | nil => intro s _ h; exact h
  | cons d ds ih =>
    intro s hds hs
    simp only [testDeps]
    apply ih _ (fun d' h' => hds d' (List.mem_cons_of_mem _ h'))
    split
    · exact kinv_add G hwf hs ht
    · split
      · exact kinv_add G hwf hs (hds d (List.mem_cons_self ..))
      · exact hs

theorem kinv_testPass (G : Graph) (hwf : GWF G) (hpd : ∀ t ∈ G.nodes, pubDeps G (G.nodes.length + 1) t ≠ none) :
    ∀ (ts : List Nat) (s : KSt), (∀ t ∈ ts, t ∈ G.nodes) → KInv G s → KInv G (testPass G (G.nodes.length + 1) ts s) := by
  intro ts
  induction ts with
  | nil => intro s _ h; exact h
  | cons t ts ih =>
    intro s hts hs
    have ht : t ∈ G.nodes := hts t (List.mem_cons_self ..)
    have hts' : ∀ t' ∈ ts, t' ∈ G.nodes := fun t' h' => hts t' (List.mem_cons_of_mem _ h')
    simp only [testPass]
    split
    · cases hp : pubDeps G (G.nodes.length + 1) t with
      | none => exact absurd hp (hpd t ht)
      | some ds =>
        simp only
        exact ih _ hts' (kinv_testDeps G hwf t ht ds s (pubDeps_nodes G hwf _ t ds ht hp) hs)
    · exact ih s hts' hs

theorem kinv_testFix (G : Graph) (hwf : GWF G) (hpd : ∀ t ∈ G.nodes, pubDeps G (G.nodes.length + 1) t ≠ none) :
    ∀ (k : Nat) (s : KSt), KInv G s → G.nodes.length + 1 ≤ k + s.keep.length →
      KInv G (testFix G (G.nodes.length + 1) k s) := by
  intro k
  induction k with
  | zero =>
    intro s hs hk
    have := PlzVerif.Cycle.nodup_subset_length _ _ hs.1 hs.2.1
    omega
  | succ k ih =>
    intro s hs hk
    simp only [testFix]
    have hp := kinv_testPass G hwf hpd G.nodes s (fun _ h => h) hs
    split
    · rename_i hne
      apply ih _ hp
      -- the pass kept everything and changed the length: it grew
      have hmono := ((grows_testPass G (G.nodes.length + 1) G.nodes).2 s hp.2.2).1
      have hle := PlzVerif.Cycle.nodup_subset_length _ _ hs.1 hmono
      have hne' : (testPass G (G.nodes.length + 1) G.nodes s).keep.length ≠ s.keep.length := by simpa using hne
      omega
    · exact hp

/-- On a graph that holds its dependencies, and on which `publicDependencies` terminates within the model's bound
(true of every acyclic graph), `targetsToRemove` never reaches a bound. -/
theorem keepSet_fuel (G : Graph) (hwf : GWF G) (Q : Query) (hpd : ∀ t ∈ G.nodes, pubDeps G (G.nodes.length + 1) t ≠ none)
    (hs : ∀ t ∈ Q.subincs, t ∈ G.nodes) (ha : ∀ t ∈ Q.args, t ∈ G.nodes) : (keepSet G Q).oof = false := by
  unfold keepSet
  simp only
  have hfold : ∀ (ts : List Nat) (s : KSt), (∀ t ∈ ts, t ∈ G.nodes) → KInv G s →
      KInv G (ts.foldl (fun s t => addTarget G (G.nodes.length + 1) s t) s) := by
    intro ts
    induction ts with
    | nil => intro s _ h; exact h
    | cons t ts ih =>
      intro s hts h
      simp only [List.foldl_cons]
      exact ih _ (fun t' h' => hts t' (List.mem_cons_of_mem _ h')) (kinv_add G hwf h (hts t (List.mem_cons_self ..)))
  have h0 : KInv G { keep := [] } := ⟨List.nodup_nil, by simp, rfl⟩
  have h3 := hfold Q.args _ ha (hfold Q.subincs _ hs (hfold (G.nodes.filter (isRoot G Q)) _ (fun t ht => (List.mem_filter.mp ht).1) h0))
  split
  · exact h3.2.2
  · exact (kinv_testFix G hwf hpd _ _ h3 (Nat.le_add_right _ _)).2.2

/-! ### `publicDependencies` terminates when dependencies inside one rule are acyclic -/

theorem pubFold_some (G : Graph) (fuel t : Nat) : ∀ (ds : List Nat) (acc : List Nat),
    (∀ d ∈ ds, G.pl d = G.pl t → pubDeps G fuel d ≠ none) → pubFold G fuel t ds (some acc) ≠ none := by
  intro ds
  induction ds with
  | nil => intro acc _; simp [pubFold]
  | cons d ds ih =>
    intro acc h
    simp only [pubFold, List.foldl_cons]
    by_cases hc : G.pl d = G.pl t
    · have hb : (G.pl d == G.pl t) = true := by simp [hc]
      simp only [hb, ite_true]
      cases hp : pubDeps G fuel d with
      | none => exact absurd hp (h d (List.mem_cons_self ..) hc)
      | some dl =>
        simp only [Option.map_some]
        exact ih _ (fun d' hd' => h d' (List.mem_cons_of_mem _ hd'))
    · have hb : (G.pl d == G.pl t) = false := by simp [hc]
      simp only [hb, Bool.false_eq_true, ite_false]
      exact ih _ (fun d' hd' => h d' (List.mem_cons_of_mem _ hd'))

/-- a ranking that strictly decreases along dependencies inside one rule (exists on every acyclic graph) -/
def RuleRank (G : Graph) (rank : Nat → Nat) : Prop := ∀ t d, d ∈ G.decl t → G.pl d = G.pl t → rank d < rank t

theorem pubDeps_terminates (G : Graph) (rank : Nat → Nat) (hr : RuleRank G rank) : ∀ (fuel t : Nat), rank t < fuel →
    pubDeps G fuel t ≠ none := by
  intro fuel
  induction fuel with
  | zero => intro t h; omega
  | succ fuel ih =>
    intro t h
    rw [pubDeps_succ]
    apply pubFold_some
    intro d hd hpl
    exact ih d (by have := hr t d hd hpl; omega)

/-! ### acyclic graphs: `publicDependencies` terminates, and a rank exists -/

/-- a declared dependency that stays inside the rule (what `publicDependencies` recurses through) -/
def RuleEdge (G : Graph) (t d : Nat) : Prop := d ∈ G.decl t ∧ G.pl d = G.pl t

inductive RulePath (G : Graph) : Nat → Nat → Prop
  | single {a b : Nat} : RuleEdge G a b → RulePath G a b
  | cons {a b c : Nat} : RuleEdge G a b → RulePath G b c → RulePath G a c

theorem RulePath.snoc {G : Graph} {a b c : Nat} (p : RulePath G a b) (e : RuleEdge G b c) : RulePath G a c := by
  induction p with
  | single e' => exact .cons e' (.single e)
  | cons e' _ ih => exact .cons e' (ih e)

/-- no dependency cycle inside one rule (in particular: every graph without dependency cycles, C06) -/
def RuleAcyclic (G : Graph) : Prop := ∀ t, ¬ RulePath G t t

/-- On an acyclic graph the recursion of `publicDependencies` follows a simple path of targets, so it is at most
`nodes.length` deep. -/
theorem pubDeps_terminates_acyclic (G : Graph) (hwf : GWF G) (hac : RuleAcyclic G) : ∀ (fuel t : Nat) (path : List Nat),
    t ∈ G.nodes → path.Nodup → (∀ p ∈ path, p ∈ G.nodes ∧ RulePath G p t) → G.nodes.length + 1 ≤ fuel + path.length →
    pubDeps G fuel t ≠ none := by
  intro fuel
  induction fuel with
  | zero =>
    intro t path _ hn hp hf
    have := PlzVerif.Cycle.nodup_subset_length path G.nodes hn (fun x hx => (hp x hx).1)
    omega
  | succ fuel ih =>
    intro t path ht hn hp hf
    rw [pubDeps_succ]
    apply pubFold_some
    intro d hd hpl
    have htp : t ∉ path := fun hin => hac t (hp t hin).2
    apply ih d (t :: path) ((hwf t ht).1 d hd) (List.nodup_cons.mpr ⟨htp, hn⟩)
    · intro p hpm
      simp only [List.mem_cons] at hpm
      rcases hpm with rfl | hpm
      · exact ⟨ht, .single ⟨hd, hpl⟩⟩
      · exact ⟨(hp p hpm).1, (hp p hpm).2.snoc ⟨hd, hpl⟩⟩
    · simp only [List.length_cons]; omega

theorem pubFold_some_inv (G : Graph) (fuel t : Nat) : ∀ (ds : List Nat) (acc : List Nat),
    pubFold G fuel t ds (some acc) ≠ none → ∀ d ∈ ds, G.pl d = G.pl t → pubDeps G fuel d ≠ none := by
  intro ds
  induction ds with
  | nil => intro acc _ d hd; simp at hd
  | cons d' ds ih =>
    intro acc h d hd hpl
    simp only [pubFold, List.foldl_cons] at h
    by_cases hc : G.pl d' = G.pl t
    · have hb : (G.pl d' == G.pl t) = true := by simp [hc]
      simp only [hb, ite_true] at h
      cases hp : pubDeps G fuel d' with
      | none =>
        rw [hp] at h
        simp only [Option.map_none] at h
        have := pubFold_none G fuel t ds
        simp only [pubFold] at this
        exact absurd this h
      | some dl =>
        rw [hp] at h
        simp only [Option.map_some] at h
        simp only [List.mem_cons] at hd
        rcases hd with rfl | hd
        · rw [hp]; simp
        · exact ih _ h d hd hpl
    · have hb : (G.pl d' == G.pl t) = false := by simp [hc]
      simp only [hb, Bool.false_eq_true, ite_false] at h
      simp only [List.mem_cons] at hd
      rcases hd with rfl | hd
      · exact absurd hpl hc
      · exact ih _ h d hd hpl

/-- search upwards from `f`, at most `k` steps, for a recursion budget with which `publicDependencies t` finishes -/
def firstFuel (G : Graph) (t : Nat) : Nat → Nat → Nat
  | 0, f => f
  | k+1, f => if (pubDeps G f t).isSome then f else firstFuel G t k (f + 1)

theorem firstFuel_spec (G : Graph) (t : Nat) : ∀ (k f f0 : Nat), f ≤ f0 → f0 ≤ f + k → pubDeps G f0 t ≠ none →
    (∀ g, f ≤ g → g < f0 → pubDeps G g t = none) → firstFuel G t (k + 1) f = f0 := by
  intro k
  induction k with
  | zero =>
    intro f f0 h1 h2 hs _
    have : f0 = f := by omega
    subst this
    simp only [firstFuel]
    cases hp : pubDeps G f0 t with
    | none => exact absurd hp hs
    | some _ => simp
  | succ k ih =>
    intro f f0 h1 h2 hs hmin
    rw [firstFuel]
    by_cases he : f = f0
    · subst he
      cases hp : pubDeps G f t with
      | none => exact absurd hp hs
      | some _ => simp
    · have hn : pubDeps G f t = none := hmin f (Nat.le_refl _) (by omega)
      simp only [hn, Option.isSome_none, Bool.false_eq_true, ite_false]
      exact ih (f + 1) f0 (by omega) (by omega) hs (fun g hg1 hg2 => hmin g (by omega) hg2)

/-- the least budget that suffices exists below any budget that suffices -/
theorem least_fuel (G : Graph) (t : Nat) : ∀ (f0 : Nat), pubDeps G f0 t ≠ none →
    ∃ m, m ≤ f0 ∧ pubDeps G m t ≠ none ∧ ∀ g, g < m → pubDeps G g t = none := by
  intro f0
  induction f0 using Nat.strongRecOn with
  | _ f0 ih =>
    intro hs
    by_cases hall : ∀ g, g < f0 → pubDeps G g t = none
    · exact ⟨f0, Nat.le_refl _, hs, hall⟩
    · have : ∃ g, g < f0 ∧ pubDeps G g t ≠ none := by
        apply Classical.byContradiction
        intro hne
        apply hall
        intro g hg
        apply Classical.byContradiction
        intro hgn
        exact hne ⟨g, hg, hgn⟩
      obtain ⟨g, hg, hgs⟩ := this
      obtain ⟨m, hm1, hm2, hm3⟩ := ih g hg hgs
      exact ⟨m, by omega, hm2, hm3⟩

/-- An acyclic graph (no dependency cycle inside one rule) that holds its dependencies has a rank that strictly
decreases along the dependencies `publicDependencies` follows, bounded by the number of targets. -/
theorem ruleRank_of_acyclic (G : Graph) (hwf : GWF G) (hac : RuleAcyclic G) :
    ∃ rank : Nat → Nat, (∀ t ∈ G.nodes, ∀ d, RuleEdge G t d → rank d < rank t) ∧ ∀ t ∈ G.nodes, rank t ≤ G.nodes.length := by
  -- rank t = (the least budget with which publicDependencies t finishes) - 1
  refine ⟨fun t => firstFuel G t (G.nodes.length + 2) 0 - 1, ?_, ?_⟩
  all_goals
    have hterm : ∀ t ∈ G.nodes, pubDeps G (G.nodes.length + 1) t ≠ none := fun t ht =>
      pubDeps_terminates_acyclic G hwf hac _ t [] ht List.nodup_nil (by simp) (by simp)
    have hfirst : ∀ t ∈ G.nodes, ∃ m, firstFuel G t (G.nodes.length + 2) 0 = m ∧ 1 ≤ m ∧ m ≤ G.nodes.length + 1 ∧
        pubDeps G m t ≠ none ∧ ∀ g, g < m → pubDeps G g t = none := by
      intro t ht
      obtain ⟨m, hm1, hm2, hm3⟩ := least_fuel G t _ (hterm t ht)
      have hpos : 1 ≤ m := by
        cases m with
        | zero => exact absurd rfl hm2
        | succ _ => omega
      exact ⟨m, firstFuel_spec G t (G.nodes.length + 1) 0 m (Nat.zero_le _) (by omega) hm2 (fun g _ hg => hm3 g hg),
        hpos, hm1, hm2, hm3⟩
  · intro t ht d ⟨hd, hpl⟩
    obtain ⟨m, em, hm1, _, hms, _⟩ := hfirst t ht
    obtain ⟨md, emd, hd1, _, _, hdmin⟩ := hfirst d ((hwf t ht).1 d hd)
    simp only [em, emd]
    -- m = m' + 1 and publicDependencies d finishes with budget m'
    obtain ⟨m', rfl⟩ : ∃ m', m = m' + 1 := ⟨m - 1, by omega⟩
    rw [pubDeps_succ] at hms
    have hdm : pubDeps G m' d ≠ none := pubFold_some_inv G m' t (G.decl t) [] hms d hd hpl
    have : md ≤ m' := by
      apply Classical.byContradiction
      intro hlt
      exact hdm (hdmin m' (by omega))
    omega
  · intro t ht
    obtain ⟨m, em, _, hm2, _, _⟩ := hfirst t ht
    simp only [em]; omega

end PlzVerif.GC
