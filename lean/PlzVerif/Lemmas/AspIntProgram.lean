import PlzVerif.Lemmas.AspFreeze
import PlzVerif.Model.AspInterp
import PlzVerif.Model.PyInterp
/-!
Integer programs (C16): a fragment of the common subset of asp and Python on which the two interpreters of the
model provably compute the same thing, for every program of the fragment — any number of statements, any nesting
depth, any environment.

  program ::= (x = e)*            e ::= n | x | ( e ) | e op e        op ∈ { + - * // % }

(`e op e` is a chain with one operator; nesting goes through the operands, parenthesised or not).  `den` is the
mathematical meaning: Python's unbounded integers, *defined* only where every literal is one the parser accepts, every
name is bound, every intermediate result fits 64 bits and no divisor is zero.  The theorems say that wherever `den`
is defined both interpreters run, leave their state as they found it, and return exactly that number.
-/
namespace PlzVerif.IntProg
open PlzVerif PlzVerif.Asp

inductive AOp | add | sub | mul | fdiv | mod
  deriving DecidableEq, Repr

def AOp.bin : AOp → BinOp
  | .add => .add | .sub => .sub | .mul => .mul | .fdiv => .fdiv | .mod => .mod

inductive IE
  | lit (n : Int)
  | var (x : String)
  | par (e : IE)
  | bin (op : AOp) (a b : IE)
  deriving Repr

def IE.toExpr : IE → Expr
  | .lit n => .int n
  | .var x => .name x
  | .par e => .paren e.toExpr
  | .bin op a b => .chain none a.toExpr [(op.bin, none, b.toExpr)]

def IE.depth : IE → Nat
  | .lit _ => 0
  | .var _ => 0
  | .par e => e.depth + 1
  | .bin _ a b => max a.depth b.depth + 1

abbrev Env := List (String × Int)

def Env.get (env : Env) (x : String) : Option Int := (env.find? (·.1 == x)).map (·.2)

def Env.put (env : Env) (x : String) (n : Int) : Env :=
  if env.any (·.1 == x) then env.map (fun e => if e.1 == x then (x, n) else e) else env ++ [(x, n)]

/-- Python's arithmetic on unbounded integers. -/
def arith : AOp → Int → Int → Int
  | .add, x, y => x + y
  | .sub, x, y => x - y
  | .mul, x, y => x * y
  | .fdiv, x, y => Int.fdiv x y
  | .mod, x, y => Int.fmod x y

def fits64 (n : Int) : Bool := decide (-9223372036854775808 ≤ n) && decide (n < 9223372036854775808)
/-- an int literal the parser accepts (fewer than 19 characters) -/
def litOK (n : Int) : Bool := decide (-100000000000000000 < n) && decide (n < 1000000000000000000)

/-- The meaning of an expression, where it has one inside the documented subset. -/
def den (env : Env) : IE → Option Int
  | .lit n => if litOK n then some n else none
  | .var x => env.get x
  | .par e => den env e
  | .bin op a b =>
    match den env a, den env b with
    | some x, some y =>
      if (op = .fdiv ∨ op = .mod) ∧ y = 0 then none
      else if fits64 (arith op x y) then some (arith op x y) else none
    | _, _ => none

abbrev Prog := List (String × IE)

def toProgram (p : Prog) : Program := p.map fun s => Stmt.assign s.1 s.2.toExpr

def denProg (env : Env) : Prog → Option Env
  | [] => some env
  | (x, e) :: r => match den env e with
    | some n => denProg (env.put x n) r
    | none => none

/-- Enough fuel: one unit per statement, two for entering a statement, one per nesting level. -/
def enough : Nat → Prog → Bool
  | 0, _ => false
  | _ + 1, [] => true
  | f + 1, (_, e) :: r => decide (e.depth + 2 ≤ f) && enough f r

/-! ### Generic monad facts -/

theorem run_bind_of_ok {σ α β : Type} (x : StateT σ (Except String) α) (f : α → StateT σ (Except String) β)
    (st s1 : σ) (a : α) (h : x.run st = .ok (a, s1)) : (x >>= f).run st = (f a).run s1 := by
  simp only [StateT.run, bind, StateT.bind, Except.bind] at *
  rw [h]

/-! ### Environments as variable lists -/

def aV (env : Env) : List (String × Asp.Val) := env.map fun e => (e.1, Asp.Val.int e.2)
def pV (env : Env) : List (String × Py.Val) := env.map fun e => (e.1, Py.Val.int e.2)

theorem dictGet_aV (env : Env) (x : String) : dictGet (aV env) x = (env.get x).map Asp.Val.int := by
  induction env with
  | nil => rfl
  | cons e r ih =>
    simp only [aV, dictGet, Env.get, List.map_cons, List.find?_cons] at ih ⊢
    by_cases h : (e.1 == x) = true
    · simp [h]
    · simp only [h]; exact ih

theorem assocGet_pV (env : Env) (x : String) : Py.assocGet (pV env) x = (env.get x).map Py.Val.int := by
  induction env with
  | nil => rfl
  | cons e r ih =>
    simp only [pV, Py.assocGet, Env.get, List.map_cons, List.find?_cons] at ih ⊢
    by_cases h : (e.1 == x) = true
    · simp [h]
    · simp only [h]; exact ih

theorem dictPut_aV (env : Env) (x : String) (n : Int) : dictPut (aV env) x (.int n) = aV (env.put x n) := by
  simp only [dictPut, Env.put, aV, List.any_map]
  by_cases h : (env.any fun e => e.1 == x) = true
  · have h' : (env.any ((fun e : String × Asp.Val => e.1 == x) ∘ fun e => (e.1, Asp.Val.int e.2))) = true := by
      simpa [Function.comp_def] using h
    simp only [h, h', if_true, List.map_map]
    apply List.map_congr_left
    intro e _
    by_cases he : (e.1 == x) = true <;> simp [Function.comp, he]
  · have h' : ¬ (env.any ((fun e : String × Asp.Val => e.1 == x) ∘ fun e => (e.1, Asp.Val.int e.2))) = true := by
      simpa [Function.comp_def] using h
    simp [h, h']

theorem assocPut_pV (env : Env) (x : String) (n : Int) : Py.assocPut (pV env) x (.int n) = pV (env.put x n) := by
  simp only [Py.assocPut, Env.put, pV, List.any_map]
  by_cases h : (env.any fun e => e.1 == x) = true
  · have h' : (env.any ((fun e : String × Py.Val => e.1 == x) ∘ fun e => (e.1, Py.Val.int e.2))) = true := by
      simpa [Function.comp_def] using h
    simp only [h, h', if_true, List.map_map]
    apply List.map_congr_left
    intro e _
    by_cases he : (e.1 == x) = true <;> simp [Function.comp, he]
  · have h' : ¬ (env.any ((fun e : String × Py.Val => e.1 == x) ∘ fun e => (e.1, Py.Val.int e.2))) = true := by
      simpa [Function.comp_def] using h
    simp [h, h']

/-! ### Expressions -/

theorem AOp.bin_cases (op : AOp) :
    op.bin = .add ∨ op.bin = .sub ∨ op.bin = .mul ∨ op.bin = .fdiv ∨ op.bin = .mod := by
  cases op <;> simp [AOp.bin]

theorem asp_chain1 (F' : Facts) (opt : Bool) (f sc : Nat) (pos : Bool) (op : BinOp) (a b : Expr)
    (hop : op = .add ∨ op = .sub ∨ op = .mul ∨ op = .fdiv ∨ op = .mod) :
    Asp.evalExpr F' opt (f + 1) sc pos (.chain none a [(op, none, b)]) = (do
      let obj ← Asp.evalExpr F' opt f sc false a
      let w ← Asp.evalExpr F' opt f sc true b
      binOp F' op obj w) := by
  rcases hop with rfl | rfl | rfl | rfl | rfl <;>
    simp [Asp.evalExpr, flatten, interpretOps, interpretOp, BinOp.lazy]

theorem py_chain1 (f fr : Nat) (op : BinOp) (a b : Expr)
    (hop : op = .add ∨ op = .sub ∨ op = .mul ∨ op = .fdiv ∨ op = .mod) :
    Py.evalExpr (f + 1) fr (.chain none a [(op, none, b)]) = (do
      let v ← Py.evalExpr f fr a
      let w ← Py.evalExpr f fr b
      Py.binOp op v w) := by
  rcases hop with rfl | rfl | rfl | rfl | rfl <;>
    simp [Py.evalExpr, pyGroup, climb, operandTree, evalTree, BinOp.lazy, pyPrecBin]

theorem asp_binOp_int (F' : Facts) (op : AOp) (x : Int) (w : Asp.Val) : binOp F' op.bin (.int x) w = intOp F' op.bin x w := by
  cases op <;> simp [AOp.bin, binOp]

/-- The package scope `sc` of `st` holds exactly the environment. -/
def AspRel (st : Asp.St) (sc : Nat) (env : Env) : Prop :=
  ∃ s, st.scopes[sc]? = some s ∧ s.vars = aV env

/-- The module frame `fr` of `st` holds exactly the environment. -/
def PyRel (st : Py.St) (fr : Nat) (env : Env) : Prop :=
  ∃ fm, st.frames[fr]? = some fm ∧ fm.vars = pV env

/-- What the integer operators of the asp model have to do (discharged from the regenerated facts in Props/C16). -/
def IntOpsOK (F' : Facts) : Prop :=
  ∀ (op : AOp) (x y : Int) (st : Asp.St), fits64 (arith op x y) = true → ((op = .fdiv ∨ op = .mod) → y ≠ 0) →
    (intOp F' op.bin x (.int y)).run st = .ok (.int (arith op x y), st)

theorem asp_lookup (st : Asp.St) (sc : Nat) (env : Env) (x : String) (n : Int) (hr : AspRel st sc env)
    (hx : env.get x = some n) : (Asp.lookup sc x).run st = .ok (.int n, st) := by
  obtain ⟨s, hs, hv⟩ := hr
  have hg : dictGet s.vars x = some (.int n) := by rw [hv, dictGet_aV, hx]; rfl
  simp [Asp.lookup, Asp.lookupIn, hs, hg, StateT.run, bind, StateT.bind, get, getThe, MonadStateOf.get, StateT.get,
    Except.bind, pure, StateT.pure, Except.pure]

theorem py_lookup (st : Py.St) (fr : Nat) (env : Env) (x : String) (n : Int) (hr : PyRel st fr env)
    (hx : env.get x = some n) : (Py.lookup fr x).run st = .ok (.int n, st) := by
  obtain ⟨fm, hs, hv⟩ := hr
  have hg : Py.assocGet fm.vars x = some (.int n) := by rw [hv, assocGet_pV, hx]; rfl
  simp [Py.lookup, Py.lookupIn, hs, hg, StateT.run, bind, StateT.bind, get, getThe, MonadStateOf.get, StateT.get,
    Except.bind, pure, StateT.pure, Except.pure]

/-- **asp evaluates an integer expression to its meaning**, in every state whose scope holds the environment, at
    every nesting depth, without changing the state. -/
theorem asp_eval (F' : Facts) (hF : IntOpsOK F') (opt : Bool) (env : Env) :
    ∀ (e : IE) (f sc : Nat) (pos : Bool) (st : Asp.St) (n : Int), e.depth < f → AspRel st sc env → den env e = some n →
      (Asp.evalExpr F' opt f sc pos e.toExpr).run st = .ok (.int n, st) := by
  intro e
  induction e with
  | lit m =>
    intro f sc pos st n hf _ hd
    cases f with
    | zero => omega
    | succ f =>
      simp only [den] at hd
      by_cases hl : litOK m = true
      · simp only [hl, if_true] at hd; cases hd
        have : ¬ (1000000000000000000 ≤ m ∨ m ≤ -100000000000000000) := by
          simp only [litOK, Bool.and_eq_true, decide_eq_true_eq] at hl; omega
        simp [IE.toExpr, Asp.evalExpr, this, StateT.run, pure, StateT.pure, Except.pure]
      · simp [hl] at hd
  | var x =>
    intro f sc pos st n hf hr hd
    cases f with
    | zero => omega
    | succ f =>
      simp only [IE.toExpr, Asp.evalExpr]
      exact asp_lookup st sc env x n hr hd
  | par e ih =>
    intro f sc pos st n hf hr hd
    cases f with
    | zero => omega
    | succ f =>
      simp only [IE.toExpr, Asp.evalExpr]
      exact ih f sc true st n (by simp only [IE.depth] at hf; omega) hr hd
  | bin op a b iha ihb =>
    intro f sc pos st n hf hr hd
    cases f with
    | zero => omega
    | succ f =>
      simp only [IE.depth] at hf
      simp only [den] at hd
      cases hda : den env a with
      | none => simp [hda] at hd
      | some x =>
        cases hdb : den env b with
        | none => simp [hda, hdb] at hd
        | some y =>
          simp only [hda, hdb] at hd
          by_cases hz : (op = .fdiv ∨ op = .mod) ∧ y = 0
          · simp [hz] at hd
          · simp only [hz, if_false] at hd
            by_cases hfit : fits64 (arith op x y) = true
            · simp only [hfit, if_true] at hd; cases hd
              simp only [IE.toExpr]
              rw [asp_chain1 F' opt f sc pos op.bin _ _ op.bin_cases]
              rw [run_bind_of_ok _ _ st st (.int x) (iha f sc false st x (by omega) hr hda)]
              rw [run_bind_of_ok _ _ st st (.int y) (ihb f sc true st y (by omega) hr hdb)]
              rw [asp_binOp_int]
              exact hF op x y st hfit (fun h hy => hz ⟨h, hy⟩)
            · simp [hfit] at hd

theorem py_binOp_int (op : AOp) (x y : Int) (hz : (op = .fdiv ∨ op = .mod) → y ≠ 0) :
    Py.binOp op.bin (.int x) (.int y) = pure (.int (arith op x y)) := by
  cases op
  · simp [AOp.bin, Py.binOp, Py.asInt, arith]
  · simp [AOp.bin, Py.binOp, Py.asInt, arith]
  · simp [AOp.bin, Py.binOp, Py.asInt, arith]
  · have hy : y ≠ 0 := hz (Or.inl rfl)
    simp [AOp.bin, Py.binOp, Py.asInt, arith, hy]
  · have hy : y ≠ 0 := hz (Or.inr rfl)
    simp [AOp.bin, Py.binOp, Py.asInt, arith, hy]

/-- **The Python reference evaluates an integer expression to its meaning**, likewise. -/
theorem py_eval (env : Env) :
    ∀ (e : IE) (f fr : Nat) (st : Py.St) (n : Int), e.depth < f → PyRel st fr env → den env e = some n →
      (Py.evalExpr f fr e.toExpr).run st = .ok (.int n, st) := by
  intro e
  induction e with
  | lit m =>
    intro f fr st n hf _ hd
    cases f with
    | zero => omega
    | succ f =>
      simp only [den] at hd
      by_cases hl : litOK m = true
      · simp only [hl, if_true] at hd; cases hd
        simp [IE.toExpr, Py.evalExpr, StateT.run, pure, StateT.pure, Except.pure]
      · simp [hl] at hd
  | var x =>
    intro f fr st n hf hr hd
    cases f with
    | zero => omega
    | succ f =>
      simp only [IE.toExpr, Py.evalExpr]
      exact py_lookup st fr env x n hr hd
  | par e ih =>
    intro f fr st n hf hr hd
    cases f with
    | zero => omega
    | succ f =>
      simp only [IE.toExpr, Py.evalExpr]
      exact ih f fr st n (by simp only [IE.depth] at hf; omega) hr hd
  | bin op a b iha ihb =>
    intro f fr st n hf hr hd
    cases f with
    | zero => omega
    | succ f =>
      simp only [IE.depth] at hf
      simp only [den] at hd
      cases hda : den env a with
      | none => simp [hda] at hd
      | some x =>
        cases hdb : den env b with
        | none => simp [hda, hdb] at hd
        | some y =>
          simp only [hda, hdb] at hd
          by_cases hz : (op = .fdiv ∨ op = .mod) ∧ y = 0
          · simp [hz] at hd
          · simp only [hz, if_false] at hd
            by_cases hfit : fits64 (arith op x y) = true
            · simp only [hfit, if_true] at hd; cases hd
              simp only [IE.toExpr]
              rw [py_chain1 f fr op.bin _ _ op.bin_cases]
              rw [run_bind_of_ok _ _ st st (.int x) (iha f fr st x (by omega) hr hda)]
              rw [run_bind_of_ok _ _ st st (.int y) (ihb f fr st y (by omega) hr hdb)]
              rw [py_binOp_int op x y (fun h hy => hz ⟨h, hy⟩)]
              rfl
            · simp [hfit] at hd

/-! ### Statements -/

theorem asp_setVar (st : Asp.St) (sc : Nat) (env : Env) (x : String) (n : Int) (hr : AspRel st sc env) :
    ∃ st', (Asp.setVar sc x (.int n)).run st = .ok ((), st') ∧ AspRel st' sc (env.put x n) := by
  obtain ⟨s, hs, hv⟩ := hr
  have hlt : sc < st.scopes.length := by
    rcases Nat.lt_or_ge sc st.scopes.length with h | h
    · exact h
    · rw [List.getElem?_eq_none h] at hs; cases hs
  refine ⟨{ st with scopes := st.scopes.set sc { s with vars := dictPut s.vars x (.int n) } }, ?_, ?_⟩
  · simp [Asp.setVar, hs, StateT.run, bind, StateT.bind, get, getThe, MonadStateOf.get, StateT.get, set, StateT.set,
      Except.bind, pure, Except.pure]
  · exact ⟨{ s with vars := dictPut s.vars x (.int n) }, by simp [hlt], by simp [hv, dictPut_aV]⟩

theorem py_bind (st : Py.St) (fr : Nat) (env : Env) (x : String) (n : Int) (hr : PyRel st fr env) :
    ∃ st', (Py.bind fr x (.int n)).run st = .ok ((), st') ∧ PyRel st' fr (env.put x n) := by
  obtain ⟨fm, hs, hv⟩ := hr
  have hlt : fr < st.frames.length := by
    rcases Nat.lt_or_ge fr st.frames.length with h | h
    · exact h
    · rw [List.getElem?_eq_none h] at hs; cases hs
  refine ⟨{ st with frames := st.frames.set fr { fm with vars := Py.assocPut fm.vars x (.int n) } }, ?_, ?_⟩
  · simp [Py.bind, hs, StateT.run, bind, StateT.bind, get, getThe, MonadStateOf.get, StateT.get, set, StateT.set,
      Except.bind, pure, Except.pure]
  · exact ⟨{ fm with vars := Py.assocPut fm.vars x (.int n) }, by simp [hlt], by simp [hv, assocPut_pV]⟩

/-- **asp runs an integer program to its meaning**: the package scope ends up holding exactly `denProg env p`. -/
theorem asp_exec (F' : Facts) (hF : IntOpsOK F') (opt : Bool) :
    ∀ (p : Prog) (f sc : Nat) (st : Asp.St) (env env' : Env), enough f p = true → AspRel st sc env →
      denProg env p = some env' →
      ∃ st', (Asp.execStmts F' opt f sc (toProgram p)).run st = .ok (.normal, st') ∧ AspRel st' sc env' := by
  intro p
  induction p with
  | nil =>
    intro f sc st env env' hf hr hd
    cases f with
    | zero => simp [enough] at hf
    | succ f =>
      simp only [denProg] at hd; cases hd
      exact ⟨st, by simp [toProgram, Asp.execStmts, StateT.run, pure, StateT.pure, Except.pure], hr⟩
  | cons s r ih =>
    intro f sc st env env' hf hr hd
    obtain ⟨x, e⟩ := s
    cases f with
    | zero => simp [enough] at hf
    | succ f =>
      simp only [enough, Bool.and_eq_true, decide_eq_true_eq] at hf
      obtain ⟨hdep, hrest⟩ := hf
      cases f with
      | zero => omega
      | succ g =>
        simp only [denProg] at hd
        cases hde : den env e with
        | none => simp [hde] at hd
        | some n =>
          simp only [hde] at hd
          obtain ⟨st1, hset, hr1⟩ := asp_setVar st sc env x n hr
          obtain ⟨st', hex, hr'⟩ := ih (g + 1) sc st1 (env.put x n) env' hrest hr1 hd
          refine ⟨st', ?_, hr'⟩
          have hev := asp_eval F' hF opt env e g sc true st n (by omega) hr hde
          simp only [toProgram, List.map_cons, Asp.execStmts, Asp.execStmt]
          simp only [toProgram] at hex
          rw [run_bind_of_ok _ _ st st1 Asp.Flow.normal]
          · exact hex
          · rw [run_bind_of_ok _ _ st st (.int n) hev]
            rw [run_bind_of_ok _ _ st st1 () hset]
            rfl

/-- **The Python reference runs an integer program to its meaning.** -/
theorem py_exec :
    ∀ (p : Prog) (f fr : Nat) (st : Py.St) (env env' : Env), enough f p = true → PyRel st fr env →
      denProg env p = some env' →
      ∃ st', (Py.execStmts f fr (toProgram p)).run st = .ok (.normal, st') ∧ PyRel st' fr env' := by
  intro p
  induction p with
  | nil =>
    intro f fr st env env' hf hr hd
    cases f with
    | zero => simp [enough] at hf
    | succ f =>
      simp only [denProg] at hd; cases hd
      exact ⟨st, by simp [toProgram, Py.execStmts, StateT.run, pure, StateT.pure, Except.pure], hr⟩
  | cons s r ih =>
    intro f fr st env env' hf hr hd
    obtain ⟨x, e⟩ := s
    cases f with
    | zero => simp [enough] at hf
    | succ f =>
      simp only [enough, Bool.and_eq_true, decide_eq_true_eq] at hf
      obtain ⟨hdep, hrest⟩ := hf
      cases f with
      | zero => omega
      | succ g =>
        simp only [denProg] at hd
        cases hde : den env e with
        | none => simp [hde] at hd
        | some n =>
          simp only [hde] at hd
          obtain ⟨st1, hset, hr1⟩ := py_bind st fr env x n hr
          obtain ⟨st', hex, hr'⟩ := ih (g + 1) fr st1 (env.put x n) env' hrest hr1 hd
          refine ⟨st', ?_, hr'⟩
          have hev := py_eval env e g fr st n (by omega) hr hde
          simp only [toProgram, List.map_cons, Py.execStmts, Py.execStmt]
          simp only [toProgram] at hex
          rw [run_bind_of_ok _ _ st st1 Py.Flow.normal]
          · exact hex
          · rw [run_bind_of_ok _ _ st st (.int n) hev]
            rw [run_bind_of_ok _ _ st st1 () hset]
            rfl

/-! ### Rendering -/

/-- the rendered value of a name in an environment -/
def rv (env : Env) (k : String) : RVal :=
  match env.get k with
  | some n => .int n
  | none => .none

theorem asp_renderKvs (env : Env) (d : Nat) (st : Asp.St) :
    ∀ (keys : List String) (f : Nat), keys.length + 1 < f →
      (Asp.renderKvs f (d + 1) (aV env) keys).run st = .ok (keys.map fun k => (k, rv env k), st) := by
  intro keys
  induction keys with
  | nil =>
    intro f hf
    cases f with
    | zero => omega
    | succ f => simp [Asp.renderKvs, StateT.run, pure, StateT.pure, Except.pure]
  | cons k r ih =>
    intro f hf
    cases f with
    | zero => omega
    | succ f =>
      cases f with
      | zero => simp at hf
      | succ g =>
        have hr := ih (g + 1) (by simp at hf ⊢; omega)
        simp only [Asp.renderKvs, dictGet_aV]
        cases hk : env.get k with
        | none =>
          simp only [Option.map_none, Option.getD_none, Asp.renderVal, List.map_cons, rv, hk]
          rw [run_bind_of_ok _ _ st st RVal.none (by simp [StateT.run, pure, StateT.pure, Except.pure])]
          rw [run_bind_of_ok _ _ st st _ hr]
          rfl
        | some n =>
          simp only [Option.map_some, Option.getD_some, Asp.renderVal, List.map_cons, rv, hk]
          rw [run_bind_of_ok _ _ st st (RVal.int n) (by simp [StateT.run, pure, StateT.pure, Except.pure])]
          rw [run_bind_of_ok _ _ st st _ hr]
          rfl

theorem py_renderKvs (env : Env) (d : Nat) (st : Py.St) :
    ∀ (keys : List String) (f : Nat), keys.length + 1 < f →
      (Py.renderKvs f (d + 1) (pV env) keys).run st = .ok (keys.map fun k => (k, rv env k), st) := by
  intro keys
  induction keys with
  | nil =>
    intro f hf
    cases f with
    | zero => omega
    | succ f => simp [Py.renderKvs, StateT.run, pure, StateT.pure, Except.pure]
  | cons k r ih =>
    intro f hf
    cases f with
    | zero => omega
    | succ f =>
      cases f with
      | zero => simp at hf
      | succ g =>
        have hr := ih (g + 1) (by simp at hf ⊢; omega)
        simp only [Py.renderKvs, assocGet_pV]
        cases hk : env.get k with
        | none =>
          simp only [Option.map_none, Option.getD_none, Py.renderVal, List.map_cons, rv, hk]
          rw [run_bind_of_ok _ _ st st RVal.none (by simp [StateT.run, pure, StateT.pure, Except.pure])]
          rw [run_bind_of_ok _ _ st st _ hr]
          rfl
        | some n =>
          simp only [Option.map_some, Option.getD_some, Py.renderVal, List.map_cons, rv, hk]
          rw [run_bind_of_ok _ _ st st (RVal.int n) (by simp [StateT.run, pure, StateT.pure, Except.pure])]
          rw [run_bind_of_ok _ _ st st _ hr]
          rfl

/-- sorted names of an environment -/
def skeys (env : Env) : List String := env.foldr (fun e acc => insertSorted e.1 acc) []

theorem sortedKeys_aV (env : Env) : sortedKeys (aV env) = skeys env := by
  induction env with
  | nil => rfl
  | cons e r ih => simp only [aV, sortedKeys, skeys, List.map_cons, List.foldr_cons] at ih ⊢; rw [ih]

theorem sortedKeys_pV (env : Env) :
    sortedKeys ((pV env).map fun e => (e.1, Asp.Val.none)) = skeys env := by
  induction env with
  | nil => rfl
  | cons e r ih => simp only [pV, sortedKeys, skeys, List.map_cons, List.foldr_cons, List.map_map] at ih ⊢; rw [ih]

theorem insertSorted_length (k : String) (l : List String) : (insertSorted k l).length = l.length + 1 := by
  induction l with
  | nil => rfl
  | cons x xs ih => simp only [insertSorted]; split <;> simp [ih]

theorem skeys_length (env : Env) : (skeys env).length = env.length := by
  induction env with
  | nil => rfl
  | cons e r ih => simp only [skeys, List.foldr_cons, List.length_cons] at ih ⊢; rw [insertSorted_length, ih]

theorem put_length_le (env : Env) (x : String) (n : Int) : (env.put x n).length ≤ env.length + 1 := by
  simp only [Env.put]; split <;> simp

theorem denProg_length : ∀ (p : Prog) (env env' : Env), denProg env p = some env' → env'.length ≤ env.length + p.length := by
  intro p
  induction p with
  | nil => intro env env' h; simp only [denProg] at h; cases h; simp
  | cons s r ih =>
    intro env env' h
    obtain ⟨x, e⟩ := s
    simp only [denProg] at h
    cases hd : den env e with
    | none => simp [hd] at h
    | some n =>
      simp only [hd] at h
      have := ih _ _ h
      have := put_length_le env x n
      simp only [List.length_cons]; omega

theorem filter_aV (env : Env) :
    (aV env).filter (fun e => match e.2 with | .func _ => false | _ => true) = aV env := by
  apply List.filter_eq_self.2
  intro e he
  simp only [aV, List.mem_map] at he
  obtain ⟨a, _, rfl⟩ := he
  rfl

theorem filter_pV (env : Env) :
    (pV env).filter (fun e => match e.2 with | .func _ => false | _ => true) = pV env := by
  apply List.filter_eq_self.2
  intro e he
  simp only [pV, List.mem_map] at he
  obtain ⟨a, _, rfl⟩ := he
  rfl

/-- The rendered globals of an environment: its names in sorted order with their values. -/
def globalsOf (env : Env) : List (String × RVal) := (skeys env).map fun k => (k, rv env k)

/-! ### Whole programs -/

/-- **asp runs an integer program** (as a package file) **to the rendered meaning**. -/
theorem asp_run (F' : Facts) (hF : IntOpsOK F') (p : Prog) (fuel : Nat) (env' : Env) (hfuel : enough fuel p = true)
    (hlen : p.length + 1 < 100000) (hd : denProg [] p = some env') :
    Asp.runProgram F' false fuel (toProgram p) = .ok (globalsOf env') := by
  let st0 : Asp.St := { scopes := [{ parent := none, vars := [] }, { parent := some 0, vars := [] }] }
  have hr0 : AspRel st0 1 [] := ⟨{ parent := some 0, vars := [] }, rfl, rfl⟩
  obtain ⟨st', hex, s, hs, hv⟩ := asp_exec F' hF false p fuel 1 st0 [] env' hfuel hr0 hd
  have hl : (sortedKeys (aV env')).length + 1 < 100000 := by
    rw [sortedKeys_aV, skeys_length]; have := denProg_length p [] env' hd; simp at this; omega
  have hrender : (Asp.renderScope 1).run st' = .ok (globalsOf env', st') := by
    simp only [Asp.renderScope]
    rw [run_bind_of_ok _ _ st' st' st' (by simp [StateT.run, get, getThe, MonadStateOf.get, StateT.get, pure, Except.pure])]
    simp only [hs, hv]
    rw [(List.filter_eq_self (l := aV env')).2 (by
      intro e he; simp only [aV, List.mem_map] at he; obtain ⟨a, _, rfl⟩ := he; rfl)]
    rw [asp_renderKvs env' 12 st' _ 100000 hl, sortedKeys_aV]
    rfl
  simp only [Asp.runProgram]
  have h1 : (Asp.newScope none).run ({} : Asp.St) = .ok (0, { scopes := [{ parent := none, vars := [] }] }) := rfl
  rw [run_bind_of_ok _ _ _ _ _ h1]
  have h2 : (Asp.newScope (some 0)).run ({ scopes := [{ parent := none, vars := [] }] } : Asp.St) = .ok (1, st0) := rfl
  rw [run_bind_of_ok _ _ _ _ _ h2]
  rw [run_bind_of_ok _ _ _ _ _ hex]
  simp only [Bool.false_eq_true, if_false]
  rw [hrender]

/-- **The Python reference runs an integer program to the same rendered meaning.** -/
theorem py_run (p : Prog) (fuel : Nat) (env' : Env) (hfuel : enough fuel p = true)
    (hlen : p.length + 1 < 100000) (hd : denProg [] p = some env') :
    Py.runProgram fuel (toProgram p) = .ok (globalsOf env') := by
  let st0 : Py.St := { frames := [{ parent := none, vars := [], locals := [] }] }
  have hr0 : PyRel st0 0 [] := ⟨{ parent := none, vars := [], locals := [] }, rfl, rfl⟩
  obtain ⟨st', hex, fm, hs, hv⟩ := py_exec p fuel 0 st0 [] env' hfuel hr0 hd
  have hl : (skeys env').length + 1 < 100000 := by
    rw [skeys_length]; have := denProg_length p [] env' hd; simp at this; omega
  simp only [Py.runProgram]
  have h1 : (Py.newFrame none []).run ({} : Py.St) = .ok (0, st0) := rfl
  rw [run_bind_of_ok _ _ _ _ _ h1]
  rw [run_bind_of_ok _ _ _ _ _ hex]
  rw [run_bind_of_ok _ _ st' st' st' (by simp [StateT.run, get, getThe, MonadStateOf.get, StateT.get, pure, Except.pure])]
  simp only [hs, hv]
  rw [(List.filter_eq_self (l := pV env')).2 (by
    intro e he; simp only [pV, List.mem_map] at he; obtain ⟨a, _, rfl⟩ := he; rfl)]
  rw [sortedKeys_pV, py_renderKvs env' 12 st' _ 100000 hl]
  rfl

theorem globals_beq_refl (env' : Env) : (globalsOf env' == globalsOf env') = true := by
  simp only [globalsOf]
  induction skeys env' with
  | nil => rfl
  | cons k r ih =>
    simp only [List.map_cons]
    have ih' : (List.map (fun k => (k, rv env' k)) r).beq (List.map (fun k => (k, rv env' k)) r) = true := ih
    show ((k, rv env' k) == (k, rv env' k) && _) = true
    rw [ih', Bool.and_true]
    simp only [rv]
    cases env'.get k <;> simp [BEq.beq, RVal.beq]

end PlzVerif.IntProg
