import PlzVerif.Model.PathHash
import PlzVerif.Lemmas.Frame
/-!
Lemmas about the path-hash pre-image (C09; also used by C01's conditional theorem).

* `contentOnly m` is the write schema of the pinned `PathHasher.hash`; under it the directory pre-image is
  `flat m (leaves t)` (`serDir_contentOnly`): names, nesting, empty directories, link targets and the
  boundaries between files are gone.
* `classify` names the root cause of a collision between two different trees; `classified` shows the four
  classes are exhaustive (outside them the pre-images differ).
* Positive results for the pinned schema: `sameSkel_inj` (same names/kinds/targets/sizes ⇒ contents are
  distinguished), `edit1_changes` (an in-place edit of one file is always seen), `size_ne`.
* `serFramed_uniq`: the framed encoder is self-delimiting, hence injective (the repair).
-/
namespace PlzVerif.PathHash
open PlzVerif.Frame

/-! ### decidable equality of trees -/
mutual
def Tree.beq : Tree → Tree → Bool
  | .file a, .file b => a == b
  | .symlink a, .symlink b => a == b
  | .dir a, .dir b => beqList a b
  | _, _ => false
def beqList : List (Bytes × Tree) → List (Bytes × Tree) → Bool
  | [], [] => true
  | (n, t) :: r, (n', t') :: r' => n == n' && t.beq t' && beqList r r'
  | _, _ => false
end

mutual
theorem Tree.beq_eq : ∀ (t u : Tree), t.beq u = true → t = u
  | .file a, .file b, h => by simp [Tree.beq] at h; rw [h]
  | .symlink a, .symlink b, h => by simp [Tree.beq] at h; rw [h]
  | .dir a, .dir b, h => by simp [Tree.beq] at h; rw [beqList_eq a b h]
  | .file _, .symlink _, h | .file _, .dir _, h | .symlink _, .file _, h
  | .symlink _, .dir _, h | .dir _, .file _, h | .dir _, .symlink _, h => by simp [Tree.beq] at h
theorem beqList_eq : ∀ (a b : List (Bytes × Tree)), beqList a b = true → a = b
  | [], [], _ => rfl
  | (n, t) :: r, (n', t') :: r', h => by
      simp [beqList] at h
      rw [h.1.1, Tree.beq_eq t t' h.1.2, beqList_eq r r' h.2]
  | [], _ :: _, h | _ :: _, [], h => by simp [beqList] at h
end

mutual
theorem Tree.beq_refl : ∀ (t : Tree), t.beq t = true
  | .file a => by simp [Tree.beq]
  | .symlink a => by simp [Tree.beq]
  | .dir a => by simp [Tree.beq, beqList_refl a]
theorem beqList_refl : ∀ (a : List (Bytes × Tree)), beqList a a = true
  | [] => rfl
  | (n, t) :: r => by simp [beqList, Tree.beq_refl t, beqList_refl r]
end

instance : DecidableEq Tree := fun t u =>
  if h : t.beq u = true then isTrue (Tree.beq_eq t u h)
  else isFalse (fun e => h (e ▸ Tree.beq_refl t))

/-! ### the pinned schema -/

/-- The schema of the pinned code: file contents, a marker per symlink, nothing else. -/
def contentOnly (m : Bytes) : Schema :=
  { marker := m, linkCond := stdCond, topFile := [.content], topLinkIn := [.marker, .target], topLinkOut := [.marker, .content],
    dirFile := [.content], dirLink := [.marker], dirDir := [] }

theorem flat_append (m : Bytes) (a b : List Leaf) : flat m (a ++ b) = flat m a ++ flat m b := by
  simp [flat]

mutual
theorem ser_walk (m : Bytes) : ∀ (p : Bytes) (t : Tree),
    (walk p t).flatMap (serEvent (contentOnly m)) = flat m (leaves t)
  | p, .file c => by simp [walk, leaves, flat, serEvent, itemsOf, contentOnly, itemBytes]
  | p, .symlink _ => by simp [walk, leaves, flat, serEvent, itemsOf, contentOnly, itemBytes]
  | p, .dir es => by
      have := ser_walkList m p es
      simp [walk, leaves, serEvent, itemsOf, contentOnly] at this ⊢
      exact this
theorem ser_walkList (m : Bytes) : ∀ (p : Bytes) (es : List (Bytes × Tree)),
    (walkList p es).flatMap (serEvent (contentOnly m)) = flat m (leavesList es)
  | p, [] => by simp [walkList, leavesList, flat]
  | p, (n, t) :: r => by
      have h1 := ser_walk m (p ++ slash :: n) t
      have h2 := ser_walkList m p r
      simp [walkList, leavesList, flat] at h1 h2 ⊢
      rw [h1, h2]
end

/-- The directory pre-image of the pinned code is the bare concatenation of the leaves. -/
theorem serDir_contentOnly (m p : Bytes) (t : Tree) : serDir (contentOnly m) p t = flat m (leaves t) :=
  ser_walk m p t

theorem hashPre_file (m root path ext c : Bytes) : hashPre (contentOnly m) root path ext (.file c) = c := by
  simp [hashPre, contentOnly]

theorem hashPre_dir (m root path ext : Bytes) (es) :
    hashPre (contentOnly m) root path ext (.dir es) = flat m (leavesList es) := by
  simp only [hashPre, serDir_contentOnly, leaves]

theorem hashPre_link_managed (m root path ext d : Bytes) (h : linkManaged root path d = true) :
    hashPre (contentOnly m) root path ext (.symlink d) = m ++ ensureRelative root d := by
  simp [hashPre, contentOnly, evalCond_std, h]

theorem hashPre_link_system (m root path ext d : Bytes) (h : linkManaged root path d = false) :
    hashPre (contentOnly m) root path ext (.symlink d) = m ++ ext := by
  simp [hashPre, contentOnly, evalCond_std, h]

/-! ### root causes of collisions -/

inductive Class where
  | same            -- the trees are equal
  | names           -- directories with the same leaf sequence: names / nesting / empty dirs / link targets differ
  | unframed        -- directories whose leaf sequences differ but concatenate to the same bytes
  | kind            -- a file, a symlink and a directory are not told apart (in-band marker, no kind tag)
  | rootPrefix      -- symlink destinations that differ only by the (string-)stripped root prefix
  | none            -- not explained: the pre-images must differ
  deriving DecidableEq, Repr

def Class.name : Class → String
  | .same => "same" | .names => "dir-entry-names-not-hashed" | .unframed => "dir-file-contents-unframed"
  | .kind => "path-kind-not-hashed" | .rootPrefix => "symlink-target-root-prefix-stripped" | .none => "none"

/-- Root cause of a collision between `t` and `u` at a repo-managed path (independent of `hashPre`). -/
def classify (m root : Bytes) : Tree → Tree → Class
  | .file a, .file b => if a = b then .same else .none
  | .symlink a, .symlink b =>
    if a = b then .same else if ensureRelative root a = ensureRelative root b then .rootPrefix else .none
  | .dir a, .dir b =>
    if beqList a b then .same else if leavesList a = leavesList b then .names
    else if flat m (leavesList a) = flat m (leavesList b) then .unframed else .none
  | .file c, .dir es => if c = flat m (leavesList es) then .kind else .none
  | .dir es, .file c => if flat m (leavesList es) = c then .kind else .none
  | .file c, .symlink d => if c = m ++ ensureRelative root d then .kind else .none
  | .symlink d, .file c => if m ++ ensureRelative root d = c then .kind else .none
  | .symlink d, .dir es => if m ++ ensureRelative root d = flat m (leavesList es) then .kind else .none
  | .dir es, .symlink d => if flat m (leavesList es) = m ++ ensureRelative root d then .kind else .none

/-- Top-level symlinks (if any) point into the repo: the branch that hashes the destination name. -/
def managed (root path : Bytes) : Tree → Bool
  | .symlink d => linkManaged root path d
  | _ => true

/-- The classes are exhaustive: equal pre-images of repo-managed trees are always explained. -/
theorem classified (m root path ext : Bytes) (t u : Tree)
    (ht : managed root path t = true) (hu : managed root path u = true)
    (h : hashPre (contentOnly m) root path ext t = hashPre (contentOnly m) root path ext u) :
    classify m root t u ≠ .none := by
  cases t <;> cases u <;> simp only [managed] at ht hu <;>
    simp only [hashPre_file, hashPre_dir, hashPre_link_managed, ht, hu] at h <;>
    simp only [classify]
  · subst h; simp
  · simp [h]
  · simp [h]
  · simp [h]
  · rename_i a b
    have := List.append_cancel_left h
    by_cases hab : a = b <;> simp [hab, this]
  · simp [h]
  · simp [h]
  · simp [h]
  · rename_i a b
    by_cases hab : beqList a b = true
    · simp [hab]
    · simp only [hab]; by_cases hl : leavesList a = leavesList b <;> simp [hl, h]

theorem classify_same_iff (m root : Bytes) (t u : Tree) : classify m root t u = .same ↔ t = u := by
  cases t <;> cases u <;> simp only [classify]
  · rename_i a b; by_cases h : a = b <;> simp [h]
  · split <;> simp
  · split <;> simp
  · split <;> simp
  · rename_i a b
    by_cases h : a = b
    · simp [h]
    · simp only [h, if_false]; split <;> simp [h]
  · split <;> simp
  · split <;> simp
  · split <;> simp
  · rename_i a b
    constructor
    · intro h
      by_cases hb : beqList a b = true
      · rw [beqList_eq a b hb]
      · exfalso
        by_cases h1 : leavesList a = leavesList b
        · simp [hb, h1] at h
        · by_cases h2 : flat m (leavesList a) = flat m (leavesList b) <;> simp [hb, h1, h2] at h
    · intro h
      injection h with h
      subst h
      simp [beqList_refl]

/-! ### where the pinned schema does distinguish -/

/-- A tree with file contents replaced by their sizes. -/
inductive Skel where
  | file (size : Nat)
  | symlink (target : Bytes)
  | dir (entries : List (Bytes × Skel))

mutual
def skel : Tree → Skel
  | .file c => .file c.length
  | .symlink t => .symlink t
  | .dir es => .dir (skelList es)
def skelList : List (Bytes × Tree) → List (Bytes × Skel)
  | [] => []
  | (n, t) :: r => (n, skel t) :: skelList r
end

mutual
/-- Same names, kinds, link targets and file sizes: then the concatenated contents determine the tree. -/
theorem sameSkel_uniq (m : Bytes) : ∀ (t u : Tree) (r s : Bytes), skel t = skel u →
    flat m (leaves t) ++ r = flat m (leaves u) ++ s → t = u ∧ r = s
  | .file c, u, r, s, hs, h => by
      cases u <;> simp [skel] at hs
      rename_i c'
      simp [leaves, flat] at h
      obtain ⟨h1, h2⟩ := List.append_inj h hs
      exact ⟨by rw [h1], h2⟩
  | .symlink d, u, r, s, hs, h => by
      cases u <;> simp [skel] at hs
      subst hs
      simp [leaves, flat] at h
      exact ⟨rfl, h⟩
  | .dir es, u, r, s, hs, h => by
      cases u <;> simp [skel] at hs
      rename_i es'
      simp only [leaves] at h
      obtain ⟨h1, h2⟩ := sameSkelList_uniq m es es' r s hs h
      exact ⟨by rw [h1], h2⟩
theorem sameSkelList_uniq (m : Bytes) : ∀ (a b : List (Bytes × Tree)) (r s : Bytes), skelList a = skelList b →
    flat m (leavesList a) ++ r = flat m (leavesList b) ++ s → a = b ∧ r = s
  | [], b, r, s, hs, h => by
      cases b with
      | nil => simpa [leavesList, flat] using h
      | cons x _ => obtain ⟨n, t⟩ := x; simp [skelList] at hs
  | (n, t) :: a, b, r, s, hs, h => by
      cases b with
      | nil => simp [skelList] at hs
      | cons x b =>
        obtain ⟨n', t'⟩ := x
        simp only [skelList, List.cons.injEq, Prod.mk.injEq] at hs
        simp only [leavesList, flat_append, List.append_assoc] at h
        obtain ⟨h1, h2⟩ := sameSkel_uniq m t t' _ _ hs.1.2 h
        obtain ⟨h3, h4⟩ := sameSkelList_uniq m a b r s hs.2 h2
        exact ⟨by rw [hs.1.1, h1, h3], h4⟩
end

theorem sameSkel_inj (m : Bytes) (t u : Tree) (hs : skel t = skel u)
    (h : flat m (leaves t) = flat m (leaves u)) : t = u :=
  (sameSkel_uniq m t u [] [] hs (by simpa using h)).1

/-- `u` is `t` with the content of exactly one regular file replaced by a different content. -/
inductive Edit1 : Tree → Tree → Prop where
  | file (c c' : Bytes) : c ≠ c' → Edit1 (.file c) (.file c')
  | dir (pre post : List (Bytes × Tree)) (n : Bytes) (t u : Tree) :
      Edit1 t u → Edit1 (.dir (pre ++ (n, t) :: post)) (.dir (pre ++ (n, u) :: post))

theorem leavesList_append : ∀ (a b : List (Bytes × Tree)), leavesList (a ++ b) = leavesList a ++ leavesList b
  | [], b => by simp [leavesList]
  | (n, t) :: a, b => by simp [leavesList, leavesList_append a b]

/-- An in-place edit of one file always changes the directory pre-image (no size restriction). -/
theorem edit1_changes (m : Bytes) {t u : Tree} (e : Edit1 t u) : flat m (leaves t) ≠ flat m (leaves u) := by
  induction e with
  | file c c' hne => simpa [leaves, flat] using hne
  | dir pre post n t u _ ih =>
    intro h
    simp only [leaves, leavesList_append, leavesList, flat_append] at h
    exact ih (List.append_cancel_right (List.append_cancel_left h))

mutual
/-- Number of bytes the pinned schema writes for a directory tree. -/
def size (m : Bytes) : Tree → Nat
  | .file c => c.length
  | .symlink _ => m.length
  | .dir es => sizeList m es
def sizeList (m : Bytes) : List (Bytes × Tree) → Nat
  | [] => 0
  | (_, t) :: r => size m t + sizeList m r
end

mutual
theorem flat_length (m : Bytes) : ∀ t : Tree, (flat m (leaves t)).length = size m t
  | .file c => by simp [leaves, flat, size]
  | .symlink _ => by simp [leaves, flat, size]
  | .dir es => by simpa [leaves, size] using flatList_length m es
theorem flatList_length (m : Bytes) : ∀ es : List (Bytes × Tree), (flat m (leavesList es)).length = sizeList m es
  | [] => by simp [leavesList, flat, sizeList]
  | (n, t) :: r => by
      simp only [leavesList, flat_append, List.length_append, sizeList, flat_length m t, flatList_length m r]
end

/-- Adding or removing anything that writes at least one byte changes the pre-image. -/
theorem size_ne (m : Bytes) (t u : Tree) (h : size m t ≠ size m u) : flat m (leaves t) ≠ flat m (leaves u) := by
  intro e
  apply h
  rw [← flat_length, ← flat_length, e]

/-! ### the framed encoder is self-delimiting -/

theorem hdr_eq_unary : ∀ n, hdr n = unary (1 : UInt8) 0 n
  | 0 => rfl
  | n + 1 => by simp [hdr, unary, hdr_eq_unary n]

theorem hdr_uniq : Uniq hdr := by
  have : hdr = unary (1 : UInt8) 0 := funext hdr_eq_unary
  rw [this]
  exact unary_uniq (by decide)

theorem framed_uniq : Uniq framed := frameU_uniq hdr_uniq

mutual
theorem serFramed_uniq' : ∀ (t u : Tree) (r s : Bytes), serFramed t ++ r = serFramed u ++ s → t = u ∧ r = s
  | .file c, u, r, s, h => by
      cases u <;> simp [serFramed] at h
      obtain ⟨e, hr⟩ := framed_uniq _ _ _ _ h
      exact ⟨by rw [e], hr⟩
  | .symlink d, u, r, s, h => by
      cases u <;> simp [serFramed] at h
      obtain ⟨e, hr⟩ := framed_uniq _ _ _ _ h
      exact ⟨by rw [e], hr⟩
  | .dir es, u, r, s, h => by
      cases u <;> simp [serFramed] at h
      rename_i es'
      obtain ⟨hl, h2⟩ := hdr_uniq _ _ _ _ h
      obtain ⟨e, hr⟩ := serFramedList_uniq' es es' r s hl h2
      exact ⟨by rw [e], hr⟩
theorem serFramedList_uniq' : ∀ (a b : List (Bytes × Tree)) (r s : Bytes), a.length = b.length →
    serFramedList a ++ r = serFramedList b ++ s → a = b ∧ r = s
  | [], b, r, s, hl, h => by
      cases b with
      | nil => simpa [serFramedList] using h
      | cons _ _ => simp at hl
  | (n, t) :: a, b, r, s, hl, h => by
      cases b with
      | nil => simp at hl
      | cons x b =>
        obtain ⟨n', t'⟩ := x
        simp only [serFramedList, List.append_assoc] at h
        obtain ⟨e1, h1⟩ := framed_uniq _ _ _ _ h
        obtain ⟨e2, h2⟩ := serFramed_uniq' t t' _ _ h1
        obtain ⟨e3, h3⟩ := serFramedList_uniq' a b r s (by simpa using hl) h2
        exact ⟨by rw [e1, e2, e3], h3⟩
end

theorem serFramed_uniq : Uniq serFramed := fun t u r s h => serFramed_uniq' t u r s h

end PlzVerif.PathHash
