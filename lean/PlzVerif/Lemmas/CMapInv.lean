import PlzVerif.Lemmas.CMap
/-! C15: the wake-up invariant `WInv` (on the shared memory) and the per-thread / `GetOrSet` invariants. -/
namespace PlzVerif.CMap
set_option linter.unusedSectionVars false

variable {V : Type} [Inhabited V] (c : Cfg V)

/-- Channel bookkeeping: every channel belongs to exactly one key; it is open exactly while that key holds
    its placeholder and closed exactly once the key has a value. -/
structure WInv (σ : Shared V) : Prop where
  alloc : ∀ ch k, σ.chanKey ch = some k → ch < σ.nextCh
  waitingKey : ∀ k ch, σ.lookup c k = some (.waiting ch) → σ.chanKey ch = some k ∧ ch ∉ σ.closed
  closedVal : ∀ ch, ch ∈ σ.closed → ∃ k, σ.chanKey ch = some k ∧ ∃ v, σ.lookup c k = some (.val v)
  chanPresent : ∀ ch k, σ.chanKey ch = some k →
      σ.lookup c k = some (.waiting ch) ∨ ((∃ v, σ.lookup c k = some (.val v)) ∧ ch ∈ σ.closed)
  chanUnique : ∀ ch ch' k, σ.chanKey ch = some k → σ.chanKey ch' = some k → ch = ch'
  storedHead : ∀ k v, σ.lookup c k = some (.val v) → ∃ r, σ.stored k = v :: r

omit [Inhabited V] in
theorem winv_init : WInv c (Shared.init : Shared V) := by
  constructor <;> simp [Shared.init, Shared.lookup, AMap.get]

omit [Inhabited V] in
/-- storing a value over a value or into an absent key -/
theorem winv_storeVal (σ : Shared V) (h : WInv c σ) (k : Key) (v : V)
    (hk : ∀ ch, σ.lookup c k ≠ some (.waiting ch)) : WInv c (σ.storeVal c k v) := by
  have hck : ∀ ch, σ.chanKey ch = some k → (∃ v, σ.lookup c k = some (.val v)) ∧ ch ∈ σ.closed := by
    intro ch hc
    rcases h.chanPresent ch k hc with h1 | h1
    · exact absurd h1 (hk ch)
    · exact h1
  constructor
  · intro ch k' hc; exact h.alloc ch k' hc
  · intro k' ch hl
    simp only [Shared.lookup_storeVal] at hl
    split at hl
    · cases hl
    · exact h.waitingKey k' ch hl
  · intro ch hc
    obtain ⟨k', hk', v', hv'⟩ := h.closedVal ch hc
    refine ⟨k', hk', ?_⟩
    simp only [Shared.lookup_storeVal]
    by_cases e : k' = k
    · simp [e]
    · simp [e, hv']
  · intro ch k' hc
    simp only [Shared.lookup_storeVal, Shared.storeVal_closed]
    by_cases e : k' = k
    · subst e; right; exact ⟨⟨v, by simp⟩, (hck ch hc).2⟩
    · simp only [e, if_false]; exact h.chanPresent ch k' hc
  · exact h.chanUnique
  · intro k' v' hl
    simp only [Shared.lookup_storeVal] at hl
    simp only [Shared.storeVal_stored]
    by_cases e : k' = k
    · subst e; simp at hl; subst hl; exact ⟨σ.stored k', by simp⟩
    · simp only [e, if_false] at hl; simp [upd_other _ _ _ _ e]; exact h.storedHead k' v' hl

omit [Inhabited V] in
/-- storing a value over a placeholder and closing its channel -/
theorem winv_storeVal_close (σ : Shared V) (h : WInv c σ) (k : Key) (v : V) (ch0 : Chan)
    (hk : σ.lookup c k = some (.waiting ch0)) :
    WInv c { σ.storeVal c k v with closed := ch0 :: σ.closed } := by
  have h0 := h.waitingKey k ch0 hk
  constructor
  · intro ch k' hc; exact h.alloc ch k' hc
  · intro k' ch hl
    have hl' : (σ.storeVal c k v).lookup c k' = some (.waiting ch) := hl
    simp only [Shared.lookup_storeVal] at hl'
    split at hl'
    · cases hl'
    · rename_i e
      have := h.waitingKey k' ch hl'
      refine ⟨this.1, ?_⟩
      intro hm
      have hm' : ch ∈ ch0 :: σ.closed := hm
      rcases List.mem_cons.mp hm' with e1 | e1
      · subst e1; rw [h0.1] at this; exact e (Option.some.inj this.1).symm
      · exact this.2 e1
  · intro ch hc
    have hc' : ch ∈ ch0 :: σ.closed := hc
    show ∃ k', σ.chanKey ch = some k' ∧ ∃ v', (σ.storeVal c k v).lookup c k' = some (.val v')
    simp only [Shared.lookup_storeVal]
    rcases List.mem_cons.mp hc' with e1 | e1
    · subst e1; exact ⟨k, h0.1, v, by simp⟩
    · obtain ⟨k', hk', v', hv'⟩ := h.closedVal ch e1
      refine ⟨k', hk', ?_⟩
      by_cases e : k' = k
      · simp [e]
      · simp [e, hv']
  · intro ch k' hc
    show (σ.storeVal c k v).lookup c k' = some (.waiting ch) ∨
      ((∃ v', (σ.storeVal c k v).lookup c k' = some (.val v')) ∧ ch ∈ ch0 :: σ.closed)
    simp only [Shared.lookup_storeVal]
    by_cases e : k' = k
    · subst e; right; refine ⟨⟨v, by simp⟩, ?_⟩
      rcases h.chanPresent ch k' hc with h1 | h1
      · rw [hk] at h1; cases h1; exact List.mem_cons_self
      · exact List.mem_cons_of_mem _ h1.2
    · simp only [e, if_false]
      rcases h.chanPresent ch k' hc with h1 | h1
      · exact .inl h1
      · exact .inr ⟨h1.1, List.mem_cons_of_mem _ h1.2⟩
  · exact h.chanUnique
  · intro k' v' hl
    have hl' : (σ.storeVal c k v).lookup c k' = some (.val v') := hl
    simp only [Shared.lookup_storeVal] at hl'
    show ∃ r, (upd σ.stored k (v :: σ.stored k)) k' = v' :: r
    by_cases e : k' = k
    · subst e; simp at hl'; subst hl'; exact ⟨σ.stored k', by simp⟩
    · simp only [e, if_false] at hl'; simp [upd_other _ _ _ _ e]; exact h.storedHead k' v' hl'

theorem winv_csSet (σ : Shared V) (h : WInv c σ) (k v ow) : WInv c (csSet c σ k v ow).1 := by
  unfold csSet
  split
  · rename_i old hl
    split
    · exact winv_storeVal c σ h k v (by intro ch; rw [hl]; simp)
    · exact h
  · rename_i ch hl; exact winv_storeVal_close c σ h k v ch hl
  · rename_i hl; exact winv_storeVal c σ h k v (by intro ch; rw [hl]; simp)

theorem winv_csLazySet (σ : Shared V) (h : WInv c σ) (k v) : WInv c (csLazySet c σ k v).1 := by
  unfold csLazySet
  split
  · exact h
  · rename_i ch hl; exact winv_storeVal_close c σ h k v ch hl
  · rename_i hl; exact winv_storeVal c σ h k v (by intro ch; rw [hl]; simp)

theorem winv_csGetSlow (σ : Shared V) (h : WInv c σ) (k) : WInv c (csGetSlow c σ k).1 := by
  unfold csGetSlow
  split
  · exact h
  · rename_i hl
    have hfresh : ∀ k', σ.chanKey σ.nextCh ≠ some k' := fun k' hc => Nat.lt_irrefl _ (h.alloc _ _ hc)
    have hnk : ∀ ch, σ.chanKey ch ≠ some k := by
      intro ch hc
      rcases h.chanPresent ch k hc with h1 | h1
      · rw [hl] at h1; cases h1
      · obtain ⟨⟨v, hv⟩, _⟩ := h1; rw [hl] at hv; cases hv
    constructor
    · intro ch k' hc
      show ch < σ.nextCh + 1
      have hc' : upd σ.chanKey σ.nextCh (some k) ch = some k' := hc
      by_cases e : ch = σ.nextCh
      · exact e ▸ Nat.lt_succ_self _
      · rw [upd_other _ _ _ _ e] at hc'; exact Nat.lt_succ_of_lt (h.alloc ch k' hc')
    · intro k' ch hl'
      have hl2 : (σ.store c k (.waiting σ.nextCh)).lookup c k' = some (.waiting ch) := hl'
      simp only [Shared.lookup_store] at hl2
      show upd σ.chanKey σ.nextCh (some k) ch = some k' ∧ ch ∉ σ.closed
      by_cases e : k' = k
      · subst e; simp at hl2; subst hl2
        refine ⟨by simp, ?_⟩
        intro hm; obtain ⟨k2, hk2, _⟩ := h.closedVal _ hm; exact hfresh k2 hk2
      · simp only [e, if_false] at hl2
        have := h.waitingKey k' ch hl2
        have hne : ch ≠ σ.nextCh := fun e1 => hfresh k' (e1 ▸ this.1)
        exact ⟨by rw [upd_other _ _ _ _ hne]; exact this.1, this.2⟩
    · intro ch hc
      have hc' : ch ∈ σ.closed := hc
      obtain ⟨k', hk', v', hv'⟩ := h.closedVal ch hc'
      have hne : ch ≠ σ.nextCh := fun e1 => hfresh k' (e1 ▸ hk')
      have hkk : k' ≠ k := fun e => by rw [e, hl] at hv'; cases hv'
      refine ⟨k', ?_, v', ?_⟩
      · show upd σ.chanKey σ.nextCh (some k) ch = some k'; rw [upd_other _ _ _ _ hne]; exact hk'
      · show (σ.store c k (.waiting σ.nextCh)).lookup c k' = some (.val v')
        simp [Shared.lookup_store, hkk, hv']
    · intro ch k' hc
      have hc' : upd σ.chanKey σ.nextCh (some k) ch = some k' := hc
      show (σ.store c k (.waiting σ.nextCh)).lookup c k' = some (.waiting ch) ∨
        ((∃ v', (σ.store c k (.waiting σ.nextCh)).lookup c k' = some (.val v')) ∧ ch ∈ σ.closed)
      simp only [Shared.lookup_store]
      by_cases e : ch = σ.nextCh
      · subst e; simp at hc'; subst hc'; left; simp
      · rw [upd_other _ _ _ _ e] at hc'
        have hkk : k' ≠ k := fun e1 => hnk ch (e1 ▸ hc')
        simp only [hkk, if_false]
        exact h.chanPresent ch k' hc'
    · intro ch ch' k' hc hc'
      have h1 : upd σ.chanKey σ.nextCh (some k) ch = some k' := hc
      have h2 : upd σ.chanKey σ.nextCh (some k) ch' = some k' := hc'
      by_cases e : ch = σ.nextCh <;> by_cases e' : ch' = σ.nextCh
      · rw [e, e']
      · subst e; simp at h1; subst h1; rw [upd_other _ _ _ _ e'] at h2; exact absurd h2 (hnk ch')
      · subst e'; simp at h2; subst h2; rw [upd_other _ _ _ _ e] at h1; exact absurd h1 (hnk ch)
      · rw [upd_other _ _ _ _ e] at h1; rw [upd_other _ _ _ _ e'] at h2; exact h.chanUnique ch ch' k' h1 h2
    · intro k' v' hl'
      have hl2 : (σ.store c k (.waiting σ.nextCh)).lookup c k' = some (.val v') := hl'
      simp only [Shared.lookup_store] at hl2
      show ∃ r, σ.stored k' = v' :: r
      by_cases e : k' = k
      · subst e; simp at hl2
      · simp only [e, if_false] at hl2; exact h.storedHead k' v' hl2

/-- the key fact about channels: closed exactly when the key has been added -/
theorem winv_closed_iff {σ : Shared V} (h : WInv c σ) {ch k} (hc : σ.chanKey ch = some k) :
    ch ∈ σ.closed ↔ ∃ v, σ.lookup c k = some (.val v) := by
  constructor
  · intro hm
    rcases h.chanPresent ch k hc with h1 | h1
    · exact absurd hm (h.waitingKey k ch h1).2
    · exact h1.1
  · intro ⟨v, hv⟩
    rcases h.chanPresent ch k hc with h1 | h1
    · rw [hv] at h1; cases h1
    · exact h1.2

/-! ### what only ever grows -/

/-- `σ'` extends `σ`: keys stay present, values stay values, channels stay assigned/closed, the log grows. -/
structure Ext (σ σ' : Shared V) : Prop where
  chanKey : ∀ ch k, σ.chanKey ch = some k → σ'.chanKey ch = some k
  present : ∀ k, σ.lookup c k ≠ none → σ'.lookup c k ≠ none
  isVal : ∀ k, (∃ v, σ.lookup c k = some (.val v)) → ∃ v, σ'.lookup c k = some (.val v)
  stored : ∀ k v, v ∈ σ.stored k → v ∈ σ'.stored k
  closed : ∀ ch, ch ∈ σ.closed → ch ∈ σ'.closed

theorem ext_refl (σ : Shared V) : Ext c σ σ := ⟨fun _ _ h => h, fun _ h => h, fun _ h => h, fun _ _ h => h, fun _ h => h⟩

theorem ext_storeVal (σ : Shared V) (k v) (l : List Chan) (hl : ∀ ch, ch ∈ σ.closed → ch ∈ l) :
    Ext c σ { σ.storeVal c k v with closed := l } := by
  constructor
  · intro ch k' h; exact h
  · intro k' h
    show (σ.storeVal c k v).lookup c k' ≠ none
    simp only [Shared.lookup_storeVal]; split <;> simp_all
  · intro k' ⟨v', h⟩
    show ∃ v'', (σ.storeVal c k v).lookup c k' = some (.val v'')
    simp only [Shared.lookup_storeVal]; split
    · exact ⟨v, rfl⟩
    · exact ⟨v', h⟩
  · intro k' v' h
    show v' ∈ upd σ.stored k (v :: σ.stored k) k'
    by_cases e : k' = k
    · subst e; simp [h]
    · simp [upd_other _ _ _ _ e, h]
  · exact hl

theorem ext_csSet (σ : Shared V) (k v ow) : Ext c σ (csSet c σ k v ow).1 := by
  unfold csSet
  split
  · split
    · exact ext_storeVal c σ k v σ.closed (fun _ h => h)
    · exact ext_refl c σ
  · exact ext_storeVal c σ k v _ (fun _ h => List.mem_cons_of_mem _ h)
  · exact ext_storeVal c σ k v σ.closed (fun _ h => h)

theorem ext_csLazySet (σ : Shared V) (k v) : Ext c σ (csLazySet c σ k v).1 := by
  unfold csLazySet
  split
  · exact ext_refl c σ
  · exact ext_storeVal c σ k v _ (fun _ h => List.mem_cons_of_mem _ h)
  · exact ext_storeVal c σ k v σ.closed (fun _ h => h)

theorem ext_csGetSlow (σ : Shared V) (hw : WInv c σ) (k) : Ext c σ (csGetSlow c σ k).1 := by
  unfold csGetSlow
  split
  · exact ext_refl c σ
  · rename_i hl
    constructor
    · intro ch k' h
      show upd σ.chanKey σ.nextCh (some k) ch = some k'
      have hne : ch ≠ σ.nextCh := fun e => Nat.lt_irrefl _ (e ▸ hw.alloc ch k' h)
      rw [upd_other _ _ _ _ hne]; exact h
    · intro k' h
      show (σ.store c k (.waiting σ.nextCh)).lookup c k' ≠ none
      simp only [Shared.lookup_store]; split <;> simp_all
    · intro k' ⟨v', h⟩
      show ∃ v'', (σ.store c k (.waiting σ.nextCh)).lookup c k' = some (.val v'')
      have hkk : k' ≠ k := fun e => by rw [e, hl] at h; cases h
      exact ⟨v', by simp [Shared.lookup_store, hkk, h]⟩
    · intro k' v' h; exact h
    · intro ch h; exact h

/-! ### per-thread invariant -/

/-- what a `GetOrWait(k)` result held by a thread guarantees -/
def ResOK (σ : Shared V) (k : Key) (v : V) (w : Option Chan) (f : Bool) : Prop :=
  (∀ ch, w = some ch → σ.chanKey ch = some k ∧ v = default) ∧
  (w = none → f = false ∧ v ∈ σ.stored k) ∧
  (σ.lookup c k ≠ none)

theorem resOK_ext {σ σ' : Shared V} (e : Ext c σ σ') {k v w f} (h : ResOK c σ k v w f) : ResOK c σ' k v w f :=
  ⟨fun ch hw => ⟨e.chanKey _ _ (h.1 ch hw).1, (h.1 ch hw).2⟩, fun hw => ⟨(h.2.1 hw).1, e.stored _ _ (h.2.1 hw).2⟩,
   e.present _ h.2.2⟩

/-- consistency of a thread's Map-level program counter with what its caller is doing -/
def TInv (σ : Shared V) (p : PC V) : Client V → Prop
  | .free => True
  | .await _ => p = .idle
  | .gos1 k _ => p = .getFast k true ∨ p = .getSlow k true ∨ ∃ v w f, p = .done (.gw v w f) ∧ ResOK c σ k v w f
  | .gosF k _ => p = .idle ∧ σ.lookup c k ≠ none
  | .gos2 k fv => p = .set k fv true ∨ (p = .done .unit ∧ fv ∈ σ.stored k)
  | .gosW k ch => p = .idle ∧ σ.chanKey ch = some k
  | .gos3 k => (p = .getFast k false ∧ ∃ v, σ.lookup c k = some (.val v)) ∨ ∃ v, p = .done (.val v) ∧ v ∈ σ.stored k
  | .gosRet k v => p = .idle ∧ v ∈ σ.stored k

theorem tinv_ext {σ σ' : Shared V} (e : Ext c σ σ') {p : PC V} {q : Client V} (h : TInv c σ p q) : TInv c σ' p q := by
  cases q with
  | free => trivial
  | await ch => exact h
  | gos1 k fv =>
    rcases h with h | h | ⟨v, w, f, hp, hr⟩
    · exact .inl h
    · exact .inr (.inl h)
    · exact .inr (.inr ⟨v, w, f, hp, resOK_ext c e hr⟩)
  | gosF k fv => exact ⟨h.1, e.present _ h.2⟩
  | gos2 k fv =>
    rcases h with h | h
    · exact .inl h
    · exact .inr ⟨h.1, e.stored _ _ h.2⟩
  | gosW k ch => exact ⟨h.1, e.chanKey _ _ h.2⟩
  | gos3 k =>
    rcases h with h | ⟨v, hp, hs⟩
    · exact .inl ⟨h.1, e.isVal _ h.2⟩
    · exact .inr ⟨v, hp, e.stored _ _ hs⟩
  | gosRet k v => exact ⟨h.1, e.stored _ _ h.2⟩

/-! ### who may run `f` -/

/-- a thread in this state holds the right (and duty) to run `f` for key `k`: `GetOrWait` told it `first = true`. -/
def HolderT (p : PC V) (q : Client V) (k : Key) : Prop :=
  (∃ fv v w, q = .gos1 k fv ∧ p = .done (.gw v w true)) ∨ (∃ fv, q = .gosF k fv)

def Holder (s : Sys V) (t : Tid) (k : Key) : Prop := HolderT (s.pc t) (s.cl t) k

structure FInv (s : Sys V) : Prop where
  holder0 : ∀ t k, Holder s t k → s.fRuns k = 0
  holderUnique : ∀ t t' k, Holder s t k → Holder s t' k → t = t'
  runsLe : ∀ k, s.fRuns k ≤ 1
  runsPresent : ∀ k, s.fRuns k ≠ 0 → s.sh.lookup c k ≠ none

/-- the full invariant -/
structure Inv (s : Sys V) : Prop where
  w : WInv c s.sh
  t : ∀ t, TInv c s.sh (s.pc t) (s.cl t)
  f : FInv c s

/-! ### preservation -/

theorem tinv_step {s : Sys V} (hi : ∀ t, TInv c s.sh (s.pc t) (s.cl t)) {σ' : Shared V} (e : Ext c s.sh σ')
    (t : Tid) (pc' : Tid → PC V) (cl' : Tid → Client V)
    (hpc : ∀ t', t' ≠ t → pc' t' = s.pc t') (hcl : ∀ t', t' ≠ t → cl' t' = s.cl t')
    (ht : TInv c σ' (pc' t) (cl' t)) : ∀ t', TInv c σ' (pc' t') (cl' t') := by
  intro t'
  by_cases h : t' = t
  · subst h; exact ht
  · rw [hpc t' h, hcl t' h]; exact tinv_ext c e (hi t')

/-- holders only disappear, `fRuns` unchanged -/
theorem finv_shrink {s s' : Sys V} (hf : FInv c s)
    (hh : ∀ t k, Holder s' t k → Holder s t k) (hr : s'.fRuns = s.fRuns)
    (hp : ∀ k, s.sh.lookup c k ≠ none → s'.sh.lookup c k ≠ none) : FInv c s' := by
  constructor
  · intro t k h; rw [hr]; exact hf.holder0 t k (hh t k h)
  · intro t t' k h h'; exact hf.holderUnique t t' k (hh t k h) (hh t' k h')
  · intro k; rw [hr]; exact hf.runsLe k
  · intro k h; rw [hr] at h; exact hp k (hf.runsPresent k h)

/-- the common case: one thread moves, gains no `f`-right, `fRuns` untouched -/
theorem inv_step_common {s : Sys V} (hi : Inv c s) (t : Tid) (σ' : Shared V) (pc' : Tid → PC V) (cl' : Tid → Client V)
    (hpc : ∀ t', t' ≠ t → pc' t' = s.pc t') (hcl : ∀ t', t' ≠ t → cl' t' = s.cl t')
    (hw' : WInv c σ') (e : Ext c s.sh σ')
    (htinv : TInv c σ' (pc' t) (cl' t))
    (hhold : ∀ k, HolderT (pc' t) (cl' t) k → HolderT (s.pc t) (s.cl t) k) :
    Inv c ⟨σ', pc', cl', s.fRuns⟩ := by
  refine ⟨hw', tinv_step c hi.t e t pc' cl' hpc hcl htinv, finv_shrink c hi.f ?_ rfl e.present⟩
  intro t' k h
  by_cases e' : t' = t
  · subst e'; exact hhold k h
  · unfold Holder at h ⊢; simp only [hpc t' e', hcl t' e'] at h; exact h

theorem csSet_stored_true (σ : Shared V) (k v) : v ∈ (csSet c σ k v true).1.stored k := by
  unfold csSet; split <;> simp [Shared.storeVal]

theorem csGetFast_resOK {σ : Shared V} (hw : WInv c σ) {k v w} (hf : csGetFast c σ k = some (v, w)) :
    ResOK c σ k v w false := by
  unfold csGetFast at hf
  cases hl : σ.lookup c k with
  | none => simp [hl] at hf
  | some e =>
    simp only [hl, Option.map_some, Option.some.injEq] at hf
    cases e with
    | val v0 =>
      simp only [entryRet, Prod.mk.injEq] at hf
      obtain ⟨rfl, rfl⟩ := hf
      obtain ⟨r, hr⟩ := hw.storedHead k v0 hl
      exact ⟨by simp, fun _ => ⟨rfl, by simp [hr]⟩, by simp [hl]⟩
    | waiting ch =>
      simp only [entryRet, Prod.mk.injEq] at hf
      obtain ⟨rfl, rfl⟩ := hf
      refine ⟨?_, by simp, by simp [hl]⟩
      intro ch' h; cases h; exact ⟨(hw.waitingKey k ch hl).1, rfl⟩

theorem csGetFast_val {σ : Shared V} (hw : WInv c σ) {k v0} (hl : σ.lookup c k = some (.val v0)) :
    csGetFast c σ k = some (v0, none) ∧ v0 ∈ σ.stored k := by
  obtain ⟨r, hr⟩ := hw.storedHead k v0 hl
  simp [csGetFast, hl, entryRet, hr]

theorem csGetSlow_first {σ : Shared V} {k} (h : (csGetSlow c σ k).2.2.2 = true) : σ.lookup c k = none := by
  unfold csGetSlow at h
  cases hl : σ.lookup c k with
  | none => rfl
  | some e => simp [hl] at h

theorem csGetSlow_resOK {σ : Shared V} (hw : WInv c σ) (k) :
    ResOK c (csGetSlow c σ k).1 k (csGetSlow c σ k).2.1 (csGetSlow c σ k).2.2.1 (csGetSlow c σ k).2.2.2 := by
  cases hl : σ.lookup c k with
  | some e =>
    have hf : csGetFast c σ k = some (entryRet e) := by simp [csGetFast, hl]
    have := csGetFast_resOK c hw (v := (entryRet e).1) (w := (entryRet e).2) hf
    simpa [csGetSlow, hl] using this
  | none =>
    simp only [csGetSlow, hl]
    refine ⟨?_, by simp, ?_⟩
    · intro ch h; cases h; exact ⟨by simp, rfl⟩
    · show (σ.store c k (.waiting σ.nextCh)).lookup c k ≠ none
      simp

theorem holder_present {σ : Shared V} {p : PC V} {q : Client V} {k} (ht : TInv c σ p q) (h : HolderT p q k) :
    σ.lookup c k ≠ none := by
  rcases h with ⟨fv, v, w, rfl, rfl⟩ | ⟨fv, rfl⟩
  · simp only [TInv] at ht
    rcases ht with h | h | ⟨v', w', f', h, hr⟩
    · cases h
    · cases h
    · exact hr.2.2
  · exact ht.2

/-- at most one thread gains the `f`-right, and only for a key that was absent -/
theorem finv_grow {s s' : Sys V} (hi : Inv c s) (t : Tid) (k : Key) (hr : s'.fRuns = s.fRuns)
    (hp : ∀ k, s.sh.lookup c k ≠ none → s'.sh.lookup c k ≠ none)
    (hh : ∀ t' k', Holder s' t' k' → Holder s t' k' ∨ (t' = t ∧ k' = k ∧ s.sh.lookup c k = none)) : FInv c s' := by
  have hf := hi.f
  have hpres : ∀ t' k', Holder s t' k' → s.sh.lookup c k' ≠ none := fun t' k' h => holder_present c (hi.t t') h
  constructor
  · intro t' k' h; rw [hr]
    rcases hh t' k' h with h1 | ⟨rfl, rfl, hn⟩
    · exact hf.holder0 t' k' h1
    · exact Classical.byContradiction fun h0 => hf.runsPresent _ h0 hn
  · intro t1 t2 k' h1 h2
    rcases hh t1 k' h1 with a | ⟨rfl, rfl, hn⟩ <;> rcases hh t2 k' h2 with b | ⟨rfl, hk, hn'⟩
    · exact hf.holderUnique t1 t2 k' a b
    · subst hk; exact absurd hn' (hpres t1 _ a)
    · exact absurd hn (hpres t2 _ b)
    · rfl
  · intro k'; rw [hr]; exact hf.runsLe k'
  · intro k' h; rw [hr] at h; exact hp k' (hf.runsPresent k' h)

theorem step_inv (hz : c.isErr default = false) {s s' : Sys V} {l} (hs : Step c s l s') (hi : Inv c s) : Inv c s' := by
  have hw := hi.w
  have ht := hi.t
  cases hs with
  | invoke t op hpc hcl =>
    refine inv_step_common c hi t _ _ _ (fun t' h => upd_other _ _ _ _ h) (fun _ _ => rfl) hw (ext_refl c _) ?_ ?_
    · rw [hcl]; trivial
    · intro k h; simp [HolderT, hcl] at h
  | setCS t k v ow hpc =>
    refine inv_step_common c hi t _ _ _ (fun t' h => upd_other _ _ _ _ h) (fun _ _ => rfl)
      (winv_csSet c _ hw k v ow) (ext_csSet c _ k v ow) ?_ ?_
    · have h := ht t; rw [hpc] at h
      cases hq : s.cl t <;> simp [hq, TInv] at h ⊢
      obtain ⟨rfl, rfl, rfl⟩ := h
      exact ⟨rfl, csSet_stored_true c _ _ _⟩
    · intro k' h; have h2 := ht t; rw [hpc] at h2
      cases hq : s.cl t <;> simp [hq, HolderT, TInv] at h h2 ⊢
  | lazyCS t k v hpc =>
    refine inv_step_common c hi t _ _ _ (fun t' h => upd_other _ _ _ _ h) (fun _ _ => rfl)
      (winv_csLazySet c _ hw k v) (ext_csLazySet c _ k v) ?_ ?_
    · have h := ht t; rw [hpc] at h
      cases hq : s.cl t <;> simp [hq, TInv] at h ⊢
    · intro k' h; have h2 := ht t; rw [hpc] at h2
      cases hq : s.cl t <;> simp [hq, HolderT, TInv] at h h2 ⊢
  | getFastHit t k full v w hpc hf =>
    refine inv_step_common c hi t _ _ _ (fun t' h => upd_other _ _ _ _ h) (fun _ _ => rfl)
      hw (ext_refl c _) ?_ ?_
    · have h := ht t; rw [hpc] at h
      cases hq : s.cl t <;> simp [hq, TInv] at h ⊢
      · obtain ⟨rfl, rfl⟩ := h
        exact ⟨v, w, .inl ⟨rfl, csGetFast_resOK c hw hf⟩⟩
      · obtain ⟨⟨rfl, rfl⟩, v0, hv0⟩ := h
        have := csGetFast_val c hw hv0
        rw [hf] at this; simp only [Option.some.injEq, Prod.mk.injEq] at this
        exact ⟨v, rfl, this.1.1 ▸ this.2⟩
    · intro k' h; have h2 := ht t; rw [hpc] at h2
      cases hq : s.cl t <;> simp [hq, HolderT, TInv, getRet] at h h2 ⊢
      obtain ⟨_, rfl⟩ := h2; simp at h
  | getFastMiss t k full hpc hf =>
    refine inv_step_common c hi t _ _ _ (fun t' h => upd_other _ _ _ _ h) (fun _ _ => rfl)
      hw (ext_refl c _) ?_ ?_
    · have h := ht t; rw [hpc] at h
      cases hq : s.cl t <;> simp [hq, TInv] at h ⊢
      · exact h
      · obtain ⟨⟨rfl, rfl⟩, v0, hv0⟩ := h
        have := (csGetFast_val c hw hv0).1
        rw [hf] at this; cases this
    · intro k' h; have h2 := ht t; rw [hpc] at h2
      cases hq : s.cl t <;> simp [hq, HolderT, TInv] at h h2 ⊢
  | containsCS t k hpc =>
    refine inv_step_common c hi t _ _ _ (fun t' h => upd_other _ _ _ _ h) (fun _ _ => rfl)
      hw (ext_refl c _) ?_ ?_
    · have h := ht t; rw [hpc] at h
      cases hq : s.cl t <;> simp [hq, TInv] at h ⊢
    · intro k' h; have h2 := ht t; rw [hpc] at h2
      cases hq : s.cl t <;> simp [hq, HolderT, TInv] at h h2 ⊢
  | valuesCS t i acc hpc hlt =>
    refine inv_step_common c hi t _ _ _ (fun t' h => upd_other _ _ _ _ h) (fun _ _ => rfl)
      hw (ext_refl c _) ?_ ?_
    · have h := ht t; rw [hpc] at h
      cases hq : s.cl t <;> simp [hq, TInv] at h ⊢
    · intro k' h; have h2 := ht t; rw [hpc] at h2
      cases hq : s.cl t <;> simp [hq, HolderT, TInv] at h h2 ⊢
  | valuesEnd t i acc hpc hlt =>
    refine inv_step_common c hi t _ _ _ (fun t' h => upd_other _ _ _ _ h) (fun _ _ => rfl)
      hw (ext_refl c _) ?_ ?_
    · have h := ht t; rw [hpc] at h
      cases hq : s.cl t <;> simp [hq, TInv] at h ⊢
    · intro k' h; have h2 := ht t; rw [hpc] at h2
      cases hq : s.cl t <;> simp [hq, HolderT, TInv] at h h2 ⊢
  | ret t r hpc hcl =>
    refine inv_step_common c hi t _ _ _ (fun t' h => upd_other _ _ _ _ h) (fun _ _ => rfl) hw (ext_refl c _) ?_ ?_
    · rw [hcl]; trivial
    · intro k h; simp [HolderT, hcl] at h
  | awaitStart t ch hpc hcl =>
    refine inv_step_common c hi t _ _ _ (fun _ _ => rfl) (fun t' h => upd_other _ _ _ _ h) hw (ext_refl c _) ?_ ?_
    · simp [TInv, hpc]
    · intro k h; simp [HolderT] at h
  | awaitWake t ch hcl hch =>
    refine inv_step_common c hi t _ _ _ (fun _ _ => rfl) (fun t' h => upd_other _ _ _ _ h) hw (ext_refl c _) ?_ ?_
    · simp [TInv]
    · intro k h; simp [HolderT] at h
  | gosStart t k fv hpc hcl =>
    refine inv_step_common c hi t _ _ _ (fun t' h => upd_other _ _ _ _ h) (fun t' h => upd_other _ _ _ _ h)
      hw (ext_refl c _) ?_ ?_
    · simp [TInv]
    · intro k h; simp [HolderT] at h
  | gosRet2 t k fv r hpc hcl =>
    refine inv_step_common c hi t _ _ _ (fun t' h => upd_other _ _ _ _ h) (fun t' h => upd_other _ _ _ _ h)
      hw (ext_refl c _) ?_ ?_
    · have h := ht t; rw [hpc, hcl] at h; simp [TInv] at h ⊢; exact h.2
    · intro k h; simp [HolderT] at h
  | gosWake t k ch hpc hcl hch =>
    refine inv_step_common c hi t _ _ _ (fun t' h => upd_other _ _ _ _ h) (fun t' h => upd_other _ _ _ _ h)
      hw (ext_refl c _) ?_ ?_
    · have h := ht t; rw [hpc, hcl] at h; simp [TInv] at h ⊢
      exact (winv_closed_iff c hw h).mp hch
    · intro k h; simp [HolderT] at h
  | gosRet3 t k v hpc hcl =>
    refine inv_step_common c hi t _ _ _ (fun t' h => upd_other _ _ _ _ h) (fun t' h => upd_other _ _ _ _ h)
      hw (ext_refl c _) ?_ ?_
    · have h := ht t; rw [hpc, hcl] at h; simp [TInv] at h ⊢; exact h
    · intro k h; simp [HolderT] at h
  | gosDone t k v hpc hcl =>
    refine inv_step_common c hi t _ _ _ (fun _ _ => rfl) (fun t' h => upd_other _ _ _ _ h) hw (ext_refl c _) ?_ ?_
    · simp [TInv]
    · intro k h; simp [HolderT] at h
  | gosRet1 t k fv v w first hpc hcl =>
    refine inv_step_common c hi t _ _ _ (fun t' h => upd_other _ _ _ _ h) (fun t' h => upd_other _ _ _ _ h)
      hw (ext_refl c _) ?_ ?_
    · have h := ht t; rw [hpc, hcl] at h
      have hr : ResOK c s.sh k v w first := by
        rcases h with h | h | ⟨v', w', f', h, hr⟩
        · cases h
        · cases h
        · cases h; exact hr
      simp only [upd_same, gosBranch]
      by_cases he : c.isErr v = true
      · simp only [he, if_true, TInv, true_and]
        cases w with
        | none => exact (hr.2.1 rfl).2
        | some ch => rw [(hr.1 ch rfl).2, hz] at he; cases he
      · simp only [he]
        cases first with
        | true => simp [TInv]; exact hr.2.2
        | false =>
          cases w with
          | none => simp [TInv]; exact (hr.2.1 rfl).2
          | some ch => simp [TInv]; exact (hr.1 ch rfl).1
    · intro k' h
      simp only [upd_same, gosBranch, HolderT] at h
      rw [hpc, hcl]
      by_cases he : c.isErr v = true
      · simp [he] at h
      · cases first with
        | true => simp [he] at h; subst h; exact .inl ⟨fv, v, w, rfl, rfl⟩
        | false => cases w <;> simp [he] at h
  | gosRunF t k fv hpc hcl =>
    have hT := ht t; rw [hpc, hcl] at hT
    have hhold : Holder s t k := .inr ⟨fv, hcl⟩
    have hother : ∀ t' k', Holder (Sys.mk s.sh (upd s.pc t (.set k fv true)) (upd s.cl t (.gos2 k fv))
        (upd s.fRuns k (s.fRuns k + 1))) t' k' → Holder s t' k' ∧ t' ≠ t := by
      intro t' k' h
      by_cases e : t' = t
      · subst e; simp [Holder, HolderT] at h
      · refine ⟨?_, e⟩; simpa [Holder, upd_other _ _ _ _ e] using h
    refine ⟨hw, tinv_step c ht (ext_refl c _) t _ _ (fun t' h => upd_other _ _ _ _ h)
      (fun t' h => upd_other _ _ _ _ h) (by simp [TInv]), ?_⟩
    constructor
    · intro t' k' h
      obtain ⟨h1, hne⟩ := hother t' k' h
      show upd s.fRuns k (s.fRuns k + 1) k' = 0
      by_cases e : k' = k
      · subst e; exact absurd (hi.f.holderUnique t' t k' h1 hhold) hne
      · rw [upd_other _ _ _ _ e]; exact hi.f.holder0 t' k' h1
    · intro t1 t2 k' h1 h2
      exact hi.f.holderUnique t1 t2 k' (hother t1 k' h1).1 (hother t2 k' h2).1
    · intro k'
      show upd s.fRuns k (s.fRuns k + 1) k' ≤ 1
      by_cases e : k' = k
      · subst e; simp [hi.f.holder0 t k' hhold]
      · rw [upd_other _ _ _ _ e]; exact hi.f.runsLe k'
    · intro k' h
      have h' : upd s.fRuns k (s.fRuns k + 1) k' ≠ 0 := h
      by_cases e : k' = k
      · subst e; exact hT.2
      · rw [upd_other _ _ _ _ e] at h'; exact hi.f.runsPresent k' h'
  | getSlowCS t k full hpc =>
    have hT := ht t; rw [hpc] at hT
    have e := ext_csGetSlow c s.sh hw k
    refine ⟨winv_csGetSlow c _ hw k, tinv_step c ht e t _ _ (fun t' h => upd_other _ _ _ _ h) (fun _ _ => rfl) ?_,
      finv_grow c hi t k rfl e.present ?_⟩
    · show TInv c _ (upd s.pc t _ t) (s.cl t)
      rw [upd_same]
      cases hq : s.cl t with
      | gos1 k' fv =>
        simp only [hq, TInv] at hT ⊢
        rcases hT with hT | hT | ⟨_, _, _, hT, _⟩
        · cases hT
        · cases hT; exact .inr (.inr ⟨_, _, _, rfl, csGetSlow_resOK c hw k⟩)
        · cases hT
      | _ => simp [hq, TInv] at hT ⊢
    · intro t' k' h
      by_cases e' : t' = t
      · subst e'
        right
        simp only [Holder, HolderT, upd_same] at h
        rcases h with ⟨fv, v, w, hq, hd⟩ | ⟨fv, hq⟩
        · simp only [hq, TInv] at hT
          rcases hT with hT | hT | ⟨_, _, _, hT, _⟩
          · cases hT
          · cases hT
            simp only [getRet, if_true, PC.done.injEq, Ret.gw.injEq] at hd
            exact ⟨rfl, rfl, csGetSlow_first c hd.2.2⟩
          · cases hT
        · simp only [hq, TInv] at hT; cases hT.1
      · left; simpa [Holder, upd_other _ _ _ _ e'] using h

theorem inv_init : Inv c (Sys.init : Sys V) := by
  refine ⟨winv_init c, fun t => trivial, ?_⟩
  constructor
  · intro t k h; rfl
  · intro t t' k h; simp [Holder, HolderT, Sys.init] at h
  · intro k; exact Nat.zero_le _
  · intro k h; exact absurd rfl h

theorem exec_inv (hz : c.isErr default = false) {s0 s : Sys V} {tr} (h : Exec c s0 tr s) (h0 : Inv c s0) : Inv c s := by
  induction h with
  | nil => exact h0
  | tau _ hs ih => exact step_inv c hz hs ih
  | ev _ hs ih => exact step_inv c hz hs ih

theorem reach_inv (hz : c.isErr default = false) {s : Sys V} (h : Reach c s) : Inv c s := by
  obtain ⟨tr, h⟩ := h; exact exec_inv c hz h (inv_init c)

/-! ### the executable scheduler only takes `Step`s -/

theorem freeIdle_iff (s : Sys V) (t : Tid) : freeIdle s t = true ↔ s.pc t = .idle ∧ s.cl t = .free := by
  unfold freeIdle; split <;> simp_all

theorem start_sound {s s' : Sys V} {t call l} (h : start s t call = some (l, s')) : Step c s l s' := by
  cases call with
  | op o =>
    simp only [start] at h
    split at h
    · rename_i hf; obtain ⟨h1, h2⟩ := (freeIdle_iff s t).mp hf
      cases h; exact Step.invoke s t o h1 h2
    · cases h
  | await ch =>
    simp only [start] at h
    split at h
    · rename_i hf; obtain ⟨h1, h2⟩ := (freeIdle_iff s t).mp hf
      cases h; exact Step.awaitStart s t ch h1 h2
    · cases h
  | getOrSet k fv =>
    simp only [start] at h
    split at h
    · rename_i hf; obtain ⟨h1, h2⟩ := (freeIdle_iff s t).mp hf
      cases h; exact Step.gosStart s t k fv h1 h2
    · cases h

theorem advance_sound {s s' : Sys V} {t l} (h : advance c s t = some (l, s')) : Step c s l s' := by
  unfold advance at h
  split at h
  · rename_i k v ow hpc; cases h; exact Step.setCS s t k v ow hpc
  · rename_i k v hpc; cases h; exact Step.lazyCS s t k v hpc
  · rename_i k full hpc
    split at h
    · rename_i v w hf; cases h; exact Step.getFastHit s t k full v w hpc hf
    · rename_i hf; cases h; exact Step.getFastMiss s t k full hpc hf
  · rename_i k full hpc; cases h; exact Step.getSlowCS s t k full hpc
  · rename_i k hpc; cases h; exact Step.containsCS s t k hpc
  · rename_i i acc hpc
    split at h
    · rename_i hlt; cases h; exact Step.valuesCS s t i acc hpc hlt
    · rename_i hlt; cases h; exact Step.valuesEnd s t i acc hpc hlt
  · rename_i r hpc
    split at h
    · rename_i hcl; cases h; exact Step.ret s t r hpc hcl
    · rename_i k fv hcl
      split at h
      · rename_i v w first; cases h; exact Step.gosRet1 s t k fv v w first hpc hcl
      · cases h
    · rename_i k fv hcl; cases h; exact Step.gosRet2 s t k fv r hpc hcl
    · rename_i k hcl
      split at h
      · rename_i v; cases h; exact Step.gosRet3 s t k v hpc hcl
      · cases h
    · cases h
  · rename_i hpc
    split at h
    · rename_i ch hcl
      split at h
      · rename_i hm; cases h; exact Step.awaitWake s t ch hcl hm
      · cases h
    · rename_i k fv hcl; cases h; exact Step.gosRunF s t k fv hpc hcl
    · rename_i k ch hcl
      split at h
      · rename_i hm; cases h; exact Step.gosWake s t k ch hpc hcl hm
      · cases h
    · rename_i k v hcl; cases h; exact Step.gosDone s t k v hpc hcl
    · cases h

end PlzVerif.CMap
