import PlzVerif.Model.AspLex
/-!
Lemmas about the lexer model: every loop stays inside the buffer when the buffer ends in NUL sentinels,
stops at the first sentinel at the latest, and makes progress.
-/
namespace PlzVerif.AspLex
open PlzVerif.Generated

/-- The buffer ends in at least two NUL bytes starting at index `n` (`n` = length of the real input). -/
structure Sentinel (b : Bytes) (n : Nat) : Prop where
  size : n + 2 ≤ b.size
  zero : ∀ i (h : i < b.size), n ≤ i → b[i] = 0

theorem Sentinel.at {b : Bytes} {n : Nat} (S : Sentinel b n) : b[n]'(by have := S.size; omega) = 0 :=
  S.zero n _ (Nat.le_refl n)

/-- A non-NUL byte lies strictly before the sentinels. -/
theorem Sentinel.lt_of_ne {b : Bytes} {n i : Nat} (S : Sentinel b n) (h : i < b.size) (hne : b[i] ≠ 0) : i < n := by
  apply Classical.byContradiction
  intro hge
  exact hne (S.zero i h (by omega))

theorem skipSpaces_spec {b : Bytes} {n : Nat} (S : Sentinel b n) (pos : Nat) (hpos : pos ≤ n) :
    ∃ p, skipSpaces b pos = .ok p ∧ pos ≤ p ∧ p ≤ n := by
  fun_induction skipSpaces b pos with
  | case1 pos hlt heq ih =>
    have : pos < n := S.lt_of_ne hlt (by rw [heq]; decide)
    obtain ⟨p, h1, h2, h3⟩ := ih (by omega)
    exact ⟨p, h1, by omega, h3⟩
  | case2 pos hlt hne => exact ⟨pos, rfl, Nat.le_refl _, hpos⟩
  | case3 pos hge => have := S.size; omega

/-- From a position inside the sentinels, `skipSpaces` does not move. -/
theorem skipSpaces_sentinel {b : Bytes} {n : Nat} (S : Sentinel b n) (pos : Nat) (h1 : n ≤ pos) (h2 : pos < b.size) :
    skipSpaces b pos = .ok pos := by
  unfold skipSpaces
  have := S.zero pos h2 h1
  simp [h2, this]

theorem skipComment_spec {b : Bytes} {n : Nat} (S : Sentinel b n) (pos : Nat) (hpos : pos ≤ n) :
    ∃ p, skipComment b pos = .ok p ∧ pos ≤ p ∧ p ≤ n := by
  fun_induction skipComment b pos with
  | case1 pos hlt heq ih =>
    have : pos < n := S.lt_of_ne hlt heq.2
    obtain ⟨p, h1, h2, h3⟩ := ih (by omega)
    exact ⟨p, h1, by omega, h3⟩
  | case2 pos hlt hne => exact ⟨pos, rfl, Nat.le_refl _, hpos⟩
  | case3 pos hge => have := S.size; omega

theorem isDigit_ne_zero {c : UInt8} (h : isDigit c = true) : c ≠ 0 := by
  intro h0; subst h0; revert h; decide

theorem consumeDigits_spec {b : Bytes} {n : Nat} (S : Sentinel b n) (pos : Nat) (val : Bytes) (hpos : pos ≤ n) :
    ∃ p v, consumeDigits b pos val = .ok (p, v) ∧ pos ≤ p ∧ p ≤ n := by
  fun_induction consumeDigits b pos val with
  | case1 pos val hlt hd ih =>
    have : pos < n := S.lt_of_ne hlt (isDigit_ne_zero hd)
    obtain ⟨p, v, h1, h2, h3⟩ := ih (by omega)
    exact ⟨p, v, h1, by omega, h3⟩
  | case2 pos val hlt hne => exact ⟨pos, val, rfl, Nat.le_refl _, hpos⟩
  | case3 pos val hge => have := S.size; omega

theorem contByte_lt {b : Bytes} {n i lo hi x : Nat} (S : Sentinel b n) (hlo : 1 ≤ lo)
    (h : contByte b i lo hi = some x) : i < n := by
  unfold contByte at h
  split at h
  · rename_i c hc
    split at h
    · rename_i hr
      have hi' : i < b.size := by
        have := Array.getElem?_eq_some_iff.mp hc
        exact this.1
      have hb : b[i] = c := by
        have := Array.getElem?_eq_some_iff.mp hc
        exact this.2
      apply S.lt_of_ne hi'
      rw [hb]
      intro h0
      subst h0
      simp at hr
      omega
    · cases h
  · cases h

theorem decodeRune_bound {b : Bytes} {n : Nat} (S : Sentinel b n) (pos : Nat) (c0 : UInt8) (hpos : pos < n) :
    pos + (decodeRune b pos c0).2 ≤ n := by
  unfold decodeRune
  simp only []
  split
  · split
    · rename_i h; have := contByte_lt S (by decide) h; simp; omega
    · simp; omega
  · split
    · split
      · rename_i h1 h2
        have := contByte_lt S (by decide) h2
        simp; omega
      · simp; omega
    · split
      · split
        · rename_i h1 h2 h3
          have := contByte_lt S (by decide) h3
          simp; omega
        · simp; omega
      · simp; omega

/-- Positioned failure: `l.fail(pos, …)` with `pos` inside the real input. -/
def IsFail (n : Nat) (e : LexErr) : Prop := ∃ p m, e = .fail p m ∧ p ≤ n

theorem isIdentByte_ne_zero {c : UInt8} (h : isIdentByte c = true) : c ≠ 0 := by
  intro h0; subst h0; revert h; decide

theorem consumeIdent_spec {b : Bytes} {n : Nat} (S : Sentinel b n) (tokPos pos : Nat) (val : Bytes)
    (htok : tokPos ≤ n) (hpos : pos ≤ n) :
    (∃ p v, consumeIdent b tokPos pos val = .ok (p, v) ∧ pos ≤ p ∧ p ≤ n) ∨
    (∃ e, consumeIdent b tokPos pos val = .error e ∧ IsFail n e) := by
  fun_induction consumeIdent b tokPos pos val with
  | case1 pos val hlt c hc r w hd hbad =>
    exact Or.inr ⟨_, rfl, _, _, rfl, htok⟩
  | case2 pos val hlt c hc r w hd hgood ih =>
    have hne : b[pos] ≠ 0 := by
      intro h0; simp only [c] at hc; rw [h0] at hc; revert hc; decide
    have hlt' : pos < n := S.lt_of_ne hlt hne
    have hb := decodeRune_bound S pos b[pos] hlt'
    have hw := decodeRune_width_pos b pos b[pos]
    simp only [c] at hd
    rw [hd] at hb hw
    simp at hb hw
    rcases ih hb with ⟨p, v, h1, h2, h3⟩ | ⟨e, h1, h2⟩
    · exact Or.inl ⟨p, v, h1, by omega, h3⟩
    · exact Or.inr ⟨e, h1, h2⟩
  | case3 pos val hlt c hc hsp =>
    have hne : b[pos] ≠ 0 := by
      simp only [c] at hsp; rw [hsp]; decide
    have hlt' : pos < n := S.lt_of_ne hlt hne
    exact Or.inl ⟨pos + 1, val, rfl, by omega, by omega⟩
  | case4 pos val hlt c hc hsp hid ih =>
    have hne : b[pos] ≠ 0 := isIdentByte_ne_zero hid
    have hlt' : pos < n := S.lt_of_ne hlt hne
    rcases ih (by omega) with ⟨p, v, h1, h2, h3⟩ | ⟨e, h1, h2⟩
    · exact Or.inl ⟨p, v, h1, by omega, h3⟩
    · exact Or.inr ⟨e, h1, h2⟩
  | case5 pos val hlt c hc hsp hid =>
    exact Or.inl ⟨pos, val, rfl, Nat.le_refl _, hpos⟩
  | case6 pos val hge => have := S.size; omega

theorem rd_ok_iff {b : Bytes} {i : Nat} {c : UInt8} : rd b i = .ok c ↔ ∃ h : i < b.size, b[i] = c := by
  unfold rd
  split
  · rename_i h; simp [h]
  · rename_i h; simp [h]

theorem rd_error {b : Bytes} {i : Nat} {e : LexErr} (h : rd b i = .error e) : ¬ i < b.size := by
  unfold rd at h
  split at h
  · cases h
  · assumption

theorem rd_lt {b : Bytes} {n i : Nat} {c : UInt8} (S : Sentinel b n) (h : rd b i = .ok c) (hc : c ≠ 0) : i < n := by
  obtain ⟨hi, hb⟩ := rd_ok_iff.mp h
  exact S.lt_of_ne hi (by rw [hb]; exact hc)

theorem consumeString_spec {b : Bytes} {n : Nat} (S : Sentinel b n) (quote : UInt8) (tokPos : Nat)
    (multiline raw : Bool) (pos : Nat) (val : Bytes) (escaped : Bool)
    (hq : quote ≠ 0) (htok : tokPos ≤ n) (hpos : pos ≤ n ∨ (pos = n + 1 ∧ escaped = false)) :
    (∃ p v, consumeString b quote tokPos multiline raw pos val escaped = .ok (p, v) ∧ pos < p ∧ p ≤ n) ∨
    (∃ e, consumeString b quote tokPos multiline raw pos val escaped = .error e ∧ IsFail n e) := by
  have hsz := S.size
  fun_induction consumeString b quote tokPos multiline raw pos val escaped with
  | case1 pos val hlt next pos1 val' ih =>
    have hp : pos ≤ n := by
      rcases hpos with h | ⟨_, h⟩
      · exact h
      · exact absurd h (by decide)
    rcases ih (by simp only [pos1]; simp; omega) with ⟨p, v, h1, h2, h3⟩ | ⟨e, h1, h2⟩
    · exact Or.inl ⟨p, v, h1, by simp only [pos1] at h2; omega, h3⟩
    · exact Or.inr ⟨e, h1, h2⟩
  | case2 pos val escaped hlt next pos1 hesc hnq hml =>
    have : pos < n := S.lt_of_ne hlt (by show next ≠ 0; rw [hnq]; exact hq)
    exact Or.inl ⟨_, _, rfl, by omega, by omega⟩
  | case3 pos val escaped hlt next pos1 hesc hnq hml e he =>
    have : pos < n := S.lt_of_ne hlt (by show next ≠ 0; rw [hnq]; exact hq)
    have := rd_error he
    simp only [pos1] at this; omega
  | case4 pos val escaped hlt next pos1 hesc hnq hml e he h1 =>
    have := rd_lt S h1 hq
    have := rd_error he
    simp only [pos1] at *; omega
  | case5 pos val escaped hlt next pos1 hesc hnq hml h1 h2 =>
    have := rd_lt S h2 hq
    simp only [pos1] at *
    exact Or.inl ⟨_, _, rfl, by omega, by omega⟩
  | case6 pos val escaped hlt next pos1 hesc hnq hml c2 h2 hc2 h1 ih =>
    have := rd_lt S h1 hq
    simp only [pos1] at *
    rcases ih (Or.inl (by omega)) with ⟨p, v, h1, h2, h3⟩ | ⟨e, h1, h2⟩
    · exact Or.inl ⟨p, v, h1, by omega, h3⟩
    · exact Or.inr ⟨e, h1, h2⟩
  | case7 pos val escaped hlt next pos1 hesc hnq hml c2 h1 hc2 ih =>
    have : pos < n := S.lt_of_ne hlt (by show next ≠ 0; rw [hnq]; exact hq)
    simp only [pos1] at *
    rcases ih (Or.inl (by omega)) with ⟨p, v, h1, h2, h3⟩ | ⟨e, h1, h2⟩
    · exact Or.inl ⟨p, v, h1, by omega, h3⟩
    · exact Or.inr ⟨e, h1, h2⟩
  | case8 pos val escaped hlt next pos1 hesc hnq hnl hml ih =>
    have : pos < n := S.lt_of_ne hlt (by show next ≠ 0; rw [hnl]; decide)
    simp only [pos1] at *
    rcases ih (Or.inl (by omega)) with ⟨p, v, h1, h2, h3⟩ | ⟨e, h1, h2⟩
    · exact Or.inl ⟨p, v, h1, by omega, h3⟩
    · exact Or.inr ⟨e, h1, h2⟩
  | case9 pos val escaped hlt next hesc hnq hnl hml =>
    exact Or.inr ⟨_, rfl, _, _, rfl, htok⟩
  | case10 pos val escaped hlt next hesc hnq hnl hz =>
    exact Or.inr ⟨_, rfl, _, _, rfl, htok⟩
  | case11 pos val escaped hlt next pos1 hesc hnq hnl hz hbs ih =>
    have : pos < n := S.lt_of_ne hlt hz
    simp only [pos1] at *
    rcases ih (Or.inl (by omega)) with ⟨p, v, h1, h2, h3⟩ | ⟨e, h1, h2⟩
    · exact Or.inl ⟨p, v, h1, by omega, h3⟩
    · exact Or.inr ⟨e, h1, h2⟩
  | case12 pos val escaped hlt next pos1 hesc hnq hnl hz hbs ih =>
    have : pos < n := S.lt_of_ne hlt hz
    simp only [pos1] at *
    rcases ih (Or.inl (by omega)) with ⟨p, v, h1, h2, h3⟩ | ⟨e, h1, h2⟩
    · exact Or.inl ⟨p, v, h1, by omega, h3⟩
    · exact Or.inr ⟨e, h1, h2⟩
  | case13 pos val escaped hge =>
    rcases hpos with h | ⟨h, _⟩ <;> omega

theorem consumeQuoted_spec {b : Bytes} {n : Nat} (S : Sentinel b n) (quote : UInt8) (tokPos : Nat)
    (raw fstr : Bool) (pos : Nat) (hq : quote ≠ 0) (htok : tokPos ≤ n) (hpos : pos ≤ n) :
    (∃ p t, consumeQuoted b quote tokPos raw fstr pos = .ok (p, t) ∧ pos < p ∧ p ≤ n ∧ t.ty = .string ∧ t.pos = tokPos) ∨
    (∃ e, consumeQuoted b quote tokPos raw fstr pos = .error e ∧ IsFail n e) := by
  have hsz := S.size
  have fin : ∀ (r : Except LexErr (Nat × Bytes)) (p0 : Nat), pos ≤ p0 →
      ((∃ p v, r = .ok (p, v) ∧ p0 < p ∧ p ≤ n) ∨ (∃ e, r = .error e ∧ IsFail n e)) →
      (∃ p t, strTok tokPos r = .ok (p, t) ∧ pos < p ∧ p ≤ n ∧ t.ty = .string ∧ t.pos = tokPos) ∨
      (∃ e, strTok tokPos r = .error e ∧ IsFail n e) := by
    intro r p0 hp0 h
    rcases h with ⟨p, v, h1, h2, h3⟩ | ⟨e, h1, h2⟩
    · subst h1; exact Or.inl ⟨p, _, rfl, by omega, h3, rfl, rfl⟩
    · subst h1; exact Or.inr ⟨e, rfl, h2⟩
  unfold consumeQuoted
  simp only []
  split
  · rename_i e he; have := rd_error he; omega
  · rename_i c1 h1
    split
    · rename_i hc1
      subst hc1
      have hlt := rd_lt S h1 hq
      split
      · rename_i e he; have := rd_error he; omega
      · rename_i c2 h2
        split
        · rename_i hc2
          subst hc2
          have hlt2 := rd_lt S h2 hq
          exact fin _ (pos + 2) (by omega) (consumeString_spec S _ tokPos true raw (pos + 2) _ false hq htok (Or.inl (by omega)))
        · exact fin _ pos (Nat.le_refl _) (consumeString_spec S _ tokPos false raw pos _ false hq htok (Or.inl hpos))
    · exact fin _ pos (Nat.le_refl _) (consumeString_spec S _ tokPos false raw pos _ false hq htok (Or.inl hpos))

/-- The indent stack always has `0` at the bottom. -/
def StackOK (l : List Nat) : Prop := ∃ init, l = init ++ [0]

theorem popIndents_spec (l : List Nat) (indent un : Nat) (h : StackOK l) :
    ∃ top rest un', popIndents l indent un = .ok (top :: rest, un') ∧ StackOK (top :: rest) ∧
      un' + (top :: rest).length = un + l.length ∧ top ≤ indent := by
  induction l generalizing un with
  | nil => obtain ⟨init, h⟩ := h; cases init <;> simp at h
  | cons top rest ih =>
    unfold popIndents
    split
    · rename_i hgt
      have hr : StackOK rest := by
        obtain ⟨init, h⟩ := h
        cases init with
        | nil => simp at h; omega
        | cons a init => simp at h; exact ⟨init, h.2⟩
      obtain ⟨t, r, u, h1, h2, h3, h4⟩ := ih (un + 1) hr
      exact ⟨t, r, u, h1, h2, by simp at *; omega, h4⟩
    · rename_i hle
      exact ⟨top, rest, un, rfl, h, rfl, by omega⟩


theorem consumeIdent_ge {b : Bytes} {tp pos p : Nat} {val v : Bytes}
    (h : consumeIdent b tp pos val = .ok (p, v)) : pos ≤ p := by
  fun_induction consumeIdent b tp pos val with
  | case1 pos val hlt c hc r w hd hbad => cases h
  | case2 pos val hlt c hc r w hd hgood ih => have := ih h; omega
  | case3 pos val hlt c hc hsp => cases h; omega
  | case4 pos val hlt c hc hsp hid ih => have := ih h; omega
  | case5 pos val hlt c hc hsp hid => cases h; omega
  | case6 pos val hge => cases h

theorem identStart_cases {c : UInt8} (h : isIdentStart c = true) : 128 ≤ c ∨ (c ≠ 32 ∧ isIdentByte c = true) := by
  simp only [isIdentStart, Bool.or_eq_true, Bool.and_eq_true, decide_eq_true_eq] at h
  simp only [isIdentByte, Bool.or_eq_true, Bool.and_eq_true, decide_eq_true_eq]
  rcases h with ((h | h) | h) | h
  · right; refine ⟨?_, Or.inl (Or.inl (Or.inr h))⟩
    intro h32; subst h32; revert h; decide
  · right; refine ⟨?_, Or.inl (Or.inr h)⟩
    intro h32; subst h32; revert h; decide
  · right; refine ⟨?_, Or.inl (Or.inl (Or.inl h))⟩
    intro h32; subst h32; revert h; decide
  · left; exact h

/-- An identifier that starts with an identifier-start byte consumes at least that byte. -/
theorem consumeIdent_progress {b : Bytes} {tp pos p : Nat} {val v : Bytes} (hlt : pos < b.size)
    (hid : isIdentStart b[pos] = true) (h : consumeIdent b tp pos val = .ok (p, v)) : pos < p := by
  unfold consumeIdent at h
  simp only [hlt, dite_true] at h
  rcases identStart_cases hid with h128 | ⟨h32, hb⟩
  · simp only [h128, if_true] at h
    split at h
    · cases h
    · have := consumeIdent_ge h
      have hw := decodeRune_width_pos b pos b[pos]
      omega
  · by_cases h128 : 128 ≤ b[pos]
    · simp only [h128, if_true] at h
      split at h
      · cases h
      · have := consumeIdent_ge h
        have hw := decodeRune_width_pos b pos b[pos]
        omega
    · simp only [h128, if_false, h32, hb, if_true] at h
      have := consumeIdent_ge h; omega


/-- Progress measure of the lexer: bytes left (twice), pending unindents, indent-stack depth. -/
def M (b : Bytes) (s : LexState) : Nat := 2 * (b.size - s.pos) + s.unindents + s.indents.length

/-- What one successful `nextToken` from a position inside the real input guarantees. -/
structure PostA (b : Bytes) (n : Nat) (s : LexState) (t : Token) (s' : LexState) : Prop where
  stack : StackOK s'.indents
  meas : M b s' < M b s
  pos_le : s'.pos ≤ n + 1
  noneof : t.ty ≠ .eof → s'.pos ≤ n
  tpos : t.pos ≤ n

def SpecA (b : Bytes) (n : Nat) (s : LexState) (r : Except LexErr (Token × LexState)) : Prop :=
  (∃ t s', r = .ok (t, s') ∧ PostA b n s t s') ∨ (∃ e, r = .error e ∧ IsFail n e)

theorem lexSimple_spec {b : Bytes} {n : Nat} (S : Sentinel b n) (s : LexState) (p : Nat) (next : UInt8)
    (hp : p ≤ n) (hlt : p < b.size) (hnext : b[p] = next) (hsp : s.pos ≤ p) (hst : StackOK s.indents) :
    SpecA b n s (lexSimple b s p next) := by
  have hsz := S.size
  have hpn : next ≠ 0 → p < n := fun h => S.lt_of_ne hlt (by rw [hnext]; exact h)
  -- a token ending at `q` with `p < q ≤ n`, state otherwise the same up to braces
  have mk : ∀ (t : Token) (q br : Nat), p < q → q ≤ n → t.pos = p →
      SpecA b n s (.ok (t, { s with pos := q, braces := br })) := by
    intro t q br h1 h2 h3
    refine Or.inl ⟨_, _, rfl, ⟨hst, ?_, ?_, ?_, ?_⟩⟩
    · simp only [M]; omega
    · simp; omega
    · intro _; exact h2
    · omega
  have rdok : ∀ i, i < b.size → ∃ c, rd b i = .ok c := by
    intro i hi; exact ⟨b[i], by simp [rd, hi]⟩
  unfold lexSimple
  simp only []
  by_cases h0 : next = 0
  · -- EOF
    rw [if_pos h0]
    refine Or.inl ⟨_, _, rfl, ⟨hst, ?_, ?_, ?_, ?_⟩⟩
    · simp only [M]; omega
    · simp; omega
    · intro h; exact absurd rfl h
    · exact hp
  rw [if_neg h0]
  have hpn := hpn h0
  by_cases h48 : next = 48
  · rw [if_pos h48]
    obtain ⟨c, hc⟩ := rdok (p + 1) (by omega)
    rw [hc]
    simp only []
    have hp2 : (if c = 111 then p + 1 + 1 else p + 1) ≤ n ∧ p < (if c = 111 then p + 1 + 1 else p + 1) := by
      split
      · rename_i h111
        have := rd_lt S hc (by rw [h111]; decide)
        omega
      · omega
    obtain ⟨q, v, h1, h2, h3⟩ := consumeDigits_spec S (if c = 111 then p + 1 + 1 else p + 1) #[next] hp2.1
    rw [h1]
    exact mk _ q s.braces (by omega) h3 rfl
  rw [if_neg h48]
  by_cases hd : isDigit next = true
  · rw [if_pos hd]
    obtain ⟨q, v, h1, h2, h3⟩ := consumeDigits_spec S (p + 1) #[next] (by omega)
    rw [h1]
    exact mk _ q s.braces (by omega) h3 rfl
  rw [if_neg hd]
  by_cases hq : next = 34 ∨ next = 39
  · rw [if_pos hq]
    rcases consumeQuoted_spec S next p false false (p + 1) h0 (by omega) (by omega) with
      ⟨q, t, h1, h2, h3, h4, h5⟩ | ⟨e, h1, h2⟩
    · rw [h1]; exact mk _ q s.braces (by omega) h3 h5
    · rw [h1]; exact Or.inr ⟨e, rfl, h2⟩
  rw [if_neg hq]
  by_cases hob : C19.openBraces.contains next.toNat = true
  · rw [if_pos hob]; exact mk _ (p + 1) _ (by omega) (by omega) rfl
  rw [if_neg hob]
  by_cases hcb : C19.closeBraces.contains next.toNat = true
  · rw [if_pos hcb]; exact mk _ (p + 1) _ (by omega) (by omega) rfl
  rw [if_neg hcb]
  by_cases heq : C19.eqOps.contains next.toNat = true
  · rw [if_pos heq]
    obtain ⟨c, hc⟩ := rdok (p + 1) (by omega)
    rw [hc]
    simp only []
    split
    · rename_i h61
      have := rd_lt S hc (by rw [h61]; decide)
      exact mk _ (p + 1 + 1) s.braces (by omega) (by omega) rfl
    · exact mk _ (p + 1) s.braces (by omega) (by omega) rfl
  rw [if_neg heq]
  by_cases hsg : C19.singles.contains next.toNat = true
  · rw [if_pos hsg]; exact mk _ (p + 1) s.braces (by omega) (by omega) rfl
  rw [if_neg hsg]
  by_cases h47 : next = 47
  · rw [if_pos h47]
    obtain ⟨c, hc⟩ := rdok (p + 1) (by omega)
    rw [hc]
    simp only []
    split
    · rename_i hc47
      have := rd_lt S hc (by rw [hc47]; decide)
      exact mk _ (p + 1 + 1) s.braces (by omega) (by omega) rfl
    · exact mk _ (p + 1) s.braces (by omega) (by omega) rfl
  rw [if_neg h47]
  by_cases h45 : next = 45
  · rw [if_pos h45]
    obtain ⟨c, hc⟩ := rdok (p + 1) (by omega)
    rw [hc]
    simp only []
    split
    · obtain ⟨q, v, h1, h2, h3⟩ := consumeDigits_spec S (p + 1) #[next] (by omega)
      rw [h1]
      exact mk _ q s.braces (by omega) h3 rfl
    · exact mk _ (p + 1) s.braces (by omega) (by omega) rfl
  rw [if_neg h45]
  split
  · exact Or.inr ⟨_, rfl, _, _, rfl, hp⟩
  · exact Or.inr ⟨_, rfl, _, _, rfl, hp⟩

/-- What `newlineStep` guarantees from a newline at `p < n`. -/
def NLSpec (_b : Bytes) (n : Nat) (s : LexState) (p : Nat) (r : Except LexErr NLStep) : Prop :=
  (∃ q, r = .ok (.blank q) ∧ p < q ∧ q ≤ n) ∨
  (∃ tp s', r = .ok (.line tp s') ∧ StackOK s'.indents ∧ p < s'.pos ∧ s'.pos ≤ n ∧ tp ≤ n ∧
      s'.unindents + s'.indents.length ≤ s.unindents + s.indents.length + 1) ∨
  (∃ e, r = .error e ∧ IsFail n e)

theorem newlineStep_spec {b : Bytes} {n : Nat} (S : Sentinel b n) (s : LexState) (p : Nat)
    (hp : p < n) (hst : StackOK s.indents) : NLSpec b n s p (newlineStep b s p) := by
  have hsz := S.size
  unfold newlineStep
  obtain ⟨q, hq, h1, h2⟩ := skipSpaces_spec S (p + 1) (by omega)
  rw [hq]
  simp only []
  have hqlt : q < b.size := by omega
  have hrd : rd b q = .ok b[q] := by simp [rd, hqlt]
  rw [hrd]
  simp only []
  by_cases hc : b[q] = 10
  · rw [if_pos hc]
    have : q < n := S.lt_of_ne hqlt (by rw [hc]; decide)
    exact Or.inl ⟨q, rfl, by omega, by omega⟩
  rw [if_neg hc]
  by_cases hbr : s.braces = 0
  · simp only [hbr, if_true, and_true]
    by_cases hgt : s.indent > q - (p + 1)
    · rw [if_pos hgt]
      obtain ⟨top, rest, un', hpop, hs', hlen, htop⟩ := popIndents_spec s.indents (q - (p + 1)) s.unindents hst
      rw [hpop]
      simp only []
      split
      · exact Or.inr (Or.inr ⟨_, rfl, _, _, rfl, by omega⟩)
      · refine Or.inr (Or.inl ⟨_, _, rfl, hs', ?_, ?_, ?_, ?_⟩)
        · simp; omega
        · simp; omega
        · omega
        · simp at hlen ⊢; omega
    · rw [if_neg hgt]
      split
      · refine Or.inr (Or.inl ⟨_, _, rfl, ?_, ?_, ?_, ?_, ?_⟩)
        · obtain ⟨init, hi⟩ := hst
          exact ⟨(q - (p + 1)) :: init, by simp [hi]⟩
        · simp; omega
        · simp; omega
        · omega
        · simp; omega
      · refine Or.inr (Or.inl ⟨_, _, rfl, hst, ?_, ?_, ?_, ?_⟩)
        · simp; omega
        · simp; omega
        · omega
        · simp
  · simp only [hbr, if_false, and_false, ne_eq, not_true_eq_false]
    refine Or.inr (Or.inl ⟨_, _, rfl, hst, ?_, ?_, ?_, ?_⟩)
    · simp; omega
    · simp; omega
    · omega
    · simp

/-- `PostA` moves backwards along a self-call of nextToken: the state it was called with is smaller. -/
theorem PostA.trans {b : Bytes} {n : Nat} {s s1 : LexState} {t : Token} {s' : LexState}
    (h : PostA b n s1 t s') (hm : M b s1 < M b s) : PostA b n s t s' :=
  ⟨h.stack, Nat.lt_trans h.meas hm, h.pos_le, h.noneof, h.tpos⟩

theorem SpecA.trans {b : Bytes} {n : Nat} {s s1 : LexState} {r : Except LexErr (Token × LexState)}
    (h : SpecA b n s1 r) (hm : M b s1 < M b s) : SpecA b n s r := by
  rcases h with ⟨t, s', h1, h2⟩ | ⟨e, h1, h2⟩
  · exact Or.inl ⟨t, s', h1, h2.trans hm⟩
  · exact Or.inr ⟨e, h1, h2⟩

theorem skipSpaces_bounds {b : Bytes} {n pos q : Nat} (S : Sentinel b n) (hpos : pos ≤ n)
    (hs : skipSpaces b pos = .ok q) : pos ≤ q ∧ q ≤ n := by
  obtain ⟨p, h1, h2, h3⟩ := skipSpaces_spec S pos hpos
  rw [h1] at hs; cases hs; exact ⟨h2, h3⟩

theorem lookahead_quote {b : Bytes} {n q : Nat} (S : Sentinel b n) (h : q < b.size) (c2 : UInt8)
    (hla : (if b[q] = 114 ∨ b[q] = 102 then rd b (q + 1) else Except.ok 0) = Except.ok c2)
    (hq : c2 = 34 ∨ c2 = 39) : q + 2 ≤ n ∧ c2 ≠ 0 := by
  have hc2 : c2 ≠ 0 := by rcases hq with h | h <;> (rw [h]; decide)
  split at hla
  · have := rd_lt S hla hc2; exact ⟨by omega, hc2⟩
  · cases hla; exact absurd rfl hc2

/-- From any position inside the real input, `nextToken` never reads out of bounds, fails only with a
    positioned error, and otherwise makes progress and stays before the second sentinel. -/
theorem nextToken_specA {b : Bytes} {n : Nat} (S : Sentinel b n) (s : LexState)
    (hst : StackOK s.indents) (hpos : s.pos ≤ n) : SpecA b n s (nextToken b s) := by
  have hsz := S.size
  fun_induction nextToken b s with
  | case1 x e hs =>
    obtain ⟨p, h1, _, _⟩ := skipSpaces_spec S x.pos hpos
    rw [h1] at hs; cases hs
  | case2 x q hs hun =>
    obtain ⟨p, h1, h2, h3⟩ := skipSpaces_spec S x.pos hpos
    rw [h1] at hs; cases hs
    refine Or.inl ⟨_, _, rfl, ⟨hst, ?_, ?_, ?_, ?_⟩⟩
    · simp only [M]; omega
    · simp; omega
    · intro _; exact h3
    · exact h3
  | case3 x q hs hun h next la e hla =>
    have hne : next ≠ 0 := by
      intro h0
      have : la = .ok 0 := by simp only [la, h0]; simp
      rw [this] at hla; cases hla
    have hq : q < n := S.lt_of_ne h hne
    simp only [la] at hla
    split at hla
    · have := rd_error hla; omega
    · cases hla
  | case4 x q hs hun h next la c2 hla quoteFollows raw fstr hrf e hcq =>
    have ⟨hq1, hq2⟩ := skipSpaces_bounds S hpos hs
    have hqf : quoteFollows := by rcases hrf with h | h <;> exact h.2
    have ⟨hq3, hc2⟩ := lookahead_quote S h c2 hla hqf
    rcases consumeQuoted_spec S c2 q (decide raw) (decide fstr) (q + 2) hc2 hq2 hq3 with
      ⟨p, t, h1, _⟩ | ⟨e', h1, h2⟩
    · rw [h1] at hcq; cases hcq
    · rw [h1] at hcq; cases hcq; exact Or.inr ⟨_, rfl, h2⟩
  | case5 x q hs hun h next la c2 hla quoteFollows raw fstr hrf q1 t hcq =>
    have ⟨hq1, hq2⟩ := skipSpaces_bounds S hpos hs
    have hqf : quoteFollows := by rcases hrf with h | h <;> exact h.2
    have ⟨hq3, hc2⟩ := lookahead_quote S h c2 hla hqf
    rcases consumeQuoted_spec S c2 q (decide raw) (decide fstr) (q + 2) hc2 hq2 hq3 with
      ⟨p, t', h1, h2, h3, h4, h5⟩ | ⟨e', h1, h2⟩
    · rw [h1] at hcq; cases hcq
      refine Or.inl ⟨_, _, rfl, ⟨hst, ?_, ?_, ?_, ?_⟩⟩
      · simp only [M]; omega
      · simp; omega
      · intro _; exact h3
      · omega
    · rw [h1] at hcq; cases hcq
  | case6 x q hs hun h next la c2 hla quoteFollows raw fstr hrf hid e hci =>
    have ⟨hq1, hq2⟩ := skipSpaces_bounds S hpos hs
    rcases consumeIdent_spec S q q #[] hq2 hq2 with ⟨p, v, h1, _⟩ | ⟨e', h1, h2⟩
    · rw [h1] at hci; cases hci
    · rw [h1] at hci; cases hci; exact Or.inr ⟨_, rfl, h2⟩
  | case7 x q hs hun h next la c2 hla quoteFollows raw fstr hrf hid p v hci =>
    have ⟨hq1, hq2⟩ := skipSpaces_bounds S hpos hs
    have hne : next ≠ 0 := by
      intro h0; rw [h0] at hid; revert hid; decide
    have hqn : q < n := S.lt_of_ne h hne
    rcases consumeIdent_spec S q q #[] hq2 hq2 with ⟨p', v', h1, h2, h3⟩ | ⟨e', h1, h2⟩
    · rw [h1] at hci; cases hci
      have hlt : q < p := consumeIdent_progress h hid h1
      refine Or.inl ⟨_, _, rfl, ⟨hst, ?_, ?_, ?_, ?_⟩⟩
      · simp only [M]; omega
      · simp; omega
      · intro _; exact h3
      · exact hq2
    · rw [h1] at hci; cases hci
  | case8 x q hs hun h next la c2 hla quoteFollows raw fstr hrf hid h13 ih =>
    have ⟨hq1, hq2⟩ := skipSpaces_bounds S hpos hs
    have hqn : q < n := S.lt_of_ne h (by show next ≠ 0; rw [h13]; decide)
    exact (ih hst (by simp; omega)).trans (by simp only [M]; omega)
  | case9 x q hs hun h next la c2 hla quoteFollows raw fstr hrf hid h13 h10 e hnl =>
    have ⟨hq1, hq2⟩ := skipSpaces_bounds S hpos hs
    have hqn : q < n := S.lt_of_ne h (by show next ≠ 0; rw [h10]; decide)
    rcases newlineStep_spec S x q hqn hst with ⟨q', h1, _⟩ | ⟨tp, s', h1, _⟩ | ⟨e', h1, h2⟩
    · rw [h1] at hnl; cases hnl
    · rw [h1] at hnl; cases hnl
    · rw [h1] at hnl; cases hnl; exact Or.inr ⟨_, rfl, h2⟩
  | case10 x q hs hun h next la c2 hla quoteFollows raw fstr hrf hid h13 h10 q1 hnl ih =>
    have ⟨hq1, hq2⟩ := skipSpaces_bounds S hpos hs
    have hqn : q < n := S.lt_of_ne h (by show next ≠ 0; rw [h10]; decide)
    rcases newlineStep_spec S x q hqn hst with ⟨q', h1, h2, h3⟩ | ⟨tp, s', h1, _⟩ | ⟨e', h1, h2⟩
    · rw [h1] at hnl; cases hnl
      exact (ih hst (by simp; omega)).trans (by simp only [M]; omega)
    · rw [h1] at hnl; cases hnl
    · rw [h1] at hnl; cases hnl
  | case11 x q hs hun h next la c2 hla quoteFollows raw fstr hrf hid h13 h10 tokPos s' hnl hcond =>
    have ⟨hq1, hq2⟩ := skipSpaces_bounds S hpos hs
    have hqn : q < n := S.lt_of_ne h (by show next ≠ 0; rw [h10]; decide)
    rcases newlineStep_spec S x q hqn hst with ⟨q', h1, _⟩ | ⟨tp, s'', h1, h2, h3, h4, h5, h6⟩ | ⟨e', h1, h2⟩
    · rw [h1] at hnl; cases hnl
    · rw [h1] at hnl; cases hnl
      refine Or.inl ⟨_, _, rfl, ⟨h2, ?_, ?_, ?_, ?_⟩⟩
      · simp only [M]; omega
      · omega
      · intro _; exact h4
      · exact h5
    · rw [h1] at hnl; cases hnl
  | case12 x q hs hun h next la c2 hla quoteFollows raw fstr hrf hid h13 h10 tokPos s' hnl hcond ih =>
    have ⟨hq1, hq2⟩ := skipSpaces_bounds S hpos hs
    have hqn : q < n := S.lt_of_ne h (by show next ≠ 0; rw [h10]; decide)
    rcases newlineStep_spec S x q hqn hst with ⟨q', h1, _⟩ | ⟨tp, s'', h1, h2, h3, h4, h5, h6⟩ | ⟨e', h1, h2⟩
    · rw [h1] at hnl; cases hnl
    · rw [h1] at hnl; cases hnl
      exact (ih h2 h4).trans (by simp only [M]; omega)
    · rw [h1] at hnl; cases hnl
  | case13 x q hs hun h next la c2 hla quoteFollows raw fstr hrf hid h13 h10 h35 e hsc =>
    have ⟨hq1, hq2⟩ := skipSpaces_bounds S hpos hs
    have hqn : q < n := S.lt_of_ne h (by show next ≠ 0; rw [h35]; decide)
    obtain ⟨p, h1, _, _⟩ := skipComment_spec S (q + 1) (by omega)
    rw [h1] at hsc; cases hsc
  | case14 x q hs hun h next la c2 hla quoteFollows raw fstr hrf hid h13 h10 h35 q1 hsc ih =>
    have ⟨hq1, hq2⟩ := skipSpaces_bounds S hpos hs
    have hqn : q < n := S.lt_of_ne h (by show next ≠ 0; rw [h35]; decide)
    obtain ⟨p, h1, h2, h3⟩ := skipComment_spec S (q + 1) (by omega)
    rw [h1] at hsc; cases hsc
    exact (ih hst (by simp; omega)).trans (by simp only [M]; omega)
  | case15 x q hs hun h next la c2 hla quoteFollows raw fstr hrf hid h13 h10 h35 =>
    have ⟨hq1, hq2⟩ := skipSpaces_bounds S hpos hs
    exact lexSimple_spec S x q next hq2 h rfl hq1 hst
  | case16 x q hs hun hge =>
    have ⟨hq1, hq2⟩ := skipSpaces_bounds S hpos hs
    omega

/-- From a position inside the sentinels (one `Next()` past the first EOF), `nextToken` still stays in
    bounds: it yields a pending Unindent or another EOF and moves by at most one byte. -/
theorem nextToken_specB {b : Bytes} {n : Nat} (S : Sentinel b n) (s : LexState)
    (hst : StackOK s.indents) (h1 : n ≤ s.pos) (h2 : s.pos < b.size) :
    ∃ t s', nextToken b s = .ok (t, s') ∧ s'.pos ≤ s.pos + 1 ∧ StackOK s'.indents ∧ M b s' < M b s := by
  have hsk := skipSpaces_sentinel S s.pos h1 h2
  have hz : b[s.pos] = 0 := S.zero s.pos h2 h1
  fun_induction nextToken b s with
  | case1 x e hs => rw [hsk] at hs; cases hs
  | case2 x q hs hun =>
    rw [hsk] at hs; cases hs
    exact ⟨_, _, rfl, by simp, hst, by simp only [M]; omega⟩
  | case3 x q hs hun h next la e hla =>
    rw [hsk] at hs; cases hs
    have : la = .ok 0 := by simp only [la, next, hz]; simp
    rw [this] at hla; cases hla
  | case4 x q hs hun h next la c2 hla quoteFollows raw fstr hrf e hcq =>
    rw [hsk] at hs; cases hs
    rcases hrf with h | h
    · have := h.1; simp only [next, hz] at this; exact absurd this (by decide)
    · have := h.1; simp only [next, hz] at this; exact absurd this (by decide)
  | case5 x q hs hun h next la c2 hla quoteFollows raw fstr hrf q1 t hcq =>
    rw [hsk] at hs; cases hs
    rcases hrf with h | h
    · have := h.1; simp only [next, hz] at this; exact absurd this (by decide)
    · have := h.1; simp only [next, hz] at this; exact absurd this (by decide)
  | case6 x q hs hun h next la c2 hla quoteFollows raw fstr hrf hid e hci =>
    rw [hsk] at hs; cases hs
    simp only [next, hz] at hid; exact absurd hid (by decide)
  | case7 x q hs hun h next la c2 hla quoteFollows raw fstr hrf hid p v hci =>
    rw [hsk] at hs; cases hs
    simp only [next, hz] at hid; exact absurd hid (by decide)
  | case8 x q hs hun h next la c2 hla quoteFollows raw fstr hrf hid h13 ih =>
    rw [hsk] at hs; cases hs
    simp only [next, hz] at h13; exact absurd h13 (by decide)
  | case9 x q hs hun h next la c2 hla quoteFollows raw fstr hrf hid h13 h10 e hnl =>
    rw [hsk] at hs; cases hs
    simp only [next, hz] at h10; exact absurd h10 (by decide)
  | case10 x q hs hun h next la c2 hla quoteFollows raw fstr hrf hid h13 h10 q1 hnl ih =>
    rw [hsk] at hs; cases hs
    simp only [next, hz] at h10; exact absurd h10 (by decide)
  | case11 x q hs hun h next la c2 hla quoteFollows raw fstr hrf hid h13 h10 tokPos s' hnl hcond =>
    rw [hsk] at hs; cases hs
    simp only [next, hz] at h10; exact absurd h10 (by decide)
  | case12 x q hs hun h next la c2 hla quoteFollows raw fstr hrf hid h13 h10 tokPos s' hnl hcond ih =>
    rw [hsk] at hs; cases hs
    simp only [next, hz] at h10; exact absurd h10 (by decide)
  | case13 x q hs hun h next la c2 hla quoteFollows raw fstr hrf hid h13 h10 h35 e hsc =>
    rw [hsk] at hs; cases hs
    simp only [next, hz] at h35; exact absurd h35 (by decide)
  | case14 x q hs hun h next la c2 hla quoteFollows raw fstr hrf hid h13 h10 h35 q1 hsc ih =>
    rw [hsk] at hs; cases hs
    simp only [next, hz] at h35; exact absurd h35 (by decide)
  | case15 x q hs hun h next la c2 hla quoteFollows raw fstr hrf hid h13 h10 h35 =>
    rw [hsk] at hs; cases hs
    have hn : next = 0 := hz
    rw [hn]
    unfold lexSimple
    simp only [if_true]
    exact ⟨_, _, rfl, by simp, hst, by simp only [M]; omega⟩
  | case16 x q hs hun hge =>
    rw [hsk] at hs; cases hs
    omega


/-- Invariant of the lexer object between two `Next()` calls, before the first EOF has been returned. -/
structure LInv (b : Bytes) (n : Nat) (l : Lexer) : Prop where
  stack : StackOK l.st.indents
  pos_le : l.st.pos ≤ n + 1
  noneof : l.next.ty ≠ .eof → l.st.pos ≤ n
  tpos : l.next.pos ≤ n

theorem advance_tok {b : Bytes} {l l' : Lexer} {t : Token} (h : l.advance b = .ok (t, l')) : t = l.next := by
  unfold Lexer.advance at h
  split at h
  · cases h
  · cases h; rfl

/-- One `Next()` while the look-ahead token is not EOF. -/
theorem advance_specA {b : Bytes} {n : Nat} (S : Sentinel b n) (l : Lexer) (hi : LInv b n l) (hp : l.st.pos ≤ n) :
    (∃ l', l.advance b = .ok (l.next, l') ∧ LInv b n l' ∧ M b l'.st < M b l.st) ∨
    (∃ e, l.advance b = .error e ∧ IsFail n e) := by
  unfold Lexer.advance
  rcases nextToken_specA S l.st hi.stack hp with ⟨t, s', h1, h2⟩ | ⟨e, h1, h2⟩
  · rw [h1]
    refine Or.inl ⟨_, rfl, ⟨h2.stack, h2.pos_le, h2.noneof, h2.tpos⟩, ?_⟩
    have := h2.meas
    simpa [M] using this
  · rw [h1]; exact Or.inr ⟨e, rfl, h2⟩

/-- One `Next()` when the look-ahead token is the first EOF: the token after it is computed in bounds. -/
theorem advance_specB {b : Bytes} {n : Nat} (S : Sentinel b n) (l : Lexer) (hi : LInv b n l) :
    (∃ l', l.advance b = .ok (l.next, l')) ∨ (∃ e, l.advance b = .error e ∧ IsFail n e) := by
  by_cases hp : l.st.pos ≤ n
  · rcases advance_specA S l hi hp with ⟨l', h, _⟩ | h
    · exact Or.inl ⟨l', h⟩
    · exact Or.inr h
  · have hsz := S.size
    obtain ⟨t, s', h1, _⟩ := nextToken_specB S l.st hi.stack (by omega) (by have := hi.pos_le; omega)
    unfold Lexer.advance
    rw [h1]
    exact Or.inl ⟨_, rfl⟩

/-- How a run of the lexer ends: no error, or a positioned one. -/
def EndOK (n : Nat) (r : Option LexErr) : Prop := r = none ∨ ∃ e, r = some e ∧ IsFail n e

theorem drain_spec {b : Bytes} {n : Nat} (S : Sentinel b n) (fuel : Nat) (l : Lexer) (acc : Array Token)
    (hi : LInv b n l) (hf : M b l.st + 2 ≤ fuel) (hacc : ∀ t ∈ acc, t.pos ≤ n) :
    EndOK n (drain b fuel l acc).2 ∧ (∀ t ∈ (drain b fuel l acc).1, t.pos ≤ n) ∧
    ((drain b fuel l acc).2 = none → ∃ t, (drain b fuel l acc).1.back? = some t ∧ t.ty = .eof) := by
  induction fuel generalizing l acc with
  | zero => omega
  | succ fuel ih =>
    unfold drain
    have hpush : ∀ t ∈ acc.push l.next, t.pos ≤ n := by
      intro t ht
      rcases Array.mem_push.mp ht with h | h
      · exact hacc t h
      · rw [h]; exact hi.tpos
    by_cases heof : l.next.ty = .eof
    · rcases advance_specB S l hi with ⟨l', h1⟩ | ⟨e, h1, h2⟩
      · rw [h1]
        simp only [heof, if_true]
        exact ⟨Or.inl rfl, hpush, fun _ => ⟨l.next, by simp, heof⟩⟩
      · rw [h1]
        exact ⟨Or.inr ⟨e, rfl, h2⟩, hacc, fun h => by cases h⟩
    · rcases advance_specA S l hi (hi.noneof heof) with ⟨l', h1, h2, h3⟩ | ⟨e, h1, h2⟩
      · rw [h1]
        simp only [heof, if_false]
        exact ih l' (acc.push l.next) h2 (by omega) hpush
      · rw [h1]
        exact ⟨Or.inr ⟨e, rfl, h2⟩, hacc, fun h => by cases h⟩

theorem skipLeadingEOL_spec {b : Bytes} {n : Nat} (S : Sentinel b n) (fuel : Nat) (l : Lexer)
    (hi : LInv b n l) (hf : M b l.st + 2 ≤ fuel) :
    (∃ l', skipLeadingEOL b fuel l = .ok l' ∧ LInv b n l' ∧ M b l'.st ≤ M b l.st) ∨
    (∃ e, skipLeadingEOL b fuel l = .error e ∧ IsFail n e) := by
  induction fuel generalizing l with
  | zero => omega
  | succ fuel ih =>
    unfold skipLeadingEOL
    by_cases heol : l.next.ty = .eol
    · simp only [heol, if_true]
      have hne : l.next.ty ≠ .eof := by rw [heol]; decide
      rcases advance_specA S l hi (hi.noneof hne) with ⟨l', h1, h2, h3⟩ | ⟨e, h1, h2⟩
      · rw [h1]
        rcases ih l' h2 (by omega) with ⟨l'', h4, h5, h6⟩ | ⟨e, h4, h5⟩
        · exact Or.inl ⟨l'', h4, h5, by omega⟩
        · exact Or.inr ⟨e, h4, h5⟩
      · rw [h1]; exact Or.inr ⟨e, rfl, h2⟩
    · simp only [heol, if_false]
      exact Or.inl ⟨l, rfl, hi, Nat.le_refl _⟩

theorem newLexer_spec {b : Bytes} {n : Nat} (S : Sentinel b n) :
    (∃ l, newLexer b = .ok l ∧ LInv b n l ∧ M b l.st + 2 ≤ fuelFor b) ∨
    (∃ e, newLexer b = .error e ∧ IsFail n e) := by
  have hsz := S.size
  unfold newLexer
  have hi0 : LInv b n { st := {}, next := ⟨.lit 0, #[], 0⟩ } :=
    ⟨⟨[], rfl⟩, by simp, by intro _; simp, by simp⟩
  rcases advance_specA S _ hi0 (by simp) with ⟨l', h1, h2, h3⟩ | ⟨e, h1, h2⟩
  · rw [h1]
    have hm : M b l'.st + 2 ≤ fuelFor b := by
      simp only [M, fuelFor] at h3 ⊢
      simp at h3
      omega
    rcases skipLeadingEOL_spec S (fuelFor b) l' h2 hm with ⟨l'', h4, h5, h6⟩ | ⟨e, h4, h5⟩
    · exact Or.inl ⟨l'', h4, h5, by omega⟩
    · exact Or.inr ⟨e, h4, h5⟩
  · rw [h1]; exact Or.inr ⟨e, rfl, h2⟩

/-- The buffer built by `newLexer` ends in the sentinels. -/
theorem mkBuffer_sentinel (data : Bytes) (hk : 2 ≤ C19.sentinels) :
    Sentinel (mkBuffer data) ((mkBuffer data).size - C19.sentinels) := by
  unfold mkBuffer
  simp only []
  generalize (if C19.newlineFixup = true ∧ data.size > 0 ∧ data.back? ≠ some 10 then data.push 10 else data) = d
  constructor
  · simp; omega
  · intro i hi hn
    simp at hi hn
    rw [Array.getElem_append_right (by omega)]
    simp

/-- The lexer run on any input: ends without error or with a positioned one, every token position lies in
    the input, and a clean run ends with the EOF token. -/
theorem lexAll_spec (data : Bytes) (hk : 2 ≤ C19.sentinels) :
    let n := (mkBuffer data).size - C19.sentinels
    EndOK n (lexAll data).2 ∧ (∀ t ∈ (lexAll data).1, t.pos ≤ n) ∧
    ((lexAll data).2 = none → ∃ t, (lexAll data).1.back? = some t ∧ t.ty = .eof) := by
  intro n
  have S := mkBuffer_sentinel data hk
  unfold lexAll
  simp only []
  rcases newLexer_spec S with ⟨l, h1, h2, h3⟩ | ⟨e, h1, h2⟩
  · rw [h1]
    exact drain_spec S _ l #[] h2 h3 (by simp)
  · rw [h1]
    exact ⟨Or.inr ⟨e, rfl, h2⟩, by simp, fun h => by cases h⟩

end PlzVerif.AspLex
