import PlzVerif.Lemmas.CrashBuild
/-! C32: every shape one output's slice can have after a crash of the build step at any position (`CrashForm`),
    and the slice a complete build step leaves (`srun_local`). Core only. -/
namespace PlzVerif.CrashBuild
set_option linter.unusedSectionVars false
set_option linter.unusedSimpArgs false

variable {N C S H : Type} [DecidableEq N] [DecidableEq H] [DecidableEq S]

/-- the real output once `moveOutput` is through with it: the old node when the hashes agree, else the new file (no stamp) -/
def moved0 (b : Params N C S H) (sl : Slice C S) (n : N) : Node C S :=
  match sl.gen with
  | some nd => if b.hash nd.content = b.hash (b.new n) then nd else ⟨b.new n, none⟩
  | none => ⟨b.new n, none⟩

/-- All shapes of output `n`'s slice after a cut of `localOps`, relative to the slice `sl0` before the build step. -/
inductive CrashForm (b : Params N C S H) (n : N) (sl0 : Slice C S) : Slice C S → Prop
  | pre (t : Option C) : CrashForm b n sl0 ⟨t, sl0.gen, sl0.fb⟩
  | degraded (t : Option C) (nd : Node C S) (c : C) : sl0.gen = some nd → b.hash nd.content ≠ b.hash (b.new n) →
      c ∈ b.rmSteps n → CrashForm b n sl0 ⟨t, some ⟨c, nd.attr⟩, sl0.fb⟩
  | removed (t : Option C) (nd : Node C S) : sl0.gen = some nd → b.hash nd.content ≠ b.hash (b.new n) →
      CrashForm b n sl0 ⟨t, none, sl0.fb⟩
  | moved (t : Option C) : CrashForm b n sl0 ⟨t, some (moved0 b sl0 n), sl0.fb⟩
  | attrSet (t : Option C) : b.useFb n = false →
      CrashForm b n sl0 ⟨t, some { moved0 b sl0 n with attr := some b.stamp }, sl0.fb⟩
  | fbPartial (t : Option C) (k : Nat) : b.useFb n = true → CrashForm b n sl0 ⟨t, some (moved0 b sl0 n), some (.trunc k)⟩
  | fbDone (t : Option C) : b.useFb n = true → CrashForm b n sl0 ⟨t, some (moved0 b sl0 n), some (.full b.stamp)⟩

theorem srun_nil (sl : Slice C S) : srun sl [] = sl := rfl
theorem srun_cons (sl : Slice C S) (o : SOp C S) (l : List (SOp C S)) : srun sl (o :: l) = srun (sstep sl o) l := rfl

/-- a run of `degrade` steps only changes the content of an existing node -/
theorem srun_degrade (t : Option C) (a : Option S) (f : Option (Fb S)) : ∀ (L : List C) (c0 : C),
    ∃ c', (c' = c0 ∨ c' ∈ L) ∧ srun ⟨t, some ⟨c0, a⟩, f⟩ (L.map SOp.degrade) = ⟨t, some ⟨c', a⟩, f⟩
  | [], c0 => ⟨c0, Or.inl rfl, rfl⟩
  | c :: L, c0 => by
    obtain ⟨c', h, e⟩ := srun_degrade t a f L c
    refine ⟨c', ?_, ?_⟩
    · rcases h with h | h
      · exact Or.inr (by simp [h])
      · exact Or.inr (List.mem_cons_of_mem _ h)
    · simpa [List.map_cons, srun_cons, sstep] using e

theorem srun_fbPart (t : Option C) (g : Option (Node C S)) : ∀ (L : List Nat) (k0 : Nat),
    ∃ k, srun ⟨t, g, some (.trunc k0)⟩ (L.map SOp.fbPart) = (⟨t, g, some (.trunc k)⟩ : Slice C S)
  | [], k0 => ⟨k0, rfl⟩
  | k :: L, k0 => by
    obtain ⟨k', e⟩ := srun_fbPart t g L k
    exact ⟨k', by simpa [List.map_cons, srun_cons, sstep] using e⟩

/-- the move phase, run to its end -/
theorem srun_move (b : Params N C S H) (n : N) (t : C) (g : Option (Node C S)) (f : Option (Fb S)) :
    ∃ t', srun ⟨some t, g, f⟩ (moveS b ⟨some t, g, f⟩ n) = ⟨t', some (match g with
      | some nd => if b.hash nd.content = b.hash (b.new n) then nd else ⟨t, none⟩
      | none => ⟨t, none⟩), f⟩ := by
  cases g with
  | none => exact ⟨none, by simp [moveS, srun_cons, srun_nil, sstep]⟩
  | some nd =>
    by_cases hh : b.hash nd.content = b.hash (b.new n)
    · exact ⟨some t, by simp [moveS, hh, srun_cons, srun_nil, sstep]⟩
    · obtain ⟨c', _, e⟩ := srun_degrade (some t) nd.attr f (b.rmSteps n) nd.content
      refine ⟨none, ?_⟩
      simp only [moveS, hh, if_false, srun_append]
      have : (⟨some t, some nd, f⟩ : Slice C S) = ⟨some t, some ⟨nd.content, nd.attr⟩, f⟩ := rfl
      rw [this, e]
      simp [srun_cons, srun_nil, sstep]

/-- cuts of the move phase -/
theorem crash_move (b : Params N C S H) (n : N) (sl0 : Slice C S) (i : Nat) :
    CrashForm b n sl0 (srun ⟨some (b.new n), sl0.gen, sl0.fb⟩ ((moveS b ⟨some (b.new n), sl0.gen, sl0.fb⟩ n).take i)) := by
  cases hg : sl0.gen with
  | none =>
    cases i with
    | zero => simpa [moveS, srun_nil, hg] using CrashForm.pre (b := b) (n := n) (sl0 := sl0) (some (b.new n))
    | succ i =>
      have := CrashForm.moved (b := b) (n := n) (sl0 := sl0) none
      simpa [moveS, srun_cons, srun_nil, sstep, moved0, hg] using this
  | some nd =>
    by_cases hh : b.hash nd.content = b.hash (b.new n)
    · have hp := CrashForm.pre (b := b) (n := n) (sl0 := sl0) (some (b.new n))
      rw [hg] at hp
      cases i with
      | zero => simpa [moveS, hh, srun_nil] using hp
      | succ i => simpa [moveS, hh, srun_cons, srun_nil, sstep] using hp
    · simp only [moveS, hh, if_false]
      rcases take_append_cases ((b.rmSteps n).map SOp.degrade) [.remove, .rename] i with ⟨i', e⟩ | ⟨i', e⟩
      · rw [e, ← List.map_take]
        obtain ⟨c', hc, e'⟩ := srun_degrade (some (b.new n)) nd.attr sl0.fb ((b.rmSteps n).take i') nd.content
        have : (⟨some (b.new n), some nd, sl0.fb⟩ : Slice C S) = ⟨some (b.new n), some ⟨nd.content, nd.attr⟩, sl0.fb⟩ := rfl
        rw [this, e']
        rcases hc with hc | hc
        · subst hc
          have hp := CrashForm.pre (b := b) (n := n) (sl0 := sl0) (some (b.new n))
          rw [hg] at hp; exact hp
        · exact CrashForm.degraded _ nd c' hg hh (List.mem_of_mem_take hc)
      · rw [e, srun_append]
        obtain ⟨c', hc, e'⟩ := srun_degrade (some (b.new n)) nd.attr sl0.fb (b.rmSteps n) nd.content
        have : (⟨some (b.new n), some nd, sl0.fb⟩ : Slice C S) = ⟨some (b.new n), some ⟨nd.content, nd.attr⟩, sl0.fb⟩ := rfl
        rw [this, e']
        cases i' with
        | zero =>
          rcases hc with hc | hc
          · subst hc
            have hp := CrashForm.pre (b := b) (n := n) (sl0 := sl0) (some (b.new n))
            rw [hg] at hp; simpa [srun_nil] using hp
          · simpa [srun_nil] using CrashForm.degraded (b := b) (n := n) (sl0 := sl0) (some (b.new n)) nd c' hg hh hc
        | succ i' =>
          cases i' with
          | zero => simpa [srun_cons, srun_nil, sstep] using CrashForm.removed (b := b) (n := n) (sl0 := sl0) (some (b.new n)) nd hg hh
          | succ i' =>
            have := CrashForm.moved (b := b) (n := n) (sl0 := sl0) none
            simpa [srun_cons, srun_nil, sstep, moved0, hg, hh] using this

/-- cuts of the stamp phase -/
theorem crash_stamp (b : Params N C S H) (n : N) (sl0 : Slice C S) (t : Option C) (i : Nat) :
    CrashForm b n sl0 (srun ⟨t, some (moved0 b sl0 n), sl0.fb⟩ ((stampS b n).take i)) := by
  by_cases hf : b.useFb n = true
  · simp only [stampS, hf, if_true]
    cases i with
    | zero => simpa [srun_nil] using CrashForm.moved (b := b) (n := n) (sl0 := sl0) t
    | succ i =>
      simp only [List.cons_append, List.nil_append, List.take_succ_cons, srun_cons, sstep]
      rcases take_append_cases (b.fbParts.map SOp.fbPart) [.fbFull b.stamp] i with ⟨i', e⟩ | ⟨i', e⟩
      · rw [e, ← List.map_take]
        obtain ⟨k, e'⟩ := srun_fbPart t (some (moved0 b sl0 n)) (b.fbParts.take i') 0
        rw [e']; exact CrashForm.fbPartial t k hf
      · rw [e, srun_append]
        obtain ⟨k, e'⟩ := srun_fbPart t (some (moved0 b sl0 n)) b.fbParts 0
        rw [e']
        cases i' with
        | zero => simpa [srun_nil] using CrashForm.fbPartial (b := b) (n := n) (sl0 := sl0) t k hf
        | succ i' => simpa [srun_cons, srun_nil, sstep] using CrashForm.fbDone (b := b) (n := n) (sl0 := sl0) t hf
  · have hf' : b.useFb n = false := by simpa using hf
    simp only [stampS, hf', Bool.false_eq_true, if_false]
    cases i with
    | zero => simpa [srun_nil] using CrashForm.moved (b := b) (n := n) (sl0 := sl0) t
    | succ i => simpa [srun_cons, srun_nil, sstep] using CrashForm.attrSet (b := b) (n := n) (sl0 := sl0) t hf'

theorem moveS_congr (b : Params N C S H) (n : N) (s1 s2 : Slice C S) (h : s1.gen = s2.gen) : moveS b s1 n = moveS b s2 n := by
  simp [moveS, h]

/-- Every cut of the build step leaves output `n` in one of the `CrashForm` shapes. -/
theorem crash_forms (b : Params N C S H) (fs : TState N C S) (n : N) (j : Nat) :
    CrashForm b n (fs.out n) (srun (fs.out n) ((localOps b fs n).take j)) := by
  generalize hsl : fs.out n = sl0
  have hl : localOps b fs n = [.prep, .run (b.new n)] ++ (moveS b ⟨some (b.new n), sl0.gen, sl0.fb⟩ n ++ stampS b n) := by
    simp only [localOps, hsl, List.append_assoc]
    rw [moveS_congr b n sl0 ⟨some (b.new n), sl0.gen, sl0.fb⟩ rfl]
  rw [hl]
  have hP : srun sl0 [.prep, .run (b.new n)] = ⟨some (b.new n), sl0.gen, sl0.fb⟩ := by
    simp [srun_cons, srun_nil, sstep]
  rcases take_append_cases [SOp.prep, .run (b.new n)] (moveS b ⟨some (b.new n), sl0.gen, sl0.fb⟩ n ++ stampS b n) j with ⟨i, e⟩ | ⟨i, e⟩
  · rw [e]
    cases i with
    | zero => simpa [srun_nil] using CrashForm.pre (b := b) (n := n) (sl0 := sl0) sl0.tmp
    | succ i =>
      cases i with
      | zero => simpa [srun_cons, srun_nil, sstep] using CrashForm.pre (b := b) (n := n) (sl0 := sl0) none
      | succ i => simpa [srun_cons, srun_nil, sstep] using CrashForm.pre (b := b) (n := n) (sl0 := sl0) (some (b.new n))
  · rw [e, srun_append, hP]
    rcases take_append_cases (moveS b ⟨some (b.new n), sl0.gen, sl0.fb⟩ n) (stampS b n) i with ⟨i', e'⟩ | ⟨i', e'⟩
    · rw [e']; exact crash_move b n sl0 i'
    · rw [e', srun_append]
      obtain ⟨t', em⟩ := srun_move b n (b.new n) sl0.gen sl0.fb
      rw [em]
      have : (match sl0.gen with
          | some nd => if b.hash nd.content = b.hash (b.new n) then nd else ⟨b.new n, none⟩
          | none => (⟨b.new n, none⟩ : Node C S)) = moved0 b sl0 n := rfl
      rw [this]
      exact crash_stamp b n sl0 t' i'

/-- The slice a complete build step leaves: the moved/kept node, stamped with the current stamp. -/
theorem srun_local (b : Params N C S H) (fs : TState N C S) (n : N) :
    ∃ t, srun (fs.out n) (localOps b fs n) =
      if b.useFb n then ⟨t, some (moved0 b (fs.out n) n), some (.full b.stamp)⟩
      else ⟨t, some { moved0 b (fs.out n) n with attr := some b.stamp }, (fs.out n).fb⟩ := by
  generalize hsl : fs.out n = sl0
  have hl : localOps b fs n = [.prep, .run (b.new n)] ++ (moveS b ⟨some (b.new n), sl0.gen, sl0.fb⟩ n ++ stampS b n) := by
    simp only [localOps, hsl, List.append_assoc]
    rw [moveS_congr b n sl0 ⟨some (b.new n), sl0.gen, sl0.fb⟩ rfl]
  have hP : srun sl0 [.prep, .run (b.new n)] = ⟨some (b.new n), sl0.gen, sl0.fb⟩ := by
    simp [srun_cons, srun_nil, sstep]
  obtain ⟨t', em⟩ := srun_move b n (b.new n) sl0.gen sl0.fb
  have hm : (match sl0.gen with
      | some nd => if b.hash nd.content = b.hash (b.new n) then nd else ⟨b.new n, none⟩
      | none => (⟨b.new n, none⟩ : Node C S)) = moved0 b sl0 n := rfl
  rw [hl, srun_append, hP, srun_append, em, hm]
  refine ⟨t', ?_⟩
  by_cases hf : b.useFb n = true
  · simp only [stampS, hf, if_true, List.cons_append, List.nil_append, srun_cons, sstep, srun_append]
    obtain ⟨k, e'⟩ := srun_fbPart t' (some (moved0 b sl0 n)) b.fbParts 0
    rw [e']; simp [srun_cons, srun_nil, sstep]
  · have hf' : b.useFb n = false := by simpa using hf
    simp [stampS, hf', srun_cons, srun_nil, sstep]

theorem moved0_content (b : Params N C S H) (hH : Function.Injective b.hash) (sl : Slice C S) (n : N) :
    (moved0 b sl n).content = b.new n := by
  unfold moved0
  cases sl.gen with
  | none => rfl
  | some nd =>
    simp only
    split
    · rename_i h; exact hH h
    · rfl

end PlzVerif.CrashBuild
