import PlzVerif.Lemmas.Build
import PlzVerif.Model.Lock
/-!
C31 helper lemmas about the coordinator's `clean` (Model/Build.lean), core only:

* `cleanList_spec`  — on a well-formed list the clean build satisfies its recursive equation: every target's
  value is `exec` of its sources and of the clean values of its dependencies;
* `cleanList_sel_agree` — a dependency-closed selection gets the same values as building everything, so
  "the clean build of what process p asked for" and "the clean build of the whole repository" agree on p's
  targets (this is what lets one global invariant serve every process);
* `readIns_clean` — a worker whose dependencies all hold their clean values reads exactly the clean inputs.
-/
namespace PlzVerif.Lock
open PlzVerif.Build
set_option linter.unusedSectionVars false
set_option linter.unusedSimpArgs false

variable {K A F N C S H : Type} [DecidableEq K] [DecidableEq S] [DecidableEq N] [DecidableEq H]
variable (exec : A → List (N × C) → C)

def allSel : K → Bool := fun _ => true

theorem filterMap_congr' {α β : Type} {f g : α → Option β} : ∀ {l : List α}, (∀ a ∈ l, f a = g a) →
    l.filterMap f = l.filterMap g
  | [], _ => rfl
  | a :: l, h => by
    have ha := h a (List.mem_cons_self ..)
    have ih := filterMap_congr' (l := l) (fun b hb => h b (List.mem_cons_of_mem _ hb))
    simp only [List.filterMap_cons, ha, ih]

/-- Inputs of `t` when every dependency has the value `cv` says. -/
def insOf (r : Repo K A F N C) (cv : K → Option C) (t : Target K A F) : List (N × C) :=
  t.srcs.map (fun f => (r.fname f, r.files f)) ++
    t.deps.filterMap (fun d => (cv d).map (fun c => (r.outName d, c)))

theorem insOf_congr (r : Repo K A F N C) (cv cv' : K → Option C) (t : Target K A F)
    (h : ∀ d ∈ t.deps, cv d = cv' d) : insOf r cv t = insOf r cv' t := by
  unfold insOf
  congr 1
  apply filterMap_congr'
  intro d hd
  rw [h d hd]

theorem lookup_append_left {k : K} {acc : List (K × C)} (x : K × C) (h : k ≠ x.1) :
    (acc ++ [x]).lookup k = acc.lookup k := by
  induction acc with
  | nil =>
    obtain ⟨k', c'⟩ := x
    have : (k == k') = false := by simpa using h
    simp [List.lookup, this]
  | cons p ps ih =>
    obtain ⟨k', c'⟩ := p
    simp only [List.cons_append, List.lookup_cons]
    cases hk : k == k' <;> simp [ih]

theorem lookup_some_mem_keys {k : K} {acc : List (K × C)} {c : C} (h : acc.lookup k = some c) :
    k ∈ acc.map (·.1) := by
  induction acc with
  | nil => simp at h
  | cons p ps ih =>
    obtain ⟨k', c'⟩ := p
    simp only [List.lookup_cons] at h
    cases hk : k == k' with
    | true => simp at hk; simp [hk]
    | false => simp only [hk] at h; simp [ih h]

/-- Appending at the end never changes a lookup that already succeeds. -/
theorem lookup_append_keep {k : K} {acc : List (K × C)} (x : K × C) (h : k ∈ acc.map (·.1)) :
    (acc ++ [x]).lookup k = acc.lookup k := by
  induction acc with
  | nil => simp at h
  | cons p ps ih =>
    obtain ⟨k', c'⟩ := p
    simp only [List.cons_append, List.lookup_cons]
    cases hk : k == k' with
    | true => rfl
    | false =>
      simp only [List.map_cons, List.mem_cons] at h
      rcases h with h | h
      · simp [h] at hk
      · exact ih h

/-- `cleanList` only appends: lookups of keys already present are unchanged. -/
theorem cleanList_lookup_keep (r : Repo K A F N C) (sel : K → Bool) :
    ∀ (ts : List (Target K A F)) (acc : List (K × C)) (k : K), k ∈ acc.map (·.1) →
      (cleanList exec r sel ts acc).lookup k = acc.lookup k := by
  intro ts
  induction ts with
  | nil => intro acc k _; rfl
  | cons t ts ih =>
    intro acc k hk
    by_cases hs : sel t.key = true
    · simp only [cleanList, hs, if_true]
      rw [ih _ k (by simp [hk])]
      exact lookup_append_keep _ hk
    · simp only [Bool.not_eq_true] at hs
      simp only [cleanList, hs]
      exact ih acc k hk

/-- The recursive equation of the clean build, for every selected target of a well-formed list. -/
theorem cleanList_spec (r : Repo K A F N C) (sel : K → Bool) :
    ∀ (ts : List (Target K A F)) (seen : List K) (acc : List (K × C)),
      acc.map (·.1) = seen → WFList sel seen ts →
      ∀ t ∈ ts, sel t.key = true →
        (cleanList exec r sel ts acc).lookup t.key =
          some (exec t.attrs (insOf r (fun d => (cleanList exec r sel ts acc).lookup d) t)) := by
  intro ts
  induction ts with
  | nil => intro seen acc _ _ t ht; simp at ht
  | cons t0 ts ih =>
    intro seen acc hk hwf t ht hst
    by_cases hs : sel t0.key = true
    · simp only [WFList, hs, if_true] at hwf
      obtain ⟨hd, hnew, hwf'⟩ := hwf
      simp only [cleanList, hs, if_true]
      have hk' : (acc ++ [(t0.key, exec t0.attrs (t0.srcs.map (fun f => (r.fname f, r.files f)) ++
          t0.deps.filterMap (fun d => (acc.lookup d).map (fun c => (r.outName d, c)))))]).map (·.1) =
          seen ++ [t0.key] := by simp [hk]
      rcases List.mem_cons.mp ht with rfl | ht'
      · -- the head: its value was just appended and is kept; its dependencies are in `seen`
        rw [cleanList_lookup_keep exec r sel ts _ t.key (by rw [hk']; simp)]
        rw [lookup_append_new (by rw [hk]; exact hnew)]
        congr 2
        unfold insOf
        congr 1
        apply filterMap_congr'
        intro d hdm
        have hds : d ∈ seen := hd d hdm
        dsimp only
        rw [cleanList_lookup_keep exec r sel ts _ d (by rw [hk']; simp [hds])]
        rw [lookup_append_keep _ (by rw [hk]; exact hds)]
      · exact ih _ _ hk' hwf' t ht' hst
    · simp only [Bool.not_eq_true] at hs
      simp only [WFList, hs] at hwf
      simp only [cleanList, hs]
      rcases List.mem_cons.mp ht with rfl | ht'
      · rw [hs] at hst; exact absurd hst (by simp)
      · exact ih seen acc hk (by simpa using hwf) t ht' hst

/-- A selection closed under dependencies computes, on its own keys, what building everything computes. -/
theorem cleanList_sel_agree (r : Repo K A F N C) (sel : K → Bool) :
    ∀ (ts : List (Target K A F)) (acc1 acc2 : List (K × C)),
      (∀ t ∈ ts, sel t.key = true → ∀ d ∈ t.deps, sel d = true) →
      (∀ k, sel k = true → acc1.lookup k = acc2.lookup k) →
      ∀ k, sel k = true →
        (cleanList exec r sel ts acc1).lookup k = (cleanList exec r allSel ts acc2).lookup k := by
  intro ts
  induction ts with
  | nil => intro acc1 acc2 _ h k hk; exact h k hk
  | cons t ts ih =>
    intro acc1 acc2 hcl hag k hk
    have hcl' : ∀ t' ∈ ts, sel t'.key = true → ∀ d ∈ t'.deps, sel d = true :=
      fun t' ht' => hcl t' (List.mem_cons_of_mem _ ht')
    by_cases hs : sel t.key = true
    · simp only [cleanList, hs, allSel, if_true]
      have hins : t.deps.filterMap (fun d => (acc1.lookup d).map (fun c => (r.outName d, c))) =
          t.deps.filterMap (fun d => (acc2.lookup d).map (fun c => (r.outName d, c))) := by
        apply filterMap_congr'
        intro d hd
        rw [hag d (hcl t (List.mem_cons_self ..) hs d hd)]
      rw [hins]
      apply ih _ _ hcl' _ k hk
      intro k' hk'
      simp only [List.lookup_append, hag k' hk']
    · simp only [Bool.not_eq_true] at hs
      simp only [cleanList, hs, allSel, if_true]
      apply ih _ _ hcl' _ k hk
      intro k' hk'
      have hne : k' ≠ t.key := fun e => by rw [e, hs] at hk'; exact absurd hk' (by simp)
      rw [lookup_append_left _ hne]
      exact hag k' hk'

/-- Clean value of a key when the whole repository is built. -/
def cval (r : Repo K A F N C) (k : K) : Option C := (clean exec r allSel).lookup k

/-- Clean inputs / output / stamp of a target. -/
def cins (r : Repo K A F N C) (t : Target K A F) : List (N × C) := insOf r (cval exec r) t
def cleanv (r : Repo K A F N C) (t : Target K A F) : C := exec t.attrs (cins exec r t)
def cstamp (ruleSer : A → S) (pathSer : C → H) (r : Repo K A F N C) (t : Target K A F) : Stamp S N H :=
  stampOf ruleSer pathSer t.attrs (cins exec r t)

/-- Well-formed repository: keys distinct, dependencies are earlier targets. -/
abbrev WF (r : Repo K A F N C) : Prop := WFList (allSel (K := K)) [] r.targets

theorem cval_spec (r : Repo K A F N C) (hwf : WF r) : ∀ t ∈ r.targets, cval exec r t.key = some (cleanv exec r t) := by
  intro t ht
  exact cleanList_spec exec r allSel r.targets [] [] rfl hwf t ht rfl

/-- In a well-formed list every dependency is the key of a target that comes earlier (so in the list),
    and keys are not repeated. -/
theorem wf_deps_keys (sel : K → Bool) : ∀ (ts : List (Target K A F)) (seen : List K), WFList sel seen ts →
    (∀ t ∈ ts, sel t.key = true → ∀ d ∈ t.deps, d ∈ seen ∨ ∃ t' ∈ ts, sel t'.key = true ∧ t'.key = d) ∧
    (∀ t ∈ ts, sel t.key = true → t.key ∉ seen) ∧
    (∀ t1 ∈ ts, ∀ t2 ∈ ts, sel t1.key = true → t1.key = t2.key → t1 = t2) := by
  intro ts
  induction ts with
  | nil => intro seen _; simp
  | cons t0 ts ih =>
    intro seen hwf
    by_cases hs : sel t0.key = true
    · simp only [WFList, hs, if_true] at hwf
      obtain ⟨hd, hnew, hwf'⟩ := hwf
      obtain ⟨i1, i2, i3⟩ := ih (seen ++ [t0.key]) hwf'
      refine ⟨?_, ?_, ?_⟩
      · intro t ht hst d hdm
        rcases List.mem_cons.mp ht with rfl | ht'
        · exact Or.inl (hd d hdm)
        · rcases i1 t ht' hst d hdm with h | ⟨t', ht'm, hs', hk'⟩
          · rcases List.mem_append.mp h with h | h
            · exact Or.inl h
            · have : d = t0.key := by simpa using h
              exact Or.inr ⟨t0, List.mem_cons_self .., hs, this.symm⟩
          · exact Or.inr ⟨t', List.mem_cons_of_mem _ ht'm, hs', hk'⟩
      · intro t ht hst
        rcases List.mem_cons.mp ht with rfl | ht'
        · exact hnew
        · exact fun h => i2 t ht' hst (List.mem_append_left _ h)
      · intro t1 ht1 t2 ht2 hs1 hk
        rcases List.mem_cons.mp ht1 with rfl | ht1' <;> rcases List.mem_cons.mp ht2 with rfl | ht2'
        · rfl
        · have hs2 : sel t2.key = true := hk ▸ hs1
          exact absurd (by rw [hk]; simp) (i2 t2 ht2' hs2)
        · exact absurd (by rw [← hk]; simp) (i2 t1 ht1' hs1)
        · exact i3 t1 ht1' t2 ht2' hs1 hk
    · simp only [Bool.not_eq_true] at hs
      simp only [WFList, hs] at hwf
      obtain ⟨i1, i2, i3⟩ := ih seen (by simpa using hwf)
      refine ⟨?_, ?_, ?_⟩
      · intro t ht hst d hdm
        rcases List.mem_cons.mp ht with rfl | ht'
        · rw [hs] at hst; exact absurd hst (by simp)
        · rcases i1 t ht' hst d hdm with h | ⟨t', ht'm, hs', hk'⟩
          · exact Or.inl h
          · exact Or.inr ⟨t', List.mem_cons_of_mem _ ht'm, hs', hk'⟩
      · intro t ht hst
        rcases List.mem_cons.mp ht with rfl | ht'
        · rw [hs] at hst; exact absurd hst (by simp)
        · exact i2 t ht' hst
      · intro t1 ht1 t2 ht2 hs1 hk
        rcases List.mem_cons.mp ht1 with rfl | ht1'
        · rw [hs] at hs1; exact absurd hs1 (by simp)
        · rcases List.mem_cons.mp ht2 with rfl | ht2'
          · rw [hk, hs] at hs1; exact absurd hs1 (by simp)
          · exact i3 t1 ht1' t2 ht2' hs1 hk

theorem wf_dep_is_target (r : Repo K A F N C) (hwf : WF r) :
    ∀ t ∈ r.targets, ∀ d ∈ t.deps, ∃ t' ∈ r.targets, t'.key = d := by
  intro t ht d hd
  rcases (wf_deps_keys allSel r.targets [] hwf).1 t ht rfl d hd with h | ⟨t', ht', _, hk⟩
  · simp at h
  · exact ⟨t', ht', hk⟩

theorem wf_key_inj (r : Repo K A F N C) (hwf : WF r) :
    ∀ t1 ∈ r.targets, ∀ t2 ∈ r.targets, t1.key = t2.key → t1 = t2 :=
  fun t1 h1 t2 h2 hk => (wf_deps_keys allSel r.targets [] hwf).2.2 t1 h1 t2 h2 rfl hk

/-- Every dependency of a target of a well-formed repository has a clean value. -/
theorem cval_dep_some (r : Repo K A F N C) (hwf : WF r) :
    ∀ t ∈ r.targets, ∀ d ∈ t.deps, ∃ c, cval exec r d = some c := by
  intro t ht d hd
  obtain ⟨t', ht', hk⟩ := wf_dep_is_target r hwf t ht d hd
  exact ⟨_, hk ▸ cval_spec exec r hwf t' ht'⟩

/-- A worker whose dependencies all hold their clean values reads exactly the clean inputs. -/
theorem readIns_clean (r : Repo K A F N C) (hwf : WF r) (gen : K → Option C) (t : Target K A F) (ht : t ∈ r.targets)
    (h : ∀ d ∈ t.deps, gen d = cval exec r d) : readIns r gen t = some (cins exec r t) := by
  have hsome := cval_dep_some exec r hwf t ht
  unfold readIns cins insOf
  have : t.deps.mapM (fun d => (gen d).map (fun c => (r.outName d, c))) =
      some (t.deps.filterMap (fun d => (cval exec r d).map (fun c => (r.outName d, c)))) := by
    generalize t.deps = deps at h hsome
    induction deps with
    | nil => simp
    | cons d ds ih =>
      obtain ⟨c, hc⟩ := hsome d (List.mem_cons_self ..)
      have hg := h d (List.mem_cons_self ..)
      have ih' := ih (fun d' hd' => h d' (List.mem_cons_of_mem _ hd')) (fun d' hd' => hsome d' (List.mem_cons_of_mem _ hd'))
      simp [List.mapM_cons, hg, hc, ih']
  rw [this]
  rfl

/-- The clean build of a dependency-closed request agrees with the clean build of the repository. -/
theorem clean_sel_eq_cval (r : Repo K A F N C) (sel : K → Bool)
    (hcl : ∀ t ∈ r.targets, sel t.key = true → ∀ d ∈ t.deps, sel d = true) (k : K) (hk : sel k = true) :
    (clean exec r sel).lookup k = cval exec r k :=
  cleanList_sel_agree exec r sel r.targets [] [] hcl (fun _ _ => rfl) k hk

end PlzVerif.Lock
