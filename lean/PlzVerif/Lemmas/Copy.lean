import PlzVerif.Model.Copy
set_option linter.unusedSimpArgs false
/-! Lemmas for C34: the inode table only grows; a copy into a fresh destination is faithful. -/
namespace PlzVerif.Copy
open PlzVerif.Walk (Name)

/-! ### the inode table only grows (nothing that exists is written to) -/

theorem copyFile_prefix {F : Facts} (hF : F.tempThenRename = true) {inos : List Inode} {i mode : Nat} {cur : Option Node}
    {d : Node} {inos' : List Inode} (h : copyFile F inos i mode cur = .ok (d, inos')) : inos <+: inos' := by
  unfold copyFile at h
  split at h
  · cases h
  · simp only [hF, if_true] at h
    split at h
    · cases h
    · cases h; exact List.prefix_append _ _
    · cases h; exact List.prefix_append _ _
    · cases h; exact List.prefix_append _ _

theorem copyOrLinkRegular_prefix {F : Facts} (hF : F.tempThenRename = true) {p : Params} {inos : List Inode} {i : Nat}
    {cur : Option Node} {d : Node} {inos' : List Inode} (h : copyOrLinkRegular F p inos i cur = .ok (d, inos')) :
    inos <+: inos' := by
  unfold copyOrLinkRegular at h
  split at h
  · split at h
    · split at h
      · cases h; exact List.prefix_refl _
      · cases h
    · split at h
      · exact copyFile_prefix hF h
      · cases h
  · exact copyFile_prefix hF h

mutual
theorem copyNode_prefix (F : Facts) (hF : F.tempThenRename = true) (p : Params) : ∀ (src : Node) (cur : Option Node) (inos inos' : List Inode) (d : Node),
    copyNode F p src cur inos = .ok (d, inos') → inos <+: inos'
  | .file i, cur, inos, inos', d, h => by
    simp only [copyNode] at h; exact copyOrLinkRegular_prefix hF h
  | .link t, cur, inos, inos', d, h => by
    simp only [copyNode, symlinkAt] at h
    cases cur <;> simp [Except.map] at h
    rw [h.2]; exact List.prefix_refl _
  | .dir es, cur, inos, inos', d, h => by
    simp only [copyNode] at h
    cases cur with
    | none =>
      cases hr : copyEnts F p es .nil inos with
      | error e => simp [hr, Except.map] at h
      | ok r =>
        simp only [hr, Except.map, Except.ok.injEq, Prod.mk.injEq] at h
        rw [← h.2]; exact copyEnts_prefix F hF p es .nil inos r.2 r.1 (by rw [hr])
    | some c =>
      cases c with
      | dir ds =>
        cases hr : copyEnts F p es ds inos with
        | error e => simp [hr, Except.map] at h
        | ok r =>
          simp only [hr, Except.map, Except.ok.injEq, Prod.mk.injEq] at h
          rw [← h.2]; exact copyEnts_prefix F hF p es ds inos r.2 r.1 (by rw [hr])
      | file _ => simp at h
      | link _ => simp at h
theorem copyEnts_prefix (F : Facts) (hF : F.tempThenRename = true) (p : Params) : ∀ (es ds : Ents) (inos inos' : List Inode) (ds' : Ents),
    copyEnts F p es ds inos = .ok (ds', inos') → inos <+: inos'
  | .nil, ds, inos, inos', ds', h => by
    simp only [copyEnts, Except.ok.injEq, Prod.mk.injEq] at h; rw [h.2]; exact List.prefix_refl _
  | .cons n x rest, ds, inos, inos', ds', h => by
    simp only [copyEnts] at h
    cases hx : copyNode F p x (ds.find n) inos with
    | error e => simp [hx] at h
    | ok r =>
      obtain ⟨y, mid⟩ := r
      simp only [hx] at h
      exact (copyNode_prefix F hF p x _ inos mid y hx).trans (copyEnts_prefix F hF p rest _ mid inos' ds' h)
end

theorem prefix_getElem? {α} {a b : List α} (h : a <+: b) {i : Nat} (hi : i < a.length) : b[i]? = a[i]? := by
  obtain ⟨t, rfl⟩ := h
  simp [List.getElem?_append_left hi]

/-! ### a copy into a fresh destination is faithful -/

def Ents.append : Ents → Ents → Ents
  | .nil, b => b
  | .cons n x rest, b => .cons n x (rest.append b)

theorem Ents.append_nil : ∀ (a : Ents), a.append .nil = a
  | .nil => rfl
  | .cons n x rest => by simp [Ents.append, Ents.append_nil rest]

theorem Ents.append_assoc : ∀ (a b c : Ents), (a.append b).append c = a.append (b.append c)
  | .nil, _, _ => rfl
  | .cons n x rest, b, c => by simp [Ents.append, Ents.append_assoc rest b c]

theorem Ents.names_append : ∀ (a b : Ents), (a.append b).names = a.names ++ b.names
  | .nil, _ => rfl
  | .cons n x rest, b => by simp [Ents.append, Ents.names, Ents.names_append rest b]

theorem Ents.find_none : ∀ (ds : Ents) (n : Name), n ∉ ds.names → ds.find n = none
  | .nil, _, _ => rfl
  | .cons m x rest, n, h => by
    simp only [Ents.names, List.mem_cons, not_or] at h
    simp only [Ents.find, if_neg (Ne.symm h.1), Ents.find_none rest n h.2]

theorem Ents.set_fresh : ∀ (ds : Ents) (n : Name) (y : Node), n ∉ ds.names → ds.set n y = ds.append (.cons n y .nil)
  | .nil, _, _, _ => rfl
  | .cons m x rest, n, y, h => by
    simp only [Ents.names, List.mem_cons, not_or] at h
    simp only [Ents.set, if_neg (Ne.symm h.1), Ents.append, Ents.set_fresh rest n y h.2]

mutual
theorem faithful_mono (link : Bool) (perm : Nat) (base new new' : List Inode) (hp : new <+: new') :
    ∀ (x y : Node), faithful link perm base new x y = true → faithful link perm base new' x y = true
  | .dir es, .dir ds, h => by
    simp only [faithful] at h ⊢; exact faithfulEnts_mono link perm base new new' hp es ds h
  | .link t, .link u, h => by simpa [faithful] using h
  | .file i, .file j, h => by
    simp only [faithful] at h ⊢
    cases link with
    | true => simpa using h
    | false =>
      simp only [Bool.false_eq_true, if_false, Bool.and_eq_true, decide_eq_true_eq] at h ⊢
      refine ⟨h.1, ?_⟩
      cases hb : base[i]? with
      | none => simp [hb] at h
      | some a =>
        cases hn : new[j]? with
        | none => simp [hb, hn] at h
        | some b =>
          have hj : j < new.length := by
            rcases Nat.lt_or_ge j new.length with h' | h'
            · exact h'
            · rw [List.getElem?_eq_none h'] at hn; cases hn
          rw [prefix_getElem? hp hj, hn]
          simpa [hb, hn] using h.2
  | .dir _, .file _, h => by simp [faithful] at h
  | .dir _, .link _, h => by simp [faithful] at h
  | .link _, .file _, h => by simp [faithful] at h
  | .link _, .dir _, h => by simp [faithful] at h
  | .file _, .link _, h => by simp [faithful] at h
  | .file _, .dir _, h => by simp [faithful] at h
theorem faithfulEnts_mono (link : Bool) (perm : Nat) (base new new' : List Inode) (hp : new <+: new') :
    ∀ (es ds : Ents), faithfulEnts link perm base new es ds = true → faithfulEnts link perm base new' es ds = true
  | .nil, .nil, _ => by simp [faithfulEnts]
  | .cons n x rest, .cons m y rest', h => by
    simp only [faithfulEnts, Bool.and_eq_true] at h ⊢
    exact ⟨⟨h.1.1, faithful_mono link perm base new new' hp x y h.1.2⟩,
           faithfulEnts_mono link perm base new new' hp rest rest' h.2⟩
  | .nil, .cons _ _ _, h => by simp [faithfulEnts] at h
  | .cons _ _ _, .nil, h => by simp [faithfulEnts] at h
end

/-- The permission bits a copy ends up with. -/
def copyPerm (F : Facts) (p : Params) : Nat := if p.mode = 0 then F.defaultMode else p.mode

mutual
/-- Copying (or hard-linking) any source tree to a destination path that holds nothing succeeds and reproduces it. -/
theorem copyNode_fresh (F : Facts) (p : Params) (base : List Inode) : ∀ (src : Node) (cur : List Inode),
    base <+: cur → src.wf base.length = true → src.nodup = true →
    ∃ d cur', copyNode F p src none cur = .ok (d, cur') ∧ cur <+: cur' ∧
      faithful p.link (copyPerm F p) base cur' src d = true
  | .file i, cur, hb, hw, _ => by
    simp only [Node.wf, decide_eq_true_eq] at hw
    have hlen : base.length ≤ cur.length := hb.length_le
    have hi : i < cur.length := by omega
    simp only [copyNode, copyOrLinkRegular]
    cases hl : p.link with
    | true =>
      simp only [if_true, hi]
      exact ⟨.file i, cur, rfl, List.prefix_refl _, by simp [faithful, hw]⟩
    | false =>
      have hg : cur[i]? = some cur[i] := List.getElem?_eq_getElem hi
      simp only [Bool.false_eq_true, if_false, copyFile, hg]
      refine ⟨_, _, rfl, List.prefix_append _ _, ?_⟩
      have hbi : base[i]? = some cur[i] := by rw [← prefix_getElem? hb hw, hg]
      simp [faithful, hlen, hbi, copyPerm]
  | .link t, cur, _, _, _ => by
    exact ⟨.link t, cur, by simp [copyNode, symlinkAt, Except.map], List.prefix_refl _, by simp [faithful]⟩
  | .dir es, cur, hb, hw, hn => by
    obtain ⟨es', cur', h1, h2, h3⟩ := copyEnts_fresh F p base es .nil cur hb (by simpa [Node.wf] using hw)
      (by simpa [Node.nodup] using hn) (by simp [Ents.names])
    refine ⟨.dir es', cur', ?_, h2, by simpa [faithful] using h3⟩
    simp only [copyNode, h1, Except.map, Ents.append]
theorem copyEnts_fresh (F : Facts) (p : Params) (base : List Inode) : ∀ (es ds : Ents) (cur : List Inode),
    base <+: cur → es.wf base.length = true → es.nodup = true → (∀ n ∈ es.names, n ∉ ds.names) →
    ∃ es' cur', copyEnts F p es ds cur = .ok (ds.append es', cur') ∧ cur <+: cur' ∧
      faithfulEnts p.link (copyPerm F p) base cur' es es' = true
  | .nil, ds, cur, _, _, _, _ =>
    ⟨.nil, cur, by simp [copyEnts, Ents.append_nil], List.prefix_refl _, by simp [faithfulEnts]⟩
  | .cons n x rest, ds, cur, hb, hw, hn, hd => by
    simp only [Ents.wf, Bool.and_eq_true] at hw
    simp only [Ents.nodup, Bool.and_eq_true, Bool.not_eq_true', List.contains_eq_mem, decide_eq_false_iff_not] at hn
    have hnd : n ∉ ds.names := hd n (by simp [Ents.names])
    obtain ⟨y, mid, h1, h2, h3⟩ := copyNode_fresh F p base x cur hb hw.1 hn.1.2
    have hd' : ∀ m ∈ rest.names, m ∉ (ds.append (.cons n y .nil)).names := by
      intro m hm
      simp only [Ents.names_append, Ents.names, List.mem_append, List.mem_cons, List.not_mem_nil, or_false, not_or]
      exact ⟨hd m (by simp [Ents.names, hm]), fun e => hn.1.1 (e ▸ hm)⟩
    obtain ⟨rest', cur', h4, h5, h6⟩ := copyEnts_fresh F p base rest (ds.append (.cons n y .nil)) mid (hb.trans h2) hw.2 hn.2 hd'
    refine ⟨.cons n y rest', cur', ?_, h2.trans h5, ?_⟩
    · simp only [copyEnts, Ents.find_none ds n hnd, h1, Ents.set_fresh ds n y hnd, h4, Ents.append_assoc, Ents.append]
    · simp only [faithfulEnts, Bool.and_eq_true, beq_self_eq_true, true_and]
      exact ⟨faithful_mono p.link _ base mid cur' h5 x y h3, h6⟩
end


/-! ### sorting the listing keeps well-formedness -/

theorem decide_eq_beq (m n : Name) : decide (m = n) = (m == n) := by
  by_cases h : m = n
  · subst h; simp
  · rw [beq_eq_false_iff_ne.mpr h]; simp [h]

theorem contains_insertSorted (m n : Name) (x : Node) : ∀ (es : Ents),
    (es.insertSorted n x).names.contains m = (m == n || es.names.contains m)
  | .nil => by simp [Ents.insertSorted, Ents.names, decide_eq_beq]
  | .cons k y rest => by
    simp only [Ents.insertSorted]
    split
    · simp [Ents.names, decide_eq_beq]
    · simp only [Ents.names, List.contains_cons, contains_insertSorted m n x rest]
      cases (m == k) <;> cases (m == n) <;> simp

theorem nodup_insertSorted (n : Name) (x : Node) : ∀ (es : Ents),
    (es.insertSorted n x).nodup = (!es.names.contains n && x.nodup && es.nodup)
  | .nil => by simp [Ents.insertSorted, Ents.nodup, Ents.names]
  | .cons k y rest => by
    simp only [Ents.insertSorted]
    split
    · simp [Ents.nodup, Ents.names]
    · simp only [Ents.nodup, Ents.names, List.contains_cons, contains_insertSorted, nodup_insertSorted n x rest]
      have e : (k == n) = (n == k) := by
        by_cases h : k = n
        · subst h; rfl
        · have h' : ¬ n = k := fun e => h e.symm
          rw [beq_eq_false_iff_ne.mpr h, beq_eq_false_iff_ne.mpr h']
      rw [e]
      cases (n == k) <;> cases rest.names.contains k <;> cases rest.names.contains n <;> cases y.nodup <;>
        cases x.nodup <;> cases rest.nodup <;> rfl

theorem wf_insertSorted (k : Nat) (n : Name) (x : Node) : ∀ (es : Ents),
    (es.insertSorted n x).wf k = (x.wf k && es.wf k)
  | .nil => by simp [Ents.insertSorted, Ents.wf]
  | .cons m y rest => by
    simp only [Ents.insertSorted]
    split
    · simp [Ents.wf]
    · simp only [Ents.wf, wf_insertSorted k n x rest]
      cases y.wf k <;> cases x.wf k <;> cases rest.wf k <;> rfl

mutual
theorem Node.sort_props (k : Nat) : ∀ (x : Node), x.sort.wf k = x.wf k ∧ x.sort.nodup = x.nodup
  | .file _ => by simp [Node.sort]
  | .link _ => by simp [Node.sort]
  | .dir es => by
    have := Ents.sort_props k es
    simp only [Node.sort, Node.wf, Node.nodup]; exact ⟨this.1, this.2.1⟩
theorem Ents.sort_props (k : Nat) : ∀ (es : Ents),
    es.sort.wf k = es.wf k ∧ es.sort.nodup = es.nodup ∧ ∀ m, es.sort.names.contains m = es.names.contains m
  | .nil => by simp [Ents.sort]
  | .cons n x rest => by
    have hx := Node.sort_props k x
    have hr := Ents.sort_props k rest
    refine ⟨?_, ?_, ?_⟩
    · simp only [Ents.sort, wf_insertSorted, Ents.wf, hx.1, hr.1]
    · simp only [Ents.sort, nodup_insertSorted, Ents.nodup, hx.2, hr.2.1, hr.2.2]
    · intro m
      simp only [Ents.sort, contains_insertSorted, Ents.names, List.contains_cons, hr.2.2]
end

end PlzVerif.Copy
