import PlzVerif.Model.Config
/-!
Lemmas for C39.  The model is a fold over statements that mutates a record; the lemmas project it onto
one option and characterise the projection declaratively ("the last statement for `o`", "the values
after the last blank", "the last file that mentions the plugin key").
-/
namespace PlzVerif.Config

/-! ### Declarative vocabulary -/

/-- Statement `s` is about option `o`. -/
def Stmt.isFor (o : Nat) (s : Stmt) : Bool := s.opt == o

/-- What a statement stores into a single-valued option of kind `k`. -/
def storedVal (k : Kind) (v : Option String) : String :=
  match k with
  | .bool => v.getD "true"
  | _ => v.getD ""

def isSingleKind : Kind → Bool
  | .str | .bool | .mapKey => true
  | _ => false

/-- Values (in order) that the statements give to `o`; a blank counts as "". -/
def valsFor (o : Nat) (l : Source) : List String := (l.filter (Stmt.isFor o)).map fun s => s.val.getD ""

def mentions (o : Nat) (l : Source) : Bool := l.any (Stmt.isFor o)

def hasBlank (o : Nat) (l : Source) : Bool := l.any fun s => s.isFor o && s.val.isNone

/-- No statement of the source is fatal for gcfg (a blank on a `str` option is). -/
def stmtOk (K : Nat → Kind) (s : Stmt) : Bool := !(K s.opt == .str && s.val.isNone)

/-- All statements of all sources, in reading order. -/
def flat (srcs : List (Option Source)) : Source := srcs.flatMap fun s => s.getD []

@[simp] theorem upd_same {α} (f : Nat → α) (k : Nat) (v : α) : upd f k v k = v := by simp [upd]
theorem upd_other {α} (f : Nat → α) {k i : Nat} (v : α) (h : i ≠ k) : upd f k v i = f i := by simp [upd, h]

/-! ### The error-free formulation: a total step plus a separate check -/

/-- `setStmt` without the error branch (a fatal statement leaves the record alone). -/
def setStmtT (K : Nat → Kind) (c : Cfg) (s : Stmt) : Cfg := (setStmt K c s).getD c

theorem setStmt_eq (K : Nat → Kind) (c : Cfg) (s : Stmt) :
    setStmt K c s = if stmtOk K s then some (setStmtT K c s) else none := by
  unfold setStmtT setStmt stmtOk
  cases hk : K s.opt <;> cases hv : s.val <;> simp

theorem readStmts_eq (K : Nat → Kind) (c : Cfg) (l : Source) :
    readStmts K c l = if l.all (stmtOk K) then some (l.foldl (setStmtT K) c) else none := by
  induction l generalizing c with
  | nil => simp [readStmts]
  | cons s r ih =>
    simp only [readStmts, setStmt_eq]
    by_cases h : stmtOk K s = true
    · simp [h, ih]
    · simp [h]

/-! ### Single-valued options -/

/-- One statement's effect on the single-valued option `o` of kind `k`. -/
def singleStep (k : Kind) (o : Nat) (a : Option String) (s : Stmt) : Option String :=
  if s.isFor o && isSingleKind k && !(k == .str && s.val.isNone) then some (storedVal k s.val) else a

theorem setStmtT_single (K : Nat → Kind) (c : Cfg) (s : Stmt) (o : Nat) :
    (setStmtT K c s).single o = singleStep (K o) o (c.single o) s := by
  unfold setStmtT setStmt singleStep Stmt.isFor
  by_cases h : s.opt = o
  · subst h
    cases hk : K s.opt <;> cases hv : s.val <;> simp [isSingleKind, storedVal]
  · have h' : o ≠ s.opt := fun e => h e.symm
    cases hk : K s.opt <;> cases hv : s.val <;> simp [h, upd_other _ _ h']

theorem foldl_single (K : Nat → Kind) (o : Nat) (l : Source) (c : Cfg) :
    (l.foldl (setStmtT K) c).single o = l.foldl (singleStep (K o) o) (c.single o) := by
  induction l generalizing c with
  | nil => rfl
  | cons s r ih => simp [List.foldl_cons, ih, setStmtT_single]

/-- Declarative reading of the fold: nothing for `o` ⇒ unchanged. -/
theorem singleFold_none (k : Kind) (o : Nat) (l : Source) (a : Option String) (h : mentions o l = false) :
    l.foldl (singleStep k o) a = a := by
  induction l generalizing a with
  | nil => rfl
  | cons s r ih =>
    simp only [mentions, List.any_cons, Bool.or_eq_false_iff] at h
    simp only [List.foldl_cons, singleStep, h.1, Bool.false_and]
    exact ih a (by simpa [mentions] using h.2)

/-- … and otherwise the last statement for `o` decides. -/
theorem singleFold_last (k : Kind) (o : Nat) (pre post : Source) (s : Stmt) (a : Option String)
    (hk : isSingleKind k = true) (hs : s.isFor o = true) (hok : (k == .str && s.val.isNone) = false)
    (h : mentions o post = false) :
    (pre ++ s :: post).foldl (singleStep k o) a = some (storedVal k s.val) := by
  rw [List.foldl_append, List.foldl_cons]
  rw [singleFold_none k o post _ h]
  simp [singleStep, hs, hk, hok]

/-! ### List options -/

def listStep (o : Nat) (a : List String) (s : Stmt) : List String :=
  if s.isFor o then (match s.val with | some v => a ++ [v] | none => []) else a

theorem setStmtT_list (K : Nat → Kind) (c : Cfg) (s : Stmt) (o : Nat) (hk : K o = .list) :
    (setStmtT K c s).list o = listStep o (c.list o) s := by
  unfold setStmtT setStmt listStep Stmt.isFor
  by_cases h : s.opt = o
  · subst h
    rw [hk]; cases hv : s.val <;> simp
  · have h' : o ≠ s.opt := fun e => h e.symm
    cases hk' : K s.opt <;> cases hv : s.val <;> simp [h, upd_other _ _ h']

theorem foldl_list (K : Nat → Kind) (o : Nat) (hk : K o = .list) (l : Source) (c : Cfg) :
    (l.foldl (setStmtT K) c).list o = l.foldl (listStep o) (c.list o) := by
  induction l generalizing c with
  | nil => rfl
  | cons s r ih => simp [List.foldl_cons, ih, setStmtT_list K c s o hk]

/-- No blank for `o`: the values are appended to what was there. -/
theorem listFold_noBlank (o : Nat) (l : Source) (a : List String) (h : hasBlank o l = false) :
    l.foldl (listStep o) a = a ++ valsFor o l := by
  induction l generalizing a with
  | nil => simp [valsFor]
  | cons s r ih =>
    simp only [hasBlank, List.any_cons, Bool.or_eq_false_iff] at h
    have hr : hasBlank o r = false := by simpa [hasBlank] using h.2
    rw [List.foldl_cons, ih _ hr]
    by_cases hs : s.isFor o = true
    · have hv : s.val.isNone = false := by simpa [hs] using h.1
      cases hval : s.val with
      | none => simp [hval] at hv
      | some v => simp [listStep, hs, valsFor, hval]
    · have hs' : s.isFor o = false := by simpa using hs
      simp [listStep, hs', valsFor]

/-- A blank for `o` forgets everything before it. -/
theorem listFold_afterBlank (o : Nat) (pre post : Source) (s : Stmt) (a : List String)
    (hs : s.isFor o = true) (hb : s.val = none) (h : hasBlank o post = false) :
    (pre ++ s :: post).foldl (listStep o) a = valsFor o post := by
  rw [List.foldl_append, List.foldl_cons, listFold_noBlank o post _ h]
  simp [listStep, hs, hb]

/-! ### Frame: the other components through one file -/

theorem setStmtT_plugin_other (K : Nat → Kind) (c : Cfg) (s : Stmt) (o : Nat) (h : s.opt ≠ o) :
    (setStmtT K c s).plugin o = c.plugin o := by
  have h' : o ≠ s.opt := fun e => h e.symm
  unfold setStmtT setStmt
  cases hk' : K s.opt <;> cases hv : s.val <;> simp [upd_other _ _ h']

/-- Plugin key `o` through the statements of one file. -/
def pluginStep (o : Nat) (a : Option (List String)) (s : Stmt) : Option (List String) :=
  if s.isFor o then some (a.getD [] ++ [s.val.getD ""]) else a

theorem setStmtT_plugin (K : Nat → Kind) (c : Cfg) (s : Stmt) (o : Nat) (hk : K o = .plugin) :
    (setStmtT K c s).plugin o = pluginStep o (c.plugin o) s := by
  by_cases h : s.opt = o
  · subst h
    unfold setStmtT setStmt pluginStep Stmt.isFor
    rw [hk]; cases hv : s.val <;> simp
  · rw [setStmtT_plugin_other K c s o h]
    simp [pluginStep, Stmt.isFor, h]

theorem foldl_plugin (K : Nat → Kind) (o : Nat) (hk : K o = .plugin) (l : Source) (c : Cfg) :
    (l.foldl (setStmtT K) c).plugin o = l.foldl (pluginStep o) (c.plugin o) := by
  induction l generalizing c with
  | nil => rfl
  | cons s r ih => simp [List.foldl_cons, ih, setStmtT_plugin K c s o hk]

theorem pluginFold_none (o : Nat) (l : Source) (a : Option (List String)) (h : mentions o l = false) :
    l.foldl (pluginStep o) a = a := by
  induction l generalizing a with
  | nil => rfl
  | cons s r ih =>
    simp only [mentions, List.any_cons, Bool.or_eq_false_iff] at h
    simp only [List.foldl_cons, pluginStep, h.1]
    exact ih a (by simpa [mentions] using h.2)

theorem pluginFold_some (o : Nat) (l : Source) (a : List String) :
    l.foldl (pluginStep o) (some a) = some (a ++ valsFor o l) := by
  induction l generalizing a with
  | nil => simp [valsFor]
  | cons s r ih =>
    rw [List.foldl_cons]
    by_cases hs : s.isFor o = true
    · simp [pluginStep, hs, ih, valsFor]
    · have hs' : s.isFor o = false := by simpa using hs
      simp [pluginStep, hs', ih, valsFor]

theorem pluginFold_fresh (o : Nat) (l : Source) (h : mentions o l = true) :
    l.foldl (pluginStep o) none = some (valsFor o l) := by
  induction l with
  | nil => simp [mentions] at h
  | cons s r ih =>
    rw [List.foldl_cons]
    by_cases hs : s.isFor o = true
    · simp [pluginStep, hs, pluginFold_some, valsFor]
    · have hs' : s.isFor o = false := by simpa using hs
      have hr : mentions o r = true := by simpa [mentions, hs'] using h
      simp [pluginStep, hs', ih hr, valsFor]

/-! ### Whole files and the loop over files -/

/-- `readFile` without the error branch. -/
def readFileT (K : Nat → Kind) (c : Cfg) (src : Option Source) : Cfg :=
  let c1 := (src.getD []).foldl (setStmtT K) { c with plugin := fun _ => none, pluginPresent := false }
  { c1 with plugin := mergePlugin c1.plugin c.plugin,
            pluginPresent := c1.pluginPresent || c.pluginPresent }

def srcOk (K : Nat → Kind) (src : Option Source) : Bool := (src.getD []).all (stmtOk K)

theorem readFile_eq (K : Nat → Kind) (c : Cfg) (src : Option Source) :
    readFile K c src = if srcOk K src then some (readFileT K c src) else none := by
  unfold readFile readFileT srcOk
  simp only [readStmts_eq]
  by_cases h : (src.getD []).all (stmtOk K) = true
  · simp [h]
  · simp [h]

theorem readFiles_eq (K : Nat → Kind) (c : Cfg) (srcs : List (Option Source)) :
    readFiles K c srcs = if srcs.all (srcOk K) then some (srcs.foldl (readFileT K) c) else none := by
  induction srcs generalizing c with
  | nil => simp [readFiles]
  | cons s r ih =>
    simp only [readFiles, readFile_eq]
    by_cases h : srcOk K s = true
    · simp [h, ih]
    · simp [h]

theorem readFileT_single (K : Nat → Kind) (c : Cfg) (src : Option Source) (o : Nat) :
    (readFileT K c src).single o = (src.getD []).foldl (singleStep (K o) o) (c.single o) := by
  simp [readFileT, foldl_single]

theorem readFileT_list (K : Nat → Kind) (c : Cfg) (src : Option Source) (o : Nat) (hk : K o = .list) :
    (readFileT K c src).list o = (src.getD []).foldl (listStep o) (c.list o) := by
  simp [readFileT, foldl_list K o hk]

theorem readFilesT_single (K : Nat → Kind) (o : Nat) (srcs : List (Option Source)) (c : Cfg) :
    (srcs.foldl (readFileT K) c).single o = (flat srcs).foldl (singleStep (K o) o) (c.single o) := by
  induction srcs generalizing c with
  | nil => rfl
  | cons s r ih => simp [flat, List.foldl_cons, List.flatMap_cons, List.foldl_append, ih, readFileT_single]

theorem readFilesT_list (K : Nat → Kind) (o : Nat) (hk : K o = .list) (srcs : List (Option Source)) (c : Cfg) :
    (srcs.foldl (readFileT K) c).list o = (flat srcs).foldl (listStep o) (c.list o) := by
  induction srcs generalizing c with
  | nil => rfl
  | cons s r ih =>
    simp [flat, List.foldl_cons, List.flatMap_cons, List.foldl_append, ih, readFileT_list K c s o hk]

/-- The plugin key through one file: the file's own values if it mentions the key, else the old ones. -/
theorem readFileT_plugin (K : Nat → Kind) (c : Cfg) (src : Option Source) (o : Nat) (hk : K o = .plugin) :
    (readFileT K c src).plugin o =
      if mentions o (src.getD []) then some (valsFor o (src.getD [])) else c.plugin o := by
  simp only [readFileT, foldl_plugin K o hk, mergePlugin]
  by_cases h : mentions o (src.getD []) = true
  · simp [h, pluginFold_fresh o _ h]
  · have h' : mentions o (src.getD []) = false := by simpa using h
    simp [h', pluginFold_none o _ none h']

def pluginFileStep (o : Nat) (a : Option (List String)) (src : Option Source) : Option (List String) :=
  if mentions o (src.getD []) then some (valsFor o (src.getD [])) else a

theorem readFilesT_plugin (K : Nat → Kind) (o : Nat) (hk : K o = .plugin) (srcs : List (Option Source)) (c : Cfg) :
    (srcs.foldl (readFileT K) c).plugin o = srcs.foldl (pluginFileStep o) (c.plugin o) := by
  induction srcs generalizing c with
  | nil => rfl
  | cons s r ih => simp [List.foldl_cons, ih, readFileT_plugin K c s o hk, pluginFileStep]

theorem pluginFiles_none (o : Nat) (srcs : List (Option Source)) (a : Option (List String))
    (h : ∀ s ∈ srcs, mentions o (s.getD []) = false) : srcs.foldl (pluginFileStep o) a = a := by
  induction srcs generalizing a with
  | nil => rfl
  | cons s r ih =>
    rw [List.foldl_cons]
    have hs := h s (by simp)
    simp only [pluginFileStep, hs]
    exact ih a (fun x hx => h x (by simp [hx]))

theorem pluginFiles_last (o : Nat) (pre post : List (Option Source)) (s : Option Source) (a : Option (List String))
    (hs : mentions o (s.getD []) = true) (h : ∀ x ∈ post, mentions o (x.getD []) = false) :
    (pre ++ s :: post).foldl (pluginFileStep o) a = some (valsFor o (s.getD [])) := by
  rw [List.foldl_append, List.foldl_cons, pluginFiles_none o post _ h]
  simp [pluginFileStep, hs]

/-! ### Overrides -/

/-- The record component and index an override writes. -/
def ovTarget (K : Nat → Kind) (low : Nat → Nat) (o : Override) : Nat :=
  match K o.opt with
  | .mapKey | .plugin => low o.opt
  | _ => o.opt

/-- Kinds are grouped by the component they live in. -/
def compOf : Kind → Nat
  | .str | .bool | .mapKey => 0
  | .list => 1
  | .plugin => 2

theorem upd_comm {α} (f : Nat → α) {k1 k2 : Nat} (a b : α) (h : k1 ≠ k2) :
    upd (upd f k1 a) k2 b = upd (upd f k2 b) k1 a := by
  funext i; simp only [upd]
  by_cases h1 : i = k1 <;> by_cases h2 : i = k2 <;> simp_all

theorem applyOverride_comm (K : Nat → Kind) (low : Nat → Nat) (c : Cfg) (x y : Override)
    (h : compOf (K x.opt) ≠ compOf (K y.opt) ∨ ovTarget K low x ≠ ovTarget K low y) :
    applyOverride K low (applyOverride K low c x) y = applyOverride K low (applyOverride K low c y) x := by
  unfold applyOverride
  unfold ovTarget compOf at h
  cases hx : K x.opt <;> cases hy : K y.opt <;> simp only [hx, hy] at h ⊢ <;>
    first
    | rfl
    | (have h' := h.resolve_left (by simp); simp only [upd_comm _ _ _ h'])
    | (exfalso; simp at h)

theorem applyOverride_present (K : Nat → Kind) (low : Nat → Nat) (c : Cfg) (x : Override) :
    (applyOverride K low c x).pluginPresent = c.pluginPresent := by
  unfold applyOverride; cases K x.opt <;> rfl

/-! ### Reading order -/

theorem readOrder_afterEach_append (ps : List String) (a b : List String) :
    readOrder .afterEachFile (a ++ b) ps = readOrder .afterEachFile a ps ++ readOrder .afterEachFile b ps := by
  simp [readOrder, List.flatMap_append]

theorem readOrder_afterEach_cons (ps : List String) (f : String) (r : List String) :
    readOrder .afterEachFile (f :: r) ps = block ps f ++ readOrder .afterEachFile r ps := by
  simp [readOrder, List.flatMap_cons]

theorem mem_readOrder_afterEach {ps fs : List String} {x : SrcName}
    (h : x ∈ readOrder .afterEachFile fs ps) : x.1 ∈ fs := by
  simp only [readOrder, List.mem_flatMap, block, List.mem_cons, List.mem_map] at h
  obtain ⟨f, hf, h | ⟨p, _, h⟩⟩ := h <;> (subst h; exact hf)

end PlzVerif.Config

namespace PlzVerif.Config

/-! ### "select" folds: the last element satisfying `p` decides -/

theorem foldl_sel_none {α β : Type} (p : β → Bool) (g : β → α) (l : List β) (a : α)
    (h : ∀ x ∈ l, p x = false) : l.foldl (fun a x => if p x then g x else a) a = a := by
  induction l generalizing a with
  | nil => rfl
  | cons x r ih =>
    rw [List.foldl_cons]
    simp only [h x (by simp)]
    exact ih a (fun y hy => h y (by simp [hy]))

theorem foldl_sel_last {α β : Type} (p : β → Bool) (g : β → α) (pre post : List β) (x : β) (a : α)
    (hx : p x = true) (h : ∀ y ∈ post, p y = false) :
    (pre ++ x :: post).foldl (fun a x => if p x then g x else a) a = g x := by
  rw [List.foldl_append, List.foldl_cons, foldl_sel_none p g post _ h]
  simp [hx]

/-- Override `x` writes component `comp` (0 single, 1 list, 2 plugin) at index `o`. -/
def ovHits (K : Nat → Kind) (low : Nat → Nat) (comp o : Nat) (x : Override) : Bool :=
  compOf (K x.opt) == comp && ovTarget K low x == o

theorem applyOverride_single (K : Nat → Kind) (low : Nat → Nat) (c : Cfg) (x : Override) (o : Nat) :
    (applyOverride K low c x).single o = if ovHits K low 0 o x then some x.val else c.single o := by
  unfold applyOverride ovHits ovTarget compOf
  cases hk : K x.opt <;> simp only [upd] <;> simp <;> (try (intro h; simp [h])) <;>
    (by_cases h : o = x.opt <;> simp [h, eq_comm]) 

theorem applyOverride_list (K : Nat → Kind) (low : Nat → Nat) (c : Cfg) (x : Override) (o : Nat) :
    (applyOverride K low c x).list o = if ovHits K low 1 o x then x.val.splitOn "," else c.list o := by
  unfold applyOverride ovHits ovTarget compOf
  cases hk : K x.opt <;> simp only [upd] <;> simp <;>
    (by_cases h : o = x.opt <;> simp [h, eq_comm])

theorem applyOverride_plugin (K : Nat → Kind) (low : Nat → Nat) (c : Cfg) (x : Override) (o : Nat) :
    (applyOverride K low c x).plugin o = if ovHits K low 2 o x then some [x.val] else c.plugin o := by
  unfold applyOverride ovHits ovTarget compOf
  cases hk : K x.opt <;> simp only [upd] <;> simp <;>
    (by_cases h : o = low x.opt <;> simp [h, eq_comm])

theorem foldl_override_single (K : Nat → Kind) (low : Nat → Nat) (o : Nat) (l : List Override) (c : Cfg) :
    (l.foldl (applyOverride K low) c).single o
      = l.foldl (fun a x => if ovHits K low 0 o x then some x.val else a) (c.single o) := by
  induction l generalizing c with
  | nil => rfl
  | cons x r ih => simp [List.foldl_cons, ih, applyOverride_single]

theorem foldl_override_list (K : Nat → Kind) (low : Nat → Nat) (o : Nat) (l : List Override) (c : Cfg) :
    (l.foldl (applyOverride K low) c).list o
      = l.foldl (fun a x => if ovHits K low 1 o x then x.val.splitOn "," else a) (c.list o) := by
  induction l generalizing c with
  | nil => rfl
  | cons x r ih => simp [List.foldl_cons, ih, applyOverride_list]

theorem foldl_override_plugin (K : Nat → Kind) (low : Nat → Nat) (o : Nat) (l : List Override) (c : Cfg) :
    (l.foldl (applyOverride K low) c).plugin o
      = l.foldl (fun a x => if ovHits K low 2 o x then some [x.val] else a) (c.plugin o) := by
  induction l generalizing c with
  | nil => rfl
  | cons x r ih => simp [List.foldl_cons, ih, applyOverride_plugin]

theorem valsFor_append (o : Nat) (a b : Source) : valsFor o (a ++ b) = valsFor o a ++ valsFor o b := by
  simp [valsFor, List.filter_append]

/-- Values accumulate file by file, in reading order. -/
theorem valsFor_flat (o : Nat) (srcs : List (Option Source)) :
    valsFor o (flat srcs) = srcs.flatMap fun s => valsFor o (s.getD []) := by
  induction srcs with
  | nil => rfl
  | cons s r ih => simp [flat, List.flatMap_cons, valsFor_append] at ih ⊢; rw [ih]

end PlzVerif.Config
