import PlzVerif.Lemmas.LockClean
/-!
C31: the inductive invariant of the multi-process build model (`Model/Lock.lean`), core only.

`KInv` is the part of the invariant that speaks about ONE target key (its output, tmp dir, lock and the program
counters of every process for that target); `Inv` adds the cross-key clauses (a worker that has started has
finished all its dependencies; the C01 history invariant; the repo lock).  `step_inv` proves preservation for
every rule of `Step`; each worker step only has to re-establish `KInv` at its own key (`KInv.update`).
-/
namespace PlzVerif.Lock
open PlzVerif.Build
set_option linter.unusedSectionVars false
set_option linter.unusedSimpArgs false
set_option linter.unusedVariables false

variable {P K A F N C S H : Type} [DecidableEq P] [DecidableEq K] [DecidableEq S] [DecidableEq N] [DecidableEq H]

@[simp] theorem upd_same {α β : Type} [DecidableEq α] (f : α → β) (a : α) (b : β) : upd f a b a = b := by simp [upd]
theorem upd_ne {α β : Type} [DecidableEq α] (f : α → β) {a x : α} (b : β) (h : x ≠ a) : upd f a b x = f x := by
  simp [upd, h]
@[simp] theorem upd2_same {α β γ : Type} [DecidableEq α] [DecidableEq β] (f : α → β → γ) (a : α) (b : β) (c : γ) :
    upd2 f a b c a b = c := by simp [upd2]
theorem upd2_ne {α β γ : Type} [DecidableEq α] [DecidableEq β] (f : α → β → γ) {a x : α} {b y : β} (c : γ)
    (h : ¬(x = a ∧ y = b)) : upd2 f a b c x y = f x y := by simp [upd2, h]
theorem upd2_key_ne {α β γ : Type} [DecidableEq α] [DecidableEq β] (f : α → β → γ) {a x : α} {b y : β} (c : γ)
    (h : y ≠ b) : upd2 f a b c x y = f x y := upd2_ne f c (fun e => h e.2)
theorem upd2_proc {α β γ : Type} [DecidableEq α] [DecidableEq β] (f : α → β → γ) (a x : α) (b : β) (c : γ) :
    upd2 f a b c x b = if x = a then c else f x b := by simp [upd2]

/-- The stamp a worker carries from `check` to `stamp`. -/
def PC.carried : PC S N H → Option (Stamp S N H)
  | .prep st | .ready st | .built st | .stored st | .removed st | .moved st => some st
  | _ => none

/-- The tmp dir holds the action's output. -/
def PC.hasTmp : PC S N H → Bool
  | .built _ | .stored _ | .removed _ => true
  | _ => false

/-- The output is in place with its final contents. -/
def PC.genClean : PC S N H → Bool
  | .moved _ | .stamped | .skip | .finished => true
  | _ => false

section
variable (exec : A → List (N × C) → C) (ruleSer : A → S) (pathSer : C → H) (r : Repo K A F N C)

/-- Invariant of one target key. -/
structure KInv (t : Target K A F) (gen : Option C) (tmp : Option C) (lock : Option P) (pcs : P → PC S N H) : Prop where
  lockCS   : ∀ p, (pcs p).inCS = true → lock = some p
  csLock   : ∀ p, lock = some p → (pcs p).inCS = true
  carried  : ∀ p st, (pcs p).carried = some st → st = cstamp exec ruleSer pathSer r t
  tmpOK    : ∀ p, (pcs p).hasTmp = true → tmp = some (cleanv exec r t)
  remGen   : ∀ p st, pcs p = .removed st → gen = none
  genClean : ∀ p, (pcs p).genClean = true → gen = some (cleanv exec r t)

variable {exec ruleSer pathSer r}

/-- Mutual exclusion at one key. -/
theorem KInv.mutex {t : Target K A F} {gen tmp : Option C} {lock : Option P} {pcs : P → PC S N H}
    (h : KInv exec ruleSer pathSer r t gen tmp lock pcs) {p q : P}
    (hp : (pcs p).inCS = true) (hq : (pcs q).inCS = true) : p = q := by
  have a := h.lockCS p hp
  have b := h.lockCS q hq
  rw [a] at b
  exact Option.some.inj b

theorem KInv.others {t : Target K A F} {gen tmp : Option C} {lock : Option P} {pcs : P → PC S N H}
    (h : KInv exec ruleSer pathSer r t gen tmp lock pcs) {p : P}
    (hp : (pcs p).inCS = true ∨ lock = none) : ∀ q, q ≠ p → (pcs q).inCS = false := by
  intro q hq
  cases hc : (pcs q).inCS with
  | false => rfl
  | true =>
    rcases hp with hp | hp
    · exact absurd (h.mutex hc hp) hq
    · have := h.lockCS q hc; rw [hp] at this; exact absurd this (by simp)

theorem inCS_false_cases {c : PC S N H} (h : c.inCS = false) : c = .idle ∨ c = .finished ∨ c = .failed := by
  cases c <;> simp [PC.inCS] at h ⊢

/-- Worker `p` moves to program counter `c` at this key, leaving the other processes' counters alone. -/
theorem KInv.update {t : Target K A F} {gen tmp : Option C} {lock : Option P} {pcs : P → PC S N H}
    (h : KInv exec ruleSer pathSer r t gen tmp lock pcs) {p : P} (hp : (pcs p).inCS = true ∨ lock = none)
    {gen' tmp' : Option C} {lock' : Option P} {pcs' : P → PC S N H} (c : PC S N H)
    (hpc : pcs' p = c) (hoth : ∀ q, q ≠ p → pcs' q = pcs q)
    (hlock : lock' = if c.inCS then some p else none)
    (hcar : ∀ st, c.carried = some st → st = cstamp exec ruleSer pathSer r t)
    (htmp : c.hasTmp = true → tmp' = some (cleanv exec r t))
    (hrem : ∀ st, c = .removed st → gen' = none)
    (hgen : c.genClean = true → gen' = some (cleanv exec r t))
    (hfin : ∀ q, q ≠ p → pcs q = .finished → gen' = some (cleanv exec r t)) :
    KInv exec ruleSer pathSer r t gen' tmp' lock' pcs' := by
  have hothers := h.others hp
  have hq : ∀ q, q ≠ p → pcs' q = .idle ∨ pcs' q = .finished ∨ pcs' q = .failed := by
    intro q hne; rw [hoth q hne]; exact inCS_false_cases (hothers q hne)
  refine ⟨?_, ?_, ?_, ?_, ?_, ?_⟩
  · intro q hcs
    by_cases e : q = p
    · subst e; rw [hpc] at hcs; rw [hlock, hcs]; rfl
    · rcases hq q e with h' | h' | h' <;> rw [h'] at hcs <;> simp [PC.inCS] at hcs
  · intro q hl
    rw [hlock] at hl
    cases hc : c.inCS with
    | false => rw [hc] at hl; simp at hl
    | true =>
      rw [hc] at hl
      have : q = p := (Option.some.inj hl).symm
      subst this; rw [hpc]; exact hc
  · intro q st hs
    by_cases e : q = p
    · subst e; rw [hpc] at hs; exact hcar st hs
    · rcases hq q e with h' | h' | h' <;> rw [h'] at hs <;> simp [PC.carried] at hs
  · intro q hs
    by_cases e : q = p
    · subst e; rw [hpc] at hs; exact htmp hs
    · rcases hq q e with h' | h' | h' <;> rw [h'] at hs <;> simp [PC.hasTmp] at hs
  · intro q st hs
    by_cases e : q = p
    · subst e; rw [hpc] at hs; exact hrem st hs
    · rcases hq q e with h' | h' | h' <;> rw [h'] at hs <;> simp at hs
  · intro q hs
    by_cases e : q = p
    · subst e; rw [hpc] at hs; exact hgen hs
    · rcases hq q e with h' | h' | h'
      · rw [h'] at hs; simp [PC.genClean] at hs
      · rw [hoth q e] at h'; exact hfin q e h'
      · rw [h'] at hs; simp [PC.genClean] at hs

end

section
variable (fx : Facts) (lf : LFacts) (exec : A → List (N × C) → C) (ruleSer : A → S) (pathSer : C → H)
variable (r : Repo K A F N C) (ps : List P) (req : P → K → Bool) (force : P → K → Bool)

/-- Side conditions of the C31 theorems: a well-formed repository, requests closed under dependencies, the
    regenerated facts as required, and the two injectivity idealisations of C01 (C08 / C09). -/
structure Hyp : Prop where
  wf     : WF r
  closed : ∀ p, ∀ t ∈ r.targets, req p t.key = true → ∀ d ∈ t.deps, req p d = true
  cmp    : fx.cmpRule = true ∧ fx.cmpSource = true
  keep   : fx.keepOld = true
  excl   : lf.excl = true
  hR     : Function.Injective ruleSer
  hP     : Function.Injective pathSer

/-- C01's history invariant on the (output, stamp) pairs of plz-out. -/
def Hist (gen : K → Option C) (stamp : K → Option (Stamp S N H)) : Prop :=
  ∀ k c st, gen k = some c → stamp k = some st → ∃ a ins, st = stampOf ruleSer pathSer a ins ∧ c = exec a ins

structure Inv (s : State P K C S N H) : Prop where
  key    : ∀ t ∈ r.targets, KInv exec ruleSer pathSer r t (s.gen t.key) (s.tmp t.key) (s.lock t.key) (fun p => s.pc p t.key)
  deps   : ∀ p, ∀ t ∈ r.targets, s.pc p t.key ≠ .idle → ∀ d ∈ t.deps, s.pc p d = .finished
  hist   : Hist exec ruleSer pathSer s.gen s.stamp
  active : ∀ p, ∀ t ∈ r.targets, s.pc p t.key ≠ .idle → req p t.key = true ∧ p ∈ ps ∧ s.phase p ≠ .waiting
  phase  : ∀ p, s.phase p ≠ .waiting → p ∈ ps
  serial : lf.repoExclusive = true → ∀ p q, s.phase p = .inside → s.phase q = .inside → p = q

variable {fx lf exec ruleSer pathSer r ps req force}

theorem inv_init {s0 : State P K C S N H} (h0 : Init s0) (hh : Hist exec ruleSer pathSer s0.gen s0.stamp) :
    Inv lf exec ruleSer pathSer r ps req s0 := by
  refine ⟨?_, ?_, hh, ?_, ?_, ?_⟩
  · intro t _
    refine ⟨?_, ?_, ?_, ?_, ?_, ?_⟩ <;> intro p <;> simp [h0.pc, h0.lock, PC.inCS, PC.carried, PC.hasTmp, PC.genClean]
  · intro p t _ h; exact absurd (h0.pc p t.key) h
  · intro p t _ h; exact absurd (h0.pc p t.key) h
  · intro p h; exact absurd (h0.phase p) h
  · intro _ p q h; rw [h0.phase p] at h; exact absurd h (by simp)

/-- A finished dependency holds its clean value. -/
theorem fin_clean (hy : Hyp fx lf ruleSer pathSer r req) {s : State P K C S N H} (hi : Inv lf exec ruleSer pathSer r ps req s)
    {p : P} {t : Target K A F} (ht : t ∈ r.targets) (hf : s.pc p t.key = .finished) :
    s.gen t.key = some (cleanv exec r t) :=
  (hi.key t ht).genClean p (by simp [hf, PC.genClean])

/-- A worker that has started reads exactly the clean inputs, whenever it reads. -/
theorem reads_clean (hy : Hyp fx lf ruleSer pathSer r req) {s : State P K C S N H} (hi : Inv lf exec ruleSer pathSer r ps req s)
    {p : P} {t : Target K A F} (ht : t ∈ r.targets) (hne : s.pc p t.key ≠ .idle) :
    readIns r s.gen t = some (cins exec r t) := by
  apply readIns_clean exec r hy.wf s.gen t ht
  intro d hd
  obtain ⟨td, htd, hk⟩ := wf_dep_is_target r hy.wf t ht d hd
  have hf := hi.deps p t ht hne d hd
  subst hk
  rw [fin_clean hy hi htd hf, cval_spec exec r hy.wf td htd]

/-- needsBuilding = false is sound: an up-to-date stamp means the output is the clean one (C01_skip_sound). -/
theorem upToDate_clean (hy : Hyp fx lf ruleSer pathSer r req) {s : State P K C S N H} (hi : Inv lf exec ruleSer pathSer r ps req s)
    {t : Target K A F} (hu : upToDate fx s t.key (cstamp exec ruleSer pathSer r t) = true) :
    s.gen t.key = some (cleanv exec r t) := by
  unfold upToDate at hu
  simp only [Bool.and_eq_true] at hu
  obtain ⟨⟨_, hg⟩, hst⟩ := hu
  cases hgen : s.gen t.key with
  | none => rw [hgen] at hg; simp at hg
  | some c =>
    cases hs : s.stamp t.key with
    | none => rw [hs] at hst; simp at hst
    | some st0 =>
      rw [hs] at hst
      simp only at hst
      rw [stampEq_iff fx hy.cmp] at hst
      obtain ⟨a, ins, he, hc⟩ := hi.hist t.key c st0 hgen hs
      rw [hst] at he
      simp only [cstamp, stampOf, Stamp.mk.injEq] at he
      have ha : t.attrs = a := hy.hR he.1
      have hi' := map_inj (pairSer_inj pathSer hy.hP) he.2
      subst ha
      rw [hc, ← hi']
      rfl

theorem deps_step (hy : Hyp fx lf ruleSer pathSer r req) {pc : P → K → PC S N H}
    (hold : ∀ p, ∀ t ∈ r.targets, pc p t.key ≠ .idle → ∀ d ∈ t.deps, pc p d = .finished)
    {p : P} {t : Target K A F} (ht : t ∈ r.targets) (c : PC S N H) (hnf : pc p t.key ≠ .finished)
    (hnew : pc p t.key = .idle → ∀ d ∈ t.deps, pc p d = .finished) :
    ∀ p', ∀ t' ∈ r.targets, upd2 pc p t.key c p' t'.key ≠ .idle → ∀ d ∈ t'.deps, upd2 pc p t.key c p' d = .finished := by
  intro p' t' ht' hne d hd
  have hol : pc p' d = .finished := by
    by_cases e : p' = p ∧ t'.key = t.key
    · obtain ⟨e1, e2⟩ := e
      have : t' = t := wf_key_inj r hy.wf t' ht' t ht e2
      subst this; subst e1
      by_cases hid : pc p' t'.key = .idle
      · exact hnew hid d hd
      · exact hold p' t' ht' hid d hd
    · rw [upd2_ne _ _ e] at hne
      exact hold p' t' ht' hne d hd
  by_cases e : p' = p ∧ d = t.key
  · obtain ⟨e1, e2⟩ := e
    subst e1; subst e2
    exact absurd hol hnf
  · rw [upd2_ne _ _ e]; exact hol

theorem active_step {pc : P → K → PC S N H} {phase : P → Phase}
    (hold : ∀ p, ∀ t ∈ r.targets, pc p t.key ≠ .idle → req p t.key = true ∧ p ∈ ps ∧ phase p ≠ .waiting)
    {p : P} {t : Target K A F} (c : PC S N H)
    (hnew : pc p t.key = .idle → req p t.key = true ∧ p ∈ ps ∧ phase p ≠ .waiting) :
    ∀ p', ∀ t' ∈ r.targets, upd2 pc p t.key c p' t'.key ≠ .idle → req p' t'.key = true ∧ p' ∈ ps ∧ phase p' ≠ .waiting := by
  intro p' t' ht' hne
  by_cases e : p' = p ∧ t'.key = t.key
  · obtain ⟨e1, e2⟩ := e
    subst e1
    rw [e2]
    by_cases hid : pc p' t.key = .idle
    · exact hnew hid
    · have := hold p' t' ht' (by rw [e2]; exact hid)
      rw [e2] at this; exact this
  · rw [upd2_ne _ _ e] at hne
    exact hold p' t' ht' hne

/-- Re-establish the per-key clauses after a worker step at key `t.key` that left every other key alone. -/
theorem key_step (hy : Hyp fx lf ruleSer pathSer r req) {s s' : State P K C S N H} (hi : Inv lf exec ruleSer pathSer r ps req s)
    {p : P} {t : Target K A F} (ht : t ∈ r.targets) (c : PC S N H)
    (hgen : ∀ k, k ≠ t.key → s'.gen k = s.gen k) (htmp : ∀ k, k ≠ t.key → s'.tmp k = s.tmp k)
    (hlock : ∀ k, k ≠ t.key → s'.lock k = s.lock k) (hpc : s'.pc = upd2 s.pc p t.key c)
    (hk : KInv exec ruleSer pathSer r t (s'.gen t.key) (s'.tmp t.key) (s'.lock t.key) (fun q => s'.pc q t.key)) :
    ∀ t' ∈ r.targets, KInv exec ruleSer pathSer r t' (s'.gen t'.key) (s'.tmp t'.key) (s'.lock t'.key) (fun q => s'.pc q t'.key) := by
  intro t' ht'
  by_cases e : t'.key = t.key
  · have : t' = t := wf_key_inj r hy.wf t' ht' t ht e
    subst this; exact hk
  · rw [hgen _ e, htmp _ e, hlock _ e, hpc]
    have : (fun q => upd2 s.pc p t.key c q t'.key) = fun q => s.pc q t'.key := by
      funext q; exact upd2_key_ne _ _ e
    rw [this]
    exact hi.key t' ht'

theorem hist_step {gen gen' : K → Option C} {stamp stamp' : K → Option (Stamp S N H)}
    (hold : Hist exec ruleSer pathSer gen stamp) (k0 : K)
    (hgen : ∀ k, k ≠ k0 → gen' k = gen k) (hst : ∀ k, k ≠ k0 → stamp' k = stamp k)
    (hk : ∀ c st, gen' k0 = some c → stamp' k0 = some st → ∃ a ins, st = stampOf ruleSer pathSer a ins ∧ c = exec a ins) :
    Hist exec ruleSer pathSer gen' stamp' := by
  intro k c st hg hs
  by_cases e : k = k0
  · subst e; exact hk c st hg hs
  · rw [hgen k e] at hg; rw [hst k e] at hs; exact hold k c st hg hs

/-- The invariant is preserved by every step of every worker of every process. -/
theorem step_inv (hy : Hyp fx lf ruleSer pathSer r req) {s s' : State P K C S N H}
    (hi : Inv lf exec ruleSer pathSer r ps req s) (hs : Step fx lf exec ruleSer pathSer r ps req force s s') :
    Inv lf exec ruleSer pathSer r ps req s' := by
  cases hs with
  | enter p hp hw hx =>
    refine ⟨hi.key, hi.deps, hi.hist, ?_, ?_, ?_⟩
    · intro p' t' ht' hne
      obtain ⟨a, b, c⟩ := hi.active p' t' ht' hne
      refine ⟨a, b, ?_⟩
      show upd s.phase p .inside p' ≠ .waiting
      by_cases e : p' = p
      · subst e; simp
      · rw [upd_ne _ _ e]; exact c
    · intro p' hne
      by_cases e : p' = p
      · subst e; exact hp
      · apply hi.phase p'
        have : upd s.phase p .inside p' ≠ .waiting := hne
        rwa [upd_ne _ _ e] at this
    · intro hex p1 p2 h1 h2
      have h1' : upd s.phase p .inside p1 = .inside := h1
      have h2' : upd s.phase p .inside p2 = .inside := h2
      have key : ∀ q, upd s.phase p .inside q = .inside → q = p := by
        intro q hq
        by_cases e : q = p
        · exact e
        · rw [upd_ne _ _ e] at hq
          exact absurd hq (hx hex q (hi.phase q (by rw [hq]; simp)))
      rw [key p1 h1', key p2 h2']
  | leave p hin hall =>
    refine ⟨hi.key, hi.deps, hi.hist, ?_, ?_, ?_⟩
    · intro p' t' ht' hne
      obtain ⟨a, b, c⟩ := hi.active p' t' ht' hne
      refine ⟨a, b, ?_⟩
      show upd s.phase p .left p' ≠ .waiting
      by_cases e : p' = p
      · subst e; simp
      · rw [upd_ne _ _ e]; exact c
    · intro p' hne
      by_cases e : p' = p
      · subst e; exact hi.phase p' (by rw [hin]; simp)
      · apply hi.phase p'
        have : upd s.phase p .left p' ≠ .waiting := hne
        rwa [upd_ne _ _ e] at this
    · intro hex p1 p2 h1 h2
      have h1' : upd s.phase p .left p1 = .inside := h1
      have h2' : upd s.phase p .left p2 = .inside := h2
      have key : ∀ q, upd s.phase p .left q = .inside → s.phase q = .inside := by
        intro q hq
        by_cases e : q = p
        · subst e; simp at hq
        · rwa [upd_ne _ _ e] at hq
      exact hi.serial hex p1 p2 (key p1 h1') (key p2 h2')
  | acquire p t hp ht hin hreq hidle hdeps hfree =>
    have hk := hi.key t ht
    have hfree' : s.lock t.key = none := hfree hy.excl
    refine ⟨?_, ?_, hi.hist, ?_, hi.phase, hi.serial⟩
    · apply key_step hy hi ht .locked <;> first | (intro k e; first | rfl | exact upd_ne _ _ e) | rfl | skip
      apply hk.update (p := p) (Or.inr hfree') .locked
      · simp
      · intro q hq; exact upd2_ne _ _ (fun e => hq e.1)
      · simp [PC.inCS]
      · intro st h; simp [PC.carried] at h
      · intro h; simp [PC.hasTmp] at h
      · intro st h; simp at h
      · intro h; simp [PC.genClean] at h
      · intro q _ hq; exact hk.genClean q (by simp [hq, PC.genClean])
    · exact deps_step hy hi.deps ht .locked (by rw [hidle]; simp) (fun _ => hdeps)
    · exact active_step hi.active .locked (fun _ => ⟨hreq, hp, by rw [hin]; simp⟩)
  | checkSkip p t ins ht hpc hins hup hnf =>
    have hk := hi.key t ht
    have hcs : (s.pc p t.key).inCS = true := by rw [hpc]; rfl
    have hr := reads_clean hy hi ht (p := p) (by rw [hpc]; simp)
    rw [hr] at hins
    have hins' : ins = cins exec r t := (Option.some.inj hins).symm
    subst hins'
    have hclean := upToDate_clean hy hi (t := t) hup
    refine ⟨?_, ?_, hi.hist, ?_, hi.phase, hi.serial⟩
    · apply key_step hy hi ht .skip <;> first | (intro k e; first | rfl | exact upd_ne _ _ e) | rfl | skip
      apply hk.update (p := p) (Or.inl hcs) .skip
      · simp
      · intro q hq; exact upd2_ne _ _ (fun e => hq e.1)
      · simp [PC.inCS]; exact hk.lockCS p hcs
      · intro st h; simp [PC.carried] at h
      · intro h; simp [PC.hasTmp] at h
      · intro st h; simp at h
      · intro _; exact hclean
      · intro q _ hq; exact hclean
    · exact deps_step hy hi.deps ht .skip (by rw [hpc]; simp) (fun h => by rw [hpc] at h; simp at h)
    · exact active_step hi.active .skip (fun h => by rw [hpc] at h; simp at h)
  | checkBuild p t ins ht hpc hins hneed =>
    have hk := hi.key t ht
    have hcs : (s.pc p t.key).inCS = true := by rw [hpc]; rfl
    have hr := reads_clean hy hi ht (p := p) (by rw [hpc]; simp)
    rw [hr] at hins
    have hins' : ins = cins exec r t := (Option.some.inj hins).symm
    subst hins'
    refine ⟨?_, ?_, hi.hist, ?_, hi.phase, hi.serial⟩
    · apply key_step hy hi ht (.prep (stampOf ruleSer pathSer t.attrs (cins exec r t))) <;> first | (intro k e; first | rfl | exact upd_ne _ _ e) | rfl | skip
      apply hk.update (p := p) (Or.inl hcs) (.prep (stampOf ruleSer pathSer t.attrs (cins exec r t)))
      · simp
      · intro q hq; exact upd2_ne _ _ (fun e => hq e.1)
      · simp [PC.inCS]; exact hk.lockCS p hcs
      · intro st h; simp [PC.carried] at h; rw [← h]; rfl
      · intro h; simp [PC.hasTmp] at h
      · intro st h; simp at h
      · intro h; simp [PC.genClean] at h
      · intro q _ hq; exact hk.genClean q (by simp [hq, PC.genClean])
    · exact deps_step hy hi.deps ht _ (by rw [hpc]; simp) (fun h => by rw [hpc] at h; simp at h)
    · exact active_step hi.active _ (fun h => by rw [hpc] at h; simp at h)
  | releaseSkip p t ht hpc =>
    have hk := hi.key t ht
    have hcs : (s.pc p t.key).inCS = true := by rw [hpc]; rfl
    have hclean := hk.genClean p (by simp [hpc, PC.genClean])
    refine ⟨?_, ?_, hi.hist, ?_, hi.phase, hi.serial⟩
    · apply key_step hy hi ht .finished <;> first | (intro k e; first | rfl | exact upd_ne _ _ e) | rfl | skip
      apply hk.update (p := p) (Or.inl hcs) .finished
      · simp
      · intro q hq; exact upd2_ne _ _ (fun e => hq e.1)
      · simp [PC.inCS]
      · intro st h; simp [PC.carried] at h
      · intro h; simp [PC.hasTmp] at h
      · intro st h; simp at h
      · intro _; exact hclean
      · intro q _ _; exact hclean
    · exact deps_step hy hi.deps ht .finished (by rw [hpc]; simp) (fun h => by rw [hpc] at h; simp at h)
    · exact active_step hi.active .finished (fun h => by rw [hpc] at h; simp at h)
  | prepare p t st ht hpc =>
    have hk := hi.key t ht
    have hcs : (s.pc p t.key).inCS = true := by rw [hpc]; rfl
    refine ⟨?_, ?_, hi.hist, ?_, hi.phase, hi.serial⟩
    · apply key_step hy hi ht (.ready st) <;> first | (intro k e; first | rfl | exact upd_ne _ _ e) | rfl | skip
      apply hk.update (p := p) (Or.inl hcs) (.ready st)
      · simp
      · intro q hq; exact upd2_ne _ _ (fun e => hq e.1)
      · simp [PC.inCS]; exact hk.lockCS p hcs
      · intro st' h; simp [PC.carried] at h; rw [← h]; exact hk.carried p st (by simp [hpc, PC.carried])
      · intro h; simp [PC.hasTmp] at h
      · intro st' h; simp at h
      · intro h; simp [PC.genClean] at h
      · intro q _ hq; exact hk.genClean q (by simp [hq, PC.genClean])
    · exact deps_step hy hi.deps ht _ (by rw [hpc]; simp) (fun h => by rw [hpc] at h; simp at h)
    · exact active_step hi.active _ (fun h => by rw [hpc] at h; simp at h)
  | exec p t st ins ht hpc hins =>
    have hk := hi.key t ht
    have hcs : (s.pc p t.key).inCS = true := by rw [hpc]; rfl
    have hr := reads_clean hy hi ht (p := p) (by rw [hpc]; simp)
    rw [hr] at hins
    have hins' : ins = cins exec r t := (Option.some.inj hins).symm
    subst hins'
    refine ⟨?_, ?_, hi.hist, ?_, hi.phase, hi.serial⟩
    · apply key_step hy hi ht (.built st) <;> first | (intro k e; first | rfl | exact upd_ne _ _ e) | rfl | skip
      apply hk.update (p := p) (Or.inl hcs) (.built st)
      · simp
      · intro q hq; exact upd2_ne _ _ (fun e => hq e.1)
      · simp [PC.inCS]; exact hk.lockCS p hcs
      · intro st' h; simp [PC.carried] at h; rw [← h]; exact hk.carried p st (by simp [hpc, PC.carried])
      · intro _; simp [cleanv]
      · intro st' h; simp at h
      · intro h; simp [PC.genClean] at h
      · intro q _ hq; exact hk.genClean q (by simp [hq, PC.genClean])
    · exact deps_step hy hi.deps ht _ (by rw [hpc]; simp) (fun h => by rw [hpc] at h; simp at h)
    · exact active_step hi.active _ (fun h => by rw [hpc] at h; simp at h)
  | store p t st ht hpc =>
    have hk := hi.key t ht
    have hcs : (s.pc p t.key).inCS = true := by rw [hpc]; rfl
    refine ⟨?_, ?_, hi.hist, ?_, hi.phase, hi.serial⟩
    · apply key_step hy hi ht (.stored st) <;> first | (intro k e; first | rfl | exact upd_ne _ _ e) | rfl | skip
      apply hk.update (p := p) (Or.inl hcs) (.stored st)
      · simp
      · intro q hq; exact upd2_ne _ _ (fun e => hq e.1)
      · simp [PC.inCS]; exact hk.lockCS p hcs
      · intro st' h; simp [PC.carried] at h; rw [← h]; exact hk.carried p st (by simp [hpc, PC.carried])
      · intro _; exact hk.tmpOK p (by simp [hpc, PC.hasTmp])
      · intro st' h; simp at h
      · intro h; simp [PC.genClean] at h
      · intro q _ hq; exact hk.genClean q (by simp [hq, PC.genClean])
    · exact deps_step hy hi.deps ht _ (by rw [hpc]; simp) (fun h => by rw [hpc] at h; simp at h)
    · exact active_step hi.active _ (fun h => by rw [hpc] at h; simp at h)
  | moveKeep p t st c c' ht hpc htmp hgen hkeep hhash =>
    have hk := hi.key t ht
    have hcs : (s.pc p t.key).inCS = true := by rw [hpc]; rfl
    have hc' : c' = cleanv exec r t := by
      have := hk.tmpOK p (by simp [hpc, PC.hasTmp]); rw [htmp] at this; exact Option.some.inj this
    have hclean : s.gen t.key = some (cleanv exec r t) := by rw [hgen, hy.hP hhash, hc']
    refine ⟨?_, ?_, hi.hist, ?_, hi.phase, hi.serial⟩
    · apply key_step hy hi ht (.moved st) <;> first | (intro k e; first | rfl | exact upd_ne _ _ e) | rfl | skip
      apply hk.update (p := p) (Or.inl hcs) (.moved st)
      · simp
      · intro q hq; exact upd2_ne _ _ (fun e => hq e.1)
      · simp [PC.inCS]; exact hk.lockCS p hcs
      · intro st' h; simp [PC.carried] at h; rw [← h]; exact hk.carried p st (by simp [hpc, PC.carried])
      · intro h; simp [PC.hasTmp] at h
      · intro st' h; simp at h
      · intro _; exact hclean
      · intro q _ _; exact hclean
    · exact deps_step hy hi.deps ht _ (by rw [hpc]; simp) (fun h => by rw [hpc] at h; simp at h)
    · exact active_step hi.active _ (fun h => by rw [hpc] at h; simp at h)
  | moveRemove p t st c c' ht hpc htmp hgen hdiff =>
    have hk := hi.key t ht
    have hcs : (s.pc p t.key).inCS = true := by rw [hpc]; rfl
    have hc' : c' = cleanv exec r t := by
      have := hk.tmpOK p (by simp [hpc, PC.hasTmp]); rw [htmp] at this; exact Option.some.inj this
    have hne : pathSer c ≠ pathSer c' := by
      rcases hdiff with h | h
      · rw [hy.keep] at h; exact absurd h (by simp)
      · exact h
    refine ⟨?_, ?_, ?_, ?_, hi.phase, hi.serial⟩
    · apply key_step hy hi ht (.removed st) <;> first | (intro k e; first | rfl | exact upd_ne _ _ e) | rfl | skip
      apply hk.update (p := p) (Or.inl hcs) (.removed st)
      · simp
      · intro q hq; exact upd2_ne _ _ (fun e => hq e.1)
      · simp [PC.inCS]; exact hk.lockCS p hcs
      · intro st' h; simp [PC.carried] at h; rw [← h]; exact hk.carried p st (by simp [hpc, PC.carried])
      · intro _; show s.tmp t.key = _; rw [htmp, hc']
      · intro st' _; simp
      · intro h; simp [PC.genClean] at h
      · intro q _ hq
        -- somebody had finished this target: the existing output is already the clean one, so the hashes agree
        have := hk.genClean q (by simp [hq, PC.genClean])
        rw [hgen] at this
        have hcc : c = c' := by rw [hc']; exact Option.some.inj this
        exact absurd (by rw [hcc]) hne
    · exact deps_step hy hi.deps ht _ (by rw [hpc]; simp) (fun h => by rw [hpc] at h; simp at h)
    · apply hist_step hi.hist t.key (fun k e => upd_ne _ _ e) (fun k e => upd_ne _ _ e)
      intro c0 st0 h; simp at h
    · exact active_step hi.active _ (fun h => by rw [hpc] at h; simp at h)
  | moveNew p t st c' ht hpc htmp hgen =>
    have hk := hi.key t ht
    have hcs : (s.pc p t.key).inCS = true := by rw [hpc]; rfl
    have hc' : c' = cleanv exec r t := by
      have := hk.tmpOK p (by simp [hpc, PC.hasTmp]); rw [htmp] at this; exact Option.some.inj this
    refine ⟨?_, ?_, ?_, ?_, hi.phase, hi.serial⟩
    · apply key_step hy hi ht (.moved st) <;> first | (intro k e; first | rfl | exact upd_ne _ _ e) | rfl | skip
      apply hk.update (p := p) (Or.inl hcs) (.moved st)
      · simp
      · intro q hq; exact upd2_ne _ _ (fun e => hq e.1)
      · simp [PC.inCS]; exact hk.lockCS p hcs
      · intro st' h; simp [PC.carried] at h; rw [← h]; exact hk.carried p st (by simp [hpc, PC.carried])
      · intro h; simp [PC.hasTmp] at h
      · intro st' h; simp at h
      · intro _; simp [hc']
      · intro q _ _; simp [hc']
    · exact deps_step hy hi.deps ht _ (by rw [hpc]; simp) (fun h => by rw [hpc] at h; simp at h)
    · apply hist_step hi.hist t.key (fun k e => upd_ne _ _ e) (fun k e => upd_ne _ _ e)
      intro c0 st0 _ h; simp at h
    · exact active_step hi.active _ (fun h => by rw [hpc] at h; simp at h)
  | rename p t st c' ht hpc htmp =>
    have hk := hi.key t ht
    have hcs : (s.pc p t.key).inCS = true := by rw [hpc]; rfl
    have hc' : c' = cleanv exec r t := by
      have := hk.tmpOK p (by simp [hpc, PC.hasTmp]); rw [htmp] at this; exact Option.some.inj this
    refine ⟨?_, ?_, ?_, ?_, hi.phase, hi.serial⟩
    · apply key_step hy hi ht (.moved st) <;> first | (intro k e; first | rfl | exact upd_ne _ _ e) | rfl | skip
      apply hk.update (p := p) (Or.inl hcs) (.moved st)
      · simp
      · intro q hq; exact upd2_ne _ _ (fun e => hq e.1)
      · simp [PC.inCS]; exact hk.lockCS p hcs
      · intro st' h; simp [PC.carried] at h; rw [← h]; exact hk.carried p st (by simp [hpc, PC.carried])
      · intro h; simp [PC.hasTmp] at h
      · intro st' h; simp at h
      · intro _; simp [hc']
      · intro q _ _; simp [hc']
    · exact deps_step hy hi.deps ht _ (by rw [hpc]; simp) (fun h => by rw [hpc] at h; simp at h)
    · apply hist_step hi.hist t.key (fun k e => upd_ne _ _ e) (fun k e => upd_ne _ _ e)
      intro c0 st0 _ h; simp at h
    · exact active_step hi.active _ (fun h => by rw [hpc] at h; simp at h)
  | stamp p t st c ht hpc hgen =>
    have hk := hi.key t ht
    have hcs : (s.pc p t.key).inCS = true := by rw [hpc]; rfl
    have hclean := hk.genClean p (by simp [hpc, PC.genClean])
    have hst : st = cstamp exec ruleSer pathSer r t := hk.carried p st (by simp [hpc, PC.carried])
    refine ⟨?_, ?_, ?_, ?_, hi.phase, hi.serial⟩
    · apply key_step hy hi ht .stamped <;> first | (intro k e; first | rfl | exact upd_ne _ _ e) | rfl | skip
      apply hk.update (p := p) (Or.inl hcs) .stamped
      · simp
      · intro q hq; exact upd2_ne _ _ (fun e => hq e.1)
      · simp [PC.inCS]; exact hk.lockCS p hcs
      · intro st' h; simp [PC.carried] at h
      · intro h; simp [PC.hasTmp] at h
      · intro st' h; simp at h
      · intro _; exact hclean
      · intro q _ _; exact hclean
    · exact deps_step hy hi.deps ht _ (by rw [hpc]; simp) (fun h => by rw [hpc] at h; simp at h)
    · apply hist_step hi.hist t.key (fun _ _ => rfl) (fun k e => upd_ne _ _ e)
      intro c0 st0 hg hs
      have hg' : s.gen t.key = some c0 := hg
      rw [hclean] at hg'
      simp at hs
      refine ⟨t.attrs, cins exec r t, ?_, ?_⟩
      · rw [← hs, hst]; rfl
      · rw [← Option.some.inj hg']; rfl
    · exact active_step hi.active _ (fun h => by rw [hpc] at h; simp at h)
  | release p t ht hpc =>
    have hk := hi.key t ht
    have hcs : (s.pc p t.key).inCS = true := by rw [hpc]; rfl
    have hclean := hk.genClean p (by simp [hpc, PC.genClean])
    refine ⟨?_, ?_, hi.hist, ?_, hi.phase, hi.serial⟩
    · apply key_step hy hi ht .finished <;> first | (intro k e; first | rfl | exact upd_ne _ _ e) | rfl | skip
      apply hk.update (p := p) (Or.inl hcs) .finished
      · simp
      · intro q hq; exact upd2_ne _ _ (fun e => hq e.1)
      · simp [PC.inCS]
      · intro st h; simp [PC.carried] at h
      · intro h; simp [PC.hasTmp] at h
      · intro st h; simp at h
      · intro _; exact hclean
      · intro q _ _; exact hclean
    · exact deps_step hy hi.deps ht .finished (by rw [hpc]; simp) (fun h => by rw [hpc] at h; simp at h)
    · exact active_step hi.active .finished (fun h => by rw [hpc] at h; simp at h)
  | fail p t ht hf =>
    have hk := hi.key t ht
    have hcs : (s.pc p t.key).inCS = true := by
      rcases hf with h | ⟨_, h, _⟩ | ⟨_, h, _⟩ | ⟨_, h, _⟩ | ⟨_, h, _⟩
      · rw [h.1]; rfl
      all_goals rw [h]; rfl
    have hnf : s.pc p t.key ≠ .finished := fun h => by rw [h] at hcs; simp [PC.inCS] at hcs
    have hni : s.pc p t.key ≠ .idle := fun h => by rw [h] at hcs; simp [PC.inCS] at hcs
    refine ⟨?_, ?_, hi.hist, ?_, hi.phase, hi.serial⟩
    · apply key_step hy hi ht .failed <;> first | (intro k e; first | rfl | exact upd_ne _ _ e) | rfl | skip
      apply hk.update (p := p) (Or.inl hcs) .failed
      · simp
      · intro q hq; exact upd2_ne _ _ (fun e => hq e.1)
      · simp [PC.inCS]
      · intro st h; simp [PC.carried] at h
      · intro h; simp [PC.hasTmp] at h
      · intro st h; simp at h
      · intro h; simp [PC.genClean] at h
      · intro q _ hq; exact hk.genClean q (by simp [hq, PC.genClean])
    · exact deps_step hy hi.deps ht .failed hnf (fun h => absurd h hni)
    · exact active_step hi.active .failed (fun h => absurd h hni)

/-- The invariant holds in every reachable state, for every interleaving. -/
theorem reach_inv (hy : Hyp fx lf ruleSer pathSer r req) {s0 s : State P K C S N H} (h0 : Init s0)
    (hh : Hist exec ruleSer pathSer s0.gen s0.stamp)
    (hr : Reach fx lf exec ruleSer pathSer r ps req force s0 s) : Inv lf exec ruleSer pathSer r ps req s := by
  induction hr with
  | init => exact inv_init h0 hh
  | step _ hs ih => exact step_inv hy ih hs

/-- No error path of buildTarget is ever enabled. -/
theorem no_fail (hy : Hyp fx lf ruleSer pathSer r req) {s : State P K C S N H} (hi : Inv lf exec ruleSer pathSer r ps req s)
    {p : P} {t : Target K A F} (ht : t ∈ r.targets) : ¬ FailCond r s p t := by
  have hk := hi.key t ht
  intro hf
  rcases hf with ⟨h, hn⟩ | ⟨st, h, hn⟩ | ⟨st, h, hn⟩ | ⟨st, h, hn⟩ | ⟨st, h, hn⟩
  · rw [reads_clean hy hi ht (p := p) (by rw [h]; simp)] at hn; simp at hn
  · rw [reads_clean hy hi ht (p := p) (by rw [h]; simp)] at hn; simp at hn
  · rw [hk.tmpOK p (by simp [h, PC.hasTmp])] at hn; simp at hn
  · rw [hk.tmpOK p (by simp [h, PC.hasTmp])] at hn; simp at hn
  · rw [hk.genClean p (by simp [h, PC.genClean])] at hn; simp at hn

end
end PlzVerif.Lock
