import PlzVerif.Lemmas.CrashRecover
import PlzVerif.Lemmas.CrashFixed
import PlzVerif.Lemmas.WriteFile
import PlzVerif.Lemmas.Build
/-!
C32, the build step BEFORE the repair (phase order `codedOrder`: metadata, move, stamp, cache — the stamps of the old
outputs stay in place while metadata and outputs are replaced).  Everything here is about `plan = planWith codedOrder`,
i.e. conditional on the OLD value of the regenerated fact `buildPhases`; it is kept as the record of what held and what
failed then (the three witnesses were replayed on the binary before commit "fix: drop the recorded rule hashes ...").
Shared definitions (`OutputsClean`, `GoodOut`, `view_good`, ...) are also used by Props/C32.lean.  Core only.
-/
namespace PlzVerif.CrashBuild.Unrepaired
set_option linter.unusedSectionVars false
set_option linter.unusedSimpArgs false
open PlzVerif.CrashBuild

variable {N C S H : Type} [DecidableEq N] [DecidableEq H] [DecidableEq S]

theorem buildFS_rebuild (b : Params N C S H) (fs : TState N C S) (h : needsBuilding b fs = true) :
    buildFS b false fs = (applyOps fs (plan b fs), true) := by
  simp [buildFS, buildFSWith, h, plan]

theorem buildFS_skip (b : Params N C S H) (fs : TState N C S) (h : needsBuilding b fs = false) (h2 : mdFails b fs = false) :
    buildFS b false fs = (fs, true) := by
  simp [buildFS, buildFSWith, h, h2]

theorem buildFS_fail (b : Params N C S H) (fs : TState N C S) (h : needsBuilding b fs = false) (h2 : mdFails b fs = true) :
    buildFS b false fs = (removeOutputs b fs, false) := by
  simp [buildFS, buildFSWith, h, h2]

/-- every declared output is there with the clean content -/
def OutputsClean (b : Params N C S H) (fs : TState N C S) : Prop :=
  ∀ n ∈ b.outs, ∃ nd, (fs.out n).gen = some nd ∧ nd.content = b.new n

theorem complete_build (b : Params N C S H) (fs : TState N C S) (hnd : b.outs.Nodup) (hne : b.outs ≠ [])
    (hH : Function.Injective b.hash) :
    OutputsClean b (applyOps fs (plan b fs)) ∧ (applyOps fs (plan b fs)).md = some b.mdBytes ∧
    needsBuilding b (applyOps fs (plan b fs)) = false := by
  refine ⟨fun n hn => (plan_out b fs hH hnd n hn).2, plan_md b fs, ?_⟩
  apply needsBuilding_false_of b _ hne ⟨_, plan_md b fs⟩
  intro n hn
  obtain ⟨h1, nd, h2, _⟩ := plan_out b fs hH hnd n hn
  exact ⟨h1, nd, h2⟩

/-- in a crash state that `needsBuilding` accepts, every output is the clean one -/
theorem trusted_crash_clean (b : Params N C S H) (G : N → C → S → Prop) (fs : TState N C S)
    (hnd : b.outs.Nodup) (hH : Function.Injective b.hash)
    (hG : ∀ n ∈ b.outs, ∀ c, G n c b.stamp → c = b.new n)
    (hinv : ∀ n ∈ b.outs, SliceInv (G n) (b.useFb n) (fs.out n)) (k : Nat)
    (hnb : needsBuilding b (applyOps fs ((plan b fs).take k)) = false) :
    OutputsClean b (applyOps fs ((plan b fs).take k)) := by
  intro n hn
  obtain ⟨_, hall⟩ := needsBuilding_false b _ hnb
  obtain ⟨hs, nd, hg⟩ := hall n hn
  obtain ⟨j, hj⟩ := crash_slice b fs n hnd hn k
  refine ⟨nd, hg, ?_⟩
  have hf := crash_forms b fs n j
  rw [← hj] at hf
  exact crash_trusted_is_new b n (G n) hH (hG n hn) (fs.out n) _ (hinv n hn) hf nd hg hs

/-- **C32 (same tree).**  Take any state of the target's files in which every stamped output is what its stamp
    describes (`hinv`; `hG`: the current stamp describes exactly the current outputs — C01's skip soundness).  Kill the
    build step after ANY number `k` of its atomic operations (whether or not it was a forced rebuild).  The next plain
    build of the same tree succeeds, leaves exactly the clean outputs, and the build after that has nothing to do.
    All stamp modes (xattr / fallback records), file and directory outputs (arbitrary partial removals). -/
theorem C32_recover (b : Params N C S H) (G : N → C → S → Prop) (fs : TState N C S)
    (hnd : b.outs.Nodup) (hne : b.outs ≠ []) (hH : Function.Injective b.hash)
    (hG : ∀ n ∈ b.outs, ∀ c, G n c b.stamp → c = b.new n)
    (hinv : ∀ n ∈ b.outs, SliceInv (G n) (b.useFb n) (fs.out n))
    (hmd : b.readsMd = false) (k : Nat) :
    (buildFS b false (applyOps fs ((plan b fs).take k))).2 = true ∧
    OutputsClean b (buildFS b false (applyOps fs ((plan b fs).take k))).1 ∧
    needsBuilding b (buildFS b false (applyOps fs ((plan b fs).take k))).1 = false := by
  by_cases hnb : needsBuilding b (applyOps fs ((plan b fs).take k)) = true
  · rw [buildFS_rebuild b _ hnb]
    have := complete_build b (applyOps fs ((plan b fs).take k)) hnd hne hH
    exact ⟨rfl, this.1, this.2.2⟩
  · have hnb' : needsBuilding b (applyOps fs ((plan b fs).take k)) = false := by simpa using hnb
    rw [buildFS_skip b _ hnb' (by simp [mdFails, hmd])]
    exact ⟨rfl, trusted_crash_clean b G fs hnd hH hG hinv k hnb', hnb'⟩

/-- **C32 (same tree) for targets whose up-to-date path loads the metadata file** (post-build functions, output
    directories).  `hdec`: a truncated gob does not decode; `hmd0`: metadata already in place under the current stamps
    is the current metadata.  The next build either succeeds with clean outputs and the complete metadata, or fails
    (exactly when the cut left a strict prefix of the gob that does not decode, under stamps that are already
    current), in which case `Build` removes the outputs and the build after that succeeds with the same result. -/
theorem C32_recover_readsMd (b : Params N C S H) (G : N → C → S → Prop) (fs : TState N C S)
    (hnd : b.outs.Nodup) (hne : b.outs ≠ []) (hH : Function.Injective b.hash)
    (hG : ∀ n ∈ b.outs, ∀ c, G n c b.stamp → c = b.new n)
    (hinv : ∀ n ∈ b.outs, SliceInv (G n) (b.useFb n) (fs.out n))
    (hr : b.readsMd = true) (hload : b.mdLoads b.mdBytes = true)
    (hdec : ∀ j, b.mdLoads (b.mdBytes.take j) = true → b.mdBytes.take j = b.mdBytes)
    (hmd0 : ∀ bs, fs.md = some bs → (∀ n ∈ b.outs, readStamp b fs n = some b.stamp) → bs = b.mdBytes) (k : Nat) :
    let r := buildFS b false (applyOps fs ((plan b fs).take k))
    (r.2 = true → OutputsClean b r.1 ∧ r.1.md = some b.mdBytes ∧ needsBuilding b r.1 = false) ∧
    (r.2 = false →
      (∃ j, (applyOps fs ((plan b fs).take k)).md = some (b.mdBytes.take j) ∧ b.mdLoads (b.mdBytes.take j) = false) ∧
      (buildFS b false r.1).2 = true ∧ OutputsClean b (buildFS b false r.1).1 ∧ (buildFS b false r.1).1.md = some b.mdBytes) := by
  have hms := crash_md_stamps b fs k
  have hclean0 := trusted_crash_clean b G fs hnd hH hG hinv k
  generalize hc : applyOps fs ((plan b fs).take k) = crash at hms hclean0
  by_cases hnb : needsBuilding b crash = true
  · rw [buildFS_rebuild b _ hnb]
    have := complete_build b crash hnd hne hH
    exact ⟨fun _ => ⟨this.1, this.2.1, this.2.2⟩, fun h => by simp at h⟩
  · have hnb' : needsBuilding b crash = false := by simpa using hnb
    have hclean : OutputsClean b crash := hclean0 hnb'
    obtain ⟨⟨bs, hbs⟩, hall⟩ := needsBuilding_false b _ hnb'
    by_cases hl : b.mdLoads bs = true
    · -- the metadata decodes: it is the complete current one
      have hfull : bs = b.mdBytes := by
        rcases hms with ⟨h1, h2⟩ | h | ⟨j, h⟩
        · refine hmd0 bs (by rw [← h1, hbs]) ?_
          intro n hn; rw [← h2 n]; exact (hall n hn).1
        · rw [hbs] at h; simp at h
        · rw [hbs] at h; simp at h; subst h; exact hdec j hl
      rw [buildFS_skip b _ hnb' (by simp [mdFails, hbs, hl])]
      exact ⟨fun _ => ⟨hclean, by rw [hbs, hfull], hnb'⟩, fun h => by simp at h⟩
    · have hl' : b.mdLoads bs = false := by simpa using hl
      rw [buildFS_fail b _ hnb' (by simp [mdFails, hbs, hl', hr])]
      refine ⟨fun h => by simp at h, fun _ => ⟨?_, ?_⟩⟩
      · rcases hms with ⟨h1, h2⟩ | h | ⟨j, h⟩
        · exfalso
          have := hmd0 bs (by rw [← h1, hbs]) (by intro n hn; rw [← h2 n]; exact (hall n hn).1)
          rw [this, hload] at hl'; simp at hl'
        · rw [hbs] at h; simp at h
        · rw [hbs] at h; simp at h; subst h; exact ⟨j, hbs, hl'⟩
      · -- second attempt: the outputs are gone, so it rebuilds
        have hnb2 : needsBuilding b (removeOutputs b crash) = true := by
          cases ho : b.outs with
          | nil => exact absurd ho hne
          | cons n0 ns =>
            simp only [needsBuilding, Bool.or_eq_true, List.any_eq_true]
            right
            exact ⟨n0, by rw [ho]; simp, by simp [removeOutputs, ho]⟩
        rw [buildFS_rebuild b _ hnb2]
        have := complete_build b (removeOutputs b crash) hnd hne hH
        exact ⟨rfl, this.1, this.2.1⟩

/-- "an output that reads back the CURRENT stamp is the current output" — the part of the history invariant that a
    same-tree recovery needs; unlike the full invariant it survives crashes in every stamp mode. -/
def CurInv (b : Params N C S H) (fs : TState N C S) : Prop :=
  ∀ n ∈ b.outs, SliceInv (fun c s => s = b.stamp → c = b.new n) (b.useFb n) (fs.out n)

/-- any number of interrupted build steps of the same tree, each cut anywhere, each started from what the previous
    one left -/
def crashSeq (b : Params N C S H) : List Nat → TState N C S → TState N C S
  | [], fs => fs
  | k :: ks, fs => crashSeq b ks (applyOps fs ((plan b fs).take k))

theorem curInv_crash (b : Params N C S H) (fs : TState N C S) (hnd : b.outs.Nodup) (hH : Function.Injective b.hash)
    (h : CurInv b fs) (k : Nat) : CurInv b (applyOps fs ((plan b fs).take k)) := by
  intro n hn nd s hg hs hcur
  subst hcur
  obtain ⟨j, hj⟩ := crash_slice b fs n hnd hn k
  have hf := crash_forms b fs n j
  rw [← hj] at hf
  exact crash_trusted_is_new b n (fun c s => s = b.stamp → c = b.new n) hH (fun c hc => hc rfl) (fs.out n) _ (h n hn) hf nd hg hs

theorem curInv_crashSeq (b : Params N C S H) (hnd : b.outs.Nodup) (hH : Function.Injective b.hash) :
    ∀ (ks : List Nat) (fs : TState N C S), CurInv b fs → CurInv b (crashSeq b ks fs)
  | [], _, h => h
  | k :: ks, fs, h => curInv_crashSeq b hnd hH ks _ (curInv_crash b fs hnd hH h k)

/-- **C32 (same tree), repeated crashes.**  Kill the build of the same tree any number of times, each time after any
    number of operations, each attempt starting from whatever the previous one left behind; the first build that is
    allowed to finish leaves exactly the clean outputs (all stamp modes, file and directory outputs). -/
theorem C32_recover_repeated (b : Params N C S H) (fs : TState N C S)
    (hnd : b.outs.Nodup) (hne : b.outs ≠ []) (hH : Function.Injective b.hash)
    (hinv : CurInv b fs) (hmd : b.readsMd = false) (ks : List Nat) :
    (buildFS b false (crashSeq b ks fs)).2 = true ∧
    OutputsClean b (buildFS b false (crashSeq b ks fs)).1 ∧
    needsBuilding b (buildFS b false (crashSeq b ks fs)).1 = false := by
  have h := curInv_crashSeq b hnd hH ks fs hinv
  have := C32_recover b (fun n c s => s = b.stamp → c = b.new n) (crashSeq b ks fs) hnd hne hH
    (fun n _ c hc => hc rfl) h hmd 0
  simpa [applyOps] using this

/-! ### any later tree: the history invariant at every cut (xattr stamps, file outputs) -/

theorem sliceInv_congr (G : C → S → Prop) (fb : Bool) (s1 s2 : Slice C S) (hg : s1.gen = s2.gen) (hf : s1.fb = s2.fb)
    (h : SliceInv G fb s1) : SliceInv G fb s2 := by
  intro nd s h1 h2
  exact h nd s (by rw [hg]; exact h1) (by rw [sliceStamp_congr fb s1 s2 hg hf]; exact h2)

/-- **C32 (any later tree), partial.**  When stamps live on the output's inode (xattrs enabled, not a symlink) and old
    outputs are removed in one step (regular files), EVERY cut of the build step leaves every output of plz-out in a
    state where "stamped ⇒ it is what the stamp describes" still holds — the history invariant of C01, so edits made
    after the crash cannot be confused with the interrupted build.  (`hnew`: the interrupted build's outputs are what
    its stamp describes.)  The two hypotheses are necessary: see the two witnesses below. -/
theorem C32_crash_inv_partial (b : Params N C S H) (G : N → C → S → Prop) (fs : TState N C S)
    (hnd : b.outs.Nodup) (hH : Function.Injective b.hash)
    (hx : ∀ n ∈ b.outs, b.useFb n = false ∧ b.rmSteps n = [])
    (hnew : ∀ n ∈ b.outs, G n (b.new n) b.stamp)
    (hinv : ∀ n, SliceInv (G n) false (fs.out n)) (k : Nat) :
    ∀ n, SliceInv (G n) false ((applyOps fs ((plan b fs).take k)).out n) := by
  intro n
  by_cases hn : n ∈ b.outs
  · obtain ⟨j, hj⟩ := crash_slice b fs n hnd hn k
    have hf := crash_forms b fs n j
    rw [← hj] at hf
    exact crash_sliceInv b n (G n) hH (hx n hn).1 (hx n hn).2 (hnew n hn) (fs.out n) _ (hinv n) hf
  · obtain ⟨j, hj⟩ := take_filterMap (proj n) (plan b fs) k
    rw [applyOps_out, hj, plan_proj_other b fs n hn]
    cases j with
    | zero => exact hinv n
    | succ j =>
      simp only [List.take_succ_cons, List.take_nil]
      exact sliceInv_congr (G n) false (fs.out n) _ rfl rfl (hinv n)

/-- what a later build sees of a single-output target satisfies the same statement -/
theorem view_good (b : Params N C S H) (fs : TState N C S) (n0 : N) (G : C → S → Prop)
    (h : SliceInv G (b.useFb n0) (fs.out n0)) (c : C) (s : S) (hv : view b fs n0 = some (c, s)) : G c s := by
  unfold view at hv
  split at hv
  · rename_i _ nd s' _ hg hs
    simp at hv
    obtain ⟨rfl, rfl⟩ := hv
    exact h nd s' hg hs
  · simp at hv

/-- `needsBuilding` on the filesystem is the "up to date ⇒ skip" test of the history model (Model/Build.lean
    `buildOne`: the stamp in plz-out equals the current one) on `view`. -/
theorem C32_needsBuilding_refines (b : Params N C S H) (fs : TState N C S) (n0 : N) (ho : b.outs = [n0]) :
    needsBuilding b fs = false ↔ ∃ c, view b fs n0 = some (c, b.stamp) := by
  constructor
  · intro h
    obtain ⟨⟨bs, hbs⟩, hall⟩ := needsBuilding_false b fs h
    obtain ⟨hs, nd, hg⟩ := hall n0 (by rw [ho]; simp)
    exact ⟨nd.content, by simp [view, hbs, hg, hs]⟩
  · rintro ⟨c, hv⟩
    unfold view at hv
    split at hv
    · rename_i bs nd s' hm hg hs
      simp at hv
      apply needsBuilding_false_of b fs (by rw [ho]; simp) ⟨bs, hm⟩
      intro n hn
      rw [ho] at hn; simp at hn; subst hn
      exact ⟨by rw [hs, hv.2], nd, hg⟩
    · simp at hv

/-- a complete build step leaves the clean output under the current stamp in `view` -/
theorem C32_build_refines (b : Params N C S H) (fs : TState N C S) (n0 : N) (ho : b.outs = [n0])
    (hH : Function.Injective b.hash) : view b (applyOps fs (plan b fs)) n0 = some (b.new n0, b.stamp) := by
  obtain ⟨hs, nd, hg, hc⟩ := plan_out b fs hH (by rw [ho]; simp) n0 (by rw [ho]; simp)
  simp [view, plan_md b fs, hg, hs, hc]

section History
open PlzVerif.Build
variable {K A F N' S' : Type} [DecidableEq K] [DecidableEq S'] [DecidableEq N']
variable (fx : Facts) (mv : C → C → C) (exec : A → List (N' × C) → C) (ruleSer : A → S') (pathSer : C → H)

/-- "the output is `exec` of what the stamp describes" (the body of C01's `Inv`) -/
def GoodOut (c : C) (s : Stamp S' N' H) : Prop := ∃ a ins, s = stampOf ruleSer pathSer a ins ∧ c = exec a ins

/-- **C32 ⇒ C01 after a crash (partial: xattr stamps, single file output per target).**  Let every target's files
    satisfy the history invariant, let any set of build steps (for whatever attributes and inputs they were started
    with) be cut anywhere — independently per target, i.e. under any interleaving, see `C32_interleaving` — then a build
    of ANY repository state `r` from what is left gives every requested target exactly its clean output. -/
theorem C32_main_partial (hmv : MvOK pathSer mv) (hf : fx.cmpRule = true ∧ fx.cmpSource = true)
    (hR : Function.Injective ruleSer) (hP : Function.Injective pathSer)
    (g : K → TState N C (Stamp S' N' H)) (bs : K → Params N C (Stamp S' N' H) H) (n0 : K → N)
    (hb : ∀ k, (bs k).outs = [n0 k] ∧ (bs k).useFb (n0 k) = false ∧ (bs k).rmSteps (n0 k) = [] ∧ (bs k).hash = pathSer ∧
      ∃ a ins, (bs k).stamp = stampOf ruleSer pathSer a ins ∧ (bs k).new (n0 k) = exec a ins)
    (hinv : ∀ k n, SliceInv (GoodOut exec ruleSer pathSer) false ((g k).out n))
    (cut : K → Nat) (r : Repo K A F N' C) (sel : K → Bool) (hwf : WFList sel [] r.targets) :
    ∀ k ∈ selKeys sel r.targets, ∃ c st,
      (build fx mv exec ruleSer pathSer r sel
        (fun k => view (bs k) (applyOps (g k) ((plan (bs k) (g k)).take (cut k))) (n0 k))).1 k = some (c, st) ∧
      (clean exec r sel).lookup k = some c := by
  have hInv : Inv exec ruleSer pathSer
      (fun k => view (bs k) (applyOps (g k) ((plan (bs k) (g k)).take (cut k))) (n0 k)) := by
    intro k c st hv
    obtain ⟨ho, hfb, hrm, hh, a, ins, hst, hnw⟩ := hb k
    have hsl := C32_crash_inv_partial (bs k) (fun _ => GoodOut exec ruleSer pathSer) (g k)
      (by rw [ho]; simp) (by rw [hh]; exact hP)
      (by intro n hn; rw [ho] at hn; simp at hn; subst hn; exact ⟨hfb, hrm⟩)
      (by intro n hn; rw [ho] at hn; simp at hn; subst hn; exact ⟨a, ins, hst, hnw⟩)
      (hinv k) (cut k) (n0 k)
    have := view_good (bs k) _ (n0 k) (GoodOut exec ruleSer pathSer) (by rw [hfb]; exact hsl) c st hv
    exact this
  have h := buildList_spec fx mv exec ruleSer pathSer hmv hf hR hP r sel r.targets [] _ [] rfl hInv
    (by intro k hk; simp at hk) hwf
  intro k hk
  exact h.2.2 k (by simpa using hk)

end History

/-- Build steps of different targets touch disjoint files: whatever the interleaving `l` of their operations at the
    moment of the crash, each target's files are in the state reached by a cut of its OWN operation list. -/
theorem C32_interleaving {K : Type} [DecidableEq K] (g : K → TState N C S) (bs : K → Params N C S H)
    (l : List (K × Op N C S)) (cut : K → Nat)
    (h : ∀ k, (l.filterMap fun p => if p.1 = k then some p.2 else none) = (plan (bs k) (g k)).take (cut k)) :
    ∀ k, applyGs g l k = applyOps (g k) ((plan (bs k) (g k)).take (cut k)) := by
  intro k; rw [applyGs_proj, h k]

/-! ### witnesses: where the full-strength property ("any later tree") fails on the code as it is -/
namespace W
def st (md : Option (List UInt8)) (s0 : Slice Nat Nat) : TState Nat Nat Nat :=
  ⟨md, none, none, fun n => if n = 0 then s0 else ⟨none, none, none⟩, 0⟩
/-- one output (name 0) with content `new` under stamp `stamp`; the gob is [1,2,3], written as [1] then [2,3] -/
def par (new stamp : Nat) (fb : Bool) (rm : List Nat) (readsMd : Bool) : Params Nat Nat Nat Nat :=
  { outs := [0], new := fun _ => new, stamp := stamp, hash := id, mdBytes := [1, 2, 3], mdSplit := [1],
    mdLoads := fun bs => bs == [1, 2, 3], useFb := fun _ => fb, mdUseFb := fb, rmSteps := fun _ => rm, fbParts := [],
    cache := false, readsMd := readsMd }
/-- tree T0 ↦ content 10 under stamp 100, tree T1 ↦ content 20 under stamp 200 -/
def good (c s : Nat) : Prop := (s = 100 ∧ c = 10) ∨ (s = 200 ∧ c = 20)
end W

open W in
/-- **Stale fallback record.**  Stamps in fallback records (xattrs disabled, or a symlink output).  plz-out holds a
    complete build of T0.  The tree is edited to T1 and the build is killed right after `os.Rename` put the new output
    in place (cut 9): `.rule_hash_<out>` still holds T0's stamp.  The tree is reverted to T0: the next build finds
    nothing to do and keeps T1's output (20), where a clean build gives 10. -/
theorem C32_witness_fallback_stale_stamp :
    SliceInv good true ((st (some [9]) ⟨none, some ⟨10, none⟩, some (.full 100)⟩).out 0) ∧
    needsBuilding (par 10 100 true [] false)
      (applyOps (st (some [9]) ⟨none, some ⟨10, none⟩, some (.full 100)⟩)
        ((plan (par 20 200 true [] false) (st (some [9]) ⟨none, some ⟨10, none⟩, some (.full 100)⟩)).take 9)) = false ∧
    (((buildFS (par 10 100 true [] false) false
      (applyOps (st (some [9]) ⟨none, some ⟨10, none⟩, some (.full 100)⟩)
        ((plan (par 20 200 true [] false) (st (some [9]) ⟨none, some ⟨10, none⟩, some (.full 100)⟩)).take 9))).1.out 0).gen.map (·.content))
      = some 20 ∧
    (par 10 100 true [] false).new 0 = 10 := by
  refine ⟨?_, by decide, by decide, rfl⟩
  intro nd s hg hs
  simp [st] at hg; subst hg
  simp [st, sliceStamp, Fb.read] at hs; subst hs
  exact Or.inl ⟨rfl, rfl⟩

open W in
/-- **Partially removed directory output.**  Stamps as xattrs.  plz-out holds a complete build of T0 whose output is a
    directory (content 10, xattr 100 on the directory inode).  The build of the edited tree T1 is killed inside
    `os.RemoveAll` of the old directory (cut 8: one entry unlinked, content 11).  The tree is reverted to T0: the next
    build finds the xattr of T0 and keeps the half-empty directory. -/
theorem C32_witness_dir_partial_remove :
    SliceInv good false ((st (some [9]) ⟨none, some ⟨10, some 100⟩, none⟩).out 0) ∧
    needsBuilding (par 10 100 false [] false)
      (applyOps (st (some [9]) ⟨none, some ⟨10, some 100⟩, none⟩)
        ((plan (par 20 200 false [11] false) (st (some [9]) ⟨none, some ⟨10, some 100⟩, none⟩)).take 8)) = false ∧
    (((buildFS (par 10 100 false [] false) false
      (applyOps (st (some [9]) ⟨none, some ⟨10, some 100⟩, none⟩)
        ((plan (par 20 200 false [11] false) (st (some [9]) ⟨none, some ⟨10, some 100⟩, none⟩)).take 8))).1.out 0).gen.map (·.content))
      = some 11 := by
  refine ⟨?_, by decide, by decide⟩
  intro nd s hg hs
  simp [st] at hg; subst hg
  simp [st, sliceStamp] at hs; subst hs
  exact Or.inl ⟨rfl, rfl⟩

open W in
/-- **Truncated metadata under current stamps.**  A target whose up-to-date path loads its metadata (post-build
    function).  plz-out holds a complete build of T1; `plz build --rebuild` of the same tree is killed inside
    `StoreTargetMetadata` (cut 5: the first piece of the gob is written).  The next build finds everything stamped as
    current, fails to decode the metadata, FAILS and removes the outputs; the build after that succeeds. -/
theorem C32_witness_truncated_metadata :
    (buildFS (par 20 200 false [] true) false
      (applyOps (st (some [1, 2, 3]) ⟨none, some ⟨20, some 200⟩, none⟩)
        ((plan (par 20 200 false [] true) (st (some [1, 2, 3]) ⟨none, some ⟨20, some 200⟩, none⟩)).take 5))).2 = false ∧
    ((buildFS (par 20 200 false [] true) false
      (applyOps (st (some [1, 2, 3]) ⟨none, some ⟨20, some 200⟩, none⟩)
        ((plan (par 20 200 false [] true) (st (some [1, 2, 3]) ⟨none, some ⟨20, some 200⟩, none⟩)).take 5))).1.out 0).gen = none ∧
    (buildFS (par 20 200 false [] true) false (buildFS (par 20 200 false [] true) false
      (applyOps (st (some [1, 2, 3]) ⟨none, some ⟨20, some 200⟩, none⟩)
        ((plan (par 20 200 false [] true) (st (some [1, 2, 3]) ⟨none, some ⟨20, some 200⟩, none⟩)).take 5))).1).2 = true := by
  decide

end PlzVerif.CrashBuild.Unrepaired
