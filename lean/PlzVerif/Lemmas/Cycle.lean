import PlzVerif.Model.Cycle
/-!
Lemmas for C06: soundness, completeness and "fuel `nodes.length + 1` is never exhausted" for the
transcription of `cycleDetector.Check` in `Model/Cycle.lean`.  Core Lean only.
-/
namespace PlzVerif.Cycle

def Edge (g : Graph) (a b : Nat) : Prop := b ∈ g a

/-- consecutive elements are edges -/
def Chain (g : Graph) : List Nat → Prop
  | [] => True
  | [_] => True
  | a :: b :: r => Edge g a b ∧ Chain g (b :: r)

/-- A genuine cycle: non-empty, each listed target depends on the next and the last depends on the first. -/
def IsCycle (g : Graph) (c : List Nat) : Prop :=
  Chain g c ∧ ∃ h l, c.head? = some h ∧ c.getLast? = some l ∧ Edge g l h

/-- non-empty path -/
inductive Path (g : Graph) : Nat → Nat → Prop
  | single {a b} : Edge g a b → Path g a b
  | cons {a b c} : Edge g a b → Path g b c → Path g a c

/-! ### the guard chain and the closing step under `Cfg.OK` -/

theorem guard_some {cfg : Cfg} {s : St} {t : Nat} {r : Res} (h : guard cfg s t = some r) :
    (r = .none ∧ t ∈ s.comp) ∨ (r = .cyc [t] false ∧ t ∈ s.part) := by
  unfold guard at h
  split at h <;> (split at h; · simp_all) <;> (split at h <;> simp_all)

theorem guard_none {cfg : Cfg} {s : St} {t : Nat} (h : guard cfg s t = Option.none) :
    t ∉ s.comp ∧ t ∉ s.part := by
  unfold guard at h
  split at h <;> (split at h; · simp_all) <;> (split at h <;> simp_all)

theorem close_ok {cfg : Cfg} (h : cfg.OK = true) (t : Nat) (c : List Nat) (done : Bool) :
    close cfg t c done = if done || c.getLast? == some t then .cyc c true else .cyc (t :: c) false := by
  simp only [Cfg.OK, Bool.and_eq_true, Bool.not_eq_true'] at h
  obtain ⟨⟨⟨⟨h1, h2⟩, h3⟩, h4⟩, h5⟩ := h
  simp [close, h1, h2, h3, h4, h5]

/-! ### soundness -/

/-- an unfinished cycle returned from `visit t`: starts at `t`, is a chain, ends at something on the stack -/
def Open (g : Graph) (part : List Nat) (t : Nat) (c : List Nat) : Prop :=
  c.head? = some t ∧ Chain g c ∧ ∃ l, c.getLast? = some l ∧ l ∈ part

theorem chain_cons {g : Graph} {t d : Nat} {c : List Nat} (he : Edge g t d) (hh : c.head? = some d)
    (hc : Chain g c) : Chain g (t :: c) := by
  cases c with
  | nil => simp at hh
  | cons x xs =>
    simp at hh; subst hh
    exact ⟨he, hc⟩

def VisitOK (g : Graph) (s : St) (t : Nat) (r : Res) (s' : St) : Prop :=
  (r = .none → s'.part = s.part) ∧
  (∀ c, r = .cyc c true → IsCycle g c) ∧
  (∀ c, r = .cyc c false → Open g s.part t c)

def ListOK (g : Graph) (s : St) (t : Nat) (r : Res) (s' : St) : Prop :=
  (r = .none → s'.part = s.part) ∧
  (∀ c, r = .cyc c true → IsCycle g c) ∧
  (∀ c, r = .cyc c false → Open g s.part t c ∧ c.getLast? ≠ some t)

theorem list_ok {cfg : Cfg} (hcfg : cfg.OK = true) (g : Graph) (fuel : Nat)
    (ih : ∀ s t, VisitOK g s t (visit cfg g fuel s t).1 (visit cfg g fuel s t).2) :
    ∀ (ds : List Nat) (s : St) (t : Nat), t ∈ s.part → (∀ d ∈ ds, Edge g t d) →
      ListOK g s t (visitList cfg g fuel s t ds).1 (visitList cfg g fuel s t ds).2 := by
  intro ds
  induction ds with
  | nil => intro s t _ _; rw [visitList_nil]; simp [ListOK]
  | cons d ds ihl =>
    intro s t ht hds
    have hv := ih s d
    rw [visitList_cons]
    generalize hvr : visit cfg g fuel s d = vr at hv
    obtain ⟨r, s1⟩ := vr
    cases r with
    | none =>
      simp only at hv ⊢
      have hp : s1.part = s.part := hv.1 rfl
      have := ihl s1 t (by rw [hp]; exact ht) (fun d' hd' => hds d' (List.mem_cons_of_mem _ hd'))
      unfold ListOK at this ⊢
      rw [hp] at this
      exact this
    | oof => simp [ListOK]
    | cyc c done =>
      simp only [close_ok hcfg] at hv ⊢
      cases done with
      | true =>
        simp only [Bool.true_or, ite_true]
        refine ⟨by simp, ?_, by simp⟩
        intro c' hc'; cases hc'; exact hv.2.1 c rfl
      | false =>
        have ho := hv.2.2 c rfl
        obtain ⟨hh, hc, l, hl, hlp⟩ := ho
        by_cases hlt : c.getLast? = some t
        · simp only [Bool.false_or, hlt, beq_self_eq_true, ite_true]
          refine ⟨by simp, ?_, by simp⟩
          intro c' hc'; cases hc'
          exact ⟨hc, d, t, hh, hlt, hds d (List.mem_cons_self ..)⟩
        · have : (c.getLast? == some t) = false := by simpa using hlt
          simp only [Bool.false_or, this, Bool.false_eq_true, ite_false]
          refine ⟨by simp, by simp, ?_⟩
          intro c' hc'; cases hc'
          have hne : c ≠ [] := by intro h; simp [h] at hh
          refine ⟨⟨by simp, chain_cons (hds d (List.mem_cons_self ..)) hh hc, l, ?_, hlp⟩, ?_⟩
          · rw [List.getLast?_cons_of_ne_nil hne]; exact hl
          · rw [List.getLast?_cons_of_ne_nil hne]; exact hlt

theorem visit_ok {cfg : Cfg} (hcfg : cfg.OK = true) (g : Graph) : ∀ (fuel : Nat) (s : St) (t : Nat),
    VisitOK g s t (visit cfg g fuel s t).1 (visit cfg g fuel s t).2 := by
  intro fuel
  induction fuel with
  | zero => intro s t; rw [visit_zero]; simp [VisitOK]
  | succ fuel ih =>
    intro s t
    rw [visit_succ]
    cases hg : guard cfg s t with
    | some r =>
      simp only
      rcases guard_some hg with ⟨rfl, _⟩ | ⟨rfl, hp⟩
      · simp [VisitOK]
      · refine ⟨by simp, by simp, ?_⟩
        intro c hc'; cases hc'
        exact ⟨rfl, trivial, t, rfl, hp⟩
    | none =>
      simp only
      have hl := list_ok hcfg g fuel ih (g t) { s with part := t :: s.part } t
        (List.mem_cons_self ..) (fun d hd => hd)
      generalize hvr : visitList cfg g fuel { s with part := t :: s.part } t (g t) = vr at hl
      obtain ⟨r, s2⟩ := vr
      cases r with
      | none =>
        simp only at hl ⊢
        refine ⟨fun _ => ?_, by simp, by simp⟩
        have := hl.1 rfl
        simp only at this
        simp [this]
      | oof => simp [VisitOK]
      | cyc c done =>
        simp only at hl ⊢
        cases done with
        | true =>
          refine ⟨by simp, ?_, by simp⟩
          intro c' hc'; cases hc'; exact hl.2.1 c rfl
        | false =>
          refine ⟨by simp, by simp, ?_⟩
          intro c' hc'; cases hc'
          obtain ⟨⟨hh, hch, l, hl1, hl2⟩, hne⟩ := hl.2.2 c rfl
          refine ⟨hh, hch, l, hl1, ?_⟩
          simp only [List.mem_cons] at hl2
          rcases hl2 with h | h
          · subst h; exact absurd hl1 hne
          · exact h

theorem checkFrom_sound {cfg : Cfg} (hcfg : cfg.OK = true) (g : Graph) (fuel : Nat) :
    ∀ (ts : List Nat) (s : St), s.part = [] →
    ∀ c d, (checkFrom cfg g fuel s ts).1 = .cyc c d → IsCycle g c := by
  intro ts
  induction ts with
  | nil => intro s _ c d h; simp [checkFrom] at h
  | cons t ts ih =>
    intro s hs c d h
    have hv := visit_ok hcfg g fuel s t
    unfold checkFrom at h
    split at h
    · exact ih s hs c d h
    · generalize hvr : visit cfg g fuel s t = vr at hv h
      obtain ⟨r, s1⟩ := vr
      cases r with
      | none =>
        simp only at h hv
        exact ih s1 (by rw [hv.1 rfl, hs]) c d h
      | oof => simp at h
      | cyc c' d' =>
        simp only at h hv
        cases h
        cases d with
        | true => exact hv.2.1 c rfl
        | false =>
          obtain ⟨_, _, l, _, hl⟩ := hv.2.2 c rfl
          rw [hs] at hl; simp at hl

/-- any reported cycle is genuine -/
theorem check_sound {cfg : Cfg} (hcfg : cfg.OK = true) (g : Graph) (nodes : List Nat) (c : List Nat) (d : Bool)
    (h : check cfg g nodes = .cyc c d) : IsCycle g c :=
  checkFrom_sound hcfg g _ nodes ⟨[], []⟩ rfl c d h

/-- a chain is a path from its head to its last element (or a single node) -/
theorem chain_path {g : Graph} : ∀ (c : List Nat) (h l : Nat), Chain g c → c.head? = some h →
    c.getLast? = some l → h = l ∨ Path g h l
  | [], _, _, _, hh, _ => by simp at hh
  | [a], h, l, _, hh, hl => by simp at hh hl; left; omega
  | a :: b :: r, h, l, hc, hh, hl => by
    simp at hh; subst hh
    have hl' : (b :: r).getLast? = some l := by
      rw [List.getLast?_cons_of_ne_nil (by simp)] at hl; exact hl
    rcases chain_path (b :: r) b l hc.2 rfl hl' with rfl | p
    · right; exact .single hc.1
    · right; exact .cons hc.1 p

theorem path_snoc {g : Graph} {a b c : Nat} (p : Path g a b) (e : Edge g b c) : Path g a c := by
  induction p with
  | single e' => exact .cons e' (.single e)
  | cons e' _ ih => exact .cons e' (ih e)

/-- a genuine cycle gives a non-empty path from its first element back to itself -/
theorem IsCycle.path {g : Graph} {c : List Nat} (hc : IsCycle g c) : ∃ a, c.head? = some a ∧ Path g a a := by
  obtain ⟨hch, h, l, hh, hl, he⟩ := hc
  refine ⟨h, hh, ?_⟩
  rcases chain_path c h l hch hh hl with rfl | p
  · exact .single he
  · exact path_snoc p he

/-! ### completeness -/

def PostOrd (g : Graph) : List Nat → Prop
  | [] => True
  | t :: rest => (∀ d ∈ g t, d ∈ rest) ∧ PostOrd g rest

theorem PostOrd.closed {g : Graph} : ∀ {l : List Nat}, PostOrd g l → ∀ x ∈ l, ∀ y, Edge g x y → y ∈ l
  | [], _, x, hx, _, _ => by simp at hx
  | t :: rest, ⟨h1, h2⟩, x, hx, y, he => by
    simp only [List.mem_cons] at hx
    rcases hx with rfl | hx
    · exact List.mem_cons_of_mem _ (h1 y he)
    · exact List.mem_cons_of_mem _ (PostOrd.closed h2 x hx y he)

theorem path_closed {g : Graph} {l : List Nat} (hc : ∀ x ∈ l, ∀ y, Edge g x y → y ∈ l) :
    ∀ {a b}, Path g a b → a ∈ l → b ∈ l := by
  intro a b p
  induction p with
  | single e => intro ha; exact hc _ ha _ e
  | cons e _ ih => intro ha; exact ih (hc _ ha _ e)

theorem PostOrd.acyclic {g : Graph} : ∀ {l : List Nat}, PostOrd g l → ∀ a ∈ l, ¬ Path g a a
  | [], _, a, ha => by simp at ha
  | t :: rest, ⟨h1, h2⟩, a, ha => by
    intro p
    have hrest : a ∈ rest := by
      simp only [List.mem_cons] at ha
      rcases ha with rfl | ha
      · cases p with
        | single e => exact h1 _ e
        | cons e p' => exact path_closed (PostOrd.closed h2) p' (h1 _ e)
      · exact ha
    exact PostOrd.acyclic h2 a hrest p

def VisitC (g : Graph) (s : St) (t : Nat) (r : Res) (s' : St) : Prop :=
  r = .none → PostOrd g s.comp → (PostOrd g s'.comp ∧ t ∈ s'.comp ∧ ∀ x ∈ s.comp, x ∈ s'.comp)

def ListC (g : Graph) (s : St) (ds : List Nat) (r : Res) (s' : St) : Prop :=
  r = .none → PostOrd g s.comp →
    (PostOrd g s'.comp ∧ (∀ d ∈ ds, d ∈ s'.comp) ∧ ∀ x ∈ s.comp, x ∈ s'.comp)

theorem close_ne_none (cfg : Cfg) (t : Nat) (c : List Nat) (d : Bool) : close cfg t c d ≠ .none := by
  unfold close; simp only; repeat' split <;> simp

theorem close_ne_oof (cfg : Cfg) (t : Nat) (c : List Nat) (d : Bool) : close cfg t c d ≠ .oof := by
  unfold close; simp only; repeat' split <;> simp

theorem list_c (cfg : Cfg) (g : Graph) (fuel : Nat)
    (ih : ∀ s t, VisitC g s t (visit cfg g fuel s t).1 (visit cfg g fuel s t).2) :
    ∀ (ds : List Nat) (s : St) (t : Nat),
      ListC g s ds (visitList cfg g fuel s t ds).1 (visitList cfg g fuel s t ds).2 := by
  intro ds
  induction ds with
  | nil => intro s t; rw [visitList_nil]; intro _ hp; exact ⟨hp, by simp, fun _ h => h⟩
  | cons d ds ihl =>
    intro s t
    have hv := ih s d
    rw [visitList_cons]
    generalize hvr : visit cfg g fuel s d = vr at hv
    obtain ⟨r, s1⟩ := vr
    cases r with
    | none =>
      simp only at hv ⊢
      intro hn hp
      obtain ⟨hp1, hd, hsub⟩ := hv rfl hp
      obtain ⟨hp2, hds, hsub2⟩ := ihl s1 t hn hp1
      refine ⟨hp2, ?_, fun x hx => hsub2 x (hsub x hx)⟩
      intro d' hd'
      simp only [List.mem_cons] at hd'
      rcases hd' with rfl | hd'
      · exact hsub2 _ hd
      · exact hds d' hd'
    | oof => intro h; simp at h
    | cyc c done =>
      simp only
      intro h; exact absurd h (close_ne_none _ _ _ _)

theorem visit_c (cfg : Cfg) (g : Graph) : ∀ (fuel : Nat) (s : St) (t : Nat),
    VisitC g s t (visit cfg g fuel s t).1 (visit cfg g fuel s t).2 := by
  intro fuel
  induction fuel with
  | zero => intro s t; rw [visit_zero]; intro h; simp at h
  | succ fuel ih =>
    intro s t
    rw [visit_succ]
    cases hg : guard cfg s t with
    | some r =>
      simp only
      rcases guard_some hg with ⟨rfl, hc⟩ | ⟨rfl, _⟩
      · intro _ hp; exact ⟨hp, hc, fun _ h => h⟩
      · intro h; simp at h
    | none =>
      simp only
      have hl := list_c cfg g fuel ih (g t) { s with part := t :: s.part } t
      generalize hvr : visitList cfg g fuel { s with part := t :: s.part } t (g t) = vr at hl
      obtain ⟨r, s2⟩ := vr
      cases r with
      | none =>
        simp only at hl ⊢
        intro _ hpo
        obtain ⟨hp2, hds, hsub⟩ := hl rfl hpo
        exact ⟨⟨hds, hp2⟩, List.mem_cons_self .., fun x hx => List.mem_cons_of_mem _ (hsub x hx)⟩
      | oof => intro h; simp at h
      | cyc c done => intro h; simp at h

theorem checkFrom_c (cfg : Cfg) (g : Graph) (fuel : Nat) : ∀ (ts : List Nat) (s : St), PostOrd g s.comp →
    (checkFrom cfg g fuel s ts).1 = .none →
    PostOrd g (checkFrom cfg g fuel s ts).2.comp ∧
      (∀ t ∈ ts, t ∈ (checkFrom cfg g fuel s ts).2.comp) ∧
      (∀ x ∈ s.comp, x ∈ (checkFrom cfg g fuel s ts).2.comp) := by
  intro ts
  induction ts with
  | nil => intro s hp _; exact ⟨by simpa [checkFrom] using hp, by simp, by simp [checkFrom]⟩
  | cons t ts ih =>
    intro s hp
    have hv := visit_c cfg g fuel s t
    unfold checkFrom
    split
    · rename_i hmem
      intro hn
      obtain ⟨hp2, hts, hsub⟩ := ih s hp hn
      refine ⟨hp2, ?_, hsub⟩
      intro t' ht'
      simp only [List.mem_cons] at ht'
      rcases ht' with rfl | ht'
      · exact hsub _ (by simp only [Bool.and_eq_true, decide_eq_true_eq] at hmem; exact hmem.2)
      · exact hts t' ht'
    · generalize hvr : visit cfg g fuel s t = vr at hv
      obtain ⟨r, s1⟩ := vr
      cases r with
      | none =>
        simp only at hv ⊢
        intro hn
        obtain ⟨hp1, ht, hsub⟩ := hv rfl hp
        obtain ⟨hp2, hts, hsub2⟩ := ih s1 hp1 hn
        refine ⟨hp2, ?_, fun x hx => hsub2 x (hsub x hx)⟩
        intro t' ht'
        simp only [List.mem_cons] at ht'
        rcases ht' with rfl | ht'
        · exact hsub2 _ ht
        · exact hts t' ht'
      | oof => intro h; simp at h
      | cyc c d => intro h; simp at h

/-- if the checker reports nothing (and did not run out of fuel), no listed node lies on a cycle -/
theorem check_complete (cfg : Cfg) (g : Graph) (nodes : List Nat) (h : check cfg g nodes = .none) :
    ∀ a ∈ nodes, ¬ Path g a a := by
  intro a ha
  obtain ⟨hp, hall, _⟩ := checkFrom_c cfg g _ nodes ⟨[], []⟩ trivial h
  exact PostOrd.acyclic hp a (hall a ha)

/-! ### fuel: `nodes.length + 1` is never exhausted -/

theorem nodup_subset_length : ∀ (l nodes : List Nat), l.Nodup → (∀ x ∈ l, x ∈ nodes) → l.length ≤ nodes.length
  | [], _, _, _ => by simp
  | x :: l, nodes, hn, hs => by
    have hx : x ∈ nodes := hs x (List.mem_cons_self ..)
    have hn' := List.nodup_cons.mp hn
    have : l.length ≤ (nodes.erase x).length := by
      apply nodup_subset_length l (nodes.erase x) hn'.2
      intro y hy
      have hyx : y ≠ x := by intro h; subst h; exact hn'.1 hy
      exact (List.mem_erase_of_ne hyx).mpr (hs y (List.mem_cons_of_mem _ hy))
    rw [List.length_erase_of_mem hx] at this
    have : 0 < nodes.length := List.length_pos_of_mem hx
    simp only [List.length_cons]; omega

/-- the stack invariant of the DFS -/
def StackOK (nodes : List Nat) (fuel : Nat) (s : St) : Prop :=
  s.part.Nodup ∧ (∀ x ∈ s.part, x ∈ nodes) ∧ nodes.length + 1 ≤ fuel + s.part.length

theorem list_fuel {cfg : Cfg} (hcfg : cfg.OK = true) (g : Graph) (nodes : List Nat) (fuel : Nat)
    (ih : ∀ s t, t ∈ nodes → StackOK nodes fuel s → (visit cfg g fuel s t).1 ≠ .oof) :
    ∀ (ds : List Nat) (s : St) (t : Nat), (∀ d ∈ ds, d ∈ nodes) → StackOK nodes fuel s →
      (visitList cfg g fuel s t ds).1 ≠ .oof := by
  intro ds
  induction ds with
  | nil => intro s t _ _; rw [visitList_nil]; simp
  | cons d ds ihl =>
    intro s t hds hst
    have hv := ih s d (hds d (List.mem_cons_self ..)) hst
    have hok := visit_ok hcfg g fuel s d
    rw [visitList_cons]
    generalize hvr : visit cfg g fuel s d = vr at hv hok
    obtain ⟨r, s1⟩ := vr
    cases r with
    | none =>
      simp only at hok ⊢
      have hp : s1.part = s.part := hok.1 rfl
      exact ihl s1 t (fun d' hd' => hds d' (List.mem_cons_of_mem _ hd')) (by unfold StackOK; rw [hp]; exact hst)
    | oof => simp at hv
    | cyc c done => simp only; exact close_ne_oof _ _ _ _

theorem visit_fuel {cfg : Cfg} (hcfg : cfg.OK = true) (g : Graph) (nodes : List Nat) (hwf : WF g nodes) :
    ∀ (fuel : Nat) (s : St) (t : Nat), t ∈ nodes → StackOK nodes fuel s → (visit cfg g fuel s t).1 ≠ .oof := by
  intro fuel
  induction fuel with
  | zero =>
    intro s t _ ⟨hn, hs, hl⟩
    have := nodup_subset_length _ _ hn hs
    omega
  | succ fuel ih =>
    intro s t ht ⟨hn, hs, hl⟩
    rw [visit_succ]
    cases hg : guard cfg s t with
    | some r =>
      simp only
      rcases guard_some hg with ⟨rfl, _⟩ | ⟨rfl, _⟩ <;> simp
    | none =>
      simp only
      have hnp := (guard_none hg).2
      have hst : StackOK nodes fuel { s with part := t :: s.part } := by
        refine ⟨List.nodup_cons.mpr ⟨hnp, hn⟩, ?_, ?_⟩
        · intro x hx
          simp only [List.mem_cons] at hx
          rcases hx with rfl | hx
          · exact ht
          · exact hs x hx
        · simp only [List.length_cons]; omega
      have hl := list_fuel hcfg g nodes fuel ih (g t) { s with part := t :: s.part } t (hwf t ht) hst
      generalize hvr : visitList cfg g fuel { s with part := t :: s.part } t (g t) = vr at hl
      obtain ⟨r, s2⟩ := vr
      cases r with
      | none => simp
      | oof => simp at hl
      | cyc c done => simp

theorem checkFrom_fuel {cfg : Cfg} (hcfg : cfg.OK = true) (g : Graph) (nodes : List Nat) (hwf : WF g nodes)
    (fuel : Nat) (hf : nodes.length + 1 ≤ fuel) :
    ∀ (ts : List Nat) (s : St), (∀ t ∈ ts, t ∈ nodes) → s.part = [] → (checkFrom cfg g fuel s ts).1 ≠ .oof := by
  intro ts
  induction ts with
  | nil => intro s _ _; simp [checkFrom]
  | cons t ts ih =>
    intro s hts hs
    unfold checkFrom
    split
    · exact ih s (fun t' ht' => hts t' (List.mem_cons_of_mem _ ht')) hs
    · have hst : StackOK nodes fuel s := by
        refine ⟨by rw [hs]; exact List.nodup_nil, by rw [hs]; simp, by rw [hs]; simp; omega⟩
      have hv := visit_fuel hcfg g nodes hwf fuel s t (hts t (List.mem_cons_self ..)) hst
      have hok := visit_ok hcfg g fuel s t
      generalize hvr : visit cfg g fuel s t = vr at hv hok
      obtain ⟨r, s1⟩ := vr
      cases r with
      | none =>
        simp only at hok ⊢
        exact ih s1 (fun t' ht' => hts t' (List.mem_cons_of_mem _ ht')) (by rw [hok.1 rfl, hs])
      | oof => simp at hv
      | cyc c d => simp

/-- on a well-formed graph the recursion depth bound `nodes.length + 1` is never reached -/
theorem check_fuel {cfg : Cfg} (hcfg : cfg.OK = true) (g : Graph) (nodes : List Nat) (hwf : WF g nodes) :
    check cfg g nodes ≠ .oof :=
  checkFrom_fuel hcfg g nodes hwf _ (Nat.le_refl _) nodes ⟨[], []⟩ (fun _ h => h) rfl

/-! ### every reported target is a listed target -/

def ResIn (nodes : List Nat) (r : Res) : Prop := ∀ c d, r = .cyc c d → ∀ x ∈ c, x ∈ nodes

theorem list_mem {cfg : Cfg} (hcfg : cfg.OK = true) (g : Graph) (nodes : List Nat) (fuel : Nat)
    (ih : ∀ s t, t ∈ nodes → ResIn nodes (visit cfg g fuel s t).1) :
    ∀ (ds : List Nat) (s : St) (t : Nat), t ∈ nodes → (∀ d ∈ ds, d ∈ nodes) →
      ResIn nodes (visitList cfg g fuel s t ds).1 := by
  intro ds
  induction ds with
  | nil => intro s t _ _; rw [visitList_nil]; intro c d h; simp at h
  | cons d ds ihl =>
    intro s t ht hds
    have hv := ih s d (hds d (List.mem_cons_self ..))
    rw [visitList_cons]
    generalize hvr : visit cfg g fuel s d = vr at hv
    obtain ⟨r, s1⟩ := vr
    cases r with
    | none => exact ihl s1 t ht (fun d' hd' => hds d' (List.mem_cons_of_mem _ hd'))
    | oof => intro c d h; simp at h
    | cyc c done =>
      simp only [close_ok hcfg] at hv ⊢
      have hc := hv c done rfl
      intro c' d' h
      split at h
      · cases h; exact hc
      · cases h
        intro x hx
        simp only [List.mem_cons] at hx
        rcases hx with rfl | hx
        · exact ht
        · exact hc x hx

theorem visit_mem {cfg : Cfg} (hcfg : cfg.OK = true) (g : Graph) (nodes : List Nat) (hwf : WF g nodes) :
    ∀ (fuel : Nat) (s : St) (t : Nat), t ∈ nodes → ResIn nodes (visit cfg g fuel s t).1 := by
  intro fuel
  induction fuel with
  | zero => intro s t _; rw [visit_zero]; intro c d h; simp at h
  | succ fuel ih =>
    intro s t ht
    rw [visit_succ]
    cases hg : guard cfg s t with
    | some r =>
      simp only
      rcases guard_some hg with ⟨rfl, _⟩ | ⟨rfl, _⟩
      · intro c d h; simp at h
      · intro c d h; cases h; intro x hx; simp at hx; subst hx; exact ht
    | none =>
      simp only
      have hl := list_mem hcfg g nodes fuel ih (g t) { s with part := t :: s.part } t ht (hwf t ht)
      generalize hvr : visitList cfg g fuel { s with part := t :: s.part } t (g t) = vr at hl
      obtain ⟨r, s2⟩ := vr
      cases r with
      | none => intro c d h; simp at h
      | oof => intro c d h; simp at h
      | cyc c done => exact hl

theorem checkFrom_mem {cfg : Cfg} (hcfg : cfg.OK = true) (g : Graph) (nodes : List Nat) (hwf : WF g nodes)
    (fuel : Nat) : ∀ (ts : List Nat) (s : St), (∀ t ∈ ts, t ∈ nodes) →
      ResIn nodes (checkFrom cfg g fuel s ts).1 := by
  intro ts
  induction ts with
  | nil => intro s _ c d h; simp [checkFrom] at h
  | cons t ts ih =>
    intro s hts
    unfold checkFrom
    split
    · exact ih s (fun t' ht' => hts t' (List.mem_cons_of_mem _ ht'))
    · have hv := visit_mem hcfg g nodes hwf fuel s t (hts t (List.mem_cons_self ..))
      generalize hvr : visit cfg g fuel s t = vr at hv
      obtain ⟨r, s1⟩ := vr
      cases r with
      | none => exact ih s1 (fun t' ht' => hts t' (List.mem_cons_of_mem _ ht'))
      | oof => intro c d h; simp at h
      | cyc c d => exact hv

/-- every target in a reported cycle is one of the graph's targets -/
theorem check_mem {cfg : Cfg} (hcfg : cfg.OK = true) (g : Graph) (nodes : List Nat) (hwf : WF g nodes)
    (c : List Nat) (d : Bool) (h : check cfg g nodes = .cyc c d) : ∀ x ∈ c, x ∈ nodes :=
  checkFrom_mem hcfg g nodes hwf _ nodes ⟨[], []⟩ (fun _ h => h) c d h

end PlzVerif.Cycle
