import PlzVerif.Lemmas.AspFreeze
import PlzVerif.Model.AspInterp
/-!
Read-only computations of the asp model, and what `sorted` / `reversed` do to the heap once they copy (C16).

* `RO m` — `m` leaves the heap as it found it whenever it succeeds; closed under `bind`, holds of the comparison
  operators (`cmpOp`, `listLess`) and therefore of the stable sort that `sorted` runs;
* `sorted_copies`, `reversed_copies` — with the facts `sortedInPlace = false` / `reversedInPlace = false` (the
  builtin works on `slices.Clip(slices.Clone(l))`), a successful call changes the heap by exactly one new array,
  which is the result and has no spare capacity.  Every list that existed before is untouched.
-/
namespace PlzVerif.Asp

/-- `m` never changes the heap when it succeeds. -/
def RO {α : Type} (m : EM α) : Prop := ∀ st r st', m.run st = .ok (r, st') → st' = st

theorem RO_pure {α : Type} (a : α) : RO (pure a : EM α) := by
  intro st r st' h; rw [run_pure_ok] at h; cases h; rfl

theorem RO_fail {α : Type} (msg : String) : RO (fail msg : EM α) := by
  intro st r st' h; exact absurd h (fail_run msg st _)

theorem RO_bind {α β : Type} {x : EM α} {f : α → EM β} (hx : RO x) (hf : ∀ a, RO (f a)) : RO (x >>= f) := by
  intro st r st' h
  rw [run_bind_ok] at h
  obtain ⟨a, s1, h1, h2⟩ := h
  have := hx _ _ _ h1; subst this
  exact hf a _ _ _ h2

theorem RO_elems (arr off len : Nat) : RO (elems arr off len) := by
  intro st r st' h; exact (elems_run h).1

theorem RO_ite {α : Type} {c : Prop} [Decidable c] {a b : EM α} (ha : RO a) (hb : RO b) : RO (if c then a else b) := by
  split <;> assumption

theorem RO_goIntBin (kind : String) (i o : Int) : RO (goIntBin kind i o) := by
  unfold goIntBin
  repeat' (first | apply RO_ite | apply RO_pure | apply RO_fail)

theorem RO_intOp_cmp (F : Facts) (op : BinOp) (hop : (op == .mul) = false) (i : Int) (b : Val) : RO (intOp F op i b) := by
  unfold intOp
  split
  · repeat' (first | apply RO_ite | apply RO_pure | apply RO_fail | apply RO_goIntBin)
  · simp only [hop]; exact RO_fail _
  · simp only [hop]; exact RO_fail _
  · exact RO_fail _

theorem RO_strOp_cmp (op : BinOp) (hop : op = .lt ∨ op = .gt) (s : String) (b : Val) : RO (strOp op s b) := by
  unfold strOp
  rcases hop with rfl | rfl <;> (simp only []; repeat' (first | apply RO_ite | apply RO_pure | apply RO_fail))

theorem RO_cmp (F : Facts) : ∀ f : Nat,
    (∀ op a b, (op = .lt ∨ op = .gt) → RO (cmpOp F f op a b)) ∧ (∀ xs ys, RO (listLess F f xs ys)) := by
  intro f
  induction f with
  | zero => exact ⟨fun _ _ _ _ => by simp only [cmpOp]; exact RO_fail _, fun _ _ => by simp only [listLess]; exact RO_fail _⟩
  | succ f ih =>
    obtain ⟨ihc, ihl⟩ := ih
    constructor
    · intro op a b hop
      have hm : (op == .mul) = false := by rcases hop with rfl | rfl <;> rfl
      cases a <;> simp only [cmpOp]
      · exact RO_intOp_cmp F op hm _ _
      · exact RO_strOp_cmp op hop _ _
      all_goals (first | exact RO_fail _ | skip)
      · split
        · split
          · exact RO_bind (RO_elems _ _ _) fun xs => RO_bind (RO_elems _ _ _) fun ys => ihl xs ys
          · exact RO_fail _
        · exact RO_fail _
    · intro xs ys
      cases xs with
      | nil => simp only [listLess]; exact RO_pure _
      | cons x xs =>
        cases ys with
        | nil => simp only [listLess]; exact RO_pure _
        | cons y ys =>
          simp only [listLess]
          repeat' (first | apply RO_ite | apply RO_fail)
          exact RO_bind (ihc _ _ _ (Or.inl rfl)) fun r => by
            repeat' (first | apply RO_ite | apply RO_pure)
            exact RO_bind (ihc _ _ _ (Or.inl rfl)) fun r => by
              repeat' (first | apply RO_ite | apply RO_pure)
              exact ihl _ _

theorem RO_insertBy {α : Type} {less : α → α → EM Bool} (hl : ∀ a b, RO (less a b)) (x : α) : ∀ l, RO (insertBy less x l)
  | [] => by simp only [insertBy]; exact RO_pure _
  | y :: ys => by
    simp only [insertBy]
    exact RO_bind (hl x y) fun b => by
      cases b
      · simp only [Bool.false_eq_true, if_false]; exact RO_bind (RO_insertBy hl x ys) fun _ => RO_pure _
      · simp only [if_true]; exact RO_pure _

theorem RO_sortBy {α : Type} {less : α → α → EM Bool} (hl : ∀ a b, RO (less a b)) : ∀ l, RO (sortBy less l)
  | [] => by simp only [sortBy]; exact RO_pure _
  | x :: xs => by simp only [sortBy]; exact RO_bind (RO_sortBy hl xs) fun s => RO_insertBy hl x s

theorem RO_stableSort {α : Type} {less : α → α → EM Bool} (hl : ∀ a b, RO (less a b)) (l : List α) : RO (stableSort less l) := by
  unfold stableSort
  exact RO_sortBy hl _

/-- the sorting step of `sorted` never writes (it compares keys with `<` or `>` only) -/
theorem RO_sortCore (F' : Facts) (rev kf : Bool) (keyed : List (Val × Val)) : RO (sortCore F' rev kf keyed) := by
  unfold sortCore
  split
  · exact RO_fail _
  · have hop : (if (rev && !F'.sortedRevAfter) = true then BinOp.gt else BinOp.lt) = BinOp.lt ∨
        (if (rev && !F'.sortedRevAfter) = true then BinOp.gt else BinOp.lt) = BinOp.gt := by
      split
      · exact Or.inr rfl
      · exact Or.inl rfl
    exact RO_bind (RO_stableSort (fun a b => RO_bind ((RO_cmp F' 64).1 _ _ _ hop) fun _ => RO_pure _) keyed)
      fun _ => RO_pure _

theorem range_three : List.range 3 = [0, 1, 2] := by decide

theorem sorted_core (F' : Facts) (h : F'.sortedInPlace = false) (fz : Bool)
    (hfz : fz = false ∨ F'.frozenOK "sorted" = true) (a o l c : Nat) :
    callBuiltin F' "sorted" [(none, .list fz a o l c)] = (do
      let xs ← elems a o l
      let sorted ← sortCore F' false false (xs.map fun x => (x, x))
      mkList sorted) := by
  rcases hfz with rfl | hok
  · simp [callBuiltin, builtinSig, bindNative, bindNative.go, bindNative.fill, validate, hasTy, asListFor, h, range_three]
  · simp [callBuiltin, builtinSig, bindNative, bindNative.go, bindNative.fill, validate, hasTy, asListFor, h, range_three, hok]

theorem reversed_core (F' : Facts) (h : F'.reversedInPlace = false) (fz : Bool)
    (hfz : fz = false ∨ F'.frozenOK "reversed" = true) (a o l c : Nat) :
    callBuiltin F' "reversed" [(none, .list fz a o l c)] = (do
      let xs ← elems a o l
      mkList xs.reverse) := by
  rcases hfz with rfl | hok
  · simp [callBuiltin, builtinSig, bindNative, bindNative.go, bindNative.fill, validate, hasTy, asListFor, h]
  · simp [callBuiltin, builtinSig, bindNative, bindNative.go, bindNative.fill, validate, hasTy, asListFor, h, hok]

theorem mkList_run {vs : List Val} {st st' : St} {v : Val} (h : (mkList vs).run st = .ok (v, st')) :
    st' = { st with arrays := st.arrays ++ [vs] } ∧ v = .list false st.arrays.length 0 vs.length vs.length := by
  unfold mkList at h
  rw [run_bind_ok] at h
  obtain ⟨a, s1, h1, h2⟩ := h
  obtain ⟨ha, hs⟩ := allocArr_run h1
  rw [run_pure_ok] at h2
  cases h2; subst ha; exact ⟨hs, rfl⟩

/-- A `sorted` that copies: the heap after the call is the heap before plus one new array, and the result is that
    new array, with no spare capacity. -/
theorem sorted_copies (F' : Facts) (h : F'.sortedInPlace = false) (fz : Bool)
    (hfz : fz = false ∨ F'.frozenOK "sorted" = true) (a o l c : Nat) (st st' : St) (v : Val)
    (hr : (callBuiltin F' "sorted" [(none, .list fz a o l c)]).run st = .ok (v, st')) :
    ∃ ys, st' = { st with arrays := st.arrays ++ [ys] } ∧ v = .list false st.arrays.length 0 ys.length ys.length := by
  rw [sorted_core F' h fz hfz, run_bind_ok] at hr
  obtain ⟨xs, s1, h1, h2⟩ := hr
  have := (elems_run h1).1; subst this
  rw [run_bind_ok] at h2
  obtain ⟨ys, s2, h3, h4⟩ := h2
  have hro : RO (sortCore F' false false (xs.map fun x => (x, x))) := RO_sortCore F' false false _
  have := hro _ _ _ h3; subst this
  exact ⟨ys, mkList_run h4⟩

/-- A `reversed` that copies: one new array holding the visible elements in reverse order; nothing else changes. -/
theorem reversed_copies (F' : Facts) (h : F'.reversedInPlace = false) (fz : Bool)
    (hfz : fz = false ∨ F'.frozenOK "reversed" = true) (a o l c : Nat) (st st' : St) (v : Val)
    (hr : (callBuiltin F' "reversed" [(none, .list fz a o l c)]).run st = .ok (v, st')) :
    ∃ xs, st.arrays[a]? = some xs ∧
      st' = { st with arrays := st.arrays ++ [((xs.drop o).take l).reverse] } ∧
      v = .list false st.arrays.length 0 ((xs.drop o).take l).reverse.length ((xs.drop o).take l).reverse.length := by
  rw [reversed_core F' h fz hfz, run_bind_ok] at hr
  obtain ⟨ys, s1, h1, h2⟩ := hr
  obtain ⟨hs, xs, hx, hy⟩ := elems_run h1
  subst hs; subst hy
  exact ⟨xs, hx, mkList_run h2⟩

end PlzVerif.Asp
