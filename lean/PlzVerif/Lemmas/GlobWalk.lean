import PlzVerif.Lemmas.Glob
set_option linter.unusedSimpArgs false
/-! C21: what `walkDir` records, on path components (`pwT` / `pwF`), and that the string-level walk of the model is that. -/
namespace PlzVerif.Glob
open PlzVerif.Walk

/-- What the walk has recorded: entries (path below the package, symlink?) and sub-package directories. -/
structure PW where
  recs : List (List Name × Bool) := []
  subs : List (List Name) := []

def PW.app (a b : PW) : PW := ⟨a.recs ++ b.recs, a.subs ++ b.subs⟩

mutual
/-- The WalkDir callback on the entry `n` of the directory `q` (components below the package root), and below it. -/
def pwT (cfg : Cfg) (top : Bool) (q : List Name) (n : Name) : Tree → PW × Bool
  | .leaf k =>
    if cfg.buildNames.contains n && !q.isEmpty then (⟨[], [q]⟩, true)
    else if n == plzOut && top then (⟨[], []⟩, true)
    else (⟨[(q ++ [n], k != .file)], []⟩, false)
  | .dir cs =>
    if cfg.buildNames.contains n && !q.isEmpty then (⟨[], [q]⟩, false)
    else if n == plzOut && top then (⟨[], []⟩, false)
    else ((⟨[(q ++ [n], false)], []⟩ : PW).app (pwF cfg top (q ++ [n]) cs), false)
def pwF (cfg : Cfg) (top : Bool) (q : List Name) : Forest → PW
  | .nil => ⟨[], []⟩
  | .cons n t rest =>
    let r := pwT cfg top q n t
    if r.2 then r.1 else r.1.app (pwF cfg top q rest)
end

/-- The state of the string-level walk after recording `p` on top of `w`, for a package at `root`. -/
def Walked.plus (root : List Name) (w : Walked) (p : PW) : Walked :=
  { files := w.files ++ (p.recs.filter (!·.2)).map (fun e => nameOf (root ++ e.1))
    symlinks := w.symlinks ++ (p.recs.filter (·.2)).map (fun e => nameOf (root ++ e.1))
    subPackages := w.subPackages ++ p.subs.map (fun d => nameOf (root ++ d)) }

theorem Walked.plus_nil (root : List Name) (w : Walked) : w.plus root ⟨[], []⟩ = w := by
  simp [Walked.plus]

theorem Walked.plus_app (root : List Name) (w : Walked) (a b : PW) :
    (w.plus root a).plus root b = w.plus root (a.app b) := by
  simp [Walked.plus, PW.app, List.filter_append, List.map_append, List.append_assoc]

theorem nameOf_eq_iff (a b : List Name) (ga : gpath a = true) (gb : gpath b = true) : nameOf a = nameOf b ↔ a = b := by
  constructor
  · intro h
    cases a with
    | nil =>
      cases b with
      | nil => rfl
      | cons c cs =>
        exfalso
        have := joinSlash_ne_dot (c :: cs) (by simp) (gpath_good gb)
        simp [nameOf] at h; exact this h.symm
    | cons a as =>
      cases b with
      | nil =>
        exfalso
        have := joinSlash_ne_dot (a :: as) (by simp) (gpath_good ga)
        simp [nameOf] at h; exact this h
      | cons c cs =>
        simp only [nameOf, List.isEmpty_cons, Bool.false_eq_true, if_false] at h
        exact joinSlash_inj _ _ ga gb h
  · intro h; rw [h]


mutual
/-- Every entry name in the tree is a good C21 name. -/
def Tree.gok : Tree → Bool
  | .leaf _ => true
  | .dir cs => Forest.gok cs
def Forest.gok : Forest → Bool
  | .nil => true
  | .cons n t rest => gname n && Tree.gok t && Forest.gok rest
end

theorem gpath_snoc {p : List Name} {n : Name} (g : gpath p = true) (gn : gname n = true) : gpath (p ++ [n]) = true := by
  simp only [gpath, List.all_append, List.all_cons, List.all_nil, Bool.and_true, Bool.and_eq_true] at *; exact ⟨g, gn⟩

theorem parent_ne_root (root q : List Name) (g : gpath (root ++ q) = true) :
    (nameOf (root ++ q) != nameOf root) = !q.isEmpty := by
  have gr : gpath root = true := by
    simp only [gpath, List.all_append, Bool.and_eq_true] at g; exact g.1
  cases q with
  | nil => simp
  | cons c cs =>
    have : nameOf (root ++ c :: cs) ≠ nameOf root := by
      intro h
      have := (nameOf_eq_iff _ _ g gr).mp h
      have := congrArg List.length this
      simp at this
    simp [this]

theorem root_is_dot (root : List Name) (g : gpath root = true) : (nameOf root == ['.']) = root.isEmpty :=
  nameOf_ne_dot root (gpath_good g)

/-- Facts the walk reads: only the plz-out literal matters here. -/
def walkFactsOK (F : Facts) : Prop := F.outDir = plzOut

mutual
theorem walkT_pw (F : Facts) (hF : walkFactsOK F) (cfg : Cfg) (root : List Name) :
    ∀ (t : Tree) (n : Name) (q : List Name) (w : Walked), gpath (root ++ q) = true → gname n = true → Tree.gok t = true →
      walkT F cfg (nameOf root) (join (nameOf (root ++ q)) n) (nameOf (root ++ q)) n t w =
        (w.plus root (pwT cfg root.isEmpty q n t).1, (pwT cfg root.isEmpty q n t).2)
  | .leaf k, n, q, w, g, gn, _ => by
    have gr : gpath root = true := by
      simp only [gpath, List.all_append, Bool.and_eq_true] at g; exact g.1
    have hj : join (nameOf (root ++ q)) n = nameOf (root ++ (q ++ [n])) := by
      rw [← List.append_assoc]; exact (nameOf_snoc _ n (gpath_good g)).symm
    have hF' : F.outDir = plzOut := hF
    simp only [walkT, visit, pwT, parent_ne_root root q g, hF', root_is_dot root gr, hj]
    cases h1 : (cfg.buildNames.contains n && !q.isEmpty)
    · simp only [Bool.false_eq_true, if_false]
      cases h2 : (n == plzOut && root.isEmpty)
      · simp only [Bool.false_eq_true, if_false]
        cases k <;> simp [Walked.plus]
      · simp [Walked.plus]
    · simp [Walked.plus]
  | .dir cs, n, q, w, g, gn, gt => by
    have gr : gpath root = true := by
      simp only [gpath, List.all_append, Bool.and_eq_true] at g; exact g.1
    have hj : join (nameOf (root ++ q)) n = nameOf (root ++ (q ++ [n])) := by
      rw [← List.append_assoc]; exact (nameOf_snoc _ n (gpath_good g)).symm
    have g' : gpath (root ++ (q ++ [n])) = true := by
      rw [← List.append_assoc]; exact gpath_snoc g gn
    have hF' : F.outDir = plzOut := hF
    simp only [walkT, visit, pwT, parent_ne_root root q g, hF', root_is_dot root gr, hj]
    cases h1 : (cfg.buildNames.contains n && !q.isEmpty)
    · simp only [Bool.false_eq_true, if_false]
      cases h2 : (n == plzOut && root.isEmpty)
      · simp only [Bool.false_eq_true, if_false]
        rw [walkFo_pw F hF cfg root cs (q ++ [n]) _ g' (by simpa [Tree.gok] using gt)]
        have e : Walked.mk (w.files ++ [nameOf (root ++ (q ++ [n]))]) w.symlinks w.subPackages
            = w.plus root ⟨[(q ++ [n], false)], []⟩ := by
          simp [Walked.plus]
        rw [e, Walked.plus_app]
      · simp [Walked.plus]
    · simp [Walked.plus]
theorem walkFo_pw (F : Facts) (hF : walkFactsOK F) (cfg : Cfg) (root : List Name) :
    ∀ (cs : Forest) (q : List Name) (w : Walked), gpath (root ++ q) = true → Forest.gok cs = true →
      walkFo F cfg (nameOf root) (nameOf (root ++ q)) cs w = w.plus root (pwF cfg root.isEmpty q cs)
  | .nil, q, w, _, _ => by simp [walkFo, pwF, Walked.plus_nil]
  | .cons n t rest, q, w, g, gc => by
    simp only [Forest.gok, Bool.and_eq_true] at gc
    simp only [walkFo, pwF, walkT_pw F hF cfg root t n q w g gc.1.1 gc.1.2]
    split
    · rfl
    · rw [walkFo_pw F hF cfg root rest q _ g gc.2, Walked.plus_app]
end


/-! ### the recorded entries against the package's owned, visible entries (on components) -/

def fnames : Forest → List Name
  | .nil => []
  | .cons n _ rest => n :: fnames rest

/-- Some recorded sub-package directory is a leading run of `e`'s components (`isInDirectories` on components). -/
def covered (T : List (List Name)) (e : List Name) : Bool := T.any (·.isPrefixOf e)

theorem covered_append (a b : List (List Name)) (e : List Name) : covered (a ++ b) e = (covered a e || covered b e) := by
  simp [covered, List.any_append]

theorem covered_false_iff (T : List (List Name)) (e : List Name) : covered T e = false ↔ ∀ s ∈ T, ¬ s <+: e := by
  simp [covered, List.isPrefixOf_iff_prefix]

mutual
/-- What one entry `n` of the directory `rel` contributes to the package's owned, visible entries:
    (path below the package, symlink?). -/
def ownEntry (cfg : Cfg) (hidden top : Bool) (rel : List Name) (n : Name) : Tree → List (List Name × Bool)
  | .leaf k =>
    if (!hidden && hiddenComp n) || (top && rel.isEmpty && n == plzOut) then [] else [(rel ++ [n], k != .file)]
  | .dir cs =>
    if (!hidden && hiddenComp n) || (top && rel.isEmpty && n == plzOut) then []
    else if hasBuild cfg cs then [] else (rel ++ [n], false) :: ownFo cfg hidden top (rel ++ [n]) cs
/-- The entries of a package that belong to it and are visible. -/
def ownFo (cfg : Cfg) (hidden top : Bool) (rel : List Name) : Forest → List (List Name × Bool)
  | .nil => []
  | .cons n t rest => ownEntry cfg hidden top rel n t ++ ownFo cfg hidden top rel rest
end

mutual
/-- The benign condition on one entry of a directory (`atRoot`: the directory is the package root). -/
def benEntry (cfg : Cfg) (hidden top : Bool) (atRoot : Bool) (n : Name) : Tree → Bool
  | .leaf _ => !(top && n == plzOut)
  | .dir cs => !cfg.buildNames.contains n && (hidden || !hiddenComp n) && (!(top && n == plzOut) || atRoot) &&
      benF cfg hidden top false cs
/-- Where neither `plz-out-name-any-depth` nor `hidden-dir-contents` can bite, and the tree is a sane file system:
    sibling names are distinct; in the root package nothing but a top-level directory is named plz-out; without
    `hidden` no directory has a hidden name; no directory is named like a BUILD file. -/
def benF (cfg : Cfg) (hidden top : Bool) (atRoot : Bool) : Forest → Bool
  | .nil => true
  | .cons n t rest =>
    !(fnames rest).contains n && benEntry cfg hidden top atRoot n t && benF cfg hidden top atRoot rest
end

mutual
theorem pwT_subs_shape (cfg : Cfg) (top : Bool) : ∀ (t : Tree) (n : Name) (q : List Name) (s : List Name),
    s ∈ (pwT cfg top q n t).1.subs → (s = q ∧ q ≠ [] ∧ cfg.buildNames.contains n = true) ∨ (q ++ [n]) <+: s
  | .leaf k, n, q, s, h => by
    simp only [pwT] at h
    split at h
    · rename_i hc
      simp only [Bool.and_eq_true, Bool.not_eq_true', List.isEmpty_eq_false_iff] at hc
      simp only [List.mem_singleton] at h
      exact Or.inl ⟨h, hc.2, hc.1⟩
    · split at h <;> simp at h
  | .dir cs, n, q, s, h => by
    simp only [pwT] at h
    split at h
    · rename_i hc
      simp only [Bool.and_eq_true, Bool.not_eq_true', List.isEmpty_eq_false_iff] at hc
      simp only [List.mem_singleton] at h
      exact Or.inl ⟨h, hc.2, hc.1⟩
    · split at h
      · simp at h
      · simp only [PW.app, List.nil_append] at h
        rcases pwF_subs_shape cfg top cs (q ++ [n]) s h with ⟨e, _⟩ | ⟨m, _, hm⟩
        · right; rw [e]; exact List.prefix_refl _
        · right; exact (List.prefix_append _ _).trans hm
theorem pwF_subs_shape (cfg : Cfg) (top : Bool) : ∀ (cs : Forest) (q : List Name) (s : List Name),
    s ∈ (pwF cfg top q cs).subs → (s = q ∧ q ≠ [] ∧ hasBuild cfg cs = true) ∨ ∃ m ∈ fnames cs, (q ++ [m]) <+: s
  | .nil, _, _, h => by simp [pwF] at h
  | .cons n t rest, q, s, h => by
    simp only [pwF] at h
    have hd : s ∈ (pwT cfg top q n t).1.subs → (s = q ∧ q ≠ [] ∧ hasBuild cfg (.cons n t rest) = true) ∨
        ∃ m ∈ fnames (.cons n t rest), (q ++ [m]) <+: s := by
      intro h'
      rcases pwT_subs_shape cfg top t n q s h' with ⟨e, hq, hb⟩ | hp
      · exact Or.inl ⟨e, hq, by simp only [hasBuild, hb, Bool.true_or]⟩
      · exact Or.inr ⟨n, by simp [fnames], hp⟩
    split at h
    · exact hd h
    · simp only [PW.app, List.mem_append] at h
      rcases h with h | h
      · exact hd h
      · rcases pwF_subs_shape cfg top rest q s h with ⟨e, hq, hb⟩ | ⟨m, hm, hp⟩
        · exact Or.inl ⟨e, hq, by simp only [hasBuild, hb, Bool.or_true]⟩
        · exact Or.inr ⟨m, by simp [fnames, hm], hp⟩
end

mutual
theorem pwT_recs_shape (cfg : Cfg) (top : Bool) : ∀ (t : Tree) (n : Name) (q : List Name) (e : List Name) (l : Bool),
    (e, l) ∈ (pwT cfg top q n t).1.recs → ∃ x, e = q ++ n :: x
  | .leaf k, n, q, e, l, h => by
    simp only [pwT] at h
    split at h
    · simp at h
    · split at h
      · simp at h
      · simp only [List.mem_singleton, Prod.mk.injEq] at h; exact ⟨[], by simp [h.1]⟩
  | .dir cs, n, q, e, l, h => by
    simp only [pwT] at h
    split at h
    · simp at h
    · split at h
      · simp at h
      · simp only [PW.app, List.cons_append, List.nil_append, List.mem_cons, Prod.mk.injEq] at h
        rcases h with h | h
        · exact ⟨[], by simp [h.1]⟩
        · obtain ⟨m, _, x, hx⟩ := pwF_recs_shape cfg top cs (q ++ [n]) e l h
          exact ⟨m :: x, by simp [hx]⟩
theorem pwF_recs_shape (cfg : Cfg) (top : Bool) : ∀ (cs : Forest) (q : List Name) (e : List Name) (l : Bool),
    (e, l) ∈ (pwF cfg top q cs).recs → ∃ m ∈ fnames cs, ∃ x, e = q ++ m :: x
  | .nil, _, _, _, h => by simp [pwF] at h
  | .cons n t rest, q, e, l, h => by
    simp only [pwF] at h
    have hd : (e, l) ∈ (pwT cfg top q n t).1.recs → ∃ m ∈ fnames (.cons n t rest), ∃ x, e = q ++ m :: x := by
      intro h'; obtain ⟨x, hx⟩ := pwT_recs_shape cfg top t n q e l h'; exact ⟨n, by simp [fnames], x, hx⟩
    split at h
    · exact hd h
    · simp only [PW.app, List.mem_append] at h
      rcases h with h | h
      · exact hd h
      · obtain ⟨m, hm, x, hx⟩ := pwF_recs_shape cfg top rest q e l h
        exact ⟨m, by simp [fnames, hm], x, hx⟩
end


theorem prefix_head_eq {q : List Name} {m n : Name} {x : List Name} (h : (q ++ [m]) <+: (q ++ n :: x)) : m = n := by
  have := (List.prefix_append_right_inj q).mp h
  simp only [List.cons_prefix_cons] at this
  exact this.1

theorem not_prefix_longer {a b : List Name} {m : Name} (h1 : (a ++ [m]) <+: b) : ¬ b <+: a := by
  intro h2
  have l1 := h1.length_le
  have l2 := h2.length_le
  simp at l1; omega

theorem benF_cons (cfg : Cfg) (hidden top atRoot : Bool) (n : Name) (t : Tree) (rest : Forest) :
    benF cfg hidden top atRoot (.cons n t rest) =
      (!(fnames rest).contains n && benEntry cfg hidden top atRoot n t && benF cfg hidden top atRoot rest) := by
  simp only [benF]

theorem ownFo_cons (cfg : Cfg) (hidden top : Bool) (q : List Name) (n : Name) (t : Tree) (rest : Forest) :
    ownFo cfg hidden top q (.cons n t rest) = ownEntry cfg hidden top q n t ++ ownFo cfg hidden top q rest := by
  simp only [ownFo]

/-- A directory below the package root with a BUILD-named entry is recorded as a sub-package. -/
theorem pwF_covers (cfg : Cfg) (hidden top : Bool) : ∀ (cs : Forest) (q : List Name), q ≠ [] →
    hasBuild cfg cs = true → benF cfg hidden top false cs = true → q ∈ (pwF cfg top q cs).subs
  | .nil, _, _, hb, _ => by simp [hasBuild] at hb
  | .cons n t rest, q, hq, hb, ben => by
    rw [benF_cons] at ben
    simp only [Bool.and_eq_true] at ben
    obtain ⟨⟨_, hbe⟩, hbr⟩ := ben
    have hqe : q.isEmpty = false := by cases q <;> simp_all
    cases hn : cfg.buildNames.contains n with
    | true =>
      cases t with
      | dir cs => simp only [benEntry, hn, Bool.not_true, Bool.false_and] at hbe; cases hbe
      | leaf k => simp only [pwF, pwT, hn, hqe, Bool.not_false, Bool.and_self, if_true, List.mem_singleton]
    | false =>
      have hr : hasBuild cfg rest = true := by simp only [hasBuild, hn, Bool.false_or] at hb; exact hb
      have ih := pwF_covers cfg hidden top rest q hq hr hbr
      cases t with
      | dir cs =>
        cases c2 : (n == plzOut && top) <;>
          simp only [pwF, pwT, hn, c2, Bool.false_and, Bool.false_eq_true, if_false, if_true, PW.app, List.mem_append,
            ih, or_true]
      | leaf k =>
        have c2 : (n == plzOut && top) = false := by
          simp only [benEntry, Bool.not_eq_true'] at hbe; rw [Bool.and_comm]; exact hbe
        simp only [pwF, pwT, hn, c2, Bool.false_and, Bool.false_eq_true, if_false, PW.app, List.mem_append, ih, or_true]

def visOK (hidden : Bool) (e : List Name) : Bool := hidden || !hiddenComp (lastOr e)

mutual
theorem pwT_own (cfg : Cfg) (hidden top : Bool) : ∀ (t : Tree) (n : Name) (q : List Name) (A B : List (List Name)),
    benEntry cfg hidden top q.isEmpty n t = true → (q = [] ∨ cfg.buildNames.contains n = false) →
    (∀ s ∈ A ++ B, ∀ x, ¬ s <+: (q ++ n :: x)) →
    (pwT cfg top q n t).2 = false ∧ ∀ e l,
      ((e, l) ∈ (pwT cfg top q n t).1.recs ∧ covered (A ++ (pwT cfg top q n t).1.subs ++ B) e = false ∧ visOK hidden e = true)
        ↔ (e, l) ∈ ownEntry cfg hidden top q n t
  | .leaf k, n, q, A, B, ben, hown, hctx => by
    have c1 : (cfg.buildNames.contains n && !q.isEmpty) = false := by
      rcases hown with h | h
      · simp [h]
      · rw [h]; rfl
    have c2 : (n == plzOut && top) = false := by
      simp only [benEntry, Bool.not_eq_true'] at ben; rw [Bool.and_comm]; exact ben
    have c2' : (top && q.isEmpty && n == plzOut) = false := by
      cases top <;> simp_all
    simp only [pwT, c1, c2, Bool.false_eq_true, if_false, true_and, List.mem_singleton, Prod.mk.injEq, List.append_nil]
    intro e l
    simp only [ownEntry, c2', Bool.or_false, visOK]
    constructor
    · rintro ⟨⟨rfl, rfl⟩, _, hv⟩
      rw [lastOr_snoc] at hv
      cases hidden <;> simp_all
    · intro h
      cases hh : (!hidden && hiddenComp n) with
      | true => simp [hh] at h
      | false =>
        simp only [hh, Bool.false_eq_true, if_false, List.mem_singleton, Prod.mk.injEq] at h
        refine ⟨h, ?_, ?_⟩
        · rw [h.1, covered_false_iff]
          intro s hs; have := hctx s hs []; simpa using this
        · rw [h.1, lastOr_snoc]; cases hidden <;> simp_all
  | .dir cs, n, q, A, B, ben, hown, hctx => by
    simp only [benEntry, Bool.and_eq_true, Bool.not_eq_true', Bool.or_eq_true] at ben
    obtain ⟨⟨⟨hnb, hvis⟩, hplz⟩, hbc⟩ := ben
    have c1 : (cfg.buildNames.contains n && !q.isEmpty) = false := by rw [hnb]; rfl
    have hh : (!hidden && hiddenComp n) = false := by cases hidden <;> simp_all
    simp only [pwT, c1, Bool.false_eq_true, if_false]
    cases c2 : (n == plzOut && top) with
    | true =>
      have hq : q.isEmpty = true := by
        rcases hplz with h | h
        · simp only [Bool.and_eq_true] at c2; rw [Bool.and_comm] at h; simp [c2.1, c2.2] at h
        · exact h
      have c2' : (top && q.isEmpty && n == plzOut) = true := by
        simp only [Bool.and_eq_true] at c2 ⊢; exact ⟨⟨c2.2, hq⟩, c2.1⟩
      simp [ownEntry, c2']
    | false =>
      have c2' : (top && q.isEmpty && n == plzOut) = false := by
        cases top <;> cases h : (n == plzOut) <;> simp_all
      simp only [Bool.false_eq_true, if_false, true_and, PW.app, List.nil_append, List.cons_append]
      intro e l
      simp only [ownEntry, hh, c2', Bool.or_false, Bool.false_eq_true, if_false]
      have hne : q ++ [n] ≠ [] := by simp
      cases hb : hasBuild cfg cs with
      | true =>
        have hcov := pwF_covers cfg hidden top cs (q ++ [n]) hne hb hbc
        simp only [if_true, List.not_mem_nil, iff_false, not_and]
        intro hmem hc
        exfalso
        have hpre : (q ++ [n]) <+: e := by
          simp only [List.mem_cons, Prod.mk.injEq] at hmem
          rcases hmem with h | h
          · rw [h.1]; exact List.prefix_refl _
          · obtain ⟨m, _, x, hx⟩ := pwF_recs_shape cfg top cs (q ++ [n]) e l h
            rw [hx]; exact List.prefix_append _ _
        rw [covered_false_iff] at hc
        exact hc (q ++ [n]) (by simp [hcov]) hpre
      | false =>
        simp only [Bool.false_eq_true, if_false, List.mem_cons, Prod.mk.injEq]
        have hqn : (q ++ [n]).isEmpty = false := by simp
        have ih := pwF_own cfg hidden top cs (q ++ [n]) A B (by rw [hqn]; exact hbc) (Or.inr hb)
          (fun s hs m _ x => by have := hctx s hs (m :: x); simpa using this) e l
        constructor
        · rintro ⟨h | h, hc, hv⟩
          · exact Or.inl h
          · exact Or.inr (ih.mp ⟨h, hc, hv⟩)
        · rintro (h | h)
          · refine ⟨Or.inl h, ?_, ?_⟩
            · rw [h.1, covered_false_iff]
              intro s hs
              simp only [List.mem_append] at hs
              rcases hs with (hs | hs) | hs
              · have := hctx s (by simp [hs]) []; simpa using this
              · rcases pwF_subs_shape cfg top cs (q ++ [n]) s hs with ⟨_, _, hb'⟩ | ⟨m, _, hm⟩
                · rw [hb] at hb'; cases hb'
                · exact not_prefix_longer hm
              · have := hctx s (by simp [hs]) []; simpa using this
            · rw [h.1]; simp only [visOK, lastOr_snoc]; cases hidden <;> simp_all
          · have := ih.mpr h
            exact ⟨Or.inr this.1, this.2.1, this.2.2⟩
theorem pwF_own (cfg : Cfg) (hidden top : Bool) : ∀ (cs : Forest) (q : List Name) (A B : List (List Name)),
    benF cfg hidden top q.isEmpty cs = true → (q = [] ∨ hasBuild cfg cs = false) →
    (∀ s ∈ A ++ B, ∀ m ∈ fnames cs, ∀ x, ¬ s <+: (q ++ m :: x)) →
    ∀ e l,
      ((e, l) ∈ (pwF cfg top q cs).recs ∧ covered (A ++ (pwF cfg top q cs).subs ++ B) e = false ∧ visOK hidden e = true)
        ↔ (e, l) ∈ ownFo cfg hidden top q cs
  | .nil, _, _, _, _, _, _, e, l => by simp [pwF, ownFo]
  | .cons n t rest, q, A, B, ben, hown, hctx, e, l => by
    rw [benF_cons] at ben
    simp only [Bool.and_eq_true, Bool.not_eq_true', List.contains_eq_mem, decide_eq_false_iff_not] at ben
    obtain ⟨⟨hnodup, hbe⟩, hbr⟩ := ben
    have hownE : q = [] ∨ cfg.buildNames.contains n = false := by
      rcases hown with h | h
      · exact Or.inl h
      · right; simp only [hasBuild, Bool.or_eq_false_iff] at h; exact h.1
    have hownR : q = [] ∨ hasBuild cfg rest = false := by
      rcases hown with h | h
      · exact Or.inl h
      · right; simp only [hasBuild, Bool.or_eq_false_iff] at h; exact h.2
    -- sub-packages recorded in the rest never cover anything below the entry `n`, and vice versa
    have restSubs : ∀ s ∈ (pwF cfg top q rest).subs, ∀ x, ¬ s <+: (q ++ n :: x) := by
      intro s hs x hp
      rcases pwF_subs_shape cfg top rest q s hs with ⟨_, hq, hb⟩ | ⟨m, hm, hpm⟩
      · rcases hownR with h | h
        · exact hq h
        · rw [h] at hb; cases hb
      · exact hnodup (prefix_head_eq (hpm.trans hp) ▸ hm)
    have headSubs : ∀ s ∈ (pwT cfg top q n t).1.subs, ∀ m ∈ fnames rest, ∀ x, ¬ s <+: (q ++ m :: x) := by
      intro s hs m hm x hp
      rcases pwT_subs_shape cfg top t n q s hs with ⟨_, hq, hb⟩ | hpn
      · rcases hownE with h | h
        · exact hq h
        · rw [h] at hb; cases hb
      · exact hnodup ((prefix_head_eq (hpn.trans hp)).symm ▸ hm)
    have hT := pwT_own cfg hidden top t n q A ((pwF cfg top q rest).subs ++ B) hbe hownE (by
      intro s hs x
      simp only [List.mem_append] at hs
      rcases hs with hs | hs | hs
      · exact hctx s (by simp [hs]) n (by simp [fnames]) x
      · exact restSubs s hs x
      · exact hctx s (by simp [hs]) n (by simp [fnames]) x)
    have ih := pwF_own cfg hidden top rest q (A ++ (pwT cfg top q n t).1.subs) B hbr hownR (by
      intro s hs m hm x
      simp only [List.mem_append] at hs
      rcases hs with (hs | hs) | hs
      · exact hctx s (by simp [hs]) m (by simp [fnames, hm]) x
      · exact headSubs s hs m hm x
      · exact hctx s (by simp [hs]) m (by simp [fnames, hm]) x) e l
    simp only [pwF, hT.1, Bool.false_eq_true, if_false, PW.app, List.mem_append, ownFo_cons]
    have e1 : covered (A ++ ((pwT cfg top q n t).1.subs ++ (pwF cfg top q rest).subs) ++ B) e =
        covered (A ++ (pwT cfg top q n t).1.subs ++ ((pwF cfg top q rest).subs ++ B)) e := by
      simp only [List.append_assoc]
    have e2 : covered (A ++ ((pwT cfg top q n t).1.subs ++ (pwF cfg top q rest).subs) ++ B) e =
        covered (A ++ (pwT cfg top q n t).1.subs ++ (pwF cfg top q rest).subs ++ B) e := by
      simp only [List.append_assoc]
    constructor
    · rintro ⟨h | h, hc, hv⟩
      · exact Or.inl ((hT.2 e l).mp ⟨h, by rw [← e1]; exact hc, hv⟩)
      · exact Or.inr (ih.mp ⟨h, by rw [← e2]; exact hc, hv⟩)
    · rintro (h | h)
      · have := (hT.2 e l).mpr h
        exact ⟨Or.inl this.1, by rw [e1]; exact this.2.1, this.2.2⟩
      · have := ih.mpr h
        exact ⟨Or.inr this.1, by rw [e2]; exact this.2.1, this.2.2⟩
end


/-! ### back to strings -/

mutual
theorem pwT_gpath (cfg : Cfg) (top : Bool) : ∀ (t : Tree) (n : Name) (q : List Name), gpath q = true → gname n = true →
    Tree.gok t = true →
    (∀ e l, (e, l) ∈ (pwT cfg top q n t).1.recs → gpath e = true) ∧ (∀ d ∈ (pwT cfg top q n t).1.subs, gpath d = true)
  | .leaf k, n, q, g, gn, _ => by
    simp only [pwT]
    split
    · simp [g]
    · split
      · simp
      · simp only [List.mem_singleton, Prod.mk.injEq, List.not_mem_nil, false_imp_iff, implies_true, and_true]
        intro e l h; rw [h.1]; exact gpath_snoc g gn
  | .dir cs, n, q, g, gn, gt => by
    simp only [pwT]
    split
    · simp [g]
    · split
      · simp
      · have ih := pwF_gpath cfg top cs (q ++ [n]) (gpath_snoc g gn) (by simpa [Tree.gok] using gt)
        simp only [PW.app, List.cons_append, List.nil_append, List.mem_cons, Prod.mk.injEq]
        refine ⟨?_, ih.2⟩
        rintro e l (h | h)
        · rw [h.1]; exact gpath_snoc g gn
        · exact ih.1 e l h
theorem pwF_gpath (cfg : Cfg) (top : Bool) : ∀ (cs : Forest) (q : List Name), gpath q = true → Forest.gok cs = true →
    (∀ e l, (e, l) ∈ (pwF cfg top q cs).recs → gpath e = true) ∧ (∀ d ∈ (pwF cfg top q cs).subs, gpath d = true)
  | .nil, _, _, _ => by simp [pwF]
  | .cons n t rest, q, g, gc => by
    simp only [Forest.gok, Bool.and_eq_true] at gc
    have h1 := pwT_gpath cfg top t n q g gc.1.1 gc.1.2
    have h2 := pwF_gpath cfg top rest q g gc.2
    simp only [pwF]
    split
    · exact h1
    · simp only [PW.app, List.mem_append]
      exact ⟨fun e l h => h.elim (h1.1 e l) (h2.1 e l), fun d h => h.elim (h1.2 d) (h2.2 d)⟩
end

/-- `isInDirectories` on the recorded strings = `covered` on components. -/
theorem isInDirectories_covered (root : List Name) (gr : gpath root = true) (e : List Name) (ge : gpath e = true)
    (he : e ≠ []) : ∀ (T : List (List Name)), (∀ d ∈ T, gpath d = true ∧ d ≠ []) →
    isInDirectories (nameOf (root ++ e)) (T.map fun d => nameOf (root ++ d)) = covered T e
  | [], _ => by simp [isInDirectories, covered]
  | d :: T, h => by
    have hd := h d (by simp)
    have ih := isInDirectories_covered root gr e ge he T (fun x hx => h x (by simp [hx]))
    have h1 : root ++ e ≠ [] := by simp [he]
    have h2 : root ++ d ≠ [] := by simp [hd.2]
    have n1 : nameOf (root ++ e) = joinSlash (root ++ e) := by
      cases hx : root ++ e with
      | nil => exact absurd hx h1
      | cons a b => simp [nameOf]
    have n2 : nameOf (root ++ d) = joinSlash (root ++ d) := by
      cases hx : root ++ d with
      | nil => exact absurd hx h2
      | cons a b => simp [nameOf]
    have one := inDirs_componentwise (root ++ d) (root ++ e) (gpath_append gr hd.1) (gpath_append gr ge) h2 h1
    simp only [isInDirectories, List.any_cons, List.any_nil, Bool.or_false] at one
    simp only [isInDirectories, List.map_cons, List.any_cons, covered] at ih ⊢
    rw [ih, n1, n2, one]
    congr 1
    rw [Bool.eq_iff_iff, List.isPrefixOf_iff_prefix, List.isPrefixOf_iff_prefix, List.prefix_append_right_inj]


/-- The literals the walk and the hidden test read. -/
def walkFactsOK' (F : Facts) : Prop := F.outDir = plzOut ∧ F.hiddenPrefix = ['.'] ∧ F.hiddenWrap = ['#']

theorem single_isPrefixOf (x : Char) : ∀ (c : Name), [x].isPrefixOf c = (match c with | y :: _ => x == y | [] => false)
  | [] => rfl
  | y :: r => by simp [List.isPrefixOf]

theorem isHidden_eq (F : Facts) (hF : walkFactsOK' F) (p : List Name) (g : gpath p = true) :
    isHidden F (nameOf p) = hiddenComp (lastOr p) := by
  obtain ⟨_, h1, h2⟩ := hF
  simp only [isHidden, h1, h2, base_nameOf p (gpath_good g), List.reverse_singleton, single_isPrefixOf, hiddenComp]
  cases hc : lastOr p with
  | nil => simp
  | cons y r =>
    have e1 : ('.' == y) = (match y :: r with | '.' :: _ => true | _ => false) := by
      by_cases h : y = '.'
      · subst h; rfl
      · have : ('.' == y) = false := by simpa using fun e => h e.symm
        rw [this]; split
        · rename_i e; injection e with e1 _; exact absurd e1 h
        · rfl
    have e2 : ('#' == y) = (match y :: r with | '#' :: _ => true | _ => false) := by
      by_cases h : y = '#'
      · subst h; rfl
      · have : ('#' == y) = false := by simpa using fun e => h e.symm
        rw [this]; split
        · rename_i e; injection e with e1 _; exact absurd e1 h
        · rfl
    dsimp only
    rw [e1, e2]
    generalize (y :: r).reverse = rv
    cases rv with
    | nil => rfl
    | cons z t =>
      have e3 : ('#' == z) = (match z :: t with | '#' :: _ => true | _ => false) := by
        by_cases h : z = '#'
        · subst h; rfl
        · have : ('#' == z) = false := by simpa using fun e => h e.symm
          rw [this]; split
          · rename_i e; injection e with e1 _; exact absurd e1 h
          · rfl
      dsimp only
      rw [e3]
      rfl

theorem lastOr_append (root e : List Name) (he : e ≠ []) : lastOr (root ++ e) = lastOr e := by
  simp [lastOr, List.getLast?_append, List.getLast?_eq_none_iff, he]
  cases h : e.getLast? with
  | none => simp [List.getLast?_eq_none_iff] at h; exact absurd h he
  | some x => simp

/-- **What the walk leaves as candidates, exactly.**  For a package at `root` whose (sorted) listing `cs` is benign,
    a walked name other than the package directory itself survives the sub-package and hidden filters iff it is the
    path of an owned, visible entry of the package -- recorded among the symlinks iff it is one. -/
theorem walk_candidates (F : Facts) (hF : walkFactsOK' F) (cfg : Cfg) (hidden : Bool) (root : List Name) (cs : Forest)
    (gr : gpath root = true) (gok : Forest.gok cs.sort = true)
    (ben : benF cfg hidden root.isEmpty true cs.sort = true)
    (hroot : cfg.buildNames.contains (lastOr root) = false) (m : Name) (l : Bool) (hm : m ≠ nameOf root) :
    ((m ∈ (if l then (walkDir F cfg root (.dir cs)).symlinks else (walkDir F cfg root (.dir cs)).files)) ∧
      isInDirectories m (walkDir F cfg root (.dir cs)).subPackages = false ∧ (hidden = true ∨ isHidden F m = false))
    ↔ ∃ e, (e, l) ∈ ownFo cfg hidden root.isEmpty [] cs.sort ∧ m = nameOf (root ++ e) := by
  have hFo : walkFactsOK F := hF.1
  have hout : F.outDir = plzOut := hF.1
  -- the walk = root entry + pure walk of the children
  have hw : walkDir F cfg root (.dir cs) =
      (Walked.mk [nameOf root] [] []).plus root (pwF cfg root.isEmpty [] cs.sort) := by
    have c2 : (lastOr root == plzOut && nameOf root == ['.']) = false := by
      rw [root_is_dot root gr]
      cases root with
      | nil => decide
      | cons a r => simp
    simp only [walkDir, Tree.sort, walkT, visit, hroot, Bool.false_and, Bool.false_eq_true, if_false, hout, c2]
    have := walkFo_pw F hFo cfg root cs.sort [] (Walked.mk [nameOf root] [] []) (by simpa using gr) gok
    simp only [List.append_nil] at this
    exact this
  rw [hw]
  have gsh := pwF_gpath cfg root.isEmpty cs.sort [] (by simp [gpath]) gok
  have subsNe : ∀ d ∈ (pwF cfg root.isEmpty [] cs.sort).subs, gpath d = true ∧ d ≠ [] := by
    intro d hd
    refine ⟨gsh.2 d hd, ?_⟩
    rcases pwF_subs_shape cfg root.isEmpty cs.sort [] d hd with ⟨_, h, _⟩ | ⟨x, _, hx⟩
    · exact absurd rfl h
    · intro e; subst e; simpa using hx.length_le
  have key : ∀ e l', (e, l') ∈ (pwF cfg root.isEmpty [] cs.sort).recs →
      e ≠ [] ∧ gpath e = true ∧
      isInDirectories (nameOf (root ++ e)) ((pwF cfg root.isEmpty [] cs.sort).subs.map fun d => nameOf (root ++ d))
        = covered (pwF cfg root.isEmpty [] cs.sort).subs e ∧
      isHidden F (nameOf (root ++ e)) = hiddenComp (lastOr e) := by
    intro e l' he
    have hne : e ≠ [] := by
      obtain ⟨x, _, y, hy⟩ := pwF_recs_shape cfg root.isEmpty cs.sort [] e l' he
      rw [hy]; simp
    have ge := gsh.1 e l' he
    refine ⟨hne, ge, isInDirectories_covered root gr e ge hne _ subsNe, ?_⟩
    rw [isHidden_eq F hF _ (gpath_append gr ge), lastOr_append root e hne]
  have own := pwF_own cfg hidden root.isEmpty cs.sort [] [] [] (by simpa using ben) (Or.inl rfl) (by simp)
  simp only [List.nil_append, List.append_nil] at own
  have memIff : (m ∈ (if l then ((Walked.mk [nameOf root] [] []).plus root (pwF cfg root.isEmpty [] cs.sort)).symlinks
        else ((Walked.mk [nameOf root] [] []).plus root (pwF cfg root.isEmpty [] cs.sort)).files)) ↔
      ∃ e, (e, l) ∈ (pwF cfg root.isEmpty [] cs.sort).recs ∧ m = nameOf (root ++ e) := by
    cases l with
    | true =>
      simp only [if_true, Walked.plus, List.nil_append, List.mem_map, List.mem_filter]
      constructor
      · rintro ⟨⟨e, b⟩, ⟨h1, h2⟩, h3⟩
        have hb : b = true := h2
        subst hb; exact ⟨e, h1, h3.symm⟩
      · rintro ⟨e, h1, h3⟩; exact ⟨(e, true), ⟨h1, rfl⟩, h3.symm⟩
    | false =>
      simp only [Bool.false_eq_true, if_false, Walked.plus, List.mem_append, List.mem_singleton, List.mem_map,
        List.mem_filter]
      constructor
      · rintro (h | ⟨⟨e, b⟩, ⟨h1, h2⟩, h3⟩)
        · exact absurd h hm
        · have hb : b = false := by simpa using h2
          subst hb; exact ⟨e, h1, h3.symm⟩
      · rintro ⟨e, h1, h3⟩; exact Or.inr ⟨(e, false), ⟨h1, rfl⟩, h3.symm⟩
  rw [memIff]
  have subsEq : ((Walked.mk [nameOf root] [] []).plus root (pwF cfg root.isEmpty [] cs.sort)).subPackages =
      (pwF cfg root.isEmpty [] cs.sort).subs.map fun d => nameOf (root ++ d) := by
    simp [Walked.plus]
  rw [subsEq]
  constructor
  · rintro ⟨⟨e, he, rfl⟩, hin, hvis⟩
    obtain ⟨_, _, k1, k2⟩ := key e l he
    rw [k1] at hin
    rw [k2] at hvis
    refine ⟨e, (own e l).mp ⟨he, hin, ?_⟩, rfl⟩
    simp only [visOK, Bool.or_eq_true, Bool.not_eq_true']; exact hvis
  · rintro ⟨e, he, rfl⟩
    obtain ⟨h1, h2, h3⟩ := (own e l).mpr he
    obtain ⟨_, _, k1, k2⟩ := key e l h1
    refine ⟨⟨e, h1, rfl⟩, by rw [k1]; exact h2, ?_⟩
    rw [k2]
    simpa [visOK] using h3


/-! ### the specification is "owned, visible entries, filtered by the patterns" -/

/-- Selection of an owned entry by the query. -/
def selects (q : Query) (e : List Name × Bool) : Bool :=
  (!e.2 || q.symlinks) && q.includes.any (segMatch · e.1) && !specExcludes q e.1

theorem single_filter {α β : Type} (f : α × β → Bool) (y : α × β) (c : Bool) (h : c = f y) :
    (if c then [y.1] else []) = ((List.filter f [y]).map (·.1)) := by
  subst h; cases hf : f y <;> simp [hf]

theorem filter_cons_split {α : Type} (f : α → Bool) (y : α) (l : List α) :
    List.filter f (y :: l) = List.filter f [y] ++ List.filter f l := by
  simp only [List.filter_cons, List.filter_nil]; split <;> simp

mutual
theorem specEntry_eq_own (cfg : Cfg) (q : Query) (top : Bool) : ∀ (t : Tree) (n : Name) (rel : List Name),
    (if (!q.hidden && hiddenComp n) || (top && rel.isEmpty && n == plzOut) then []
     else match t with
       | .leaf k => specT cfg q top (rel ++ [n]) (.leaf k)
       | .dir cs => if hasBuild cfg cs then [] else specT cfg q top (rel ++ [n]) (.dir cs))
    = ((ownEntry cfg q.hidden top rel n t).filter (selects q)).map (·.1)
  | .leaf k, n, rel => by
    simp only [ownEntry, specT]
    split
    · rfl
    · exact single_filter (selects q) (rel ++ [n], k != Kind.file) _ (by simp only [selects]; cases k <;> rfl)
  | .dir cs, n, rel => by
    simp only [ownEntry]
    split
    · rfl
    · split
      · rfl
      · rw [filter_cons_split, List.map_append, ← specFo_eq_own cfg q top cs (rel ++ [n])]
        simp only [specT]
        congr 1
        exact single_filter (selects q) (rel ++ [n], false) _ (by simp [selects])
theorem specFo_eq_own (cfg : Cfg) (q : Query) (top : Bool) : ∀ (cs : Forest) (rel : List Name),
    specFo cfg q top rel cs = ((ownFo cfg q.hidden top rel cs).filter (selects q)).map (·.1)
  | .nil, _ => by simp [specFo, ownFo]
  | .cons n t rest, rel => by
    have h1 := specEntry_eq_own cfg q top t n rel
    have h2 := specFo_eq_own cfg q top rest rel
    simp only [ownFo, List.filter_append, List.map_append, ← h1, ← h2]
    cases t <;> simp only [specFo]
end

end PlzVerif.Glob
