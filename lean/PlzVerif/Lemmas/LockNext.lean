import PlzVerif.Lemmas.Lock
/-!
C31: the executable transition function `next` (run by Driver/C31.lean) and the inductive relation `Step`
(which the theorems quantify over) are the same relation:  `Step s s' ↔ ∃ a, next s a = some s'`.  Core only.
-/
namespace PlzVerif.Lock
open PlzVerif.Build
set_option linter.unusedSectionVars false
set_option linter.unusedSimpArgs false
set_option linter.unusedVariables false

variable {P K A F N C S H : Type} [DecidableEq P] [DecidableEq K] [DecidableEq S] [DecidableEq N] [DecidableEq H]

theorem isFinished_iff {c : PC S N H} : c.isFinished = true ↔ c = .finished := by
  cases c <;> simp [PC.isFinished]

section
variable {fx : Facts} {lf : LFacts} {exec : A → List (N × C) → C} {ruleSer : A → S} {pathSer : C → H}
variable {r : Repo K A F N C} {ps : List P} {req : P → K → Bool} {force : P → K → Bool}

theorem workStep_sound {s s' : State P K C S N H} {p : P} {t : Target K A F} (ht : t ∈ r.targets)
    (h : workStep fx lf exec ruleSer pathSer r ps req force s p t = some s') :
    Step fx lf exec ruleSer pathSer r ps req force s s' := by
  unfold workStep at h
  cases hpc : s.pc p t.key with
  | idle =>
    simp only [hpc] at h
    split at h
    · rename_i hg
      obtain ⟨h1, h2, h3, h4, h5⟩ := hg
      cases h
      refine .acquire s p t h1 ht h2 h3 hpc ?_ h5
      intro d hd
      exact isFinished_iff.mp (List.all_eq_true.mp h4 d hd)
    · cases h
  | locked =>
    simp only [hpc] at h
    cases hin : readIns r s.gen t with
    | none =>
      simp only [hin] at h; cases h
      exact .fail s p t ht (Or.inl ⟨hpc, hin⟩)
    | some ins =>
      simp only [hin] at h
      split at h
      · rename_i hg; cases h
        exact .checkSkip s p t ins ht hpc hin hg.1 hg.2
      · rename_i hg; cases h
        refine .checkBuild s p t ins ht hpc hin ?_
        cases h1 : upToDate fx s t.key (stampOf ruleSer pathSer t.attrs ins) with
        | false => exact Or.inl rfl
        | true =>
          cases h2 : force p t.key with
          | true => exact Or.inr rfl
          | false => exact absurd ⟨h1, h2⟩ hg
  | skip => simp only [hpc] at h; cases h; exact .releaseSkip s p t ht hpc
  | prep st => simp only [hpc] at h; cases h; exact .prepare s p t st ht hpc
  | ready st =>
    simp only [hpc] at h
    cases hin : readIns r s.gen t with
    | none => simp only [hin] at h; cases h; exact .fail s p t ht (Or.inr (Or.inl ⟨st, hpc, hin⟩))
    | some ins => simp only [hin] at h; cases h; exact .exec s p t st ins ht hpc hin
  | built st => simp only [hpc] at h; cases h; exact .store s p t st ht hpc
  | stored st =>
    simp only [hpc] at h
    cases htmp : s.tmp t.key with
    | none => simp only [htmp] at h; cases h; exact .fail s p t ht (Or.inr (Or.inr (Or.inl ⟨st, hpc, htmp⟩)))
    | some c' =>
      simp only [htmp] at h
      cases hgen : s.gen t.key with
      | none => simp only [hgen] at h; cases h; exact .moveNew s p t st c' ht hpc htmp hgen
      | some c =>
        simp only [hgen] at h
        split at h
        · rename_i hg; cases h; exact .moveKeep s p t st c c' ht hpc htmp hgen hg.1 hg.2
        · rename_i hg; cases h
          refine .moveRemove s p t st c c' ht hpc htmp hgen ?_
          cases h1 : fx.keepOld with
          | false => exact Or.inl rfl
          | true => exact Or.inr (fun h2 => hg ⟨h1, h2⟩)
  | removed st =>
    simp only [hpc] at h
    cases htmp : s.tmp t.key with
    | none => simp only [htmp] at h; cases h; exact .fail s p t ht (Or.inr (Or.inr (Or.inr (Or.inl ⟨st, hpc, htmp⟩))))
    | some c' => simp only [htmp] at h; cases h; exact .rename s p t st c' ht hpc htmp
  | moved st =>
    simp only [hpc] at h
    cases hgen : s.gen t.key with
    | none => simp only [hgen] at h; cases h; exact .fail s p t ht (Or.inr (Or.inr (Or.inr (Or.inr ⟨st, hpc, hgen⟩))))
    | some c => simp only [hgen] at h; cases h; exact .stamp s p t st c ht hpc hgen
  | stamped => simp only [hpc] at h; cases h; exact .release s p t ht hpc
  | finished => simp only [hpc] at h; cases h
  | failed => simp only [hpc] at h; cases h

theorem next_sound {s s' : State P K C S N H} {a : Act P}
    (h : next fx lf exec ruleSer pathSer r ps req force s a = some s') :
    Step fx lf exec ruleSer pathSer r ps req force s s' := by
  cases a with
  | enter p =>
    simp only [next] at h
    split at h
    · rename_i hg; cases h
      refine .enter s p hg.1 hg.2.1 ?_
      intro hex q hq
      have := List.all_eq_true.mp (hg.2.2 hex) q hq
      simpa using this
    · cases h
  | leave p =>
    simp only [next] at h
    split at h
    · rename_i hg; cases h
      refine .leave s p hg.1 ?_
      intro t ht hr
      have := List.all_eq_true.mp hg.2 t ht
      simp only [hr, Bool.not_true, Bool.false_or] at this
      exact isFinished_iff.mp this
    · cases h
  | work p i =>
    simp only [next] at h
    cases hi : r.targets[i]? with
    | none => simp only [hi] at h; cases h
    | some t =>
      simp only [hi] at h
      exact workStep_sound (List.mem_of_getElem? hi) h

theorem next_complete {s s' : State P K C S N H}
    (h : Step fx lf exec ruleSer pathSer r ps req force s s') :
    ∃ a, next fx lf exec ruleSer pathSer r ps req force s a = some s' := by
  have idx : ∀ t ∈ r.targets, ∃ i, r.targets[i]? = some t := fun t ht => List.getElem?_of_mem ht
  have wk : ∀ (p : P) (t : Target K A F), t ∈ r.targets →
      workStep fx lf exec ruleSer pathSer r ps req force s p t = some s' →
      ∃ a, next fx lf exec ruleSer pathSer r ps req force s a = some s' := by
    intro p t ht hw
    obtain ⟨i, hi⟩ := idx t ht
    exact ⟨.work p i, by simp only [next, hi]; exact hw⟩
  cases h with
  | enter p hp hw hx =>
    refine ⟨.enter p, ?_⟩
    have hg : p ∈ ps ∧ s.phase p = .waiting ∧ (lf.repoExclusive = true → (ps.all fun q => s.phase q != .inside) = true) := by
      refine ⟨hp, hw, fun hex => List.all_eq_true.mpr (fun q hq => ?_)⟩
      simpa using hx hex q hq
    simp only [next]
    rw [if_pos hg]
  | leave p hin hall =>
    refine ⟨.leave p, ?_⟩
    have hg : s.phase p = .inside ∧ (r.targets.all fun t => !req p t.key || (s.pc p t.key).isFinished) = true := by
      refine ⟨hin, List.all_eq_true.mpr (fun t ht => ?_)⟩
      cases hr : req p t.key with
      | false => simp
      | true => simp [isFinished_iff.mpr (hall t ht hr)]
    simp only [next, hg, and_self, if_true]
  | acquire p t hp ht hin hreq hidle hdeps hfree =>
    apply wk p t ht
    have hg : p ∈ ps ∧ s.phase p = .inside ∧ req p t.key = true ∧ (t.deps.all fun d => (s.pc p d).isFinished) = true ∧
        (lf.excl = true → s.lock t.key = none) :=
      ⟨hp, hin, hreq, List.all_eq_true.mpr (fun d hd => isFinished_iff.mpr (hdeps d hd)), hfree⟩
    simp only [workStep, hidle]
    rw [if_pos hg]
  | checkSkip p t ins ht hpc hins hup hnf =>
    apply wk p t ht
    simp only [workStep, hpc, hins, hup, hnf, and_self, if_true]
  | checkBuild p t ins ht hpc hins hneed =>
    apply wk p t ht
    have hg : ¬(upToDate fx s t.key (stampOf ruleSer pathSer t.attrs ins) = true ∧ force p t.key = false) := by
      intro ⟨h1, h2⟩
      rcases hneed with h | h
      · rw [h1] at h; exact absurd h (by simp)
      · rw [h2] at h; exact absurd h (by simp)
    simp only [workStep, hpc, hins, hg, if_false]
  | releaseSkip p t ht hpc => apply wk p t ht; simp only [workStep, hpc]
  | prepare p t st ht hpc => apply wk p t ht; simp only [workStep, hpc]
  | exec p t st ins ht hpc hins => apply wk p t ht; simp only [workStep, hpc, hins]
  | store p t st ht hpc => apply wk p t ht; simp only [workStep, hpc]
  | moveKeep p t st c c' ht hpc htmp hgen hkeep hhash =>
    apply wk p t ht
    simp only [workStep, hpc, htmp, hgen, hkeep, hhash, and_self, if_true]
  | moveRemove p t st c c' ht hpc htmp hgen hdiff =>
    apply wk p t ht
    have hg : ¬(fx.keepOld = true ∧ pathSer c = pathSer c') := by
      intro ⟨h1, h2⟩
      rcases hdiff with h | h
      · rw [h1] at h; exact absurd h (by simp)
      · exact h h2
    simp only [workStep, hpc, htmp, hgen, hg, if_false]
  | moveNew p t st c' ht hpc htmp hgen => apply wk p t ht; simp only [workStep, hpc, htmp, hgen]
  | rename p t st c' ht hpc htmp => apply wk p t ht; simp only [workStep, hpc, htmp]
  | stamp p t st c ht hpc hgen => apply wk p t ht; simp only [workStep, hpc, hgen]
  | release p t ht hpc => apply wk p t ht; simp only [workStep, hpc]
  | fail p t ht hf =>
    apply wk p t ht
    rcases hf with ⟨h, hn⟩ | ⟨st, h, hn⟩ | ⟨st, h, hn⟩ | ⟨st, h, hn⟩ | ⟨st, h, hn⟩
    · simp only [workStep, h, hn, failedState]
    · simp only [workStep, h, hn, failedState]
    · simp only [workStep, h, hn, failedState]
    · simp only [workStep, h, hn, failedState]
    · simp only [workStep, h, hn, failedState]

/-- The driver's transition function and the relation of the theorems coincide. -/
theorem step_iff_next {s s' : State P K C S N H} :
    Step fx lf exec ruleSer pathSer r ps req force s s' ↔
      ∃ a, next fx lf exec ruleSer pathSer r ps req force s a = some s' :=
  ⟨next_complete, fun ⟨_, h⟩ => next_sound h⟩

/-- Every state the driver's scheduler visits is reachable. -/
theorem runSched_reach {s0 : State P K C S N H} :
    ∀ (as : List (Act P)) (s : State P K C S N H), Reach fx lf exec ruleSer pathSer r ps req force s0 s →
      Reach fx lf exec ruleSer pathSer r ps req force s0 (runSched fx lf exec ruleSer pathSer r ps req force s as) := by
  intro as
  induction as with
  | nil => intro s h; exact h
  | cons a as ih =>
    intro s h
    simp only [runSched]
    cases hn : next fx lf exec ruleSer pathSer r ps req force s a with
    | none => exact ih s h
    | some s' => exact ih s' (.step h (next_sound hn))

theorem runWith_reach {s0 : State P K C S N H} (pick : Nat → Nat → Nat) :
    ∀ (fuel n : Nat) (s : State P K C S N H), Reach fx lf exec ruleSer pathSer r ps req force s0 s →
      Reach fx lf exec ruleSer pathSer r ps req force s0 (runWith fx lf exec ruleSer pathSer r ps req force pick fuel n s).1 := by
  intro fuel
  induction fuel with
  | zero => intro n s h; exact h
  | succ fuel ih =>
    intro n s h
    simp only [runWith]
    split
    · exact h
    · rename_i a _
      split
      · rename_i s' hn; exact ih (n + 1) s' (.step h (next_sound hn))
      · exact h

end
end PlzVerif.Lock
