import PlzVerif.Model.CrashBuild
/-! Lemmas for C32: projection of the build step's operation list onto one output's slice, the shapes a slice can
    have after a crash at any position, and what `needsBuilding` concludes from them.  Core only. -/
namespace PlzVerif.CrashBuild
set_option linter.unusedSectionVars false
set_option linter.unusedSimpArgs false

variable {N C S H : Type} [DecidableEq N] [DecidableEq H] [DecidableEq S]

/-! ### generic list facts -/

theorem take_filterMap {α β : Type} (f : α → Option β) : ∀ (l : List α) (k : Nat),
    ∃ j, (l.take k).filterMap f = (l.filterMap f).take j
  | [], k => ⟨0, by simp⟩
  | a :: l, 0 => ⟨0, by simp⟩
  | a :: l, k + 1 => by
    obtain ⟨j, hj⟩ := take_filterMap f l k
    cases hfa : f a with
    | none => exact ⟨j, by simp [List.take_succ_cons, List.filterMap_cons, hfa, hj]⟩
    | some v => exact ⟨j + 1, by simp [List.take_succ_cons, List.filterMap_cons, hfa, hj]⟩

/-- a cut of `A ++ B` is a cut of `A`, or all of `A` followed by a cut of `B` -/
theorem take_append_cases {α : Type} (A B : List α) (j : Nat) :
    (∃ i, (A ++ B).take j = A.take i) ∨ (∃ i, (A ++ B).take j = A ++ B.take i) := by
  by_cases h : j ≤ A.length
  · left; exact ⟨j, by rw [List.take_append_of_le_length h]⟩
  · right
    refine ⟨j - A.length, ?_⟩
    rw [List.take_append]
    rw [List.take_of_length_le (by omega)]

/-! ### projection onto one output -/

def proj (n : N) : Op N C S → Option (SOp C S)
  | .prepTmp => some .prep
  | .out m o => if m = n then some o else none
  | _ => none

theorem apply1_out (fs : TState N C S) (op : Op N C S) (n : N) :
    (apply1 fs op).out n = match proj n op with | some o => sstep (fs.out n) o | none => fs.out n := by
  cases op <;> simp [apply1, proj]
  rename_i m o
  by_cases h : n = m
  · subst h; simp
  · have : ¬ m = n := fun e => h e.symm
    simp [h, this]

theorem applyOps_out (ops : List (Op N C S)) : ∀ (fs : TState N C S) (n : N),
    (applyOps fs ops).out n = srun (fs.out n) (ops.filterMap (proj n)) := by
  induction ops with
  | nil => intro fs n; rfl
  | cons op ops ih =>
    intro fs n
    simp only [applyOps, List.foldl_cons] at ih ⊢
    rw [ih (apply1 fs op) n, apply1_out]
    cases h : proj n op with
    | none => simp [List.filterMap_cons, h]
    | some o => simp [List.filterMap_cons, h, srun]

theorem srun_append (sl : Slice C S) (a b : List (SOp C S)) : srun sl (a ++ b) = srun (srun sl a) b := by
  simp [srun, List.foldl_append]

theorem filterMap_out_map (n m : N) (l : List (SOp C S)) :
    (l.map (Op.out (N := N) m)).filterMap (proj n) = if m = n then l else [] := by
  by_cases h : m = n
  · subst h; simp [List.filterMap_map, Function.comp_def, proj]
  · simp only [h, if_false, List.filterMap_map]
    rw [List.filterMap_eq_nil_iff]
    intro a _
    simp [proj, h]

theorem filterMap_flatMap_notin (f : N → List (SOp C S)) (n : N) : ∀ (l : List N), n ∉ l →
    (l.flatMap fun m => (f m).map (Op.out m)).filterMap (proj n) = []
  | [], _ => by simp
  | m :: ms, h => by
    simp only [List.mem_cons, not_or] at h
    have hm : ¬ m = n := fun e => h.1 e.symm
    simp only [List.flatMap_cons, List.filterMap_append, filterMap_out_map, hm, if_false, List.nil_append]
    exact filterMap_flatMap_notin f n ms h.2

/-- the operations of the per-output loops that concern output `n` are exactly `f n` -/
theorem filterMap_flatMap_single (f : N → List (SOp C S)) (n : N) : ∀ (l : List N), l.Nodup → n ∈ l →
    (l.flatMap fun m => (f m).map (Op.out m)).filterMap (proj n) = f n
  | [], _, h => by simp at h
  | m :: ms, hnd, h => by
    simp only [List.nodup_cons] at hnd
    simp only [List.flatMap_cons, List.filterMap_append, filterMap_out_map]
    by_cases hm : m = n
    · subst hm
      simp [filterMap_flatMap_notin f m ms hnd.1]
    · have : n ∈ ms := by
        rcases List.mem_cons.mp h with e | e
        · exact absurd e.symm hm
        · exact e
      simp [hm, filterMap_flatMap_single f n ms hnd.2 this]

theorem run_map_eq (b : Params N C S H) (l : List N) :
    (l.map fun m => Op.out (S := S) m (.run (b.new m))) = l.flatMap fun m => ([SOp.run (b.new m)]).map (Op.out m) := by
  induction l with
  | nil => rfl
  | cons a l ih => simp [ih]

theorem filterMap_run_map (b : Params N C S H) (n : N) (l : List N) (hnd : l.Nodup) (h : n ∈ l) :
    (l.map fun m => Op.out (S := S) m (.run (b.new m))).filterMap (proj n) = [.run (b.new n)] := by
  rw [run_map_eq]
  exact filterMap_flatMap_single (S := S) (fun m => [SOp.run (b.new m)]) n l hnd h

theorem mdOps_proj (b : Params N C S H) (n : N) : (mdOps (N := N) (C := C) b).filterMap (proj n) = [] := by
  rw [List.filterMap_eq_nil_iff]
  intro a ha
  simp only [mdOps, List.mem_append, List.mem_cons, List.mem_map, List.not_mem_nil, or_false] at ha
  rcases ha with (ha | ha) | ha
  · rcases ha with rfl | rfl <;> rfl
  · obtain ⟨x, _, rfl⟩ := ha; rfl
  · subst ha; rfl

theorem stampTail_proj (b : Params N C S H) (n : N) :
    (if b.mdUseFb then [Op.mdFbTrunc, Op.mdFbFull b.stamp] else [Op.mdSetAttr (N := N) (C := C) b.stamp]).filterMap (proj n) = [] := by
  split <;> simp [proj]

theorem cacheOps_proj (b : Params N C S H) (n : N) : (cacheOps (N := N) (C := C) b).filterMap (proj n) = [] := by
  unfold cacheOps; split <;> simp [proj]

/-- what the whole build step does to output `n` is `localOps` -/
theorem plan_proj (b : Params N C S H) (fs : TState N C S) (n : N) (hnd : b.outs.Nodup) (h : n ∈ b.outs) :
    (plan b fs).filterMap (proj n) = localOps b fs n := by
  simp only [plan, planWith, codedOrder, List.flatMap_cons, List.flatMap_nil, phaseOps, List.append_nil,
    List.filterMap_append, moveOps, stampOps, localOps]
  rw [filterMap_run_map b n b.outs hnd h, mdOps_proj, cacheOps_proj, stampTail_proj,
    filterMap_flatMap_single (fun m => moveS b (fs.out m) m) n b.outs hnd h,
    filterMap_flatMap_single (fun m => stampS b m) n b.outs hnd h]
  simp [proj]

/-- the slice of output `n` after a crash at any position of the build step is the slice after a cut of `localOps` -/
theorem crash_slice (b : Params N C S H) (fs : TState N C S) (n : N) (hnd : b.outs.Nodup) (h : n ∈ b.outs) (k : Nat) :
    ∃ j, (applyOps fs ((plan b fs).take k)).out n = srun (fs.out n) ((localOps b fs n).take j) := by
  obtain ⟨j, hj⟩ := take_filterMap (proj n) (plan b fs) k
  exact ⟨j, by rw [applyOps_out, hj, plan_proj b fs n hnd h]⟩

/-- outputs the target does not declare only lose their temporary -/
theorem plan_proj_other (b : Params N C S H) (fs : TState N C S) (n : N) (h : n ∉ b.outs) :
    (plan b fs).filterMap (proj n) = [.prep] := by
  simp only [plan, planWith, codedOrder, List.flatMap_cons, List.flatMap_nil, phaseOps, List.append_nil,
    List.filterMap_append, moveOps, stampOps]
  have h1 : (b.outs.map fun m => Op.out (S := S) m (.run (b.new m))).filterMap (proj n) = [] := by
    rw [run_map_eq]
    exact filterMap_flatMap_notin (S := S) (fun m => [SOp.run (b.new m)]) n b.outs h
  rw [h1, mdOps_proj, cacheOps_proj, stampTail_proj,
    filterMap_flatMap_notin (fun m => moveS b (fs.out m) m) n b.outs h,
    filterMap_flatMap_notin (fun m => stampS b m) n b.outs h]
  simp [proj]

end PlzVerif.CrashBuild
