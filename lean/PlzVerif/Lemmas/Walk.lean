import PlzVerif.Model.Walk
set_option linter.unusedSimpArgs false
/-! Lemmas for C22: path strings vs component lists, the callback as data, walk = specification. -/
namespace PlzVerif.Walk

def goodPath (p : List Name) : Bool := p.all goodName

theorem goodName_noslash {n : Name} (h : goodName n = true) : '/' ∉ n := by
  simp [goodName] at h; exact h.1.2

theorem goodName_ne_nil {n : Name} (h : goodName n = true) : n ≠ [] := by
  simp [goodName] at h; exact h.1.1

theorem goodName_ne_dot {n : Name} (h : goodName n = true) : n ≠ ['.'] := by
  simp [goodName] at h; exact h.2

theorem base_append_slash (x c : Name) (h : '/' ∉ c) : base (x ++ '/' :: c) = c := by
  unfold base
  rw [List.reverse_append, List.reverse_cons, List.append_assoc]
  rw [List.takeWhile_append_of_pos]
  · simp
  · intro a ha; simp at ha ⊢; intro e; subst e; exact h ha

theorem takeWhile_all {α} (q : α → Bool) : ∀ (l : List α), (∀ a ∈ l, q a = true) → l.takeWhile q = l
  | [], _ => rfl
  | a :: l, h => by
    simp only [List.takeWhile_cons, h a (by simp), if_true]
    rw [takeWhile_all q l (fun b hb => h b (by simp [hb]))]

theorem base_noslash (c : Name) (h : '/' ∉ c) : base c = c := by
  unfold base
  rw [takeWhile_all]
  · simp
  · intro a ha; simp at ha ⊢; intro e; subst e; exact h ha

theorem joinSlash_append : ∀ (p q : List Name), p ≠ [] → q ≠ [] →
    joinSlash (p ++ q) = joinSlash p ++ '/' :: joinSlash q
  | [], _, h, _ => absurd rfl h
  | [a], b :: r, _, _ => by simp [joinSlash]
  | a :: b :: r, q, _, hq => by
    have ih := joinSlash_append (b :: r) q (by simp) hq
    simp only [List.cons_append] at ih ⊢
    simp only [joinSlash, ih, List.append_assoc, List.cons_append]

theorem joinSlash_ne_dot : ∀ (p : List Name), p ≠ [] → goodPath p = true → joinSlash p ≠ ['.']
  | [], h, _ => absurd rfl h
  | [a], _, g => by
    simp [goodPath] at g; simpa [joinSlash] using goodName_ne_dot g
  | a :: b :: r, _, g => by
    simp only [goodPath, List.all_cons, Bool.and_eq_true] at g
    have hne := goodName_ne_nil g.1
    intro e
    simp only [joinSlash] at e
    cases a with
    | nil => exact hne rfl
    | cons c a' => simp at e

theorem nameOf_snoc (p : List Name) (n : Name) (g : goodPath p = true) :
    nameOf (p ++ [n]) = join (nameOf p) n := by
  cases p with
  | nil => simp [nameOf, join, joinSlash]
  | cons a r =>
    have h1 : nameOf (a :: r ++ [n]) = joinSlash (a :: r) ++ '/' :: n := by
      simp only [nameOf]
      rw [joinSlash_append (a :: r) [n] (by simp) (by simp)]
      simp [joinSlash]
    rw [h1]
    simp only [nameOf, List.isEmpty_cons, join]
    simp [joinSlash_ne_dot (a :: r) (by simp) g]

theorem nameOf_ne_dot (p : List Name) (g : goodPath p = true) : (nameOf p == ['.']) = p.isEmpty := by
  cases p with
  | nil => simp [nameOf]
  | cons a r =>
    simp only [nameOf, List.isEmpty_cons]
    simpa using joinSlash_ne_dot (a :: r) (by simp) g

theorem lastOr_snoc (p : List Name) (n : Name) : lastOr (p ++ [n]) = n := by simp [lastOr]

theorem base_nameOf_snoc (p : List Name) (n : Name) (gn : goodName n = true) :
    base (nameOf (p ++ [n])) = n := by
  cases p with
  | nil => simp [nameOf, joinSlash, base_noslash n (goodName_noslash gn)]
  | cons a r =>
    simp only [nameOf]
    rw [joinSlash_append (a :: r) [n] (by simp) (by simp)]
    simp [joinSlash, base_append_slash _ n (goodName_noslash gn)]

/-! ### string prefix vs component prefix -/

theorem joinSlash_take_prefix (p : List Name) (k : Nat) (hk : k + 1 ≤ p.length) :
    joinSlash (p.take (k + 1)) = joinSlash p ∨
    ∃ s, joinSlash p = joinSlash (p.take (k + 1)) ++ '/' :: s := by
  by_cases h : k + 1 = p.length
  · left; rw [h, List.take_length]
  · right
    have hlt : k + 1 < p.length := by omega
    refine ⟨joinSlash (p.drop (k + 1)), ?_⟩
    have e := joinSlash_append (p.take (k + 1)) (p.drop (k + 1))
      (by intro c; have := congrArg List.length c; simp only [List.length_take, List.length_nil] at this; omega)
      (by intro c; have := congrArg List.length c; simp only [List.length_drop, List.length_nil] at this; omega)
    rw [List.take_append_drop] at e
    exact e

/-- If `x ++ "/"` is a prefix of `a ++ "/" ++ s` and `a` has no '/', then `x` ends exactly at a separator. -/
theorem slash_prefix_split : ∀ (a x s : Name), '/' ∉ a → (x ++ ['/']) <+: (a ++ '/' :: s) →
    x = a ∨ ∃ x', x = a ++ '/' :: x' ∧ (x' ++ ['/']) <+: s
  | [], [], _, _, _ => Or.inl rfl
  | [], c :: x'', s, _, h => by
    right
    simp only [List.nil_append, List.cons_append, List.cons_prefix_cons] at h
    exact ⟨x'', by simp [h.1], h.2⟩
  | c :: a', [], s, ha, h => by
    simp only [List.nil_append, List.cons_append, List.cons_prefix_cons] at h
    exact absurd (by simp [← h.1]) ha
  | c :: a', c' :: x', s, ha, h => by
    simp only [List.cons_append, List.cons_prefix_cons] at h
    have ha' : '/' ∉ a' := fun m => ha (by simp [m])
    rcases slash_prefix_split a' x' s ha' h.2 with e | ⟨y, e, hy⟩
    · left; simp [h.1, e]
    · right; exact ⟨y, by simp [h.1, e], hy⟩

theorem noslash_no_slash_prefix (a x : Name) (ha : '/' ∉ a) : ¬ (x ++ ['/']) <+: a := by
  intro ⟨t, e⟩
  apply ha
  rw [← e]; simp

theorem compMatch_iff (d : Name) (p : List Name) :
    compMatch d p = true ↔ ∃ k, k + 1 ≤ p.length ∧ d = joinSlash (p.take (k + 1)) := by
  simp [compMatch]
  constructor
  · rintro ⟨k, hk, e⟩; exact ⟨k, by omega, e⟩
  · rintro ⟨k, hk, e⟩; exact ⟨k, by omega, e⟩

theorem compMatch_of_slash : ∀ (p : List Name) (d : Name), p ≠ [] → goodPath p = true →
    (d = joinSlash p ∨ (d ++ ['/']) <+: joinSlash p) → ∃ k, k + 1 ≤ p.length ∧ d = joinSlash (p.take (k + 1))
  | [], _, h, _, _ => absurd rfl h
  | [a], d, _, g, h => by
    simp only [goodPath, List.all_cons, List.all_nil, Bool.and_true] at g
    rcases h with e | h
    · exact ⟨0, by simp, by simpa [joinSlash] using e⟩
    · exact absurd h (by simpa [joinSlash] using noslash_no_slash_prefix a d (goodName_noslash g))
  | a :: b :: r, d, _, g, h => by
    have g' : goodPath (b :: r) = true := by
      simp only [goodPath, List.all_cons, Bool.and_eq_true] at g ⊢; exact g.2
    have ga : goodName a = true := by
      simp only [goodPath, List.all_cons, Bool.and_eq_true] at g; exact g.1
    rcases h with e | h
    · exact ⟨(b :: r).length, by simp, by rw [e]; simp⟩
    · simp only [joinSlash] at h
      rcases slash_prefix_split a d _ (goodName_noslash ga) h with e | ⟨y, e, hy⟩
      · exact ⟨0, by simp, by simp [joinSlash, e]⟩
      · obtain ⟨k, hk, ek⟩ := compMatch_of_slash (b :: r) y (by simp) g' (Or.inr hy)
        refine ⟨k + 1, by simp at hk ⊢; omega, ?_⟩
        rw [e, ek]
        cases k with
        | zero => simp [joinSlash]
        | succ k =>
          cases r with
          | nil => simp at hk
          | cons c r' => simp [joinSlash]

theorem slash_of_compMatch (p : List Name) (d : Name) (k : Nat) (hk : k + 1 ≤ p.length)
    (e : d = joinSlash (p.take (k + 1))) : d = joinSlash p ∨ (d ++ ['/']) <+: joinSlash p := by
  rcases joinSlash_take_prefix p k hk with h | ⟨s, h⟩
  · left; rw [e, h]
  · right; rw [h, e]; exact ⟨s, by simp⟩

theorem prefix_of_compMatch (p : List Name) (d : Name) (h : compMatch d p = true) : d <+: joinSlash p := by
  obtain ⟨k, hk, e⟩ := (compMatch_iff d p).mp h
  rcases slash_of_compMatch p d k hk e with h | ⟨t, h⟩
  · rw [h]; exact List.prefix_refl _
  · exact ⟨'/' :: t, by rw [← h]; simp⟩

/-! ### the callback: data vs. the hand-written canonical form -/

/-- Valuation of the atoms the if / else-if chain may mention (codes 0-7). -/
def mkValA (b0 b1 b2 b3 b4 b5 b6 b7 : Bool) : Val := fun a =>
  match a with
  | 0 => b0 | 1 => b1 | 2 => b2 | 3 => b3 | 4 => b4 | 5 => b5 | 6 => b6 | 7 => b7 | _ => false

/-- Valuation of the atoms the blacklist condition may mention (`isDir` and codes 8-11). -/
def mkValB (b1 b8 b9 b10 b11 : Bool) : Val := fun a =>
  match a with
  | 1 => b1 | 8 => b8 | 9 => b9 | 10 => b10 | 11 => b11 | _ => false

/-- Every code of the formula is an operator or an atom allowed by `ok`. -/
def usesOnly (ok : Nat → Bool) (c : List Nat) : Bool := c.all fun a => a ≥ 12 || ok a

def atomsA (a : Nat) : Bool := a < 8
def atomsB (a : Nat) : Bool := a == 1 || (8 ≤ a && a < 12)

theorem evalRPN_congr (v w : Val) :
    ∀ (c : List Nat) (st : List Bool), (∀ a ∈ c, a < 12 → v a = w a) → evalRPN v c st = evalRPN w c st
  | [], st, _ => by cases st with
    | nil => simp [evalRPN]
    | cons b r => cases r <;> simp [evalRPN]
  | c :: cs, st, h => by
    have ih := fun st => evalRPN_congr v w cs st (fun a ha => h a (by simp [ha]))
    unfold evalRPN
    by_cases h0 : c < 12
    · simp only [h0, if_true, h c (by simp) h0]; exact ih _
    · simp only [h0, if_false]
      split
      · exact ih _
      · split
        · exact ih _
        · split
          · split
            · exact ih _
            · rfl
          · split
            · split
              · exact ih _
              · rfl
            · split
              · split
                · exact ih _
                · rfl
              · rfl

theorem evalRPN_A (v : Val) (c : List Nat) (h : usesOnly atomsA c = true) :
    evalRPN v c [] = evalRPN (mkValA (v 0) (v 1) (v 2) (v 3) (v 4) (v 5) (v 6) (v 7)) c [] := by
  apply evalRPN_congr
  intro a ha h12
  simp only [usesOnly, List.all_eq_true, Bool.or_eq_true, decide_eq_true_eq, atomsA] at h
  have : a < 8 := by rcases h a ha with h | h <;> omega
  have : a = 0 ∨ a = 1 ∨ a = 2 ∨ a = 3 ∨ a = 4 ∨ a = 5 ∨ a = 6 ∨ a = 7 := by omega
  rcases this with h | h | h | h | h | h | h | h <;> subst h <;> rfl

theorem evalRPN_B (v : Val) (c : List Nat) (h : usesOnly atomsB c = true) :
    evalRPN v c [] = evalRPN (mkValB (v 1) (v 8) (v 9) (v 10) (v 11)) c [] := by
  apply evalRPN_congr
  intro a ha h12
  simp only [usesOnly, List.all_eq_true, Bool.or_eq_true, decide_eq_true_eq, atomsB, beq_iff_eq,
    Bool.and_eq_true] at h
  have : a = 1 ∨ a = 8 ∨ a = 9 ∨ a = 10 ∨ a = 11 := by rcases h a ha with h | h | h <;> omega
  rcases this with h | h | h | h | h <;> subst h <;> rfl

/-- Two blacklist conditions mention only `isDir` and the blacklist atoms and agree under all 32 valuations. -/
def CondEquiv (c1 c2 : List Nat) : Prop :=
  usesOnly atomsB c1 = true ∧ usesOnly atomsB c2 = true ∧
  ∀ b1 b8 b9 b10 b11 : Bool, evalRPN (mkValB b1 b8 b9 b10 b11) c1 [] = evalRPN (mkValB b1 b8 b9 b10 b11) c2 []

/-- Two chains mention only atoms 0-7 and agree under all 256 valuations. -/
def ChainEquiv (c1 c2 : List (List Nat × Nat)) : Prop :=
  (c1.all fun b => usesOnly atomsA b.1) = true ∧ (c2.all fun b => usesOnly atomsA b.1) = true ∧
  ∀ b0 b1 b2 b3 b4 b5 b6 b7 : Bool,
    runChain (mkValA b0 b1 b2 b3 b4 b5 b6 b7) c1 = runChain (mkValA b0 b1 b2 b3 b4 b5 b6 b7) c2

instance (c1 c2) : Decidable (CondEquiv c1 c2) := by unfold CondEquiv; infer_instance
instance (c1 c2) : Decidable (ChainEquiv c1 c2) := by unfold ChainEquiv; infer_instance

theorem CondEquiv.all {c1 c2} (h : CondEquiv c1 c2) (v : Val) : evalRPN v c1 [] = evalRPN v c2 [] := by
  rw [evalRPN_B v c1 h.1, evalRPN_B v c2 h.2.1]
  exact h.2.2 _ _ _ _ _

theorem runChain_A (v : Val) : ∀ (ch : List (List Nat × Nat)), (ch.all fun b => usesOnly atomsA b.1) = true →
    runChain v ch = runChain (mkValA (v 0) (v 1) (v 2) (v 3) (v 4) (v 5) (v 6) (v 7)) ch
  | [], _ => rfl
  | (c, a) :: rest, h => by
    simp only [List.all_cons, Bool.and_eq_true] at h
    simp only [runChain, evalRPN_A v c h.1, runChain_A v rest h.2]

theorem ChainEquiv.all {c1 c2} (h : ChainEquiv c1 c2) (v : Val) : runChain v c1 = runChain v c2 := by
  rw [runChain_A v c1 h.1, runChain_A v c2 h.2.1]
  exact h.2.2 _ _ _ _ _ _ _ _

theorem valOf_outDir (F G : Facts) (h : F.outDir = G.outDir) : valOf F = valOf G := by
  funext cfg name isDir d a; simp only [valOf, h]

theorem callback_congr (F G : Facts) (ho : F.outDir = G.outDir) (hc : ChainEquiv F.chain G.chain)
    (hb : CondEquiv F.blCond G.blCond) : callback F = callback G := by
  funext cfg name isDir
  simp only [callback, valOf_outDir F G ho, hc.all, hb.all]

/-- The callback written out by hand (src/plz/plz.go:250-268), parameterised by the blacklist test. -/
def cbCanon (blT : Name → Name → Name → Bool) (cfg : Config) (name : Name) (isDir : Bool) : Bool × Bool :=
  let b := base name
  if b == plzOut || (isDir && ['.'].isPrefixOf b && !(name == ['.'])) then (false, true)
  else if isDir && !cfg.pfx.isPrefixOf name && !name.isPrefixOf cfg.pfx then (false, true)
  else if cfg.buildNames.contains b && !isDir then (true, cfg.blacklist.any (blT name b))
  else if cfg.experimental.contains name then (false, true)
  else (false, cfg.blacklist.any (blT name b))

def Facts.canonComp : Facts := { Facts.canon with blCond := blCondComponent }

theorem cond1_canon (v : Val) : evalRPN v [0, 1, 2, 101, 3, 100, 101, 102] [] = some (v 0 || (v 1 && v 2 && !v 3)) := by
  simp [evalRPN, opNot, opAnd, opOr, opTrue, opFalse]
theorem cond2_canon (v : Val) : evalRPN v [1, 4, 100, 101, 5, 100, 101] [] = some (v 1 && !v 4 && !v 5) := by
  simp [evalRPN, opNot, opAnd, opOr, opTrue, opFalse]
theorem cond3_canon (v : Val) : evalRPN v [6, 1, 100, 101] [] = some (v 6 && !v 1) := by
  simp [evalRPN, opNot, opAnd, opOr, opTrue, opFalse]
theorem cond4_canon (v : Val) : evalRPN v [7] [] = some (v 7) := by
  simp [evalRPN, opNot, opAnd, opOr, opTrue, opFalse]

theorem runChain_canon (v : Val) : runChain v Facts.canon.chain =
    if v 0 || (v 1 && v 2 && !v 3) then some actSkip
    else if v 1 && !v 4 && !v 5 then some actSkip
    else if v 6 && !v 1 then some actEmit
    else if v 7 then some actSkip else none := by
  simp only [Facts.canon, runChain, aBaseEqOut, aIsDir, aBaseHidden, aNameEqDot, aNameHasPfx,
    aPfxHasName, aIsBuild, aInExp, opNot, opAnd, opOr, cond1_canon, cond2_canon, cond3_canon, cond4_canon]
  cases v 0 <;> cases v 1 <;> cases v 2 <;> cases v 3 <;> cases v 4 <;> cases v 5 <;> cases v 6 <;> cases v 7 <;> rfl

theorem blCond_canon (v : Val) : evalRPN v Facts.canon.blCond [] = some (v 8 || v 9) := by
  simp [Facts.canon, evalRPN, aBlEqBase, aBlStrPfx, opNot, opAnd, opOr, opTrue, opFalse]

theorem blCond_comp (v : Val) : evalRPN v blCondComponent [] = some (v 8 || v 10 || v 11) := by
  simp [blCondComponent, evalRPN, aBlEqBase, aBlEqName, aBlSlashPfx, opNot, opAnd, opOr, opTrue, opFalse]

theorem callback_canon_gen (F : Facts) (blT : Name → Name → Name → Bool) (ho : F.outDir = plzOut)
    (hc : F.chain = Facts.canon.chain)
    (hb : ∀ cfg name isDir d, evalRPN (valOf F cfg name isDir d) F.blCond [] = some (blT name (base name) d)) :
    callback F = cbCanon blT := by
  funext cfg name isDir
  simp only [callback, hc, runChain_canon, hb, cbCanon]
  have v0 : valOf F cfg name isDir [] 0 = (base name == plzOut) := by simp [valOf, aBaseEqOut, ho]
  have v1 : valOf F cfg name isDir [] 1 = isDir := by simp [valOf, aBaseEqOut, aIsDir]
  have v2 : valOf F cfg name isDir [] 2 = ['.'].isPrefixOf (base name) := by
    simp [valOf, aBaseEqOut, aIsDir, aBaseHidden]
  have v3 : valOf F cfg name isDir [] 3 = (name == ['.']) := by
    simp [valOf, aBaseEqOut, aIsDir, aBaseHidden, aNameEqDot]
  have v4 : valOf F cfg name isDir [] 4 = cfg.pfx.isPrefixOf name := by
    simp [valOf, aBaseEqOut, aIsDir, aBaseHidden, aNameEqDot, aNameHasPfx]
  have v5 : valOf F cfg name isDir [] 5 = name.isPrefixOf cfg.pfx := by
    simp [valOf, aBaseEqOut, aIsDir, aBaseHidden, aNameEqDot, aNameHasPfx, aPfxHasName]
  have v6 : valOf F cfg name isDir [] 6 = cfg.buildNames.contains (base name) := by
    simp [valOf, aBaseEqOut, aIsDir, aBaseHidden, aNameEqDot, aNameHasPfx, aPfxHasName, aIsBuild]
  have v7 : valOf F cfg name isDir [] 7 = cfg.experimental.contains name := by
    simp [valOf, aBaseEqOut, aIsDir, aBaseHidden, aNameEqDot, aNameHasPfx, aPfxHasName, aIsBuild, aInExp]
  rw [v0, v1, v2, v3, v4, v5, v6, v7]
  generalize (base name == plzOut) = a0
  generalize List.isPrefixOf ['.'] (base name) = a2
  generalize (name == ['.']) = a3
  generalize cfg.pfx.isPrefixOf name = a4
  generalize name.isPrefixOf cfg.pfx = a5
  generalize cfg.buildNames.contains (base name) = a6
  generalize cfg.experimental.contains name = a7
  have e : (fun d => some (blT name (base name) d) == some true) = blT name (base name) := by
    funext d; cases blT name (base name) d <;> rfl
  simp only [e]
  generalize cfg.blacklist.any _ = bl
  cases a0 <;> cases isDir <;> cases a2 <;> cases a3 <;> cases a4 <;> cases a5 <;> cases a6 <;> cases a7 <;>
    simp [actSkip, actEmit]

theorem callback_canon : callback Facts.canon = cbCanon blStr :=
  callback_canon_gen Facts.canon blStr rfl rfl (fun cfg name isDir d => by
    rw [blCond_canon]; simp [valOf, blStr, aBaseEqOut, aIsDir, aBaseHidden, aNameEqDot, aNameHasPfx, aPfxHasName,
      aIsBuild, aInExp, aBlEqBase, aBlStrPfx])

theorem callback_canonComp : callback Facts.canonComp = cbCanon blComp :=
  callback_canon_gen Facts.canonComp blComp rfl rfl (fun cfg name isDir d => by
    simp only [Facts.canonComp]
    rw [blCond_comp]; simp [valOf, blComp, aBaseEqOut, aIsDir, aBaseHidden, aNameEqDot, aNameHasPfx, aPfxHasName,
      aIsBuild, aInExp, aBlEqBase, aBlStrPfx, aBlEqName, aBlSlashPfx])

/-! ### the repaired callback as data -/

/-- The repaired callback written out by hand: every `SkipDir` is guarded by `isDir`, the blacklist test is the
    whole-component one. -/
def cbRepaired (cfg : Config) (name : Name) (isDir : Bool) : Bool × Bool :=
  let b := base name
  if isDir && (b == plzOut || (['.'].isPrefixOf b && !(name == ['.']))) then (false, true)
  else if isDir && !cfg.pfx.isPrefixOf name && !name.isPrefixOf cfg.pfx then (false, true)
  else if cfg.buildNames.contains b && !isDir then (true, cfg.blacklist.any fun d => isDir && blComp name b d)
  else if isDir && cfg.experimental.contains name then (false, true)
  else (false, cfg.blacklist.any fun d => isDir && blComp name b d)

theorem condR1 (v : Val) : evalRPN v [1, 0, 2, 3, 100, 101, 102, 101] [] = some (v 1 && (v 0 || (v 2 && !v 3))) := by
  simp [evalRPN, opNot, opAnd, opOr, opTrue, opFalse]
theorem condR4 (v : Val) : evalRPN v [1, 7, 101] [] = some (v 1 && v 7) := by
  simp [evalRPN, opNot, opAnd, opOr, opTrue, opFalse]
theorem blCond_repaired (v : Val) : evalRPN v Facts.repaired.blCond [] = some (v 1 && (v 8 || v 10 || v 11)) := by
  simp [Facts.repaired, evalRPN, aIsDir, aBlEqBase, aBlEqName, aBlSlashPfx, opNot, opAnd, opOr, opTrue, opFalse]

theorem runChain_repaired (v : Val) : runChain v Facts.repaired.chain =
    if v 1 && (v 0 || (v 2 && !v 3)) then some actSkip
    else if v 1 && !v 4 && !v 5 then some actSkip
    else if v 6 && !v 1 then some actEmit
    else if v 1 && v 7 then some actSkip else none := by
  simp only [Facts.repaired, runChain, aBaseEqOut, aIsDir, aBaseHidden, aNameEqDot, aNameHasPfx,
    aPfxHasName, aIsBuild, aInExp, opNot, opAnd, opOr, condR1, cond2_canon, cond3_canon, condR4]
  cases v 0 <;> cases v 1 <;> cases v 2 <;> cases v 3 <;> cases v 4 <;> cases v 5 <;> cases v 6 <;> cases v 7 <;> rfl

theorem callback_repaired : callback Facts.repaired = cbRepaired := by
  funext cfg name isDir
  simp only [callback, runChain_repaired, blCond_repaired, cbRepaired]
  have v0 : valOf Facts.repaired cfg name isDir [] 0 = (base name == plzOut) := by simp [valOf, aBaseEqOut, Facts.repaired]
  have v1 : ∀ d, valOf Facts.repaired cfg name isDir d 1 = isDir := by intro d; simp [valOf, aBaseEqOut, aIsDir]
  have v2 : valOf Facts.repaired cfg name isDir [] 2 = ['.'].isPrefixOf (base name) := by
    simp [valOf, aBaseEqOut, aIsDir, aBaseHidden]
  have v3 : valOf Facts.repaired cfg name isDir [] 3 = (name == ['.']) := by
    simp [valOf, aBaseEqOut, aIsDir, aBaseHidden, aNameEqDot]
  have v4 : valOf Facts.repaired cfg name isDir [] 4 = cfg.pfx.isPrefixOf name := by
    simp [valOf, aBaseEqOut, aIsDir, aBaseHidden, aNameEqDot, aNameHasPfx]
  have v5 : valOf Facts.repaired cfg name isDir [] 5 = name.isPrefixOf cfg.pfx := by
    simp [valOf, aBaseEqOut, aIsDir, aBaseHidden, aNameEqDot, aNameHasPfx, aPfxHasName]
  have v6 : valOf Facts.repaired cfg name isDir [] 6 = cfg.buildNames.contains (base name) := by
    simp [valOf, aBaseEqOut, aIsDir, aBaseHidden, aNameEqDot, aNameHasPfx, aPfxHasName, aIsBuild]
  have v7 : valOf Facts.repaired cfg name isDir [] 7 = cfg.experimental.contains name := by
    simp [valOf, aBaseEqOut, aIsDir, aBaseHidden, aNameEqDot, aNameHasPfx, aPfxHasName, aIsBuild, aInExp]
  have vb : ∀ d, (valOf Facts.repaired cfg name isDir d 8 || valOf Facts.repaired cfg name isDir d 10 ||
      valOf Facts.repaired cfg name isDir d 11) = blComp name (base name) d := by
    intro d
    simp [valOf, blComp, aBaseEqOut, aIsDir, aBaseHidden, aNameEqDot, aNameHasPfx, aPfxHasName, aIsBuild, aInExp,
      aBlEqBase, aBlStrPfx, aBlEqName, aBlSlashPfx]
  have e : (fun d => some (valOf Facts.repaired cfg name isDir d 1 && (valOf Facts.repaired cfg name isDir d 8 ||
      valOf Facts.repaired cfg name isDir d 10 || valOf Facts.repaired cfg name isDir d 11)) == some true) =
      fun d => isDir && blComp name (base name) d := by
    funext d; rw [v1, vb]; cases (isDir && blComp name (base name) d) <;> rfl
  rw [v0, v1, v2, v3, v4, v5, v6, v7]
  simp only [e]
  generalize (base name == plzOut) = a0
  generalize List.isPrefixOf ['.'] (base name) = a2
  generalize (name == ['.']) = a3
  generalize cfg.pfx.isPrefixOf name = a4
  generalize name.isPrefixOf cfg.pfx = a5
  generalize cfg.buildNames.contains (base name) = a6
  generalize cfg.experimental.contains name = a7
  generalize cfg.blacklist.any _ = bl
  cases a0 <;> cases isDir <;> cases a2 <;> cases a3 <;> cases a4 <;> cases a5 <;> cases a6 <;> cases a7 <;>
    simp [actSkip, actEmit]

/-! ### walk = specification wherever the callback agrees with the specification node by node -/

theorem base_nameOf (p : List Name) (g : goodPath p = true) : base (nameOf p) = lastOr p := by
  rcases List.eq_nil_or_concat p with e | ⟨q, n, e⟩
  · subst e; simp [nameOf, lastOr, base]
  · subst e
    have gn : goodName n = true := by simp [goodPath] at g; exact g.2
    rw [List.concat_eq_append, base_nameOf_snoc q n gn, lastOr_snoc]

theorem goodPath_snoc {p : List Name} {n : Name} (g : goodPath p = true) (gn : goodName n = true) :
    goodPath (p ++ [n]) = true := by simp [goodPath] at g ⊢; exact ⟨g, gn⟩

/-- The callback's answers at a node coincide with what the specification wants there. -/
def agreeAt (cb : Name → Bool → Bool × Bool) (cut : Bool) (outDir : Name) (cfg : Config) (p : List Name) :
    Option Kind → Bool
  | none => cb (nameOf p) true == (false, specExcluded outDir cfg p)
  | some k => ((cb (nameOf p) false).1 == cfg.buildNames.contains (lastOr p)) &&
      !(cut && (cb (nameOf p) false).2 && k != .linkDir)

mutual
theorem walk_eq_spec (cb : Name → Bool → Bool × Bool) (cut : Bool) (od : Name) (cfg : Config) :
    ∀ (cs : Forest) (p : List Name), Forest.wf cs = true → goodPath p = true →
      allNodes (agreeAt cb cut od cfg) (specExcluded od cfg) p (.dir cs) = true →
      walk cb cut (nameOf p) (.dir cs) = (specNames od cfg p (.dir cs), false)
  | cs, p, w, g, h => by
    simp only [allNodes, Bool.and_eq_true, Bool.or_eq_true, agreeAt, beq_iff_eq] at h
    simp only [walk, specNames, spec, h.1]
    cases hx : specExcluded od cfg p with
    | true => simp
    | false =>
      have hF := h.2; simp only [hx, Bool.false_eq_true, false_or] at hF
      simp [walkF_eq_spec cb cut od cfg cs p w g hF]
theorem walkF_eq_spec (cb : Name → Bool → Bool × Bool) (cut : Bool) (od : Name) (cfg : Config) :
    ∀ (cs : Forest) (p : List Name), Forest.wf cs = true → goodPath p = true →
      allNodesF (agreeAt cb cut od cfg) (specExcluded od cfg) p cs = true →
      walkF cb cut (nameOf p) cs = (specF od cfg p cs).map nameOf
  | .nil, _, _, _, _ => by simp [walkF, specF]
  | .cons n t rest, p, w, g, h => by
    simp only [Forest.wf, Bool.and_eq_true] at w
    simp only [allNodesF, Bool.and_eq_true] at h
    have ih := walkF_eq_spec cb cut od cfg rest p w.2 g h.2
    have gp := goodPath_snoc g w.1.1
    cases t with
    | leaf k =>
      have h1 := h.1
      simp only [allNodes, agreeAt, Bool.and_eq_true, beq_iff_eq, lastOr_snoc, Bool.not_eq_true'] at h1
      simp only [walkF, walk, specF, ← nameOf_snoc p n g, h1.1, h1.2, ih]
      cases cfg.buildNames.contains n <;> simp
    | dir cs' =>
      have := walk_eq_spec cb cut od cfg cs' (p ++ [n]) (by simpa [Tree.wf] using w.1.2) gp h.1
      simp only [walkF, specF, ← nameOf_snoc p n g, this, ih, specNames]
      simp
end

mutual
theorem allNodes_mono (P Q : List Name → Option Kind → Bool) (stop : List Name → Bool)
    (hPQ : ∀ q k, goodPath q = true → P q k = true → Q q k = true) :
    ∀ (t : Tree) (p : List Name), Tree.wf t = true → goodPath p = true →
      allNodes P stop p t = true → allNodes Q stop p t = true
  | .leaf k, p, _, g, h => by simp only [allNodes] at h ⊢; exact hPQ p _ g h
  | .dir cs, p, w, g, h => by
    simp only [allNodes, Bool.and_eq_true, Bool.or_eq_true] at h ⊢
    refine ⟨hPQ p _ g h.1, ?_⟩
    rcases h.2 with h2 | h2
    · exact Or.inl h2
    · exact Or.inr (allNodesF_mono P Q stop hPQ cs p (by simpa [Tree.wf] using w) g h2)
theorem allNodesF_mono (P Q : List Name → Option Kind → Bool) (stop : List Name → Bool)
    (hPQ : ∀ q k, goodPath q = true → P q k = true → Q q k = true) :
    ∀ (cs : Forest) (p : List Name), Forest.wf cs = true → goodPath p = true →
      allNodesF P stop p cs = true → allNodesF Q stop p cs = true
  | .nil, _, _, _, _ => by simp [allNodesF]
  | .cons n t rest, p, w, g, h => by
    simp only [Forest.wf, Bool.and_eq_true] at w
    simp only [allNodesF, Bool.and_eq_true] at h ⊢
    exact ⟨allNodes_mono P Q stop hPQ t (p ++ [n]) w.1.2 (goodPath_snoc g w.1.1) h.1,
           allNodesF_mono P Q stop hPQ rest p w.2 g h.2⟩
end

mutual
theorem allNodes_true (stop : List Name → Bool) : ∀ (t : Tree) (p : List Name),
    allNodes (fun _ _ => true) stop p t = true
  | .leaf _, _ => by simp [allNodes]
  | .dir cs, p => by simp [allNodes, allNodesF_true stop cs p]
theorem allNodesF_true (stop : List Name → Bool) : ∀ (cs : Forest) (p : List Name),
    allNodesF (fun _ _ => true) stop p cs = true
  | .nil, _ => by simp [allNodesF]
  | .cons n t rest, p => by simp [allNodesF, allNodes_true stop t (p ++ [n]), allNodesF_true stop rest p]
end

/-! ### the canonical callback against the specification, node by node -/

theorem isPrefixOf_dot (b : Name) : ['.'].isPrefixOf b = hiddenName b := by
  cases b with
  | nil => rfl
  | cons c r =>
    by_cases h : c = '.'
    · subst h; simp [hiddenName, List.isPrefixOf]
    · have : hiddenName (c :: r) = false := by
        unfold hiddenName; split
        · rename_i e; injection e with e1 _; exact absurd e1 h
        · rfl
      simp [this, List.isPrefixOf]; exact fun e => h e.symm

/-- Whole-component test on strings = component match (the content of "matched as whole path components"). -/
theorem blComp_eq (q : List Name) (d : Name) (g : goodPath q = true) :
    blComp (nameOf q) (lastOr q) d = (d == lastOr q || compMatch d q) := by
  cases q with
  | nil =>
    have : (d ++ ['/']).isPrefixOf ['.'] = false := by
      cases d with
      | nil => simp [List.isPrefixOf]
      | cons c r => cases r <;> simp [List.isPrefixOf]
    simp [blComp, nameOf, lastOr, compMatch, this]
  | cons a r =>
    have hne : (a :: r) ≠ [] := by simp
    simp only [blComp, nameOf, List.isEmpty_cons, Bool.false_eq_true, if_false, Bool.or_assoc]
    congr 1
    rw [Bool.eq_iff_iff]
    simp only [Bool.or_eq_true, beq_iff_eq, List.isPrefixOf_iff_prefix, compMatch_iff]
    constructor
    · intro h; exact compMatch_of_slash (a :: r) d hne g h
    · rintro ⟨k, hk, e⟩; exact slash_of_compMatch (a :: r) d k hk e

theorem blStr_of_comp (q : List Name) (d : Name) (h : (d == lastOr q || compMatch d q) = true) :
    blStr (nameOf q) (lastOr q) d = true := by
  simp only [Bool.or_eq_true] at h
  rcases h with h | h
  · simp [blStr, h]
  · have hp := prefix_of_compMatch q d h
    have hq : q ≠ [] := by
      intro e; subst e; simp [compMatch] at h
    have : nameOf q = joinSlash q := by cases q <;> simp_all [nameOf]
    simp [blStr, this, List.isPrefixOf_iff_prefix, hp]

/-- Configuration sanity the theorems need: the walk is not restricted by a prefix (as in `//dir/...`)
    and `plz-out` is not configured as a BUILD file name. -/
def cfgOK (outDir : Name) (cfg : Config) : Bool := cfg.pfx.isEmpty && !cfg.buildNames.contains outDir

theorem cbCanon_dir (blT : Name → Name → Name → Bool) (cfg : Config) (q : List Name)
    (hp : cfg.pfx = []) (g : goodPath q = true) :
    cbCanon blT cfg (nameOf q) true =
      (false, lastOr q == plzOut || (!q.isEmpty && hiddenName (lastOr q)) || cfg.experimental.contains (nameOf q) ||
        cfg.blacklist.any (blT (nameOf q) (lastOr q))) := by
  simp only [cbCanon, base_nameOf q g, isPrefixOf_dot, nameOf_ne_dot q g, hp, List.isPrefixOf, Bool.not_true,
    Bool.and_false, Bool.false_and, Bool.true_and, Bool.false_eq_true, if_false]
  cases lastOr q == plzOut <;> cases hiddenName (lastOr q) <;> cases q.isEmpty <;>
    cases cfg.experimental.contains (nameOf q) <;> simp

theorem cbCanon_leaf (blT : Name → Name → Name → Bool) (cfg : Config) (q : List Name) (g : goodPath q = true) :
    cbCanon blT cfg (nameOf q) false =
      if lastOr q == plzOut then (false, true)
      else if cfg.buildNames.contains (lastOr q) then (true, cfg.blacklist.any (blT (nameOf q) (lastOr q)))
      else if cfg.experimental.contains (nameOf q) then (false, true)
      else (false, cfg.blacklist.any (blT (nameOf q) (lastOr q))) := by
  simp only [cbCanon, base_nameOf q g, Bool.false_and, Bool.or_false, Bool.not_false, Bool.and_true,
    Bool.false_eq_true, if_false]

theorem any_congr_of {α} (l : List α) (f g : α → Bool) (h : ∀ a ∈ l, f a = g a) : l.any f = l.any g := by
  induction l with
  | nil => rfl
  | cons a l ih => simp only [List.any_cons, h a (by simp), ih (fun b hb => h b (by simp [hb]))]

/-- Benign node ⇒ the canonical callback answers as the specification wants (for a blacklist test that at
    least matches whole components). -/
theorem agree_of_benign (blT : Name → Name → Name → Bool) (cut : Bool) (cfg : Config)
    (hsound : ∀ q d, goodPath q = true → (d == lastOr q || compMatch d q) = true → blT (nameOf q) (lastOr q) d = true)
    (hc : cfgOK plzOut cfg = true) (q : List Name) (k : Option Kind) (g : goodPath q = true)
    (hb : benignAt blT plzOut cfg q k = true) : agreeAt (cbCanon blT cfg) cut plzOut cfg q k = true := by
  simp only [cfgOK, Bool.and_eq_true, List.isEmpty_iff, Bool.not_eq_true'] at hc
  cases k with
  | none =>
    simp only [agreeAt, beq_iff_eq, cbCanon_dir blT cfg q hc.1 g, specExcluded]
    congr 2
    apply any_congr_of
    intro d hd
    simp only [benignAt, List.all_eq_true, Bool.or_eq_true, Bool.not_eq_true'] at hb
    have h1 := hb d hd
    have h2 := hsound q d g
    cases hx : blT (nameOf q) (lastOr q) d with
    | true => simp only [hx, Bool.true_eq_false, false_or] at h1; symm; simpa using h1
    | false =>
      cases hy : (d == lastOr q || compMatch d q) with
      | false => rfl
      | true => rw [h2 hy] at hx; exact absurd hx (by simp)
  | some k =>
    simp only [agreeAt, cbCanon_leaf blT cfg q g]
    simp only [benignAt, Bool.or_eq_true, beq_iff_eq, Bool.not_eq_true', Bool.or_eq_false_iff,
      Bool.and_eq_false_imp, Bool.not_eq_true'] at hb
    by_cases ho : (lastOr q == plzOut) = true
    · have : cfg.buildNames.contains (lastOr q) = false := by
        rw [beq_iff_eq] at ho; rw [ho]; exact hc.2
      have this' : lastOr q ∉ cfg.buildNames := by simpa using this
      rcases hb with hk | hb
      · simp [ho, this', hk]
      · simp [ho] at hb
    · simp only [ho, if_false]
      rcases hb with hk | hb
      · cases cfg.buildNames.contains (lastOr q) <;> cases cfg.experimental.contains (nameOf q) <;> simp [hk]
      · cases h6 : cfg.buildNames.contains (lastOr q) <;> cases h7 : cfg.experimental.contains (nameOf q) <;>
          simp_all

/-- The repaired callback: whole-component blacklist test, and `SkipDir` only ever returned for directories. -/
def cbFixed (cfg : Config) (name : Name) (isDir : Bool) : Bool × Bool :=
  let r := cbCanon blComp cfg name isDir
  (r.1, r.2 && isDir)

theorem agree_fixed (cut : Bool) (cfg : Config) (hc : cfgOK plzOut cfg = true) (q : List Name) (k : Option Kind)
    (g : goodPath q = true) : agreeAt (cbFixed cfg) cut plzOut cfg q k = true := by
  simp only [cfgOK, Bool.and_eq_true, List.isEmpty_iff, Bool.not_eq_true'] at hc
  cases k with
  | none =>
    simp only [agreeAt, beq_iff_eq, cbFixed, cbCanon_dir blComp cfg q hc.1 g, specExcluded, Bool.and_true]
    congr 2
    apply any_congr_of
    intro d _
    exact blComp_eq q d g
  | some k =>
    simp only [agreeAt, cbFixed, cbCanon_leaf blComp cfg q g]
    by_cases ho : (lastOr q == plzOut) = true
    · have : cfg.buildNames.contains (lastOr q) = false := by
        rw [beq_iff_eq] at ho; rw [ho]; exact hc.2
      have this' : lastOr q ∉ cfg.buildNames := by simpa using this
      simp [ho, this']
    · simp only [ho, if_false]
      cases cfg.buildNames.contains (lastOr q) <;> cases cfg.experimental.contains (nameOf q) <;> simp

theorem any_false_and {α} (l : List α) (f : α → Bool) : (l.any fun d => false && f d) = false := by
  induction l <;> simp_all

/-- The repaired callback answers as the specification wants at *every* node -- no benign condition, and no
    assumption about `plz-out` as a BUILD file name. -/
theorem agree_repaired (cut : Bool) (cfg : Config) (hp : cfg.pfx = []) (q : List Name) (k : Option Kind)
    (g : goodPath q = true) : agreeAt (cbRepaired cfg) cut plzOut cfg q k = true := by
  cases k with
  | none =>
    have hdir : cbRepaired cfg (nameOf q) true =
        (false, lastOr q == plzOut || (!q.isEmpty && hiddenName (lastOr q)) || cfg.experimental.contains (nameOf q) ||
          cfg.blacklist.any (blComp (nameOf q) (lastOr q))) := by
      simp only [cbRepaired, base_nameOf q g, isPrefixOf_dot, nameOf_ne_dot q g, hp, List.isPrefixOf, Bool.not_true,
        Bool.and_false, Bool.false_and, Bool.true_and, Bool.false_eq_true, if_false]
      cases lastOr q == plzOut <;> cases hiddenName (lastOr q) <;> cases q.isEmpty <;>
        cases cfg.experimental.contains (nameOf q) <;> simp
    simp only [agreeAt, beq_iff_eq, hdir, specExcluded]
    congr 2
    apply any_congr_of
    intro d _
    exact blComp_eq q d g
  | some k =>
    have hleaf : cbRepaired cfg (nameOf q) false = (cfg.buildNames.contains (lastOr q), false) := by
      simp only [cbRepaired, base_nameOf q g, Bool.false_and, Bool.false_eq_true, if_false, Bool.not_false, Bool.and_true,
        any_false_and]
      cases cfg.buildNames.contains (lastOr q) <;> simp
    simp [agreeAt, hleaf]

/-! ### soundness: nothing outside the specification is ever produced (any prefix, with or without the cut) -/

mutual
theorem walk_sound (cb : Name → Bool → Bool × Bool) (cut : Bool) (od : Name) (cfg : Config)
    (hd : ∀ q, goodPath q = true → (cb (nameOf q) true).1 = false ∧
      (specExcluded od cfg q = true → (cb (nameOf q) true).2 = true))
    (hl : ∀ q, goodPath q = true → (cb (nameOf q) false).1 = true → cfg.buildNames.contains (lastOr q) = true) :
    ∀ (cs : Forest) (p : List Name), Forest.wf cs = true → goodPath p = true →
      ∀ x ∈ (walk cb cut (nameOf p) (.dir cs)).1, x ∈ specNames od cfg p (.dir cs)
  | cs, p, w, g, x, hx => by
    have h1 := hd p g
    simp only [walk, h1.1, Bool.false_eq_true, if_false, List.nil_append] at hx
    cases he : specExcluded od cfg p with
    | true => simp [h1.2 he] at hx
    | false =>
      simp only [specNames, spec, he, Bool.false_eq_true, if_false]
      cases h2 : (cb (nameOf p) true).2 with
      | true => simp [h2] at hx
      | false =>
        simp only [h2, Bool.false_eq_true, if_false] at hx
        exact walkF_sound cb cut od cfg hd hl cs p w g x hx
theorem walkF_sound (cb : Name → Bool → Bool × Bool) (cut : Bool) (od : Name) (cfg : Config)
    (hd : ∀ q, goodPath q = true → (cb (nameOf q) true).1 = false ∧
      (specExcluded od cfg q = true → (cb (nameOf q) true).2 = true))
    (hl : ∀ q, goodPath q = true → (cb (nameOf q) false).1 = true → cfg.buildNames.contains (lastOr q) = true) :
    ∀ (cs : Forest) (p : List Name), Forest.wf cs = true → goodPath p = true →
      ∀ x ∈ walkF cb cut (nameOf p) cs, x ∈ (specF od cfg p cs).map nameOf
  | .nil, _, _, _, x, hx => by simp [walkF] at hx
  | .cons n t rest, p, w, g, x, hx => by
    simp only [Forest.wf, Bool.and_eq_true] at w
    have gp := goodPath_snoc g w.1.1
    have ih := walkF_sound cb cut od cfg hd hl rest p w.2 g x
    simp only [walkF, ← nameOf_snoc p n g] at hx
    have hx' : x ∈ (walk cb cut (nameOf (p ++ [n])) t).1 ∨ x ∈ walkF cb cut (nameOf p) rest := by
      split at hx
      · exact Or.inl hx
      · exact List.mem_append.mp hx
    cases t with
    | leaf k =>
      simp only [specF, List.map_append, List.mem_append]
      rcases hx' with h | h
      · left
        simp only [walk] at h
        by_cases hb : (cb (nameOf (p ++ [n])) false).1 = true
        · have := hl (p ++ [n]) gp hb
          rw [lastOr_snoc] at this
          simp only [hb, if_true, List.mem_singleton] at h
          simp only [this, if_true, List.map_cons, List.map_nil, List.mem_singleton, h]
        · simp [hb] at h
      · right; exact ih h
    | dir cs' =>
      simp only [specF, List.map_append, List.mem_append]
      rcases hx' with h | h
      · left
        exact walk_sound cb cut od cfg hd hl cs' (p ++ [n]) (by simpa [Tree.wf] using w.1.2) gp x h
      · right; exact ih h
end

theorem cbCanon_sound_dir (blT : Name → Name → Name → Bool) (cfg : Config)
    (hsound : ∀ q d, goodPath q = true → (d == lastOr q || compMatch d q) = true → blT (nameOf q) (lastOr q) d = true)
    (q : List Name) (g : goodPath q = true) :
    (cbCanon blT cfg (nameOf q) true).1 = false ∧
      (specExcluded plzOut cfg q = true → (cbCanon blT cfg (nameOf q) true).2 = true) := by
  have hany : (cfg.blacklist.any fun d => d == lastOr q || compMatch d q) = true →
      cfg.blacklist.any (blT (nameOf q) (lastOr q)) = true := by
    simp only [List.any_eq_true]
    rintro ⟨d, hd, h⟩; exact ⟨d, hd, hsound q d g h⟩
  simp only [cbCanon, base_nameOf q g, isPrefixOf_dot, nameOf_ne_dot q g, specExcluded, Bool.not_true,
    Bool.and_false, Bool.true_and]
  constructor
  · split
    · rfl
    · split
      · rfl
      · simp only [Bool.false_eq_true, if_false]; split <;> rfl
  · intro h
    simp only [Bool.or_eq_true] at h
    split
    · rfl
    · rename_i h1
      split
      · rfl
      · simp only [Bool.false_eq_true, if_false]
        split
        · rfl
        · rename_i h3
          rcases h with ((h | h) | h) | h
          · simp [h] at h1
          · simp only [Bool.and_eq_true] at h; simp [h.1, h.2] at h1
          · exact absurd h h3
          · exact hany h

theorem cbCanon_sound_leaf (blT : Name → Name → Name → Bool) (cfg : Config) (q : List Name) (g : goodPath q = true)
    (h : (cbCanon blT cfg (nameOf q) false).1 = true) : cfg.buildNames.contains (lastOr q) = true := by
  rw [cbCanon_leaf blT cfg q g] at h
  split at h
  · simp at h
  · split at h
    · assumption
    · split at h <;> simp at h

/-! ### sorting the directory listing changes neither the specification (as a set) nor benignity -/

theorem specF_insert (od : Name) (cfg : Config) (p : List Name) (n : Name) (t : Tree) :
    ∀ (f : Forest), (specF od cfg p (Forest.insert n t f)).Perm (specF od cfg p (.cons n t f))
  | .nil => by simp [Forest.insert]
  | .cons m u rest => by
    simp only [Forest.insert]
    split
    · exact List.Perm.refl _
    · have ih := specF_insert od cfg p n t rest
      cases t <;> cases u <;> simp only [specF] at ih ⊢ <;>
        exact ((List.Perm.append_left _ ih).trans (by
          simp only [← List.append_assoc]; exact List.Perm.append_right _ List.perm_append_comm))

theorem allNodesF_insert (P : List Name → Option Kind → Bool) (stop : List Name → Bool) (p : List Name)
    (n : Name) (t : Tree) : ∀ (f : Forest),
    allNodesF P stop p (Forest.insert n t f) = allNodesF P stop p (.cons n t f)
  | .nil => by simp [Forest.insert]
  | .cons m u rest => by
    simp only [Forest.insert]
    split
    · rfl
    · simp only [allNodesF, allNodesF_insert P stop p n t rest]
      simp only [← Bool.and_assoc, Bool.and_comm (allNodes P stop (p ++ [m]) u)]

theorem wf_insert (n : Name) (t : Tree) : ∀ (f : Forest),
    Forest.wf (Forest.insert n t f) = Forest.wf (.cons n t f)
  | .nil => by simp [Forest.insert]
  | .cons m u rest => by
    simp only [Forest.insert]
    split
    · rfl
    · simp only [Forest.wf, wf_insert n t rest]
      cases goodName m <;> cases goodName n <;> cases Tree.wf u <;> cases Tree.wf t <;> simp

mutual
theorem spec_sort (od : Name) (cfg : Config) : ∀ (t : Tree) (p : List Name),
    (spec od cfg p t.sort).Perm (spec od cfg p t)
  | .leaf _, _ => by simp [Tree.sort, spec]
  | .dir cs, p => by
    simp only [Tree.sort, spec]
    split
    · exact List.Perm.refl _
    · exact specF_sort od cfg cs p
theorem specF_sort (od : Name) (cfg : Config) : ∀ (f : Forest) (p : List Name),
    (specF od cfg p f.sort).Perm (specF od cfg p f)
  | .nil, _ => by simp [Forest.sort]
  | .cons n t rest, p => by
    simp only [Forest.sort]
    refine (specF_insert od cfg p n t.sort rest.sort).trans ?_
    have ih := specF_sort od cfg rest p
    cases t with
    | leaf k => simp only [Tree.sort, specF]; exact List.Perm.append_left _ ih
    | dir cs =>
      have it := spec_sort od cfg (.dir cs) (p ++ [n])
      simp only [Tree.sort] at it
      simp only [Tree.sort, specF]
      exact List.Perm.append it ih
end

mutual
theorem allNodes_sort (P : List Name → Option Kind → Bool) (stop : List Name → Bool) : ∀ (t : Tree) (p : List Name),
    allNodes P stop p t.sort = allNodes P stop p t
  | .leaf _, _ => by simp [Tree.sort]
  | .dir cs, p => by simp only [Tree.sort, allNodes, allNodesF_sort P stop cs p]
theorem allNodesF_sort (P : List Name → Option Kind → Bool) (stop : List Name → Bool) : ∀ (f : Forest) (p : List Name),
    allNodesF P stop p f.sort = allNodesF P stop p f
  | .nil, _ => by simp [Forest.sort]
  | .cons n t rest, p => by
    simp only [Forest.sort, allNodesF_insert, allNodesF, allNodes_sort P stop t (p ++ [n]), allNodesF_sort P stop rest p]
end

mutual
theorem wf_sort : ∀ (t : Tree), Tree.wf t.sort = Tree.wf t
  | .leaf _ => by simp [Tree.sort]
  | .dir cs => by simp only [Tree.sort, Tree.wf, wfF_sort cs]
theorem wfF_sort : ∀ (f : Forest), Forest.wf f.sort = Forest.wf f
  | .nil => by simp [Forest.sort]
  | .cons n t rest => by simp only [Forest.sort, wf_insert, Forest.wf, wf_sort t, wfF_sort rest]
end

/-! ### soundness of the repaired callback for any prefix argument -/

theorem cbRepaired_sound_dir (cfg : Config) (q : List Name) (g : goodPath q = true) :
    (cbRepaired cfg (nameOf q) true).1 = false ∧
      (specExcluded plzOut cfg q = true → (cbRepaired cfg (nameOf q) true).2 = true) := by
  have hany : (cfg.blacklist.any fun d => d == lastOr q || compMatch d q) = true →
      (cfg.blacklist.any fun d => true && blComp (nameOf q) (lastOr q) d) = true := by
    simp only [List.any_eq_true, Bool.true_and]
    rintro ⟨d, hd, h⟩; exact ⟨d, hd, by rw [blComp_eq q d g]; exact h⟩
  simp only [cbRepaired, base_nameOf q g, isPrefixOf_dot, nameOf_ne_dot q g, specExcluded, Bool.not_true,
    Bool.and_false, Bool.true_and]
  constructor
  · split
    · rfl
    · split
      · rfl
      · simp only [Bool.false_eq_true, if_false]; split <;> rfl
  · intro h
    simp only [Bool.or_eq_true] at h
    split
    · rfl
    · rename_i h1
      split
      · rfl
      · simp only [Bool.false_eq_true, if_false]
        split
        · rfl
        · rename_i h3
          rcases h with ((h | h) | h) | h
          · simp [h] at h1
          · simp only [Bool.and_eq_true] at h; simp [h.1, h.2] at h1
          · exact absurd h h3
          · exact hany h

theorem cbRepaired_sound_leaf (cfg : Config) (q : List Name) (g : goodPath q = true)
    (h : (cbRepaired cfg (nameOf q) false).1 = true) : cfg.buildNames.contains (lastOr q) = true := by
  simp only [cbRepaired, base_nameOf q g, Bool.false_and, Bool.false_eq_true, if_false, Bool.not_false, Bool.and_true] at h
  split at h
  · assumption
  · simp at h

end PlzVerif.Walk
