import PlzVerif.Model.TestResults
/-! Lemmas for C26: the bucket identity, `Add` as a keyed merge, the flake loop as a fold over the executed runs. -/
namespace PlzVerif.TestResults

/-- A case that succeeded only after at least one failing or erroring execution, and was never skipped. -/
def isFlakyOnly (c : Case) : Bool := c.hasSuccess && !c.hasSkip && (c.hasFailure || c.hasError)

def b2n (b : Bool) : Nat := if b then 1 else 0

/-- Every case falls into exactly one of: passed, errored, failed, skipped, flaky-only. -/
theorem bucket_sum_one (c : Case) :
    b2n (isPass c) + b2n (isError c) + b2n (isFailure c) + b2n (isSkip c) + b2n (isFlakyOnly c) = 1 := by
  unfold isPass isError isFailure isSkip isFlakyOnly
  cases c.hasSuccess <;> cases c.hasSkip <;> cases c.hasFailure <;> cases c.hasError <;> rfl

theorem countP_eq_sum (p : Case → Bool) (l : List Case) : l.countP p = (l.map fun c => b2n (p c)).sum := by
  induction l with
  | nil => rfl
  | cons x xs ih =>
    simp only [List.countP_cons, List.map_cons, List.sum_cons, ih, b2n]
    cases p x <;> simp <;> omega

def flakyOnly (l : List Case) : Nat := l.countP isFlakyOnly

theorem tests_eq_buckets (l : List Case) :
    tests l = passes l + errors l + failures l + skips l + flakyOnly l := by
  unfold tests passes errors failures skips flakyOnly
  induction l with
  | nil => rfl
  | cons x xs ih =>
    have h := bucket_sum_one x
    simp only [List.countP_cons, List.length_cons, b2n] at *
    cases h1 : isPass x <;> cases h2 : isError x <;> cases h3 : isFailure x <;> cases h4 : isSkip x <;>
      cases h5 : isFlakyOnly x <;> simp_all <;> omega

/-! ### executions -/

def Exec.ok (e : Exec) : Bool := e.isSuccess || e.skip

theorem hasSuccess_or_skip (c : Case) : (c.hasSuccess || c.hasSkip) = c.execs.any Exec.ok := by
  unfold Case.hasSuccess Case.hasSkip Exec.ok
  induction c.execs with
  | nil => rfl
  | cons e es ih =>
    simp only [List.any_cons]
    rw [← ih]
    cases e.isSuccess <;> cases e.skip <;> cases es.any Exec.isSuccess <;> cases es.any (·.skip) <;> rfl

theorem allSucceeded_iff (l : List Case) :
    allSucceeded l = true ↔ ∀ c ∈ l, ∃ e ∈ c.execs, e.ok = true := by
  unfold allSucceeded
  simp only [List.all_eq_true, hasSuccess_or_skip, List.any_eq_true]

/-! ### Add -/

abbrev Key := String × String
def Case.key (c : Case) : Key := (c.name, c.cls)
def keys (l : List Case) : List Key := l.map Case.key

theorem sameKey_iff (a b : Case) : sameKey a b = true ↔ a.key = b.key := by
  simp [sameKey, Case.key, Prod.ext_iff]

/-- Some case with key `k` has execution `e`. -/
def Has (l : List Case) (k : Key) (e : Exec) : Prop := ∃ x ∈ l, x.key = k ∧ e ∈ x.execs

theorem keys_add1 (l : List Case) (c : Case) :
    keys (add1 l c) = if c.key ∈ keys l then keys l else keys l ++ [c.key] := by
  induction l with
  | nil => simp [add1, keys]
  | cons x xs ih =>
    unfold add1
    by_cases h : sameKey x c = true
    · have hk := (sameKey_iff x c).mp h
      simp [h, keys, Case.key] at hk ⊢
      simp [hk]
    · have hk : ¬ x.key = c.key := fun e => h ((sameKey_iff x c).mpr e)
      have hk' : ¬ c.key = x.key := fun e => hk e.symm
      simp only [h, Bool.false_eq_true, if_false]
      simp only [keys, List.map_cons, List.mem_cons, hk', false_or] at ih ⊢
      rw [ih]
      by_cases hm : c.key ∈ List.map Case.key xs <;> simp [hm]

theorem keys_add1_nodup (l : List Case) (c : Case) (h : (keys l).Nodup) : (keys (add1 l c)).Nodup := by
  rw [keys_add1]
  by_cases hm : c.key ∈ keys l
  · simp [hm, h]
  · simp only [hm, if_false]
    rw [List.nodup_append]
    refine ⟨h, by simp, ?_⟩
    intro a ha b hb
    simp only [List.mem_singleton] at hb
    subst hb; intro e; subst e; exact hm ha

theorem mem_keys_add1 (l : List Case) (c : Case) (k : Key) : k ∈ keys (add1 l c) ↔ k ∈ keys l ∨ k = c.key := by
  rw [keys_add1]
  by_cases hm : c.key ∈ keys l
  · simp only [hm, if_true]
    constructor
    · exact Or.inl
    · rintro (h | h)
      · exact h
      · subst h; exact hm
  · simp [hm]

theorem has_add1 (l : List Case) (c : Case) (k : Key) (e : Exec) :
    Has (add1 l c) k e ↔ Has l k e ∨ (c.key = k ∧ e ∈ c.execs) := by
  induction l with
  | nil => simp [add1, Has]
  | cons x xs ih =>
    unfold add1
    by_cases h : sameKey x c = true
    · have hk := (sameKey_iff x c).mp h
      simp only [h, if_true, Has, List.mem_cons, exists_eq_or_imp, List.mem_append]
      simp only [Case.key] at hk ⊢
      constructor
      · rintro (⟨h1, h2 | h2⟩ | h2)
        · exact Or.inl (Or.inl ⟨h1, h2⟩)
        · exact Or.inr ⟨hk ▸ h1, h2⟩
        · exact Or.inl (Or.inr h2)
      · rintro ((⟨h1, h2⟩ | h2) | ⟨h1, h2⟩)
        · exact Or.inl ⟨h1, Or.inl h2⟩
        · exact Or.inr h2
        · exact Or.inl ⟨hk ▸ h1, Or.inr h2⟩
    · simp only [h, Bool.false_eq_true, if_false]
      have : Has (x :: add1 xs c) k e ↔ (x.key = k ∧ e ∈ x.execs) ∨ Has (add1 xs c) k e := by
        simp [Has]
      rw [this, ih]
      have : Has (x :: xs) k e ↔ (x.key = k ∧ e ∈ x.execs) ∨ Has xs k e := by simp [Has]
      rw [this]
      constructor
      · rintro (h1 | h1 | h1)
        · exact Or.inl (Or.inl h1)
        · exact Or.inl (Or.inr h1)
        · exact Or.inr h1
      · rintro ((h1 | h1) | h1)
        · exact Or.inl h1
        · exact Or.inr (Or.inl h1)
        · exact Or.inr (Or.inr h1)

/-- Some case of `cs` has key `k` and execution `e`. -/
theorem has_addAll (acc cs : List Case) (k : Key) (e : Exec) :
    Has (addAll acc cs) k e ↔ Has acc k e ∨ Has cs k e := by
  unfold addAll
  induction cs generalizing acc with
  | nil => simp [Has]
  | cons c rest ih =>
    rw [List.foldl_cons, ih, has_add1]
    have : Has (c :: rest) k e ↔ (c.key = k ∧ e ∈ c.execs) ∨ Has rest k e := by simp [Has]
    rw [this]
    constructor
    · rintro ((h | h) | h)
      · exact Or.inl h
      · exact Or.inr (Or.inl h)
      · exact Or.inr (Or.inr h)
    · rintro (h | h | h)
      · exact Or.inl (Or.inl h)
      · exact Or.inl (Or.inr h)
      · exact Or.inr h

theorem mem_keys_addAll (acc cs : List Case) (k : Key) : k ∈ keys (addAll acc cs) ↔ k ∈ keys acc ∨ k ∈ keys cs := by
  unfold addAll
  induction cs generalizing acc with
  | nil => simp [keys]
  | cons c rest ih =>
    rw [List.foldl_cons, ih, mem_keys_add1]
    simp only [keys, List.map_cons, List.mem_cons]
    constructor
    · rintro ((h | h) | h)
      · exact Or.inl h
      · exact Or.inr (Or.inl h)
      · exact Or.inr (Or.inr h)
    · rintro (h | h | h)
      · exact Or.inl (Or.inl h)
      · exact Or.inl (Or.inr h)
      · exact Or.inr h

theorem keys_addAll_nodup (acc cs : List Case) (h : (keys acc).Nodup) : (keys (addAll acc cs)).Nodup := by
  unfold addAll
  induction cs generalizing acc with
  | nil => exact h
  | cons c rest ih => rw [List.foldl_cons]; exact ih _ (keys_add1_nodup acc c h)

/-- With distinct keys, "every case has an ok execution" can be read key by key. -/
theorem allSucceeded_keyed (l : List Case) (hn : (keys l).Nodup) :
    allSucceeded l = true ↔ ∀ k ∈ keys l, ∃ e, Has l k e ∧ e.ok = true := by
  rw [allSucceeded_iff]
  constructor
  · intro h k hk
    simp only [keys, List.mem_map] at hk
    obtain ⟨c, hc, rfl⟩ := hk
    obtain ⟨e, he, hok⟩ := h c hc
    exact ⟨e, ⟨c, hc, rfl, he⟩, hok⟩
  · intro h c hc
    obtain ⟨e, ⟨x, hx, hxk, hxe⟩, hok⟩ := h c.key (List.mem_map_of_mem hc)
    -- distinct keys: x = c
    have : x = c := by
      clear h hok hxe
      induction l with
      | nil => simp at hc
      | cons y ys ih =>
        simp only [keys, List.map_cons, List.nodup_cons, List.mem_map, not_exists, not_and] at hn
        simp only [List.mem_cons] at hc hx
        rcases hx with rfl | hx <;> rcases hc with rfl | hc
        · rfl
        · exact absurd hxk.symm (hn.1 c hc)
        · exact absurd hxk (hn.1 x hx)
        · exact ih hn.2 hc hx
    subst this
    exact ⟨e, hxe, hok⟩

/-! ### the flake loop -/

theorem flakeLoop_eq (n : Nat) (runs : List (List Case)) (acc : List Case) :
    flakeLoop n runs acc = (executedRuns n runs).foldl addAll acc := by
  induction n generalizing runs acc with
  | zero => cases runs <;> simp [flakeLoop, executedRuns]
  | succ n ih =>
    cases runs with
    | nil => simp [flakeLoop, executedRuns]
    | cons run rest =>
      simp only [flakeLoop, executedRuns]
      by_cases h : allSucceeded run = true
      · simp [h]
      · simp [h, ih]

theorem executedRuns_length (n : Nat) (runs : List (List Case)) : (executedRuns n runs).length ≤ n := by
  induction n generalizing runs with
  | zero => cases runs <;> simp [executedRuns]
  | succ n ih =>
    cases runs with
    | nil => simp [executedRuns]
    | cons run rest =>
      simp only [executedRuns]
      by_cases h : allSucceeded run = true
      · simp [h]
      · simp only [h, Bool.false_eq_true, if_false, List.length_cons]; have := ih rest; omega

theorem executedRuns_prefix (n : Nat) (runs : List (List Case)) : (executedRuns n runs).IsPrefix runs := by
  induction n generalizing runs with
  | zero => cases runs <;> simp [executedRuns]
  | succ n ih =>
    cases runs with
    | nil => simp [executedRuns]
    | cons run rest =>
      simp only [executedRuns]
      by_cases h : allSucceeded run = true
      · simp only [h, if_true]; exact ⟨rest, rfl⟩
      · simp only [h, Bool.false_eq_true, if_false]
        obtain ⟨t, ht⟩ := ih rest
        exact ⟨t, by simp [ht]⟩

/-- Only the last executed run can be one in which everything succeeded. -/
theorem executedRuns_stop (n : Nat) (runs : List (List Case)) (pre : List (List Case)) (r : List Case)
    (post : List (List Case)) (h : executedRuns n runs = pre ++ r :: post) (hr : allSucceeded r = true) : post = [] := by
  induction n generalizing runs pre with
  | zero => cases runs <;> simp [executedRuns] at h
  | succ n ih =>
    cases runs with
    | nil => simp [executedRuns] at h
    | cons run rest =>
      simp only [executedRuns] at h
      by_cases hs : allSucceeded run = true
      · simp only [hs, if_true] at h
        cases pre with
        | nil => simp at h; exact h.2
        | cons p ps => simp at h
      · simp only [hs, Bool.false_eq_true, if_false] at h
        cases pre with
        | nil => simp at h; rw [h.1] at hs; exact absurd hr hs
        | cons p ps => simp at h; exact ih rest ps h.2

theorem foldl_addAll_has (rs : List (List Case)) (acc : List Case) (k : Key) (e : Exec) :
    Has (rs.foldl addAll acc) k e ↔ Has acc k e ∨ ∃ r ∈ rs, Has r k e := by
  induction rs generalizing acc with
  | nil => simp
  | cons r rest ih =>
    rw [List.foldl_cons, ih, has_addAll]
    simp only [List.mem_cons, exists_eq_or_imp]
    constructor
    · rintro ((h | h) | h)
      · exact Or.inl h
      · exact Or.inr (Or.inl h)
      · exact Or.inr (Or.inr h)
    · rintro (h | h | h)
      · exact Or.inl (Or.inl h)
      · exact Or.inl (Or.inr h)
      · exact Or.inr h

theorem foldl_addAll_keys (rs : List (List Case)) (acc : List Case) (k : Key) :
    k ∈ keys (rs.foldl addAll acc) ↔ k ∈ keys acc ∨ ∃ r ∈ rs, k ∈ keys r := by
  induction rs generalizing acc with
  | nil => simp
  | cons r rest ih =>
    rw [List.foldl_cons, ih, mem_keys_addAll]
    simp only [List.mem_cons, exists_eq_or_imp]
    constructor
    · rintro ((h | h) | h)
      · exact Or.inl h
      · exact Or.inr (Or.inl h)
      · exact Or.inr (Or.inr h)
    · rintro (h | h | h)
      · exact Or.inl (Or.inl h)
      · exact Or.inl (Or.inr h)
      · exact Or.inr h

theorem foldl_addAll_nodup (rs : List (List Case)) (acc : List Case) (h : (keys acc).Nodup) :
    (keys (rs.foldl addAll acc)).Nodup := by
  induction rs generalizing acc with
  | nil => exact h
  | cons r rest ih => rw [List.foldl_cons]; exact ih _ (keys_addAll_nodup acc r h)

end PlzVerif.TestResults
