import PlzVerif.Model.Changes
import PlzVerif.Lemmas.QueryRevC
/-!
Lemmas for C24: the ownership lemma (a file a target consumes is found through the closest package) and the
superset theorem (everything affected is reported when the level is unlimited).  Core Lean only.
-/
namespace PlzVerif.Changes
open PlzVerif.Query

/-- `t` consumes `f`: `f` is one of its sources, data files or local file tools, or lies inside a directory that is one -/
def Consumes (C : CGraph) (t : Nat) (f : Path) : Prop :=
  ∃ s ∈ C.inputs t ++ C.tools t, s ≠ [] ∧ ∃ rest, f = C.pkgOf t ++ s ++ rest

/-- `t`'s package is the closest package above `f` (plz lets only that package use the file) -/
def Owner (C : CGraph) (t : Nat) (f : Path) : Prop :=
  C.pkgOf t ∈ C.pkgs ∧ ∀ p ∈ C.pkgs, p.isPrefixOf f.dropLast = true → p.length ≤ (C.pkgOf t).length

theorem dropLast_append_ne {α : Type} (a r : List α) (h : r ≠ []) : (a ++ r).dropLast = a ++ r.dropLast := by
  induction a with
  | nil => rfl
  | cons x a ih =>
    cases hr : a ++ r with
    | nil => simp at hr; exact absurd hr.2 h
    | cons y l => rw [List.cons_append, hr, List.dropLast_cons_cons, ← hr, ih]; rfl

theorem closestPkg_found (C : CGraph) (P : Path) (hP : P ∈ C.pkgs) : ∀ (n : Nat) (r : Path) (fuel : Nat),
    r.length = n + 1 → n + 1 ≤ fuel →
    (∀ p ∈ C.pkgs, p.isPrefixOf (P ++ r).dropLast = true → p.length ≤ P.length) →
    closestPkg C fuel (P ++ r) = some P := by
  intro n
  induction n with
  | zero =>
    intro r fuel hr hf _
    obtain ⟨fuel, rfl⟩ : ∃ k, fuel = k + 1 := ⟨fuel - 1, by omega⟩
    have hne : r ≠ [] := by intro h; simp [h] at hr
    match r, hr with
    | [x], _ =>
      simp only [closestPkg]
      have : (P ++ [x] == []) = false := by cases P <;> simp
      simp only [this, Bool.false_eq_true, ite_false, List.dropLast_concat]
      simp [hP]
  | succ n ih =>
    intro r fuel hr hf hno
    obtain ⟨fuel, rfl⟩ : ∃ k, fuel = k + 1 := ⟨fuel - 1, by omega⟩
    have hne : r ≠ [] := by intro h; simp [h] at hr
    have hne2 : r.dropLast ≠ [] := by
      intro h
      have := congrArg List.length h
      simp at this
      omega
    simp only [closestPkg]
    have h1 : (P ++ r == []) = false := by
      cases P with
      | nil => cases r with
        | nil => exact absurd rfl hne
        | cons _ _ => rfl
      | cons _ _ => rfl
    simp only [h1, Bool.false_eq_true, ite_false]
    rw [dropLast_append_ne P r hne]
    -- the directory is longer than P, hence not a package
    have hnot : C.pkgs.contains (P ++ r.dropLast) = false := by
      cases hc : C.pkgs.contains (P ++ r.dropLast)
      · rfl
      · have hm : P ++ r.dropLast ∈ C.pkgs := by simpa using hc
        have := hno _ hm (by rw [dropLast_append_ne P r hne]; simp)
        simp only [List.length_append, List.length_dropLast] at this
        omega
    simp only [hnot, Bool.false_eq_true, ite_false]
    apply ih r.dropLast fuel (by simp [hr]) (by omega)
    intro p hp hpre
    apply hno p hp
    rw [dropLast_append_ne P r hne]
    rw [dropLast_append_ne P r.dropLast hne2] at hpre
    -- a prefix of P ++ r.dropLast.dropLast is a prefix of P ++ r.dropLast
    rw [List.isPrefixOf_iff_prefix] at hpre ⊢
    exact hpre.trans ((List.prefix_append_right_inj P).mpr (List.dropLast_prefix _))

/-- The ownership lemma: a file that `t` consumes, whose closest package is `t`'s, marks `t` as changed. -/
theorem consumer_changed (C : CGraph) (files : List Path) (t : Nat) (f : Path) (hf : f ∈ files) (ht : t ∈ C.G.nodes)
    (hc : Consumes C t f) (ho : Owner C t f) : t ∈ changedByFiles C files := by
  obtain ⟨s, hs, hsne, rest, hfe⟩ := hc
  obtain ⟨hP, hno⟩ := ho
  unfold changedByFiles
  simp only [List.mem_flatMap]
  refine ⟨f, hf, ?_⟩
  have hrne : s ++ rest ≠ [] := by simp [hsne]
  have hcl : closestPkg C (f.length + 1) f = some (C.pkgOf t) := by
    rw [hfe, List.append_assoc]
    apply closestPkg_found C _ hP ((s ++ rest).length - 1) (s ++ rest)
    · have : 0 < (s ++ rest).length := List.length_pos_iff.mpr hrne
      omega
    · simp only [List.length_append]; omega
    · rw [← List.append_assoc, ← hfe]; exact hno
  rw [hcl]
  simp only [List.mem_filter, beq_self_eq_true, Bool.true_and]
  refine ⟨ht, ?_⟩
  unfold hasAbsoluteSource
  -- the path relative to the package is s ++ rest
  have hrel : (if (C.pkgOf t != []) = true ∧ (C.pkgOf t).isPrefixOf f = true then f.drop (C.pkgOf t).length else f) = s ++ rest := by
    by_cases hp : C.pkgOf t = []
    · simp [hp, hfe]
    · have h1 : (C.pkgOf t != []) = true := by simpa using hp
      have h2 : (C.pkgOf t).isPrefixOf f = true := by
        rw [List.isPrefixOf_iff_prefix, hfe, List.append_assoc]; exact List.prefix_append _ _
      rw [if_pos ⟨h1, h2⟩, hfe, List.append_assoc, List.drop_left]
  have hm : matchesInput s (s ++ rest) = true := by
    unfold matchesInput
    cases rest with
    | nil => simp
    | cons x xs =>
      simp only [Bool.or_eq_true, beq_iff_eq, Bool.and_eq_true, decide_eq_true_eq, List.length_append, List.length_cons]
      right
      exact ⟨by omega, by rw [List.isPrefixOf_iff_prefix]; exact List.prefix_append _ _⟩
  simp only [Bool.and_eq_true] at hrel ⊢
  rw [hrel]
  simp only [Bool.or_eq_true, List.any_eq_true]
  rcases List.mem_append.mp hs with hs | hs
  · exact Or.inl ⟨s, hs, hm⟩
  · exact Or.inr ⟨s, hs, hm⟩

/-- what `query changes` must report: consumers of a changed file, targets whose definition changed, and
everything that transitively depends on those -/
inductive Affected (C : CGraph) (files : List Path) (changed0 : List Nat) : Nat → Prop
  | consumer {t : Nat} {f : Path} : f ∈ files → t ∈ C.G.nodes → Consumes C t f → Owner C t f → Affected C files changed0 t
  | definition {t : Nat} : t ∈ changed0 → Affected C files changed0 t
  | dependent {u x : Nat} : Affected C files changed0 x → u ∈ C.G.nodes → Edge C.G u x → Affected C files changed0 u

theorem changedByFiles_nodes (C : CGraph) (files : List Path) : ∀ t ∈ changedByFiles C files, t ∈ C.G.nodes := by
  intro t ht
  unfold changedByFiles at ht
  simp only [List.mem_flatMap] at ht
  obtain ⟨f, _, h⟩ := ht
  split at h
  · simp at h
  · exact (List.mem_filter.mp h).1

/-- With an unlimited level every affected target that the include/exclude filter lets through is reported — also when
the target that consumes the file (or whose definition changed) is itself filtered out: the walk starts from ALL
changed targets, the filter is applied to the result only. -/
theorem changedTargets_superset (cfg : Cfg) (C : CGraph) (files : List Path) (changed0 : List Nat)
    (h0 : ∀ t ∈ changed0, t ∈ C.G.nodes) (t : Nat) (ha : Affected C files changed0 t) (hi : C.incl t = true) :
    t ∈ changedTargets cfg false C files changed0 (some none) := by
  unfold changedTargets
  simp only [Bool.false_eq_true, ite_false]
  apply List.mem_filter.mpr ⟨?_, hi⟩
  clear hi
  have hroots : ∀ r ∈ changed0 ++ changedByFiles C files, r ∈ C.G.nodes := by
    intro r hr
    rcases List.mem_append.mp hr with hr | hr
    · exact h0 r hr
    · exact changedByFiles_nodes C files r hr
  -- affected = changed, or depends on something changed
  have key : t ∈ changed0 ++ changedByFiles C files ∨ DependsOn C.G (changed0 ++ changedByFiles C files) t := by
    induction ha with
    | consumer hf ht hc ho => exact Or.inl (List.mem_append_right _ (consumer_changed C files _ _ hf ht hc ho))
    | definition h => exact Or.inl (List.mem_append_left _ h)
    | dependent _ hu he ih =>
      rcases ih with ih | ih
      · exact Or.inr (.direct ih hu he)
      · exact Or.inr (.step ih hu he)
  rcases key with hk | hk
  · exact List.mem_append_left _ hk
  · by_cases hin : t ∈ changed0 ++ changedByFiles C files
    · exact List.mem_append_left _ hin
    · apply List.mem_append_right
      simp only [List.mem_filter, Bool.not_eq_true', List.contains_eq_mem, decide_eq_false_iff_not]
      exact ⟨(findRevdeps_complete_unlimited cfg C.G true _ hroots t hk).2 rfl, hin⟩

/-- nothing the filter excludes is ever reported -/
theorem changedTargets_included (cfg : Cfg) (sf : Bool) (C : CGraph) (files : List Path) (changed0 : List Nat)
    (level : Option Limit) (t : Nat) (h : t ∈ changedTargets cfg sf C files changed0 level) : C.incl t = true := by
  unfold changedTargets at h
  exact (List.mem_filter.mp h).2

end PlzVerif.Changes
