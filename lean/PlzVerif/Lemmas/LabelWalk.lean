import PlzVerif.Model.LabelWalk
import PlzVerif.Lemmas.Label
import PlzVerif.Props.C22
/-!
Bridge between the label model (C20: `comps`, `Under`, `includes`) and the walk model of C22: for clean component
paths, "package `q` is under `p`" on label strings is "`p` is a prefix of `q`" on component lists.
-/
namespace PlzVerif.LabelWalk
open PlzVerif.Walk PlzVerif.Label

theorem walkFacts_eq : walkFacts = PlzVerif.Props.C22.facts := rfl

theorem comps_noslash {a : Name} (h : '/' ∉ a) : comps a = [a] := by
  induction a with
  | nil => rfl
  | cons c r ih =>
    have hc : c ≠ '/' := fun e => h (by simp [e])
    have hr : '/' ∉ r := fun e => h (List.mem_cons_of_mem _ e)
    obtain ⟨hd, tl, e0, e⟩ := comps_ne hc r
    rw [e]; rw [ih hr] at e0; simp at e0; obtain ⟨rfl, rfl⟩ := e0; rfl

theorem comps_append_slash {a : Name} (h : '/' ∉ a) (s : Name) : comps (a ++ '/' :: s) = a :: comps s := by
  induction a with
  | nil => simp [comps_slash]
  | cons c r ih =>
    have hc : c ≠ '/' := fun e => h (by simp [e])
    have hr : '/' ∉ r := fun e => h (List.mem_cons_of_mem _ e)
    obtain ⟨hd, tl, e0, e⟩ := comps_ne hc (r ++ '/' :: s)
    simp only [List.cons_append]
    rw [e]; rw [ih hr] at e0; simp at e0; obtain ⟨rfl, rfl⟩ := e0; rfl

/-- On clean paths the components of the joined string are the components. -/
theorem comps_joinSlash : ∀ (p : List Name), goodPath p = true → p ≠ [] → comps (joinSlash p) = p
  | [], _, h => absurd rfl h
  | [a], g, _ => by
    simp [goodPath] at g
    simpa [joinSlash] using comps_noslash (goodName_noslash g)
  | a :: b :: r, g, _ => by
    simp only [goodPath, List.all_cons, Bool.and_eq_true] at g
    have ih := comps_joinSlash (b :: r) (by simp [goodPath, g.2.1, g.2.2]) (by simp)
    simp only [joinSlash]
    rw [comps_append_slash (goodName_noslash g.1), ih]

theorem joinSlash_ne_nil : ∀ (p : List Name), goodPath p = true → p ≠ [] → joinSlash p ≠ []
  | [], _, h => absurd rfl h
  | [a], g, _ => by simp [goodPath] at g; simpa [joinSlash] using goodName_ne_nil g
  | a :: b :: r, _, _ => by simp [joinSlash]

/-- "Under" on label strings is "prefix" on component lists. -/
theorem under_joinSlash (p q : List Name) (gp : goodPath p = true) (gq : goodPath q = true) :
    Under (joinSlash p) (joinSlash q) ↔ p <+: q := by
  by_cases hp : p = []
  · subst hp; simp [joinSlash, Under]
  · unfold Under
    have hne := joinSlash_ne_nil p gp hp
    simp only [hne, false_or]
    rw [comps_joinSlash p gp hp]
    by_cases hq : q = []
    · subst hq
      simp only [joinSlash, comps, List.prefix_nil, hp, iff_false]
      intro h
      -- p <+: [[]] with p ≠ [] forces p = [[]], but components are non-empty
      obtain ⟨t, ht⟩ := h
      cases p with
      | nil => exact hp rfl
      | cons a r =>
        simp at ht
        simp [goodPath] at gp
        exact goodName_ne_nil gp.1 ht.1
    · rw [comps_joinSlash q gq hq]

/-- The pattern `//p/...` includes package `q` exactly when `p` is a component prefix of `q`. -/
theorem includes_iff_prefix (lf : Label.Facts) (h : lf.includesSlash = true) (p q : List Name) (n s s' : Str)
    (gp : goodPath p = true) (gq : goodPath q = true) :
    includes lf ⟨joinSlash p, dots, s⟩ ⟨joinSlash q, n, s'⟩ = true ↔ p <+: q := by
  rw [includes_dots lf h, under_joinSlash p q gp gq]

end PlzVerif.LabelWalk
