/-!
Self-delimiting encoders (core Lean only).  Shared by C01, C02, C03, C08, C09, C10, C11, C35.

`Uniq enc` says that `enc` is a *prefix code*: from a concatenation `enc a ++ rest` both `a` and `rest`
can be recovered.  Every pre-image the build system feeds to a hash is a concatenation of encoded pieces;
the hash can distinguish two values exactly when the concatenation is injective, and concatenations of
`Uniq` pieces are (`Uniq.pair`, `encList_uniq`).  Raw (unframed) strings are *not* `Uniq`
(`not_uniq_raw`), which is the shape of today's `ruleHash` and directory hash.

Stable names (other modules import this file): `Uniq`, `Uniq.inj`, `Uniq.pair`, `Uniq.comp`, `Uniq.unit`,
`Uniq.tagged`, `Hdr`, `Hdr.uniq`, `frame`, `frame_uniq`, `frameU`, `frameU_uniq`, `encList`, `encListU`,
`encItems_uniq`, `encList_uniq`, `encListU_uniq`, `unary`, `unary_uniq`, `single_uniq`, `not_uniq_raw`.
-/
namespace PlzVerif.Frame
variable {B : Type}

/-- A self-delimiting encoder: equal concatenations force equal values and equal rests. -/
def Uniq {α : Type} (enc : α → List B) : Prop :=
  ∀ a b r s, enc a ++ r = enc b ++ s → a = b ∧ r = s

theorem Uniq.inj {α} {enc : α → List B} (h : Uniq enc) : Function.Injective enc := by
  intro a b hab
  have := h a b [] [] (by simpa using hab)
  exact this.1

/-- Pairing two self-delimiting encoders is self-delimiting. -/
theorem Uniq.pair {α β} {e1 : α → List B} {e2 : β → List B} (h1 : Uniq e1) (h2 : Uniq e2) :
    Uniq (fun p : α × β => e1 p.1 ++ e2 p.2) := by
  intro a b r s h
  simp only [List.append_assoc] at h
  obtain ⟨ha, hr⟩ := h1 _ _ _ _ h
  obtain ⟨hb, hs⟩ := h2 _ _ _ _ hr
  exact ⟨Prod.ext ha hb, hs⟩

/-- Pre-composing with an injective function keeps an encoder self-delimiting. -/
theorem Uniq.comp {α β} {e : β → List B} (h : Uniq e) {f : α → β} (hf : Function.Injective f) :
    Uniq (fun a => e (f a)) := by
  intro a b r s hh
  obtain ⟨hab, hr⟩ := h _ _ _ _ hh
  exact ⟨hf hab, hr⟩

/-- A constant is a (trivial) self-delimiting encoding of `Unit`. -/
theorem Uniq.unit (c : List B) : Uniq (fun _ : Unit => c) := by
  intro a b r s h
  exact ⟨rfl, List.append_cancel_left h⟩

/-- One symbol encodes itself. -/
theorem single_uniq : Uniq (fun b : B => [b]) := by
  intro a b r s h
  simp only [List.cons_append, List.nil_append, List.cons.injEq] at h
  exact h

/-- Fixed-width header encoder, injective with constant length (e.g. an 8-byte big-endian length). -/
structure Hdr (B : Type) where
  enc : Nat → List B
  width : Nat
  len : ∀ n, (enc n).length = width
  inj : ∀ a b, enc a = enc b → a = b

theorem Hdr.uniq (h : Hdr B) : Uniq h.enc := by
  intro a b r s e
  have h1 : (h.enc a ++ r).take h.width = (h.enc b ++ s).take h.width := by rw [e]
  rw [List.take_append_of_le_length (by rw [h.len]; exact Nat.le_refl _),
      List.take_append_of_le_length (by rw [h.len]; exact Nat.le_refl _)] at h1
  simp only [← h.len a, List.take_length] at h1
  have h1' : h.enc a = (h.enc b).take (h.enc a).length := h1
  rw [h.len a, ← h.len b, List.take_length] at h1'
  have hab := h.inj _ _ h1'
  subst hab
  exact ⟨rfl, List.append_cancel_left e⟩

/-- Length-prefixed raw payload, for any self-delimiting encoding of the length. -/
def frameU (hdr : Nat → List B) (s : List B) : List B := hdr s.length ++ s

theorem frameU_uniq {hdr : Nat → List B} (hu : Uniq hdr) : Uniq (frameU hdr) := by
  intro a b r s e
  simp only [frameU, List.append_assoc] at e
  obtain ⟨hl, e2⟩ := hu _ _ _ _ e
  have h3 : (a ++ r).take a.length = (b ++ s).take a.length := by rw [e2]
  rw [List.take_left' rfl, hl, List.take_left' rfl] at h3
  subst h3
  exact ⟨rfl, List.append_cancel_left e2⟩

/-- Length-prefixed raw payload with a fixed-width header. -/
def frame (h : Hdr B) (s : List B) : List B := h.enc s.length ++ s

theorem frame_uniq (h : Hdr B) : Uniq (frame h) := frameU_uniq h.uniq

theorem encItems_uniq {α} {e : α → List B} (he : Uniq e) :
    ∀ (xs ys : List α) r s, xs.length = ys.length →
      (xs.map e).flatten ++ r = (ys.map e).flatten ++ s → xs = ys ∧ r = s
  | [], [], r, s, _, h => ⟨rfl, by simpa using h⟩
  | x :: xs, y :: ys, r, s, hl, h => by
      simp only [List.map_cons, List.flatten_cons, List.append_assoc] at h
      obtain ⟨hxy, h2⟩ := he _ _ _ _ h
      obtain ⟨hrest, hrs⟩ := encItems_uniq he xs ys r s (by simpa using hl) h2
      exact ⟨by rw [hxy, hrest], hrs⟩
  | [], _ :: _, _, _, hl, _ => by simp at hl
  | _ :: _, [], _, _, hl, _ => by simp at hl

/-- List of self-delimiting items behind a count header (any self-delimiting count encoding). -/
def encListU {α} (hdr : Nat → List B) (e : α → List B) (xs : List α) : List B :=
  hdr xs.length ++ (xs.map e).flatten

theorem encListU_uniq {α} {hdr : Nat → List B} (hu : Uniq hdr) {e : α → List B} (he : Uniq e) :
    Uniq (encListU hdr e) := by
  intro a b r s eq
  simp only [encListU, List.append_assoc] at eq
  obtain ⟨hl, e2⟩ := hu _ _ _ _ eq
  exact encItems_uniq he a b r s hl e2

/-- List of self-delimiting items with a fixed-width count header. -/
def encList {α} (h : Hdr B) (e : α → List B) (xs : List α) : List B :=
  h.enc xs.length ++ (xs.map e).flatten

theorem encList_uniq {α} (h : Hdr B) {e : α → List B} (he : Uniq e) : Uniq (encList h e) :=
  encListU_uniq h.uniq he

/-- Unary numbers: `n` copies of `one` then `zero`; a concrete self-delimiting `Nat` header
    (shows the `hdr` hypotheses above are satisfiable without bounding the length). -/
def unary (one zero : B) : Nat → List B
  | 0 => [zero]
  | n + 1 => one :: unary one zero n

theorem unary_uniq {one zero : B} (hne : one ≠ zero) : Uniq (unary one zero) := by
  intro a
  induction a with
  | zero =>
    intro b r s h
    cases b with
    | zero => simpa [unary] using h
    | succ b => simp [unary] at h; exact absurd h.1.symm hne
  | succ a ih =>
    intro b r s h
    cases b with
    | zero => simp [unary] at h; exact absurd h.1 hne
    | succ b =>
      simp only [unary, List.cons_append, List.cons.injEq, true_and] at h
      obtain ⟨hab, hr⟩ := ih b r s h
      exact ⟨by rw [hab], hr⟩

/-- Tagged union of two self-delimiting encoders with distinct one-symbol tags. -/
theorem Uniq.tagged {α β} {e1 : α → List B} {e2 : β → List B} (h1 : Uniq e1) (h2 : Uniq e2)
    {t1 t2 : B} (hne : t1 ≠ t2) :
    Uniq (fun x : α ⊕ β => match x with | .inl a => t1 :: e1 a | .inr b => t2 :: e2 b) := by
  intro a b r s h
  cases a <;> cases b <;> simp only [List.cons_append, List.cons.injEq] at h
  · obtain ⟨e, hr⟩ := h1 _ _ _ _ h.2; exact ⟨by rw [e], hr⟩
  · exact absurd h.1 hne
  · exact absurd h.1.symm hne
  · obtain ⟨e, hr⟩ := h2 _ _ _ _ h.2; exact ⟨by rw [e], hr⟩

/-- Raw (unframed) strings are NOT self-delimiting: `"a" ++ "bc" = "ab" ++ "c"`. -/
theorem not_uniq_raw {x y : B} : ¬ Uniq (fun s : List B => s) := by
  intro h
  have := h [x] [x, y] [y] [] (by simp)
  simp at this

/-- Consequently concatenating a raw list of raw strings is not injective. -/
theorem flatten_not_injective {x y : B} : ¬ Function.Injective (fun l : List (List B) => l.flatten) := by
  intro h
  have := @h [[x, y]] [[x], [y]] (by simp)
  simp at this

end PlzVerif.Frame
