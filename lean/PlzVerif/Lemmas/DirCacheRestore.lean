import PlzVerif.Lemmas.DirCacheTar
/-!
Restoring a tarball entry by entry into an output directory that already holds something (stale outputs of an earlier
build): when EVERY entry is prepared (`ensureRetrieveReady`: parent created, destination unlinked) the result at and
below the archive's entries is exactly the archive, whatever was there.
-/
namespace PlzVerif.DirCache

/-- The archive is in walk order as `Store` writes it: no empty path, no path twice, nothing already restored lies at or
    below a later entry, and every proper prefix of an entry is either an earlier DIRECTORY entry or lies outside
    everything restored so far. -/
def esOK (seen : Tree) : Tree → Bool
  | [] => true
  | e :: rest =>
    decide (e.1 ≠ []) && decide (seen.get e.1 = none) && seen.all (fun s => !(e.1.isPrefixOf s.1)) &&
    (List.range e.1.length).all (fun k =>
      decide (seen.get (e.1.take k) = some .dir) ||
      (decide (seen.get (e.1.take k) = none) && seen.all (fun s => !(s.1.isPrefixOf (e.1.take k))))) &&
    esOK (seen ++ [e]) rest

/-- Nothing stale blocks a parent directory the archive needs. -/
def ParentsFree (d0 : Dest) (es : Tree) : Prop :=
  ∀ e ∈ es, ∀ k, k < e.1.length → d0 (e.1.take k) = none ∨ d0 (e.1.take k) = some .dir

structure RInv (d0 d : Dest) (seen : Tree) : Prop where
  have_ : ∀ q, seen.get q ≠ none → d q = seen.get q
  clean : ∀ q, (∃ s ∈ seen, s.1 <+: q) → seen.get q = none → d q = none
  src : ∀ q, d q = d0 q ∨ d q = none ∨ d q = some .dir ∨ (seen.get q ≠ none ∧ d q = seen.get q)

theorem get_mem {t : Tree} {q : Path} (h : t.get q ≠ none) : ∃ s ∈ t, s.1 = q := by
  unfold Tree.get at h
  cases hf : t.find? (fun x => decide (x.1 = q)) with
  | none => rw [hf] at h; exact absurd rfl h
  | some s =>
    have := List.find?_some hf
    exact ⟨s, List.mem_of_find?_eq_some hf, by simpa using this⟩

theorem get_none_of_not_mem {t : Tree} {q : Path} (h : ∀ s ∈ t, s.1 ≠ q) : t.get q = none := by
  cases hg : t.get q with
  | none => rfl
  | some v =>
    obtain ⟨s, hs, hq⟩ := get_mem (t := t) (q := q) (by rw [hg]; simp)
    exact absurd hq (h s hs)

theorem dest_mkdirAll_ok (d : Dest) (p : Path)
    (h : ∀ k, k ≤ p.length → d (p.take k) = none ∨ d (p.take k) = some .dir) :
    d.mkdirAll p = some (fun q => if q.isPrefixOf p then some .dir else d q) := by
  unfold Dest.mkdirAll
  have : d.clearTo p = true := by
    unfold Dest.clearTo
    rw [List.all_eq_true]
    intro k hk
    rw [List.mem_range] at hk
    rcases h k (by omega) with h' | h' <;> simp [h']
  simp [this]

theorem restore_step (d0 d : Dest) (seen : Tree) (e : Path × Item) (trunc : Bool)
    (hinv : RInv d0 d seen) (he1 : e.1 ≠ []) (he2 : seen.get e.1 = none)
    (he3 : ∀ s ∈ seen, ¬ e.1 <+: s.1)
    (he4 : ∀ k, k < e.1.length → seen.get (e.1.take k) = some .dir ∨
      (seen.get (e.1.take k) = none ∧ ∀ s ∈ seen, ¬ s.1 <+: e.1.take k))
    (hd0 : ∀ k, k < e.1.length → d0 (e.1.take k) = none ∨ d0 (e.1.take k) = some .dir) :
    ∃ d', restoreEntry true trunc d e = some d' ∧ RInv d0 d' (seen ++ [e]) := by
  obtain ⟨p, i⟩ := e
  simp only at he1 he2 he3 he4 hd0
  have hplen : 0 < p.length := List.length_pos_iff.mpr he1
  -- every proper prefix of p is free or a directory in d
  have hpre : ∀ k, k < p.length → d (p.take k) = none ∨ d (p.take k) = some .dir := by
    intro k hk
    rcases hinv.src (p.take k) with h | h | h | ⟨h1, h2⟩
    · rw [h]; exact hd0 k hk
    · exact Or.inl h
    · exact Or.inr h
    · rcases he4 k hk with h' | ⟨h', _⟩
      · right; rw [h2, h']
      · exact absurd h' h1
  -- the state after ensureRetrieveReady
  let d1 : Dest := fun q => if q.isPrefixOf p.dropLast ∧ 2 ≤ p.length then some .dir else d q
  let d2 : Dest := d1.rmSub p
  have hready : d.ready p = some d2 := by
    unfold Dest.ready
    by_cases h2 : 2 ≤ p.length
    · have : d.mkdirAll p.dropLast = some (fun q => if q.isPrefixOf p.dropLast then some .dir else d q) := by
        apply dest_mkdirAll_ok
        intro k hk
        rw [List.length_dropLast] at hk
        have : p.dropLast.take k = p.take k := by
          rw [List.dropLast_eq_take, List.take_take]; congr 1; omega
        rw [this]; exact hpre k (by omega)
      simp only [ge_iff_le, h2, if_true, this, Option.map_some]
      congr 1
      funext q
      simp [d2, d1, Dest.rmSub, h2]
    · simp only [ge_iff_le, h2, if_false, Option.map_some]
      congr 1
      funext q
      simp [d2, d1, Dest.rmSub, h2]
  -- facts about d2
  have hd2_below : ∀ q, p <+: q → d2 q = none := by
    intro q hq
    simp [d2, Dest.rmSub, isPrefixOf_eq_true_iff.mpr hq]
  have hnotpre : ∀ q, ¬ p <+: q → d2 q = d1 q := by
    intro q hq
    have : p.isPrefixOf q = false := by
      cases h : p.isPrefixOf q with
      | false => rfl
      | true => exact absurd (isPrefixOf_eq_true_iff.mp h) hq
    simp [d2, Dest.rmSub, this]
  have hproper : ∀ k, k < p.length → ¬ p <+: p.take k := by
    intro k hk h
    have := h.length_le
    rw [List.length_take] at this; omega
  have hd2_pre : ∀ k, k < p.length → d2 (p.take k) = none ∨ d2 (p.take k) = some .dir := by
    intro k hk
    rw [hnotpre _ (hproper k hk)]
    simp only [d1]
    split
    · exact Or.inr rfl
    · exact hpre k hk
  have hparent : d2.parentOK p = true := by
    unfold Dest.parentOK
    by_cases h2 : 2 ≤ p.length
    · have hk : p.length - 1 < p.length := by omega
      have : d2 p.dropLast = some .dir := by
        rw [List.dropLast_eq_take, hnotpre _ (hproper _ hk)]
        have : (p.take (p.length - 1)).isPrefixOf p.dropLast = true := by
          rw [List.dropLast_eq_take]; exact isPrefixOf_eq_true_iff.mpr (List.prefix_refl _)
        simp only [d1]
        rw [if_pos ⟨this, h2⟩]
      simp [this]
    · simp; left; omega
  -- the final state
  let d3 : Dest := fun q => if q = p then some i else if q.isPrefixOf p ∧ i = .dir then some .dir else d2 q
  have hfinal : restoreEntry true trunc d (p, i) = some d3 := by
    unfold restoreEntry
    simp only [if_true, hready, Option.bind_some]
    cases i with
    | dir =>
      have : d2.mkdirAll p = some (fun q => if q.isPrefixOf p then some .dir else d2 q) := by
        apply dest_mkdirAll_ok
        intro k hk
        by_cases hkl : k < p.length
        · exact hd2_pre k hkl
        · have : k = p.length := by omega
          rw [this, List.take_length]; left; exact hd2_below p (List.prefix_refl _)
      simp only [this]
      congr 1
      funext q
      by_cases hq : q = p
      · subst hq; simp [d3, List.isPrefixOf_iff_prefix.mpr (List.prefix_refl _)]
      · simp [d3, hq]
    | link t =>
      have h0 := hd2_below p (List.prefix_refl _)
      simp only [h0, hparent, and_self, if_true]
      congr 1
      funext q
      by_cases hq : q = p <;> simp [d3, hq]
    | file c x =>
      have h0 := hd2_below p (List.prefix_refl _)
      simp only [hparent, Bool.not_true, Bool.false_eq_true, if_false, h0]
      congr 1
      funext q
      by_cases hq : q = p <;> simp [d3, hq]
  refine ⟨d3, hfinal, ?_⟩
  -- value of d3 away from p and its prefixes
  have hd3_p : d3 p = some i := by simp [d3]
  have hd3_below : ∀ q, p <+: q → q ≠ p → d3 q = none := by
    intro q hq hne
    have hnp : ¬ q <+: p := fun h => hne (List.IsPrefix.eq_of_length h (Nat.le_antisymm h.length_le hq.length_le))
    have : q.isPrefixOf p = false := by
      cases h : q.isPrefixOf p with
      | false => rfl
      | true => exact absurd (isPrefixOf_eq_true_iff.mp h) hnp
    simp only [d3, hne, if_false, this, Bool.false_eq_true, false_and]
    exact hd2_below q hq
  have hd3_other : ∀ q, ¬ p <+: q → ¬ q <+: p → d3 q = d q := by
    intro q h1 h2
    have hne : q ≠ p := fun h => h1 (h ▸ List.prefix_refl _)
    have hb : q.isPrefixOf p = false := by
      cases h : q.isPrefixOf p with
      | false => rfl
      | true => exact absurd (isPrefixOf_eq_true_iff.mp h) h2
    have hb2 : q.isPrefixOf p.dropLast = false := by
      cases h : q.isPrefixOf p.dropLast with
      | false => rfl
      | true => exact absurd ((isPrefixOf_eq_true_iff.mp h).trans (List.dropLast_prefix p)) h2
    simp only [d3, hne, if_false, hb, Bool.false_eq_true, false_and, hnotpre q h1, d1, hb2]
  have hd3_prefix : ∀ q, q <+: p → q ≠ p → d3 q = none ∨ d3 q = some .dir ∨ d3 q = d q := by
    intro q hq hne
    have hk : q.length < p.length := by
      rcases Nat.lt_or_ge q.length p.length with h | h
      · exact h
      · exact absurd (List.IsPrefix.eq_of_length hq (Nat.le_antisymm hq.length_le h)) hne
    have hqp : q = p.take q.length := prefix_eq_take hq
    have hnp : ¬ p <+: q := by rw [hqp]; exact hproper _ hk
    simp only [d3, hne, if_false]
    split
    · right; left; rfl
    · rw [hnotpre q hnp]
      simp only [d1]
      split
      · right; left; rfl
      · right; right; rfl
  have hd3_prefix_dir : ∀ q, q <+: p → q ≠ p → d q = some .dir → d3 q = some .dir := by
    intro q hq hne hd
    rcases hd3_prefix q hq hne with h | h | h
    · -- cannot be none: it was a directory and was only ever set to a directory
      have hk : q.length < p.length := by
        rcases Nat.lt_or_ge q.length p.length with h' | h'
        · exact h'
        · exact absurd (List.IsPrefix.eq_of_length hq (Nat.le_antisymm hq.length_le h')) hne
      have hnp : ¬ p <+: q := by rw [prefix_eq_take hq]; exact hproper _ hk
      simp only [d3, hne, if_false] at h
      split at h
      · cases h
      · rw [hnotpre q hnp] at h
        simp only [d1] at h
        split at h
        · cases h
        · rw [hd] at h; cases h
    · exact h
    · rw [h, hd]
  constructor
  · -- have_
    intro q hq
    rw [Tree.get_append_single] at hq ⊢
    cases hs : seen.get q with
    | some v =>
      simp only [hs]
      have hne : q ≠ p := by intro h; subst h; rw [he2] at hs; cases hs
      obtain ⟨s, hsm, hsq⟩ := get_mem (t := seen) (q := q) (by rw [hs]; simp)
      have hnb : ¬ p <+: q := by intro h; exact he3 s hsm (hsq ▸ h)
      by_cases hqp : q <+: p
      · have hk : q.length < p.length := by
          rcases Nat.lt_or_ge q.length p.length with h | h
          · exact h
          · exact absurd (List.IsPrefix.eq_of_length hqp (Nat.le_antisymm hqp.length_le h)) hne
        have hv : v = .dir := by
          rcases he4 q.length hk with h | ⟨h, _⟩
          · rw [← prefix_eq_take hqp, hs] at h; exact Option.some.inj h
          · rw [← prefix_eq_take hqp, hs] at h; cases h
        have hdq : d q = some .dir := by rw [hinv.have_ q (by rw [hs]; simp), hs, hv]
        rw [hd3_prefix_dir q hqp hne hdq, hv]
      · rw [hd3_other q hnb hqp, hinv.have_ q (by rw [hs]; simp), hs]
    | none =>
      simp only [hs] at hq ⊢
      by_cases hpq : p = q
      · subst hpq; simp [hd3_p]
      · simp [hpq] at hq
  · -- clean
    intro q ⟨s, hsm, hsq⟩ hq
    rw [Tree.get_append_single] at hq
    cases hs : seen.get q with
    | some v => simp [hs] at hq
    | none =>
      simp only [hs] at hq
      have hne : q ≠ p := by intro h; subst h; simp at hq
      by_cases hpq : p <+: q
      · exact hd3_below q hpq hne
      · -- s is not the new entry
        have hsm' : s ∈ seen := by
          rcases List.mem_append.mp hsm with h | h
          · exact h
          · simp only [List.mem_cons, List.mem_nil_iff, or_false] at h
            subst h; exact absurd hsq hpq
        by_cases hqp : q <+: p
        · exfalso
          have hk : q.length < p.length := by
            rcases Nat.lt_or_ge q.length p.length with h | h
            · exact h
            · exact absurd (List.IsPrefix.eq_of_length hqp (Nat.le_antisymm hqp.length_le h)) hne
          rcases he4 q.length hk with h | ⟨_, h⟩
          · rw [← prefix_eq_take hqp, hs] at h; cases h
          · exact h s hsm' (by rw [← prefix_eq_take hqp]; exact hsq)
        · rw [hd3_other q hpq hqp]
          exact hinv.clean q ⟨s, hsm', hsq⟩ hs
  · -- src
    intro q
    by_cases hqe : q = p
    · subst hqe
      right; right; right
      rw [Tree.get_append_single, he2]
      simp [hd3_p]
    · by_cases hpq : p <+: q
      · right; left; exact hd3_below q hpq hqe
      · by_cases hqp : q <+: p
        · rcases hd3_prefix q hqp hqe with h | h | h
          · right; left; exact h
          · right; right; left; exact h
          · rw [h]
            rcases hinv.src q with h' | h' | h' | ⟨h1, h2⟩
            · left; exact h'
            · right; left; exact h'
            · right; right; left; exact h'
            · right; right; right
              rw [Tree.get_append_single]
              cases hs : seen.get q with
              | none => exact absurd hs h1
              | some v => simp only [hs]; exact ⟨by simp, by rw [h2, hs]⟩
        · rw [hd3_other q hpq hqp]
          rcases hinv.src q with h' | h' | h' | ⟨h1, h2⟩
          · left; exact h'
          · right; left; exact h'
          · right; right; left; exact h'
          · right; right; right
            rw [Tree.get_append_single]
            cases hs : seen.get q with
            | none => exact absurd hs h1
            | some v => simp only [hs]; exact ⟨by simp, by rw [h2, hs]⟩

theorem restore_all (d0 : Dest) (trunc : Bool) : ∀ (rest seen : Tree) (d : Dest),
    esOK seen rest = true → (∀ e ∈ rest, ∀ k, k < e.1.length → d0 (e.1.take k) = none ∨ d0 (e.1.take k) = some .dir) →
    RInv d0 d seen → ∃ d', restoreAll true trunc d rest = some d' ∧ RInv d0 d' (seen ++ rest) := by
  intro rest
  induction rest with
  | nil => intro seen d _ _ h; exact ⟨d, rfl, by simpa using h⟩
  | cons e rest ih =>
    intro seen d hok hd0 hinv
    simp only [esOK, Bool.and_eq_true, decide_eq_true_eq, List.all_eq_true, List.mem_range, Bool.or_eq_true,
      Bool.not_eq_true'] at hok
    obtain ⟨⟨⟨⟨h1, h2⟩, h3⟩, h4⟩, h5⟩ := hok
    have h3' : ∀ s ∈ seen, ¬ e.1 <+: s.1 := by
      intro s hs hp
      have := h3 s hs
      rw [isPrefixOf_eq_true_iff.mpr hp] at this; cases this
    have h4' : ∀ k, k < e.1.length → seen.get (e.1.take k) = some .dir ∨
        (seen.get (e.1.take k) = none ∧ ∀ s ∈ seen, ¬ s.1 <+: e.1.take k) := by
      intro k hk
      rcases h4 k hk with h | ⟨ha, hb⟩
      · exact Or.inl h
      · right
        refine ⟨ha, ?_⟩
        intro s hs hp
        have := hb s hs
        rw [isPrefixOf_eq_true_iff.mpr hp] at this; cases this
    obtain ⟨d', hd', hinv'⟩ := restore_step d0 d seen e trunc hinv h1 h2 h3' h4' (hd0 e (List.mem_cons_self ..))
    obtain ⟨d'', hd'', hinv''⟩ := ih (seen ++ [e]) d' h5 (fun x hx => hd0 x (List.mem_cons_of_mem _ hx)) hinv'
    refine ⟨d'', ?_, by simpa using hinv''⟩
    simp only [restoreAll, hd', Option.bind_some, hd'']

end PlzVerif.DirCache
