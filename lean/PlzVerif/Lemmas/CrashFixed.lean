import PlzVerif.Lemmas.CrashRecover
/-! C32: the proposed repair — drop every declared output's stamp before the build step touches anything — restores the
    history invariant at every cut, in every stamp mode and for directory outputs, and makes the truncated-metadata
    failure impossible.  Core only. -/
namespace PlzVerif.CrashBuild
set_option linter.unusedSectionVars false
set_option linter.unusedSimpArgs false

variable {N C S H : Type} [DecidableEq N] [DecidableEq H] [DecidableEq S]

theorem map_out_eq (g : N → SOp C S) (l : List N) :
    (l.map fun m => Op.out m (g m)) = l.flatMap fun m => ([g m]).map (Op.out m) := by
  induction l with
  | nil => rfl
  | cons a l ih => simp [ih]

theorem planFixed_proj (b : Params N C S H) (fs : TState N C S) (n : N) (hnd : b.outs.Nodup) (h : n ∈ b.outs) :
    (planFixed b fs).filterMap (proj n) = localOpsFixed b fs n := by
  simp only [planFixed, planWith, fixedOrder, codedOrder, List.flatMap_cons, List.flatMap_nil, phaseOps, List.append_nil,
    List.filterMap_append, moveOps, stampOps, localOpsFixed]
  rw [filterMap_run_map b n b.outs hnd h, mdOps_proj, cacheOps_proj, stampTail_proj,
    filterMap_flatMap_single (fun m => moveS b (fs.out m) m) n b.outs hnd h,
    filterMap_flatMap_single (fun m => stampS b m) n b.outs hnd h,
    map_out_eq (fun _ => SOp.clear) b.outs, filterMap_flatMap_single (fun _ => [SOp.clear]) n b.outs hnd h]
  simp [proj]

theorem planFixed_proj_other (b : Params N C S H) (fs : TState N C S) (n : N) (h : n ∉ b.outs) :
    (planFixed b fs).filterMap (proj n) = [.prep] := by
  simp only [planFixed, planWith, fixedOrder, codedOrder, List.flatMap_cons, List.flatMap_nil, phaseOps, List.append_nil,
    List.filterMap_append, moveOps, stampOps]
  have h1 : (b.outs.map fun m => Op.out (S := S) m (.run (b.new m))).filterMap (proj n) = [] := by
    rw [run_map_eq]
    exact filterMap_flatMap_notin (S := S) (fun m => [SOp.run (b.new m)]) n b.outs h
  rw [h1, mdOps_proj, cacheOps_proj, stampTail_proj,
    filterMap_flatMap_notin (fun m => moveS b (fs.out m) m) n b.outs h,
    filterMap_flatMap_notin (fun m => stampS b m) n b.outs h,
    map_out_eq (fun _ => SOp.clear) b.outs, filterMap_flatMap_notin (fun _ => [SOp.clear]) n b.outs h]
  simp [proj]

/-- the real output after the move phase of the repaired step: clean content on an inode without stamp -/
def movedClr (b : Params N C S H) (sl0 : Slice C S) (n : N) : Node C S :=
  match sl0.gen.map (fun nd => ({ nd with attr := none } : Node C S)) with
  | some nd => if b.hash nd.content = b.hash (b.new n) then nd else ⟨b.new n, none⟩
  | none => ⟨b.new n, none⟩

theorem movedClr_spec (b : Params N C S H) (hH : Function.Injective b.hash) (sl0 : Slice C S) (n : N) :
    (movedClr b sl0 n).content = b.new n ∧ (movedClr b sl0 n).attr = none := by
  unfold movedClr
  cases hgen : sl0.gen with
  | none => simp
  | some nd0 =>
    simp only [Option.map_some]
    split
    · rename_i he; exact ⟨hH he, rfl⟩
    · exact ⟨rfl, rfl⟩

/-- no stamp can be read from the slice -/
def NoStamp (fb : Bool) (sl : Slice C S) : Prop := sliceStamp fb sl = none

/-- operations of the move phase -/
def MoveOp : SOp C S → Prop
  | .keep | .degrade _ | .remove | .rename => True
  | _ => False

/-- the move phase never creates a stamp: it keeps the (cleared) inode or brings in the fresh tmp inode -/
theorem sstep_move_noStamp (sl : Slice C S) (o : SOp C S) (ho : MoveOp o)
    (h : sl.fb = none ∧ ∀ nd, sl.gen = some nd → nd.attr = none) :
    (sstep sl o).fb = none ∧ ∀ nd, (sstep sl o).gen = some nd → nd.attr = none := by
  cases o <;> simp only [MoveOp] at ho
  · exact h
  · refine ⟨h.1, ?_⟩
    intro nd hg
    simp only [sstep] at hg
    cases hgen : sl.gen with
    | none => simp [hgen] at hg
    | some nd0 => simp [hgen] at hg; rw [← hg]; exact h.2 nd0 hgen
  · exact ⟨h.1, by intro nd hg; simp [sstep] at hg⟩
  · simp only [sstep]
    cases ht : sl.tmp with
    | none => exact h
    | some c => exact ⟨h.1, by intro nd hg; simp at hg; rw [← hg]⟩

theorem srun_move_noStamp : ∀ (l : List (SOp C S)) (sl : Slice C S), (∀ o ∈ l, MoveOp o) →
    (sl.fb = none ∧ ∀ nd, sl.gen = some nd → nd.attr = none) →
    (srun sl l).fb = none ∧ ∀ nd, (srun sl l).gen = some nd → nd.attr = none
  | [], _, _, h => h
  | o :: l, sl, hl, h => by
    rw [srun_cons]
    exact srun_move_noStamp l (sstep sl o) (fun x hx => hl x (List.mem_cons_of_mem _ hx))
      (sstep_move_noStamp sl o (hl o (List.mem_cons_self ..)) h)

theorem moveS_moveOps (b : Params N C S H) (sl : Slice C S) (n : N) : ∀ o ∈ moveS b sl n, MoveOp o := by
  intro o ho
  unfold moveS at ho
  split at ho
  · split at ho
    · simp at ho; subst ho; trivial
    · simp only [List.mem_append, List.mem_map, List.mem_cons, List.not_mem_nil, or_false] at ho
      rcases ho with ⟨c, _, rfl⟩ | rfl | rfl <;> trivial
  · simp at ho; subst ho; trivial

theorem noStamp_of (fb : Bool) (sl : Slice C S) (h : sl.fb = none ∧ ∀ nd, sl.gen = some nd → nd.attr = none) :
    sliceStamp fb sl = none := by
  unfold sliceStamp
  split
  · simp [h.1]
  · cases hg : sl.gen with
    | none => simp
    | some nd => simp [h.2 nd hg]

theorem sliceInv_of_noStamp (G : C → S → Prop) (fb : Bool) (sl : Slice C S) (h : sliceStamp fb sl = none) : SliceInv G fb sl := by
  intro nd s _ hs; rw [h] at hs; simp at hs

/-- With the repair, EVERY cut of the build step keeps the history invariant of output `n` — fallback records and
    directory outputs included. -/
theorem fixed_sliceInv (b : Params N C S H) (fs : TState N C S) (n : N) (G : C → S → Prop)
    (hH : Function.Injective b.hash) (hnew : G (b.new n) b.stamp)
    (hinv : SliceInv G (b.useFb n) (fs.out n)) (j : Nat) :
    SliceInv G (b.useFb n) (srun (fs.out n) ((localOpsFixed b fs n).take j)) := by
  generalize hsl : fs.out n = sl0 at hinv
  have hl : localOpsFixed b fs n = [.prep, .run (b.new n)] ++ ([.clear] ++ (moveS b ⟨some (b.new n), sl0.gen.map (fun nd => { nd with attr := none }), none⟩ n ++ stampS b n)) := by
    simp only [localOpsFixed, hsl, List.append_assoc, List.cons_append, List.nil_append]
    congr 3
    unfold moveS
    cases sl0.gen <;> rfl
  rw [hl]
  have hP : srun sl0 [.prep, .run (b.new n)] = ⟨some (b.new n), sl0.gen, sl0.fb⟩ := by simp [srun_cons, srun_nil, sstep]
  rcases take_append_cases [SOp.prep, .run (b.new n)] _ j with ⟨i, e⟩ | ⟨i, e⟩
  · rw [e]
    obtain ⟨h1, h2⟩ := srun_tmpOnly ((([SOp.prep, .run (b.new n)] : List (SOp C S))).take i) sl0 (by
      intro o ho
      have := List.mem_of_mem_take ho
      simp at this
      rcases this with rfl | rfl
      · left; rfl
      · right; exact ⟨_, rfl⟩)
    intro nd s hg hs
    exact hinv nd s (by rw [← h1]; exact hg) (by rw [← sliceStamp_congr _ _ _ h1 h2]; exact hs)
  · rw [e, srun_append, hP]
    rcases take_append_cases [SOp.clear] _ i with ⟨i', e'⟩ | ⟨i', e'⟩
    · rw [e']
      cases i' with
      | zero =>
        intro nd s hg hs
        exact hinv nd s hg (by rw [← hs]; exact sliceStamp_congr _ _ _ rfl rfl)
      | succ i' =>
        apply sliceInv_of_noStamp
        apply noStamp_of
        have hc1 : srun (⟨some (b.new n), sl0.gen, sl0.fb⟩ : Slice C S) (List.take (i' + 1) [SOp.clear]) =
            ⟨some (b.new n), sl0.gen.map (fun nd => { nd with attr := none }), none⟩ := by
          simp [srun_cons, srun_nil, sstep]
        rw [hc1]
        refine ⟨rfl, ?_⟩
        intro nd hg
        cases hgen : sl0.gen with
        | none => simp [hgen] at hg
        | some nd0 => simp [hgen] at hg; rw [← hg]
    · rw [e', srun_append]
      have hc : srun (⟨some (b.new n), sl0.gen, sl0.fb⟩ : Slice C S) [.clear] =
          ⟨some (b.new n), sl0.gen.map (fun nd => { nd with attr := none }), none⟩ := by simp [srun_cons, srun_nil, sstep]
      rw [hc]
      have hclr : ((⟨some (b.new n), sl0.gen.map (fun nd => { nd with attr := none }), none⟩ : Slice C S).fb = none ∧
          ∀ nd, (⟨some (b.new n), sl0.gen.map (fun nd => { nd with attr := none }), none⟩ : Slice C S).gen = some nd → nd.attr = none) := by
        refine ⟨rfl, ?_⟩
        intro nd hg
        cases hgen : sl0.gen with
        | none => simp [hgen] at hg
        | some nd0 => simp [hgen] at hg; rw [← hg]
      rcases take_append_cases (moveS b ⟨some (b.new n), sl0.gen.map (fun nd => { nd with attr := none }), none⟩ n) (stampS b n) i' with ⟨i2, e2⟩ | ⟨i2, e2⟩
      · rw [e2]
        apply sliceInv_of_noStamp
        apply noStamp_of
        exact srun_move_noStamp _ _ (fun o ho => moveS_moveOps b _ n o (List.mem_of_mem_take ho)) hclr
      · rw [e2, srun_append]
        obtain ⟨t', em⟩ := srun_move b n (b.new n) (sl0.gen.map (fun nd => { nd with attr := none })) (none : Option (Fb S))
        have em' : srun (⟨some (b.new n), sl0.gen.map (fun nd => { nd with attr := none }), none⟩ : Slice C S)
            (moveS b ⟨some (b.new n), sl0.gen.map (fun nd => { nd with attr := none }), none⟩ n) =
            ⟨t', some (movedClr b sl0 n), none⟩ := em
        rw [em']
        have hmc := movedClr_spec b hH sl0 n
        generalize movedClr b sl0 n = m at hmc
        by_cases hf : b.useFb n = true
        · simp only [stampS, hf, if_true]
          cases i2 with
          | zero =>
            apply sliceInv_of_noStamp; apply noStamp_of
            simp only [List.take_zero, srun_nil]
            exact ⟨trivial, by intro nd hg; simp at hg; rw [← hg]; exact hmc.2⟩
          | succ i2 =>
            simp only [List.cons_append, List.nil_append, List.take_succ_cons, srun_cons, sstep]
            rcases take_append_cases (b.fbParts.map SOp.fbPart) [.fbFull b.stamp] i2 with ⟨i3, e3⟩ | ⟨i3, e3⟩
            · rw [e3, ← List.map_take]
              obtain ⟨k, ek⟩ := srun_fbPart t' (some m) (b.fbParts.take i3) 0
              rw [ek]
              apply sliceInv_of_noStamp; simp [sliceStamp, Fb.read]
            · rw [e3, srun_append]
              obtain ⟨k, ek⟩ := srun_fbPart t' (some m) b.fbParts 0
              rw [ek]
              cases i3 with
              | zero => apply sliceInv_of_noStamp; simp [sliceStamp, srun_nil, Fb.read]
              | succ i3 =>
                intro nd s hg hs
                simp [srun_cons, srun_nil, sstep] at hg
                simp [srun_cons, srun_nil, sstep, sliceStamp, Fb.read] at hs
                subst hg; subst hs
                rw [hmc.1]; exact hnew
        · have hf' : b.useFb n = false := by simpa using hf
          simp only [stampS, hf', Bool.false_eq_true, if_false]
          cases i2 with
          | zero =>
            apply sliceInv_of_noStamp; apply noStamp_of
            simp only [List.take_zero, srun_nil]
            exact ⟨trivial, by intro nd hg; simp at hg; rw [← hg]; exact hmc.2⟩
          | succ i2 =>
            intro nd s hg hs
            simp [srun_cons, srun_nil, sstep] at hg
            simp [srun_cons, srun_nil, sstep, sliceStamp] at hs
            subst hg; subst hs
            simp only
            rw [hmc.1]; exact hnew

/-! ### the metadata file under the repair: it is never found truncated under current stamps -/

theorem planFixed_split (b : Params N C S H) (fs : TState N C S) :
    planFixed b fs = ([Op.prepTmp] ++ b.outs.map (fun n => Op.out n (.run (b.new n)))) ++
      ((b.outs.map (fun n => Op.out n .clear) ++ (mdOps b ++ moveOps b fs)) ++ (stampOps b ++ (cacheOps b ++ [Op.finish]))) := by
  simp [planFixed, planWith, fixedOrder, codedOrder, phaseOps, List.append_assoc]

theorem clear_neutral (l : List N) : ∀ op ∈ l.map (fun n => Op.out (C := C) (S := S) n .clear), MdNeutral op := by
  intro op h
  simp only [List.mem_map] at h
  obtain ⟨n, _, rfl⟩ := h
  exact out_neutral n _

theorem moveOps_neutral (b : Params N C S H) (fs : TState N C S) : ∀ op ∈ moveOps b fs, MdNeutral op := by
  intro op h
  simp only [moveOps, List.mem_flatMap, List.mem_map] at h
  obtain ⟨n, _, o, _, rfl⟩ := h
  exact out_neutral n o

theorem stampTail_neutral (b : Params N C S H) : ∀ op ∈ (stampOps b ++ (cacheOps (N := N) (C := C) b ++ [Op.finish])), MdNeutral op := by
  intro op h
  simp only [List.mem_append, stampOps, cacheOps, List.mem_flatMap, List.mem_map, List.mem_cons,
    List.not_mem_nil, or_false] at h
  rcases h with (⟨n, _, o, _, rfl⟩ | h) | h | rfl
  · exact out_neutral n o
  · split at h
    · simp at h; rcases h with rfl | rfl <;> (intro m; rfl)
    · simp at h; subst h; intro m; rfl
  · split at h
    · simp at h; subst h; intro m; rfl
    · simp at h
  · intro m; rfl

/-- everything between the first `clear` and the stamp phase acts on output `n0` (the first declared output, whose
    stamp is dropped first) through move-phase operations only -/
theorem mid_proj_move (b : Params N C S H) (fs : TState N C S) (n0 : N) (tl : List N) (hn0 : n0 ∉ tl) :
    ∀ op ∈ (tl.map (fun n => Op.out (C := C) (S := S) n .clear) ++ (mdOps b ++ moveOps b fs)), ∀ o, proj n0 op = some o → MoveOp o := by
  intro op h o ho
  simp only [List.mem_append, List.mem_map, moveOps, List.mem_flatMap] at h
  rcases h with ⟨m, hm, rfl⟩ | h | ⟨m, _, o', ho', rfl⟩
  · have : ¬ m = n0 := fun e => hn0 (e ▸ hm)
    simp [proj, this] at ho
  · have := mdOps_proj (N := N) (C := C) (S := S) b n0
    rw [List.filterMap_eq_nil_iff] at this
    rw [this op h] at ho; simp at ho
  · simp only [proj] at ho
    split at ho
    · simp at ho; subst ho; rename_i hmn; subst hmn; exact moveS_moveOps b _ _ _ ho'
    · simp at ho

theorem filterMap_all {α β : Type} (f : α → Option β) (P : β → Prop) (l : List α) (h : ∀ a ∈ l, ∀ y, f a = some y → P y) :
    ∀ y ∈ l.filterMap f, P y := by
  intro y hy
  simp only [List.mem_filterMap] at hy
  obtain ⟨a, ha, e⟩ := hy
  exact h a ha y e

/-- With the repair, after a crash: nothing but temporaries touched, or some declared output reads no stamp, or the
    metadata file is complete. -/
theorem crash_fixed_md (b : Params N C S H) (fs : TState N C S) (hnd : b.outs.Nodup) (hne : b.outs ≠ []) (k : Nat) :
    ((applyOps fs ((planFixed b fs).take k)).md = fs.md ∧
      ∀ n, readStamp b (applyOps fs ((planFixed b fs).take k)) n = readStamp b fs n) ∨
    (∃ n ∈ b.outs, readStamp b (applyOps fs ((planFixed b fs).take k)) n = none) ∨
    (applyOps fs ((planFixed b fs).take k)).md = some b.mdBytes := by
  rw [planFixed_split]
  rcases take_append_cases' ([Op.prepTmp] ++ b.outs.map (fun n => Op.out (S := S) n (.run (b.new n)))) _ k with ⟨i, e⟩ | ⟨i, e⟩
  · left
    rw [e]
    refine ⟨?_, ?_⟩
    · rw [applyOps_md, foldl_mdNeutral _ _ (fun op h => head_neutral b op (List.mem_of_mem_take h))]
    · intro n
      unfold readStamp
      rw [applyOps_out]
      obtain ⟨h1, h2⟩ := srun_tmpOnly _ (fs.out n) (head_proj_tmpOnly b n i)
      exact sliceStamp_congr _ _ _ h1 h2
  · right
    rw [e]
    cases ho : b.outs with
    | nil => exact absurd ho hne
    | cons n0 tl =>
      have hn0 : n0 ∉ tl := by rw [ho] at hnd; exact (List.nodup_cons.mp hnd).1
      rcases take_append_cases ((((n0 :: tl).map (fun n => Op.out (C := C) (S := S) n .clear)) ++ (mdOps b ++ moveOps b fs)))
          (stampOps b ++ (cacheOps b ++ [Op.finish])) (i + 1) with ⟨i', e'⟩ | ⟨i', e'⟩
      · -- before the stamp phase, after at least the first `clear`: output n0 reads no stamp
        left
        refine ⟨n0, by simp, ?_⟩
        rw [e']
        have hi' : ∃ i2, List.take i' ((List.map (fun n => Op.out (C := C) (S := S) n SOp.clear) (n0 :: tl)) ++ (mdOps b ++ moveOps b fs)) =
            Op.out n0 .clear :: List.take i2 (tl.map (fun n => Op.out n .clear) ++ (mdOps b ++ moveOps b fs)) := by
          cases i' with
          | zero =>
            exfalso
            have := congrArg List.length e'
            simp at this
          | succ i2 => exact ⟨i2, by simp [List.take_succ_cons]⟩
        obtain ⟨i2, e2⟩ := hi'
        rw [e2]
        unfold readStamp
        rw [applyOps_out, List.filterMap_append]
        have hhead : (([Op.prepTmp] ++ (n0 :: tl).map (fun n => Op.out (S := S) n (.run (b.new n)))).filterMap (proj n0)) =
            [.prep, .run (b.new n0)] := by
          have := filterMap_run_map (S := S) b n0 (n0 :: tl) (by rw [← ho]; exact hnd) (by simp)
          simp only [List.filterMap_append, this]
          simp [proj]
        rw [hhead]
        simp only [List.filterMap_cons, proj, if_true]
        rw [srun_append]
        have hbase : srun (srun (fs.out n0) [SOp.prep, .run (b.new n0)]) [SOp.clear] =
            ⟨some (b.new n0), (fs.out n0).gen.map (fun nd => { nd with attr := none }), none⟩ := by
          simp [srun_cons, srun_nil, sstep]
        have hsplit : ∀ (l : List (SOp C S)), srun (srun (fs.out n0) [SOp.prep, .run (b.new n0)]) (SOp.clear :: l) =
            srun (srun (srun (fs.out n0) [SOp.prep, .run (b.new n0)]) [SOp.clear]) l := fun l => rfl
        rw [hsplit, hbase]
        apply noStamp_of
        apply srun_move_noStamp
        · exact filterMap_all _ _ _ (fun op hop o ho' => mid_proj_move b fs n0 tl hn0 op (List.mem_of_mem_take hop) o ho')
        · refine ⟨rfl, ?_⟩
          intro nd hg
          cases hgen : (fs.out n0).gen with
          | none => simp [hgen] at hg
          | some nd0 => simp [hgen] at hg; rw [← hg]
      · -- in or after the stamp phase: the metadata file is complete
        right
        rw [e', applyOps_md]
        have hA : ∀ m, List.foldl mdStep m ([Op.prepTmp] ++ (n0 :: tl).map (fun n => Op.out (S := S) n (.run (b.new n)))) = m :=
          fun m => foldl_mdNeutral _ m (by rw [← ho]; exact head_neutral b)
        have hB : ∀ m, List.foldl mdStep m ((n0 :: tl).map (fun n => Op.out (C := C) (S := S) n .clear)) = m :=
          fun m => foldl_mdNeutral _ m (clear_neutral (n0 :: tl))
        have hD : ∀ m, List.foldl mdStep m (moveOps b fs) = m := fun m => foldl_mdNeutral _ m (moveOps_neutral b fs)
        have hE : ∀ m, List.foldl mdStep m (List.take i' (stampOps b ++ (cacheOps b ++ [Op.finish]))) = m :=
          fun m => foldl_mdNeutral _ m (fun op h => stampTail_neutral b op (List.mem_of_mem_take h))
        simp only [List.foldl_append, hE, hD, mdOps_md]

/-! ### the repaired step run to its end -/

theorem localOpsFixed_eq (b : Params N C S H) (fs : TState N C S) (n : N) :
    localOpsFixed b fs n = [.prep, .run (b.new n)] ++ ([.clear] ++
      (moveS b ⟨some (b.new n), (fs.out n).gen.map (fun nd => { nd with attr := none }), none⟩ n ++ stampS b n)) := by
  simp only [localOpsFixed, List.append_assoc, List.cons_append, List.nil_append]
  congr 3
  unfold moveS
  cases (fs.out n).gen <;> rfl

/-- the slice a complete repaired build step leaves: the clean content, stamped with the current stamp -/
theorem srun_localFixed (b : Params N C S H) (fs : TState N C S) (n : N) :
    ∃ t, srun (fs.out n) (localOpsFixed b fs n) =
      if b.useFb n then ⟨t, some (movedClr b (fs.out n) n), some (.full b.stamp)⟩
      else ⟨t, some { movedClr b (fs.out n) n with attr := some b.stamp }, none⟩ := by
  rw [localOpsFixed_eq]
  generalize fs.out n = sl0
  have hP : srun sl0 [.prep, .run (b.new n)] = ⟨some (b.new n), sl0.gen, sl0.fb⟩ := by simp [srun_cons, srun_nil, sstep]
  have hc : srun (⟨some (b.new n), sl0.gen, sl0.fb⟩ : Slice C S) [.clear] =
      ⟨some (b.new n), sl0.gen.map (fun nd => { nd with attr := none }), none⟩ := by simp [srun_cons, srun_nil, sstep]
  obtain ⟨t', em⟩ := srun_move b n (b.new n) (sl0.gen.map (fun nd => { nd with attr := none })) (none : Option (Fb S))
  have em' : srun (⟨some (b.new n), sl0.gen.map (fun nd => { nd with attr := none }), none⟩ : Slice C S)
      (moveS b ⟨some (b.new n), sl0.gen.map (fun nd => { nd with attr := none }), none⟩ n) =
      ⟨t', some (movedClr b sl0 n), none⟩ := em
  rw [srun_append, hP, srun_append, hc, srun_append, em']
  refine ⟨t', ?_⟩
  by_cases hf : b.useFb n = true
  · simp only [stampS, hf, if_true, List.cons_append, List.nil_append, srun_cons, sstep, srun_append]
    obtain ⟨k, e'⟩ := srun_fbPart t' (some (movedClr b sl0 n)) b.fbParts 0
    rw [e']; simp [srun_cons, srun_nil, sstep]
  · have hf' : b.useFb n = false := by simpa using hf
    simp [stampS, hf', srun_cons, srun_nil, sstep]

theorem planFixed_out (b : Params N C S H) (fs : TState N C S) (hH : Function.Injective b.hash) (hnd : b.outs.Nodup)
    (n : N) (hn : n ∈ b.outs) :
    readStamp b (applyOps fs (planFixed b fs)) n = some b.stamp ∧
    ∃ nd, ((applyOps fs (planFixed b fs)).out n).gen = some nd ∧ nd.content = b.new n := by
  obtain ⟨t, e⟩ := srun_localFixed b fs n
  unfold readStamp
  rw [applyOps_out, planFixed_proj b fs n hnd hn, e]
  by_cases hf : b.useFb n = true
  · simp only [hf, if_true]
    exact ⟨by simp [sliceStamp, Fb.read], _, rfl, (movedClr_spec b hH _ n).1⟩
  · have hf' : b.useFb n = false := by simpa using hf
    simp only [hf', Bool.false_eq_true, if_false]
    exact ⟨by simp [sliceStamp], _, rfl, (movedClr_spec b hH _ n).1⟩

theorem planFixed_md (b : Params N C S H) (fs : TState N C S) : (applyOps fs (planFixed b fs)).md = some b.mdBytes := by
  rw [applyOps_md, planFixed_split]
  have hA : ∀ m, List.foldl mdStep m ([Op.prepTmp] ++ b.outs.map (fun n => Op.out (S := S) n (.run (b.new n)))) = m :=
    fun m => foldl_mdNeutral _ m (head_neutral b)
  have hB : ∀ m, List.foldl mdStep m (b.outs.map (fun n => Op.out (C := C) (S := S) n .clear)) = m :=
    fun m => foldl_mdNeutral _ m (clear_neutral b.outs)
  have hD : ∀ m, List.foldl mdStep m (moveOps b fs) = m := fun m => foldl_mdNeutral _ m (moveOps_neutral b fs)
  have hE : ∀ m, List.foldl mdStep m (stampOps b ++ (cacheOps b ++ [Op.finish])) = m :=
    fun m => foldl_mdNeutral _ m (stampTail_neutral b)
  simp only [List.foldl_append] at hA hB hE ⊢
  simp only [hE, hD, mdOps_md]

/-! ### a build step that FAILS the verification of its declared hashes (calculateAndCheckRuleHash returns at
`checkRuleHashes`, before `writeRuleHash`; Build then removes the outputs) -/

theorem needsBuilding_congr (b : Params N C S H) (fs1 fs2 : TState N C S) (hmd : fs1.md = fs2.md)
    (hs : ∀ n, (fs1.out n).gen = (fs2.out n).gen ∧ (fs1.out n).fb = (fs2.out n).fb) :
    needsBuilding b fs1 = needsBuilding b fs2 := by
  have hr : ∀ n, readStamp b fs1 n = readStamp b fs2 n := fun n => sliceStamp_congr _ _ _ (hs n).1 (hs n).2
  have hall : ∀ (l : List N) (h : Option S), readAll b fs1 l h = readAll b fs2 l h := by
    intro l
    induction l with
    | nil => intro h; rfl
    | cons n ns ih => intro h; unfold readAll; rw [hr n]; cases readStamp b fs2 n <;> simp [ih]
  have hany : b.outs.any (fun n => (fs1.out n).gen.isNone) = b.outs.any (fun n => (fs2.out n).gen.isNone) := by
    congr 1; funext n; rw [(hs n).1]
  unfold needsBuilding readRuleHash
  rw [hmd, hall, hany]

theorem planFail_split (b : Params N C S H) (fs : TState N C S) :
    planFailWith fixedOrder false b fs = ([Op.prepTmp] ++ b.outs.map (fun n => Op.out n (.run (b.new n)))) ++
      ((b.outs.map (fun n => Op.out n .clear) ++ (mdOps b ++ moveOps b fs)) ++ failOps b) := by
  have : fixedOrder.takeWhile (· != "stamp") = ["unstamp", "metadata", "move"] := by decide
  simp [planFailWith, this, phaseOps, List.append_assoc]

theorem failTail_proj_move (b : Params N C S H) (fs : TState N C S) (n0 : N) (tl : List N) (hn0 : n0 ∉ tl) :
    ∀ op ∈ ((tl.map (fun n => Op.out (C := C) (S := S) n .clear) ++ (mdOps b ++ moveOps b fs)) ++ failOps b),
      ∀ o, proj n0 op = some o → MoveOp o := by
  intro op h o ho
  rcases List.mem_append.mp h with h | h
  · exact mid_proj_move b fs n0 tl hn0 op h o ho
  · simp only [failOps, List.mem_map] at h
    obtain ⟨m, _, rfl⟩ := h
    simp only [proj] at ho
    split at ho
    · simp at ho; subst ho; trivial
    · simp at ho

/-- **A stamp is only ever written on outputs that passed verification.**  The build step of a target whose outputs do
    not match its declared hashes, cut at ANY position (in particular anywhere on the failure path, before or inside
    Build's RemoveOutputs), never leaves a state that `needsBuilding` accepts — provided the state it started from was
    not accepted either.  Depends on the order verify → record inside calculateAndCheckRuleHash (`stampFirst = false`). -/
theorem failing_step_never_trusted (b : Params N C S H) (fs : TState N C S) (hnd : b.outs.Nodup) (hne : b.outs ≠ [])
    (hpre : needsBuilding b fs = true) (k : Nat) :
    needsBuilding b (applyOps fs ((planFailWith fixedOrder false b fs).take k)) = true := by
  rw [planFail_split]
  rcases take_append_cases' ([Op.prepTmp] ++ b.outs.map (fun n => Op.out (S := S) n (.run (b.new n)))) _ k with ⟨i, e⟩ | ⟨i, e⟩
  · rw [e, ← hpre]
    apply needsBuilding_congr
    · rw [applyOps_md, foldl_mdNeutral _ _ (fun op h => head_neutral b op (List.mem_of_mem_take h))]
    · intro n
      rw [applyOps_out]
      exact srun_tmpOnly _ (fs.out n) (head_proj_tmpOnly b n i)
  · rw [e]
    cases ho : b.outs with
    | nil => exact absurd ho hne
    | cons n0 tl =>
      have hn0 : n0 ∉ tl := by rw [ho] at hnd; exact (List.nodup_cons.mp hnd).1
      -- output n0 reads no stamp: its stamp was dropped first and only move-phase operations touched it since
      have hns : readStamp b (applyOps fs (([Op.prepTmp] ++ (n0 :: tl).map (fun n => Op.out (S := S) n (.run (b.new n)))) ++
          List.take (i + 1) ((((n0 :: tl).map (fun n => Op.out (C := C) (S := S) n .clear)) ++ (mdOps b ++ moveOps b fs)) ++ failOps b))) n0 = none := by
        have e2 : List.take (i + 1) ((((n0 :: tl).map (fun n => Op.out (C := C) (S := S) n .clear)) ++ (mdOps b ++ moveOps b fs)) ++ failOps b) =
            Op.out n0 .clear :: List.take i ((tl.map (fun n => Op.out n .clear) ++ (mdOps b ++ moveOps b fs)) ++ failOps b) := by
          simp [List.take_succ_cons]
        rw [e2]
        unfold readStamp
        rw [applyOps_out, List.filterMap_append]
        have hhead : (([Op.prepTmp] ++ (n0 :: tl).map (fun n => Op.out (S := S) n (.run (b.new n)))).filterMap (proj n0)) =
            [.prep, .run (b.new n0)] := by
          have := filterMap_run_map (S := S) b n0 (n0 :: tl) (by rw [← ho]; exact hnd) (by simp)
          simp only [List.filterMap_append, this]
          simp [proj]
        rw [hhead]
        simp only [List.filterMap_cons, proj, if_true]
        rw [srun_append]
        have hbase : srun (srun (fs.out n0) [SOp.prep, .run (b.new n0)]) [SOp.clear] =
            ⟨some (b.new n0), (fs.out n0).gen.map (fun nd => { nd with attr := none }), none⟩ := by
          simp [srun_cons, srun_nil, sstep]
        have hsplit : ∀ (l : List (SOp C S)), srun (srun (fs.out n0) [SOp.prep, .run (b.new n0)]) (SOp.clear :: l) =
            srun (srun (srun (fs.out n0) [SOp.prep, .run (b.new n0)]) [SOp.clear]) l := fun l => rfl
        rw [hsplit, hbase]
        apply noStamp_of
        apply srun_move_noStamp
        · exact filterMap_all _ _ _ (fun op hop o ho' => failTail_proj_move b fs n0 tl hn0 op (List.mem_of_mem_take hop) o ho')
        · refine ⟨rfl, ?_⟩
          intro nd hg
          cases hgen : (fs.out n0).gen with
          | none => simp [hgen] at hg
          | some nd0 => simp [hgen] at hg; rw [← hg]
      cases hnb : needsBuilding b (applyOps fs (([Op.prepTmp] ++ (n0 :: tl).map (fun n => Op.out (S := S) n (.run (b.new n)))) ++
          List.take (i + 1) ((((n0 :: tl).map (fun n => Op.out (C := C) (S := S) n .clear)) ++ (mdOps b ++ moveOps b fs)) ++ failOps b))) with
      | true => rfl
      | false =>
        exfalso
        have := (needsBuilding_false b _ hnb).2 n0 (by rw [ho]; simp)
        rw [hns] at this; simp at this

end PlzVerif.CrashBuild
