import PlzVerif.Model.CASFS
import PlzVerif.Lemmas.Cmd
/-! Helper lemmas for C29: `findNode` against an inductive description of "where things are in the tree",
    fuel monotonicity of `openAt`, symlink cycles. -/
namespace PlzVerif.CASFS
open PlzVerif.Cmd (Str pathClean pathJoin splitOnChar hasPrefix)

/-- A component that names an entry (not empty, not `.`, not `..`). -/
def plain (c : Str) : Prop := c ≠ [] ∧ c ≠ ['.'] ∧ c ≠ ['.', '.']

instance (c : Str) : Decidable (plain c) := by unfold plain; exact inferInstance

/-- `At d p x`: walking the plain components `p` down from directory `d` arrives at the entry `x`
    (a file, a symlink or a directory listed in the last directory reached).  This is the specification of a
    lookup: it mentions membership in the tree only, not search order. -/
inductive At : Dir → List Str → Node → Prop
  | file {d : Dir} {f : FileN} : f ∈ d.files → At d [f.name] (.file f)
  | link {d : Dir} {l : LinkN} : l ∈ d.links → At d [l.name] (.link l)
  | dir {d : Dir} {n : Str} {sub : Dir} : (n, sub) ∈ d.dirs → At d [n] (.dir n sub)
  | step {d : Dir} {n : Str} {sub : Dir} {p : List Str} {x : Node} :
      (n, sub) ∈ d.dirs → p ≠ [] → At sub p x → At d (n :: p) x

/-- All names of one directory, in the three lists. -/
def Dir.names (d : Dir) : List Str := d.dirs.map (·.1) ++ d.files.map (·.name) ++ d.links.map (·.name)

/-- REAPI well-formedness: within every directory each name occurs once (across sub-directories, files and
    symlinks). -/
inductive WF : Dir → Prop
  | mk {d : Dir} : d.names.Nodup → (∀ e ∈ d.dirs, WF e.2) → WF d

theorem find?_dirs_mem {d : Dir} {n : Str} {e : Str × Dir} (h : d.dirs.find? (fun e => e.1 = n) = some e) :
    e ∈ d.dirs ∧ e.1 = n := by
  have := List.find?_some h
  exact ⟨List.mem_of_find?_eq_some h, by simpa using this⟩

/-- Soundness: whatever `findNode` returns for plain components is in the tree at that place. -/
theorem findNode_sound : ∀ (p : List Str) (d : Dir) (x : Node), (∀ c ∈ p, plain c) → findNode d p = some x → At d p x := by
  intro p
  induction p with
  | nil => intro d x _ h; simp [findNode] at h
  | cons name tail ih =>
    intro d x hp h
    have hn := hp name (by simp)
    unfold findNode at h
    simp only [hn.2.1, hn.2.2, ↓reduceIte] at h
    cases hd : d.dirs.find? (fun e => e.1 = name) with
    | some e =>
      obtain ⟨en, sub⟩ := e
      obtain ⟨hm, he⟩ := find?_dirs_mem hd
      simp only at he; subst he
      simp only [hd] at h
      by_cases hr : restEmpty tail = true
      · simp only [hr, ↓reduceIte, Option.some.injEq] at h
        subst h
        -- tail is [] (a plain component cannot be empty, so [[]] is excluded)
        have : tail = [] := by
          simp only [restEmpty, Bool.or_eq_true, decide_eq_true_eq] at hr
          rcases hr with h | h
          · exact h
          · exfalso; have := hp [] (by simp [h]); exact this.1 rfl
        subst this
        exact At.dir hm
      · simp only [hr, Bool.false_eq_true, ↓reduceIte] at h
        have hne : tail ≠ [] := by intro e; apply hr; simp [restEmpty, e]
        exact At.step hm hne (ih sub x (fun c hc => hp c (by simp [hc])) h)
    | none =>
      simp only [hd] at h
      by_cases ht : tail ≠ []
      · simp [ht] at h
      · have ht' : tail = [] := by simpa using ht
        subst ht'
        simp only [ne_eq, not_true_eq_false, ↓reduceIte] at h
        cases hf : d.files.find? (fun f => f.name = name) with
        | some f =>
          simp only [hf, Option.some.injEq] at h
          subst h
          have hm := List.mem_of_find?_eq_some hf
          have hname : f.name = name := by simpa using List.find?_some hf
          rw [← hname]; exact At.file hm
        | none =>
          simp only [hf] at h
          cases hl : d.links.find? (fun l => l.name = name) with
          | some l =>
            simp only [hl, Option.some.injEq] at h
            subst h
            have hm := List.mem_of_find?_eq_some hl
            have hname : l.name = name := by simpa using List.find?_some hl
            rw [← hname]; exact At.link hm
          | none => simp [hl] at h

/-! ### completeness under well-formedness -/

theorem find?_dirs_of_mem {d : Dir} {n : Str} {sub : Dir} (hnd : d.names.Nodup) (hm : (n, sub) ∈ d.dirs) :
    d.dirs.find? (fun e => e.1 = n) = some (n, sub) := by
  have hnd' : (d.dirs.map (·.1)).Nodup := by
    unfold Dir.names at hnd
    exact (List.nodup_append.mp (List.nodup_append.mp hnd).1).1
  generalize d.dirs = l at hm hnd'
  induction l with
  | nil => cases hm
  | cons e es ih =>
    simp only [List.map_cons, List.nodup_cons] at hnd'
    simp only [List.find?_cons]
    rcases List.mem_cons.mp hm with h | h
    · subst h; simp
    · have hne : e.1 ≠ n := by
        intro he; apply hnd'.1; rw [he]; exact List.mem_map.mpr ⟨(n, sub), h, rfl⟩
      simp [hne, ih h hnd'.2]

theorem find?_dirs_none_of_other {d : Dir} {n : Str} (hnd : d.names.Nodup)
    (h : n ∈ d.files.map (·.name) ∨ n ∈ d.links.map (·.name)) : d.dirs.find? (fun e => e.1 = n) = none := by
  rw [List.find?_eq_none]
  intro e he hen
  have hen' : e.1 = n := by simpa using hen
  unfold Dir.names at hnd
  have h1 : e.1 ∈ d.dirs.map (·.1) := List.mem_map.mpr ⟨e, he, rfl⟩
  rcases h with h | h
  · have := (List.nodup_append.mp (List.nodup_append.mp hnd).1).2.2 e.1 h1 n h
    exact this hen'
  · have := (List.nodup_append.mp hnd).2.2 e.1 (List.mem_append_left _ h1) n h
    exact this hen'

theorem find?_files_of_mem {d : Dir} {f : FileN} (hnd : d.names.Nodup) (hm : f ∈ d.files) :
    d.files.find? (fun g => g.name = f.name) = some f := by
  have hnd' : (d.files.map (·.name)).Nodup := by
    unfold Dir.names at hnd
    exact (List.nodup_append.mp (List.nodup_append.mp hnd).1).2.1
  generalize d.files = l at hm hnd'
  induction l with
  | nil => cases hm
  | cons e es ih =>
    simp only [List.map_cons, List.nodup_cons] at hnd'
    simp only [List.find?_cons]
    rcases List.mem_cons.mp hm with h | h
    · subst h; simp
    · have hne : e.name ≠ f.name := by
        intro he; apply hnd'.1; rw [he]; exact List.mem_map.mpr ⟨f, h, rfl⟩
      simp [hne, ih h hnd'.2]

theorem find?_files_none_of_link {d : Dir} {n : Str} (hnd : d.names.Nodup) (h : n ∈ d.links.map (·.name)) :
    d.files.find? (fun g => g.name = n) = none := by
  rw [List.find?_eq_none]
  intro e he hen
  have hen' : e.name = n := by simpa using hen
  unfold Dir.names at hnd
  have h1 : e.name ∈ d.files.map (·.name) := List.mem_map.mpr ⟨e, he, rfl⟩
  exact (List.nodup_append.mp hnd).2.2 e.name (List.mem_append_right _ h1) n h hen'

theorem find?_links_of_mem {d : Dir} {l : LinkN} (hnd : d.names.Nodup) (hm : l ∈ d.links) :
    d.links.find? (fun g => g.name = l.name) = some l := by
  have hnd' : (d.links.map (·.name)).Nodup := by
    unfold Dir.names at hnd
    exact (List.nodup_append.mp hnd).2.1
  generalize d.links = ls at hm hnd'
  induction ls with
  | nil => cases hm
  | cons e es ih =>
    simp only [List.map_cons, List.nodup_cons] at hnd'
    simp only [List.find?_cons]
    rcases List.mem_cons.mp hm with h | h
    · subst h; simp
    · have hne : e.name ≠ l.name := by
        intro he; apply hnd'.1; rw [he]; exact List.mem_map.mpr ⟨l, h, rfl⟩
      simp [hne, ih h hnd'.2]

/-- Completeness: in a well-formed tree `findNode` finds every entry at its place. -/
theorem findNode_complete : ∀ (p : List Str) (d : Dir) (x : Node), WF d → (∀ c ∈ p, plain c) → At d p x → findNode d p = some x := by
  intro p
  induction p with
  | nil => intro d x _ _ h; cases h
  | cons name tail ih =>
    intro d x hwf hp h
    have hn := hp name (by simp)
    obtain ⟨hnd, hsub⟩ := hwf
    unfold findNode
    simp only [hn.2.1, hn.2.2, ↓reduceIte]
    cases h with
    | file hm =>
      rename_i f
      rw [find?_dirs_none_of_other hnd (Or.inl (List.mem_map.mpr ⟨f, hm, rfl⟩))]
      simp [find?_files_of_mem hnd hm]
    | link hm =>
      rename_i l
      rw [find?_dirs_none_of_other hnd (Or.inr (List.mem_map.mpr ⟨l, hm, rfl⟩))]
      simp [find?_files_none_of_link hnd (List.mem_map.mpr ⟨l, hm, rfl⟩), find?_links_of_mem hnd hm]
    | dir hm =>
      rw [find?_dirs_of_mem hnd hm]
      simp [restEmpty]
    | step hm hne hrest =>
      rename_i sub
      rw [find?_dirs_of_mem hnd hm]
      have hre : restEmpty tail = false := by
        cases tail with
        | nil => exact absurd rfl hne
        | cons c cs =>
          have hc := hp c (by simp)
          cases cs with
          | nil =>
            simp only [restEmpty, Bool.or_eq_false_iff, decide_eq_false_iff_not]
            refine ⟨by simp, ?_⟩
            intro e; simp at e; exact hc.1 e
          | cons _ _ => simp [restEmpty]
      simp only [hre, Bool.false_eq_true, ↓reduceIte]
      exact ih sub x (hsub (name, sub) hm) (fun c hc => hp c (by simp [hc])) hrest

/-! ### `open`: fuel -/

theorem openAt_mono (root : Dir) : ∀ (n : Nat) (p : Str) (r : OpenRes), openAt root n p = r → r ≠ .outOfFuel →
    openAt root (n + 1) p = r := by
  intro n
  induction n with
  | zero => intro p r h hr; simp [openAt] at h; exact absurd h.symm hr
  | succ n ih =>
    intro p r h hr
    rw [openAt] at h ⊢
    cases hf : findNode root (comps p) with
    | none => simp only [hf] at h ⊢; exact h
    | some x =>
      cases x with
      | file f => simp only [hf] at h ⊢; exact h
      | dir nm d => simp only [hf] at h ⊢; exact h
      | link l =>
        simp only [hf] at h ⊢
        split
        · rename_i habs; simp only [habs, ↓reduceIte] at h; exact h
        · rename_i habs; simp only [habs] at h; exact ih _ r h hr

/-- One hop of symlink resolution as `open` performs it. -/
def Hop (root : Dir) (p q : Str) : Prop :=
  ∃ l, findNode root (comps p) = some (.link l) ∧ hasPrefix l.target ['/'] = false ∧ q = pathJoin [pathDir p, l.target]

/-- A path that is not a (relative) symlink is opened in one step. -/
def Terminal (root : Dir) (p : Str) : Prop :=
  ∀ l, findNode root (comps p) = some (.link l) → hasPrefix l.target ['/'] = true

theorem openAt_hop {root : Dir} {p q : Str} (h : Hop root p q) (n : Nat) : openAt root (n + 1) p = openAt root n q := by
  obtain ⟨l, hf, habs, rfl⟩ := h
  rw [openAt]
  simp [hf, habs]

theorem openAt_terminal {root : Dir} {p : Str} (h : Terminal root p) (n : Nat) : openAt root (n + 1) p ≠ .outOfFuel := by
  rw [openAt]
  cases hf : findNode root (comps p) with
  | none => simp
  | some x =>
    cases x with
    | file f => simp
    | dir nm d => simp
    | link l => simp [h l hf]

/-- `k` hops lead from `p` to a terminal path. -/
inductive Resolves (root : Dir) : Nat → Str → Prop
  | done {p : Str} : Terminal root p → Resolves root 0 p
  | hop {k : Nat} {p q : Str} : Hop root p q → Resolves root k q → Resolves root (k + 1) p

/-- No loop ⇒ `open` terminates: if the chain from `p` ends after `k` hops, any fuel above `k` suffices. -/
theorem openAt_resolves {root : Dir} : ∀ {k : Nat} {p : Str}, Resolves root k p → ∀ n, k < n → openAt root n p ≠ .outOfFuel := by
  intro k p h
  induction h with
  | done ht => intro n hn; cases n with
    | zero => omega
    | succ n => exact openAt_terminal ht n
  | hop hh _ ih => intro n hn; cases n with
    | zero => omega
    | succ n => rw [openAt_hop hh]; exact ih n (by omega)

/-- `k` hops lead from `p` to `q`. -/
inductive HopsTo (root : Dir) : Nat → Str → Str → Prop
  | zero (p : Str) : HopsTo root 0 p p
  | succ {k : Nat} {p q r : Str} : Hop root p q → HopsTo root k q r → HopsTo root (k + 1) p r

/-- `open` follows the chain: after `k` hops it is `open` at the end of the chain with `k` less fuel. -/
theorem openAt_hopsTo {root : Dir} : ∀ {k : Nat} {p q : Str}, HopsTo root k p q → ∀ n, openAt root (n + k) p = openAt root n q := by
  intro k p q h
  induction h with
  | zero p => intro n; rfl
  | succ hh _ ih =>
    intro n
    rw [← Nat.add_assoc, openAt_hop hh]
    exact ih n

/-- What `open` returns at a path that is not a relative symlink: the entry `findNode` finds there. -/
def direct (root : Dir) (p : Str) : OpenRes :=
  match findNode root (comps p) with
  | none => .notExist
  | some (.file f) => .file f
  | some (.dir n d) => .dir n d
  | some (.link _) => .absLink

theorem openAt_terminal_eq {root : Dir} {p : Str} (h : Terminal root p) (n : Nat) : openAt root (n + 1) p = direct root p := by
  rw [openAt]
  unfold direct
  cases hf : findNode root (comps p) with
  | none => rfl
  | some x =>
    cases x with
    | file f => rfl
    | dir nm d => rfl
    | link l => simp [h l hf]

/-- A two-link cycle exhausts every fuel. -/
theorem openAt_cycle2 {root : Dir} {p q : Str} (h1 : Hop root p q) (h2 : Hop root q p) :
    ∀ n, openAt root n p = .outOfFuel ∧ openAt root n q = .outOfFuel := by
  intro n
  induction n with
  | zero => simp [openAt]
  | succ n ih => rw [openAt_hop h1, openAt_hop h2]; exact ⟨ih.2, ih.1⟩

/-- A self-loop exhausts every fuel. -/
theorem openAt_cycle1 {root : Dir} {p : Str} (h : Hop root p p) : ∀ n, openAt root n p = .outOfFuel := by
  intro n
  induction n with
  | zero => simp [openAt]
  | succ n ih => rw [openAt_hop h]; exact ih


/-! ### valid io/fs names pass through `filepath.Join`/`Clean` unchanged -/

open PlzVerif.Cmd (joinWith cleanStep splitOnChar_ne_nil pathJoin_dot stripPrefix?)

theorem joinWith_cons_cons (c : Char) (w : Str) (ws : List Str) :
    joinWith ['/'] ((c :: w) :: ws) = c :: joinWith ['/'] (w :: ws) := by
  cases ws <;> simp [joinWith]

theorem joinWith_splitOnChar : ∀ (s : Str), joinWith ['/'] (splitOnChar '/' s) = s
  | [] => by simp [splitOnChar, joinWith]
  | c :: cs => by
    have ih := joinWith_splitOnChar cs
    rw [splitOnChar]
    cases h : splitOnChar '/' cs with
    | nil => exact absurd h (splitOnChar_ne_nil _ _)
    | cons w ws =>
      rw [h] at ih
      by_cases hc : c = '/'
      · simp only [hc, ↓reduceIte]
        show joinWith ['/'] ([] :: w :: ws) = '/' :: cs
        simp [joinWith, ih]
      · simp only [hc, ↓reduceIte]
        rw [joinWith_cons_cons, ih]

theorem foldl_cleanStep_plain (r : Bool) : ∀ (cs : List Str) (stack : List Str), (∀ c ∈ cs, plain c) →
    cs.foldl (cleanStep r) stack = cs.reverse ++ stack
  | [], stack, _ => by simp
  | c :: cs, stack, h => by
    have hc := h c (by simp)
    have e : cleanStep r stack c = c :: stack := by
      unfold cleanStep
      simp [hc.1, hc.2.1, hc.2.2]
    simp only [List.foldl_cons, e]
    rw [foldl_cleanStep_plain r cs (c :: stack) (fun x hx => h x (by simp [hx]))]
    simp

/-- A name all of whose components are plain is its own `filepath.Clean`. -/
theorem pathClean_plain (p : Str) (h : ∀ c ∈ splitOnChar '/' p, plain c) : pathClean p = p := by
  have hne : p ≠ [] := by
    intro e; subst e
    have := h [] (by simp [splitOnChar]); exact this.1 rfl
  have hroot : hasPrefix p ['/'] = false := by
    cases p with
    | nil => exact absurd rfl hne
    | cons c cs =>
      by_cases hc : c = '/'
      · subst hc
        exfalso
        have : ([] : Str) ∈ splitOnChar '/' ('/' :: cs) := by
          rw [splitOnChar]
          cases hs : splitOnChar '/' cs with
          | nil => exact absurd hs (splitOnChar_ne_nil _ _)
          | cons w ws => simp
        exact (h [] this).1 rfl
      · simp [hasPrefix, stripPrefix?, hc]
  unfold pathClean
  simp only [hne, ↓reduceIte, hroot, Bool.false_eq_true]
  rw [foldl_cleanStep_plain false _ [] h]
  simp only [List.append_nil, List.reverse_reverse, joinWith_splitOnChar, hne, ↓reduceIte]

/-- For a valid name and the default working directory, `Open`/`Stat` look up exactly the name's components. -/
theorem comps_join_valid (name : Str) (h : ∀ c ∈ splitOnChar '/' name, plain c) :
    comps (pathJoin [pathClean [], name]) = splitOnChar '/' name := by
  have hne : name ≠ [] := by
    intro e; subst e
    have := h [] (by simp [splitOnChar]); exact this.1 rfl
  have hc : pathClean name = name := pathClean_plain name h
  have hroot : hasPrefix name ['/'] = false := by
    cases name with
    | nil => exact absurd rfl hne
    | cons c cs =>
      by_cases hcc : c = '/'
      · subst hcc
        exfalso
        have : ([] : Str) ∈ splitOnChar '/' ('/' :: cs) := by
          rw [splitOnChar]
          cases hs : splitOnChar '/' cs with
          | nil => exact absurd hs (splitOnChar_ne_nil _ _)
          | cons w ws => simp
        exact (h [] this).1 rfl
      · simp [hasPrefix, stripPrefix?, hcc]
  have e1 : pathClean ([] : Str) = ['.'] := by decide
  rw [e1, pathJoin_dot name hne hroot]
  have e2 : pathJoin [[], name] = pathClean name := by
    simp [pathJoin, List.dropWhile, hne, joinWith]
  rw [e2, hc]
  rfl


/-! ### cycles of any length -/

theorem hopsTo_prefix {root : Dir} : ∀ {k : Nat} {p r : Str}, HopsTo root k p r → ∀ j, j ≤ k → ∃ q, HopsTo root j p q := by
  intro k p r h
  induction h with
  | zero p =>
    intro j hj
    have hj0 : j = 0 := by omega
    subst hj0
    exact ⟨p, HopsTo.zero p⟩
  | succ hh _ ih =>
    intro j hj
    cases j with
    | zero => exact ⟨_, HopsTo.zero _⟩
    | succ j =>
      obtain ⟨q, hq⟩ := ih j (by omega)
      exact ⟨q, HopsTo.succ hh hq⟩

/-- `j` hops with exactly `j` fuel run out of fuel. -/
theorem openAt_exact_fuel {root : Dir} {j : Nat} {p q : Str} (h : HopsTo root j p q) : openAt root j p = .outOfFuel := by
  have := openAt_hopsTo h 0
  simp only [Nat.zero_add] at this
  rw [this]; rfl

/-- **Any symlink cycle exhausts every fuel**: if `k+1` hops lead from `p` back to `p`, `open` never returns. -/
theorem openAt_cycle {root : Dir} {k : Nat} {p : Str} (h : HopsTo root (k + 1) p p) : ∀ n, openAt root n p = .outOfFuel := by
  intro n
  induction n using Nat.strongRecOn with
  | _ n ih =>
    by_cases hn : n ≤ k + 1
    · obtain ⟨q, hq⟩ := hopsTo_prefix h n hn
      exact openAt_exact_fuel hq
    · obtain ⟨m, rfl⟩ : ∃ m, n = m + (k + 1) := ⟨n - (k + 1), by omega⟩
      rw [openAt_hopsTo h m]
      exact ih m (by omega)

/-! ### what `open` can return -/

/-- A file `open` returns is a file `findNode` finds at some path. -/
theorem openAt_file_found {root : Dir} : ∀ (n : Nat) (p : Str) (f : FileN), openAt root n p = .file f →
    ∃ q, findNode root (comps q) = some (.file f) := by
  intro n
  induction n with
  | zero => intro p f h; simp [openAt] at h
  | succ n ih =>
    intro p f h
    rw [openAt] at h
    cases hf : findNode root (comps p) with
    | none => simp [hf] at h
    | some x =>
      cases x with
      | file g => simp only [hf, OpenRes.file.injEq] at h; subst h; exact ⟨p, hf⟩
      | dir nm d => simp [hf] at h
      | link l =>
        simp only [hf] at h
        split at h
        · cases h
        · exact ih _ f h

/-! ### the listing -/

/-- `ReadDir(n ≤ 0)` lists exactly the entries the tree has directly in that directory. -/
theorem mem_entries_iff (d : Dir) (i : Info) : i ∈ entries d ↔ ∃ x, At d [i.name] x ∧ x.info = i := by
  unfold entries
  simp only [List.mem_append, List.mem_map]
  constructor
  · rintro ((⟨e, he, rfl⟩ | ⟨f, hf, rfl⟩) | ⟨l, hl, rfl⟩)
    · exact ⟨.dir e.1 e.2, At.dir (by cases e; exact he), rfl⟩
    · exact ⟨.file f, At.file hf, rfl⟩
    · exact ⟨.link l, At.link hl, rfl⟩
  · rintro ⟨x, hat, rfl⟩
    generalize hp : [x.info.name] = p at hat
    cases hat with
    | file hm => left; right; exact ⟨_, hm, rfl⟩
    | link hm => right; exact ⟨_, hm, rfl⟩
    | dir hm => left; left; exact ⟨(_, _), hm, rfl⟩
    | step hm hne _ =>
      simp only [List.cons.injEq] at hp
      exact absurd hp.2.symm hne

/-! ### a working directory with plain components -/

theorem splitOnChar_append_sep : ∀ (a b : Str), splitOnChar '/' (a ++ '/' :: b) = splitOnChar '/' a ++ splitOnChar '/' b
  | [], b => by
    rw [List.nil_append, splitOnChar]
    cases h : splitOnChar '/' b with
    | nil => exact absurd h (splitOnChar_ne_nil _ _)
    | cons w ws => simp [splitOnChar, h]
  | c :: a, b => by
    have ih := splitOnChar_append_sep a b
    rw [List.cons_append, splitOnChar, ih]
    cases h : splitOnChar '/' a with
    | nil => exact absurd h (splitOnChar_ne_nil _ _)
    | cons w ws =>
      rw [splitOnChar, h]
      by_cases hc : c = '/' <;> simp [hc]

/-- With a working directory and a name that both consist of plain components, `Open`/`Stat` look up the
    components of the working directory followed by those of the name. -/
theorem comps_join_wd (wd name : Str) (hw : ∀ c ∈ splitOnChar '/' wd, plain c) (hn : ∀ c ∈ splitOnChar '/' name, plain c) :
    comps (pathJoin [pathClean wd, name]) = splitOnChar '/' wd ++ splitOnChar '/' name := by
  have hwne : wd ≠ [] := by
    intro e; subst e; have := hw [] (by simp [splitOnChar]); exact this.1 rfl
  have hnne : name ≠ [] := by
    intro e; subst e; have := hn [] (by simp [splitOnChar]); exact this.1 rfl
  rw [pathClean_plain wd hw]
  have hall : ∀ c ∈ splitOnChar '/' (wd ++ '/' :: name), plain c := by
    rw [splitOnChar_append_sep]
    intro c hc
    rcases List.mem_append.mp hc with h | h
    · exact hw c h
    · exact hn c h
  have e : pathJoin [wd, name] = pathClean (wd ++ '/' :: name) := by
    simp [pathJoin, List.dropWhile, hwne, joinWith]
  rw [e, pathClean_plain _ hall]
  unfold comps
  exact splitOnChar_append_sep wd name


/-! ### `open` with the depth limit -/

theorem direct_ne_outOfFuel (root : Dir) (p : Str) : direct root p ≠ .outOfFuel := by
  unfold direct
  cases findNode root (comps p) with
  | none => simp
  | some x => cases x <;> simp

theorem openWith_ne_outOfFuel (l : Nat) (root : Dir) (fuel : Nat) (p : Str) : openWith (some l) root fuel p ≠ .outOfFuel := by
  unfold openWith
  simp only
  cases openAt root (l + 1) p <;> simp

/-- With the limit, every symlink cycle is refused with the clean error. -/
theorem openWith_cycle {root : Dir} {k : Nat} {p : Str} (l fuel : Nat) (h : HopsTo root (k + 1) p p) :
    openWith (some l) root fuel p = .tooManyLinks := by
  unfold openWith
  simp only [openAt_cycle h (l + 1)]

/-- With the limit, a chain of at most `l` links is followed to its end. -/
theorem openWith_chain {root : Dir} {k : Nat} {p q : Str} (l fuel : Nat) (h : HopsTo root k p q) (ht : Terminal root q)
    (hk : k ≤ l) : openWith (some l) root fuel p = direct root q := by
  unfold openWith
  obtain ⟨m, hm⟩ : ∃ m, l + 1 = (m + 1) + k := ⟨l - k, by omega⟩
  have e : openAt root (l + 1) p = direct root q := by rw [hm, openAt_hopsTo h, openAt_terminal_eq ht]
  simp only [e]
  have := direct_ne_outOfFuel root q
  cases hd : direct root q <;> simp_all

/-- … and a chain of more than `l` links is refused even when it has no loop (as a kernel does with ELOOP). -/
theorem openWith_deep {root : Dir} {k : Nat} {p q : Str} (l fuel : Nat) (h : HopsTo root k p q) (hk : l < k) :
    openWith (some l) root fuel p = .tooManyLinks := by
  unfold openWith
  obtain ⟨q', hq'⟩ := hopsTo_prefix h (l + 1) (by omega)
  simp only [openAt_exact_fuel hq']


/-! ### `ReadDir` with a read offset meets the io/fs paging contract -/

theorem rdOffset_eq (all : List Info) (n : Nat) (hn : 0 < n) : ∀ k, rdOffset all (n : Int) k = min (k * n) all.length := by
  intro k
  induction k with
  | zero => simp [rdOffset]
  | succ k ih =>
    simp only [rdOffset, ih, readDirStep]
    have h1 : ¬ ((n : Int) ≤ 0) := by omega
    simp only [h1, ↓reduceIte, Int.toNat_natCast, List.isEmpty_iff, List.drop_eq_nil_iff, List.length_drop]
    by_cases hlen : all.length ≤ min (k * n) all.length
    · simp only [hlen, ↓reduceIte]
      have : all.length ≤ k * n := by omega
      rw [Nat.succ_mul]; omega
    · simp only [hlen, ↓reduceIte]
      rw [Nat.succ_mul]; omega

/-- The `k`-th of successive `ReadDir(n)` calls, `n > 0`, on a handle with an offset: exactly the next chunk, and
    `io.EOF` exactly when nothing is left. -/
theorem readDirStep_spec (all : List Info) (n : Nat) (hn : 0 < n) (k : Nat) :
    (readDirStep all (rdOffset all (n : Int) k) (n : Int)).1 = readDirSpec all n k := by
  rw [rdOffset_eq all n hn k]
  have h1 : ¬ ((n : Int) ≤ 0) := by omega
  simp only [readDirStep, h1, ↓reduceIte, Int.toNat_natCast, readDirSpec]
  by_cases hlen : all.length ≤ k * n
  · have e1 : min (k * n) all.length = all.length := by omega
    have d1 : all.drop all.length = [] := by simp
    have d2 : all.drop (k * n) = [] := by simp [hlen]
    simp [e1, d1, d2]
  · have e1 : min (k * n) all.length = k * n := by omega
    have hne : (all.drop (k * n)).isEmpty = false := by
      cases hd : all.drop (k * n) with
      | nil => rw [List.drop_eq_nil_iff] at hd; omega
      | cons a as => rfl
    rw [e1]
    simp only [hne, Bool.false_eq_true, ↓reduceIte, Prod.mk.injEq, true_and]
    cases hd : all.drop (k * n) with
    | nil => simp [hd] at hne
    | cons a as =>
      cases n with
      | zero => omega
      | succ n => simp

/-- `ReadDir(n ≤ 0)`: the first call returns everything, every later call nothing, never an error. -/
theorem readDirStep_all (all : List Info) (n : Int) (hn : n ≤ 0) :
    (readDirStep all 0 n).1 = (all, false) ∧ ∀ k, (readDirStep all (rdOffset all n (k + 1)) n).1 = ([], false) := by
  have off : ∀ k, rdOffset all n (k + 1) = all.length := by
    intro k; simp [rdOffset, readDirStep, hn]
  refine ⟨by simp [readDirStep, hn], fun k => ?_⟩
  rw [off k]
  simp [readDirStep, hn]


/-- The path a view with working directory `wd` looks `name` up at, for plain components: `wd/name`. -/
theorem join_wd_plain (wd name : Str) (hw : ∀ c ∈ splitOnChar '/' wd, plain c) (hn : ∀ c ∈ splitOnChar '/' name, plain c) :
    pathJoin [pathClean wd, name] = wd ++ '/' :: name := by
  have hwne : wd ≠ [] := by
    intro e; subst e; have := hw [] (by simp [splitOnChar]); exact this.1 rfl
  rw [pathClean_plain wd hw]
  have hall : ∀ c ∈ splitOnChar '/' (wd ++ '/' :: name), plain c := by
    rw [splitOnChar_append_sep]
    intro c hc
    rcases List.mem_append.mp hc with h | h
    · exact hw c h
    · exact hn c h
  have e : pathJoin [wd, name] = pathClean (wd ++ '/' :: name) := by
    simp [pathJoin, List.dropWhile, hwne, joinWith]
  rw [e, pathClean_plain _ hall]

theorem join_root_plain (name : Str) (hn : ∀ c ∈ splitOnChar '/' name, plain c) : pathJoin [pathClean [], name] = name := by
  have h1 := congrArg (joinWith ['/']) (comps_join_valid name hn)
  simpa only [comps, joinWith_splitOnChar] using h1

end PlzVerif.CASFS
