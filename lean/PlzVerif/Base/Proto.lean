/-! Line-protocol helpers shared by all drivers (core Lean only). -/
namespace PlzVerif.Proto

/-- Read stdin line by line, apply `step`, print one line per input line. State-threading. -/
partial def loop {σ : Type} (h : IO.FS.Stream) (out : IO.FS.Stream) (s : σ) (step : σ → String → σ × String) : IO Unit := do
  let line ← h.getLine
  if line.isEmpty then
    out.flush
    return ()
  let l := if line.endsWith "\n" then (line.dropEnd 1).toString else line
  let (s', o) := step s l
  out.putStrLn o
  loop h out s' step

def runStateless (f : String → String) : IO Unit := do
  let i ← IO.getStdin
  let o ← IO.getStdout
  loop i o () (fun _ l => ((), f l))

def runStateful {σ : Type} (init : σ) (step : σ → String → σ × String) : IO Unit := do
  let i ← IO.getStdin
  let o ← IO.getStdout
  loop i o init step

/-- "-" is the empty list; otherwise comma-separated naturals. `none` on a malformed token. -/
def parseNats (s : String) : Option (List Nat) :=
  if s = "-" then some [] else (s.splitOn ",").mapM String.toNat?

def showNats (l : List Nat) : String :=
  if l.isEmpty then "-" else ",".intercalate (l.map toString)

def hexDigit (n : Nat) : Char := if n < 10 then Char.ofNat (48 + n) else Char.ofNat (87 + n)

def hexOfBytes (b : List UInt8) : String :=
  String.ofList (b.flatMap fun x => [hexDigit (x.toNat / 16), hexDigit (x.toNat % 16)])

def hexVal (c : Char) : Option Nat :=
  if '0' ≤ c ∧ c ≤ '9' then some (c.toNat - 48)
  else if 'a' ≤ c ∧ c ≤ 'f' then some (c.toNat - 87)
  else none

/-- Hex string → bytes; "-" is empty. -/
def bytesOfHex (s : String) : Option (List UInt8) :=
  if s = "-" then some [] else
  let rec go : List Char → Option (List UInt8)
    | [] => some []
    | [_] => none
    | a :: b :: r => do
      let x ← hexVal a; let y ← hexVal b; let t ← go r
      pure (UInt8.ofNat (x * 16 + y) :: t)
  go s.toList

/-- Hex → String (UTF-8 assumed valid; falls back to Latin-1 style char-per-byte otherwise). -/
def strOfHex (s : String) : Option String := do
  let b ← bytesOfHex s
  let ba := ByteArray.mk b.toArray
  match String.fromUTF8? ba with
  | some str => some str
  | none => some (String.ofList (b.map fun x => Char.ofNat x.toNat))

def hexOfStr (s : String) : String :=
  if s.isEmpty then "-" else hexOfBytes s.toUTF8.toList

end PlzVerif.Proto
