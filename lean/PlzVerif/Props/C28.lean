import PlzVerif.Lemmas.DirBuilderOps
import PlzVerif.Generated.C28
/-!
C28  Remote action digests are canonical.

`Model/DirBuilder.lean` transcribes `dirBuilder.dir` / `walk` (with the one `last` variable shared by the
three de-duplication loops, as written) and `buildEnv`.  The theorems hold for *any* legal result of Go's
unstable `sort.Slice` (`IsSort`), any digest function `H`, any tree depth and any number of entries.
"Consistent duplicates" (`BCons`, `ConsOps`): two entries of one list with the same name are the same entry.
`Lemmas/DirBuilderOps.lean` lifts the result from insertion lists to the operations themselves.
-/
namespace PlzVerif.Props.C28
open PlzVerif.DirBuilder PlzVerif.Generated

/-! ### Facts regenerated from /repo -/

def FactsOK : Bool :=
  -- child digests first, then the three sorts, then the three de-duplication loops, in this order
  C28.walkSteps == ["fill:Directories:Digest == nil", "sort:Files", "sort:Directories", "sort:Symlinks",
                    "dedup:Files", "dedup:Directories", "dedup:Symlinks"] &&
  -- every list is sorted ascending by Name (a stable sort would be fine too) …
  (C28.sorts == ["Files:Name:<", "Directories:Name:<", "Symlinks:Name:<"] ||
   C28.sorts == ["Files:Name:<:stable", "Directories:Name:<:stable", "Symlinks:Name:<:stable"]) &&
  -- … and de-duplicated on the same field
  C28.dedups == ["Files:Name:!=", "Directories:Name:!=", "Symlinks:Name:!="] &&
  C28.lastInit == "\"\"" && (C28.sharedLast || C28.lastDecls == 3) &&
  C28.dirGuard == "Pc != \"\" && !hasChild(d, Pc)" && C28.dirRecursesOnParent && C28.dirRootEarlyReturn &&
  C28.hasChildCmp == "Name==" &&
  C28.envSteps == ["range", "sort:Name,Name:ascending", "return"] &&
  C28.actionFields == ["CommandDigest", "InputRootDigest", "Timeout", "Platform"]

/-- Obligation a code change can break. -/
theorem C28_facts_ok : FactsOK = true := by decide

/-- `walk` with the `last` handling found in the code of this run. -/
abbrev walkAs := walkWith C28.sharedLast

variable {sf sf' : List FileNode → List FileNode} {sd sd' : List DirNode → List DirNode}
  {ss ss' : List SymNode → List SymNode}

/-! ### Canonical form -/

/-- Every directory message `walk` returns or uploads has its files, directories and symlinks strictly
    ascending by name: sorted and without duplicates — for any unstable sort, any digest function, any
    builder contents (consistent or not). -/
theorem C28_sorted_nodup (hf : IsSort (·.name) sf) (hd : IsSort (·.name) sd) (hs : IsSort (·.name) ss)
    (H : Dir → Dg) (b : Builder) (fuel : Nat) (p : Path) (w : Walked)
    (h : walkAs sf sd ss H b fuel p = some w) :
    Canonical w.msg ∧ ∀ m ∈ w.emitted, Canonical m :=
  walkWith_canonical _ hf hd hs H b fuel p w h

/-- Strictly ascending implies no name occurs twice. -/
theorem C28_names_nodup {α : Type} (key : α → Name) (l : List α) (h : Strict key l) : (l.map key).Nodup := by
  unfold Strict at h
  rw [List.nodup_iff_pairwise_ne, List.pairwise_map]
  exact h.imp fun hab he => by rw [he] at hab; exact nlt_irrefl _ hab

-- non-vacuity: the executable model on a small tree
example : ((walk C28.sharedLast ser (applyOps [.file [] ⟨[98], "d1", false⟩, .file [[97]] ⟨[99], "d2", true⟩,
    .file [] ⟨[97, 97], "d3", false⟩, .file [] ⟨[98], "d1", false⟩])).map fun w => ser w.msg)
    = some "(6161:d3:0,62:d1:0;61:(63:d2:1;;);)" := by decide

/-! ### Independence of insertion order -/

/-- Two builders with the same directories whose insertion lists are permutations of each other give
    the same message (hence the same digest) at every directory and the same set of uploaded messages,
    whichever legal sort results Go happens to produce on either side. -/
theorem C28_perm_invariant
    (hf : IsSort (·.name) sf) (hd : IsSort (·.name) sd) (hs : IsSort (·.name) ss)
    (hf' : IsSort (·.name) sf') (hd' : IsSort (·.name) sd') (hs' : IsSort (·.name) ss')
    (H : Dir → Dg) (b₁ b₂ : Builder) (he : BEquiv b₁ b₂) (hc : BCons b₁) (fuel : Nat) (p : Path) :
    match walkAs sf sd ss H b₁ fuel p, walkAs sf' sd' ss' H b₂ fuel p with
    | some w₁, some w₂ => w₁.msg = w₂.msg ∧ H w₁.msg = H w₂.msg ∧ w₁.emitted.Perm w₂.emitted
    | none, none => True
    | _, _ => False := by
  have h := walkWith_perm C28.sharedLast hf hd hs hf' hd' hs' H he hc fuel p
  unfold walkAs
  cases h1 : walkWith C28.sharedLast sf sd ss H b₁ fuel p <;>
    cases h2 : walkWith C28.sharedLast sf' sd' ss' H b₂ fuel p <;> simp_all [WRel]

/-- The same at the level of the operations the callers perform (`b.Dir(p)`, appending a file, a directory
    node with a digest, a symlink to `b.Dir(p)`): inserting a consistent set of inputs in any order gives the
    same root message and digest, the same message at every directory, and uploads the same messages.
    `OpsOK`: directory nodes carry their digest; `NoOverlap`: such a node does not name a directory that is also
    built up from entries; `ConsOps`: in one directory, entries of one kind with the same name are identical. -/
theorem C28_insertion_order_irrelevant
    (hf : IsSort (·.name) sf) (hd : IsSort (·.name) sd) (hs : IsSort (·.name) ss)
    (hf' : IsSort (·.name) sf') (hd' : IsSort (·.name) sd') (hs' : IsSort (·.name) ss')
    (H : Dir → Dg) (ops₁ ops₂ : List Op) (p : ops₁.Perm ops₂)
    (hok : OpsOK ops₁) (hno : NoOverlap ops₁) (hc : ConsOps ops₁) (fuel : Nat) (q : Path) :
    match walkAs sf sd ss H (applyOps ops₁) fuel q, walkAs sf' sd' ss' H (applyOps ops₂) fuel q with
    | some w₁, some w₂ => w₁.msg = w₂.msg ∧ H w₁.msg = H w₂.msg ∧ w₁.emitted.Perm w₂.emitted
    | none, none => True
    | _, _ => False :=
  C28_perm_invariant hf hd hs hf' hd' hs' H _ _ (applyOps_perm p hok hno) (applyOps_cons hok hno hc) fuel q

/-- `walk` from the root with the model's fuel (depth + 2) never fails on a builder produced by well-formed
    operations: neither by running out of fuel nor by a digest-less child without a directory.  So the
    `none, none` case of the order theorems does not occur there. -/
theorem C28_walk_total (H : Dir → Dg) (ops : List Op) (hok : OpsOK ops) (hno : NoOverlap ops) :
    (walkAs sf sd ss H (applyOps ops) ((applyOps ops).depth + 2) []).isSome = true := by
  have r := applyOps_rel hok hno
  exact walkWith_isSome _ sf sd ss H _ ops r _ [] r.inv.root (by simp)

/-- Insertion order is irrelevant, total form: each builder walked with its own fuel succeeds, and the two
    results agree (more fuel does not change a successful walk: `walkWith_mono_le`). -/
theorem C28_insertion_order_irrelevant_total
    (hf : IsSort (·.name) sf) (hd : IsSort (·.name) sd) (hs : IsSort (·.name) ss)
    (hf' : IsSort (·.name) sf') (hd' : IsSort (·.name) sd') (hs' : IsSort (·.name) ss')
    (H : Dir → Dg) (ops₁ ops₂ : List Op) (p : ops₁.Perm ops₂)
    (hok : OpsOK ops₁) (hno : NoOverlap ops₁) (hc : ConsOps ops₁) :
    ∃ w₁ w₂, walkAs sf sd ss H (applyOps ops₁) ((applyOps ops₁).depth + 2) [] = some w₁ ∧
      walkAs sf' sd' ss' H (applyOps ops₂) ((applyOps ops₂).depth + 2) [] = some w₂ ∧
      w₁.msg = w₂.msg ∧ H w₁.msg = H w₂.msg ∧ w₁.emitted.Perm w₂.emitted := by
  obtain ⟨w₁, h₁⟩ := Option.isSome_iff_exists.mp (C28_walk_total (sf := sf) (sd := sd) (ss := ss) H ops₁ hok hno)
  obtain ⟨w₂, h₂⟩ := Option.isSome_iff_exists.mp
    (C28_walk_total (sf := sf') (sd := sd') (ss := ss') H ops₂ (hok.perm p) (hno.perm p))
  refine ⟨w₁, w₂, h₁, h₂, ?_⟩
  have g₁ := walkWith_mono_le _ sf sd ss H _ _ ((applyOps ops₂).depth + 2) [] w₁ h₁
  have g₂ := walkWith_mono_le _ sf' sd' ss' H _ _ ((applyOps ops₁).depth + 2) [] w₂ h₂
  rw [Nat.add_comm ((applyOps ops₂).depth + 2)] at g₂
  have inv := C28_insertion_order_irrelevant hf hd hs hf' hd' hs' H ops₁ ops₂ p hok hno hc
    ((applyOps ops₁).depth + 2 + ((applyOps ops₂).depth + 2)) []
  unfold walkAs at inv h₁ h₂
  rw [g₁, g₂] at inv
  exact inv

/-- What the builder holds after any list of operations: exactly the root and the prefixes of the named
    directories; in each, the files / symlinks / digest nodes inserted there, in insertion order, plus one
    digest-less node per child directory. -/
theorem C28_builder_contents (ops : List Op) (hok : OpsOK ops) (hno : NoOverlap ops) (q : Path) :
    (((applyOps ops).get q).isSome = true ↔ KeyOf ops q) ∧
    ∀ d, (applyOps ops).get q = some d →
      d.files = filesAt ops q ∧ d.syms = symsAt ops q ∧ digs d = digsAt ops q ∧ (nils d).Nodup ∧
      ∀ c, c ∈ nils d ↔ KeyOf ops (q ++ [c]) := by
  have r := applyOps_rel hok hno
  refine ⟨r.keys q, ?_⟩
  intro d hd
  obtain ⟨h1, h2, h3⟩ := r.content q d hd
  refine ⟨h1, h2, h3, r.inv.nil_nodup q d hd, ?_⟩
  intro c; rw [r.inv.nil_iff q d hd c, r.keys]

-- non-vacuity: a consistent set with a duplicate, a nested directory and a digest node satisfies the hypotheses
example : OpsOK [.file [[97]] ⟨[98], "d1", false⟩, .dirNode [] ⟨[120], some "d9"⟩, .file [[97]] ⟨[98], "d1", false⟩] := by
  intro p n h; simp at h; obtain ⟨_, rfl⟩ := h; rfl

/-- One directory: the canonical message is a function of the *set* of consistent entries per kind. -/
theorem C28_dir_perm_invariant
    (hf : IsSort (·.name) sf) (hd : IsSort (·.name) sd) (hs : IsSort (·.name) ss)
    (hf' : IsSort (·.name) sf') (hd' : IsSort (·.name) sd') (hs' : IsSort (·.name) ss')
    (d₁ d₂ : Dir) (hc : ConsDir d₁) (p : DirPerm d₁ d₂) :
    canonWith C28.sharedLast sf sd ss d₁ = canonWith C28.sharedLast sf' sd' ss' d₂ :=
  canonWith_perm _ hf hd hs hf' hd' hs' hc p

/-- The (stable insertion) sort of the executable model is one such sort. -/
theorem C28_model_sort_legal {α : Type} (key : α → Name) : IsSort key (msort key) := msort_isSort key

-- non-vacuity: two insertion orders of a consistent set with a duplicate
example : (walk C28.sharedLast ser (applyOps [.file [] ⟨[98], "d1", false⟩, .sym [[97]] ⟨[120], [46]⟩,
      .file [] ⟨[98], "d1", false⟩, .file [] ⟨[97, 97], "d3", false⟩])).map (fun w => ser w.msg)
    = (walk C28.sharedLast ser (applyOps [.file [] ⟨[97, 97], "d3", false⟩, .file [] ⟨[98], "d1", false⟩,
      .file [] ⟨[98], "d1", false⟩, .sym [[97]] ⟨[120], [46]⟩])).map (fun w => ser w.msg) := by decide

/-! ### The shared `last` variable -/

/-- As written, the three loops share `last`: the name of the greatest file can suppress the first
    directory (and the greatest directory the first symlink).  This shows only on inputs that use one name
    for two kinds of entry, which no consistent input does. -/
example : (canonWith true (msort (·.name)) (msort (·.name)) (msort (·.name))
    { files := [⟨[97], "d1", false⟩], dirs := [⟨[97], some "d2"⟩] }).dirs = [] := by decide

/-- When no directory is named like a file or "", and no symlink like a file, a directory or "", the
    shared variable changes nothing: the result is that of three independent de-duplications. -/
theorem C28_shared_last_harmless_partial
    (d : Dir)
    (h1 : ∀ n ∈ d.dirs, n.name ≠ [] ∧ ∀ f ∈ d.files, n.name ≠ f.name)
    (h2 : ∀ s ∈ d.syms, s.name ≠ [] ∧ (∀ f ∈ d.files, s.name ≠ f.name) ∧ ∀ n ∈ d.dirs, s.name ≠ n.name)
    (hf : IsSort (·.name) sf) (hd : IsSort (·.name) sd) (hs : IsSort (·.name) ss) :
    canonWith true sf sd ss d = canonWith false sf sd ss d := by
  unfold canonWith
  simp only [if_true, Bool.false_eq_true, if_false]
  -- value of `last` after the files loop: "" or a file name
  have hl1 := dedupFrom_last (·.name) [] (sf d.files)
  have hdirs : (dedupFrom (·.name) (dedupFrom (·.name) [] (sf d.files)).2 (sd d.dirs)).1
      = (dedupFrom (·.name) [] (sd d.dirs)).1 := by
    apply dedupFrom_last_irrelevant
    · intro y hy
      have hy' : y ∈ d.dirs := (hd d.dirs).1.mem_iff.mp hy
      rcases hl1 with h | ⟨f, hf', h⟩
      · rw [h]; exact (h1 y hy').1
      · rw [h]; exact (h1 y hy').2 f ((hf d.files).1.mem_iff.mp hf')
    · intro y hy; exact (h1 y ((hd d.dirs).1.mem_iff.mp hy)).1
  have hl2 := dedupFrom_last (·.name) (dedupFrom (·.name) [] (sf d.files)).2 (sd d.dirs)
  have hsyms : (dedupFrom (·.name) (dedupFrom (·.name) (dedupFrom (·.name) [] (sf d.files)).2 (sd d.dirs)).2 (ss d.syms)).1
      = (dedupFrom (·.name) [] (ss d.syms)).1 := by
    apply dedupFrom_last_irrelevant
    · intro y hy
      have hy' : y ∈ d.syms := (hs d.syms).1.mem_iff.mp hy
      rcases hl2 with h | ⟨n, hn, h⟩
      · rw [h]
        rcases hl1 with h' | ⟨f, hf', h'⟩
        · rw [h']; exact (h2 y hy').1
        · rw [h']; exact (h2 y hy').2.1 f ((hf d.files).1.mem_iff.mp hf')
      · rw [h]; exact (h2 y hy').2.2 n ((hd d.dirs).1.mem_iff.mp hn)
    · intro y hy; exact (h2 y ((hs d.syms).1.mem_iff.mp hy)).1
  rw [hdirs, hsyms]

/-! ### Environment variables -/

/-- `buildEnv` returns the variables sorted by name … -/
theorem C28_env_sorted {sort : List (Name × List Nat) → List (Name × List Nat)} (hsort : IsSort (·.1) sort)
    (pathName : Name) (fix : List Nat → List Nat) (sandbox binary : Bool) (env : List (Name × List Nat)) :
    (buildEnvWith sort pathName fix sandbox binary env).Pairwise fun a b => a.1 ≤ b.1 :=
  (hsort _).2

theorem envVars_keys (pathName : Name) (fix : List Nat → List Nat) (env : List (Name × List Nat)) :
    (envVars pathName fix env).map (·.1) = env.map (·.1) := by
  unfold envVars
  rw [List.map_map]
  apply List.map_congr_left
  intro e _
  simp only [Function.comp]
  by_cases h : (e.1 == pathName) = true <;> simp [h]

/-- … and the result does not depend on the order in which Go ranges over the map (the keys of a map are
    distinct), nor on the sort implementation. -/
theorem C28_env_order_irrelevant {sort sort' : List (Name × List Nat) → List (Name × List Nat)}
    (hsort : IsSort (·.1) sort) (hsort' : IsSort (·.1) sort')
    (pathName : Name) (fix : List Nat → List Nat) (sandbox binary : Bool)
    (env₁ env₂ : List (Name × List Nat)) (p : env₁.Perm env₂) (hn : (env₁.map (·.1)).Nodup) :
    buildEnvWith sort pathName fix sandbox binary env₁ = buildEnvWith sort' pathName fix sandbox binary env₂ := by
  unfold buildEnvWith
  simp only
  -- the two optional insertions keep permutations and distinct keys
  have step : ∀ (c : Bool) (k : Name) (v : List Nat) (a b : List (Name × List Nat)), a.Perm b → (a.map (·.1)).Nodup →
      (if c then setVar k v a else a).Perm (if c then setVar k v b else b) ∧
      ((if c then setVar k v a else a).map (·.1)).Nodup := by
    intro c k v a b pab hna
    cases c
    · exact ⟨pab, hna⟩
    · exact ⟨setVar_perm k v pab, setVar_keys_nodup k v a hna⟩
  obtain ⟨p1, n1⟩ := step sandbox (strBytes "SANDBOX") (strBytes "true") env₁ env₂ p hn
  obtain ⟨p2, n2⟩ := step binary (strBytes "_BINARY") (strBytes "true") _ _ p1 n1
  apply sorts_agree (·.1) hsort hsort'
  · apply cons_of_nodup_keys
    rw [envVars_keys]; exact n2
  · unfold envVars; exact p2.map _

/-- Strictly: no variable appears twice. -/
theorem C28_env_strict {sort : List (Name × List Nat) → List (Name × List Nat)} (hsort : IsSort (·.1) sort)
    (pathName : Name) (fix : List Nat → List Nat) (env : List (Name × List Nat)) (hn : (env.map (·.1)).Nodup) :
    Strict (·.1) (buildEnvWith sort pathName fix false false env) := by
  unfold buildEnvWith Strict
  simp only [Bool.false_eq_true, if_false]
  have hp := (hsort (envVars pathName fix env)).1
  have hnod : ((sort (envVars pathName fix env)).map (·.1)).Nodup := by
    have : ((envVars pathName fix env).map (·.1)).Nodup := by rw [envVars_keys]; exact hn
    exact (hp.map (·.1)).nodup_iff.mpr this
  have hs := (hsort (envVars pathName fix env)).2
  rw [List.nodup_iff_pairwise_ne, List.pairwise_map] at hnod
  exact List.Pairwise.and hs hnod |>.imp fun ⟨h1, h2⟩ => nlt_of_le_of_ne h1 h2

/-! ### Action digest -/

/-- `buildAction`: the action digest is a function of the command digest, the input root digest, the
    timeout and the platform; the input root enters only through its digest, so two insertion orders of
    the same consistent inputs give the same action digest. -/
theorem C28_action_digest {A : Type} (HA : Dg × Dg × Nat × List String → A) (H : Dir → Dg)
    (cmd : Dg) (timeout : Nat) (platform : List String) (w₁ w₂ : Walked) (h : w₁.msg = w₂.msg) :
    HA (cmd, H w₁.msg, timeout, platform) = HA (cmd, H w₂.msg, timeout, platform) := by rw [h]

/-! ### the side conditions of the order-independence theorems are needed (audit additions) -/

/-- `NoOverlap` is necessary, and the excluded shape is one the code produces: for a filegroup with a directory
    output, action.go appends a `DirectoryNode{Name, Digest}` for the directory AND descends into it
    (`addChildDirs` → `b.Dir(...)`).  With such an overlap the digest of the root depends on the insertion order
    (the given digest `X` wins in one order, the computed one in the other). -/
theorem C28_witness_overlap_order_dependent :
    (walk C28.sharedLast ser (applyOps [.dirNode [] ⟨[100], some "X"⟩, .file [[100]] ⟨[102], "d1", false⟩])).map
        (fun w => ser w.msg) ≠
    (walk C28.sharedLast ser (applyOps [.file [[100]] ⟨[102], "d1", false⟩, .dirNode [] ⟨[100], some "X"⟩])).map
        (fun w => ser w.msg) := by decide

/-- `ConsOps` (entries with one name agree) is necessary: two files of the same name with different digests are
    de-duplicated to whichever came first. -/
theorem C28_witness_inconsistent_duplicates :
    canon C28.sharedLast {files := [⟨[97], "d1", false⟩, ⟨[97], "d2", false⟩]} ≠
    canon C28.sharedLast {files := [⟨[97], "d2", false⟩, ⟨[97], "d1", false⟩]} := by decide

end PlzVerif.Props.C28
