import PlzVerif.Lemmas.Env
import PlzVerif.Generated.C08
import PlzVerif.Generated.C10
/-!
C10  Build actions see a hermetic, fully hashed environment.

Model: `buildEnvironment cfg t d caller` (src/core/build_env.go through `withUserProvidedEnv`), `configSer`
(`Configuration.Hash`) and `ruleSer Generated.C08.facts` (the rule hash with its `pass_env` item); `caller` is the
environment of the invoking shell.  Regenerated facts (`Generated.C10`): every read of the process environment on
the build path, every key the three environment functions write, every assignment to a child's `Env`.

Full-strength statements and what the pinned code does:
* `Hermetic` — callers agreeing on the pass_env / pass_unsafe_env names give the same action environment:
  DISPROVED (`C10_witness_home_leak`: `~` in secrets / system tools is expanded with the caller's `$HOME`);
  proved with `HOME` added to the visible names or without secrets/tools (`C10_partial_hermetic`).
* `Deterministic` — the environment is a function of (config, target, caller): PROVED for today's source
  (`C10_deterministic`: `withUserProvidedEnv` sorts the keys of `target.Env`, regenerated fact `userEnvSorted`); the
  repaired defect is kept as `C10_witness_userenv_order_unsorted` / `C10_partial_userenv_unsorted`.
* a changed `pass_env` value changes the rule hash: proved for one variable (`C10_passenv_rehash_single`), in
  general only up to the unframed `name=value` run (`C10_passenv_rehash`, witness `C10_witness_passenv_unframed`);
  likewise for `[build] passenv` and the config hash (`C10_config_rehash_single`, `C10_witness_config_unframed`).
* any other caller variable changes neither hash: proved (`C10_other_no_rehash`).
-/
namespace PlzVerif.Props.C10
open PlzVerif.RuleHash PlzVerif.Env PlzVerif.Generated

abbrev F : Facts := C08.facts

/-- How `withUserProvidedEnv` iterates `target.Env` in today's source. -/
abbrev US : Bool := C10.userEnvSorted

def HOME : Bytes := [72, 79, 77, 69]

/-- Side condition on the regenerated facts (decidable). -/
def FactsOK : Bool :=
  -- EVERY read of the process environment in src/core, src/build, src/fs, src/process (non-test, non-hook files),
  -- compared with this allowlist.  On the way to an action (modelled): the two pass loops of TargetEnvironment,
  -- getBuildEnv's LookupEnv, ruleHash's pass_env values, ExpandHomePath's HOME (the known leak).  Reaching an action only
  -- through configuration *inputs* of the model (`Cfg.path`, `Cfg.location`, which config files are read): setBuildPath
  -- (PATH, only when PATH is listed in passenv), fs.executable (PATH, to find plz itself -> Please.Location),
  -- defaultGlobalConfigFiles (XDG_*).  Not on the build path: ExecEnvironment (plz exec), flag completion (PLZ_COMPLETE,
  -- os.Environ for re-exec).
  C10.envReads == [
    ("src/core/build_env.go", "TargetEnvironment", "os.Getenv", "<var>"),
    ("src/core/build_env.go", "TargetEnvironment", "os.Getenv", "<var>"),
    ("src/core/build_env.go", "ExecEnvironment", "os.Getenv", "\"TERM\""),
    ("src/core/build_label.go", "BuildLabel.UnmarshalFlag", "os.Getenv", "\"PLZ_COMPLETE\""),
    ("src/core/build_label.go", "BuildLabel.Complete", "os.Environ", ""),
    ("src/core/config.go", "defaultGlobalConfigFiles", "os.Getenv", "\"XDG_CONFIG_DIRS\""),
    ("src/core/config.go", "defaultGlobalConfigFiles", "os.Getenv", "\"XDG_CONFIG_HOME\""),
    ("src/core/config.go", "setBuildPath", "os.Getenv", "\"PATH\""),
    ("src/core/config.go", "setBuildPath", "os.Getenv", "\"PATH\""),
    ("src/core/config.go", "Configuration.getBuildEnv", "os.LookupEnv", "<var>"),
    ("src/build/incrementality.go", "ruleHash", "os.Getenv", "<var>"),
    ("src/fs/executable.go", "executable", "os.Getenv", "\"PATH\""),
    ("src/fs/home.go", "ExpandHomePath", "os.Getenv", "\"HOME\"")] &&
  -- (syntactic pins: a *wrong value* written under an existing key, or passed to cmd.Env, flips nothing here and is
  -- left to the correspondence)  a child's environment is only ever extended from the explicitly built list
  C10.cmdEnvAssignments == [
    "exec_linux.go: cmd.Env = append(cmd.Env, \"SANDBOX_UID=\"+strconv.Itoa(os.Getuid()))",
    "exec_linux.go: cmd.Env = append(cmd.Env, \"SHARE_NETWORK=\"+boolToString(!sandbox.Network), \"SHARE_MOUNT=\"+boolToString(!sandbox.Mount))",
    "process.go: cmd.Env = append(cmd.Env, env...)"] &&
  C10.actionEnv == "StampedBuildEnvironment.ToSlice" &&
  -- the keys the model writes are the keys the code writes
  C10.envKeys.map (·.2) == ["\"PLZ_ENV\"", "\"LANG\"", "\"ARCH\"", "\"OS\"", "\"XARCH\"", "\"XOS\"", "\"PKG_CONFIG_PATH\"",
    "\"PKG\"", "\"PKG_DIR\"", "\"NAME\"", "\"BUILD_CONFIG\"", "\"CONFIG\"", "e", "e",
    "\"TMP_DIR\"", "\"TMPDIR\"", "\"OUTS\"", "\"HOME\"", "\"PYTHONHASHSEED\"", "\"OUT\"", "\"SRCS\"", "\"SRC\"",
    "\"SRCS_\" + strings.ToUpper(name)", "\"OUTS_\" + strings.ToUpper(name)", "\"SECRETS\"",
    "\"SECRETS_\" + strings.ToUpper(name)", "\"SANDBOX_DIRS\"", "\"GENDIR\"", "\"BINDIR\"",
    "prefix + \"TOOLS\"", "prefix + \"TOOL\"", "prefix + \"TOOLS_\" + strings.ToUpper(name)", "k"] &&
  -- target.Env is applied in sorted key order
  C10.userEnvSorted &&
  -- pass_env is written exactly once by ruleHash, as name "=" value
  F.passEnvSep == [61] && (match splitAt .passEnv F.items with | some (_, gi, _) => gi.1 == .always | none => false)

/-- Obligation a code change can break (a new `os.Getenv`, a dropped `cmd.Env` assignment, a new key, …). -/
theorem C10_facts_ok : FactsOK = true := by decide

/-! ### hermeticity -/

/-- Full strength: the caller can influence the action environment only through the listed names. -/
def Hermetic : Prop :=
  ∀ (cfg : Cfg) (t : Target) (d : Derived) (c c' : Caller), Agree (visible cfg t) c c' →
    toSlice (buildEnvironment US cfg t d c) = toSlice (buildEnvironment US cfg t d c')

def tSecret : Target := { label := ⟨[], [112], [116]⟩, secrets := [[126, 47, 115]] }     -- secrets = ["~/s"]
def tTool : Target := { label := ⟨[], [112], [116]⟩, tools := [[126, 47, 116]] }         -- tools = ["~/t"]

/-- `$HOME` of the invoking shell reaches `$SECRETS` (and `$TOOLS`) although it is not passed through:
    `fs.ExpandHomePath` reads it (src/fs/home.go:14 via build_env.go:114,120 and build_input.go:152). -/
theorem C10_witness_home_leak : ¬ Hermetic := by
  intro h
  have := h {} tSecret {} [(HOME, [47, 97])] [(HOME, [47, 98])] (by intro k hk; simp [visible, tSecret] at hk)
  revert this
  decide

example : toSlice (buildEnvironment US {} tTool {} [(HOME, [47, 97])]) ≠ toSlice (buildEnvironment US {} tTool {} [(HOME, [47, 98])]) := by
  decide

/-- Hermetic once `HOME` is counted among the visible names, or for targets without secrets and tools.
    Caveat: `cfg` is an input of the model.  Two of its fields are themselves computed from the caller's environment
    when the configuration is read — `cfg.location` (`EnsurePleaseLocation`: `~/.please` when plz runs from there,
    config.go:781-806, hence `$HOME` in every action's `PATH`) and `cfg.path` (from `$PATH` when `PATH` is in passenv) —
    so "same `cfg`" in this theorem already includes "same Please location". -/
theorem C10_partial_hermetic (cfg : Cfg) (t : Target) (d : Derived) (c c' : Caller) (h : Agree (visible cfg t) c c')
    (hh : (t.secrets = [] ∧ t.namedSecrets = [] ∧ t.tools = [] ∧ t.namedTools = []) ∨ getenv c HOME = getenv c' HOME) :
    buildEnvironment US cfg t d c = buildEnvironment US cfg t d c' :=
  buildEnvironment_agree US cfg t d h hh

example : Agree (visible {} ({ passEnv := some [[65]] } : Target)) [([65], [120]), ([66], [49])] [([65], [120]), ([66], [50])] := by
  intro k hk
  simp [visible] at hk
  subst hk
  decide

/-! ### determinism -/

/-- Full strength: the environment does not depend on the iteration order of the Go map `target.Env`
    (`sorted`: how `withUserProvidedEnv` iterates it). -/
def Deterministic (sorted : Bool) : Prop :=
  ∀ (cfg : Cfg) (t : Target) (d : Derived) (c : Caller) (e' : List (Bytes × Bytes)), KeysNodup t.env → e'.Perm t.env →
    buildEnvironment sorted cfg t d c = buildEnvironment sorted cfg { t with env := e' } d c

theorem userEnvSorted : C10.userEnvSorted = true := by
  have := C10_facts_ok
  simp only [FactsOK, Bool.and_eq_true] at this
  exact this.1.1.2

/-- For the code as it is now (keys of `target.Env` sorted before use, fix 13a77d9): the action environment is a
    function of configuration, target and caller. -/
theorem C10_deterministic : Deterministic US := by
  intro cfg t d c e' hn p
  have hs : US = true := userEnvSorted
  simp only [buildEnvironment, hs, preUserEnv_env]
  exact (withUserEnv_sorted_perm p hn _).symm

def tEnv : Target := { label := ⟨[], [112], [116]⟩, env := [([65], [120]), ([66], [36, 65])] }   -- env = {"A": "x", "B": "$A"}

example : KeysNodup tEnv.env := by decide

/-- The repaired defect, as a theorem about the old fact value: ranging over the Go map directly,
    `env = {"A": "x", "B": "$A"}` gave `B=x` or `B=$A` depending on the iteration order. -/
theorem C10_witness_userenv_order_unsorted : ¬ Deterministic false := by
  intro h
  have := h {} tEnv {} [] [([66], [36, 65]), ([65], [120])] (by decide) (List.Perm.swap _ _ _)
  revert this
  decide

/-- Even unsorted it was deterministic, read as a map, for entries without `$`. -/
theorem C10_partial_userenv_unsorted (l l' : List (Bytes × Bytes)) (p : l'.Perm l) (hn : KeysNodup l)
    (hd : ∀ kv ∈ l, kv.2.contains 36 = false) (env : Env) (k : Bytes) :
    (withUserEnv false l' env).get? k = (withUserEnv false l env).get? k :=
  withUserEnv_perm_lookup p hn hd env k

example : KeysNodup [(([65] : Bytes), ([120] : Bytes)), ([66], [121])] ∧
    (∀ kv ∈ [(([65] : Bytes), ([120] : Bytes)), ([66], [121])], kv.2.contains 36 = false) := by decide

/-! ### what the hashes see of the caller -/

/-- Any variable outside the target's `pass_env` leaves the rule hash alone; any variable outside
    `[build] passenv` leaves the config hash alone. -/
theorem C10_other_no_rehash (cfg : Cfg) (ctx : Ctx) (t : Target) (c c' : Caller) :
    (Agree (t.passEnv.getD []) c c' → ruleSer F { ctx with environ := c } t = ruleSer F { ctx with environ := c' } t) ∧
    (Agree cfg.passEnv c c' → configSer cfg c = configSer cfg c') :=
  ⟨ruleSer_agree F ctx c c' t, configSer_agree cfg⟩

theorem passEnvSep : F.passEnvSep = [61] := by decide

/-- Items other than `pass_env` do not read the caller's environment. -/
theorem serGuarded_ctx (ctx : Ctx) (c c' : Caller) (v : View) (gi : Guard × Item) (h : gi.2.ref ≠ .passEnv) :
    serGuarded F { ctx with environ := c } v gi = serGuarded F { ctx with environ := c' } v gi := by
  obtain ⟨g, i⟩ := gi
  have hg : guardOn { ctx with environ := c } v g = guardOn { ctx with environ := c' } v g := by cases g <;> rfl
  simp only [serGuarded, hg]
  split
  · cases i <;> simp only [Item.ref, ne_eq, not_true_eq_false, reduceCtorEq, not_false_eq_true] at h <;> rfl
  · rfl

theorem ref_ne_of_mentions {r : AttrRef} {j : Guard × Item} (h : mentions r j = false) : j.2.ref ≠ r := by
  simp only [mentions, Bool.or_eq_false_iff, beq_eq_false_iff_ne, ne_eq] at h
  exact h.1

/-- Equal rule hashes under two callers: the `name=value` run of the target's `pass_env` is the same. -/
theorem C10_passenv_rehash (ctx : Ctx) (t : Target) (c c' : Caller) (l : List Bytes) (hl : t.passEnv = some l)
    (e : ruleSer F { ctx with environ := c } t = ruleSer F { ctx with environ := c' } t) :
    (l.flatMap fun x => x ++ [61] ++ getenv c x) = (l.flatMap fun x => x ++ [61] ++ getenv c' x) := by
  have hs : ∃ pre gi post, splitAt .passEnv F.items = some (pre, gi, post) ∧ gi.1 = .always := by
    have := C10_facts_ok
    simp only [FactsOK, Bool.and_eq_true] at this
    have h2 := this.2
    cases hsp : splitAt .passEnv F.items with
    | none => simp [hsp] at h2
    | some x => obtain ⟨p, gi, q⟩ := x; exact ⟨p, gi, q, rfl, by simpa [hsp] using h2⟩
  obtain ⟨pre, gi, post, hsp, hg⟩ := hs
  obtain ⟨e0, href, hp, hq⟩ := splitAt_spec .passEnv F.items hsp
  unfold ruleSer at e
  have hv : view F { ctx with environ := c } t = view F { ctx with environ := c' } t := rfl
  rw [hv, e0] at e
  simp only [serView, List.flatMap_append, List.flatMap_cons] at e
  have e1 : pre.flatMap (serGuarded F { ctx with environ := c } (view F { ctx with environ := c' } t)) =
      pre.flatMap (serGuarded F { ctx with environ := c' } (view F { ctx with environ := c' } t)) :=
    flatMap_congr_mem pre (fun j hj => serGuarded_ctx ctx c c' _ j (ref_ne_of_mentions (hp j hj)))
  have e2 : post.flatMap (serGuarded F { ctx with environ := c } (view F { ctx with environ := c' } t)) =
      post.flatMap (serGuarded F { ctx with environ := c' } (view F { ctx with environ := c' } t)) :=
    flatMap_congr_mem post (fun j hj => serGuarded_ctx ctx c c' _ j (ref_ne_of_mentions (hq j hj)))
  rw [e1, e2] at e
  have e3 := List.append_cancel_right (List.append_cancel_left e)
  obtain ⟨g, i⟩ := gi
  simp only at hg href
  subst hg
  cases i <;> simp only [Item.ref, reduceCtorEq] at href
  simp only [serGuarded, guardOn, if_true, serItem, view, hl, passEnvSep] at e3
  exact e3

/-- One passed-through variable: a changed value always changes the rule hash (the rebuild the property asks for). -/
theorem C10_passenv_rehash_single (ctx : Ctx) (t : Target) (c c' : Caller) (x : Bytes) (hl : t.passEnv = some [x])
    (e : ruleSer F { ctx with environ := c } t = ruleSer F { ctx with environ := c' } t) : getenv c x = getenv c' x := by
  have := C10_passenv_rehash ctx t c c' [x] hl e
  simp only [List.flatMap_cons, List.flatMap_nil, List.append_nil, List.append_assoc] at this
  exact List.append_cancel_left (List.append_cancel_left this)

def A : Bytes := [65]
def B : Bytes := [66]
def tAB : Target := { label := ⟨[], [112], [116]⟩, passEnv := some [A, B] }

/-- `pass_env = [A, B]`: `A="xB=y", B=""` and `A="x", B="yB="` — the action sees different values, the rule hash is
    the same (no rebuild). Same root cause as C08's unframed writes. -/
theorem C10_witness_passenv_unframed :
    ruleSer F { environ := [(A, [120, 66, 61, 121]), (B, [])] } tAB = ruleSer F { environ := [(A, [120]), (B, [121, 66, 61])] } tAB ∧
    toSlice (buildEnvironment US {} tAB {} [(A, [120, 66, 61, 121]), (B, [])]) ≠
      toSlice (buildEnvironment US {} tAB {} [(A, [120]), (B, [121, 66, 61])]) := by decide

/-- The same ambiguity in `Configuration.Hash` for `[build] passenv = A B`. -/
theorem C10_witness_config_unframed :
    configSer { passEnv := [A, B] } [(A, [120, 66, 61, 121]), (B, [])] = configSer { passEnv := [A, B] } [(A, [120]), (B, [121, 66, 61])] ∧
    getBuildEnv { passEnv := [A, B] } [(A, [120, 66, 61, 121]), (B, [])] true true ≠
      getBuildEnv { passEnv := [A, B] } [(A, [120]), (B, [121, 66, 61])] true true := by decide

/-- One `[build] passenv` variable (not `PATH`, not `SECRET…`), nothing in `[buildenv]`: a changed value changes the
    config hash. -/
theorem C10_config_rehash_single (cfg : Cfg) (c c' : Caller) (x v v' : Bytes) (hp : cfg.passEnv = [x]) (hb : cfg.buildEnv = [])
    (hx : x ≠ pathKey) (hs : Env.hasPrefix x [83, 69, 67, 82, 69, 84] = false)
    (hv : lookup x c = some v) (hv' : lookup x c' = some v') (e : configSer cfg c = configSer cfg c') : v = v' := by
  simp only [configSer, getBuildEnv, addEnv, hp, hb, List.foldl_cons, List.foldl_nil, hv, hv', hx, if_false,
    Bool.false_eq_true, Env.set, isort, List.foldr_cons, List.foldr_nil, insertBy, List.filter_cons, hs, Bool.not_false,
    if_true, List.filter_nil, List.flatMap_cons, List.flatMap_nil, List.append_nil] at e
  exact List.append_cancel_left (List.append_cancel_left e)

example : Env.hasPrefix A [83, 69, 67, 82, 69, 84] = false ∧ A ≠ pathKey := by decide

/-- … and setting a variable that was unset (whatever its value, even empty) changes the config hash too. -/
theorem C10_config_rehash_set_unset (cfg : Cfg) (c c' : Caller) (x v : Bytes) (hp : cfg.passEnv = [x]) (hb : cfg.buildEnv = [])
    (hx : x ≠ pathKey) (hs : Env.hasPrefix x [83, 69, 67, 82, 69, 84] = false)
    (hv : lookup x c = some v) (hv' : lookup x c' = none) : configSer cfg c ≠ configSer cfg c' := by
  intro e
  simp only [configSer, getBuildEnv, addEnv, hp, hb, List.foldl_cons, List.foldl_nil, hv, hv', hx, if_false,
    Bool.false_eq_true, Env.set, isort, List.foldr_cons, List.foldr_nil, insertBy, List.filter_cons, hs, Bool.not_false,
    if_true, List.filter_nil, List.flatMap_cons, List.flatMap_nil, List.append_nil] at e
  have := congrArg List.length e
  simp at this

end PlzVerif.Props.C10
