import PlzVerif.Lemmas.Copy
import PlzVerif.Generated.C34
/-!
C34  Output trees are copied and linked faithfully.

"Copying or hard-linking an output tree, as done when collecting outputs, building filegroups and using the cache,
reproduces every file's contents, every directory, and every relative symlink target, and never modifies the source
tree."

* code : `copyTop facts p siblings src cur inos` -- `fs.RecursiveCopyOrLinkFile(from, to, mode, link, fallback)` on an
         abstract file system with an inode table (hard links = shared inode numbers), structure read from
         src/fs/copy.go and src/fs/fs.go on this run;
* spec : `faithful link perm old new src dst` -- directories (also empty ones) entry for entry, symlink targets
         verbatim, files with equal bytes (the *same* inode when linking, a *new* inode with the requested permission
         bits when copying), and `old <+: new`: no inode that existed before is written.

Holds in full for directories and regular files in both modes and for everything when hard-linking (`RecursiveLink`);
fails for exactly one shape, witnessed below: a *top-level* symlink copied with `link = false` is dereferenced.
-/
namespace PlzVerif.Props.C34
open PlzVerif.Copy PlzVerif.Generated
open PlzVerif.Walk (Name)

/-- The facts read from /repo on this run. -/
def facts : Facts :=
  { defaultMode := C34.defaultMode
    tempThenRename := C34.tempThenRename
    topLevelSymlinkAware := C34.topLevelSymlinkAware
    linkRecreatesSymlink := C34.linkRecreatesSymlink
    fallbackUsesSourceMode := C34.fallbackUsesSourceMode }

/-- Side condition on the regenerated facts.  `defaultMode` and `topLevelSymlinkAware` are free: the theorems hold for
    either value (the second one switches the known finding off once the top-level case is repaired). -/
def FactsOK : Bool :=
  C34.usesLstat && C34.callbackOrder == ["dir:MkdirAll", "symlink:copySymlink", "else:CopyOrLinkFile"] &&
  C34.destExpr == "filepath.Join($to, $name[len($from):])" && C34.linkRecreatesSymlink && C34.symlinkVerbatim &&
  C34.fallbackUsesSourceMode && C34.recursiveCopyArgs == "mode,false,false" && C34.recursiveLinkArgs == "0,true,true" &&
  C34.tempThenRename

/-- Obligation a code change can break. -/
theorem C34_facts_ok : FactsOK = true := by decide

theorem facts_link : facts.linkRecreatesSymlink = true := by
  have h := C34_facts_ok
  simp only [FactsOK, Bool.and_eq_true] at h
  exact h.1.1.1.1.1.2

theorem facts_temp : facts.tempThenRename = true := by
  have h := C34_facts_ok
  simp only [FactsOK, Bool.and_eq_true] at h
  exact h.2

theorem facts_fallback : facts.fallbackUsesSourceMode = true := by
  have h := C34_facts_ok
  simp only [FactsOK, Bool.and_eq_true] at h
  exact h.1.1.1.2

/-! ### the source is never modified -/

/-- **Source unchanged.**  Whatever the source is, whatever the destination already holds (also a destination that is
    a hard link of a source file), in either mode, with or without fallback: a *successful* call leaves every inode
    that existed before -- in particular every file of the source tree, contents and permission bits -- exactly as it
    was (`inos'` only appends).  This rests on the fact read from `WriteFile` on this run (`tempThenRename`: the bytes
    go to a temporary file that is renamed over the destination); `C34_witness_in_place_write_destroys_source` shows
    what the same call does without it.  (Failed calls: the model returns no state for them; the harness compares the
    source snapshot before and after every call, failed or not.) -/
theorem C34_source_unchanged (p : Params) (sib : Ents) (src : Node) (cur : Option Node) (inos inos' : List Inode)
    (d : Node) (h : copyTop facts p sib src cur inos = .ok (d, inos')) :
    inos <+: inos' ∧ ∀ i, i < inos.length → inos'[i]? = inos[i]? := by
  have hp : inos <+: inos' := by
    unfold copyTop at h
    cases src with
    | dir es => exact copyNode_prefix facts facts_temp p _ cur inos inos' d h
    | file i => exact copyOrLinkRegular_prefix facts_temp h
    | link t =>
      simp only at h
      split at h
      · simp only [symlinkAt] at h
        cases cur <;> simp [Except.map] at h
        rw [h.2]; exact List.prefix_refl _
      · split at h
        · cases h
        · exact copyFile_prefix facts_temp h
        · cases h
  exact ⟨hp, fun i hi => prefix_getElem? hp hi⟩

/-- Without temp-and-rename the same call is *not* safe: `dst` is a hard link of the source file `src` (inode 0);
    `RecursiveCopy(src, dst)` writing in place truncates the shared inode before reading it -- the source's bytes are
    gone.  (A model-level counterfactual: it shows `C34_source_unchanged` depends on the extracted fact.) -/
theorem C34_witness_in_place_write_destroys_source :
    sameOutcome (copyTop { Facts.canon with tempThenRename := false } ⟨0o644, false, false⟩ .nil (.file 0) (some (.file 0))
      [⟨[7, 8], 0o600⟩]) (.ok (.file 0, [⟨[], 0o644⟩])) = true := by decide

/-! ### faithfulness -/

/-- **Directories (the output-tree case), both modes, full strength.**  Copying or hard-linking a directory tree to a
    path that holds nothing succeeds and reproduces it: every directory including empty ones, every symlink with its
    target verbatim (nested symlinks are never followed), every file with the same bytes -- the same inode when
    linking, a fresh inode with permission `mode` (0664 for `mode = 0`) when copying. -/
theorem C34_faithful_dir (p : Params) (sib : Ents) (es : Ents) (inos : List Inode)
    (hw : (Node.dir es).wf inos.length = true) (hn : (Node.dir es).nodup = true) :
    ∃ d inos', copyTop facts p sib (.dir es) none inos = .ok (d, inos') ∧ inos <+: inos' ∧
      faithful p.link (copyPerm facts p) inos inos' (Node.dir es).sort d = true := by
  have hs := Node.sort_props inos.length (.dir es)
  exact copyNode_fresh facts p inos (Node.dir es).sort inos (List.prefix_refl _) (by rw [hs.1]; exact hw) (by rw [hs.2]; exact hn)

-- non-vacuity: a tree with an empty directory, a nested relative symlink and two hard-linked files
example : ∃ d inos', copyTop facts ⟨0o444, false, false⟩ .nil
    (.dir (.cons ['e'] (.dir .nil) (.cons ['l'] (.link ['.', '.', '/', 'x']) (.cons ['a'] (.file 0) (.cons ['b'] (.file 0) .nil)))))
    none [⟨[1, 2], 0o755⟩] = .ok (d, inos') ∧ inos'.length = 3 :=
  ⟨_, _, rfl, rfl⟩

/-- **A single regular file, both modes.** -/
theorem C34_faithful_file (p : Params) (sib : Ents) (i : Nat) (inos : List Inode) (hi : i < inos.length) :
    ∃ d inos', copyTop facts p sib (.file i) none inos = .ok (d, inos') ∧ inos <+: inos' ∧
      faithful p.link (copyPerm facts p) inos inos' (.file i) d = true := by
  have := copyNode_fresh facts p inos (.file i) inos (List.prefix_refl _) (by simp [Node.wf, hi]) (by simp [Node.nodup])
  simpa [copyNode, copyTop] using this

/-- **A top-level symlink when hard-linking** (`RecursiveLink`, cache store / retrieve): recreated with the same target. -/
theorem C34_faithful_symlink_link (p : Params) (hl : p.link = true) (sib : Ents) (t : Name) (inos : List Inode) :
    copyTop facts p sib (.link t) none inos = .ok (.link t, inos) := by
  simp [copyTop, hl, facts_link, symlinkAt, Except.map]

/-- **The property, everywhere except the one defective shape (partial).**  For every well-formed source and a fresh
    destination the call succeeds and is faithful, provided the source is not a *top-level symlink copied with
    `link = false`* (or the top-level case has been repaired: `topLevelSymlinkAware`).
    Full statement: the same without that proviso; refuted by `C34_witness_toplevel_symlink_dereferenced`. -/
theorem C34_faithful_partial (p : Params) (sib : Ents) (src : Node) (inos : List Inode)
    (hw : src.wf inos.length = true) (hn : src.nodup = true)
    (hok : (∀ t, src ≠ .link t) ∨ p.link = true ∨ facts.topLevelSymlinkAware = true) :
    ∃ d inos', copyTop facts p sib src none inos = .ok (d, inos') ∧ inos <+: inos' ∧
      faithful p.link (copyPerm facts p) inos inos' src.sort d = true := by
  cases src with
  | dir es => exact C34_faithful_dir p sib es inos hw hn
  | file i => simpa [Node.sort] using C34_faithful_file p sib i inos (by simpa [Node.wf] using hw)
  | link t =>
    have hc : (facts.topLevelSymlinkAware || (p.link && facts.linkRecreatesSymlink)) = true := by
      rcases hok with h | h | h
      · exact absurd rfl (h t)
      · simp [h, facts_link]
      · simp [h]
    exact ⟨.link t, inos, by simp [copyTop, hc, symlinkAt, Except.map], List.prefix_refl _, by simp [Node.sort, faithful]⟩

/-- **Hard-linking onto an existing file with `fallback`** (`os.Link` fails with EEXIST): the destination is replaced
    by a copy with the source's bytes *and the source's permission bits* (not `mode`) in a fresh inode; what was there
    before is not written to. -/
theorem C34_fallback_replaces (p : Params) (hl : p.link = true) (hf : p.fallback = true) (sib : Ents) (i j : Nat)
    (inos : List Inode) (src : Inode) (hi : inos[i]? = some src) :
    copyTop facts p sib (.file i) (some (.file j)) inos
      = .ok (.file inos.length, inos ++ [{ content := src.content, perm := if src.perm = 0 then facts.defaultMode else src.perm }]) := by
  simp [copyTop, copyOrLinkRegular, hl, hf, facts_fallback, copyFile, hi, facts_temp]

/-- `RecursiveLink(from, to)` = `RecursiveCopyOrLinkFile(from, to, 0, true, true)`: faithful for *every* source. -/
theorem C34_recursive_link_faithful (sib : Ents) (src : Node) (inos : List Inode)
    (hw : src.wf inos.length = true) (hn : src.nodup = true) :
    ∃ d inos', copyTop facts ⟨0, true, true⟩ sib src none inos = .ok (d, inos') ∧ inos <+: inos' ∧
      faithful true (copyPerm facts ⟨0, true, true⟩) inos inos' src.sort d = true :=
  C34_faithful_partial ⟨0, true, true⟩ sib src inos hw hn (Or.inr (Or.inl rfl))

/-- What "faithful" says about permission bits: hard-linking keeps them (same inode), copying gives every file of the
    tree the one `mode` the caller passed (`target.OutMode()`), whatever the source file had. -/
theorem C34_modes (link : Bool) (perm : Nat) (old new : List Inode) (i j : Nat)
    (h : faithful link perm old new (.file i) (.file j) = true) :
    (link = true → j = i) ∧ (link = false → ∃ b, new[j]? = some b ∧ b.perm = perm) := by
  cases link with
  | true => simp only [faithful, if_true, Bool.and_eq_true, beq_iff_eq] at h; exact ⟨fun _ => h.1.symm, fun e => Bool.noConfusion e⟩
  | false =>
    refine ⟨fun e => Bool.noConfusion e, fun _ => ?_⟩
    simp only [faithful, Bool.false_eq_true, if_false, Bool.and_eq_true] at h
    cases ho : old[i]? with
    | none => simp [ho] at h
    | some a =>
      cases hn : new[j]? with
      | none => simp [ho, hn] at h
      | some b => exact ⟨b, rfl, by have := h.2; simp [ho, hn] at this; exact this.2⟩

/-! ### the one shape that fails -/

/-- Directory holding the regular file `t` (inode 0) and the symlink `l -> t`. -/
def sibW : Ents := .cons ['t'] (.file 0) (.cons ['l'] (.link ['t']) .nil)

/-- **Witness (src/fs/copy.go:72 → CopyOrLinkFile → CopyFile: `os.Open` follows the link).**
    `RecursiveCopy("l", dest, 0644)` where `l` is a symlink to the file `t`: the destination is a *regular file* with
    `t`'s bytes, not a symlink to `t` -- with the structure the source has today (`Facts.canon`). -/
theorem C34_witness_toplevel_symlink_dereferenced :
    sameOutcome (copyTop Facts.canon ⟨0o644, false, false⟩ sibW (.link ['t']) none [⟨[7], 0o600⟩])
      (.ok (.file 1, [⟨[7], 0o600⟩, ⟨[7], 0o644⟩])) = true ∧
    faithful false 0o644 [⟨[7], 0o600⟩] [⟨[7], 0o600⟩, ⟨[7], 0o644⟩] (.link ['t']) (.file 1) = false := by
  decide

/-- **The full-strength statement is refuted** for that structure. -/
theorem C34_faithful_refuted :
    ¬ ∀ (p : Params) (sib : Ents) (src : Node) (inos : List Inode), src.wf inos.length = true → src.nodup = true →
        ∃ d inos', copyTop Facts.canon p sib src none inos = .ok (d, inos') ∧
          faithful p.link (copyPerm Facts.canon p) inos inos' src.sort d = true := by
  intro h
  obtain ⟨d, inos', h1, h2⟩ := h ⟨0o644, false, false⟩ sibW (.link ['t']) [⟨[7], 0o600⟩] (by decide) (by decide)
  have e : copyTop Facts.canon ⟨0o644, false, false⟩ sibW (.link ['t']) none [⟨[7], 0o600⟩]
      = .ok (.file 1, [⟨[7], 0o600⟩, ⟨[7], 0o644⟩]) := rfl
  rw [e] at h1
  cases h1
  revert h2; decide

/-- ... and a dangling or directory-valued top-level symlink makes the copy fail outright. -/
theorem C34_witness_toplevel_symlink_errors :
    sameOutcome (copyTop Facts.canon ⟨0o644, false, false⟩ sibW (.link ['n', 'o']) none [⟨[7], 0o600⟩]) (.error .noEnt) = true ∧
    sameOutcome (copyTop Facts.canon ⟨0o644, false, false⟩ (.cons ['d'] (.dir .nil) .nil) (.link ['d']) none [])
      (.error .isDir) = true := by
  decide

/-- The facts read on this run give the same model as `Facts.canon` up to the two free fields. -/
theorem C34_facts_shape : facts.linkRecreatesSymlink = true ∧ facts.fallbackUsesSourceMode = true ∧
    facts.tempThenRename = true := ⟨facts_link, facts_fallback, facts_temp⟩

end PlzVerif.Props.C34
