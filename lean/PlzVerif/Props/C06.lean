import PlzVerif.Lemmas.Cycle
import PlzVerif.Lemmas.CycleSimple
import PlzVerif.Model.CycleFacts
/-!
C06  Cycle detection is sound and complete.

All theorems are about `check := Cycle.check genCfg`, the transcription of `cycleDetector.Check`
instantiated with the shape of `visit` read from /repo on this run.  They hold for every graph `g`
(dependency lists in any order, repeats allowed), every iteration order `nodes` and every size.
-/
namespace PlzVerif.Props.C06
open PlzVerif.Cycle PlzVerif.Generated

/-- Side condition on the regenerated facts (decidable).  Free: the order of the `complete`/`partial`
guards, the presence of a `stopped` guard, the top-level `complete` skip, the order of the two
statements after the dependency loop. -/
def FactsOK : Bool :=
  genCfg.OK && (
  -- the guard chain: (optionally `stopped` → nil), `complete` → nil, `partial` → the one-element slice
  ((C06.guards.filter (· != "stopped:nil")) == ["in:post:nil", "in:pre:self"] ||
   (C06.guards.filter (· != "stopped:nil")) == ["in:pre:self", "in:post:nil"]) &&
  C06.preLoop == ["mark:pre"] && C06.postLoop == ["mark:post", "unmark:pre"] &&
  C06.loopMethod == "Dependencies" && C06.recurseOnLoopVar && C06.fallthroughNil &&
  C06.topRange == "AllTargets" && C06.topVisitsLoopVar && C06.topReturnsResult)

/-- Obligation a code change can break: the facts extracted from /repo satisfy the side condition. -/
theorem C06_facts_ok : FactsOK = true := by decide

theorem cfg_ok : genCfg.OK = true := by
  have h := C06_facts_ok
  simp only [FactsOK, Bool.and_eq_true] at h
  exact h.1

/-- The model of `cycleDetector.Check` at the extracted shape. -/
def check := Cycle.check genCfg

/-- Soundness: every reported cycle is non-empty, each listed target depends on the next, and the last
depends on the first. -/
theorem C06_sound (g : Graph) (nodes c : List Nat) (d : Bool) (h : check g nodes = .cyc c d) :
    c ≠ [] ∧ Chain g c ∧ ∃ hd l, c.head? = some hd ∧ c.getLast? = some l ∧ Edge g l hd := by
  have hc := check_sound cfg_ok g nodes c d h
  refine ⟨?_, hc.1, hc.2⟩
  obtain ⟨_, hd, _, hh, _⟩ := hc
  intro e; simp [e] at hh

/-- Stronger soundness: a reported cycle is a simple cycle — no target is listed twice. -/
theorem C06_reported_simple (g : Graph) (nodes c : List Nat) (d : Bool) (h : check g nodes = .cyc c d) : c.Nodup :=
  check_simple cfg_ok g nodes c d h

/-- Every reported target is one of the graph's targets. -/
theorem C06_reported_listed (g : Graph) (nodes c : List Nat) (d : Bool) (hwf : WF g nodes)
    (h : check g nodes = .cyc c d) : ∀ x ∈ c, x ∈ nodes :=
  check_mem cfg_ok g nodes hwf c d h

/-- The recursion bound of the model (`nodes.length + 1`) is never reached on a well-formed graph, so the
model's third outcome does not exist for real graphs. -/
theorem C06_fuel (g : Graph) (nodes : List Nat) (hwf : WF g nodes) : check g nodes ≠ .oof :=
  check_fuel cfg_ok g nodes hwf

/-- An acyclic graph is never reported as cyclic. -/
theorem C06_acyclic_not_reported (g : Graph) (nodes : List Nat) (hwf : WF g nodes)
    (hac : ∀ a, ¬ Path g a a) : check g nodes = .none := by
  cases h : check g nodes with
  | none => rfl
  | oof => exact absurd h (C06_fuel g nodes hwf)
  | cyc c d =>
    obtain ⟨a, _, p⟩ := (check_sound cfg_ok g nodes c d h).path
    exact absurd p (hac a)

/-- Completeness: whenever some listed target lies on a cycle, a cycle is reported. -/
theorem C06_complete (g : Graph) (nodes : List Nat) (hwf : WF g nodes) (a : Nat) (ha : a ∈ nodes)
    (p : Path g a a) : ∃ c d, check g nodes = .cyc c d := by
  cases h : check g nodes with
  | none => exact absurd p (check_complete genCfg g nodes h a ha)
  | oof => exact absurd h (C06_fuel g nodes hwf)
  | cyc c d => exact ⟨c, d, rfl⟩

/-- Sound and complete, as one equivalence. -/
theorem C06_iff (g : Graph) (nodes : List Nat) (hwf : WF g nodes) :
    (∃ c d, check g nodes = .cyc c d) ↔ ∃ a ∈ nodes, Path g a a := by
  constructor
  · rintro ⟨c, d, h⟩
    have hc := check_sound cfg_ok g nodes c d h
    obtain ⟨a, hh, p⟩ := hc.path
    refine ⟨a, ?_, p⟩
    apply check_mem cfg_ok g nodes hwf c d h
    cases c with
    | nil => simp at hh
    | cons x xs => simp at hh; subst hh; exact List.mem_cons_self ..
  · rintro ⟨a, ha, p⟩; exact C06_complete g nodes hwf a ha p

/-- Any two iteration orders agree on whether a cycle exists (they may report different cycles). -/
theorem C06_any_order (g : Graph) {n₁ n₂ : List Nat} (hp : n₁.Perm n₂) (hwf : WF g n₁) :
    (check g n₁ = .none ↔ check g n₂ = .none) := by
  have hwf2 : WF g n₂ := fun t ht d hd => hp.subset (hwf t (hp.symm.subset ht) d hd)
  constructor
  · intro h
    cases h2 : check g n₂ with
    | none => rfl
    | oof => exact absurd h2 (C06_fuel g n₂ hwf2)
    | cyc c d =>
      obtain ⟨a, ha, p⟩ := (C06_iff g n₂ hwf2).mp ⟨c, d, h2⟩
      exact absurd p (check_complete genCfg g n₁ h a (hp.symm.subset ha))
  · intro h
    cases h1 : check g n₁ with
    | none => rfl
    | oof => exact absurd h1 (C06_fuel g n₁ hwf)
    | cyc c d =>
      obtain ⟨a, ha, p⟩ := (C06_iff g n₁ hwf).mp ⟨c, d, h1⟩
      exact absurd p (check_complete genCfg g n₂ h a (hp.subset ha))

-- non-vacuity: the shapes named in the property's rationale
/-- 0→1→2→0 -/
def g3 : Graph := fun | 0 => [1] | 1 => [2] | 2 => [0] | _ => []
example : check g3 [0, 1, 2] = .cyc [1, 2, 0] true := by decide
example : WF g3 [0, 1, 2] := by unfold WF; decide
/-- a cycle reached through an already-completed subgraph: 0→{1,2}, 1→3, 2→{1,4}, 4→2 -/
def g5 : Graph := fun | 0 => [1, 2] | 1 => [3] | 2 => [1, 4] | 4 => [2] | _ => []
example : check g5 [0, 1, 2, 3, 4] = .cyc [4, 2] true := by decide
/-- a DAG with a shared sub-DAG -/
def gd : Graph := fun | 0 => [1, 2] | 1 => [3] | 2 => [3] | _ => []
example : check gd [0, 1, 2, 3] = .none := by decide
example : check (fun | 0 => [0] | _ => []) [0] = .cyc [0] true := by decide

end PlzVerif.Props.C06
