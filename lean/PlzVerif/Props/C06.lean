import PlzVerif.Lemmas.Cycle
import PlzVerif.Lemmas.CycleSimple
import PlzVerif.Model.CycleFacts
/-!
C06  Cycle detection is sound and complete.

All theorems are about `check := Cycle.check genCfg`, the transcription of `cycleDetector.Check`
instantiated with the shape of `visit` read from /repo on this run.  They hold for every graph `g`
(dependency lists in any order, repeats allowed), every iteration order `nodes` and every size.
-/
namespace PlzVerif.Props.C06
open PlzVerif.Cycle PlzVerif.Generated

/-- Side condition on the regenerated facts (decidable).  Free: the order of the `complete`/`partial`
guards, the presence of a `stopped` guard, the top-level `complete` skip, the order of the two
statements after the dependency loop. -/
def FactsOK : Bool :=
  genCfg.OK && (
  -- the guard chain: (optionally `stopped` → nil), `complete` → nil, `partial` → the one-element slice
  ((C06.guards.filter (· != "stopped:nil")) == ["in:post:nil", "in:pre:self"] ||
   (C06.guards.filter (· != "stopped:nil")) == ["in:pre:self", "in:post:nil"]) &&
  C06.preLoop == ["mark:pre"] && C06.postLoop == ["mark:post", "unmark:pre"] &&
  C06.loopMethod == "Dependencies" && C06.recurseOnLoopVar && C06.fallthroughNil &&
  C06.topRange == "AllTargets" && C06.topVisitsLoopVar && C06.topReturnsResult &&
  -- nothing survives from one Check() to the next: both sets are fresh locals of Check, the detector has no
  -- collection-typed field and Check assigns to none of its fields
  genPersist == Persist.none && C06.detectorCollectionFields == [] && C06.checkWritesFields == [] &&
  -- `visit` ranges over `Dependencies()`, which returns every resolved dependency whatever its kind, while
  -- `BuildDependencies()` filters on how the dependency was declared
  genAccessor == Accessor.all &&
  C06.accessorDependencies == ["T.mutex.RLock()", "defer T.mutex.RUnlock()", "F1 := make(BuildTargets, 0, len(T.dependencies))",
    "for _, v01 := range T.dependencies { for _, v02 := range v01.v01 { F1 = append(F1, v02) } }", "sort.Sort(F1)", "return F1"] &&
  C06.accessorBuildDependencies == ["T.mutex.RLock()", "defer T.mutex.RUnlock()", "F1 := make(BuildTargets, 0, len(T.dependencies))",
    "for _, v01 := range T.dependencies { if !v01.runtime && !v01.data && !v01.internal && !v01.source { for _, v02 := range v01.v01 { F1 = append(F1, v02) } } }",
    "sort.Sort(F1)", "return F1"])

set_option maxRecDepth 100000 in
/-- Obligation a code change can break: the facts extracted from /repo satisfy the side condition. -/
theorem C06_facts_ok : FactsOK = true := by decide

theorem cfg_ok : genCfg.OK = true := by
  have h := C06_facts_ok
  simp only [FactsOK, Bool.and_eq_true] at h
  exact h.1

/-- The model of `cycleDetector.Check` at the extracted shape. -/
def check := Cycle.check genCfg

/-- Soundness: every reported cycle is non-empty, each listed target depends on the next, and the last
depends on the first. -/
theorem C06_sound (g : Graph) (nodes c : List Nat) (d : Bool) (h : check g nodes = .cyc c d) :
    c ≠ [] ∧ Chain g c ∧ ∃ hd l, c.head? = some hd ∧ c.getLast? = some l ∧ Edge g l hd := by
  have hc := check_sound cfg_ok g nodes c d h
  refine ⟨?_, hc.1, hc.2⟩
  obtain ⟨_, hd, _, hh, _⟩ := hc
  intro e; simp [e] at hh

/-- Stronger soundness: a reported cycle is a simple cycle — no target is listed twice. -/
theorem C06_reported_simple (g : Graph) (nodes c : List Nat) (d : Bool) (h : check g nodes = .cyc c d) : c.Nodup :=
  check_simple cfg_ok g nodes c d h

/-- Every reported target is one of the graph's targets. -/
theorem C06_reported_listed (g : Graph) (nodes c : List Nat) (d : Bool) (hwf : WF g nodes)
    (h : check g nodes = .cyc c d) : ∀ x ∈ c, x ∈ nodes :=
  check_mem cfg_ok g nodes hwf c d h

/-- The recursion bound of the model (`nodes.length + 1`) is never reached on a well-formed graph, so the
model's third outcome does not exist for real graphs. -/
theorem C06_fuel (g : Graph) (nodes : List Nat) (hwf : WF g nodes) : check g nodes ≠ .oof :=
  check_fuel cfg_ok g nodes hwf

/-- An acyclic graph is never reported as cyclic. -/
theorem C06_acyclic_not_reported (g : Graph) (nodes : List Nat) (hwf : WF g nodes)
    (hac : ∀ a, ¬ Path g a a) : check g nodes = .none := by
  cases h : check g nodes with
  | none => rfl
  | oof => exact absurd h (C06_fuel g nodes hwf)
  | cyc c d =>
    obtain ⟨a, _, p⟩ := (check_sound cfg_ok g nodes c d h).path
    exact absurd p (hac a)

/-- Completeness: whenever some listed target lies on a cycle, a cycle is reported. -/
theorem C06_complete (g : Graph) (nodes : List Nat) (hwf : WF g nodes) (a : Nat) (ha : a ∈ nodes)
    (p : Path g a a) : ∃ c d, check g nodes = .cyc c d := by
  cases h : check g nodes with
  | none => exact absurd p (check_complete genCfg g nodes h a ha)
  | oof => exact absurd h (C06_fuel g nodes hwf)
  | cyc c d => exact ⟨c, d, rfl⟩

/-- Sound and complete, as one equivalence. -/
theorem C06_iff (g : Graph) (nodes : List Nat) (hwf : WF g nodes) :
    (∃ c d, check g nodes = .cyc c d) ↔ ∃ a ∈ nodes, Path g a a := by
  constructor
  · rintro ⟨c, d, h⟩
    have hc := check_sound cfg_ok g nodes c d h
    obtain ⟨a, hh, p⟩ := hc.path
    refine ⟨a, ?_, p⟩
    apply check_mem cfg_ok g nodes hwf c d h
    cases c with
    | nil => simp at hh
    | cons x xs => simp at hh; subst hh; exact List.mem_cons_self ..
  · rintro ⟨a, ha, p⟩; exact C06_complete g nodes hwf a ha p

/-- Any two iteration orders agree on whether a cycle exists (they may report different cycles). -/
theorem C06_any_order (g : Graph) {n₁ n₂ : List Nat} (hp : n₁.Perm n₂) (hwf : WF g n₁) :
    (check g n₁ = .none ↔ check g n₂ = .none) := by
  have hwf2 : WF g n₂ := fun t ht d hd => hp.subset (hwf t (hp.symm.subset ht) d hd)
  constructor
  · intro h
    cases h2 : check g n₂ with
    | none => rfl
    | oof => exact absurd h2 (C06_fuel g n₂ hwf2)
    | cyc c d =>
      obtain ⟨a, ha, p⟩ := (C06_iff g n₂ hwf2).mp ⟨c, d, h2⟩
      exact absurd p (check_complete genCfg g n₁ h a (hp.symm.subset ha))
  · intro h
    cases h1 : check g n₁ with
    | none => rfl
    | oof => exact absurd h1 (C06_fuel g n₁ hwf)
    | cyc c d =>
      obtain ⟨a, ha, p⟩ := (C06_iff g n₁ hwf).mp ⟨c, d, h1⟩
      exact absurd p (check_complete genCfg g n₂ h a (hp.subset ha))

/-! ## one detector, many checks, a growing graph

Production keeps one `cycleDetector` per build and re-runs `Check()` while dependencies are still being resolved.
`checks st calls` is the list of results of the calls, each on the graph as it is at that moment. -/

theorem persist_none : genPersist = Persist.none := by
  have h := C06_facts_ok
  simp only [FactsOK, Bool.and_eq_true, beq_iff_eq] at h
  exact h.2.1.1.1.1.1.2

/-- the results of a sequence of `Check()` calls on one detector -/
def checks (st : DetState) (calls : List (Graph × List Nat)) : List Res := runSeq genCfg genPersist st calls

/-- Every call of every sequence behaves like a fresh detector on the graph of that call. -/
theorem C06_seq_stateless (st : DetState) (calls : List (Graph × List Nat)) :
    checks st calls = calls.map fun c => check c.1 c.2 := by
  unfold checks
  rw [persist_none]
  exact runSeq_stateless genCfg calls st

/-- Soundness along a sequence: whatever was checked before, a cycle reported by the `i`-th call is a genuine cycle
of the graph as resolved at the `i`-th call. -/
theorem C06_seq_sound (st : DetState) (calls : List (Graph × List Nat)) (i : Nat) (g : Graph) (nodes c : List Nat) (d : Bool)
    (hc : calls[i]? = some (g, nodes)) (hr : (checks st calls)[i]? = some (.cyc c d)) :
    c ≠ [] ∧ Chain g c ∧ ∃ hd l, c.head? = some hd ∧ c.getLast? = some l ∧ Edge g l hd := by
  rw [C06_seq_stateless, List.getElem?_map, hc] at hr
  simp only [Option.map_some, Option.some.injEq] at hr
  exact C06_sound g nodes c d hr

/-- Completeness along a sequence: as soon as the graph given to a call contains a cycle through one of its targets,
that call reports a cycle — also when the cycle closes through targets that earlier calls had fully visited. -/
theorem C06_seq_complete (st : DetState) (calls : List (Graph × List Nat)) (i : Nat) (g : Graph) (nodes : List Nat)
    (hc : calls[i]? = some (g, nodes)) (hwf : WF g nodes) (a : Nat) (ha : a ∈ nodes) (p : Path g a a) :
    ∃ c d, (checks st calls)[i]? = some (.cyc c d) := by
  rw [C06_seq_stateless, List.getElem?_map, hc]
  obtain ⟨c, d, h⟩ := C06_complete g nodes hwf a ha p
  exact ⟨c, d, by simp [h]⟩

-- non-vacuity: 0→1 first (no cycle, both complete), then 1→0 closes the cycle through the completed targets
def gA : Graph := fun | 0 => [1] | _ => []
def gB : Graph := fun | 0 => [1] | 1 => [0] | _ => []
example : checks ⟨[], []⟩ [(gA, [0, 1]), (gB, [0, 1])] = [.none, .cyc [1, 0] true] := by decide
/-- what a detector that keeps `complete` between calls would answer: the cycle is never seen -/
example : runSeq genCfg ⟨true, false⟩ ⟨[], []⟩ [(gA, [0, 1]), (gB, [0, 1])] = [.none, .none] := by decide

/-! ## dependencies of every kind

A resolved dependency is a build-time dependency, a source label, data, a run-time or an internal dependency
(`Kind`).  The detector must search the graph over ALL of them. -/

theorem accessor_all : genAccessor = Accessor.all := by
  have h := C06_facts_ok
  simp only [FactsOK, Bool.and_eq_true, beq_iff_eq] at h
  exact h.2.1.1.2

/-- `Check()` on a graph whose edges have kinds, with the accessor read from the source -/
def kchecked (kg : KGraph) (nodes : List Nat) : Res := kcheck genCfg genAccessor kg nodes

theorem kchecked_eq (kg : KGraph) (nodes : List Nat) : kchecked kg nodes = check (allDeps kg) nodes := by
  unfold kchecked kcheck
  rw [accessor_all]
  rfl

/-- Soundness over the union graph: a reported cycle is a genuine cycle of the graph of ALL resolved dependencies. -/
theorem C06_kinds_sound (kg : KGraph) (nodes c : List Nat) (d : Bool) (h : kchecked kg nodes = .cyc c d) :
    c ≠ [] ∧ Chain (allDeps kg) c ∧ ∃ hd l, c.head? = some hd ∧ c.getLast? = some l ∧ Edge (allDeps kg) l hd := by
  rw [kchecked_eq] at h
  exact C06_sound (allDeps kg) nodes c d h

/-- Completeness over the union graph: a cycle through a listed target is reported whatever the kinds of its edges
(deps, sources, data, run-time, internal). -/
theorem C06_kinds_complete (kg : KGraph) (nodes : List Nat) (hwf : WF (allDeps kg) nodes) (a : Nat) (ha : a ∈ nodes)
    (p : Path (allDeps kg) a a) : ∃ c d, kchecked kg nodes = .cyc c d := by
  rw [kchecked_eq]
  exact C06_complete (allDeps kg) nodes hwf a ha p

/-- witness: 0 depends on 1 (a build dependency), 1 uses 0 as DATA.  That is a cycle of the resolved graph; a detector
that iterated only the build-time sub-relation would search 0→1 alone and report nothing. -/
def kgW : KGraph := fun | 0 => [(1, Kind.dep)] | 1 => [(0, Kind.data)] | _ => []

theorem C06_witness_build_only_misses_data_cycle :
    Path (allDeps kgW) 0 0 ∧ kcheck genCfg Accessor.build kgW [0, 1] = .none ∧ kchecked kgW [0, 1] = .cyc [1, 0] true :=
  ⟨.cons (b := 1) (by unfold Edge; decide) (.single (by unfold Edge; decide)), by decide, by decide⟩

-- non-vacuity: the shapes named in the property's rationale
/-- 0→1→2→0 -/
def g3 : Graph := fun | 0 => [1] | 1 => [2] | 2 => [0] | _ => []
example : check g3 [0, 1, 2] = .cyc [1, 2, 0] true := by decide
example : WF g3 [0, 1, 2] := by unfold WF; decide
/-- a cycle reached through an already-completed subgraph: 0→{1,2}, 1→3, 2→{1,4}, 4→2 -/
def g5 : Graph := fun | 0 => [1, 2] | 1 => [3] | 2 => [1, 4] | 4 => [2] | _ => []
example : check g5 [0, 1, 2, 3, 4] = .cyc [4, 2] true := by decide
example : WF g5 [0, 1, 2, 3, 4] := by unfold WF; decide
/-- a DAG with a shared sub-DAG -/
def gd : Graph := fun | 0 => [1, 2] | 1 => [3] | 2 => [3] | _ => []
example : check gd [0, 1, 2, 3] = .none := by decide
example : WF gd [0, 1, 2, 3] := by unfold WF; decide
example : check (fun | 0 => [0] | _ => []) [0] = .cyc [0] true := by decide

end PlzVerif.Props.C06
