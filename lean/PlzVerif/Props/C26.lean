import PlzVerif.Lemmas.TestResults
import PlzVerif.Generated.C26
/-!
C26  Test outcomes are parsed and summarised faithfully.

Proved here (for all lists of cases / runs, no bound): the summary counters partition the cases, the
target verdict `AllSucceeded` is equivalent to "no failed or errored case" and, through the flake loop,
to "every case that ran has a successful or skipped execution in one of the at most `flakiness` runs".
Violated as stated, with witnesses: the `flakes` counter also counts cases that never failed; `<testsuite>`
nested in `<testsuite>` loses its cases; bare `<testcase>` elements lose their names; a Go test without a
result line is turned into a pass.
Parsing proper (`encoding/xml`, go-junit-report) is validated by correspondence only.
-/
namespace PlzVerif.Props.C26
open PlzVerif.TestResults PlzVerif.Generated

/-! ### Facts regenerated from /repo -/

def FactsOK : Bool :=
  C26.successCond == "E.Error == nil && E.Failure == nil && E.Skip == nil" &&
  C26.skipCond == "E.Skip != nil" && C26.failureCond == "E.Failure != nil" && C26.errorCond == "E.Error != nil" &&
  C26.passCond == "C.Skip() == nil && len(C.Errors()) == 0 && len(C.Failures()) == 0" &&
  C26.errorsCond == "C.Skip() == nil && C.Success() == nil && len(C.Errors()) > 0" &&
  C26.failuresCond == "C.Skip() == nil && C.Success() == nil && len(C.Errors()) == 0 && len(C.Failures()) > 0" &&
  C26.skipsCond == "C.Skip() != nil" &&
  C26.flakyCond == "C.Success() != nil && len(C.Executions) > 1" &&
  C26.allSucceededCond == "C.Skip() == nil && C.Success() == nil => return false; return true" &&
  C26.testsExpr == "return len(testSuite.TestCases)" &&
  C26.matchCond == "OLD.ClassName == NEW.ClassName && OLD.Name == NEW.Name" &&
  C26.addShape == "idx >= 0 ? append-executions : append-case" &&
  C26.flakeLoopInit == "I := 1" && C26.flakeLoopCond == "I <= FLAKINESS" && C26.flakeLoopPost == "I++" &&
  C26.flakeLoopSteps == ["run", "add:RUN.TestCases...)", "break-if:RUN.TestCases.AllSucceeded()"] &&
  C26.appendChain == ["test.Failure != nil:appendFailure", "test.Error != nil:appendError",
                      "test.Skipped != nil:appendSkipped", "else:appendSuccess"] &&
  C26.appendLoops == ["test.FlakyFailure:appendFlakyFailure", "test.FlakyError:appendFlakyError",
                      "test.RerunFailure:appendRerunFailure", "test.RerunError:appendRerunError"] &&
  C26.appendSets == ["appendFailure:Failure", "appendError:Error", "appendSkipped:Skip", "appendSuccess:",
                     "appendFlakyFailure:Failure", "appendFlakyError:Error", "appendRerunFailure:Failure",
                     "appendRerunError:Error"] &&
  C26.caseTags == ["Error=error", "Failure=failure", "FlakyError=flakyError", "FlakyFailure=flakyFailure",
                   "RerunError=rerunError", "RerunFailure=rerunFailure", "Skipped=skipped"] &&
  C26.xmlPrefixes == ["<?xml", "<test"] &&
  C26.goSets.contains ("Fail", "Failure") && C26.goSets.contains ("Skip", "Skip") && C26.goSets.contains ("Pass", "")

/-- Obligation a code change can break. -/
theorem C26_facts_ok : FactsOK = true := by decide

/-! ### Every case is counted in exactly one bucket -/

/-- passed / errored / failed / skipped / flaky-only (succeeded after failing or erroring, never skipped)
    are mutually exclusive and exhaustive, for every case. -/
theorem C26_partition_case (c : Case) :
    b2n (isPass c) + b2n (isError c) + b2n (isFailure c) + b2n (isSkip c) + b2n (isFlakyOnly c) = 1 :=
  bucket_sum_one c

/-- "N tests run" is the sum of the five buckets. -/
theorem C26_partition (l : List Case) :
    tests l = passes l + errors l + failures l + skips l + flakyOnly l :=
  tests_eq_buckets l

/-- A case that is flaky-only is reported by the `flakes` counter … -/
theorem C26_flaky_only_counted (c : Case) (h : isFlakyOnly c = true) : isFlakyPass c = true := by
  unfold isFlakyOnly at h
  unfold isFlakyPass
  simp only [Bool.and_eq_true, Bool.or_eq_true, Bool.not_eq_true'] at h
  obtain ⟨⟨hs, _⟩, hfe⟩ := h
  simp only [hs, Bool.true_and, decide_eq_true_eq]
  -- a successful execution and a failing/erroring one are different executions
  unfold Case.hasSuccess at hs
  unfold Case.hasFailure Case.hasError at hfe
  match hc : c.execs with
  | [] => simp [hc] at hs
  | [e] =>
    simp only [hc, List.any_cons, List.any_nil, Bool.or_false] at hs hfe
    unfold Exec.isSuccess at hs
    rcases hfe with h | h <;> simp [h] at hs
  | _ :: _ :: _ => simp

/-- VIOLATED: … but the `flakes` counter (`FlakyPasses`) is not the flaky-only bucket: a case that
    passed in two runs without ever failing is both "passed" and a "flake" (this is what every clean case
    looks like after `doFlakeRun` needed a second run for some other case). -/
theorem C26_witness_two_buckets :
    ∃ c : Case, isPass c = true ∧ isFlakyPass c = true ∧ isFlakyOnly c = false :=
  ⟨⟨"", "a", [Exec.pass, Exec.pass]⟩, by decide, by decide, by decide⟩

/-- Stated with the five displayed counters the partition therefore fails. -/
theorem C26_witness_counters_overlap :
    ∃ l : List Case, tests l ≠ passes l + errors l + failures l + skips l + flakyPasses l :=
  ⟨[⟨"", "a", [Exec.pass, Exec.pass]⟩], by decide⟩

/-- Where the displayed counters do partition: when no case that never failed/errored (or was skipped) has more
    than one execution — e.g. every freshly parsed result file, or a target with flakiness 1. -/
theorem C26_partition_partial (l : List Case)
    (h : ∀ c ∈ l, isFlakyPass c = true → isFlakyOnly c = true) :
    tests l = passes l + errors l + failures l + skips l + flakyPasses l := by
  have : flakyPasses l = flakyOnly l := by
    unfold flakyPasses flakyOnly
    apply List.countP_congr
    intro c hc
    constructor
    · exact h c hc
    · exact C26_flaky_only_counted c
  rw [this]; exact C26_partition l

/-! ### The verdict -/

/-- The target passes iff no case is counted as failed or errored — provided every case has at least
    one execution. -/
theorem C26_verdict_iff_no_failures (l : List Case) (hne : ∀ c ∈ l, c.execs ≠ []) :
    allSucceeded l = true ↔ failures l = 0 ∧ errors l = 0 := by
  unfold allSucceeded failures errors
  simp only [List.all_eq_true, List.countP_eq_zero, Bool.or_eq_true]
  constructor
  · intro h
    constructor <;> intro c hc <;> have := h c hc <;>
      simp only [isFailure, isError, Bool.and_eq_true, Bool.not_eq_true', not_and] <;>
      rcases this with h1 | h1 <;> simp [h1]
  · rintro ⟨hf, he⟩ c hc
    have hf' : isFailure c = false := by simpa using hf c hc
    have he' : isError c = false := by simpa using he c hc
    have hn := hne c hc
    by_cases hs : c.hasSuccess = true
    · exact Or.inl hs
    · by_cases hk : c.hasSkip = true
      · exact Or.inr hk
      · exfalso
        have hs0 : c.hasSuccess = false := by simpa using hs
        have hk0 : c.hasSkip = false := by simpa using hk
        have herr : c.hasError = false := by simpa [isError, hs0, hk0] using he'
        have hfail : c.hasFailure = false := by simpa [isFailure, hs0, hk0, herr] using hf'
        -- no success, skip, error or failure: there is no execution at all
        cases hexecs : c.execs with
        | nil => exact hn hexecs
        | cons e es =>
          unfold Case.hasSuccess at hs0; unfold Case.hasSkip at hk0
          unfold Case.hasError at herr; unfold Case.hasFailure at hfail
          rw [hexecs] at hs0 hk0 herr hfail
          simp only [List.any_cons, Bool.or_eq_false_iff] at hs0 hk0 herr hfail
          have h1 := hs0.1
          unfold Exec.isSuccess at h1
          simp [hk0.1, herr.1, hfail.1] at h1

/-- Without that proviso the equivalence fails: a case without executions is counted as passed (no failure,
    error or skip) while the verdict is "failed" with zero failures and zero errors.  (None of the parsers
    nor `Add` can produce such a case: `C26_xml_case_executions`, `goExec` give at least one execution.) -/
theorem C26_witness_empty_case :
    ∃ l : List Case, passes l = tests l ∧ failures l = 0 ∧ errors l = 0 ∧ allSucceeded l = false :=
  ⟨[⟨"", "a", []⟩], by decide, by decide, by decide, by decide⟩

/-! ### The flake loop -/

/-- `doFlakeRun` performs at most `flakiness` runs, they are a prefix of what `doTest` would deliver, and
    it stops right after the first run in which everything succeeded. -/
theorem C26_runs_within_allowance (n : Nat) (runs : List (List Case)) :
    (executedRuns n runs).length ≤ n ∧ (executedRuns n runs).IsPrefix runs ∧
    ∀ pre r post, executedRuns n runs = pre ++ r :: post → allSucceeded r = true → post = [] :=
  ⟨executedRuns_length n runs, executedRuns_prefix n runs, fun pre r post h hr => executedRuns_stop n runs pre r post h hr⟩

/-- The target is reported as passing exactly when every case that ran (in any of the executed runs) has,
    in one of the executed runs, an execution that succeeded or was skipped. -/
theorem C26_passes_iff (n : Nat) (runs : List (List Case)) :
    allSucceeded (flakeLoop n runs []) = true ↔
      ∀ r ∈ executedRuns n runs, ∀ c ∈ r,
        ∃ r' ∈ executedRuns n runs, ∃ c' ∈ r', c'.key = c.key ∧ ∃ e ∈ c'.execs, e.isSuccess = true ∨ e.skip = true := by
  rw [flakeLoop_eq]
  have hn : (keys ((executedRuns n runs).foldl addAll [])).Nodup :=
    foldl_addAll_nodup _ [] (by simp [keys])
  rw [allSucceeded_keyed _ hn]
  constructor
  · intro h r hr c hc
    have hk : c.key ∈ keys ((executedRuns n runs).foldl addAll []) :=
      (foldl_addAll_keys _ [] _).mpr (Or.inr ⟨r, hr, List.mem_map_of_mem hc⟩)
    obtain ⟨e, hhas, hok⟩ := h _ hk
    rcases (foldl_addAll_has _ [] _ e).mp hhas with h0 | ⟨r', hr', c', hc', hkey, he⟩
    · simp [Has] at h0
    · exact ⟨r', hr', c', hc', hkey, e, he, by simpa [Exec.ok] using hok⟩
  · intro h k hk
    rcases (foldl_addAll_keys _ [] k).mp hk with h0 | ⟨r, hr, hkr⟩
    · simp [keys] at h0
    · simp only [keys, List.mem_map] at hkr
      obtain ⟨c, hc, rfl⟩ := hkr
      obtain ⟨r', hr', c', hc', hkey, e, he, hok⟩ := h r hr c hc
      exact ⟨e, (foldl_addAll_has _ [] _ e).mpr (Or.inr ⟨r', hr', c', hc', hkey, he⟩), by simpa [Exec.ok] using hok⟩

-- non-vacuity: A fails then passes, B passes then fails; neither run succeeded on its own, the target passes
example : allSucceeded (flakeLoop 2 [[⟨"", "A", [Exec.fail]⟩, ⟨"", "B", [Exec.pass]⟩],
    [⟨"", "A", [Exec.pass]⟩, ⟨"", "B", [Exec.fail]⟩]] []) = true := by decide
-- … and with an allowance of one run it fails
example : allSucceeded (flakeLoop 1 [[⟨"", "A", [Exec.fail]⟩, ⟨"", "B", [Exec.pass]⟩],
    [⟨"", "A", [Exec.pass]⟩, ⟨"", "B", [Exec.fail]⟩]] []) = false := by decide

/-! ### What sits between the parsers and the summary -/

/-- `appendResult` gives every `<testcase>` exactly one main execution (failure before error before
    skipped before success) followed by one execution per flaky/rerun child. -/
theorem C26_xml_case_executions (x : XCase) :
    x.toCase.execs.length = 1 + x.flakyFailures + x.flakyErrors + x.rerunFailures + x.rerunErrors := by
  simp [XCase.toCase]; omega

/-- With support for nested suites every case of every suite is reported. -/
theorem C26_nested_supported_all_cases (cs : List XCase) (inner : List XCase) :
    (XSuite.mk cs [XSuite.mk inner []]).cases true = cs.map XCase.toCase ++ inner.map XCase.toCase := by
  simp [XSuite.cases, XSuite.cases.casesList]

/-- VIOLATED (as the struct is declared today, `C26.nestedSuiteField = false`): the cases of a
    `<testsuite>` nested inside a `<testsuite>` disappear, here a failing one, and the verdict turns green. -/
theorem C26_witness_nested_suite_dropped :
    ∃ s : XSuite, allSucceeded (s.cases false) = true ∧ allSucceeded (s.cases true) = false :=
  ⟨XSuite.mk [⟨"c", "a", false, false, false, 0, 0, 0, 0⟩] [XSuite.mk [⟨"c", "b", true, false, false, 0, 0, 0, 0⟩] []],
   by decide, by decide⟩

/-- VIOLATED: a bare top-level `<testcase>` keeps its outcome but loses its name and class name
    (`C26.bareCaseFields = []`: the synthetic `core.TestCase{}` is never given them). -/
theorem C26_witness_bare_names_dropped :
    ∃ x : XCase, x.name ≠ "" ∧ (bareCase [] x).name = "" ∧ (bareCase [] x).execs = x.toCase.execs :=
  ⟨⟨"pkg.C", "test_a", true, false, false, 0, 0, 0, 0⟩, by decide, by decide, by decide⟩

/-- With both fields copied the case is reported as written. -/
theorem C26_bare_fixed (x : XCase) : bareCase ["ClassName", "Name"] x = x.toCase := by
  simp [bareCase]

/-- VIOLATED (`go test -v`): a test that was started but has no result line (timeout, os.Exit, crash) is
    `gtr.Unknown`; the switch has no clause for it and the execution counts as a success. -/
theorem C26_witness_go_unknown_is_pass :
    (goExec [("Fail", "Failure"), ("Skip", "Skip"), ("Pass", "")] GoResult.unknown).isSuccess = true := by decide

/-- With a clause for it (either `case gtr.Unknown` or `default`) that sets Error, it is an error. -/
theorem C26_go_unknown_fixed (sets : List (String × String))
    (h : sets = [("Fail", "Failure"), ("Skip", "Skip"), ("Pass", ""), ("default", "Error")]) :
    goExec sets GoResult.unknown = Exec.err := by subst h; decide

end PlzVerif.Props.C26
