import PlzVerif.Lemmas.TestResults
import PlzVerif.Generated.C26
/-!
C26  Test outcomes are parsed and summarised faithfully.

Proved here (for all lists of cases / runs, no bound): the summary counters partition the cases, the
target verdict `AllSucceeded` is equivalent to "no failed or errored case" and, through the flake loop,
to "every case that ran has a successful or skipped execution in one of the at most `flakiness` runs".
Four defects found by this check were repaired in /repo (`fix:` commits): the `flakes` counter counted
cases that never failed; `<testsuite>` nested in `<testsuite>` lost its cases; bare `<testcase>` elements
lost their names; a Go test without a result line was turned into a pass.  The theorems below are stated
for the repaired code (the facts `flakyCond`, `nestedSuiteField`, `bareCaseFields`, `goSets` say so); the old
witnesses are kept as statements about the OLD fact values.
Parsing proper (`encoding/xml`, go-junit-report) is validated by correspondence only.
-/
namespace PlzVerif.Props.C26
open PlzVerif.TestResults PlzVerif.Generated

/-! ### Facts regenerated from /repo -/

def FactsOK : Bool :=
  C26.successCond == "E.Error == nil && E.Failure == nil && E.Skip == nil" &&
  C26.skipCond == "E.Skip != nil" && C26.failureCond == "E.Failure != nil" && C26.errorCond == "E.Error != nil" &&
  C26.passCond == "C.Skip() == nil && len(C.Errors()) == 0 && len(C.Failures()) == 0" &&
  C26.errorsCond == "C.Skip() == nil && C.Success() == nil && len(C.Errors()) > 0" &&
  C26.failuresCond == "C.Skip() == nil && C.Success() == nil && len(C.Errors()) == 0 && len(C.Failures()) > 0" &&
  C26.skipsCond == "C.Skip() != nil" &&
  C26.flakyCond == "(len(C.Failures()) > 0 || len(C.Errors()) > 0) && C.Skip() == nil && C.Success() != nil" &&
  C26.allSucceededCond == "C.Skip() == nil && C.Success() == nil => return false; return true" &&
  C26.testsExpr == "return len(testSuite.TestCases)" &&
  -- Add: an incoming case is the same as an existing one iff class name AND name are equal, compared separately
  -- (a concatenated key would identify ("a.b","c") with ("a","b.c")); then append executions, else append the case
  C26.addMatchKind == "separate" && C26.addMatchFields == ["ClassName", "Name"] &&
  C26.addShape == "found ? append-executions : append-case" &&
  C26.flakeLoopInit == "I := 1" && C26.flakeLoopCond == "I <= FLAKINESS" && C26.flakeLoopPost == "I++" &&
  C26.flakeLoopSteps == ["run", "add:RUN.TestCases...)", "break-if:RUN.TestCases.AllSucceeded()"] &&
  C26.appendChain == ["test.Failure != nil:appendFailure", "test.Error != nil:appendError",
                      "test.Skipped != nil:appendSkipped", "else:appendSuccess"] &&
  C26.appendLoops == ["test.FlakyFailure:appendFlakyFailure", "test.FlakyError:appendFlakyError",
                      "test.RerunFailure:appendRerunFailure", "test.RerunError:appendRerunError"] &&
  C26.appendSets == ["appendFailure:Failure", "appendError:Error", "appendSkipped:Skip", "appendSuccess:",
                     "appendFlakyFailure:Failure", "appendFlakyError:Error", "appendRerunFailure:Failure",
                     "appendRerunError:Error"] &&
  C26.caseTags == ["Error=error", "Failure=failure", "FlakyError=flakyError", "FlakyFailure=flakyFailure",
                   "RerunError=rerunError", "RerunFailure=rerunFailure", "Skipped=skipped"] &&
  C26.xmlPrefixes == ["<?xml", "<test"] &&
  C26.goSets.contains ("Fail", "Failure") && C26.goSets.contains ("Skip", "Skip") && C26.goSets.contains ("Pass", "") &&
  -- the repaired conversions: an unfinished Go test is an error, nested suites are decoded, bare cases keep their names
  (C26.goSets.contains ("default", "Error") || C26.goSets.contains ("Unknown", "Error")) &&
  C26.nestedSuiteField && C26.bareCaseFields == ["ClassName", "Name"] &&
  -- toCoreTestSuite reaches nested suites by calling itself on EVERY element of TestSuites (not a worklist, not one level)
  C26.nestedTraversal == "recursive"

/-- Obligation a code change can break. -/
theorem C26_facts_ok : FactsOK = true := by decide

/-! ### Every case is counted in exactly one bucket -/

/-- The `flakes` counter as found in the source of this run. -/
abbrev isFlakyPass := isFlakyPassWith (flakyStrictOf C26.flakyCond)
abbrev flakyPasses := flakyPassesWith (flakyStrictOf C26.flakyCond)

theorem flaky_strict : flakyStrictOf C26.flakyCond = true := by decide

/-- passed / errored / failed / skipped / flake are mutually exclusive and exhaustive, for every case:
    exactly one of the five displayed counters counts it. -/
theorem C26_partition_case (c : Case) :
    b2n (isPass c) + b2n (isError c) + b2n (isFailure c) + b2n (isSkip c) + b2n (isFlakyPass c) = 1 := by
  have h := bucket_sum_one c
  unfold isFlakyPass isFlakyPassWith
  rw [flaky_strict]
  exact h

/-- "N tests run" is the sum of the five displayed counters. -/
theorem C26_partition (l : List Case) :
    tests l = passes l + errors l + failures l + skips l + flakyPasses l := by
  have h := tests_eq_buckets l
  have e : flakyPasses l = flakyOnly l := by
    unfold flakyPasses flakyPassesWith flakyOnly
    rw [flaky_strict]
    rfl
  rw [e]; exact h

/-- A flake is a case that passed only after a failing or erroring execution; it has at least two executions. -/
theorem C26_flake_has_retry (c : Case) (h : isFlakyPass c = true) : c.execs.length > 1 := by
  unfold isFlakyPass isFlakyPassWith at h
  rw [flaky_strict] at h
  simp only [if_true, Bool.and_eq_true, Bool.or_eq_true, Bool.not_eq_true'] at h
  obtain ⟨⟨hs, _⟩, hfe⟩ := h
  unfold Case.hasSuccess at hs
  unfold Case.hasFailure Case.hasError at hfe
  match hc : c.execs with
  | [] => simp [hc] at hs
  | [e] =>
    simp only [hc, List.any_cons, List.any_nil, Bool.or_false] at hs hfe
    unfold Exec.isSuccess at hs
    rcases hfe with h | h <;> simp [h] at hs
  | _ :: _ :: _ => simp

/-- The counter before the repair (`Success() != nil && len(Executions) > 1`) did not partition: a case that
    passed in two runs without ever failing was both "passed" and a "flake" — every clean case looked like
    that after `doFlakeRun` needed a second run for some other case.  (Statement about the OLD condition.) -/
theorem C26_old_flaky_counter_overlapped :
    ∃ c : Case, isPass c = true ∧ isFlakyPassWith false c = true ∧ isFlakyOnly c = false :=
  ⟨⟨"", "a", [Exec.pass, Exec.pass]⟩, by decide, by decide, by decide⟩

theorem C26_old_counters_did_not_partition :
    ∃ l : List Case, tests l ≠ passes l + errors l + failures l + skips l + flakyPassesWith false l :=
  ⟨[⟨"", "a", [Exec.pass, Exec.pass]⟩], by decide⟩

/-! ### The verdict -/

/-- The target passes iff no case is counted as failed or errored — provided every case has at least
    one execution. -/
theorem C26_verdict_iff_no_failures (l : List Case) (hne : ∀ c ∈ l, c.execs ≠ []) :
    allSucceeded l = true ↔ failures l = 0 ∧ errors l = 0 := by
  unfold allSucceeded failures errors
  simp only [List.all_eq_true, List.countP_eq_zero, Bool.or_eq_true]
  constructor
  · intro h
    constructor <;> intro c hc <;> have := h c hc <;>
      simp only [isFailure, isError, Bool.and_eq_true, Bool.not_eq_true', not_and] <;>
      rcases this with h1 | h1 <;> simp [h1]
  · rintro ⟨hf, he⟩ c hc
    have hf' : isFailure c = false := by simpa using hf c hc
    have he' : isError c = false := by simpa using he c hc
    have hn := hne c hc
    by_cases hs : c.hasSuccess = true
    · exact Or.inl hs
    · by_cases hk : c.hasSkip = true
      · exact Or.inr hk
      · exfalso
        have hs0 : c.hasSuccess = false := by simpa using hs
        have hk0 : c.hasSkip = false := by simpa using hk
        have herr : c.hasError = false := by simpa [isError, hs0, hk0] using he'
        have hfail : c.hasFailure = false := by simpa [isFailure, hs0, hk0, herr] using hf'
        -- no success, skip, error or failure: there is no execution at all
        cases hexecs : c.execs with
        | nil => exact hn hexecs
        | cons e es =>
          unfold Case.hasSuccess at hs0; unfold Case.hasSkip at hk0
          unfold Case.hasError at herr; unfold Case.hasFailure at hfail
          rw [hexecs] at hs0 hk0 herr hfail
          simp only [List.any_cons, Bool.or_eq_false_iff] at hs0 hk0 herr hfail
          have h1 := hs0.1
          unfold Exec.isSuccess at h1
          simp [hk0.1, herr.1, hfail.1] at h1

/-- Without that proviso the equivalence fails: a case without executions is counted as passed (no failure,
    error or skip) while the verdict is "failed" with zero failures and zero errors.  (None of the parsers
    nor `Add` can produce such a case: `C26_xml_case_executions`, `goExec` give at least one execution.) -/
theorem C26_witness_empty_case :
    ∃ l : List Case, passes l = tests l ∧ failures l = 0 ∧ errors l = 0 ∧ allSucceeded l = false :=
  ⟨[⟨"", "a", []⟩], by decide, by decide, by decide, by decide⟩

/-! ### The flake loop -/

/-- `doFlakeRun` performs at most `flakiness` runs, they are a prefix of what `doTest` would deliver, and
    it stops right after the first run in which everything succeeded. -/
theorem C26_runs_within_allowance (n : Nat) (runs : List (List Case)) :
    (executedRuns n runs).length ≤ n ∧ (executedRuns n runs).IsPrefix runs ∧
    ∀ pre r post, executedRuns n runs = pre ++ r :: post → allSucceeded r = true → post = [] :=
  ⟨executedRuns_length n runs, executedRuns_prefix n runs, fun pre r post h hr => executedRuns_stop n runs pre r post h hr⟩

/-- … and it does not stop early (the statement above alone is met by performing no run at all): the loop either
    uses up the allowance or the runs there are, or its last run is one in which everything succeeded. -/
theorem C26_runs_not_short (n : Nat) (runs : List (List Case)) :
    (executedRuns n runs).length = min n runs.length ∨
      ∃ r, (executedRuns n runs).getLast? = some r ∧ allSucceeded r = true := by
  induction n generalizing runs with
  | zero => left; cases runs <;> simp [executedRuns]
  | succ n ih =>
    cases runs with
    | nil => left; simp [executedRuns]
    | cons run rest =>
      unfold executedRuns
      by_cases h : allSucceeded run = true
      · right; exact ⟨run, by simp [h], h⟩
      · simp only [h, Bool.false_eq_true, if_false]
        rcases ih rest with hl | ⟨r, hr, hs⟩
        · left; simp only [List.length_cons, hl]; omega
        · right
          refine ⟨r, ?_, hs⟩
          cases he : executedRuns n rest with
          | nil => rw [he] at hr; simp at hr
          | cons a l => rw [he] at hr; rw [List.getLast?_cons_cons]; exact hr

example : executedRuns 3 [[⟨"", "a", [Exec.fail]⟩], [⟨"", "a", [Exec.pass]⟩], [⟨"", "a", [Exec.fail]⟩]]
    = [[⟨"", "a", [Exec.fail]⟩], [⟨"", "a", [Exec.pass]⟩]] := by decide

/-- "Reports the same test cases with the same outcome counts", on the modelled part: a single run whose cases have
    distinct (class, name) is reported as it is … -/
example : flakeLoop 1 [[⟨"C", "a", [Exec.fail]⟩, ⟨"C", "b", [Exec.pass]⟩, ⟨"D", "a", [Exec.skipped]⟩]] []
    = [⟨"C", "a", [Exec.fail]⟩, ⟨"C", "b", [Exec.pass]⟩, ⟨"D", "a", [Exec.skipped]⟩] := by decide
/-- … but two cases written with the same class and name (repeated cases) are merged by `TestSuite.Add`: the suite
    reports ONE case, a flake, and the target passes although the run's own `AllSucceeded` was false. -/
theorem C26_witness_repeated_case_merged :
    ∃ run : List Case, allSucceeded run = false ∧ (flakeLoop 1 [run] []).length < run.length ∧
      allSucceeded (flakeLoop 1 [run] []) = true :=
  ⟨[⟨"", "A", [Exec.fail]⟩, ⟨"", "A", [Exec.pass]⟩], by decide, by decide, by decide⟩

/-- The target is reported as passing exactly when every case that ran (in any of the executed runs) has,
    in one of the executed runs, an execution that succeeded or was skipped. -/
theorem C26_passes_iff (n : Nat) (runs : List (List Case)) :
    allSucceeded (flakeLoop n runs []) = true ↔
      ∀ r ∈ executedRuns n runs, ∀ c ∈ r,
        ∃ r' ∈ executedRuns n runs, ∃ c' ∈ r', c'.key = c.key ∧ ∃ e ∈ c'.execs, e.isSuccess = true ∨ e.skip = true := by
  rw [flakeLoop_eq]
  have hn : (keys ((executedRuns n runs).foldl addAll [])).Nodup :=
    foldl_addAll_nodup _ [] (by simp [keys])
  rw [allSucceeded_keyed _ hn]
  constructor
  · intro h r hr c hc
    have hk : c.key ∈ keys ((executedRuns n runs).foldl addAll []) :=
      (foldl_addAll_keys _ [] _).mpr (Or.inr ⟨r, hr, List.mem_map_of_mem hc⟩)
    obtain ⟨e, hhas, hok⟩ := h _ hk
    rcases (foldl_addAll_has _ [] _ e).mp hhas with h0 | ⟨r', hr', c', hc', hkey, he⟩
    · simp [Has] at h0
    · exact ⟨r', hr', c', hc', hkey, e, he, by simpa [Exec.ok] using hok⟩
  · intro h k hk
    rcases (foldl_addAll_keys _ [] k).mp hk with h0 | ⟨r, hr, hkr⟩
    · simp [keys] at h0
    · simp only [keys, List.mem_map] at hkr
      obtain ⟨c, hc, rfl⟩ := hkr
      obtain ⟨r', hr', c', hc', hkey, e, he, hok⟩ := h r hr c hc
      exact ⟨e, (foldl_addAll_has _ [] _ e).mpr (Or.inr ⟨r', hr', c', hc', hkey, he⟩), by simpa [Exec.ok] using hok⟩

/-- `Add` keys on the pair: two cases whose class name / name are different splits of the same dotted string
    stay two cases (a failing one cannot be absorbed by a passing one). -/
theorem C26_add_keeps_resplit_cases_apart :
    allSucceeded (addAll [] [⟨"com.acme.Parser", "v2.roundtrip", [Exec.fail]⟩, ⟨"com.acme.Parser.v2", "roundtrip", [Exec.pass]⟩]) = false := by
  decide

/-- In general: cases with different (name, class name) pairs are never merged by `Add`. -/
theorem C26_add_distinct_keys (l : List Case) (c : Case) (h : c.key ∉ keys l) : add1 l c = l ++ [c] := by
  induction l with
  | nil => rfl
  | cons x xs ih =>
    have hx : ¬ x.key = c.key := fun e => h (by simp [keys, e])
    have hs : sameKey x c = false := by
      cases hsk : sameKey x c
      · rfl
      · exact absurd ((sameKey_iff x c).mp hsk) hx
    simp only [add1, hs, Bool.false_eq_true, if_false, List.cons_append]
    rw [ih (fun hm => h (by simp only [keys, List.map_cons, List.mem_cons]; exact Or.inr hm))]

-- non-vacuity: A fails then passes, B passes then fails; neither run succeeded on its own, the target passes
example : allSucceeded (flakeLoop 2 [[⟨"", "A", [Exec.fail]⟩, ⟨"", "B", [Exec.pass]⟩],
    [⟨"", "A", [Exec.pass]⟩, ⟨"", "B", [Exec.fail]⟩]] []) = true := by decide
-- … and with an allowance of one run it fails
example : allSucceeded (flakeLoop 1 [[⟨"", "A", [Exec.fail]⟩, ⟨"", "B", [Exec.pass]⟩],
    [⟨"", "A", [Exec.pass]⟩, ⟨"", "B", [Exec.fail]⟩]] []) = false := by decide

/-! ### What sits between the parsers and the summary -/

/-- `appendResult` gives every `<testcase>` exactly one main execution (failure before error before
    skipped before success) followed by one execution per flaky/rerun child. -/
theorem C26_xml_case_executions (x : XCase) :
    x.toCase.execs.length = 1 + x.flakyFailures + x.flakyErrors + x.rerunFailures + x.rerunErrors := by
  simp [XCase.toCase]; omega

/-- With support for nested suites every case of every suite is reported. -/
theorem C26_nested_supported_all_cases (cs : List XCase) (inner : List XCase) :
    (XSuite.mk cs [XSuite.mk inner []]).cases true = cs.map XCase.toCase ++ inner.map XCase.toCase := by
  simp [XSuite.cases, XSuite.cases.casesList]

/-- The code of this run decodes nested suites: every case of the outer and of the inner suites is reported. -/
theorem C26_nested_cases_reported (cs : List XCase) (inner : List (List XCase)) :
    (XSuite.mk cs (inner.map fun s => XSuite.mk s [])).cases C26.nestedSuiteField
      = cs.map XCase.toCase ++ (inner.map fun s => s.map XCase.toCase).flatten := by
  have hf : C26.nestedSuiteField = true := by decide
  rw [hf]
  simp only [XSuite.cases, if_true]
  congr 1
  induction inner with
  | nil => rfl
  | cons s rest ih => simp [XSuite.cases.casesList, XSuite.cases, ih]

/-! #### the report as a tree of suites, nested to any depth -/

/-- The traversal found in the source of this run is the recursive one. -/
theorem traversal_recursive (s : XSuite) : s.casesMode C26.nestedTraversal = s.cases true := by
  have h : C26.nestedTraversal = "recursive" := by decide
  simp [XSuite.casesMode, h]

theorem casesList_eq_all : ∀ l : List XSuite,
    (∀ s ∈ l, s.cases true = s.all.map XCase.toCase) →
    XSuite.cases.casesList true l = (XSuite.all.allList l).map XCase.toCase
  | [], _ => rfl
  | s :: rest, h => by
    simp only [XSuite.cases.casesList, XSuite.all.allList, List.map_append]
    rw [h s (by simp), casesList_eq_all rest (fun x hx => h x (by simp [hx]))]

/-- The parsed cases of a suite tree are exactly the cases at every depth (structural induction over the tree). -/
theorem C26_tree_all_cases : ∀ s : XSuite, s.casesMode C26.nestedTraversal = s.all.map XCase.toCase
  | .mk cs nested => by
    rw [traversal_recursive]
    simp only [XSuite.cases, if_true, XSuite.all, List.map_append]
    congr 1
    apply casesList_eq_all
    intro s hs
    have := C26_tree_all_cases s
    rwa [traversal_recursive] at this
decreasing_by
  all_goals simp_wf
  have := List.sizeOf_lt_of_mem hs
  omega

/-- Any counter (a `countP`) over the parsed cases is the suite's own count plus the sum over its child suites, at
    every level: tests, passes, failures, errors, skips and flakes are all sums over the tree. -/
theorem C26_tree_counts (p : Case → Bool) (cs : List XCase) (nested : List XSuite) :
    ((XSuite.mk cs nested).cases true).countP p
      = (cs.map XCase.toCase).countP p + (nested.map fun n => (n.cases true).countP p).sum := by
  simp only [XSuite.cases, if_true, List.countP_append]
  congr 1
  induction nested with
  | nil => rfl
  | cons n rest ih => simp [XSuite.cases.casesList, List.countP_append, ih]

theorem C26_tree_tests (cs : List XCase) (nested : List XSuite) :
    tests ((XSuite.mk cs nested).cases true) = cs.length + (nested.map fun n => tests (n.cases true)).sum := by
  have h := C26_tree_counts (fun _ => true) cs nested
  simpa [tests, List.countP_true] using h

/-- A `<testcase>` lets the target pass iff its main result is neither a failure nor an error (flaky/rerun children
    never help: they are failures and errors). -/
theorem xcase_ok_iff (x : XCase) : (x.toCase.hasSuccess || x.toCase.hasSkip) = (!x.failure && !x.error) := by
  have hf : ∀ n, (List.replicate n Exec.fail).any Exec.isSuccess = false := by
    intro n; induction n <;> simp_all [List.replicate, Exec.fail, Exec.isSuccess]
  have he : ∀ n, (List.replicate n Exec.err).any Exec.isSuccess = false := by
    intro n; induction n <;> simp_all [List.replicate, Exec.err, Exec.isSuccess]
  have hf' : ∀ n, (List.replicate n Exec.fail).any (·.skip) = false := by
    intro n; induction n <;> simp_all [List.replicate, Exec.fail]
  have he' : ∀ n, (List.replicate n Exec.err).any (·.skip) = false := by
    intro n; induction n <;> simp_all [List.replicate, Exec.err]
  unfold Case.hasSuccess Case.hasSkip XCase.toCase
  simp only [List.any_cons, List.any_append, hf, he, hf', he', Bool.or_false]
  cases x.failure <;> cases x.error <;> cases x.skipped <;> rfl

/-- The target passes exactly when no test case anywhere in the tree, at whatever depth, has failed or errored. -/
theorem C26_tree_verdict (s : XSuite) :
    allSucceeded (s.casesMode C26.nestedTraversal) = true ↔ ∀ x ∈ s.all, x.failure = false ∧ x.error = false := by
  rw [C26_tree_all_cases]
  unfold allSucceeded
  simp only [List.all_eq_true, List.mem_map, forall_exists_index, and_imp, forall_apply_eq_imp_iff₂, xcase_ok_iff,
    Bool.and_eq_true, Bool.not_eq_true']

-- non-vacuity: the only failing case sits four suites deep
example : allSucceeded ((XSuite.mk [⟨"c", "a", false, false, false, 0, 0, 0, 0⟩]
    [XSuite.mk [] [XSuite.mk [] [XSuite.mk [⟨"c", "deep", true, false, false, 0, 0, 0, 0⟩] []]]]).casesMode C26.nestedTraversal)
    = false := by decide

/-- A traversal that only visits the direct child suites (what a worklist that ranges over a snapshot does) loses
    the cases three or more levels down; the verdict turns green.  (Statement about the mode "direct".) -/
theorem C26_direct_children_only_drops_deep_cases :
    ∃ s : XSuite, allSucceeded (s.casesMode "direct") = true ∧ allSucceeded (s.casesMode "recursive") = false :=
  ⟨XSuite.mk [] [XSuite.mk [] [XSuite.mk [⟨"c", "deep", true, false, false, 0, 0, 0, 0⟩] []]], by decide, by decide⟩

/-- Before the repair (`nestedSuiteField = false`) the cases of a `<testsuite>` nested inside a `<testsuite>`
    disappeared, here a failing one, and the verdict turned green.  (Statement about the OLD fact value.) -/
theorem C26_old_nested_suite_dropped :
    ∃ s : XSuite, allSucceeded (s.cases false) = true ∧ allSucceeded (s.cases true) = false :=
  ⟨XSuite.mk [⟨"c", "a", false, false, false, 0, 0, 0, 0⟩] [XSuite.mk [⟨"c", "b", true, false, false, 0, 0, 0, 0⟩] []],
   by decide, by decide⟩

/-- The code of this run copies both names into the synthetic case of a bare top-level `<testcase>`. -/
theorem C26_bare_case_reported (x : XCase) : bareCase C26.bareCaseFields x = x.toCase := by
  have hf : C26.bareCaseFields = ["ClassName", "Name"] := by decide
  rw [hf]; simp [bareCase]

/-- Before the repair (`bareCaseFields = []`) such a case kept its outcome but lost its name and class name.
    (Statement about the OLD fact value.) -/
theorem C26_old_bare_names_dropped :
    ∃ x : XCase, x.name ≠ "" ∧ (bareCase [] x).name = "" ∧ (bareCase [] x).execs = x.toCase.execs :=
  ⟨⟨"pkg.C", "test_a", true, false, false, 0, 0, 0, 0⟩, by decide, by decide, by decide⟩

/-- With both fields copied the case is reported as written. -/
theorem C26_bare_fixed (x : XCase) : bareCase ["ClassName", "Name"] x = x.toCase := by
  simp [bareCase]

/-- `go test -v`: a test that was started but has no result line (timeout, os.Exit, crash) is `gtr.Unknown`;
    the switch of this run turns it into an error, so it can never count as a success. -/
theorem C26_go_unfinished_is_error : goExec C26.goSets GoResult.unknown = Exec.err := by decide

/-- Before the repair the switch had no clause for it and the execution counted as a success.
    (Statement about the OLD fact value.) -/
theorem C26_old_go_unknown_was_pass :
    (goExec [("Fail", "Failure"), ("Skip", "Skip"), ("Pass", "")] GoResult.unknown).isSuccess = true := by decide

/-- With a clause for it (either `case gtr.Unknown` or `default`) that sets Error, it is an error. -/
theorem C26_go_unknown_fixed (sets : List (String × String))
    (h : sets = [("Fail", "Failure"), ("Skip", "Skip"), ("Pass", ""), ("default", "Error")]) :
    goExec sets GoResult.unknown = Exec.err := by subst h; decide

end PlzVerif.Props.C26
