import PlzVerif.Lemmas.GC
import PlzVerif.Lemmas.GCTests
import PlzVerif.Generated.C25
/-!
C25  Garbage collection never removes anything still needed.

`Needed G Q t` (Lemmas/GCTests.lean): `t` is a kept root or something a kept root transitively depends on, where the
kept roots are the non-test binaries (all binaries with `--conservative`), targets with a kept label, named targets,
registered subincludes, command-line targets, and — without `--conservative` — every test of a needed target (least
fixpoint).  The property: nothing `Needed` is proposed for removal (nor the rule of a needed hidden sub-target, which
would disappear with it), and no file that a `Needed` target uses as a source or as data is proposed for deletion.

The pinned code violated it in four ways (gc_sibling redirection, data files, rules of needed sub-targets, single-pass
test handling); all four were repaired in /repo with `fix:` commits and the theorems below are about the repaired
code: `C25_targets`, `C25_subtargets`, `C25_srcs` hold at full strength for every graph.  The old witnesses live on as
`corpus/C25/fixed-*.ops`, replayed on every run, and as the `example`s below showing the repaired behaviour.
-/
namespace PlzVerif.Props.C25
open PlzVerif.GC

/-- Side condition on the regenerated facts (decidable): the passes of `targetsToRemove` in order (root test, subincludes,
command-line targets, test pass, keepSrcs, removal test, sorting), `addTarget`, `publicDependencies`, `gcSibling`,
`isIncluded`, with parameters named by position and locals by order of declaration. -/
def FactsOK : Bool :=
  PlzVerif.Generated.C25.passes ==
    ["KEEP := targetMap{}",
     "range GRAPH.AllTargets() { if (v01.IsBinary && (!v01.IsTest() || INCLUDETESTS)) || v01.HasAnyLabel(KEEPLABELS) || anyInclude(NAMED, v01.Label) || v01.Label.Subrepo != \"\" { addTarget(GRAPH, KEEP, v01) } }",
     "range GRAPH.PackageMap() { for _, v02 := range v01.Subincludes { addTarget(GRAPH, KEEP, GRAPH.TargetOrDie(v02)) } }",
     "range ARGS { if v01.IsAllSubpackages() { for _, v02 := range GRAPH.PackageMap() { if v02.IsIncludedIn(v01) { for _, v01 := range v02.AllTargets() { addTarget(GRAPH, KEEP, v01) } } } } else { addTarget(GRAPH, KEEP, GRAPH.Target(v01)) } }",
     "if !INCLUDETESTS { for v01 := true; v01; { v02 := len(KEEP) for _, v03 := range GRAPH.AllTargets() { if v03.IsTest() { for _, v04 := range publicDependencies(GRAPH, v03) { if KEEP[v04] && !v04.TestOnly { addTarget(GRAPH, KEEP, v03) } else if v04.TestOnly { addTarget(GRAPH, KEEP, v04) } } } } v01 = len(KEEP) != v02 } }",
     "KEEPSRCS := map[string]bool{}",
     "range KEEP { for _, v02 := range v01.AllLocalSourcePaths() { KEEPSRCS[v02] = true } ; for _, v03 := range v01.AllData() { if v04, v05 := v03.(core.FileLabel); v05 { KEEPSRCS[v04.Paths(GRAPH)[0]] = true } } }",
     "RET := make(core.BuildLabels, 0, len(KEEP))",
     "RETSRCS := []string{}",
     "range GRAPH.AllTargets() { if v02 := gcSibling(GRAPH, v01); !v02.HasParent() && !KEEP[v02] && !KEEP[v01] && isIncluded(v02, FILTER) { RET = append(RET, v01.Label) for _, v03 := range v01.AllLocalSourcePaths() { if !KEEPSRCS[v03] { RETSRCS = append(RETSRCS, v03) } } } }",
     "sort.Sort(RET)",
     "sort.Strings(RETSRCS)",
     "return RET, RETSRCS"] &&
  PlzVerif.Generated.C25.addTarget ==
    ["if M[T] || T == nil { return }",
     "M[T] = true",
     "for _, v01 := range T.DeclaredDependencies() { addTarget(GRAPH, M, GRAPH.Target(v01)) }",
     "for _, v01 := range T.Dependencies() { addTarget(GRAPH, M, v01) }",
     "if T.Label.HasParent() { addTarget(GRAPH, M, GRAPH.Target(T.Label.Parent())) }",
     "if T.Subrepo != nil && T.Subrepo.Target != nil { addTarget(GRAPH, M, T.Subrepo.Target) }"] &&
  PlzVerif.Generated.C25.publicDependencies ==
    ["v01 := []*core.BuildTarget{}",
     "for _, v02 := range T.DeclaredDependencies() { if v03 := GRAPH.Target(v02); v03 != nil { if v03.Label.Parent() == T.Label.Parent() { v01 = append(v01, publicDependencies(GRAPH, v03)...) } else { v01 = append(v01, v03) } } }",
     "if T.Subrepo != nil && T.Subrepo.Target != nil { v01 = append(v01, T.Subrepo.Target) }",
     "return v01"] &&
  PlzVerif.Generated.C25.gcSibling ==
    ["for _, v01 := range T.PrefixedLabels(\"gc_sibling:\") { if v02 := GRAPH.Target(core.NewBuildLabel(T.Label.PackageName, v01)); v02 != nil { return v02 } }",
     "return T"] &&
  PlzVerif.Generated.C25.isIncluded ==
    ["if len(FILTER) == 0 { return true }",
     "for _, v01 := range FILTER { if v01.Includes(T.Label) { return true } }",
     "return false"]

set_option maxRecDepth 100000 in
/-- Obligation a code change can break. -/
theorem C25_facts_ok : FactsOK = true := by decide

/-- The property, part 1: no needed target is proposed for removal. -/
def SafeTargets : Prop := ∀ (G : Graph) (Q : Query) (ts fs : List Nat),
  targetsToRemove G Q = some (ts, fs) → ∀ t ∈ ts, ¬ Needed G Q t

/-- Part 1, effect: removing a rule from its BUILD file removes its hidden sub-targets with it. -/
def SafeSubtargets : Prop := ∀ (G : Graph) (Q : Query) (ts fs : List Nat),
  targetsToRemove G Q = some (ts, fs) → ∀ c, Needed G Q c → G.hasParent c = true → G.pl c ∉ ts

/-- The property, part 2: no file a needed target uses (source or data) is proposed for deletion. -/
def SafeSrcs : Prop := ∀ (G : Graph) (Q : Query) (ts fs : List Nat),
  targetsToRemove G Q = some (ts, fs) → ∀ f ∈ fs, ∀ k, Needed G Q k → f ∉ G.srcs k ∧ f ∉ G.data k

theorem result_split {G : Graph} {Q : Query} {ts fs : List Nat} (h : targetsToRemove G Q = some (ts, fs)) :
    (keepSet G Q).oof = false ∧ ts = removeTargets G Q (keepSet G Q).keep ∧ fs = removeSrcs G Q (keepSet G Q).keep := by
  unfold targetsToRemove at h
  simp only at h
  split at h
  · cases h
  · rename_i ho
    simp only [Option.some.injEq, Prod.mk.injEq] at h
    exact ⟨by simpa using ho, h.1.symm, h.2.symm⟩

/-- No needed target is proposed for removal (full: every graph, `gc_sibling` labels, tests of tests, any arguments). -/
theorem C25_targets : SafeTargets := by
  intro G Q ts fs h t ht hn
  obtain ⟨ho, rfl, _⟩ := result_split h
  exact removable_not_kept (List.mem_filter.mp ht).2 (needed_kept G Q ho t hn)

/-- The rule of a needed hidden sub-target is not proposed for removal either. -/
theorem C25_subtargets : SafeSubtargets := by
  intro G Q ts fs h c hn hp hin
  obtain ⟨ho, rfl, _⟩ := result_split h
  obtain ⟨hnodes, hrm⟩ := List.mem_filter.mp hin
  exact removable_not_kept hrm ((keepSet_spec G Q ho).1 c (needed_kept G Q ho c hn) _ (Or.inr ⟨hp, rfl, hnodes⟩))

/-- No file that a needed target uses, as a source or as data, is proposed for deletion. -/
theorem C25_srcs : SafeSrcs := by
  intro G Q ts fs h f hf k hn
  obtain ⟨ho, _, rfl⟩ := result_split h
  exact removeSrcs_not_kept hf k (needed_kept G Q ho k hn)

/-- With `--conservative` the model never reaches a recursion bound on a graph that holds its dependencies: the
result is always `some …`. -/
theorem C25_fuel_conservative (G : Graph) (hwf : GWF G) (Q : Query) (hc : Q.includeTests = true)
    (hs : ∀ t ∈ Q.subincs, t ∈ G.nodes) (ha : ∀ t ∈ Q.args, t ∈ G.nodes) : ∃ ts fs, targetsToRemove G Q = some (ts, fs) := by
  unfold targetsToRemove
  simp only [keepSet_fuel_conservative G hwf Q hc hs ha, Bool.false_eq_true, ite_false]
  exact ⟨_, _, rfl⟩

/-- Without `--conservative` too: on a graph that holds its dependencies and whose dependencies inside one rule are
acyclic (`RuleRank`, true of every graph that passed cycle detection, C06), the model never reaches a bound — the result
is always `some …`, so the three theorems above cover every such run.  (The real `publicDependencies` has no visited
set: on a cycle inside one rule it does not terminate.) -/
theorem C25_fuel (G : Graph) (hwf : GWF G) (Q : Query) (rank : Nat → Nat) (hr : RuleRank G rank)
    (hb : ∀ t ∈ G.nodes, rank t ≤ G.nodes.length)
    (hs : ∀ t ∈ Q.subincs, t ∈ G.nodes) (ha : ∀ t ∈ Q.args, t ∈ G.nodes) : ∃ ts fs, targetsToRemove G Q = some (ts, fs) := by
  have hpd : ∀ t ∈ G.nodes, pubDeps G (G.nodes.length + 1) t ≠ none :=
    fun t ht => pubDeps_terminates G rank hr _ t (by have := hb t ht; omega)
  unfold targetsToRemove
  simp only [keepSet_fuel G hwf Q hpd hs ha, Bool.false_eq_true, ite_false]
  exact ⟨_, _, rfl⟩

/-- a_test(3) tests lib1(1); z_test(4) tests klib(2) and lib1; bin(0) uses klib -/
def gT0 : Graph := { nodes := [3, 0, 2, 1, 4],
                     decl := fun | 0 => [2] | 3 => [1] | 4 => [2, 1] | _ => [], res := fun | 0 => [2] | 3 => [1] | 4 => [2, 1] | _ => [],
                     isBinary := fun | 0 => true | 3 => true | 4 => true | _ => false, isTest := fun | 3 => true | 4 => true | _ => false,
                     testOnly := fun _ => false, keepLabel := fun _ => false, hasParent := fun _ => false, pl := id,
                     sibs := fun _ => [], srcs := fun _ => [], data := fun _ => [] }

/-- An acyclic graph has a rank function that strictly decreases along the dependencies `publicDependencies` follows,
bounded by the number of targets (the hypothesis of `C25_fuel`). -/
theorem C25_ruleRank_of_acyclic (G : Graph) (hwf : GWF G) (hac : RuleAcyclic G) :
    ∃ rank : Nat → Nat, (∀ t ∈ G.nodes, ∀ d, RuleEdge G t d → rank d < rank t) ∧ ∀ t ∈ G.nodes, rank t ≤ G.nodes.length :=
  ruleRank_of_acyclic G hwf hac

/-- Unconditional for acyclic graphs: on a graph that holds its dependencies and has no dependency cycle inside one
rule (every graph that passed cycle detection), `targetsToRemove` always produces a result, and that result proposes
no needed target, no rule of a needed hidden sub-target, and no file a needed target uses. -/
theorem C25_main_acyclic (G : Graph) (hwf : GWF G) (hac : RuleAcyclic G) (Q : Query)
    (hs : ∀ t ∈ Q.subincs, t ∈ G.nodes) (ha : ∀ t ∈ Q.args, t ∈ G.nodes) :
    ∃ ts fs, targetsToRemove G Q = some (ts, fs) ∧
      (∀ t ∈ ts, ¬ Needed G Q t) ∧
      (∀ c, Needed G Q c → G.hasParent c = true → G.pl c ∉ ts) ∧
      (∀ f ∈ fs, ∀ k, Needed G Q k → f ∉ G.srcs k ∧ f ∉ G.data k) := by
  have hpd : ∀ t ∈ G.nodes, pubDeps G (G.nodes.length + 1) t ≠ none := fun t ht =>
    pubDeps_terminates_acyclic G hwf hac _ t [] ht List.nodup_nil (by simp) (by simp)
  have ho := keepSet_fuel G hwf Q hpd hs ha
  have he : targetsToRemove G Q = some (removeTargets G Q (keepSet G Q).keep, removeSrcs G Q (keepSet G Q).keep) := by
    unfold targetsToRemove
    simp only [ho, Bool.false_eq_true, ite_false]
  exact ⟨_, _, he, C25_targets G Q _ _ he, C25_subtargets G Q _ _ he, C25_srcs G Q _ _ he⟩

-- non-vacuity: the test-order graph is acyclic and holds its dependencies
example : GWF gT0 ∧ RuleAcyclic gT0 := by
  refine ⟨by unfold GWF; decide, ?_⟩
  intro t p
  -- no two different targets of gT0 share a parent label, so there is no rule edge at all
  have hno : ∀ a b, ¬ RuleEdge gT0 a b := by
    intro a b ⟨hd, hpl⟩
    have : b = a := hpl
    subst this
    unfold gT0 at hd
    simp only at hd
    split at hd <;> simp at hd
  cases p with
  | single e => exact hno _ _ e
  | cons e _ => exact hno _ _ e

/-! ## the four repaired shapes -/

def noB : Nat → Bool := fun _ => false
def noL : Nat → List Nat := fun _ => []
def Q0 : Query := { filter := [], args := [], named := [], subincs := [], includeTests := false }

/-- `gc-sibling-overrides-keep` (fixed): binary `bin` depends on `lib`, which carries the label `gc_sibling:unused`; only
the unused sibling goes. -/
def gS : Graph := { nodes := [0, 1, 2], decl := fun | 0 => [1] | _ => [], res := fun | 0 => [1] | _ => [],
                     isBinary := fun | 0 => true | _ => false, isTest := noB, testOnly := noB, keepLabel := noB, hasParent := noB,
                     pl := id, sibs := fun | 1 => [2] | _ => [], srcs := noL, data := noL }

example : targetsToRemove gS Q0 = some ([2], []) := by decide

/-- `gc-test-of-later-kept-target` (fixed): `a_test` tests `lib1`; `lib1` is needed only because `z_test` (a test of the
needed `klib`) also depends on it.  Label order: a_test(3), bin(0), klib(2), lib1(1), z_test(4).  The second pass keeps `a_test`. -/
def gT : Graph := { nodes := [3, 0, 2, 1, 4],
                     decl := fun | 0 => [2] | 3 => [1] | 4 => [2, 1] | _ => [], res := fun | 0 => [2] | 3 => [1] | 4 => [2, 1] | _ => [],
                     isBinary := fun | 0 => true | 3 => true | 4 => true | _ => false, isTest := fun | 3 => true | 4 => true | _ => false,
                     testOnly := noB, keepLabel := noB, hasParent := noB, pl := id, sibs := noL, srcs := noL, data := noL }

example : targetsToRemove gT Q0 = some ([], []) := by decide

/-- non-vacuity of `C25_targets`: `a_test` is needed through the test rule applied twice -/
example : Needed gT Q0 3 := by
  have h0 : Needed gT Q0 0 := .root (Or.inl ⟨by decide, by decide⟩)
  have h2 : Needed gT Q0 2 := .dep h0 (Or.inl (by decide))
  have h4 : Needed gT Q0 4 := .test rfl (by decide) rfl (.direct (d := 2) (by decide) (by decide)) h2 rfl
  have h1 : Needed gT Q0 1 := .dep h4 (Or.inl (by decide))
  exact .test rfl (by decide) rfl (.direct (d := 1) (by decide) (by decide)) h1 rfl

/-- `gc-rule-of-needed-subtarget-removed` (fixed): `bin` uses `_gen#out` directly; the rule `gen` stays with its sub-target. -/
def gH : Graph := { nodes := [2, 0, 1], decl := fun | 0 => [2] | 1 => [2] | _ => [], res := fun | 0 => [2] | 1 => [2] | _ => [],
                     isBinary := fun | 0 => true | _ => false, isTest := noB, testOnly := noB, keepLabel := noB,
                     hasParent := fun | 2 => true | _ => false, pl := fun | 2 => 1 | n => n, sibs := noL, srcs := noL, data := noL }

example : targetsToRemove gH Q0 = some ([], []) := by decide

-- non-vacuity of `C25_fuel`: a graph with a rule-internal edge (`gen` → `_gen#out`) has a rank function within the bound
example : GWF gH ∧ RuleRank gH (fun | 1 => 1 | _ => 0) ∧
    ∀ t ∈ gH.nodes, (fun | 1 => 1 | _ => 0 : Nat → Nat) t ≤ gH.nodes.length := by
  refine ⟨by unfold GWF; decide, ?_, by decide⟩
  intro t d hd hp
  match t, hd, hp with
  | 0, hd, hp => simp [gH] at hd; subst hd; simp [gH] at hp
  | 1, hd, hp => simp [gH] at hd; subst hd; simp
  | (n+2), hd, hp => simp [gH] at hd

/-- `gc-data-file-not-kept` (fixed): `shared.txt` (file 2) is a data file of the binary `bin` and a source of the unused
`old`; only `old.go` (file 1) goes. -/
def gD : Graph := { nodes := [0, 1], decl := noL, res := noL, isBinary := fun | 0 => true | _ => false, isTest := noB,
                     testOnly := noB, keepLabel := noB, hasParent := noB, pl := id, sibs := noL,
                     srcs := fun | 0 => [0] | 1 => [2, 1] | _ => [], data := fun | 0 => [2] | _ => [] }

example : targetsToRemove gD Q0 = some ([1], [1]) := by decide

-- a run that removes something while keeping a non-trivial closure
example : (keepSet gS Q0).keep = [1, 0] := by decide
example : targetsToRemove gT { Q0 with includeTests := true } = some ([], []) := by decide

end PlzVerif.Props.C25
