import PlzVerif.Lemmas.GC
import PlzVerif.Generated.C25
/-!
C25  Garbage collection never removes anything still needed.

`Needed G Q t`: `t` is a kept root or something a kept root transitively depends on, where the kept roots are the
non-test binaries (all binaries with `--conservative`), targets with a kept label, named targets, registered
subincludes, command-line targets, and — without `--conservative` — every test of a needed target (least
fixpoint).  The property: nothing `Needed` is proposed for removal, and no file that a `Needed` target uses as a
source or as data is proposed for deletion.

The code violates it in four ways (witnesses below, replayed on the real code from corpus/C25/known-*.ops);
the partial theorems say exactly what does hold: nothing reachable from an initial
root is proposed for removal (with `--conservative` that is all of `Needed`), and no source or data file of a kept
target is proposed for deletion.
-/
namespace PlzVerif.Props.C25
open PlzVerif.GC

/-- Side condition on the regenerated facts (decidable): the passes of `targetsToRemove` in order (root test, subincludes,
command-line targets, test pass, keepSrcs, removal test, sorting), `addTarget`, `publicDependencies`, `gcSibling`,
`isIncluded`, with parameters named by position and locals by order of declaration. -/
def FactsOK : Bool :=
  PlzVerif.Generated.C25.passes ==
    ["range GRAPH.AllTargets() { if (v01.IsBinary && (!v01.IsTest() || INCLUDETESTS)) || v01.HasAnyLabel(KEEPLABELS) || anyInclude(NAMED, v01.Label) || v01.Label.Subrepo != \"\" { addTarget(GRAPH, KEEP, v01) } }",
     "range GRAPH.PackageMap() { for _, v02 := range v01.Subincludes { addTarget(GRAPH, KEEP, GRAPH.TargetOrDie(v02)) } }",
     "range ARGS { if v01.IsAllSubpackages() { for _, v02 := range GRAPH.PackageMap() { if v02.IsIncludedIn(v01) { for _, v01 := range v02.AllTargets() { addTarget(GRAPH, KEEP, v01) } } } } else { addTarget(GRAPH, KEEP, GRAPH.Target(v01)) } }",
     "if !INCLUDETESTS { for _, v01 := range GRAPH.AllTargets() { if v01.IsTest() { for _, v02 := range publicDependencies(GRAPH, v01) { if KEEP[v02] && !v02.TestOnly { addTarget(GRAPH, KEEP, v01) } else if v02.TestOnly { addTarget(GRAPH, KEEP, v02) } } } } }",
     "range KEEP { for _, v02 := range v01.AllLocalSourcePaths() { KEEPSRCS[v02] = true } ; for _, v03 := range v01.AllData() { if v04, v05 := v03.(core.FileLabel); v05 { KEEPSRCS[v04.Paths(GRAPH)[0]] = true } } }",
     "range GRAPH.AllTargets() { if v02 := gcSibling(GRAPH, v01); !v02.HasParent() && !KEEP[v02] && !KEEP[v01] && isIncluded(v02, FILTER) { RET = append(RET, v01.Label) for _, v03 := range v01.AllLocalSourcePaths() { if !KEEPSRCS[v03] { RETSRCS = append(RETSRCS, v03) } } } }",
     "sort.Sort(RET)",
     "sort.Strings(RETSRCS)",
     "return RET, RETSRCS"] &&
  PlzVerif.Generated.C25.addTarget ==
    ["if M[T] || T == nil { return }",
     "M[T] = true",
     "for _, v01 := range T.DeclaredDependencies() { addTarget(GRAPH, M, GRAPH.Target(v01)) }",
     "for _, v01 := range T.Dependencies() { addTarget(GRAPH, M, v01) }",
     "if T.Label.HasParent() { addTarget(GRAPH, M, GRAPH.Target(T.Label.Parent())) }",
     "if T.Subrepo != nil && T.Subrepo.Target != nil { addTarget(GRAPH, M, T.Subrepo.Target) }"] &&
  PlzVerif.Generated.C25.publicDependencies ==
    ["v01 := []*core.BuildTarget{}",
     "for _, v02 := range T.DeclaredDependencies() { if v03 := GRAPH.Target(v02); v03 != nil { if v03.Label.Parent() == T.Label.Parent() { v01 = append(v01, publicDependencies(GRAPH, v03)...) } else { v01 = append(v01, v03) } } }",
     "if T.Subrepo != nil && T.Subrepo.Target != nil { v01 = append(v01, T.Subrepo.Target) }",
     "return v01"] &&
  PlzVerif.Generated.C25.gcSibling ==
    ["for _, v01 := range T.PrefixedLabels(\"gc_sibling:\") { if v02 := GRAPH.Target(core.NewBuildLabel(T.Label.PackageName, v01)); v02 != nil { return v02 } }",
     "return T"] &&
  PlzVerif.Generated.C25.isIncluded ==
    ["if len(FILTER) == 0 { return true }",
     "for _, v01 := range FILTER { if v01.Includes(T.Label) { return true } }",
     "return false"]

set_option maxRecDepth 100000 in
/-- Obligation a code change can break. -/
theorem C25_facts_ok : FactsOK = true := by decide

/-- `d` is a public dependency of `t`: reached through `t`'s own rule (targets with the same `Parent()` label),
first target outside it -/
inductive PubDep (G : Graph) : Nat → Nat → Prop
  | direct {t d : Nat} : d ∈ G.decl t → G.pl d ≠ G.pl t → PubDep G t d
  | via {t m d : Nat} : m ∈ G.decl t → G.pl m = G.pl t → PubDep G m d → PubDep G t d

inductive Needed (G : Graph) (Q : Query) : Nat → Prop
  | root {t : Nat} : Root0 G Q t → Needed G Q t
  | dep {a b : Nat} : Needed G Q a → Dep G a b → Needed G Q b
  | test {t d : Nat} : Q.includeTests = false → t ∈ G.nodes → G.isTest t = true → PubDep G t d → Needed G Q d →
      G.testOnly d = false → Needed G Q t

/-- The property, part 1: no needed target is proposed for removal. -/
def SafeTargets : Prop := ∀ (G : Graph) (Q : Query) (ts fs : List Nat),
  targetsToRemove G Q = some (ts, fs) → ∀ t ∈ ts, ¬ Needed G Q t

/-- Part 1, effect: removing a rule from its BUILD file removes its hidden sub-targets with it. -/
def SafeSubtargets : Prop := ∀ (G : Graph) (Q : Query) (ts fs : List Nat),
  targetsToRemove G Q = some (ts, fs) → ∀ c, Needed G Q c → G.hasParent c = true → G.pl c ∉ ts

/-- The property, part 2: no file a needed target uses (source or data) is proposed for deletion. -/
def SafeSrcs : Prop := ∀ (G : Graph) (Q : Query) (ts fs : List Nat),
  targetsToRemove G Q = some (ts, fs) → ∀ f ∈ fs, ∀ k, Needed G Q k → f ∉ G.srcs k ∧ f ∉ G.data k

theorem needed_of_reach {G : Graph} {Q : Query} {r x : Nat} (hr : Needed G Q r) (p : Reach G r x) : Needed G Q x := by
  induction p with
  | refl => exact hr
  | step e _ ih => exact ih (.dep hr e)

theorem reach_snoc {G : Graph} {r a b : Nat} (p : Reach G r a) (e : Dep G a b) : Reach G r b := by
  induction p with
  | refl => exact .step e (.refl _)
  | step e' _ ih => exact .step e' (ih e)

/-! ## what holds -/

/-- Partial (holds for every graph, `gc_sibling` labels included since the repair of `gc-sibling-overrides-keep`):
nothing that an initial root (binary, kept label, named, subinclude, command-line target) transitively depends on is
proposed for removal. -/
theorem C25_targets_partial (G : Graph) (Q : Query) (ts fs : List Nat) (h : targetsToRemove G Q = some (ts, fs)) :
    ∀ t ∈ ts, ¬ ∃ r, Root0 G Q r ∧ Reach G r t := by
  unfold targetsToRemove at h
  simp only at h
  split at h
  · cases h
  · rename_i ho
    simp only [Option.some.injEq, Prod.mk.injEq] at h
    obtain ⟨rfl, _⟩ := h
    rintro t ht ⟨r, hr, p⟩
    have hk := keepSet_reach G Q (by simpa using ho) r t hr p
    unfold removeTargets at ht
    exact removable_not_kept (List.mem_filter.mp ht).2 hk

/-- With `--conservative` the test rule is void, so the partial theorem is the full statement:
no needed target is proposed for removal. -/
theorem C25_targets_conservative_partial (G : Graph) (Q : Query) (ts fs : List Nat)
    (h : targetsToRemove G Q = some (ts, fs)) (hc : Q.includeTests = true) :
    ∀ t ∈ ts, ¬ Needed G Q t := by
  intro t ht hn
  apply C25_targets_partial G Q ts fs h t ht
  clear ht
  induction hn with
  | root hr => exact ⟨_, hr, .refl _⟩
  | dep _ e ih =>
    obtain ⟨r, hr, p⟩ := ih
    exact ⟨r, hr, reach_snoc p e⟩
  | test hf => rw [hc] at hf; cases hf

/-- With `--conservative` the model never reaches a recursion bound on a graph that holds its dependencies: the
result is always `some …`, so the theorem above covers every such run. -/
theorem C25_fuel_conservative (G : Graph) (hwf : GWF G) (Q : Query) (hc : Q.includeTests = true)
    (hs : ∀ t ∈ Q.subincs, t ∈ G.nodes) (ha : ∀ t ∈ Q.args, t ∈ G.nodes) : ∃ ts fs, targetsToRemove G Q = some (ts, fs) := by
  unfold targetsToRemove
  simp only [keepSet_fuel_conservative G hwf Q hc hs ha, Bool.false_eq_true, ite_false]
  exact ⟨_, _, rfl⟩

/-- Partial (since the repair of `gc-rule-of-needed-subtarget-removed`): the rule of a hidden sub-target that an initial
root depends on is not proposed for removal either (removing the rule would remove the sub-target with it). -/
theorem C25_subtargets_partial (G : Graph) (Q : Query) (ts fs : List Nat) (h : targetsToRemove G Q = some (ts, fs)) :
    ∀ r c, Root0 G Q r → Reach G r c → G.hasParent c = true → G.pl c ∉ ts := by
  unfold targetsToRemove at h
  simp only at h
  split at h
  · cases h
  · rename_i ho
    simp only [Option.some.injEq, Prod.mk.injEq] at h
    obtain ⟨rfl, _⟩ := h
    intro r c hr p hp hin
    have ho' : (keepSet G Q).oof = false := by simpa using ho
    have hk := keepSet_reach G Q ho' r c hr p
    unfold removeTargets at hin
    obtain ⟨hn, hrm⟩ := List.mem_filter.mp hin
    exact removable_not_kept hrm ((keepSet_spec G Q ho').1 c hk _ (Or.inr ⟨hp, rfl, hn⟩))

/-- Partial: no file that a target below an initial root uses — as a source or (since the repair of
`gc-data-file-not-kept`) as data — is proposed for deletion. -/
theorem C25_srcs_partial (G : Graph) (Q : Query) (ts fs : List Nat) (h : targetsToRemove G Q = some (ts, fs)) :
    ∀ f ∈ fs, ∀ r k, Root0 G Q r → Reach G r k → f ∉ G.srcs k ∧ f ∉ G.data k := by
  unfold targetsToRemove at h
  simp only at h
  split at h
  · cases h
  · rename_i ho
    simp only [Option.some.injEq, Prod.mk.injEq] at h
    obtain ⟨_, rfl⟩ := h
    intro f hf r k hr p
    exact removeSrcs_not_kept hf k (keepSet_reach G Q (by simpa using ho) r k hr p)

/-! ## what fails -/

def noB : Nat → Bool := fun _ => false
def noL : Nat → List Nat := fun _ => []
def Q0 : Query := { filter := [], args := [], named := [], subincs := [], includeTests := false }

/-- the shape of the repaired finding `gc-sibling-overrides-keep` (fixed): binary `bin` depends on `lib`, which carries
the label `gc_sibling:unused`; only the unused sibling goes. -/
def gS : Graph := { nodes := [0, 1, 2], decl := fun | 0 => [1] | _ => [], res := fun | 0 => [1] | _ => [],
                     isBinary := fun | 0 => true | _ => false, isTest := noB, testOnly := noB, keepLabel := noB, hasParent := noB,
                     pl := id, sibs := fun | 1 => [2] | _ => [], srcs := noL, data := noL }

example : targetsToRemove gS Q0 = some ([2], []) := by decide

/-- witness 2 (known finding `gc-test-of-later-kept-target`): `a_test` tests `lib1`; `lib1` is needed only because
`z_test` (a test of the needed `klib`) also depends on it.  Tests are examined once, in label order, so `a_test` is
looked at before `lib1` is kept.  Label order: a_test(3), bin(0), klib(2), lib1(1), z_test(4). -/
def gT : Graph := { nodes := [3, 0, 2, 1, 4],
                     decl := fun | 0 => [2] | 3 => [1] | 4 => [2, 1] | _ => [], res := fun | 0 => [2] | 3 => [1] | 4 => [2, 1] | _ => [],
                     isBinary := fun | 0 => true | 3 => true | 4 => true | _ => false, isTest := fun | 3 => true | 4 => true | _ => false,
                     testOnly := noB, keepLabel := noB, hasParent := noB, pl := id, sibs := noL, srcs := noL, data := noL }

theorem C25_witness_test_order : ∃ ts fs, targetsToRemove gT Q0 = some (ts, fs) ∧ 3 ∈ ts ∧ Needed gT Q0 3 := by
  refine ⟨[3], [], by decide, by decide, ?_⟩
  have h0 : Needed gT Q0 0 := .root (Or.inl ⟨by decide, by decide⟩)
  have h2 : Needed gT Q0 2 := .dep h0 (Or.inl (by decide))
  have h4 : Needed gT Q0 4 := .test rfl (by decide) rfl (.direct (d := 2) (by decide) (by decide)) h2 rfl
  have h1 : Needed gT Q0 1 := .dep h4 (Or.inl (by decide))
  exact .test rfl (by decide) rfl (.direct (d := 1) (by decide) (by decide)) h1 rfl

/-- The property (part 1) does not hold. -/
theorem C25_not_safe_targets : ¬ SafeTargets := by
  intro h
  obtain ⟨ts, fs, he, hm, hn⟩ := C25_witness_test_order
  exact h gT Q0 ts fs he 3 hm hn

/-- the shape of the repaired finding `gc-rule-of-needed-subtarget-removed` (fixed): `bin` uses `_gen#out` directly; the
rule `gen` stays with its sub-target. -/
def gH : Graph := { nodes := [2, 0, 1], decl := fun | 0 => [2] | 1 => [2] | _ => [], res := fun | 0 => [2] | 1 => [2] | _ => [],
                     isBinary := fun | 0 => true | _ => false, isTest := noB, testOnly := noB, keepLabel := noB,
                     hasParent := fun | 2 => true | _ => false, pl := fun | 2 => 1 | n => n, sibs := noL, srcs := noL, data := noL }

example : targetsToRemove gH Q0 = some ([], []) := by decide

/-- the shape of the repaired finding `gc-data-file-not-kept` (fixed): `shared.txt` (file 2) is a data file of the binary
`bin` and a source of the unused `old`; only `old.go` (file 1) goes. -/
def gD : Graph := { nodes := [0, 1], decl := noL, res := noL, isBinary := fun | 0 => true | _ => false, isTest := noB,
                     testOnly := noB, keepLabel := noB, hasParent := noB, pl := id, sibs := noL,
                     srcs := fun | 0 => [0] | 1 => [2, 1] | _ => [], data := fun | 0 => [2] | _ => [] }

example : targetsToRemove gD Q0 = some ([1], [1]) := by decide

-- non-vacuity of the partial theorems: a run that removes something while keeping a non-trivial closure
def gOK : Graph := { gS with sibs := noL }
example : targetsToRemove gOK Q0 = some ([2], []) := by decide
example : (keepSet gOK Q0).keep = [1, 0] := by decide
example : targetsToRemove gT { Q0 with includeTests := true } = some ([], []) := by decide

end PlzVerif.Props.C25
