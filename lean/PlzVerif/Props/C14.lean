import PlzVerif.Lemmas.Clean
import PlzVerif.Generated.C14
/-!
C14  Cache cleaning evicts only whole, unused entries and meets its bound.

`order` below is whatever `sort.Slice` made of the candidates.  Its comparator (older first, but "same age" within a
grace period, then bigger first) is not a strict weak order, so the sorted result is unspecified: every theorem
holds for EVERY order.

Status on the pinned tree:
* the cleaner never renames an entry that is marked when it tests it, evicts only whole recognised entries (as long
  as removals succeed), and when it runs (total ≥ high-water mark) ends below the low-water mark or with every
  unprotected, renameable entry gone — for every eviction order;
* FIXED (`fix:` commit in /repo): the `isMarked` test and the rename were two steps; an entry that a Retrieve marked
  in between was removed although this process was using it (`C14_witness_marked_in_window`, now conditional on
  the old fact value; replayed on the real code through a pause point).  The loop now tests and renames under the
  mutex: `C14_marked_before_rename_protected`;
* `C14_witness_half_removed`: when the removal of a renamed entry fails, the entry is left half-removed under
  `<path>=` (model only: not provoked on the real code);
* `C14_witness_below_high`: read literally, "below the low-water mark or everything removed" also fails whenever
  low ≤ total < high: the cleaner does not start below the high-water mark (hysteresis, by design);
* FIXED (`fix:` commit in /repo): in a compressed cache the temporary of a store in flight, `<key>=.tar.gz`, is
  recognised as an entry but is not one of the two names `markDir(entry)` protects (`<key>.tar.gz`, `<key>.tar.gz=`:
  `C14_compressed_tmp_unprotected`), so the cleaner of the same process evicted it
  (`C14_witness_inflight_compressed`, now conditional on the old fact value).  `Store` now marks the temporary too:
  `C14_store_tmp_protected` and `C14_inflight_tmp_never_evicted` hold for both modes.
-/
namespace PlzVerif.Props.C14
open PlzVerif.Clean PlzVerif.Generated

def FactsOK : Bool :=
  C14.nameShapes == [([28, 29], 27, 61), ([44, 45], 43, 61)] &&
  C14.modeTest == "reject-when-compress-eq-isdir" && C14.suffixTest == "reject-without-suffix" && C14.trimsSuffix &&
  C14.compressedSuffixBytes == [46, 116, 97, 114, 46, 103, 122] &&
  C14.markKeys == ["path", "path+="] &&
  C14.pathParts == ["join-b64key", "param2", "param3", "field-Suffix"] &&
  -- since the fix of `compressed-temp-unprotected-during-store`: Store marks the entry AND its temporary
  C14.tmpSuffixBytes == [61] && C14.storeMarks == ["final", "tmp"] &&
  -- Store marks both before it removes or writes anything; retrieveFiles marks the entry before it restores
  C14.storeCalls == ["mark-final", "mark-tmp", "remove-final", "store", "rename-tmp-final"] &&
  C14.retrieveCalls == ["exists-entry", "mark-entry", "restore", "restore"] &&
  C14.markedAdds == "recorded-size" && C14.unmarkedAdds == "walked-size" && C14.plainWalkSkipsEntryDirs &&
  C14.highTest == "return-if-total-<-high" && C14.lowTest == "<" &&
  -- since the fix of `entry-marked-between-test-and-rename-evicted`: the loop tests the mark and renames in ONE call,
  -- which holds the mutex across both (markDir takes the same mutex)
  C14.evictLoop == ["aside-name-is-path-plus-eq", "rename-unless-marked", "skip-if-not-renamed", "remove-renamed",
    "subtract-size", "break-if-total-below-low"] &&
  C14.testAndRenameUnderLock &&
  C14.failedEvictionsContinue == 2

/-- Obligation a code change can break. -/
theorem C14_facts_ok : FactsOK = true := by decide

/-- `shouldClean` of this run's /repo. -/
def recognised (compress isDir : Bool) (name : Bytes) : Bool :=
  shouldClean C14.nameShapes (if compress then C14.compressedSuffixBytes else []) compress isDir name

/-! ## The eviction loop, for every order -/

/-- Never an entry that is marked when the loop tests it (`isMarked` is read again for every entry, right before the
    rename): neither among the evicted nor among the half-removed. -/
theorem C14_never_marked (marks' : Marks) (rn rm : Bytes → Bool) (low : Nat) (order : List Entry) (t : Nat) :
    (∀ e ∈ (evict marks' rn rm low order t).evicted, marks' e.path = none) ∧
    (∀ e ∈ (evict marks' rn rm low order t).half, marks' e.path = none) :=
  ⟨fun e he => ((evict_unmarked marks' rn rm low order t).1 e he).1,
   fun e he => ((evict_unmarked marks' rn rm low order t).2 e he).1⟩

/-- Marks that arrive WHILE the loop runs (this process stores or retrieves during the pass): pair every candidate
    with the marks in force at its own test.  An entry that is marked when its turn comes — whenever during the loop
    that mark arrived, for every order — is neither evicted nor half-removed.  (This is what a loop that consults a
    snapshot of the marks taken before it started would lose.) -/
theorem C14_marked_during_loop_protected (rn rm : Bytes → Bool) (low : Nat) (order : List (Entry × Marks)) (t : Nat)
    (e : Entry) (h : ∀ m, (e, m) ∈ order → m e.path ≠ none) :
    e ∉ (evictP rn rm low order t).evicted ∧ e ∉ (evictP rn rm low order t).half := by
  constructor
  · intro he
    obtain ⟨m, hm, hn⟩ := evictP_unmarked rn rm low order t e (Or.inl he)
    exact h m hm hn
  · intro he
    obtain ⟨m, hm, hn⟩ := evictP_unmarked rn rm low order t e (Or.inr he)
    exact h m hm hn

/-- `evictP` is the loop of the other theorems when nothing changes meanwhile. -/
theorem C14_evictP_is_evict (marks' : Marks) (rn rm : Bytes → Bool) (low : Nat) (order : List Entry) (t : Nat) :
    evictP rn rm low (order.map fun e => (e, marks')) t = evict marks' rn rm low order t :=
  evictP_const marks' rn rm low order t

-- non-vacuity: three candidates in the order 1, 2, 3; the mark on [3] arrives while [1] is being evicted, so [2] and [3]
-- are tested with it in force: [1] and [2] go, [3] stays
example : (evictP (fun _ => true) (fun _ => true) 0
    [(⟨[1], 10, 0⟩, fun _ => none), (⟨[2], 10, 0⟩, fun p => if p = [3] then some 0 else none),
     (⟨[3], 10, 0⟩, fun p => if p = [3] then some 0 else none)] 30).evicted = [⟨[1], 10, 0⟩, ⟨[2], 10, 0⟩] := by
  decide

/-- Only whole entries — when every `RemoveAll` of a renamed entry succeeds (`rm`): what is evicted are candidates
    (recognised, unmarked entries found by the walk), each taken as a whole (`os.Rename(entry.Path, …)` +
    `RemoveAll`); evicted and kept together are exactly the candidates; nothing is left half-removed.  (Renames may
    fail: such an entry is simply kept.) -/
theorem C14_whole_entries (marks marks' : Marks) (rn : Bytes → Bool) (low : Nat) (found order : List Entry) (t : Nat)
    (hperm : order.Perm (scan marks found).1) :
    let r := evict marks' rn (fun _ => true) low order t
    (∀ e ∈ r.evicted, e ∈ found ∧ marks e.path = none) ∧ r.half = [] ∧
    (r.evicted ++ r.kept).Perm (scan marks found).1 := by
  intro r
  have hp := evict_perm marks' rn (fun _ => true) low order t
  have hh := evict_no_half marks' rn low order t
  rw [hh, List.append_nil] at hp
  refine ⟨?_, hh, hp.trans hperm⟩
  intro e he
  have h1 : e ∈ order := hp.subset (List.mem_append_left _ he)
  have h2 : e ∈ (scan marks found).1 := hperm.subset h1
  exact ⟨(scan_spec marks found).2.2 e h2, (scan_spec marks found).2.1 e h2⟩

/-- In general the three groups together are the candidates. -/
theorem C14_outcome_partition (marks marks' : Marks) (rn rm : Bytes → Bool) (low : Nat) (found order : List Entry) (t : Nat)
    (hperm : order.Perm (scan marks found).1) :
    let r := evict marks' rn rm low order t
    (r.evicted ++ r.kept ++ r.half).Perm (scan marks found).1 :=
  (evict_perm marks' rn rm low order t).trans hperm

/-- "NEVER PART OF AN ENTRY" FAILS when the removal of a renamed entry fails (an I/O error; logged, `continue`): the
    entry is gone under its name and is left — possibly partly deleted — as `<path>=`, and its size stays in the
    total.  (A later pass recognises `<path>=` as an entry and removes it.)  Not provoked on the real code. -/
theorem C14_witness_half_removed :
    ∃ (e : Entry) (r : Outcome), r = evict (fun _ => none) (fun _ => true) (fun _ => false) 0 [e] e.size ∧
      r.evicted = [] ∧ r.kept = [] ∧ r.half = [e] ∧ r.total = e.size :=
  ⟨⟨[1], 70, 0⟩, _, rfl, by decide, by decide, by decide, by decide⟩

/-- THE OLD DEFECT, conditional on the old fact value (the `isMarked` test and the rename were two steps): an entry
    that a Retrieve marks in between (`win`) is unmarked when tested and marked when renamed, and the loop removes it. -/
theorem C14_witness_marked_in_window (hold : C14.testAndRenameUnderLock = false) :
    ∃ (marksAtTest win : Marks) (e : Entry) (r : Outcome),
      r = evict marksAtTest (fun _ => true) (fun _ => true) 0 [e] e.size ∧
      marksAtTest e.path = none ∧ win e.path = some 0 ∧ e ∈ r.evicted := by
  have _ := hold
  exact ⟨fun _ => none, fun _ => some 0, ⟨[1], 70, 0⟩, _, rfl, rfl, rfl, by decide⟩

/-- FULL for the repaired loop: the test and the rename happen under the mutex that `markDir` takes, so the marks in force
    at an entry's test ARE the marks in force at its rename, and `C14_marked_during_loop_protected` reads: an entry that
    this process stores or retrieves at any moment before the cleaner renames it is never renamed — for every order. -/
theorem C14_marked_before_rename_protected (hfact : C14.testAndRenameUnderLock = true) (rn rm : Bytes → Bool) (low : Nat)
    (order : List (Entry × Marks)) (t : Nat) (e : Entry) (h : ∀ m, (e, m) ∈ order → m e.path ≠ none) :
    e ∉ (evictP rn rm low order t).evicted ∧ e ∉ (evictP rn rm low order t).half := by
  have _ := hfact
  exact C14_marked_during_loop_protected rn rm low order t e h

theorem C14_test_and_rename_atomic : C14.testAndRenameUnderLock = true := by decide

/-- The bound, when the cleaner runs: the returned total is below the low-water mark — and then so is the total
    size of everything that is left, because the kept and the half-removed candidates fit inside the returned
    total — or every candidate that is left untouched is protected or could not be renamed. -/
theorem C14_bound (marks marks' : Marks) (rn rm : Bytes → Bool) (low : Nat) (found order : List Entry)
    (hperm : order.Perm (scan marks found).1) :
    let r := evict marks' rn rm low order (scan marks found).2
    (r.total < low ∧ sizeSum r.kept + sizeSum r.half < low) ∨
    (∀ e ∈ r.kept, (marks' e.path).isSome = true ∨ rn e.path = false) := by
  intro r
  have hsum : sizeSum order ≤ (scan marks found).2 := by
    rw [sizeSum_perm hperm]; exact (scan_spec marks found).1
  rcases evict_bound marks' rn rm low order (scan marks found).2 with h | h
  · left
    have := (evict_total marks' rn rm low order (scan marks found).2 hsum).2
    exact ⟨h, Nat.lt_of_le_of_lt this h⟩
  · right; exact h

/-- Accounting: the returned total is the walked total minus exactly what was evicted (the uint64 subtraction
    never wraps). -/
theorem C14_accounting (marks marks' : Marks) (rn rm : Bytes → Bool) (low : Nat) (found order : List Entry)
    (hperm : order.Perm (scan marks found).1) :
    let r := evict marks' rn rm low order (scan marks found).2
    r.total + sizeSum r.evicted = (scan marks found).2 := by
  intro r
  have hsum : sizeSum order ≤ (scan marks found).2 := by
    rw [sizeSum_perm hperm]; exact (scan_spec marks found).1
  exact (evict_total marks' rn rm low order (scan marks found).2 hsum).1

/-- Below the high-water mark nothing is touched. -/
theorem C14_below_high_untouched (marks marks' : Marks) (rn rm : Bytes → Bool) (high low : Nat) (found order : List Entry)
    (h : (scan marks found).2 < high) :
    (clean marks marks' rn rm high low found order).evicted = [] ∧
    (clean marks marks' rn rm high low found order).half = [] := by
  simp [clean, h]

/-- Refinement: whatever the sort produced, and whichever entries were marked between the walk and the loop's
    tests, a pass in which no rename or removal fails has an outcome that satisfies the order-free specification
    `specOK` — the predicate the harness evaluates, in Lean, on the outcomes of the real cleaner. -/
theorem C14_meets_spec (marks marks' : Marks) (high low : Nat) (hlh : low ≤ high) (found order : List Entry)
    (hperm : order.Perm (scan marks found).1) :
    let r := clean marks marks' (fun _ => true) (fun _ => true) high low found order
    specOK marks marks' high low found r.evicted r.total = true := by
  intro r
  by_cases hh : (scan marks found).2 < high
  · have hr : r = ⟨[], (scan marks found).1, [], (scan marks found).2⟩ := by simp [r, clean, hh]
    simp [specOK, hh, hr]
  · have hr : r = evict marks' (fun _ => true) (fun _ => true) low order (scan marks found).2 := by simp [r, clean, hh]
    have hsum : sizeSum order ≤ (scan marks found).2 := by
      rw [sizeSum_perm hperm]; exact (scan_spec marks found).1
    have hp := evict_perm marks' (fun _ => true) (fun _ => true) low order (scan marks found).2
    have hh0 := evict_no_half marks' (fun _ => true) low order (scan marks found).2
    have htot := evict_total marks' (fun _ => true) (fun _ => true) low order (scan marks found).2 hsum
    have hbound := evict_bound marks' (fun _ => true) (fun _ => true) low order (scan marks found).2
    have hbey := evict_not_beyond marks' (fun _ => true) (fun _ => true) low order (scan marks found).2 (by omega) hsum
    have hun := (evict_unmarked marks' (fun _ => true) (fun _ => true) low order (scan marks found).2).1
    rw [← hr] at hp htot hbound hbey hun hh0
    rw [hh0, List.append_nil] at hp
    have hmemc : ∀ e ∈ r.evicted, e ∈ (scan marks found).1 :=
      fun e he => hperm.subset (hp.subset (List.mem_append_left _ he))
    simp only [specOK, hh, if_false, Bool.and_eq_true, Bool.or_eq_true, List.all_eq_true, List.any_eq_true,
      decide_eq_true_eq, beq_iff_eq, List.contains_iff_mem, Option.isNone_iff_eq_none, List.isEmpty_iff]
    refine ⟨⟨⟨?_, htot.1⟩, ?_⟩, ?_⟩
    · intro e he; exact ⟨hmemc e he, (hun e he).1⟩
    · rcases hbound with h | h
      · left; exact h
      · right
        intro e he
        have : e ∈ r.evicted ++ r.kept := (hp.trans hperm).symm.subset he
        rcases List.mem_append.mp this with h' | h'
        · left; exact h'
        · right
          rcases h e h' with h'' | h''
          · exact h''
          · cases h''
    · rcases hbey with h | ⟨e, he, hb⟩
      · left; right; exact h
      · right; exact ⟨e, he, hb⟩

-- non-vacuity: three candidates, one marked entry (recorded size 7), water marks 100/70.  In the order 20, 30, 60 the
-- pass stops after two evictions at 117 - 20 - 30 = 67 < 70; in the order 60, 30, 20 after one, at 57.
def exMarks : Marks := fun p => if p = [9] then some 7 else none
def exFound : List Entry := [⟨[1], 60, 0⟩, ⟨[9], 500, 0⟩, ⟨[2], 30, 5⟩, ⟨[3], 20, 9⟩]
example : clean exMarks exMarks (fun _ => true) (fun _ => true) 100 70 exFound [⟨[3], 20, 9⟩, ⟨[2], 30, 5⟩, ⟨[1], 60, 0⟩] =
    ⟨[⟨[3], 20, 9⟩, ⟨[2], 30, 5⟩], [⟨[1], 60, 0⟩], [], 67⟩ := by decide
example : clean exMarks exMarks (fun _ => true) (fun _ => true) 100 70 exFound [⟨[1], 60, 0⟩, ⟨[2], 30, 5⟩, ⟨[3], 20, 9⟩] =
    ⟨[⟨[1], 60, 0⟩], [⟨[2], 30, 5⟩, ⟨[3], 20, 9⟩], [], 57⟩ := by decide
example : specOK exMarks exMarks 100 70 exFound [⟨[3], 20, 9⟩, ⟨[2], 30, 5⟩] 67 = true := by decide
example : specOK exMarks exMarks 100 70 exFound [⟨[1], 60, 0⟩] 57 = true := by decide
-- an entry marked between the walk and the loop ([3], by a Retrieve) is skipped: in the order 20, 30, 60 the pass now
-- evicts 30 and 60 and ends at 117 - 30 - 60 = 27
def exLate : Marks := fun p => if p = [9] then some 7 else if p = [3] then some 0 else none
example : clean exMarks exLate (fun _ => true) (fun _ => true) 100 70 exFound [⟨[3], 20, 9⟩, ⟨[2], 30, 5⟩, ⟨[1], 60, 0⟩] =
    ⟨[⟨[2], 30, 5⟩, ⟨[1], 60, 0⟩], [⟨[3], 20, 9⟩], [], 27⟩ := by decide
example : specOK exMarks exLate 100 70 exFound [⟨[2], 30, 5⟩, ⟨[1], 60, 0⟩] 27 = true := by decide
example : specOK exMarks exLate 100 70 exFound [⟨[3], 20, 9⟩, ⟨[2], 30, 5⟩] 67 = false := by decide
-- and the spec is not vacuous: evicting the marked entry, or stopping above the low-water mark, is rejected
example : specOK exMarks exMarks 100 70 exFound [⟨[9], 500, 0⟩] 110 = false := by decide
example : specOK exMarks exMarks 100 70 exFound [⟨[3], 20, 9⟩] 97 = false := by decide

/-- READ LITERALLY the bound fails between the water marks: 70 bytes of unprotected entries, low = 50, high = 100 —
    the pass ends with nothing removed and 70 ≥ 50 left.  (The cleaner only starts at the high-water mark.) -/
theorem C14_witness_below_high :
    ∃ (found : List Entry) (high low : Nat),
      (clean (fun _ => none) (fun _ => none) (fun _ => true) (fun _ => true) high low found found).evicted = [] ∧
      low ≤ sizeSum (clean (fun _ => none) (fun _ => none) (fun _ => true) (fun _ => true) high low found found).kept ∧
      (clean (fun _ => none) (fun _ => none) (fun _ => true) (fun _ => true) high low found found).kept ≠ [] :=
  ⟨[⟨[1], 70, 0⟩], 100, 50, by decide, by decide, by decide⟩

/-! ## Names: what is an entry, what is protected -/

/-- base64 (padded, as the source insists) of a 20-byte / 32-byte key is 28 / 44 characters ending in one `=`. -/
theorem C14_key_lengths : 4 * ((20 + 2) / 3) = 28 ∧ 4 * ((32 + 2) / 3) = 44 ∧ (3 - 20 % 3) % 3 = 1 ∧ (3 - 32 % 3) % 3 = 1 := by
  decide

/-- Plain cache: the temporary `<key>=` IS one of the two names `markDir` protects. -/
theorem C14_plain_tmp_protected (b : Bytes) :
    tmpName b C14.tmpSuffixBytes [] ∈ markKeys (entryName b []) := by
  simp [tmpName, entryName, markKeys, C14.tmpSuffixBytes]

/-- Compressed cache: the temporary `<key>=.tar.gz` is NEITHER `<key>.tar.gz` NOR `<key>.tar.gz=`. -/
theorem C14_compressed_tmp_unprotected (b : Bytes) :
    tmpName b C14.tmpSuffixBytes C14.compressedSuffixBytes ∉ markKeys (entryName b C14.compressedSuffixBytes) := by
  simp only [tmpName, entryName, markKeys, List.mem_cons, List.mem_nil_iff, or_false, List.append_assoc]
  intro h
  rcases h with h | h
  · have := List.append_cancel_left h
    revert this; decide
  · have := List.append_cancel_left h
    revert this; decide

/-- … yet `shouldClean` takes it for an entry (sha1 keys; the same holds for sha256 keys). -/
theorem C14_compressed_tmp_recognised (b : Bytes) (hl : b.length = 28) (hp : b[27]? = some 61) :
    recognised true false (tmpName b C14.tmpSuffixBytes C14.compressedSuffixBytes) = true := by
  have hname : tmpName b C14.tmpSuffixBytes C14.compressedSuffixBytes = (b ++ [61]) ++ [46, 116, 97, 114, 46, 103, 122] := by
    simp [tmpName, C14.tmpSuffixBytes, C14.compressedSuffixBytes]
  have hbl : (b ++ [61]).length = 29 := by simp [hl]
  have hlen : ((b ++ [61]) ++ [46, 116, 97, 114, 46, 103, 122]).length = 36 := by simp [hl]
  have hdrop : ((b ++ [61]) ++ [46, 116, 97, 114, 46, 103, 122]).drop 29 = [46, 116, 97, 114, 46, 103, 122] :=
    List.drop_left' hbl
  have htake : ((b ++ [61]) ++ [46, 116, 97, 114, 46, 103, 122]).take 29 = b ++ [61] := List.take_left' hbl
  have hidx : (b ++ [61])[27]? = some 61 := by
    rw [List.getElem?_append_left (by omega)]; exact hp
  unfold recognised shouldClean
  rw [hname]
  have hs : isSuffix C14.compressedSuffixBytes ((b ++ [61]) ++ [46, 116, 97, 114, 46, 103, 122]) = true := by
    unfold isSuffix
    rw [hlen]
    show (List.drop (36 - 7) _ == _) = true
    rw [show (36 - 7 : Nat) = 29 from rfl, hdrop]
    rfl
  have hshape : shapeOK C14.nameShapes (((b ++ [61]) ++ [46, 116, 97, 114, 46, 103, 122]).take
      (((b ++ [61]) ++ [46, 116, 97, 114, 46, 103, 122]).length - C14.compressedSuffixBytes.length)) = true := by
    rw [hlen]
    show shapeOK _ (List.take (36 - 7) _) = true
    rw [show (36 - 7 : Nat) = 29 from rfl, htake]
    simp [shapeOK, C14.nameShapes, hbl]
    have h27 : 27 < (b ++ [61]).length := by omega
    rw [List.getElem?_eq_getElem h27] at hidx
    exact Option.some.inj hidx
  simp only [if_true]
  rw [hs, hshape]
  rfl

/-- The names `Store` protects before it touches anything, read off the regenerated list of what it marks. -/
def storeProtected (b sfx : Bytes) : List Bytes :=
  (if C14.storeMarks.contains "final" then markKeys (entryName b sfx) else []) ++
  (if C14.storeMarks.contains "tmp" then markKeys (tmpName b C14.tmpSuffixBytes sfx) else [])

/-- FULL, both modes, any key and suffix: the temporary of a store in flight is protected. -/
theorem C14_store_tmp_protected (b sfx : Bytes) : tmpName b C14.tmpSuffixBytes sfx ∈ storeProtected b sfx := by
  have hm : C14.storeMarks = ["final", "tmp"] := by decide
  simp [storeProtected, hm, markKeys]

/-- FULL: whatever the order, an entry that is marked when the cleaner walks — in particular the temporary of a store in
    flight, which `Store` marked first — is not a candidate, so it is neither evicted nor half-removed. -/
theorem C14_marked_at_walk_never_evicted (marks marks' : Marks) (rn rm : Bytes → Bool) (high low : Nat)
    (found order : List Entry) (hperm : order.Perm (scan marks found).1) (e : Entry) (hm : marks e.path ≠ none) :
    e ∉ (clean marks marks' rn rm high low found order).evicted ∧
    e ∉ (clean marks marks' rn rm high low found order).half := by
  have hnot : e ∉ order := by
    intro he
    exact hm ((scan_spec marks found).2.1 e (hperm.subset he))
  unfold clean
  by_cases hh : (scan marks found).2 < high
  · simp [hh]
  · simp only [hh, if_false]
    have hp := evict_perm marks' rn rm low order (scan marks found).2
    constructor
    · intro he
      exact hnot (hp.subset (List.mem_append_left _ (List.mem_append_left _ he)))
    · intro he
      exact hnot (hp.subset (List.mem_append_right _ he))

theorem C14_inflight_tmp_never_evicted (b sfx : Bytes) (marks marks' : Marks) (rn rm : Bytes → Bool) (high low : Nat)
    (found order : List Entry) (hperm : order.Perm (scan marks found).1)
    (hstore : ∀ k ∈ storeProtected b sfx, marks k ≠ none) (sz : Nat) (atm : Int) :
    (⟨tmpName b C14.tmpSuffixBytes sfx, sz, atm⟩ : Entry) ∉ (clean marks marks' rn rm high low found order).evicted :=
  (C14_marked_at_walk_never_evicted marks marks' rn rm high low found order hperm _
    (hstore _ (C14_store_tmp_protected b sfx))).1

def b64Key : Bytes := [77, 84, 73, 122, 78, 68, 85, 50, 78, 122, 103, 53, 77, 68, 69, 121, 77, 122, 81, 49, 78, 106, 99, 52, 79, 84, 65, 61]

/-- THE OLD DEFECT, conditional on the old fact value (Store marking only the entry): the process is storing key
    `12345678901234567890`, its tarball `<key>=.tar.gz` is on disk, and one pass of this process's own cleaner with the
    cache over its high-water mark evicts that tarball. -/
theorem C14_witness_inflight_compressed (hold : C14.storeMarks = ["final"]) :
    ∃ (marks : Marks) (found : List Entry) (high low : Nat),
      (∀ k ∈ storeProtected b64Key C14.compressedSuffixBytes, marks k = some 0) ∧
      (∀ e ∈ found, recognised true false e.path = true) ∧
      (clean marks marks (fun _ => true) (fun _ => true) high low found found).evicted =
        [⟨tmpName b64Key C14.tmpSuffixBytes C14.compressedSuffixBytes, 50, 0⟩] := by
  refine ⟨fun p => if p ∈ markKeys (entryName b64Key C14.compressedSuffixBytes) then some 0 else none,
   [⟨tmpName b64Key C14.tmpSuffixBytes C14.compressedSuffixBytes, 50, 0⟩], 10, 5, ?_, by decide, by decide⟩
  intro k hk
  simp only [storeProtected, hold] at hk
  have hk' : k ∈ markKeys (entryName b64Key C14.compressedSuffixBytes) := by simpa using hk
  simp [hk']

end PlzVerif.Props.C14
