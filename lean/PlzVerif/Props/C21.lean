import PlzVerif.Lemmas.Glob
import PlzVerif.Generated.C21
/-!
C21  glob() returns exactly the files its documented semantics select.

"glob(include, exclude, hidden) returns exactly the source files of the current package that match an include pattern
(`*` within a path segment, `**` across whole segments, `?`, `[class]`) and no exclude pattern.  It never returns files
in subpackages or plz-out, and by default never returns hidden files or anything inside hidden directories."

* code : `globAll facts …` -- `(*Globber).Glob` as builtins.go calls it: the WalkDir callback, `filepath.Match`,
         `toRegexString` *interpreted from the `strings.ReplaceAll` chain regenerated from src/fs/glob.go*, a parser and
         matcher for the regexp fragment those strings fall into, the three filters, prefix trimming;
* spec : `specGlob` -- entries of the package selected segment by segment (`segMatch`), hidden / plz-out / sub-package
         rules on path components.

The property as stated is FALSE for the pinned code: seven independent root causes, each with a machine-checked
witness on `Facts.canon` below.  What is proved for all inputs: the two matchers agree with the segment-wise
specification on the fragment where none of the matcher defects applies (`C21_match_exact`), the filters are exactly
the documented ones and sub-package exclusion is by whole components (`C21_returned_iff`, `C21_subpackage_componentwise`).
-/
namespace PlzVerif.Props.C21
open PlzVerif.Walk PlzVerif.Glob PlzVerif.Generated

/-- The facts read from /repo on this run. -/
def facts : Glob.Facts :=
  { reWrap := C21.reWrap, replacements := C21.replacements, doubleStar := C21.doubleStar,
    outDir := C21.outDir, hiddenPrefix := C21.hiddenPrefix, hiddenWrap := C21.hiddenWrap }

/-- Side condition on the regenerated facts: the `ReplaceAll` chain, the wrap, the `**` selector, the plz-out literal
    and the hidden markers are the ones the theorems below were proved for; the structural shapes were recognised. -/
def FactsOK : Bool :=
  decide (C21.reWrap = Glob.Facts.canon.reWrap) && decide (C21.replacements = Glob.Facts.canon.replacements) &&
  decide (C21.doubleStar = Glob.Facts.canon.doubleStar) && decide (C21.outDir = Glob.Facts.canon.outDir) &&
  decide (C21.hiddenPrefix = Glob.Facts.canon.hiddenPrefix) && decide (C21.hiddenWrap = Glob.Facts.canon.hiddenWrap) &&
  C21.builtinWhenNoDoubleStar && C21.matcherJoinsRoot && C21.regexFromFullPattern && C21.outDirOnlyAtDotRoot &&
  C21.subPackageSkip && C21.symlinkBucket && C21.filterSubPackages && C21.filterHidden && C21.filterExcludes &&
  C21.inDirsComponentwise && C21.hiddenOnBaseName && C21.aspAppendsBuildNames && C21.aspCallsGlobWithPkgName

/-- Obligation a code change can break. -/
theorem C21_facts_ok : FactsOK = true := by decide

theorem facts_eq_canon : facts = Glob.Facts.canon := by
  have h := C21_facts_ok
  simp only [FactsOK, Bool.and_eq_true, decide_eq_true_eq] at h
  obtain ⟨⟨⟨⟨⟨⟨⟨⟨⟨⟨⟨⟨⟨⟨⟨⟨⟨⟨h1, h2⟩, h3⟩, h4⟩, h5⟩, h6⟩, _⟩, _⟩, _⟩, _⟩, _⟩, _⟩, _⟩, _⟩, _⟩, _⟩, _⟩, _⟩, _⟩ := h
  simp only [facts, Glob.Facts.canon] at *
  simp only [h1, h2, h3, h4, h5, h6]

/-! ### helpers for writing concrete trees -/

abbrev fi (n : Name) (rest : Forest := .nil) : Forest := .cons n (.leaf .file) rest
abbrev di (n : Name) (kids : Forest) (rest : Forest := .nil) : Forest := .cons n (.dir kids) rest
def bcfg : Cfg := ⟨[['B']]⟩
/-- The model called like builtins.go does (BUILD file names appended to the excludes), result as a set-like list. -/
def run (root : List Name) (t : Forest) (inc : List Name) (hidden : Bool) : Option (List Name) :=
  globAll Glob.Facts.canon bcfg root (.dir t) inc [['B']] hidden true
/-- The specification for the same call. -/
def want (root : List Name) (t : Forest) (inc : List Name) (hidden : Bool) : Option (List Name) :=
  (mkQuery inc [['B']] hidden true).map fun q => specGlob bcfg q root (.dir t)

/-! ### the property as stated fails: seven root causes, each witnessed on the structure the source has today -/

/-- **W1 hidden-dir-contents (src/fs/glob.go:273 `isHidden` looks at `filepath.Base` only).**  Package `p` holds
    `.h/b.t`; `glob(["**/*.t"])` returns it although it lies inside a hidden directory. -/
theorem C21_witness_hidden_dir_contents :
    run [['p']] (fi ['B'] (di ['.', 'h'] (fi ['b', '.', 't']))) [['*', '*', '/', '*', '.', 't']] false
      = some [['.', 'h', '/', 'b', '.', 't']] ∧
    want [['p']] (fi ['B'] (di ['.', 'h'] (fi ['b', '.', 't']))) [['*', '*', '/', '*', '.', 't']] false = some [] := by
  decide

/-- **W2 regex-metacharacters-unescaped (glob.go:49-57: only `+` and `.` are escaped).**  `d/**/x(1).t` does not
    select the file `d/x(1).t` -- the parentheses reach `regexp.Compile` as a group -- but does select `d/x1.t`. -/
theorem C21_witness_regex_metacharacters :
    run [] (di ['d'] (fi ['x', '(', '1', ')', '.', 't'] (fi ['x', '1', '.', 't'])))
      [['d', '/', '*', '*', '/', 'x', '(', '1', ')', '.', 't']] false = some [['d', '/', 'x', '1', '.', 't']] ∧
    want [] (di ['d'] (fi ['x', '(', '1', ')', '.', 't'] (fi ['x', '1', '.', 't'])))
      [['d', '/', '*', '*', '/', 'x', '(', '1', ')', '.', 't']] false = some [['d', '/', 'x', '(', '1', ')', '.', 't']] := by
  decide

/-- **W3 qmark-matches-slash (glob.go:53 `?` ↦ `.`).**  Next to a `**`, `?` matches the path separator:
    `d/**/a?b` returns `d/a/b`. -/
theorem C21_witness_qmark_matches_slash :
    run [] (di ['d'] (di ['a'] (fi ['b']))) [['d', '/', '*', '*', '/', 'a', '?', 'b']] false = some [['d', '/', 'a', '/', 'b']] ∧
    want [] (di ['d'] (di ['a'] (fi ['b']))) [['d', '/', '*', '*', '/', 'a', '?', 'b']] false = some [] := by
  decide

/-- **W4 leading-doublestar-root-package (glob.go:56: `/.*/` ↦ `/(.*/)?` needs a preceding '/').**  In the root
    package (`filepath.Join(".", p) = p`) the pattern `**/*.t` becomes `^.*/[^/]*\.t$` and misses `a.t`. -/
theorem C21_witness_leading_doublestar_root_package :
    run [] (fi ['a', '.', 't']) [['*', '*', '/', '*', '.', 't']] false = some [] ∧
    want [] (fi ['a', '.', 't']) [['*', '*', '/', '*', '.', 't']] false = some [['a', '.', 't']] ∧
    -- the same pattern one package down works
    run [['p']] (fi ['B'] (fi ['a', '.', 't'])) [['*', '*', '/', '*', '.', 't']] false = some [['a', '.', 't']] := by
  decide

/-- **W5 package-root-returned (glob.go:187: WalkDir reports the root itself, `*` matches ".").**  With
    `hidden = True` the root package's `glob(["*"])` contains ".". -/
theorem C21_witness_package_root_returned :
    run [] (fi ['a']) [['*']] true = some [['.'], ['a']] ∧ want [] (fi ['a']) [['*']] true = some [['a']] := by
  decide

/-- **W6 negated-class-matches-slash (`filepath.Match` and the regexp alike).**  `d[^a]x` returns `d/x`. -/
theorem C21_witness_negated_class_matches_slash :
    run [] (di ['d'] (fi ['x'])) [['d', '[', '^', 'a', ']', 'x']] false = some [['d', '/', 'x']] ∧
    want [] (di ['d'] (fi ['x'])) [['d', '[', '^', 'a', ']', 'x']] false = some [] := by
  decide

/-- **W7 plz-out-name-any-depth (glob.go:181 tests `d.Name()`, not the path).**  In the root package an entry merely
    *named* plz-out is skipped at any depth: `n/*` does not return `n/plz-out`; a regular file of that name also
    drops the siblings after it (`SkipDir` for a non-directory). -/
theorem C21_witness_plz_out_name_any_depth :
    run [] (di ['n'] (di plzOut (fi ['h']))) [['n', '/', '*']] false = some [] ∧
    want [] (di ['n'] (di plzOut (fi ['h']))) [['n', '/', '*']] false = some [['n', '/', 'p', 'l', 'z', '-', 'o', 'u', 't']] ∧
    run [] (di ['n'] (fi plzOut (fi ['z']))) [['n', '/', '*']] false = some [] ∧
    want [] (di ['n'] (fi plzOut (fi ['z']))) [['n', '/', '*']] false = some [['n', '/', 'p', 'l', 'z', '-', 'o', 'u', 't'], ['n', '/', 'z']] := by
  decide

/-- **The full-strength statement is refuted.** -/
theorem C21_exact_refuted :
    ¬ ∀ (root : List Name) (t : Forest) (inc : List Name) (hidden : Bool) (q : Query) (l : List Name),
        mkQuery inc [['B']] hidden true = some q → globAll Glob.Facts.canon bcfg root (.dir t) inc [['B']] hidden true = some l →
        l.Perm (specGlob bcfg q root (.dir t)) := by
  intro h
  have w := C21_witness_leading_doublestar_root_package
  obtain ⟨q, hq⟩ : ∃ q, mkQuery [['*', '*', '/', '*', '.', 't']] [['B']] false true = some q := by
    cases e : mkQuery [['*', '*', '/', '*', '.', 't']] [['B']] false true with
    | none => have := w.2.1; simp [want, e] at this
    | some q => exact ⟨q, rfl⟩
  have hp := h [] (fi ['a', '.', 't']) [['*', '*', '/', '*', '.', 't']] false q [] hq w.1
  have hw := w.2.1
  simp only [want, hq, Option.map_some, Option.some.injEq] at hw
  rw [hw] at hp
  exact absurd hp.length_eq (by decide)

/-- The structure read on this run is the structure the witnesses are about. -/
theorem C21_witnesses_apply : globAll facts = globAll Glob.Facts.canon := by rw [facts_eq_canon]

/-! ### what holds for every input: the matchers on the fragment -/

/-- **Matcher exactness (partial).**  For a package at `root`, a parsed include / exclude pattern and an entry `rel`
    below the package, the matcher `patternToMatcher` selects -- `filepath.Match` on the joined pattern, or the regexp
    `toRegexString` produces, as denoted on parsed patterns by `structMatch` -- accepts the entry's path iff the
    pattern matches it *segment by segment*: `*`, `?`, `[class]` and literals stay inside one path component and
    `**` stands for whole components.  Hypotheses = exactly the matcher defects witnessed above are absent:
    no `?` in a pattern that contains `**` (W3), no negated class and no class containing '/' (W6), no `**/x` at the
    start of a root-package pattern (W4), and no `(`, `)`, `|` in a `**` pattern or in the path of a package that
    uses one (W2; `structMatch` reads every literal as itself, the string-level model and the code do not).
    Full statement: the same for all patterns; false by W2, W3, W4, W6. -/
theorem C21_match_exact (root : List Name) (segs : List Seg) (rel : List Name)
    (ok : okSegs (!hasDstar segs) segs = true) (na : noAdjacentDstar segs = true)
    (groot : gpath root = true) (sroot : safePath (!hasDstar segs) root = true)
    (grel : gpath rel = true) (hrel : rel ≠ []) (hs : segs ≠ [])
    (hlead : root = [] → leadingDstar segs = false) :
    structMatch root segs (joinSlash (root ++ rel)) = segMatch segs rel :=
  structMatch_spec root segs rel ok na groot sroot grel hrel hs hlead

-- the hypotheses are satisfiable: `src/**/*_test.go` in package `pkg` against `src/a/b/x_test.go`
example : structMatch [['p', 'k', 'g']]
    [.items [.lit 's', .lit 'r', .lit 'c'], .dstar, .items [.star, .lit '_', .lit 't', .lit '.', .lit 'g', .lit 'o']]
    (joinSlash ([['p', 'k', 'g']] ++ [['s', 'r', 'c'], ['a'], ['b'], ['x', '_', 't', '.', 'g', 'o']])) = true := by decide

/-- `filepath.Match` alone (patterns without `**`): `?` *is* confined to a component there. -/
theorem C21_builtin_exact (segs : List Seg) (comps : List Name) (ok : okSegs true segs = true)
    (g : gpath comps = true) (hne : comps ≠ []) (hs : segs ≠ []) :
    gmatch (flattenSegs segs) (joinSlash comps) = segMatch segs comps :=
  builtin_spec segs comps ok g hne hs

/-- The regexp alone, at any position (`atStart = false`: a '/' precedes, as everywhere outside the root package):
    `a/**/b` ↦ `a/(.*/)?b` and `a/**` ↦ `a/.*` are exact. -/
theorem C21_regex_exact (segs : List Seg) (atStart : Bool) (comps : List Name)
    (ok : okSegs false segs = true) (na : noAdjacentDstar segs = true) (g : gpath comps = true)
    (hne : comps ≠ []) (hs : segs ≠ []) (hst : atStart = true → leadingDstar segs = false) :
    rmatch (toReSegs false atStart segs) (·.isEmpty) (joinSlash comps) = segMatch segs comps :=
  toReSegs_spec false segs atStart comps ok na g hne hs hst

/-! The string-level pipeline (`ReplaceAll` chain, regexp / glob parser) and the parsed-pattern denotation used in the
    theorems accept the same names on concrete patterns (every generated case is cross-checked by the driver too). -/
def sampleNames : List Name :=
  [['p'], ['p', '/', 'a'], ['p', '/', 'a', '/', 'x', '.', 't'], ['p', '/', 'a', '/', 'b', '/', 'c', '/', 'x', '.', 't'],
   ['p', '/', 'a', 'x', '.', 't'], ['p', '/', 'a', '/', '.', 't'], ['p', '/', 'a', '/', 'b', '/', 'x', '.', 'u'], ['a', '+', 'b'],
   ['q', '/', 'a', '+', 'b'], ['q', '/', 'r', '/', 'a', '+', 'b'], ['a', 'a', 'b'], ['p', '/', 'x', '.', 'c', 'z'], ['p', '/', '.', 'c', '/'],
   ['p', '/', 'y', '.', 'k', 'q']]

example : ∀ n ∈ sampleNames,
    (patternToMatcher Glob.Facts.canon ['p'] ['a', '/', '*', '*', '/', '*', '.', 't']).map (·.run n) =
    some (structMatch [['p']] [.items [.lit 'a'], .dstar, .items [.star, .lit '.', .lit 't']] n) := by decide
example : ∀ n ∈ sampleNames,
    (patternToMatcher Glob.Facts.canon ['.'] ['*', '*', '/', 'a', '+', 'b']).map (·.run n) =
    some (structMatch [] [.dstar, .items [.lit 'a', .lit '+', .lit 'b']] n) := by decide
example : ∀ n ∈ sampleNames,
    (patternToMatcher Glob.Facts.canon ['p'] ['*', '.', '[', 'a', '-', 'k', ']', '?']).map (·.run n) =
    some (structMatch [['p']] [.items [.star, .lit '.', .cls false [('a', 'k')], .any]] n) := by decide

/-! ### what holds for every input: the filters -/

theorem foldr_filter_iff (se : Name → Option Bool) : ∀ (cands l : List Name),
    cands.foldr (fun m acc =>
      match acc, se m with
      | some l, some false => some (m :: l)
      | some l, some true => some l
      | _, _ => none) (some []) = some l →
    ∀ m, m ∈ l ↔ m ∈ cands ∧ se m = some false
  | [], l, h, m => by simp at h; subst h; simp
  | c :: cands, l, h, m => by
    simp only [List.foldr_cons] at h
    generalize hacc : cands.foldr _ (some []) = acc at h
    cases acc with
    | none => simp at h
    | some l' =>
      have ih := foldr_filter_iff se cands l' hacc m
      cases hs : se c with
      | none => simp [hs] at h
      | some b =>
        cases b with
        | false =>
          simp only [hs, Option.some.injEq] at h; subst h
          simp only [List.mem_cons, ih]
          constructor
          · rintro (rfl | h)
            · exact ⟨Or.inl rfl, hs⟩
            · exact ⟨Or.inr h.1, h.2⟩
          · rintro ⟨rfl | h, h2⟩
            · exact Or.inl rfl
            · exact Or.inr ⟨h, h2⟩
        | true =>
          simp only [hs, Option.some.injEq] at h; subst h
          rw [ih]
          constructor
          · rintro ⟨h1, h2⟩; exact ⟨List.mem_cons_of_mem _ h1, h2⟩
          · rintro ⟨h1, h2⟩
            rcases List.mem_cons.mp h1 with rfl | h1
            · rw [hs] at h2; simp at h2
            · exact ⟨h1, h2⟩

/-- **What one include pattern returns, exactly.**  Whenever `globber.glob` succeeds, a name is in its result iff it
    was walked (as a file or directory, or as a symlink when those are included), the compiled matcher accepts it, it
    is not inside (or equal to) a recorded sub-package, it is not hidden by base name unless hidden files were asked
    for, and no exclude pattern removes it.  Nothing else is added, nothing else is dropped. -/
theorem C21_returned_iff (F : Glob.Facts) (rootName : Name) (w : Walked) (incl : Name) (excludes : List Name)
    (hidden symlinks : Bool) (mt : Matcher) (l : List Name)
    (hm : patternToMatcher F rootName incl = some mt)
    (h : globOne F rootName w incl excludes hidden symlinks = some l) (m : Name) :
    m ∈ l ↔ (m ∈ w.files ∨ (symlinks = true ∧ m ∈ w.symlinks)) ∧ mt.run m = true ∧
      isInDirectories m w.subPackages = false ∧ (hidden = true ∨ isHidden F m = false) ∧
      shouldExclude F rootName m excludes = some false := by
  simp only [globOne, hm] at h
  rw [foldr_filter_iff _ _ l h m]
  simp only [List.mem_filter, Bool.and_eq_true, Bool.not_eq_true', Bool.and_eq_false_imp]
  cases symlinks <;> cases hidden <;> simp [and_assoc, or_and_right]

theorem joinSlash_inj : ∀ (a b : List Name), gpath a = true → gpath b = true → joinSlash a = joinSlash b → a = b
  | [], [], _, _, _ => rfl
  | [], c :: cs, _, gb, e => by
    exact absurd e.symm (joinSlash_ne_nil (c :: cs) (by simp) gb)
  | c :: cs, [], ga, _, e => by
    exact absurd e (joinSlash_ne_nil (c :: cs) (by simp) ga)
  | c :: cs, d :: ds, ga, gb, e => by
    have hc := gname_noslash (gpath_cons ga).1
    have hd := gname_noslash (gpath_cons gb).1
    rw [joinSlash_cons d ds] at e
    cases ds with
    | nil =>
      simp only [List.isEmpty_nil, if_true] at e
      obtain ⟨e1, e2⟩ := split_first c cs d [] hc hd (Or.inl rfl) (by simpa using e)
      rcases e2 with ⟨e3, _⟩ | ⟨_, e4⟩
      · rw [e1, e3]
      · simp at e4
    | cons d' ds' =>
      simp only [List.isEmpty_cons, Bool.false_eq_true, if_false] at e
      obtain ⟨e1, e2⟩ := split_first c cs d ('/' :: joinSlash (d' :: ds')) hc hd (Or.inr ⟨_, rfl⟩) e
      rcases e2 with ⟨_, e3⟩ | ⟨_, e4⟩
      · simp at e3
      · simp only [List.cons.injEq, true_and] at e4
        rw [← e1, joinSlash_inj cs (d' :: ds') (gpath_cons ga).2 (gpath_cons gb).2 e4.symm]

/-- **Sub-packages are excluded by whole path components.**  `isInDirectories` (`strings.HasPrefix(name, dir+"/") ||
    name == dir`) holds for a walked path `q` and a recorded sub-package `d` iff `d`'s components are a leading run
    of `q`'s components: a package `pkg/ab` never hides `pkg/abc.txt` (contrast C22). -/
theorem C21_subpackage_componentwise (d q : List Name) (gd : gpath d = true) (gq : gpath q = true)
    (hd : d ≠ []) (hq : q ≠ []) :
    isInDirectories (joinSlash q) [joinSlash d] = d.isPrefixOf q := by
  simp only [isInDirectories, List.any_cons, List.any_nil, Bool.or_false]
  rw [Bool.eq_iff_iff, Bool.or_eq_true, List.isPrefixOf_iff_prefix, beq_iff_eq, List.isPrefixOf_iff_prefix]
  constructor
  · intro h
    obtain ⟨k, hk, e⟩ := compMatch_of_slash q (joinSlash d) hq (gpath_good gq)
      (by rcases h with h | h
          · exact Or.inr h
          · exact Or.inl h.symm)
    have gt : gpath (q.take (k + 1)) = true := by
      simp only [gpath, List.all_eq_true] at gq ⊢
      exact fun x hx => gq x (List.mem_of_mem_take hx)
    rw [joinSlash_inj d _ gd gt e]
    exact List.take_prefix _ _
  · rintro ⟨t, rfl⟩
    cases t with
    | nil => right; simp
    | cons c t' =>
      left
      rw [joinSlash_append d (c :: t') hd (by simp)]
      exact ⟨joinSlash (c :: t'), by simp⟩

end PlzVerif.Props.C21
