import PlzVerif.Lemmas.Glob
import PlzVerif.Lemmas.GlobWalk
import PlzVerif.Lemmas.GlobCompose
import PlzVerif.Lemmas.GlobParse
import PlzVerif.Lemmas.Globber
import PlzVerif.Generated.C21
/-!
C21  glob() returns exactly the files its documented semantics select.

"glob(include, exclude, hidden) returns exactly the source files of the current package that match an include pattern
(`*` within a path segment, `**` across whole segments, `?`, `[class]`) and no exclude pattern.  It never returns files
in subpackages or plz-out, and by default never returns hidden files or anything inside hidden directories."

* code : `globAll facts …` -- `(*Globber).Glob` as builtins.go calls it: the WalkDir callback, `filepath.Match`,
         `toRegexString` *interpreted from the `strings.ReplaceAll` chain regenerated from src/fs/glob.go*, a parser and
         matcher for the regexp fragment those strings fall into, the three filters, prefix trimming;
* spec : `specGlob` -- entries of the package selected segment by segment (`segMatch`), hidden / plz-out / sub-package
         rules on path components.

The property as stated is FALSE for the pinned code: seven independent root causes, each with a machine-checked
witness on `Facts.canon` below.  What is proved for all inputs: the two matchers agree with the segment-wise
specification on the fragment where none of the matcher defects applies (`C21_match_exact`), the filters are exactly
the documented ones and sub-package exclusion is by whole components (`C21_returned_iff`, `C21_subpackage_componentwise`),
and on benign trees the walk plus the sub-package / hidden filters leave exactly the package's owned, visible entries
(`C21_walk_exact_partial`, `C21_spec_is_selection`); composed: `C21_exact_partial` (walk, matchers, filters, excludes
= `specFo`, on parsed patterns), `C21_exclude_exact`.
-/
namespace PlzVerif.Props.C21
open PlzVerif.Walk PlzVerif.Glob PlzVerif.Generated

/-- The facts read from /repo on this run. -/
def facts : Glob.Facts :=
  { reWrap := C21.reWrap, replacements := C21.replacements, doubleStar := C21.doubleStar,
    outDir := C21.outDir, hiddenPrefix := C21.hiddenPrefix, hiddenWrap := C21.hiddenWrap }

/-- Which optional repairs of `toRegexString` the chain read on this run contains. -/
def opts : MOpts := optsOfChain C21.replacements

/-- Side condition on the regenerated facts: the `ReplaceAll` chain is the known chain with *some* combination of the
    three optional repairs (`chainFor`), the wrap, the `**` selector, the plz-out literal and the hidden markers are
    the ones the theorems below were proved for; the structural shapes were recognised. -/
def FactsOK : Bool :=
  decide (C21.reWrap = Glob.Facts.canon.reWrap) && decide (C21.replacements = chainFor (optsOfChain C21.replacements)) &&
  decide (C21.doubleStar = Glob.Facts.canon.doubleStar) && decide (C21.outDir = Glob.Facts.canon.outDir) &&
  decide (C21.hiddenPrefix = Glob.Facts.canon.hiddenPrefix) && decide (C21.hiddenWrap = Glob.Facts.canon.hiddenWrap) &&
  C21.builtinWhenNoDoubleStar && C21.matcherJoinsRoot && C21.regexFromFullPattern && C21.outDirOnlyAtDotRoot &&
  C21.subPackageSkip && C21.symlinkBucket && C21.filterSubPackages && C21.filterHidden && C21.filterExcludes &&
  C21.inDirsComponentwise && C21.hiddenOnBaseName && C21.aspAppendsBuildNames && C21.aspCallsGlobWithPkgName &&
  C21.hiddenPerMatch && !C21.hiddenAtWalk

/-- Obligation a code change can break. -/
theorem C21_facts_ok : FactsOK = true := by decide

theorem facts_eq_canon : facts = Glob.Facts.withOpts opts := by
  have h := C21_facts_ok
  simp only [FactsOK, Bool.and_eq_true, decide_eq_true_eq] at h
  obtain ⟨⟨⟨⟨⟨⟨⟨⟨⟨⟨⟨⟨⟨⟨⟨⟨⟨⟨⟨⟨h1, h2⟩, h3⟩, h4⟩, h5⟩, h6⟩, _⟩, _⟩, _⟩, _⟩, _⟩, _⟩, _⟩, _⟩, _⟩, _⟩, _⟩, _⟩, _⟩, _⟩, _⟩ := h
  simp only [facts, Glob.Facts.withOpts, Glob.Facts.canon, opts] at *
  simp only [h1, ← h2, h3, h4, h5, h6]

/-! ### helpers for writing concrete trees -/

abbrev fi (n : Name) (rest : Forest := .nil) : Forest := .cons n (.leaf .file) rest
abbrev di (n : Name) (kids : Forest) (rest : Forest := .nil) : Forest := .cons n (.dir kids) rest
def bcfg : Cfg := ⟨[['B']]⟩
/-- The model called like builtins.go does (BUILD file names appended to the excludes), result as a set-like list. -/
def runO (o : MOpts) (root : List Name) (t : Forest) (inc : List Name) (hidden : Bool) : Option (List Name) :=
  globAll (Glob.Facts.withOpts o) bcfg root (.dir t) inc [['B']] hidden true
/-- ... on the structure without any of the optional `toRegexString` repairs (what the source was when the
    findings were recorded). -/
def run (root : List Name) (t : Forest) (inc : List Name) (hidden : Bool) : Option (List Name) :=
  runO MOpts.none root t inc hidden
/-- The specification for the same call. -/
def want (root : List Name) (t : Forest) (inc : List Name) (hidden : Bool) : Option (List Name) :=
  (mkQuery inc [['B']] hidden true).map fun q => specGlob bcfg q root (.dir t)

/-! ### the property as stated fails: seven root causes, each witnessed on the unrepaired structure (`run`)

W2, W3 and W4 are repaired by one `ReplaceAll` line each (`C21_repairs`); W1, W5, W6, W7 persist under every
combination of those repairs (`C21_witnesses_persist`) and refute the statement for the facts read on this run
(`C21_exact_refuted`). -/

/-- **W1 hidden-dir-contents (src/fs/glob.go:273 `isHidden` looks at `filepath.Base` only).**  Package `p` holds
    `.h/b.t`; `glob(["**/*.t"])` returns it although it lies inside a hidden directory. -/
theorem C21_witness_hidden_dir_contents :
    run [['p']] (fi ['B'] (di ['.', 'h'] (fi ['b', '.', 't']))) [['*', '*', '/', '*', '.', 't']] false
      = some [['.', 'h', '/', 'b', '.', 't']] ∧
    want [['p']] (fi ['B'] (di ['.', 'h'] (fi ['b', '.', 't']))) [['*', '*', '/', '*', '.', 't']] false = some [] := by
  decide

/-- **W2 regex-metacharacters-unescaped (glob.go:49-57: only `+` and `.` are escaped).**  `d/**/x(1).t` does not
    select the file `d/x(1).t` -- the parentheses reach `regexp.Compile` as a group -- but does select `d/x1.t`. -/
theorem C21_witness_regex_metacharacters :
    run [] (di ['d'] (fi ['x', '(', '1', ')', '.', 't'] (fi ['x', '1', '.', 't'])))
      [['d', '/', '*', '*', '/', 'x', '(', '1', ')', '.', 't']] false = some [['d', '/', 'x', '1', '.', 't']] ∧
    want [] (di ['d'] (fi ['x', '(', '1', ')', '.', 't'] (fi ['x', '1', '.', 't'])))
      [['d', '/', '*', '*', '/', 'x', '(', '1', ')', '.', 't']] false = some [['d', '/', 'x', '(', '1', ')', '.', 't']] := by
  decide

/-- **W3 qmark-matches-slash (glob.go:53 `?` ↦ `.`).**  Next to a `**`, `?` matches the path separator:
    `d/**/a?b` returns `d/a/b`. -/
theorem C21_witness_qmark_matches_slash :
    run [] (di ['d'] (di ['a'] (fi ['b']))) [['d', '/', '*', '*', '/', 'a', '?', 'b']] false = some [['d', '/', 'a', '/', 'b']] ∧
    want [] (di ['d'] (di ['a'] (fi ['b']))) [['d', '/', '*', '*', '/', 'a', '?', 'b']] false = some [] := by
  decide

/-- **W4 leading-doublestar-root-package (glob.go:56: `/.*/` ↦ `/(.*/)?` needs a preceding '/').**  In the root
    package (`filepath.Join(".", p) = p`) the pattern `**/*.t` becomes `^.*/[^/]*\.t$` and misses `a.t`. -/
theorem C21_witness_leading_doublestar_root_package :
    run [] (fi ['a', '.', 't']) [['*', '*', '/', '*', '.', 't']] false = some [] ∧
    want [] (fi ['a', '.', 't']) [['*', '*', '/', '*', '.', 't']] false = some [['a', '.', 't']] ∧
    -- the same pattern one package down works
    run [['p']] (fi ['B'] (fi ['a', '.', 't'])) [['*', '*', '/', '*', '.', 't']] false = some [['a', '.', 't']] := by
  decide

/-- **W5 package-root-returned (glob.go:187: WalkDir reports the root itself, `*` matches ".").**  With
    `hidden = True` the root package's `glob(["*"])` contains ".". -/
theorem C21_witness_package_root_returned :
    run [] (fi ['a']) [['*']] true = some [['.'], ['a']] ∧ want [] (fi ['a']) [['*']] true = some [['a']] := by
  decide

/-- **W6 negated-class-matches-slash (`filepath.Match` and the regexp alike).**  `d[^a]x` returns `d/x`. -/
theorem C21_witness_negated_class_matches_slash :
    run [] (di ['d'] (fi ['x'])) [['d', '[', '^', 'a', ']', 'x']] false = some [['d', '/', 'x']] ∧
    want [] (di ['d'] (fi ['x'])) [['d', '[', '^', 'a', ']', 'x']] false = some [] := by
  decide

/-- **W7 plz-out-name-any-depth (glob.go:181 tests `d.Name()`, not the path).**  In the root package an entry merely
    *named* plz-out is skipped at any depth: `n/*` does not return `n/plz-out`; a regular file of that name also
    drops the siblings after it (`SkipDir` for a non-directory). -/
theorem C21_witness_plz_out_name_any_depth :
    run [] (di ['n'] (di plzOut (fi ['h']))) [['n', '/', '*']] false = some [] ∧
    want [] (di ['n'] (di plzOut (fi ['h']))) [['n', '/', '*']] false = some [['n', '/', 'p', 'l', 'z', '-', 'o', 'u', 't']] ∧
    run [] (di ['n'] (fi plzOut (fi ['z']))) [['n', '/', '*']] false = some [] ∧
    want [] (di ['n'] (fi plzOut (fi ['z']))) [['n', '/', '*']] false = some [['n', '/', 'p', 'l', 'z', '-', 'o', 'u', 't'], ['n', '/', 'z']] := by
  decide

/-- The four defects that are not in `toRegexString` persist whatever combination of its repairs is in place. -/
theorem C21_witnesses_persist (o : MOpts) :
    runO o [['p']] (fi ['B'] (di ['.', 'h'] (fi ['b', '.', 't']))) [['*', '*', '/', '*', '.', 't']] false
      = some [['.', 'h', '/', 'b', '.', 't']] ∧
    runO o [] (fi ['a']) [['*']] true = some [['.'], ['a']] ∧
    runO o [] (di ['d'] (fi ['x'])) [['d', '[', '^', 'a', ']', 'x']] false = some [['d', '/', 'x']] ∧
    runO o [] (di ['n'] (di plzOut (fi ['h']))) [['n', '/', '*']] false = some [] := by
  obtain ⟨a, b, c⟩ := o
  cases a <;> cases b <;> cases c <;> decide

/-- Each of the three `toRegexString` repairs removes its witness: with `?` ↦ `[^/]` the pattern `d/**/a?b` no longer
    returns `d/a/b`; with the leading `^.*/` ↦ `^(.*/)?` the root package's `**/*.t` finds `a.t`; with `(` `)` `|`
    escaped `d/**/x(1).t` selects `d/x(1).t` and nothing else. -/
theorem C21_repairs :
    runO ⟨true, false, false⟩ [] (di ['d'] (di ['a'] (fi ['b']))) [['d', '/', '*', '*', '/', 'a', '?', 'b']] false = some [] ∧
    runO ⟨false, true, false⟩ [] (fi ['a', '.', 't']) [['*', '*', '/', '*', '.', 't']] false = some [['a', '.', 't']] ∧
    runO ⟨false, false, true⟩ [] (di ['d'] (fi ['x', '(', '1', ')', '.', 't'] (fi ['x', '1', '.', 't'])))
      [['d', '/', '*', '*', '/', 'x', '(', '1', ')', '.', 't']] false = some [['d', '/', 'x', '(', '1', ')', '.', 't']] := by
  decide

/-- **The full-strength statement is refuted for the facts read on this run** (by the hidden-directory witness,
    which no `toRegexString` repair touches). -/
theorem C21_exact_refuted :
    ¬ ∀ (root : List Name) (t : Forest) (inc : List Name) (hidden : Bool) (q : Query) (l : List Name),
        mkQuery inc [['B']] hidden true = some q → globAll facts bcfg root (.dir t) inc [['B']] hidden true = some l →
        l.Perm (specGlob bcfg q root (.dir t)) := by
  intro h
  have w := (C21_witnesses_persist opts).1
  have ww := C21_witness_hidden_dir_contents.2
  obtain ⟨q, hq⟩ : ∃ q, mkQuery [['*', '*', '/', '*', '.', 't']] [['B']] false true = some q := by
    cases e : mkQuery [['*', '*', '/', '*', '.', 't']] [['B']] false true with
    | none => simp [want, e] at ww
    | some q => exact ⟨q, rfl⟩
  have hp := h [['p']] (fi ['B'] (di ['.', 'h'] (fi ['b', '.', 't']))) [['*', '*', '/', '*', '.', 't']] false q _ hq
    (by rw [facts_eq_canon]; exact w)
  simp only [want, hq, Option.map_some, Option.some.injEq] at ww
  rw [ww] at hp
  exact absurd hp.length_eq (by decide)

/-- While the chain read on this run has none of the optional repairs, it is the structure the witnesses are about
    (each repair removes its witness: see `C21_match_exact`, whose hypotheses relax with `opts`). -/
theorem C21_witnesses_apply (h : opts = MOpts.none) : globAll facts = globAll Glob.Facts.canon := by
  rw [facts_eq_canon, h]; rfl

/-! ### what holds for every input: the matchers on the fragment -/

/-- **Matcher exactness (partial).**  For a package at `root`, a parsed include / exclude pattern and an entry `rel`
    below the package, the matcher `patternToMatcher` selects -- `filepath.Match` on the joined pattern, or the regexp
    `toRegexString` produces, as denoted on parsed patterns by `structMatch` -- accepts the entry's path iff the
    pattern matches it *segment by segment*: `*`, `?`, `[class]` and literals stay inside one path component and
    `**` stands for whole components.  Hypotheses = exactly the matcher defects witnessed above are absent:
    no `?` in a pattern that contains `**` (W3), no negated class and no class containing '/' (W6), no `**/x` at the
    start of a root-package pattern (W4), and no `(`, `)`, `|` in a `**` pattern or in the path of a package that
    uses one (W2; `structMatch` reads every literal as itself, the string-level model and the code do not).
    Full statement: the same for all patterns; false by W2, W3, W4, W6. -/
theorem C21_match_exact (root : List Name) (segs : List Seg) (rel : List Name)
    (ok : okSegs (modeOf opts segs) segs = true) (na : noAdjacentDstar segs = true)
    (groot : gpath root = true) (sroot : safePath (modeOf opts segs) root = true)
    (grel : gpath rel = true) (hrel : rel ≠ []) (hs : segs ≠ [])
    (hlead : root = [] → opts.leadOpt = true ∨ leadingDstar segs = false) :
    structMatch opts root segs (joinSlash (root ++ rel)) = segMatch segs rel :=
  structMatch_spec opts root segs rel ok na groot sroot grel hrel hs hlead

-- the hypotheses are satisfiable: `src/**/*_test.go` in package `pkg` against `src/a/b/x_test.go`
example : structMatch opts [['p', 'k', 'g']]
    [.items [.lit 's', .lit 'r', .lit 'c'], .dstar, .items [.star, .lit '_', .lit 't', .lit '.', .lit 'g', .lit 'o']]
    (joinSlash ([['p', 'k', 'g']] ++ [['s', 'r', 'c'], ['a'], ['b'], ['x', '_', 't', '.', 'g', 'o']])) = true := by decide

/-- `filepath.Match` alone (patterns without `**`): `?` *is* confined to a component there. -/
theorem C21_builtin_exact (segs : List Seg) (comps : List Name) (ok : okSegs Mode.builtin segs = true)
    (g : gpath comps = true) (hne : comps ≠ []) (hs : segs ≠ []) :
    gmatch (flattenSegs segs) (joinSlash comps) = segMatch segs comps :=
  builtin_spec segs comps ok g hne hs

/-- The regexp alone, at any position (`atStart = false`: a '/' precedes, as everywhere outside the root package):
    `a/**/b` ↦ `a/(.*/)?b` and `a/**` ↦ `a/.*` are exact. -/
theorem C21_regex_exact (segs : List Seg) (atStart : Bool) (comps : List Name)
    (ok : okSegs (Mode.regex opts) segs = true) (na : noAdjacentDstar segs = true) (g : gpath comps = true)
    (hne : comps ≠ []) (hs : segs ≠ []) (hst : atStart = true → opts.leadOpt = true ∨ leadingDstar segs = false) :
    rmatch (toReSegs (Mode.regex opts) atStart segs) (·.isEmpty) (joinSlash comps) = segMatch segs comps :=
  toReSegs_spec (Mode.regex opts) segs atStart comps ok na g hne hs hst

/-- **From the pattern text to the parsed-pattern matcher: the `filepath.Match` half, proved.**  For a parsed pattern
    without `**` whose items are what `parseGlob` produces (`canonItem`) and whose text `renderSegs segs` is a clean
    pattern without a `**` substring, `patternToMatcher facts` -- the string-level pipeline of the model, driven by the
    regenerated facts -- applied to the *text* accepts exactly the names `structMatch` accepts.  So for patterns
    without `**`, `C21_match_exact` and `C21_exact_partial` are statements about the string-level model itself.
    (The regexp half -- `ReplaceAll` chain + regexp parser vs `toReSegs` -- is tied by the driver's cross-check on
    every case and by the `decide` examples below, not by a theorem.) -/
theorem C21_builtin_bridge (root : List Name) (segs : List Seg) (gr : gpath root = true) (hs : segs ≠ [])
    (hnd : hasDstar segs = false) (hc : (flattenSegs (root.map litSeg ++ segs)).all canonItem = true)
    (hclean : cleanPat (renderSegs segs) = true) (hns : containsSub ['*', '*'] (renderSegs segs) = false) (n : Name) :
    (patternToMatcher facts (nameOf root) (renderSegs segs)).map (·.run n) = some (structMatch opts root segs n) :=
  builtin_bridge_run facts (by rw [facts_eq_canon]; rfl) opts root segs gr hs hnd hc hclean hns n

-- the hypotheses are satisfiable, and `renderSegs` is the pattern text: `*.[a-k]?` in package `p`
example : renderSegs [.items [.star, .lit '.', .cls false [('a', 'k')], .any]] = ['*', '.', '[', 'a', '-', 'k', ']', '?'] ∧
    (flattenSegs ([['p']].map litSeg ++ [.items [.star, .lit '.', .cls false [('a', 'k')], .any]])).all canonItem = true ∧
    cleanPat (renderSegs [.items [.star, .lit '.', .cls false [('a', 'k')], .any]]) = true ∧
    containsSub ['*', '*'] (renderSegs [.items [.star, .lit '.', .cls false [('a', 'k')], .any]]) = false := by decide

/-! The string-level pipeline (`ReplaceAll` chain, regexp / glob parser) and the parsed-pattern denotation used in the
    theorems accept the same names on concrete patterns (every generated case is cross-checked by the driver too). -/
def sampleNames : List Name :=
  [['p'], ['p', '/', 'a'], ['p', '/', 'a', '/', 'x', '.', 't'], ['p', '/', 'a', '/', 'b', '/', 'c', '/', 'x', '.', 't'],
   ['p', '/', 'a', 'x', '.', 't'], ['p', '/', 'a', '/', '.', 't'], ['p', '/', 'a', '/', 'b', '/', 'x', '.', 'u'], ['a', '+', 'b'],
   ['q', '/', 'a', '+', 'b'], ['q', '/', 'r', '/', 'a', '+', 'b'], ['a', 'a', 'b'], ['p', '/', 'x', '.', 'c', 'z'], ['p', '/', '.', 'c', '/'],
   ['p', '/', 'y', '.', 'k', 'q']]

example : ∀ n ∈ sampleNames,
    (patternToMatcher Glob.Facts.canon ['p'] ['a', '/', '*', '*', '/', '*', '.', 't']).map (·.run n) =
    some (structMatch MOpts.none [['p']] [.items [.lit 'a'], .dstar, .items [.star, .lit '.', .lit 't']] n) := by decide
example : ∀ n ∈ sampleNames,
    (patternToMatcher Glob.Facts.canon ['.'] ['*', '*', '/', 'a', '+', 'b']).map (·.run n) =
    some (structMatch MOpts.none [] [.dstar, .items [.lit 'a', .lit '+', .lit 'b']] n) := by decide
example : ∀ n ∈ sampleNames,
    (patternToMatcher Glob.Facts.canon ['p'] ['*', '.', '[', 'a', '-', 'k', ']', '?']).map (·.run n) =
    some (structMatch MOpts.none [['p']] [.items [.star, .lit '.', .cls false [('a', 'k')], .any]] n) := by decide

/-! ### what holds for every input: the filters -/

/-- **What one include pattern returns, exactly.**  Whenever `globber.glob` succeeds, a name is in its result iff it
    was walked (as a file or directory, or as a symlink when those are included), the compiled matcher accepts it, it
    is not inside (or equal to) a recorded sub-package, it is not hidden by base name unless hidden files were asked
    for, and no exclude pattern removes it.  Nothing else is added, nothing else is dropped. -/
theorem C21_returned_iff (F : Glob.Facts) (rootName : Name) (w : Walked) (incl : Name) (excludes : List Name)
    (hidden symlinks : Bool) (mt : Matcher) (l : List Name)
    (hm : patternToMatcher F rootName incl = some mt)
    (h : globOne F rootName w incl excludes hidden symlinks = some l) (m : Name) :
    m ∈ l ↔ (m ∈ w.files ∨ (symlinks = true ∧ m ∈ w.symlinks)) ∧ mt.run m = true ∧
      isInDirectories m w.subPackages = false ∧ (hidden = true ∨ isHidden F m = false) ∧
      shouldExclude F rootName m excludes = some false := by
  simp only [globOne, hm] at h
  rw [foldr_filter_iff _ _ l h m]
  simp only [List.mem_filter, Bool.and_eq_true, Bool.not_eq_true', Bool.and_eq_false_imp]
  cases symlinks <;> cases hidden <;> simp [and_assoc, or_and_right]

/-- **Sub-packages are excluded by whole path components.**  `isInDirectories` (`strings.HasPrefix(name, dir+"/") ||
    name == dir`) holds for a walked path `q` and a recorded sub-package `d` iff `d`'s components are a leading run
    of `q`'s components: a package `pkg/ab` never hides `pkg/abc.txt` (contrast C22). -/
theorem C21_subpackage_componentwise (d q : List Name) (gd : gpath d = true) (gq : gpath q = true)
    (hd : d ≠ []) (hq : q ≠ []) :
    isInDirectories (joinSlash q) [joinSlash d] = d.isPrefixOf q :=
  inDirs_componentwise d q gd gq hd hq

/-! ### what holds for every input: the walk -/

/-- **The walk and the two tree filters, exactly (partial).**  For a package at `root` whose sorted listing is benign
    (`benF`: in the root package nothing but a top-level directory is named plz-out -- W7; without `hidden` no
    directory has a hidden name -- W1; sibling names distinct; no directory named like a BUILD file), the names
    `walkDir` records that survive `isInDirectories(·, subPackages)` and `isHidden` -- other than the package directory
    itself (W5) -- are *exactly* the paths of the package's owned, visible entries (`ownFo`): entries below the package,
    not inside a directory that has a BUILD-named entry, not inside the root package's `plz-out`, not hidden; and the
    symlink bucket holds exactly the symlinks among them.  In particular nothing inside a sub-package or `plz-out` is
    ever a candidate, and nothing owned and visible is lost -- whatever the order of BUILD files and other entries in
    the listing (WalkDir's `SkipDir`-for-a-file rule cuts only inside directories that are excluded anyway). -/
theorem C21_walk_exact_partial (cfg : Cfg) (hidden : Bool) (root : List Name) (cs : Forest)
    (gr : gpath root = true) (gok : Forest.gok cs.sort = true)
    (ben : benF cfg hidden root.isEmpty true cs.sort = true)
    (hroot : cfg.buildNames.contains (lastOr root) = false) (m : Name) (l : Bool) (hm : m ≠ nameOf root) :
    ((m ∈ (if l then (walkDir facts cfg root (.dir cs)).symlinks else (walkDir facts cfg root (.dir cs)).files)) ∧
      isInDirectories m (walkDir facts cfg root (.dir cs)).subPackages = false ∧
      (hidden = true ∨ isHidden facts m = false))
    ↔ ∃ e, (e, l) ∈ ownFo cfg hidden root.isEmpty [] cs.sort ∧ m = nameOf (root ++ e) :=
  walk_candidates facts (by rw [facts_eq_canon]; exact ⟨rfl, rfl, rfl⟩) cfg hidden root cs gr gok ben hroot m l hm

-- the hypotheses are satisfiable: package `p` with a file, a nested package, a hidden file and a plain directory
example : benF bcfg false false true (Forest.sort (fi ['a'] (di ['s'] (fi ['B'] (fi ['x'])) (fi ['.', 'h'] (di ['d'] (fi ['y'])))))) = true ∧
    Forest.gok (Forest.sort (fi ['a'] (di ['s'] (fi ['B'] (fi ['x'])) (fi ['.', 'h'] (di ['d'] (fi ['y'])))))) = true := by
  decide

/-- The specification *is* "owned, visible entries selected by the patterns": `specFo` (what the witnesses and the
    reference oracle compare against) filters `ownFo` by include / exclude patterns and the symlink switch. -/
theorem C21_spec_is_selection (cfg : Cfg) (q : Query) (top : Bool) (cs : Forest) (rel : List Name) :
    specFo cfg q top rel cs = ((ownFo cfg q.hidden top rel cs).filter (selects q)).map (·.1) :=
  specFo_eq_own cfg q top cs rel

/-! ### the whole of glob, on parsed patterns -/

/-- **glob() against its specification, end to end (partial).**  Take a package at `root` with a benign sorted listing
    (`benF`, as in `C21_walk_exact_partial`), include and exclude patterns of the fragment that meet the matcher
    hypotheses of `C21_match_exact` (`patOK`), excludes given with their text (`x.1`) and parsed form (`x.2`).  Then a
    name other than the package directory passes *the pipeline `globber.glob` runs* -- walked (symlinks only if asked
    for), accepted by the matcher of some include pattern, not in a recorded sub-package, not hidden by base name, removed
    by no exclude (`shouldExcludeMatch`: base-path test, file-name-only rule, matcher) -- **iff** it is the path of an
    entry the specification `specFo` selects.  The pipeline is the one `C21_returned_iff` shows `globOne` to compute,
    with each compiled matcher read on the parsed pattern (`structMatch` / `exclOneS`; the string-level compile is tied
    to that reading by the driver's cross-check on every case, not by a theorem).
    Full statement: the same for every tree and pattern; false by the seven witnesses. -/
theorem C21_exact_partial (cfg : Cfg) (q : Query) (root : List Name) (cs : Forest)
    (gr : gpath root = true) (gok : Forest.gok cs.sort = true)
    (ben : benF cfg q.hidden root.isEmpty true cs.sort = true)
    (hroot : cfg.buildNames.contains (lastOr root) = false)
    (hinc : ∀ segs ∈ q.includes, patOK opts root segs)
    (hexc : ∀ x ∈ q.excludes, patOK opts root x.2 ∧ x.2.length = (splitOnSlash x.1).length ∧ gpath (splitOnSlash x.1) = true)
    (m : Name) (hm : m ≠ nameOf root) :
    ((m ∈ (walkDir facts cfg root (.dir cs)).files ∨ (q.symlinks = true ∧ m ∈ (walkDir facts cfg root (.dir cs)).symlinks)) ∧
      (q.includes.any fun s => structMatch opts root s m) = true ∧
      isInDirectories m (walkDir facts cfg root (.dir cs)).subPackages = false ∧
      (q.hidden = true ∨ isHidden facts m = false) ∧
      (q.excludes.any fun x => exclOneS opts root m x.1 x.2) = false)
    ↔ ∃ e ∈ specFo cfg q root.isEmpty [] cs.sort, m = nameOf (root ++ e) :=
  glob_struct_exact facts (by rw [facts_eq_canon]; exact ⟨rfl, rfl, rfl⟩) opts cfg q root cs gr gok ben hroot hinc hexc m hm

-- the pattern hypotheses are satisfiable: `src/**/*.go` with exclude `*_test.go` in package `pkg`
example : patOK opts [['p', 'k', 'g']] [.items [.lit 's', .lit 'r', .lit 'c'], .dstar, .items [.star, .lit '.', .lit 'g', .lit 'o']] ∧
    patOK opts [['p', 'k', 'g']] [.items [.star, .lit '_', .lit 't', .lit '.', .lit 'g', .lit 'o']] := by
  refine ⟨⟨by decide, by decide, by simp, by decide, by intro h; cases h⟩, ⟨by decide, by decide, by simp, by decide, by intro h; cases h⟩⟩

/-- One exclude pattern, as `shouldExcludeMatch` treats it, against the specification's three clauses (file name only
    for a pattern without separator; from the package directory; names the entry or a directory above it). -/
theorem C21_exclude_exact (root : List Name) (raw : Name) (segs : List Seg) (e : List Name)
    (gr : gpath root = true) (ge : gpath e = true) (he : e ≠ []) (hp : patOK opts root segs)
    (hlen : segs.length = (splitOnSlash raw).length) (graw : gpath (splitOnSlash raw) = true) :
    exclOneS opts root (nameOf (root ++ e)) raw segs = specExclOne raw segs e :=
  exclOneS_spec opts root raw segs e gr ge he hp hlen graw

/-! ### several glob() calls of one BUILD file: the Globber's walk cache -/

/-- The cache facts read on this run: what `walkedDirs` is keyed by, where hidden entries are dropped. -/
def cfacts : CacheFacts :=
  { keyHasHidden := C21.cacheKeyHasHidden, hiddenAtWalk := C21.hiddenAtWalk, hiddenPerMatch := C21.hiddenPerMatch }

theorem cfacts_ok : cfacts.hiddenAtWalk = false ∧ cfacts.hiddenPerMatch = true := by
  have h := C21_facts_ok
  simp only [FactsOK, Bool.and_eq_true, Bool.not_eq_true'] at h
  exact ⟨h.2, h.1.2⟩

/-- **The walk cache is transparent: every glob() call of a BUILD file means what it means alone.**  The BUILD
    language keeps one Globber per package scope, so the `glob()` calls of one file share `walkedDirs`.  For every
    repository tree, every sequence of calls (any package directories, include and exclude patterns, `hidden` and
    symlink flags, in any order, panicking calls included), the k-th call returns exactly what the same call returns
    on a Globber of its own -- because (a) the cached listing depends on nothing but its key (hidden entries are not
    dropped while walking) and (b) hidden filtering is applied per call (`C21_facts_ok`). -/
theorem C21_cache_transparent (cfg : Cfg) (whole : Tree) (calls : List Call) :
    runSeq cfacts facts cfg whole [] calls = calls.map (freshCall cfacts facts cfg whole) :=
  runSeq_transparent cfacts (Or.inl cfacts_ok.1) facts cfg whole calls [] (inv_nil _ _ _ _)

/-- ... and a call on a Globber of its own is `globAll` on the package directory, the function all the theorems above
    are about: so `C21_exact_partial` speaks about every call of every sequence. -/
theorem C21_call_is_globAll (cfg : Cfg) (whole : Tree) (c : Call) (t : Tree) (hs : subdir whole c.root = some t) :
    freshCall cfacts facts cfg whole c = globAll facts cfg c.root t c.includes c.excludes c.hidden c.symlinks :=
  freshCall_eq_globAll cfacts cfacts_ok.1 cfacts_ok.2 facts cfg whole c t hs

/-- Counterfactual (why fact (a) matters): drop hidden entries while walking, keep the key `rootPath` only, and the
    second call of `glob(["*"], hidden=True); glob(["*"])` returns the hidden file `.h` (and "."), while alone it
    returns `a`; in the other order the `hidden=True` call loses `.h`. -/
theorem C21_witness_cache_keyed_by_root_only :
    runSeq ⟨false, true, false⟩ Glob.Facts.canon bcfg (.dir (fi ['a'] (fi ['.', 'h']))) []
      [⟨[], [['*']], [['B']], true, true⟩, ⟨[], [['*']], [['B']], false, true⟩] = [some [['.'], ['.', 'h'], ['a']], some [['.'], ['.', 'h'], ['a']]] ∧
    freshCall ⟨false, true, false⟩ Glob.Facts.canon bcfg (.dir (fi ['a'] (fi ['.', 'h']))) ⟨[], [['*']], [['B']], false, true⟩ = some [['a']] ∧
    runSeq ⟨false, true, false⟩ Glob.Facts.canon bcfg (.dir (fi ['a'] (fi ['.', 'h']))) []
      [⟨[], [['*']], [['B']], false, true⟩, ⟨[], [['*']], [['B']], true, true⟩] = [some [['a']], some [['a']]] := by
  decide

end PlzVerif.Props.C21
