import PlzVerif.Lemmas.PathHash
import PlzVerif.Generated.C09
/-!
C09  Path hashes distinguish every difference in a file tree.

All theorems are about `pathSer Generated.C09.schema`: the model of `fs.PathHasher.Hash` instantiated with
the write schema read from /repo's `src/fs/hash.go` on this run (the digest is idealised as injective, so
"same hash" is "same pre-image").

Full-strength statement: `Distinguishes schema` — at a repo-managed path, two well-formed trees with equal
pre-images are equal.  The pinned code violates it (`C09_violated`, seven kernel-checked witnesses).
What does hold: `C09_dir_iff` / `C09_symlink_iff` (the exact collision conditions), `C09_classified` (the four named
root causes are exhaustive) and the `…_partial` theorems; `C09_full_framed` shows that the framed
encoder of the fix sketch satisfies the full statement.
-/
namespace PlzVerif.Props.C09
open PlzVerif.PathHash PlzVerif.Generated PlzVerif.Frame

abbrev S : Schema := C09.schema

/-- Side condition on the regenerated facts (decidable). -/
def FactsOK : Bool :=
  C09.schema == contentOnly [2] &&
  C09.hashRelativisesPath && C09.ensureRelativeShape == "hasprefix-trimprefix-trimleft-slash" &&
  C09.fileHashWholeFile && !C09.walkUnsorted && !C09.walkFollowsSymlinks

/-- Obligation a code change can break: the facts extracted from /repo satisfy the side condition. -/
theorem C09_facts_ok : FactsOK = true := by decide

theorem schema_eq : C09.schema = contentOnly [2] := by
  have h := C09_facts_ok
  simp only [FactsOK, Bool.and_eq_true, beq_iff_eq] at h
  exact h.1.1.1.1.1

/-- Top-level symlinks point into the repo (the branch that hashes the destination's name). -/
def Managed (root path : Bytes) (t : Tree) : Prop := managed root (ensureRelative root path) t = true

instance (root path : Bytes) (t : Tree) : Decidable (Managed root path t) := by unfold Managed; infer_instance

/-- The property at full strength. -/
def Distinguishes (S : Schema) : Prop :=
  ∀ (root path ext : Bytes) (t u : Tree), t.sorted = true → u.sorted = true →
    Managed root path t → Managed root path u →
    pathSer S root path ext t = pathSer S root path ext u → t = u

/-! ### the repair satisfies the full statement -/

/-- Kind tag + length-prefixed names/contents/targets + counted entries is injective on all trees. -/
theorem C09_full_framed : Function.Injective serFramed := serFramed_uniq.inj

/-! ### witnesses: the pinned schema does not distinguish -/

def a : Bytes := [97]
def b : Bytes := [98]
def x : Bytes := [120]
def y : Bytes := [121]
def R : Bytes := [47, 82]            -- "/R"
def P : Bytes := [116]               -- "t"

/-- A collision: two different well-formed repo-managed trees with the same pre-image. -/
def Collide (root path : Bytes) (t u : Tree) : Prop :=
  t ≠ u ∧ t.sorted = true ∧ u.sorted = true ∧ Managed root path t ∧ Managed root path u ∧
    pathSer S root path [] t = pathSer S root path [] u

instance (root path : Bytes) (t u : Tree) : Decidable (Collide root path t u) := by unfold Collide; infer_instance

/-- A file renamed inside a directory: `{a:"x"}` vs `{b:"x"}`. -/
theorem C09_witness_names : Collide R P (.dir [(a, .file x)]) (.dir [(b, .file x)]) := by decide

/-- A file moved into a sub-directory: `{a:{b:"x"}}` vs `{a:"x"}`. -/
theorem C09_witness_position : Collide R P (.dir [(a, .dir [(b, .file x)])]) (.dir [(a, .file x)]) := by decide

/-- An empty directory added: `{a:"x"}` vs `{a:"x", b:{}}`. -/
theorem C09_witness_empty_dir : Collide R P (.dir [(a, .file x)]) (.dir [(a, .file x), (b, .dir [])]) := by decide

/-- A symlink retargeted inside a directory: `{a -> x}` vs `{a -> y}`. -/
theorem C09_witness_link_target : Collide R P (.dir [(a, .symlink x)]) (.dir [(a, .symlink y)]) := by decide

/-- Bytes moved across a file boundary: `{a:"xy"}` vs `{a:"x", b:"y"}`. -/
theorem C09_witness_boundary : Collide R P (.dir [(a, .file (x ++ y))]) (.dir [(a, .file x), (b, .file y)]) := by
  decide

/-- The in-band symlink marker: `{a -> x}` vs `{a:"\x02"}`. -/
theorem C09_witness_marker : Collide R P (.dir [(a, .symlink x)]) (.dir [(a, .file [2])]) := by decide

/-- No kind tag: an empty directory vs an empty file; a directory vs the file holding its concatenation;
    a symlink to `x` vs the file `"\x02x"`. -/
theorem C09_witness_kind : Collide R P (.dir []) (.file []) ∧ Collide R P (.dir [(a, .file x)]) (.file x) ∧
    Collide R P (.symlink x) (.file (2 :: x)) := by decide

/-- The root is stripped as a *string* prefix: `-> /R/x`, `-> /Rx` and `-> x` are one destination. -/
theorem C09_witness_root_prefix : Collide R P (.symlink (R ++ 47 :: x)) (.symlink x) ∧
    Collide R P (.symlink (R ++ x)) (.symlink x) := by decide

/-- The property as stated does not hold for the pinned code. -/
theorem C09_violated : ¬ Distinguishes S := by
  intro h
  obtain ⟨hne, hs1, hs2, hm1, hm2, he⟩ := C09_witness_names
  exact hne (h R P [] _ _ hs1 hs2 hm1 hm2 he)

/-! ### exactly where it fails, and where it holds -/

theorem pathSer_eq (root path ext : Bytes) (t : Tree) :
    pathSer S root path ext t = hashPre (contentOnly [2]) root (ensureRelative root path) ext t := by
  simp only [pathSer, S, schema_eq]

/-- Two directories collide exactly when their leaf sequences concatenate to the same bytes: names, nesting, empty
    directories, link targets and file boundaries play no part. -/
theorem C09_dir_iff (root path ext : Bytes) (es es' : List (Bytes × Tree)) :
    pathSer S root path ext (.dir es) = pathSer S root path ext (.dir es') ↔
      flat [2] (leavesList es) = flat [2] (leavesList es') := by
  rw [pathSer_eq, pathSer_eq, hashPre_dir, hashPre_dir]

/-- Two repo-managed top-level symlinks collide exactly when their destinations agree after the root prefix was
    stripped (this covers absolute in-repo destinations too). -/
theorem C09_symlink_iff (root path ext d d' : Bytes)
    (m1 : linkManaged root (ensureRelative root path) d = true) (m2 : linkManaged root (ensureRelative root path) d' = true) :
    pathSer S root path ext (.symlink d) = pathSer S root path ext (.symlink d') ↔ ensureRelative root d = ensureRelative root d' := by
  rw [pathSer_eq, pathSer_eq, hashPre_link_managed _ _ _ _ _ m1, hashPre_link_managed _ _ _ _ _ m2]
  constructor
  · exact List.append_cancel_left
  · intro h; rw [h]

/-- Classification of collisions at a repo-managed path into the four named root causes.  For most constructor pairs
    `classify` is the closed form of the pre-image equality (`C09_dir_iff`, `C09_symlink_iff` state that content
    directly); what the theorem adds is that the four classes are exhaustive and that `same` means equal trees. -/
theorem C09_classified (root path ext : Bytes) (t u : Tree) (ht : Managed root path t) (hu : Managed root path u)
    (h : pathSer S root path ext t = pathSer S root path ext u) :
    t = u ∨ classify [2] root t u = .names ∨ classify [2] root t u = .unframed ∨
      classify [2] root t u = .kind ∨ classify [2] root t u = .rootPrefix := by
  rw [pathSer_eq, pathSer_eq] at h
  have hc := classified [2] root _ ext t u ht hu h
  have hs := classify_same_iff [2] root t u
  cases hcl : classify [2] root t u <;> simp_all

example : Managed R P (.dir [(a, .file x)]) ∧ classify [2] R (.dir [(a, .file x)]) (.dir [(b, .file x)]) = .names := by
  decide

/-- Single regular files are distinguished. -/
theorem C09_partial_file (root path ext c c' : Bytes)
    (h : pathSer S root path ext (.file c) = pathSer S root path ext (.file c')) : c = c' := by
  simpa [pathSer_eq, hashPre_file] using h

/-- Top-level symlinks with relative destinations are distinguished. -/
theorem C09_partial_symlink (root path ext d d' : Bytes) (hp : isAbs (ensureRelative root path) = false)
    (hd : isAbs d = false) (hd' : isAbs d' = false) (hr : hasPrefix d root = false) (hr' : hasPrefix d' root = false)
    (h : pathSer S root path ext (.symlink d) = pathSer S root path ext (.symlink d')) : d = d' := by
  have m1 : linkManaged root (ensureRelative root path) d = true := by simp [linkManaged, hd, hp]
  have m2 : linkManaged root (ensureRelative root path) d' = true := by simp [linkManaged, hd', hp]
  rw [pathSer_eq, pathSer_eq, hashPre_link_managed _ _ _ _ _ m1, hashPre_link_managed _ _ _ _ _ m2] at h
  have := List.append_cancel_left h
  simpa [ensureRelative, hr, hr'] using this

example : isAbs (ensureRelative R P) = false ∧ isAbs x = false ∧ hasPrefix x R = false := by decide

/-- Directories with the same names, kinds, link targets and file *sizes* are distinguished by content. -/
theorem C09_partial_same_skeleton (root path ext : Bytes) (es es' : List (Bytes × Tree))
    (hs : skel (.dir es) = skel (.dir es'))
    (h : pathSer S root path ext (.dir es) = pathSer S root path ext (.dir es')) : es = es' := by
  rw [pathSer_eq, pathSer_eq, hashPre_dir, hashPre_dir] at h
  have := sameSkel_inj [2] (.dir es) (.dir es') hs (by simpa [leaves] using h)
  injection this

example : skel (.dir [(a, .file x)]) = skel (.dir [(a, .file y)]) := by simp [skel, skelList, x, y]

/-- An in-place edit of exactly one file (any size change) always changes the hash of the directory. -/
theorem C09_partial_edit (root path ext : Bytes) (es es' : List (Bytes × Tree)) (e : Edit1 (.dir es) (.dir es')) :
    pathSer S root path ext (.dir es) ≠ pathSer S root path ext (.dir es') := by
  rw [pathSer_eq, pathSer_eq, hashPre_dir, hashPre_dir]
  simpa [leaves] using edit1_changes [2] e

example : Edit1 (.dir [(a, .file x), (b, .file y)]) (.dir [(a, .file x), (b, .file (y ++ x))]) :=
  .dir [(a, .file x)] [] b _ _ (.file _ _ (by decide))

/-- Adding or removing entries that write a different total number of bytes changes the hash
    (in particular: adding a non-empty file or any symlink, as the comment in hash.go promises). -/
theorem C09_partial_size (root path ext : Bytes) (es es' : List (Bytes × Tree))
    (hsz : size [2] (.dir es) ≠ size [2] (.dir es')) :
    pathSer S root path ext (.dir es) ≠ pathSer S root path ext (.dir es') := by
  rw [pathSer_eq, pathSer_eq, hashPre_dir, hashPre_dir]
  simpa [leaves] using size_ne [2] (.dir es) (.dir es') hsz

example : size [2] (.dir [(a, .file x)]) ≠ size [2] (.dir [(a, .file x), (b, .symlink y)]) := by decide

/-- The walk is the sorted, non-following one the model assumes. -/
theorem C09_walk_sorted : C09.walkUnsorted = false ∧ C09.walkFollowsSymlinks = false := by decide

end PlzVerif.Props.C09
