import PlzVerif.Lemmas.Walk
import PlzVerif.Lemmas.WalkDecl
import PlzVerif.Generated.C22
/-!
C22  `//dir/...` expands to exactly the packages under the directory.

"Expanding `//dir/...` yields exactly the directories under dir that contain a BUILD file, excluding plz-out,
hidden directories, and configured blacklisted directories.  Blacklisted directories are matched as whole path
components, so blacklisting `out` does not hide `output/`."

* code  : `findAll facts cfg p t` -- `plz.FindAllBuildFiles` + `godirwalk.Walk`, the callback interpreted from
          the formulas regenerated from src/plz/plz.go on this run (`Generated.C22`);
* spec  : `specNames plzOut cfg p t` -- BUILD files of the non-excluded directories, exclusion decided on lists
          of path components (`specExcluded`, `compMatch`), no string prefixes anywhere; characterised
          declaratively by `C22_spec_declarative`.

The property holds at full strength for the code as repaired by the two `fix:` commits (blacklist matched by whole
components; `filepath.SkipDir` returned for directories only): `C22_exact`.  The two defects of the structure the
source had before (`Facts.canon`) stay on record as theorems about that structure, and as conditional statements
about any facts whose callback is the old one.
-/
namespace PlzVerif.Props.C22
open PlzVerif.Walk PlzVerif.Generated

/-- The facts read from /repo on this run. -/
def facts : Facts :=
  { outDir := C22.outDir, chain := C22.chain, blCond := C22.blCond,
    cutOnNonDir := C22.cutOnNonDir, sorted := C22.sorted }

/-- Side condition on the regenerated facts (decidable: formulas compared under all 256 resp. 32 valuations of the
    atoms they may mention): the callback is, up to propositional equivalence, the repaired one. -/
def FactsOK : Bool :=
  decide (C22.outDir = plzOut) &&
  decide (ChainEquiv C22.chain Facts.repaired.chain) &&
  decide (CondEquiv C22.blCond Facts.repaired.blCond) &&
  C22.sorted && C22.walkPassesIsDir && C22.rootEmptyBecomesDot && C22.expandPrefixArg == ""

/-- Obligation a code change can break. -/
theorem C22_facts_ok : FactsOK = true := by decide +kernel

theorem callback_facts : callback facts = cbRepaired := by
  have h := C22_facts_ok
  simp only [FactsOK, Bool.and_eq_true, decide_eq_true_eq] at h
  obtain ⟨⟨⟨⟨⟨⟨ho, hc⟩, hb⟩, _⟩, _⟩, _⟩, _⟩ := h
  rw [← callback_repaired]
  exact callback_congr facts Facts.repaired ho hc hb

theorem findAll_eq (cfg : Config) (p : List Name) (t : Tree) :
    findAll facts cfg p t = (walk (cbRepaired cfg) C22.cutOnNonDir (nameOf p) t.sort).1 := by
  have hs : facts.sorted = true := by
    have h := C22_facts_ok
    simp only [FactsOK, Bool.and_eq_true] at h
    exact h.1.1.1.2
  simp only [findAll, hs, if_true, callback_facts]; rfl

/-- **The property, full strength.**  For every directory tree (any listing order, symlinks, files and
    directories with any names), every configuration of BUILD file names, experimental directories and blacklist
    entries, and every start directory `p`: `FindAllBuildFiles(config, p, "")` yields *exactly* the specified list --
    the BUILD files of the directories under `p` that are not `plz-out`, hidden, experimental or blacklisted by whole
    path components -- in the order of the sorted listing, whatever godirwalk does with `SkipDir` on a
    non-directory (the callback no longer returns it for one). -/
theorem C22_exact (cfg : Config) (p : List Name) (cs : Forest) (w : Forest.wf cs = true)
    (g : goodPath p = true) (hp : cfg.pfx = []) :
    findAll facts cfg p (.dir cs) = specNames plzOut cfg p (Tree.dir cs).sort := by
  rw [findAll_eq]
  have w' : Forest.wf cs.sort = true := by rw [wfF_sort]; exact w
  have ha := allNodes_mono (fun _ _ => true) (agreeAt (cbRepaired cfg) C22.cutOnNonDir plzOut cfg) (specExcluded plzOut cfg)
    (fun q k gq _ => agree_repaired C22.cutOnNonDir cfg hp q k gq)
    (Tree.dir cs).sort p (by simpa [Tree.sort, Tree.wf] using w') g (allNodes_true _ _ _)
  simp only [Tree.sort] at ha ⊢
  rw [walk_eq_spec _ _ plzOut cfg cs.sort p w' g ha]

/-- ... and as a set of packages it does not depend on the order of the directory listing. -/
theorem C22_exact_set (cfg : Config) (p : List Name) (cs : Forest) (w : Forest.wf cs = true)
    (g : goodPath p = true) (hp : cfg.pfx = []) :
    (findAll facts cfg p (.dir cs)).Perm (specNames plzOut cfg p (.dir cs)) := by
  rw [C22_exact cfg p cs w g hp]
  exact (spec_sort plzOut cfg (.dir cs) p).map nameOf

-- non-vacuity, on the two shapes that used to fail: blacklist `out` next to `output/`, and a file `m` matching a
-- blacklist entry next to the package `q/`
example : findAll facts ⟨[['B']], [], [['o', 'u', 't']], []⟩ []
    (.dir (.cons ['o', 'u', 't', 'p', 'u', 't'] (.dir (.cons ['B'] (.leaf .file) .nil)) .nil))
    = [['o', 'u', 't', 'p', 'u', 't', '/', 'B']] := by decide
example : findAll facts ⟨[['B']], [], [['m']], []⟩ []
    (.dir (.cons ['m'] (.leaf .file) (.cons ['q'] (.dir (.cons ['B'] (.leaf .file) .nil)) .nil))) = [['q', '/', 'B']] := by decide

/-- **Soundness for any `prefix` argument** (the other caller shapes of `FindAllBuildFiles`): nothing outside the
    specification is ever yielded. -/
theorem C22_sound (cfg : Config) (p : List Name) (cs : Forest) (w : Forest.wf cs = true) (g : goodPath p = true) :
    ∀ x ∈ findAll facts cfg p (.dir cs), x ∈ specNames plzOut cfg p (.dir cs) := by
  intro x hx
  rw [findAll_eq] at hx
  have w' : Forest.wf cs.sort = true := by rw [wfF_sort]; exact w
  have := walk_sound (cbRepaired cfg) C22.cutOnNonDir plzOut cfg
    (fun q gq => cbRepaired_sound_dir cfg q gq) (fun q gq => cbRepaired_sound_leaf cfg q gq)
    cs.sort p w' g x (by simpa [Tree.sort] using hx)
  have hp := (spec_sort plzOut cfg (.dir cs) p).map nameOf
  exact hp.mem_iff.mp (by simpa [specNames, Tree.sort] using this)

/-- String prefix vs component prefix, the heart of the first repair: on clean paths the whole-component test on
    strings (`dir == basename || name == dir || strings.HasPrefix(name, dir+"/")`) coincides with equality of
    component sequences. -/
theorem C22_component_test (q : List Name) (d : Name) (g : goodPath q = true) :
    blComp (nameOf q) (lastOr q) d = (d == lastOr q || compMatch d q) := blComp_eq q d g

/-! ### on record: the structure before the two fix commits (`Facts.canon`) violated the property -/

/-- BUILD file name `B`, blacklist `out`; `output/B` exists. -/
def cfgW1 : Config := ⟨[['B']], [], [['o', 'u', 't']], []⟩
def treeW1 : Tree := .dir (.cons ['o', 'u', 't', 'p', 'u', 't'] (.dir (.cons ['B'] (.leaf .file) .nil)) .nil)
/-- BUILD file name `B`, blacklist `m`; a regular file `m` next to a package `q/`. -/
def cfgW2 : Config := ⟨[['B']], [], [['m']], []⟩
def treeW2 : Tree := .dir (.cons ['m'] (.leaf .file) (.cons ['q'] (.dir (.cons ['B'] (.leaf .file) .nil)) .nil))

/-- **Old structure, witness 1 (blacklist by string prefix: `strings.HasPrefix(name, dir)`).**  Blacklisting `out`
    hid `output/`.  A statement about `Facts.canon`, the formulas the source had before the repair. -/
theorem C22_old_witness_blacklist_string_prefix :
    Tree.wf treeW1 = true ∧ cfgOK plzOut cfgW1 = true ∧
    findAll Facts.canon cfgW1 [] treeW1 = [] ∧
    specNames plzOut cfgW1 [] treeW1 = [['o', 'u', 't', 'p', 'u', 't', '/', 'B']] := by decide

/-- **Old structure, witness 2 (`filepath.SkipDir` returned for a non-directory; godirwalk then drops the
    remaining siblings).**  Independent of witness 1: it also failed with the whole-component test. -/
theorem C22_old_witness_nondir_skipdir_cuts_siblings :
    Tree.wf treeW2 = true ∧ cfgOK plzOut cfgW2 = true ∧
    findAll Facts.canon cfgW2 [] treeW2 = [] ∧
    findAll Facts.canonComp cfgW2 [] treeW2 = [] ∧
    specNames plzOut cfgW2 [] treeW2 = [['q', '/', 'B']] := by decide

/-- The witnesses, conditional on the *old facts*: for any facts whose callback is the old one (and godirwalk's
    sorted walk with the cut on a non-directory `SkipDir`), the two expansions are empty although the
    specification lists a package.  With the facts read on this run the hypothesis is false. -/
theorem C22_witnesses_if_old_callback (F : Facts) (hcb : callback F = callback Facts.canon)
    (hs : F.sorted = true) (hc : F.cutOnNonDir = true) :
    findAll F cfgW1 [] treeW1 = [] ∧ findAll F cfgW2 [] treeW2 = [] ∧
    specNames plzOut cfgW1 [] treeW1 ≠ [] ∧ specNames plzOut cfgW2 [] treeW2 ≠ [] := by
  refine ⟨?_, ?_, by decide, by decide⟩
  · simp only [findAll, hcb, hs, hc, if_true]; decide
  · simp only [findAll, hcb, hs, hc, if_true]; decide

/-- The old structure refutes the full-strength statement (why the repair was needed). -/
theorem C22_old_structure_refuted :
    ¬ ∀ (cfg : Config) (p : List Name) (cs : Forest), Forest.wf cs = true → goodPath p = true →
        cfgOK plzOut cfg = true →
        (findAll Facts.canon cfg p (.dir cs)).Perm (specNames plzOut cfg p (.dir cs)) := by
  intro h
  have := h cfgW1 [] (.cons ['o', 'u', 't', 'p', 'u', 't'] (.dir (.cons ['B'] (.leaf .file) .nil)) .nil)
    (by decide) (by decide) (by decide)
  have e1 : findAll Facts.canon cfgW1 [] treeW1 = [] := by decide
  have e2 : specNames plzOut cfgW1 [] treeW1 = [['o', 'u', 't', 'p', 'u', 't', '/', 'B']] := by decide
  simp only [treeW1] at e1 e2
  rw [e1, e2] at this
  exact absurd this.length_eq (by decide)

/-! ### the specification, declaratively -/

/-- **The recursive specification says what the property says.**  `x` is listed by `spec` for the directory `p` with
    listing `cs` iff it is `p/rel/b` where `p/rel` is a directory reached through directories only, `b` is a
    non-directory entry of it named like a BUILD file, and none of the directories `p`, `p/rel₁`, …, `p/rel` is
    `plz-out`, hidden, an experimental directory or blacklisted by whole path components (`specExcluded`). -/
theorem C22_spec_declarative (cfg : Config) (p : List Name) (cs : Forest) (hn : Forest.nodup cs = true) (x : List Name) :
    x ∈ spec plzOut cfg p (.dir cs) ↔
      ∃ rel ds b k, x = p ++ rel ++ [b] ∧ dirAt cs rel = some ds ∧ Forest.get b ds = some (.leaf k) ∧
        cfg.buildNames.contains b = true ∧ ∀ j, j ≤ rel.length → specExcluded plzOut cfg (p ++ rel.take j) = false := by
  rw [mem_spec_iff plzOut cfg x cs p hn]
  constructor
  · rintro ⟨rel, ds, b, k, h1, h2, h3, h4, h5⟩
    exact ⟨rel, ds, b, k, h1, h2, h3, h4, fun j hj => h5 j (Nat.zero_le _) hj⟩
  · rintro ⟨rel, ds, b, k, h1, h2, h3, h4, h5⟩
    exact ⟨rel, ds, b, k, h1, h2, h3, h4, fun j _ hj => h5 j hj⟩

end PlzVerif.Props.C22
